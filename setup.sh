#!/bin/bash
# Build the engine offline from /verif/engine (go1.26.8, x/tools v0.50.0 from the module cache).
set -e
cd "$(dirname "$0")/engine"
export GOFLAGS=-mod=mod GOPROXY=off GOSUMDB=off GOTOOLCHAIN=local PATH=/opt/veriftools/go1.26.8/bin:$PATH
mkdir -p ../bin
go build -o ../bin/symgo .
# regenerate the native-call registry from /repo's current SSA and rebuild if it changed
cp native_gen.go /tmp/native_gen.$$.old 2>/dev/null || true
../bin/symgo gen native_gen.go >/dev/null
if ! cmp -s native_gen.go /tmp/native_gen.$$.old; then go build -o ../bin/symgo .; fi
rm -f /tmp/native_gen.$$.old
echo "symgo built"
