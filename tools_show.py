import json,sys
r=json.load(open(sys.argv[1]))
for c in r['cases'] or []:
    print(c['obligation'],c['params'],'paths',c['paths'],c['ends'],'reach',c['reached'],'viol',[ (v['msg'],v['values']) for v in (c['violations'] or [])][:3],'inc',(c['inconclusive'] or [])[:3], '%.1fs'%c['wall_s'])
print('unsupported',r['stats']['unsupported'])
print('missing',r['missing_natives'],'load %.1f init %.1f'%(r['load_s'],r['init_s']))
print('extra',r.get('extra'))
print('errors',(r['engine_errors'] or [])[:2])
print('faults',r['fault_sites'])
print('solver',r['solver'])
