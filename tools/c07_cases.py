#!/usr/bin/env python3
"""Regenerates /verif/harness/obligations.d/C07.json (carrier kinds x exit kinds of zz_verif_c07.go)."""
import re, json
src = open('/verif/harness/pkg/cl/zz_verif_c07.go').read()
names = re.findall(r'^\t"([\w-]+)",\s+// \d+', src, re.M)
NC = len(names)
NX = int(re.search(r'zzC07NExits\s*=\s*(\d+)', src).group(1))
OVR = {"github.com/ohler55/slip.ObjectString": "github.com/ohler55/slip/pkg/cl.zzStubObjectString",
       "(*github.com/ohler55/slip/pkg/cl.Open).openFile": "github.com/ohler55/slip/pkg/cl.zzStubOpenFile"}
d1 = [[-1,-1,-1,x] for x in range(NX)] + [[c,-1,-1,x] for c in range(NC) for x in range(NX)]
def d2(mod, r=0):
    return [[c0,c1,-1,x] for c0 in range(NC) for c1 in range(NC) for x in range(NX) if (c0*13+c1*7+x*3) % mod == r]
def d3(mod):
    return [[c0,c1,c2,x] for c0 in range(NC) for c1 in range(NC) for c2 in range(NC) for x in range(NX) if (c0*131+c1*31+c2*7+x*3) % mod == 0]
quick = d1 + d2(60)
thorough = d1 + d2(4) + d3(800)
CARVES = ["C07-exit-in-argument-position", "C07-conditional-ignores-exit", "C07-binding-form-takes-exit-as-value",
  "C07-mapcar-continues-after-exit", "C07-tagbody-drops-return", "C07-tagbody-evaluates-symbol-tags", "C07-go-backward-lost",
  "C07-go-outward-lost", "C07-do-drops-named-return", "C07-body-continues-after-exit", "C07-go-to-missing-tag-not-detected",
  "C07-do-atom-end-test-never-true", "C07-lambda-body-symbol-never-unbound", "C07-ignore-errors-misses-raw-condition"]
findings = [[0,-1,-1,1],[13,-1,-1,1],[5,-1,-1,1],[38,-1,-1,1],[45,-1,-1,1],[44,-1,-1,0],[45,-1,-1,5],[45,42,-1,4],[4,30,-1,1],
            [48,-1,-1,1],[29,-1,-1,4],[31,-1,-1,9],[35,-1,-1,9],[48,-1,-1,9]]
NOTE = ("Program = (block b0 pre C0[C1[C2[EXIT]]] post): up to three nested carriers out of %d (form kind x position of the hole: "
  "progn/prog1/function argument, let/let* body and init, setq value, if/when/unless/cond/case/and/or test and body positions, "
  "dolist/dotimes/do/do* body, count/list, test, init and result forms, funcall/lambda-call/mapcar/defun bodies and arguments, "
  "multiple-value-bind, block, tagbody with symbol and integer tags, unwind-protect protected and cleanup position, ignore-errors, "
  "gi recover, gi with-mutex-lock, with-open-file, values, return-from value) around one of %d exits (fall through; return-from the outermost / "
  "the nearest / the defun's block; return; go forward / backward (guarded by a counter) to the nearest / outermost tagbody; "
  "(error ..), (/ 1 0), unbound variable, (car 5), undefined function; return-from with two values; exits guarded by a symbolic "
  "test). Trace markers (zzvtrace, symbolic values) before and after the hole of every carrier and in every cleanup form. "
  "Symbolic: all marker values, the operands of every test, case keys, loop counts (assumed -1..2 by the reference run; do <= 2 "
  "iterations, <= 8 backward jumps). Oracle: zzRef (zz_verif_c01.go) with lexical blocks/tags, exits propagating through every form, "
  "cleanups once, innermost first; asserted: ordered trace (so every cleanup exactly once and nothing after an exit), result "
  "values, final values of the counters, condition class of an unhandled error (must appear in the condition's hierarchy), "
  "no exit marker escaping as a value, no Go fault, and in the engine that no sync.Mutex is held at the end (vrt.HeldLocks; an "
  "unlock of an unlocked mutex ends the path as badunlock). Stub: slip.ObjectString -> constant (error/stack text only). "
  "An evaluation budget (Scope.InterruptCheck, 400 function evaluations) turns wrong non-termination into a panic. "
  "with-open-file: the engine has no file system, so (*Open).openFile is replaced by a stub returning an object that counts "
  "its Close calls (asserted: exactly one, on every path); binding, body evaluation and the deferred close are the real code; the "
  "native replay opens /dev/null and asserts that a second close fails. Not covered: the open options, handler-case/restarts, exits out of method bodies, depth >= 4. "
  "Carve-outs: region predicates over the positions at which the reference run saw an exit leave a sub-form (form/position/kind)."
  ) % (NC, NX)
spec = [
 {"id": "C07.exit", "property": "C07", "pkg": "pkg/cl", "entry": "VerifC07Exit", "extra_files": ["zz_verif_c01.go"],
  "cases": {"quick": quick, "thorough": thorough}, "reach": ["compared", "agreed", "agreed-error"],
  "max_depth": 400, "max_steps": 20000000, "solver_timeout_ms": 10000, "int_mode": True, "carves": [], "overrides": OVR,
  "note": NOTE + " Bounds: quick = every carrier x every exit (%d) + 1/60 of the %d two-carrier nests (%d); thorough = a quarter of the two-carrier "
          "nests + 1/800 of the %d three-carrier nests." % (len(d1), NC*NC*NX, len(d2(60)), NC*NC*NC*NX),
  "assumptions": ["dotimes counts -1..2, do/do* <= 2 iterations, <= 8 backward jumps, <= 12 function calls per program"]},
 {"id": "C07.findings", "property": "C07", "pkg": "pkg/cl", "entry": "VerifC07Exit", "extra_files": ["zz_verif_c01.go"],
  "cases": {"quick": findings, "thorough": findings}, "reach": ["compared"],
  "max_depth": 400, "max_steps": 20000000, "solver_timeout_ms": 10000, "int_mode": True, "carves": CARVES, "overrides": OVR,
  "note": "Same entry as C07.exit on one program per known finding; the probe runs confirm that each finding still reproduces inside its region."},
]
keep = [o for o in json.load(open('/verif/harness/obligations.d/C07.json')) if o['id'] not in ('C07.exit', 'C07.findings')]
json.dump(spec[:1] + keep + spec[1:], open('/verif/harness/obligations.d/C07.json', 'w'), indent=0)
print("quick", len(quick), "thorough", len(thorough))
