#!/bin/bash
# usage: mkfixdir.sh ID   — private /verif copy + scratch worktree for a fix agent
set -e
id=$1
rm -rf /tmp/fix/$id/verif
git -C /repo worktree remove --force /tmp/fix/$id/repo 2>/dev/null || true
rm -rf /tmp/fix/$id; mkdir -p /tmp/fix/$id/ev
git -C /repo worktree add --detach /tmp/fix/$id/repo HEAD >/dev/null 2>&1
git -C /tmp/fix/$id/repo rev-parse --short HEAD > /tmp/fix/$id/base
rsync -a --exclude .git --exclude 'bin/symgo-*' --exclude seeded --exclude evidence /verif/ /tmp/fix/$id/verif/
mkdir -p /tmp/fix/$id/verif/evidence
echo "/tmp/fix/$id ready (base $(cat /tmp/fix/$id/base))"
