#!/usr/bin/env python3
"""Regenerate /verif/MANIFEST.json from the per-property table below and the obligation specs.
A property is listed under checks only if it is in CLAIMED; everything else goes to not_applicable."""
import json, glob, os, sys

VERIF = os.path.dirname(os.path.dirname(os.path.abspath(__file__)))
TECH = "go/ssa symbolic execution of /repo's working tree (symgo) + SMT (z3 4.8.12, cvc5 fallback); every counterexample replayed natively"
COMMON_NOTE = ("Bounds, stubs and assumptions of every obligation are in evidence.coverage.obligation_list/bounds; anything beyond the stated sizes is outside the claim. "
               "Trusted base: go/ssa construction, the symgo interpreter and its library models (listed in DESIGN.md section 0), z3/cvc5, the Go toolchain used for the native replay. ")

PROPS = {
 "C01": ("Bounded symbolic model checking of the evaluator: generated core-language programs (skeleton from case parameters, literals symbolic 64-bit fixnums) are run through the real registry/Function.Eval/Lambda.Call/special forms and compared — value and ordered trace of every evaluated position — with an independent reference evaluator.",
         "Program depth/size bounds as stated per obligation; floats, user macros and deeper nesting are outside."),
 "C02": ("Bounded symbolic model checking of the real reader (reader.read, closeList, pushToken, pushChar, pushInteger, makeToken, ReadStream/ReadStreamEach/ReadOne block loops): every byte string up to the stated length (all 256 byte values for the short lengths, a stated alphabet beyond), every cut position, both EOF conventions; whole-buffer read vs chunked / callback / one-at-a-time read compared structurally; truncated texts must not read as values.",
         "reader.resolveToken is replaced by an injective stub (Symbol(token)) in these runs; *read-base* and the float format are the defaults."),
 "C03": ("Bounded symbolic model checking of print→read round trips on the real printer and the real reader incl. resolveToken (regexp matches through an NFA model over symbolic bytes): every Unicode scalar as a character, short symbol names over all ASCII bytes under every *print-case*, short strings, fully symbolic fixnums in every base with radix.",
         "Floats, ratios, bignums, nested structure/pretty printing margins and *print-readably* strings (escaped by the external ojg module) are not covered."),
 "C04": ("Bounded symbolic model checking of Lambda.Call/DefLambda against an independent reference binder over lambda-list shapes and argument vectors (values symbolic), the same through lambda/funcall/apply/defun, and the documented-arity relation of every built-in of six packages (argument count enumerated, executed by the engine, replayed natively).",
         "The arity part enumerates argument counts with concrete arguments (stated as enumeration in the evidence); functions with external side effects are excluded by an explicit list."),
 "C05": ("Bounded symbolic model checking of the integer tower: + - * (binary/unary), abs 1+ 1-, floor/ceiling/truncate/round with mod/rem, comparisons, min/max, zerop/plusp/minusp, ash, gcd on fixnum (fully symbolic 64-bit) and bignum (unbounded SMT integer) operands: exact value, canonical representation, operands unchanged. Int-with-wrap encoding keeps Go's mod-2^64 semantics.",
         "Ratios, floats (incl. comparisons with floats), expt, isqrt, lcm, logand/logior/logxor and bignum ash are not covered (no SMT model for big.Rat/big.Float/Bytes; expt/isqrt go through float64); round is checked on operands below 2^10, gcd below 2^3..2^4."),
 "C06": ("One inductive step of every list operation from an arbitrary valid pool of aliased lists (shapes from case parameters over shared backing arrays with spare capacity, all cell values symbolic): no forbidden store, contents per a cons-cell reference model, result placement, and re-establishment of the representation invariant; plus insertMethod and RemovePackage as users of the same slice idioms.",
         "Multi-step histories are covered through the inductive invariant only; pool elements are fixnums; len/cap bounds as stated."),
 "C07": ("Bounded symbolic model checking of non-local exits: generated programs nesting block/tagbody/unwind-protect/ignore-errors/with-mutex-lock with one exit of each kind, compared (value, trace incl. cleanups, condition class) with a reference evaluator with exits; mutex release checked by the engine's lock model.",
         "Nesting depth and positions as stated per obligation."),
 "C08": ("Bounded symbolic model checking of order/compilation/re-evaluation independence: generated multi-definition programs evaluated under every permutation and mode (direct, Code.Compile, k-fold re-evaluation, redefinition) and compared with a reference evaluator that has no notion of order or caching.",
         "≤ 3 definitions, body depth and k as stated."),
 "C09": ("Bounded symbolic model checking of 'no Lisp-level input faults the host': (a) the real reader incl. resolveToken on every text of <= 2 (3) bytes over all 256 values and <= 3 (4) over a 35-byte alphabet through Read/ReadOne/ReadStream; (b) format control strings of <= 3 (4) symbolic bytes over a 44-byte directive alphabet with 0-2 arguments, ~R and ~T families; (c) 153 index/bound/size taking call shapes x 4 sequence kinds x lengths 0..3 with fully symbolic fixnum arguments; (d) every registered function called with 0, 1, 2 arguments from a 12-object pool (exhaustive enumeration executed by the engine, labelled as such). Every evaluation runs under a guard that turns a Go run-time fault, an allocation that can exceed 2^31 elements and a run past the step budget into assertion failures, replayed natively under a 10 s / 2 GiB watchdog.",
         "Termination is not proved (only budget overruns are flagged); float/time/bag arguments, 3+-argument tuples, integer sizes in (8, 2^31], @time and symbolic-digit ratio tokens, 44 functions with external side effects are outside."),
 "C10": ("Bounded symbolic model checking of generic dispatch on the real Aux/Method/WhopLoc code: every method table over the stated class chains × qualifiers (bits as parameters/solver forks), argument of each class, compared (outcome class, trace, value) with a cache-free reference dispatcher; cache-coherence invariant on the real maps after every call/defmethod/remove-method; operation histories of length ≤ 3–4.",
         "The concurrency clause is not explored (lock discipline is C17's subject); histories longer than 4 are outside."),
 "C11": ("Bounded symbolic model checking of flavors: flavor DAG, method/whopper assignment and the order of the definition forms from case parameters and solver forks, instance-variable defaults symbolic; trace of a send, returned value and inherited defaults/accessors compared with the component-order rule.",
         "≤ 3–4 flavors, ≤ 4–6 methods as stated."),
 "C12": ("Bounded symbolic model checking of CLOS classes: class DAG, slot options, redefinition from case parameters, every permutation of the defclass forms as solver forks, initforms/initargs symbolic: precedence lists (also after every prefix of the history), slot values/boundness for every initarg subset, accessor locality, typep/class-of, method applicability against an order-independent oracle.",
         "n ≤ 5 classes, ≤ 2 direct superclasses, 2 slot names; Go map iteration is insertion-ordered in the engine (map-order-dependent defects are probed by native repetition)."),
 "C13": ("Bounded symbolic model checking of package visibility: one operation from every coherent pre-state built through the real API, and operation histories up to length 3–4, with symbolic variable values; after each step every name (plain, p:name, p::name) is resolved from every package and compared with a model that recomputes visibility from the use/export graph.",
         "2–3 packages, 1 variable and 1 function name; import/shadow/intern/delete-package are outside."),
 "C14": ("Bounded symbolic model checking of the sequence functions on lists, vectors and strings of length 0..3–4 with symbolic elements, item, :start/:end/:count and keyword presence as solver forks, :key/:test as harness functions, against index-based CLHS reference implementations.",
         ":test-not and the -if-not functions do not exist in slip; stability above Go's insertion-sort threshold is outside."),
 "C15": ("Bounded symbolic model checking of format directives on the real control-string processor: integer directives with symbolic argument/mincol/padchar/commachar, ~R cardinal/ordinal/roman, argument navigation and conditionals/iteration with symbolic selectors, ~A/~S vs princ/prin1, against independent per-directive renderers.",
         "Float directives, ~< ~>, ~/ and compositions beyond the stated ones are outside."),
 "C16": ("Bounded symbolic model checking of eq/eql/equal/equalp implication and equivalence axioms over kind pairs/triples with symbolic payloads, sxhash agreement (concrete representatives: enumeration), hash tables as finite maps over short operation histories with symbolic keys, typep/type-of/subtypep/coerce coherence over the real class registry.",
         "Floats are concrete representatives; eq is modelled at the level of Go interface words (only boxing-independent facts are asserted)."),
 "C17": ("(1) Lock-discipline (lockset) checking by symbolic execution: every entry point of the shared package tables, the generic-function caches and synchronized instances is executed from a coherent state with the engine's mutex model; a monitor flags every read/write of the guarded tables without the owning mutex and every mutex left held; a violation is confirmed natively by running the operation from two goroutines under the Go race detector. (2) Bounded symbolic model checking of the real pkg/gi channel / run / select / range / with-mutex-lock / set-synchronized code on the engine's deterministic cooperative task model (channels as FIFO queues, `go` = task, select among ready cases by solver choice, deadlock = every task blocked) with symbolic payloads: FIFO order and exactly-once delivery, close semantics, range, select clause choice, mutex release on every exit, counters under a lock, synchronized instances; engine predictions are compared with native runs on real goroutines for schedule-independent facts.",
         "Part (1) is a sufficient condition over all schedules (lockset on every explored path); part (2) explores ONE schedule per program plus a stated number of alternative scheduling decisions — preemption between scheduling points, lost updates of unlocked user programs and Select.reflectClauses are NOT explored."),
 "C18": ("Bounded symbolic model checking of the Go data bridge and the bag: SimpleObject∘Simplify on every scalar kind with full-width symbolic payloads and on []any/map[string]any trees of depth <= 2; ObjectToBag∘bag-native; bag-set / bag-remove / bag-modify / bag-get / bag-get-all / bag-has / bag-walk histories of 1–3 operations over 15 document shapes and a 29-path grid (keys, indices incl. negative and symbolic, wildcards, slices, descent, root paths) with symbolic leaves, against an independent JSON-path reference model — the ojg jp/oj/sen/alt packages are interpreted from their own SSA in these runs; parse→write→parse round trips over 26 concrete shapes x write options; json-parse with several documents and a receiver that keeps the bags; recovery after a parse error.",
         "Document text is concrete (bounded enumeration executed by the engine, said so in the notes); filter expressions, unions, bag-read streams, time values, colour/time output options, integers beyond int64 and symbolic keys are outside."),
 "C19": ("Bounded symbolic model checking of load forms: eval(LoadForm(x)) equal and same type for numbers/strings/symbols/lists/vectors/arrays/hash tables/lambdas/calls with symbolic leaves; through text with the pretty-printer's right margin symbolic in 20..120; fixed point of definition load forms (defun, defmacro, defflavor, defclass, defgeneric) and the variable part of a snapshot.",
         "snapshot → fresh process → reload is out of reach (one address space); ratios/floats through text are outside."),
 "C20": ("Bounded symbolic model checking of REPL persistence on an in-engine file-system model (files as byte vectors with real open-flag semantics, rename atomic, one step per call, crash point as a solver choice): encoding round trip with symbolic runes, restart equivalence after Add/SetLimit/Clear sequences, process death at every file-system step of Add/Clear followed by reload, Stash.clear range semantics, config file re-readability. Crash counterexamples are replayed natively by constructing the surviving directory.",
         "≤ 4 operations per history, ≤ 12 seeded entries, ≤ 5 symbolic runes; torn single writes and power loss are outside (process death at syscall granularity)."),
}

NA_REASONS = {
}


def main():
    claimed = sys.argv[1:]
    m = json.load(open(os.path.join(VERIF, "MANIFEST.json")))
    props = [json.loads(l) for l in open(os.path.join(VERIF, "properties.jsonl"))]
    specs = []
    for f in sorted(glob.glob(os.path.join(VERIF, "harness", "obligations.d", "*.json"))):
        specs += json.load(open(f))
    checks, na = [], []
    for p in props:
        pid = p["id"]
        if pid in claimed and PROPS.get(pid, ("",))[0]:
            text, note = PROPS[pid]
            obl = [s["id"] for s in specs if s["property"] == pid]
            checks.append({
                "property_id": pid, "quick_cmd": "./check %s --tier quick" % pid, "thorough_cmd": "./check %s --tier thorough" % pid,
                "evidence_file": "/verif/evidence/%s.json" % pid, "replay_cmd_template": "./check replay {path}", "engine": "symgo",
                "level_claimed": {"category": "model_checking", "text": text + " Obligations: " + ", ".join(obl) + ".", "design_ref": "DESIGN.md sections 0 and 4 (%s)" % pid},
                "level_note": COMMON_NOTE + note, "technique": TECH})
        else:
            na.append({"property_id": pid, "reason": NA_REASONS.get(pid, "check not registered yet (under construction)")})
    import subprocess
    fixes = subprocess.run(["git", "-C", "/repo", "log", "--format=%h %s", "--grep", "^fix:"], capture_output=True, text=True).stdout.strip().splitlines()
    m["hooks"]["source_commits"] = [l.split()[0] for l in fixes][::-1]
    m["hooks"]["enable"] = "no hooks in /repo: harnesses, the zzvrt API package and replay tests enter through go/packages Overlay and `go test -overlay`; source_commits lists the unguarded `fix:` commits (genuine defects repaired)"
    m["notes"] = ("All checks share one engine (symgo). Known findings: /verif/known_findings.txt and /verif/known_findings.d/CNN.txt. "
                  "Seeded changes tried against the checks: /verif/seeded/<ID>_m<k>/ (patch, demonstration, meta.json with the outcome).")
    m["checks"] = checks
    m["not_applicable"] = na
    m["engines"] = [{"name": "symgo", "path": "/verif/engine", "serves_properties": [c["property_id"] for c in checks],
                     "kind_free_text": "symbolic executor for go/ssa (SSA rebuilt from /repo's working tree on every run): bit-vector / Int-with-wrap terms, path forking by re-execution with an undo journal, z3 4.8.12 (+ cvc5 fallback) as decision procedure, native replay of every counterexample via go test -overlay"}]
    json.dump(m, open(os.path.join(VERIF, "MANIFEST.json"), "w"), indent=1)
    print("claimed:", [c["property_id"] for c in checks])


if __name__ == "__main__":
    main()
