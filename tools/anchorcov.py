#!/usr/bin/env python3
"""Which functions of each property's anchor files were executed (encoded) by its check, per the evidence."""
import json,re,os,sys
props=[json.loads(l) for l in open('/verif/properties.jsonl')]
only=sys.argv[1:] 
for p in props:
    pid=p['id']
    if only and pid not in only: continue
    try: ev=json.load(open('/verif/evidence/%s.json'%pid))
    except Exception as e: print(pid,'no evidence'); continue
    names=set(ev['coverage'].get('functions_encoded') or {})
    tot=0;hit=0;missing={}
    for f in p['anchors']['files']:
        path=os.path.join('/repo',f)
        if not os.path.isfile(path) or not f.endswith('.go'): continue
        src=open(path).read()
        pkgdir=os.path.dirname(f)
        pkg='github.com/ohler55/slip'+('/'+pkgdir if pkgdir else '')
        for m in re.finditer(r'^func (?:\((\w+) (\*?)(\w+)\) )?(\w+)\(',src,re.M):
            recv,star,typ,fn=m.groups()
            if fn in('init','String','Append','Simplify','Equal','Hierarchy','Eval','Describe','FuncDocs','Docs','Readably'): continue
            full=('(%s%s.%s).%s'%(star,pkg,typ,fn)) if typ else '%s.%s'%(pkg,fn)
            tot+=1
            if full in names: hit+=1
            else: missing.setdefault(f,[]).append((typ+'.' if typ else '')+fn)
    print('%s: %d/%d anchor functions executed'%(pid,hit,tot))
    for f,v in missing.items(): print('    %s: %s'%(f,' '.join(v[:30])))
