#!/usr/bin/env python3
"""Regenerates /verif/harness/obligations.d/C08.json."""
import json
OVR = {"github.com/ohler55/slip.ObjectString": "github.com/ohler55/slip/pkg/cl.zzStubObjectString"}
cases = []
for shape in range(5):           # chain, fan, mutual recursion, self recursion, calls without arguments
    sites = range(7) if shape != 4 else [0]
    for site in sites:
        for order in range(6):
            for mode in range(5):
                cases.append([shape, site, order, mode])
redef = []
for shape in (5, 6, 7):          # redefinition scenarios: direct evaluation only (Code.Compile hoists all defuns by design)
    sites = range(7) if shape != 7 else [0]
    for site in sites:
        for order in ((0, 1) if shape == 5 else (0,)):
            for mode in (0, 2):
                redef.append([shape, site, order, mode])
clos = [[shape, site, order, mode] for shape in (10, 11) for site in range(7) for order in (0, 1) for mode in range(5)] + [[12, site, order, mode] for site in range(7) for order in (0, 3, 5) for mode in range(5)]
clos += [[13, site, order, mode] for site in (0, 2, 5) for order in (0, 3, 5) for mode in range(5)] + [[14, site, order, mode] for site in range(7) for order in (0, 1) for mode in (0, 4)]
closq = [c for c in clos if (c[0] != 12 and c[1] in (0, 2, 5) and c[3] in (0, 1, 2)) or (c[0] == 12 and c[2] == 0 and c[3] in (0, 1, 2)) or (c[0] == 13 and c[1] == 0 and c[2] == 0) or (c[0] == 14 and c[1] in (0, 5) and c[2] == 0)]
glob = [[shape, site, order, mode] for shape in (8, 9) for site in range(7) for order in range(6) for mode in range(5)]
# quick: every order x {list forms, compiled} for the bare, nested-in-+ and if-test readers; the re-evaluation modes on two orders
globq = [c for c in glob if (c[1] in (0, 2, 3) and c[3] in (0, 1)) or (c[1] in (0, 1, 2, 4) and c[2] in (0, 3) and c[3] in (2, 3, 4))]
quick = [c for c in cases if (c[2] in (0, 5) and c[1] != 6) or (c[3] == 0 and c[2] == 3)] + redef + globq + closq
thorough = cases + redef + glob + clos
findings = [[0,2,5,0],[0,0,0,0],[0,1,0,1],[6,0,0,0],[7,0,0,0]]
NOTE = ("Program = top-level forms: defuns of zza/zzb/zzc whose bodies are C01 trace forms calling each other with symbolic "
  "arguments, then main calls. shape: 0 chain a->b->c, 1 fan a->b,c, 2 mutual recursion a<->b guarded by a symbolic counter, 3 self "
  "recursion + call, 4 calls without arguments, 5 redefinition of the callee between two evaluations of the same main form, 6 "
  "call site created after a first redefinition then a second redefinition, 7 caller defined before its callee exists, a second "
  "caller after it, then a redefinition; 8/9 a function zzget reading a global variable that may not exist yet when zzget is defined, "
  "the global introduced by defvar (8) or a top-level setq (9), a second function zzset assigning it, main = (zzget) (zzset L) (zzget); "
  "for these two shapes the definitions permuted are {defun zzget, defvar/setq, defun zzset} and site selects how zzget refers to the "
  "variable: bare body form, bare after another form, (+ v m), (if v (list v m) m), inside a trace form, let body, body of a lambda "
  "made at call time; 10/11 the callee zzb is defined by a defun INSIDE a let whose variable its body uses (a closure), before or after "
  "its caller (order), and redefined between two evaluations of the main form inside another let (10) or at top level (11); 12 an applied lambda form ((lambda (a) ..) arg) below a let and referring to the let variable, inside a function called several times with different arguments, site = what surrounds the applied form; 13 multiple values in argument positions of ordinary calls (only the primary value reaches the function, at the first and at every later evaluation, compiled or not); 14 a function redefined with another number of required parameters after it was called, later calls follow the new lambda list. site (kind of call site, shapes 0-7): bare body form, argument of +, inside a trace form, branch of if "
  "with a symbolic test, body of let, (funcall (quote f) ..), argument of progn. order: all 6 permutations of the three definitions. "
  "mode: 0 Scope.Eval of each list form in order; 1 slip.Code + Code.Compile() + evaluation of the compiled objects; 2 the forms "
  "after the definitions evaluated 3 times (same list objects, so the in-place rewriting of the first evaluation is in effect); 3 "
  "compiled objects evaluated 3 times; 4 the whole sequence including the defuns evaluated twice. Symbolic: all literals "
  "(arguments, recursion depth, tests), 32-bit range; recursion bounded by <= 12 calls per program (assumed in the reference run). "
  "Oracle: zzRef evaluates the forms in schedule order with late binding of function names (no notion of compilation, caching or "
  "definition order for programs without redefinition); asserted: ordered trace, the value of every top-level evaluation, no "
  "condition, no Go fault. Stub: slip.ObjectString (message text only). Carve-out regions are computed by a small model of which "
  "function object a call form gets bound to (zzSite) inside the reference run. Outside: defmacro, load from files, packages other "
  "than the current one, redefinition under Code.Compile (definitions are evaluated at compile time by design).")
spec = [
 {"id": "C08.order", "property": "C08", "pkg": "pkg/cl", "entry": "VerifC08Order", "extra_files": ["zz_verif_c01.go"],
  "cases": {"quick": quick, "thorough": thorough}, "reach": ["compared", "agreed"],
  "max_depth": 400, "max_steps": 20000000, "solver_timeout_ms": 10000, "int_mode": True, "carves": [], "overrides": OVR, "note": NOTE,
  "assumptions": ["<= 12 function calls per program"]},
 {"id": "C08.findings", "property": "C08", "pkg": "pkg/cl", "entry": "VerifC08Order", "extra_files": ["zz_verif_c01.go"],
  "cases": {"quick": findings, "thorough": findings}, "reach": ["compared"],
  "max_depth": 400, "max_steps": 20000000, "solver_timeout_ms": 10000, "int_mode": True,
  "carves": ["C08-forward-call-drops-arguments", "C08-redefinition-not-seen-by-later-call-sites"], "overrides": OVR,
  "note": "Same entry on the programs that hit the known findings; the probe runs confirm that each still reproduces."},
]
json.dump(spec, open('/verif/harness/obligations.d/C08.json', 'w'), indent=0)
print("quick", len(quick), "thorough", len(thorough))
