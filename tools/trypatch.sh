#!/bin/bash
# usage: trypatch.sh <patch.diff> <symgo run args...>   — run the engine against a scratch worktree with the patch applied
set -e
P=$1; shift
WT=/tmp/try_$$
git -C /repo worktree add --detach $WT HEAD >/dev/null 2>&1
trap "git -C /repo worktree remove --force $WT >/dev/null 2>&1; rm -rf $WT" EXIT
git -C $WT apply "$P" || git -C $WT apply -C1 --recount "$P"
SYMGO_REPO=$WT /verif/bin/symgo run "$@" > /tmp/try_$$.json 2>/tmp/try_$$.err || true
python3 /verif/tools_show.py /tmp/try_$$.json | grep -v "^missing\|^extra\|^errors \[\]\|^faults {}\|^unsupported {}" 
rm -f /tmp/try_$$.json /tmp/try_$$.err
