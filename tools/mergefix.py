#!/usr/bin/env python3
"""Merge a fix agent's work: cherry-pick its commits into /repo, copy its harness / known-findings files
for the given properties back into /verif, remap commit hashes in the fixed: lines.
usage: mergefix.py DIRID PROP [PROP...]"""
import glob, os, re, shutil, subprocess, sys

def sh(*cmd, **kw):
    r = subprocess.run(cmd, capture_output=True, text=True, **kw)
    return r.returncode, r.stdout + r.stderr

def main():
    d = sys.argv[1]; props = sys.argv[2:]
    root = "/tmp/fix/%s" % d
    base = open(root + "/base").read().strip()
    rc, out = sh("git", "-C", root + "/repo", "log", "--reverse", "--format=%h\t%s", "%s..HEAD" % base)
    commits = [l.split("\t", 1) for l in out.strip().splitlines() if l.strip()]
    print("%d commits" % len(commits))
    mapping = {}
    for h, subj in commits:
        rc, out = sh("git", "-C", "/repo", "cherry-pick", h)
        if rc != 0:
            print("CHERRY-PICK FAILED for", h, subj, "\n", out[-1500:])
            sh("git", "-C", "/repo", "cherry-pick", "--abort")
            sys.exit(1)
        rc, nh = sh("git", "-C", "/repo", "rev-parse", "--short", "HEAD")
        mapping[h] = nh.strip()
        print("  %s -> %s %s" % (h, nh.strip(), subj[:90]))
    for p in props:
        n = p.lower()
        files = [f for f in glob.glob(root + "/verif/harness/**/*", recursive=True) if os.path.isfile(f) and re.search(r"zz_verif_%s|obligations\.d/%s\." % (n, p), f)]
        files.append(root + "/verif/known_findings.d/%s.txt" % p)
        for f in files:
            dst = "/verif" + f[len(root + "/verif"):]
            os.makedirs(os.path.dirname(dst), exist_ok=True)
            if f.endswith(".txt"):
                s = open(f).read()
                for o, nn in mapping.items():
                    s = re.sub(r"\b%s[0-9a-f]*\b" % o, nn, s)
                open(dst, "w").write(s)
            else:
                shutil.copy(f, dst)
        print("copied %d files for %s" % (len(files), p))

main()
