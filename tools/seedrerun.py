#!/usr/bin/env python3
"""Re-run already filed seeded changes (seeded/<ID>_m<k>/) against the current /repo HEAD and the current checks.
usage: seedrerun.py C11_m2 C13_m1 ...   (or 'all');  env VERIF_SHARDS is passed on to ./check"""
import json, os, shutil, subprocess, sys
VERIF = os.path.dirname(os.path.dirname(os.path.abspath(__file__)))
names = sys.argv[1:]
if names == ["all"]:
    names = sorted(d for d in os.listdir(os.path.join(VERIF, "seeded")) if os.path.isdir(os.path.join(VERIF, "seeded", d)))
for name in names:
    pid, k = name.split("_m")
    sdir = os.path.join(VERIF, "seeded", name)
    src = "/tmp/seedre_%s" % name
    mdir = os.path.join(src, "%s.out" % pid, "m%s" % k)
    shutil.rmtree(src, ignore_errors=True)
    os.makedirs(mdir)
    old = json.load(open(os.path.join(sdir, "meta.json")))
    json.dump(old.get("agent_meta", old), open(os.path.join(mdir, "meta.json"), "w"), indent=1)
    for f in ("patch.diff", "demo_test.go"):
        shutil.copy(os.path.join(sdir, f), os.path.join(mdir, f))
    subprocess.run([sys.executable, os.path.join(VERIF, "tools", "seedtest.py"), pid, k, "--src", src])
    shutil.rmtree(src, ignore_errors=True)
