#!/usr/bin/env python3
"""Regenerates /verif/harness/obligations.d/C01.json from the form-kind table zzC01Kinds in
/verif/harness/pkg/cl/zz_verif_c01.go (the harness asserts that every listed skeleton is well typed)."""
import re, json, sys
src = open('/verif/harness/pkg/cl/zz_verif_c01.go').read()
tab = src.split('var zzC01Kinds = []zzKindRow{')[1].split('\n}\n')[0]
kinds = re.findall(r'\{"(\w+)", \'(\w)\', "(\w*)"\}', tab)
K = len(kinds)
def can(kind, want):
    return not (want == 'I' and kinds[kind][1] == 'A')
def slotwant(kind, j, want):
    w = kinds[kind][2][j]
    if w == 'R':
        w = want
    return 'I' if w == 'I' else 'A'
def depth1(variants):
    return [[k,0,-1,0,-1,v] for k in range(K) for v in variants]
def depth2(variants, filt=None):
    out=[]
    for k0 in range(K):
        for s0 in range(len(kinds[k0][2])):
            w = slotwant(k0, s0, 'A')
            for k1 in range(K):
                if not can(k1, w): continue
                for v in variants:
                    if filt and not filt(k0,s0,k1,v): continue
                    out.append([k0,s0,k1,0,-1,v])
    return out
def depth3(variants, filt=None):
    out=[]
    for k0 in range(K):
        for s0 in range(len(kinds[k0][2])):
            w0 = slotwant(k0, s0, 'A')
            for k1 in range(K):
                if not can(k1, w0): continue
                for s1 in range(len(kinds[k1][2])):
                    w1 = slotwant(k1, s1, w0)
                    for k2 in range(K):
                        if not can(k2, w1): continue
                        for v in variants:
                            if filt and not filt(k0,s0,k1,s1,k2,v): continue
                            out.append([k0,s0,k1,s1,k2,v])
    return out

OVR = {"github.com/ohler55/slip.ObjectString": "github.com/ohler55/slip/pkg/cl.zzStubObjectString"}
CARVES = ["C01-dynamic-scope-leak", "C01-cond-clause-without-body", "C01-test-sees-values-object",
          "C01-values-object-leaks", "C01-progn-drops-values", "C01-do-var-without-step-reset",
          "C01-dotimes-negative-count", "C01-funcall-no-args"]
COMMON = ("Program = slip.List tree built by the typed generator zzGen from the kind table zzC01Kinds (%d form kinds: "
  "+ 1+ < = list car progn prog1 if when unless cond case and or let let* setq funcall apply mapcar lambda-call closures "
  "(counter, shadowed capture) defun recursion dotimes dolist do do* multiple-value-bind values thunk); every evaluated "
  "position is wrapped in (zzvtrace k e), a transparent special form recording (k, primary value). Parameters "
  "(k0,s0,k1,s1,k2,variant) name the skeleton: kind of the outer form, the slot holding a nested form of kind k1, its slot "
  "holding kind k2 (-1 = leaves only), variant rotates leaf choice (literal / which variable). Symbolic: every literal "
  "L_i and the initial values of x and y (all 32-bit values as fixnums, so the additions of a program cannot leave the fixnum range; behaviour at the fixnum boundary is C05). "
  "Control depending on them (tests, case keys, loop counts, recursion depth) is decided by the solver. Loop bounds (assumed by "
  "the reference run, before the interpreter runs): dotimes count -1..3, do/do* <= 3 iterations per program, <= 12 function calls. "
  "Oracle: zzRef, an independently written evaluator (lexical environments, parallel let / sequential let*, closures, "
  "multiple values, implicit blocks/tagbodies) run on a separate copy of the tree; asserted: same ordered trace (keys and values), "
  "same result values (count, type, content), same final values of x and y, no condition, no Go fault. "
  "Stub: slip.ObjectString -> constant (only used for error-message/stack text, which is not observed; avoids forking per digit). "
  "Known findings are carved out by region predicates computed by the reference run (flags zzH*), applied before the interpreter "
  "runs; the regions are probed by C01.findings.") % K
def main():
    q2 = lambda k0,s0,k1,v: (k0*7 + s0*3 + k1) % 10 == 0
    quick = depth1([0,1,2]) + depth2([0], q2)
    t3 = lambda k0,s0,k1,s1,k2,v: (k0*31 + s0*17 + k1*7 + s1*3 + k2) % 300 == 0
    t2 = lambda k0,s0,k1,v: v == 0 or (k0 + s0 + k1) % 2 == 0
    thorough = depth1([0,1,2]) + depth2([0,1], t2) + depth3([0], t3)
    findings = [[30,3,8,0,-1,0],[30,3,28,0,-1,0],[13,0,-1,0,-1,0],[8,0,39,0,2,0],[19,0,39,0,-1,0],[6,2,39,0,-1,0],
                [36,0,-1,0,-1,0],[33,0,-1,0,-1,0],[41,0,-1,0,-1,0]]
    spec = [
     {"id": "C01.core", "property": "C01", "pkg": "pkg/cl", "entry": "VerifC01Core",
      "cases": {"quick": quick, "thorough": thorough}, "reach": ["compared", "agreed"],
      "max_depth": 400, "max_steps": 20000000, "solver_timeout_ms": 10000, "int_mode": True, "carves": [], "overrides": OVR,
      "note": COMMON + " Bounds: quick = every kind with leaf operands x 3 variants (%d) + 1/10 of all well-typed depth-2 skeletons, "
              "every (kind, slot) with several child kinds (%d); thorough = all %d depth-2 skeletons (half of them in a second variant) + a 1/300 sample of "
              "the %d depth-3 skeletons. Outside: depth >= 4, floats/bignums, user macros, &optional/&key (C04), non-local exits (C07)."
              % (len(depth1([0,1,2])), len(depth2([0], q2)), len(depth2([0])), len(depth3([0]))),
      "assumptions": ["dotimes counts <= 3, do/do* iterations <= 3, <= 12 calls per program"]},
     {"id": "C01.findings", "property": "C01", "pkg": "pkg/cl", "entry": "VerifC01Core",
      "cases": {"quick": findings, "thorough": findings}, "reach": ["compared"],
      "max_depth": 400, "max_steps": 20000000, "solver_timeout_ms": 10000, "int_mode": True, "carves": CARVES, "overrides": OVR,
      "note": "Same entry as C01.core on one skeleton per known finding: the main run checks the part of each skeleton outside the "
              "carved regions, the probe runs confirm that each finding still reproduces inside its region."},
     {"id": "C01.quote", "property": "C01", "pkg": "pkg/cl", "entry": "VerifC01Quote",
      "cases": {"quick": [[k,m] for k in range(19) for m in range(7)], "thorough": [[k,m] for k in range(19) for m in range(7)]},
      "reach": ["compared"], "max_depth": 400, "max_steps": 20000000, "solver_timeout_ms": 10000, "int_mode": True,
      "note": "(quote d) for 19 kinds of datum d (fixnum, symbol, keyword, string with 3 symbolic bytes, character with symbolic rune, "
              "nil, t, list of symbolic fixnums, code-looking lists incl. trace forms/undefined functions/lambda/quote, dotted pair, "
              "vector, double-float, ratio, bignum, octet, nested lists with nil/t/()) in 7 contexts (direct, function argument, let "
              "init, funcall argument, evaluated twice, if branch, inside a dotimes body evaluated twice): the result is structurally "
              "identical (own comparer zzQSame: type and content) to an independently built copy, nothing inside was evaluated "
              "(no trace entry), and the datum object was not modified in place."},
    ]
    json.dump(spec, open('/verif/harness/obligations.d/C01.json', 'w'), indent=0)
    print("quick", len(quick), "thorough", len(thorough))
main()
