#!/usr/bin/env python3
"""Confirm a seeded change (compiles, suite unchanged, demonstration fails with / passes without it)
in a scratch worktree, run the property's check against that worktree, and file the result under
/verif/seeded/<ID>_m<k>/.   usage: seedtest.py C05 1 [--tier quick] [--src /tmp/seed]"""
import json, os, re, shutil, subprocess, sys, time

VERIF = os.path.dirname(os.path.dirname(os.path.abspath(__file__)))
ENV = dict({k: v for k, v in os.environ.items() if k != "GOFLAGS"}, GOPROXY="off", GOSUMDB="off", GOTOOLCHAIN="local",
           PATH="/opt/veriftools/go1.26.8/bin:" + os.environ["PATH"])
ENVIRONMENTAL = re.compile(r"TestAppRun|TestRequireLoadPath|TestFlavorGoMakeOnly|TestMakeApp|TestHistoryAdd|TestStashAdd|TestBenchmark|TestServer|TestRequire|TestSnapshotRequire|TestSystem")


def sh(cmd, cwd=None, timeout=3600, env=None):
    r = subprocess.run(cmd, cwd=cwd, env=env or ENV, capture_output=True, text=True, timeout=timeout)
    return r.returncode, r.stdout + r.stderr


def suite(wt):
    """returns the set of stable_pass tests that do not pass in wt (environmental ones filtered)"""
    base = json.load(open("/root/.vp/BASELINE.json"))
    want = set(base["stable_pass"])
    rc, out = sh(["go", "test", "-mod=mod", "-json", "-vet=off", "-count=1", "-timeout", "25m", "./..."], cwd=wt)
    passed = set()
    for line in out.splitlines():
        try:
            e = json.loads(line)
        except Exception:
            continue
        if e.get("Action") == "pass" and e.get("Test"):
            passed.add("%s::%s" % (e["Package"], e["Test"]))
    missing = sorted(t for t in want - passed if not ENVIRONMENTAL.search(t))
    return missing


def main():
    pid, k = sys.argv[1], sys.argv[2]
    tier = sys.argv[sys.argv.index("--tier") + 1] if "--tier" in sys.argv else "quick"
    src = sys.argv[sys.argv.index("--src") + 1] if "--src" in sys.argv else "/tmp/seed"
    mdir = os.path.join(src, "%s.out" % pid, "m%s" % k)
    meta = json.load(open(os.path.join(mdir, "meta.json")))
    name = "%s_m%s" % (pid, k)
    wt = "/tmp/mut/%s" % name
    os.makedirs("/tmp/mut", exist_ok=True)
    sh(["git", "-C", "/repo", "worktree", "remove", "--force", wt])
    shutil.rmtree(wt, ignore_errors=True)
    rc, out = sh(["git", "-C", "/repo", "worktree", "add", "--detach", wt, "HEAD"])
    result = {"id": name, "property": pid, "agent_meta": meta, "repo_head": sh(["git", "-C", "/repo", "rev-parse", "--short", "HEAD"])[1].strip()}
    try:
        patch = os.path.join(mdir, "patch.diff")
        rc, out = sh(["git", "-C", wt, "apply", patch])
        if rc != 0:  # context moved by a later fix: commit in /repo: retry with reduced context, keep the rebased patch
            rc, out = sh(["git", "-C", wt, "apply", "-C1", "--recount", patch])
            if rc == 0:
                rebased = sh(["git", "-C", wt, "diff"])[1]
                patch = os.path.join(mdir, "patch.rebased.diff")
                open(patch, "w").write(rebased)
                sh(["git", "-C", wt, "checkout", "--", "."])
                rc, out = sh(["git", "-C", wt, "apply", patch])
                result["rebased"] = True
        result["applies"] = rc == 0
        if rc != 0:
            result["error"] = out[-800:]
            return finish(result, mdir, name, wt)
        rc, out = sh(["go", "build", "-mod=mod", "./..."], cwd=wt)
        berr = [l for l in out.splitlines() if l.strip() and "main is undeclared" not in l and not l.startswith("#")]
        result["builds"] = not berr
        if berr:
            result["error"] = "\n".join(berr[:10])
            return finish(result, mdir, name, wt)
        missing = suite(wt)
        if missing:  # retry the affected packages once (load-related flakiness)
            time.sleep(2)
            missing = [m for m in missing if m in suite(wt)]
        result["suite_regressions"] = missing
        # demonstration
        demo = open(os.path.join(mdir, "demo_test.go")).read()
        pkgline = re.search(r"^package\s+(\w+)", demo, re.M).group(1)
        # an external test package can live in any fresh directory of the module
        ddir = "test/zzseed_%s" % name.lower()
        full = os.path.join(wt, ddir)
        os.makedirs(full, exist_ok=True)
        dfile = os.path.join(full, "zz_seed_demo_test.go")
        open(dfile, "w").write(demo)
        tests = re.findall(r"^func (Test\w+)\(", demo, re.M)
        pat = "^(" + "|".join(tests) + ")$"
        race = ["-race"] if pid == "C17" else []
        cmd = ["go", "test", "-mod=mod", "-vet=off", "-count=1"] + race + ["-run", pat, "./" + ddir + "/"]
        rc1, out1 = sh(cmd, cwd=wt, timeout=1800)
        sh(["git", "-C", wt, "apply", "-R", patch])
        rc2, out2 = sh(cmd, cwd=wt, timeout=1800)
        sh(["git", "-C", wt, "apply", patch])
        os.remove(dfile)
        result["demo"] = {"package": pkgline, "dir": ddir, "tests": tests, "fails_with_change": rc1 != 0, "passes_without_change": rc2 == 0,
                          "with_tail": out1[-600:], "without_tail": out2[-300:]}
        # the property's check against the changed tree
        scratch = "/tmp/mut/%s_out" % name
        shutil.rmtree(scratch, ignore_errors=True)
        os.makedirs(scratch)
        env = dict(os.environ, VERIF_REPO=wt, VERIF_EVIDENCE_DIR=scratch, VERIF_REPLAY_DIR=os.path.join(scratch, "replays"),
                   SYMGO_BIN=os.environ.get("SYMGO_BIN", os.path.join(VERIF, "bin", "symgo")))
        t0 = time.time()
        r = subprocess.run([os.path.join(VERIF, "check"), pid, "--tier", tier], cwd=VERIF, env=env, capture_output=True, text=True, timeout=7200)
        lines = r.stdout.splitlines()
        viol = [l for l in lines if l.startswith("VIOLATION")]
        detail = [l for l in lines if l.startswith("   ")][:6]
        result["check"] = {"tier": tier, "rc": r.returncode, "wall_s": round(time.time() - t0, 1), "violations": viol[:6], "detail": detail,
                           "other": [l[:300] for l in lines if l.startswith(("BROKEN", "INCONCLUSIVE", "NOTE", "SUMMARY"))][:12]}
        result["caught"] = r.returncode == 1 and bool(viol)
        shutil.rmtree(scratch, ignore_errors=True)
    finally:
        pass
    return finish(result, mdir, name, wt)


def finish(result, mdir, name, wt):
    out = os.path.join(VERIF, "seeded", name)
    os.makedirs(out, exist_ok=True)
    for f in ("patch.diff", "patch.rebased.diff", "demo_test.go"):
        if os.path.exists(os.path.join(mdir, f)):
            shutil.copy(os.path.join(mdir, f), os.path.join(out, f))
    json.dump(result, open(os.path.join(out, "meta.json"), "w"), indent=1)
    sh(["git", "-C", "/repo", "worktree", "remove", "--force", wt])
    shutil.rmtree(wt, ignore_errors=True)
    c = result.get("check", {})
    print("%s applies=%s builds=%s suite_regressions=%s demo(fail/pass)=%s/%s check_rc=%s caught=%s %s" % (
        name, result.get("applies"), result.get("builds"), len(result.get("suite_regressions", [])),
        result.get("demo", {}).get("fails_with_change"), result.get("demo", {}).get("passes_without_change"),
        c.get("rc"), result.get("caught"), (c.get("detail") or [""])[0][:160]))


if __name__ == "__main__":
    main()
