#!/usr/bin/env python3
"""Run the repository's test suite (guard off) and compare with BASELINE.json's stable_pass list."""
import json, os, subprocess, sys
env = dict({k: v for k, v in os.environ.items() if k != 'GOFLAGS'}, GOPROXY="off", GOSUMDB="off", GOTOOLCHAIN="local",
           PATH="/opt/veriftools/go1.26.8/bin:" + os.environ["PATH"])
base = json.load(open("/root/.vp/BASELINE.json"))
want = set(base["stable_pass"])
p = subprocess.run(["go", "test", "-mod=mod", "-json", "-vet=off", "-count=1", "-timeout", "25m", "./..."], cwd="/repo", env=env,
                   capture_output=True, text=True)
passed = set()
for line in p.stdout.splitlines():
    try:
        e = json.loads(line)
    except Exception:
        continue
    if e.get("Action") == "pass" and e.get("Test"):
        passed.add("%s::%s" % (e["Package"], e["Test"]))
missing = sorted(want - passed)
print("stable_pass: %d, passed now: %d, missing: %d" % (len(want), len(want & passed), len(missing)))
for m in missing[:30]:
    print("  MISSING", m)
sys.exit(1 if missing else 0)
