package main

// Value representation (after golang.org/x/tools/go/ssa/interp, extended with
// symbolic scalars).
//
//  bool | int64 (every integer kind; sign-/zero-extended canonical form)
//  float64 (float32 values are kept rounded) | complex128
//  string | SymStr (string with some symbolic bytes)
//  *Term (symbolic Bool / BitVec scalar)
//  Struct, Array, Tuple ([]Val)
//  *Val (pointer)  | []Val (slice) | *Map | *Chan
//  Iface{t,v} | *ssa.Function | *ssa.Builtin | *Closure
//  Native{rv} opaque native value | *BigInt / *BigRat models live inside cells

import (
	"fmt"
	"go/types"
	"math/big"
	"reflect"
	"strings"

	"golang.org/x/tools/go/ssa"
)

type Val any

type Struct []Val
type Array []Val
type Tuple []Val

type Iface struct {
	t   types.Type
	v   Val
	box int64 // identity of the data word for values that are not pointer-shaped (0: the value itself / shared static)
}

type Closure struct {
	fn  *ssa.Function
	env []Val
}

type SymStr struct {
	b []Val // int64 (0..255) or *Term (BV8)
}

type Native struct {
	rv reflect.Value
}

type Bad struct{}

// BigInt is the content of a cell of type math/big.Int.
type BigInt struct {
	c *big.Int // concrete, or
	t *Term    // Int-sorted term
}

type BigRat struct {
	num, den BigInt // den > 0
}

type BigFloat struct {
	f *big.Float
}

type Chan struct {
	buf    []Val
	cap    int
	closed bool
}

// Poison marks a value whose computation the engine could not perform during
// initialisation; using it ends the path as unsupported.
type Poison struct {
	why string
}

type guardInfo struct {
	mu   *Val
	name string
}

type Map struct {
	guard *guardInfo
	kt    types.Type
	keys  []Val
	vals  []Val
	live  []bool
	idx   map[any]int
	count int
}

// ---- journal (undo log) ----

type undoRec struct {
	p   *Val
	old Val
	f   func()
}

var journal []undoRec
var journaling bool

func setCell(p *Val, v Val) {
	if journaling {
		journal = append(journal, undoRec{p: p, old: *p})
	}
	*p = v
}

func logUndo(f func()) {
	if journaling {
		journal = append(journal, undoRec{f: f})
	}
}

func rollback() {
	for i := len(journal) - 1; i >= 0; i-- {
		r := journal[i]
		if r.f != nil {
			r.f()
		} else {
			*r.p = r.old
		}
	}
	journal = journal[:0]
}

// ---- type helpers ----

func under(t types.Type) types.Type { return t.Underlying() }

func deref(t types.Type) types.Type {
	if p, ok := t.Underlying().(*types.Pointer); ok {
		return p.Elem()
	}
	panic("deref of non-pointer " + t.String())
}

func namedPath(t types.Type) string {
	if a, ok := t.(*types.Alias); ok {
		t = types.Unalias(a)
	}
	if n, ok := t.(*types.Named); ok {
		o := n.Obj()
		if o.Pkg() != nil {
			return o.Pkg().Path() + "." + o.Name()
		}
		return o.Name()
	}
	return ""
}

func intInfo(t types.Type) (w int, signed bool, ok bool) {
	b, isb := t.Underlying().(*types.Basic)
	if !isb {
		return 0, false, false
	}
	switch b.Kind() {
	case types.Int, types.Int64, types.UntypedInt:
		return 64, true, true
	case types.Int32, types.UntypedRune:
		return 32, true, true
	case types.Int16:
		return 16, true, true
	case types.Int8:
		return 8, true, true
	case types.Uint, types.Uint64, types.Uintptr:
		return 64, false, true
	case types.Uint32:
		return 32, false, true
	case types.Uint16:
		return 16, false, true
	case types.Uint8:
		return 8, false, true
	}
	return 0, false, false
}

func isFloat(t types.Type) (bits int, ok bool) {
	b, isb := t.Underlying().(*types.Basic)
	if !isb {
		return 0, false
	}
	switch b.Kind() {
	case types.Float32:
		return 32, true
	case types.Float64, types.UntypedFloat:
		return 64, true
	}
	return 0, false
}

func isString(t types.Type) bool {
	b, ok := t.Underlying().(*types.Basic)
	return ok && b.Info()&types.IsString != 0
}

func isBoolT(t types.Type) bool {
	b, ok := t.Underlying().(*types.Basic)
	return ok && b.Info()&types.IsBoolean != 0
}

// canon brings a raw 64-bit pattern into the canonical form of the type.
func canon(u uint64, w int, signed bool) int64 {
	if signed {
		return sext64(u&mask(w), w)
	}
	return int64(u & mask(w))
}

// ---- zero values ----

func zero(t types.Type) Val {
	switch bigKind(t) {
	case 1:
		return &BigInt{c: new(big.Int)}
	case 2:
		return &BigRat{num: BigInt{c: new(big.Int)}, den: BigInt{c: big.NewInt(1)}}
	case 3:
		return &BigFloat{f: new(big.Float)}
	}
	switch t := t.(type) {
	case *types.Basic:
		if t.Kind() == types.UntypedNil {
			panic("untyped nil has no zero value")
		}
		if t.Info()&types.IsUntyped != 0 {
			t = types.Default(t).(*types.Basic)
		}
		switch {
		case t.Info()&types.IsBoolean != 0:
			return false
		case t.Info()&types.IsInteger != 0:
			return int64(0)
		case t.Info()&types.IsFloat != 0:
			return float64(0)
		case t.Info()&types.IsComplex != 0:
			return complex128(0)
		case t.Info()&types.IsString != 0:
			return ""
		case t.Kind() == types.UnsafePointer:
			return (*Val)(nil)
		}
		panic(fmt.Sprint("zero for unexpected basic type: ", t))
	case *types.Pointer:
		return (*Val)(nil)
	case *types.Array:
		a := make(Array, t.Len())
		for i := range a {
			a[i] = zero(t.Elem())
		}
		return a
	case *types.Named:
		return zero(t.Underlying())
	case *types.Alias:
		return zero(types.Unalias(t))
	case *types.Interface:
		return Iface{}
	case *types.Slice:
		return []Val(nil)
	case *types.Struct:
		s := make(Struct, t.NumFields())
		for i := range s {
			s[i] = zero(t.Field(i).Type())
		}
		return s
	case *types.Tuple:
		if t.Len() == 1 {
			return zero(t.At(0).Type())
		}
		s := make(Tuple, t.Len())
		for i := range s {
			s[i] = zero(t.At(i).Type())
		}
		return s
	case *types.Chan:
		return (*Chan)(nil)
	case *types.Map:
		return (*Map)(nil)
	case *types.Signature:
		return (*ssa.Function)(nil)
	case *types.TypeParam:
		panic("zero of type parameter")
	}
	panic(fmt.Sprint("zero: unexpected type: ", t))
}

// ---- load / store with value semantics for structs and arrays ----

func copyVal(v Val) Val {
	switch v := v.(type) {
	case Struct:
		n := make(Struct, len(v))
		for i, e := range v {
			n[i] = copyVal(e)
		}
		return n
	case Array:
		n := make(Array, len(v))
		for i, e := range v {
			n[i] = copyVal(e)
		}
		return n
	}
	return v // *BigInt, *BigRat, *BigFloat are immutable objects
}

func load(addr *Val) Val {
	return copyVal(*addr)
}

// store writes v into *addr; struct and array cells are updated element-wise
// so that interior pointers stay valid.
func store(addr *Val, v Val) {
	switch nv := v.(type) {
	case Struct:
		if old, ok := (*addr).(Struct); ok && len(old) == len(nv) {
			for i := range nv {
				store(&old[i], nv[i])
			}
			return
		}
		setCell(addr, copyVal(v))
	case Array:
		if old, ok := (*addr).(Array); ok && len(old) == len(nv) {
			for i := range nv {
				store(&old[i], nv[i])
			}
			return
		}
		setCell(addr, copyVal(v))
	case *BigInt, *BigRat, *BigFloat:
		setCell(addr, copyVal(v))
	default:
		setCell(addr, v)
	}
}

// ---- maps ----

func newMap(kt types.Type) *Map {
	return &Map{kt: kt, idx: map[any]int{}}
}

type ifaceKey struct {
	t string
	v any
}

// hashKey returns a Go-comparable key for a concrete map key, or ok=false if
// the key contains symbolic parts.
func hashKey(v Val) (any, bool) {
	switch v := v.(type) {
	case bool, int64, float64, complex128, string:
		return v, true
	case *Val:
		return v, true
	case *Chan:
		return v, true
	case Iface:
		if v.t == nil {
			return ifaceKey{}, true
		}
		k, ok := hashKey(v.v)
		if !ok {
			return nil, false
		}
		return ifaceKey{v.t.String(), k}, true
	case Struct:
		var sb strings.Builder
		for _, e := range v {
			k, ok := hashKey(e)
			if !ok {
				return nil, false
			}
			fmt.Fprintf(&sb, "%T:%v|", k, k)
		}
		return "S{" + sb.String() + "}", true
	case Array:
		var sb strings.Builder
		for _, e := range v {
			k, ok := hashKey(e)
			if !ok {
				return nil, false
			}
			fmt.Fprintf(&sb, "%T:%v|", k, k)
		}
		return "A{" + sb.String() + "}", true
	case SymStr:
		if s, ok := v.concrete(); ok {
			return s, true
		}
		return nil, false
	case Native:
		if v.rv.IsValid() && v.rv.Comparable() {
			return v.rv.Interface(), true
		}
		return nil, false
	case *Term:
		return nil, false
	}
	return nil, false
}

func (s SymStr) concrete() (string, bool) {
	b := make([]byte, len(s.b))
	for i, e := range s.b {
		c, ok := e.(int64)
		if !ok {
			return "", false
		}
		b[i] = byte(c)
	}
	return string(b), true
}

func (s SymStr) norm() Val {
	if c, ok := s.concrete(); ok {
		return c
	}
	return s
}

// strBytes gives the bytes of a string value (concrete or symbolic).
func strBytes(v Val) []Val {
	switch v := v.(type) {
	case string:
		b := make([]Val, len(v))
		for i := 0; i < len(v); i++ {
			b[i] = int64(v[i])
		}
		return b
	case SymStr:
		return v.b
	}
	panic(fmt.Sprintf("strBytes: not a string: %T", v))
}

func strLen(v Val) int {
	switch v := v.(type) {
	case string:
		return len(v)
	case SymStr:
		return len(v.b)
	}
	panic(fmt.Sprintf("strLen: not a string: %T", v))
}

func byteTerm(v Val) *Term {
	switch v := v.(type) {
	case int64:
		return mkBV(uint64(v), 8)
	case *Term:
		return v
	}
	panic(fmt.Sprintf("byteTerm: %T", v))
}
