package main

// Hash-consed SMT term DAG with constant folding, a concrete evaluator and an
// SMT-LIB2 printer.  Sorts: Bool, (_ BitVec w) with w <= 64, Int.

import (
	"fmt"
	"math/big"
	"sort"
	"strconv"
	"strings"
)

type Kind uint8

const (
	KBool Kind = iota
	KBV
	KInt
)

type Sort struct {
	K Kind
	W int
}

var boolSort = Sort{KBool, 0}
var intSort = Sort{KInt, 0}

func bvSort(w int) Sort { return Sort{KBV, w} }

func (s Sort) String() string {
	switch s.K {
	case KBool:
		return "Bool"
	case KInt:
		return "Int"
	}
	return fmt.Sprintf("(_ BitVec %d)", s.W)
}

type Op uint8

const (
	OConst Op = iota
	OVar
	ONot
	OAnd
	OOr
	OIte
	OEq
	OAdd
	OSub
	OMul
	OUDiv
	OSDiv
	OURem
	OSRem
	OBAnd
	OBOr
	OBXor
	OShl
	OLShr
	OAShr
	ONeg
	OBNot
	OUlt
	OUle
	OSlt
	OSle
	OConcat
	OExtract
	OZext
	OSext
	OTbl
	OIAdd
	OISub
	OIMul
	OIDiv // SMT div (floor for positive divisor)
	OIMod
	OINeg
	OILe
	OILt
	OIAbs
	OBv2Nat // bv -> Int (unsigned)
	OInt2Bv // Int -> bv (mod 2^w)
)

var opNames = map[Op]string{
	ONot: "not", OAnd: "and", OOr: "or", OIte: "ite", OEq: "=",
	OAdd: "bvadd", OSub: "bvsub", OMul: "bvmul", OUDiv: "bvudiv", OSDiv: "bvsdiv", OURem: "bvurem", OSRem: "bvsrem",
	OBAnd: "bvand", OBOr: "bvor", OBXor: "bvxor", OShl: "bvshl", OLShr: "bvlshr", OAShr: "bvashr", ONeg: "bvneg", OBNot: "bvnot",
	OUlt: "bvult", OUle: "bvule", OSlt: "bvslt", OSle: "bvsle", OConcat: "concat",
	OIAdd: "+", OISub: "-", OIMul: "*", OIDiv: "div", OIMod: "mod", OINeg: "-", OILe: "<=", OILt: "<", OIAbs: "abs",
	OBv2Nat: "bv2nat",
}

type Table struct {
	id   int
	vals []uint64
	iw   int // index width
	ew   int // element width
}

type Term struct {
	id   int
	op   Op
	sort Sort
	args []*Term
	u    uint64   // BV/Bool constant
	z    *big.Int // Int constant
	name string   // variable
	hi   int
	lo   int
	tbl  *Table
	vars []int // sorted ids of variables occurring (computed lazily)
	vok  bool
}

var (
	termTab  = map[string]*Term{}
	termList []*Term
	tables   []*Table
	tableTab = map[string]*Table{}
	varTab   = map[string]*Term{}
)

func intern(key string, mk func() *Term) *Term {
	if t, ok := termTab[key]; ok {
		return t
	}
	t := mk()
	t.id = len(termList)
	termList = append(termList, t)
	termTab[key] = t
	return t
}

func mask(w int) uint64 {
	if w >= 64 {
		return ^uint64(0)
	}
	return (uint64(1) << uint(w)) - 1
}

func sext64(u uint64, w int) int64 {
	if w >= 64 {
		return int64(u)
	}
	sh := uint(64 - w)
	return int64(u<<sh) >> sh
}

var tTrue, tFalse *Term

func init() {
	tFalse = intern("cB0", func() *Term { return &Term{op: OConst, sort: boolSort, u: 0} })
	tTrue = intern("cB1", func() *Term { return &Term{op: OConst, sort: boolSort, u: 1} })
}

func mkBool(b bool) *Term {
	if b {
		return tTrue
	}
	return tFalse
}

func mkBV(u uint64, w int) *Term {
	u &= mask(w)
	return intern(fmt.Sprintf("c%d:%x", w, u), func() *Term { return &Term{op: OConst, sort: bvSort(w), u: u} })
}

func mkInt(z *big.Int) *Term {
	return intern("cI"+z.String(), func() *Term { return &Term{op: OConst, sort: intSort, z: new(big.Int).Set(z)} })
}

func mkInt64(i int64) *Term { return mkInt(big.NewInt(i)) }

func mkVar(name string, s Sort) *Term {
	key := name + "|" + s.String()
	if t, ok := varTab[key]; ok {
		return t
	}
	t := intern("v"+key, func() *Term { return &Term{op: OVar, sort: s, name: name} })
	varTab[key] = t
	return t
}

func (t *Term) isConst() bool { return t.op == OConst }
func (t *Term) isTrue() bool  { return t == tTrue }
func (t *Term) isFalse() bool { return t == tFalse }

func mkNode(op Op, s Sort, hi, lo int, tbl *Table, args ...*Term) *Term {
	var sb strings.Builder
	sb.WriteByte('n')
	sb.WriteString(strconv.Itoa(int(op)))
	sb.WriteByte(':')
	sb.WriteString(strconv.Itoa(s.W))
	if hi != 0 || lo != 0 {
		sb.WriteString(fmt.Sprintf("[%d,%d]", hi, lo))
	}
	if tbl != nil {
		sb.WriteString(fmt.Sprintf("T%d", tbl.id))
	}
	for _, a := range args {
		sb.WriteByte(',')
		sb.WriteString(strconv.Itoa(a.id))
	}
	return intern(sb.String(), func() *Term {
		return &Term{op: op, sort: s, args: append([]*Term(nil), args...), hi: hi, lo: lo, tbl: tbl}
	})
}

func allConst(args ...*Term) bool {
	for _, a := range args {
		if a.op != OConst {
			return false
		}
	}
	return true
}

func mkNot(a *Term) *Term {
	if a.isTrue() {
		return tFalse
	}
	if a.isFalse() {
		return tTrue
	}
	if a.op == ONot {
		return a.args[0]
	}
	return mkNode(ONot, boolSort, 0, 0, nil, a)
}

func mkAnd(a, b *Term) *Term {
	if a.isFalse() || b.isFalse() {
		return tFalse
	}
	if a.isTrue() {
		return b
	}
	if b.isTrue() {
		return a
	}
	if a == b {
		return a
	}
	if (a.op == ONot && a.args[0] == b) || (b.op == ONot && b.args[0] == a) {
		return tFalse
	}
	return mkNode(OAnd, boolSort, 0, 0, nil, a, b)
}

func mkOr(a, b *Term) *Term {
	if a.isTrue() || b.isTrue() {
		return tTrue
	}
	if a.isFalse() {
		return b
	}
	if b.isFalse() {
		return a
	}
	if a == b {
		return a
	}
	if (a.op == ONot && a.args[0] == b) || (b.op == ONot && b.args[0] == a) {
		return tTrue
	}
	return mkNode(OOr, boolSort, 0, 0, nil, a, b)
}

func mkAndN(ts ...*Term) *Term {
	r := tTrue
	for _, t := range ts {
		r = mkAnd(r, t)
	}
	return r
}

func mkOrN(ts ...*Term) *Term {
	r := tFalse
	for _, t := range ts {
		r = mkOr(r, t)
	}
	return r
}

func mkImplies(a, b *Term) *Term { return mkOr(mkNot(a), b) }

func mkIte(c, a, b *Term) *Term {
	if c.isTrue() {
		return a
	}
	if c.isFalse() {
		return b
	}
	if a == b {
		return a
	}
	if a.sort != b.sort {
		panic(fmt.Sprintf("ite sort mismatch %v %v", a.sort, b.sort))
	}
	if a.sort.K == KBool {
		if a.isTrue() && b.isFalse() {
			return c
		}
		if a.isFalse() && b.isTrue() {
			return mkNot(c)
		}
		if a.isTrue() {
			return mkOr(c, b)
		}
		if a.isFalse() {
			return mkAnd(mkNot(c), b)
		}
		if b.isTrue() {
			return mkOr(mkNot(c), a)
		}
		if b.isFalse() {
			return mkAnd(c, a)
		}
	}
	return mkNode(OIte, a.sort, 0, 0, nil, c, a, b)
}

func mkEq(a, b *Term) *Term {
	if a == b {
		return tTrue
	}
	if a.sort != b.sort {
		panic(fmt.Sprintf("eq sort mismatch %v %v (%s / %s)", a.sort, b.sort, a, b))
	}
	if a.op == OConst && b.op == OConst {
		if a.sort.K == KInt {
			return mkBool(a.z.Cmp(b.z) == 0)
		}
		return mkBool(a.u == b.u)
	}
	if a.sort.K == KBool {
		if a.isTrue() {
			return b
		}
		if b.isTrue() {
			return a
		}
		if a.isFalse() {
			return mkNot(b)
		}
		if b.isFalse() {
			return mkNot(a)
		}
	}
	// ite(c, k1, k2) == k  with constants
	if b.op == OConst && a.op == OIte && a.args[1].op == OConst && a.args[2].op == OConst {
		return mkIte(a.args[0], mkEq(a.args[1], b), mkEq(a.args[2], b))
	}
	if a.op == OConst && b.op == OIte && b.args[1].op == OConst && b.args[2].op == OConst {
		return mkIte(b.args[0], mkEq(b.args[1], a), mkEq(b.args[2], a))
	}
	// zext(x) == const : compare in the narrow width
	if b.op == OConst && a.op == OZext {
		x := a.args[0]
		if b.u&^mask(x.sort.W) != 0 {
			return tFalse
		}
		return mkEq(x, mkBV(b.u, x.sort.W))
	}
	if a.op == OConst && b.op == OZext {
		return mkEq(b, a)
	}
	if a.id > b.id {
		a, b = b, a
	}
	return mkNode(OEq, boolSort, 0, 0, nil, a, b)
}

func foldBV(op Op, w int, x, y uint64) (uint64, bool) {
	m := mask(w)
	switch op {
	case OAdd:
		return (x + y) & m, true
	case OSub:
		return (x - y) & m, true
	case OMul:
		return (x * y) & m, true
	case OUDiv:
		if y == 0 {
			return m, true
		}
		return x / y, true
	case OURem:
		if y == 0 {
			return x, true
		}
		return x % y, true
	case OSDiv:
		sx, sy := sext64(x, w), sext64(y, w)
		if sy == 0 {
			if sx < 0 {
				return 1, true
			}
			return m, true
		}
		if sy == -1 {
			return uint64(-sx) & m, true
		}
		return uint64(sx/sy) & m, true
	case OSRem:
		sx, sy := sext64(x, w), sext64(y, w)
		if sy == 0 {
			return x, true
		}
		if sy == -1 {
			return 0, true
		}
		return uint64(sx%sy) & m, true
	case OBAnd:
		return x & y, true
	case OBOr:
		return x | y, true
	case OBXor:
		return x ^ y, true
	case OShl:
		if y >= uint64(w) {
			return 0, true
		}
		return (x << y) & m, true
	case OLShr:
		if y >= uint64(w) {
			return 0, true
		}
		return x >> y, true
	case OAShr:
		sx := sext64(x, w)
		if y >= uint64(w) {
			y = uint64(w - 1)
			if w == 64 {
				y = 63
			}
		}
		return uint64(sx>>y) & m, true
	}
	return 0, false
}

func mkBin(op Op, a, b *Term) *Term {
	if a.sort != b.sort {
		panic(fmt.Sprintf("binop %v sort mismatch %v %v", op, a.sort, b.sort))
	}
	w := a.sort.W
	if a.op == OConst && b.op == OConst {
		if r, ok := foldBV(op, w, a.u, b.u); ok {
			return mkBV(r, w)
		}
	}
	switch op {
	case OAdd:
		if a.op == OConst && a.u == 0 {
			return b
		}
		if b.op == OConst && b.u == 0 {
			return a
		}
		// (x + c1) + c2
		if b.op == OConst && a.op == OAdd && a.args[1].op == OConst {
			return mkBin(OAdd, a.args[0], mkBV(a.args[1].u+b.u, w))
		}
		if a.op == OConst {
			a, b = b, a
		}
	case OSub:
		if b.op == OConst && b.u == 0 {
			return a
		}
		if a == b {
			return mkBV(0, w)
		}
		if b.op == OConst {
			return mkBin(OAdd, a, mkBV(-b.u, w))
		}
	case OMul:
		if a.op == OConst {
			a, b = b, a
		}
		if b.op == OConst && b.u == 0 {
			return b
		}
		if b.op == OConst && b.u == 1 {
			return a
		}
	case OBAnd:
		if a.op == OConst {
			a, b = b, a
		}
		if b.op == OConst && b.u == 0 {
			return b
		}
		if b.op == OConst && b.u == mask(w) {
			return a
		}
		if a == b {
			return a
		}
		if b.op == OConst {
			if lo, hi, ok := bvRange(a); ok && hi-lo < 4096 {
				same := true
				for v := lo; v <= hi; v++ {
					if v&b.u != v {
						same = false
						break
					}
				}
				if same {
					return a
				}
			}
		}
	case OBOr:
		if a.op == OConst {
			a, b = b, a
		}
		if b.op == OConst && b.u == 0 {
			return a
		}
		if a == b {
			return a
		}
		if b.op == OConst {
			if lo, hi, ok := bvRange(a); ok && hi-lo < 4096 {
				same := true
				for v := lo; v <= hi; v++ {
					if v|b.u != v {
						same = false
						break
					}
				}
				if same {
					return a
				}
			}
		}
	case OBXor:
		if a.op == OConst {
			a, b = b, a
		}
		if b.op == OConst && b.u == 0 {
			return a
		}
		if a == b {
			return mkBV(0, w)
		}
	case OShl, OLShr, OAShr:
		if b.op == OConst && b.u == 0 {
			return a
		}
	}
	return mkNode(op, a.sort, 0, 0, nil, a, b)
}

// bvRange: an unsigned value range of a bit-vector term, when it is known from
// the interval of the Int term it was converted from (no wrap-around).
func bvRange(t *Term) (lo, hi uint64, ok bool) {
	w := t.sort.W
	switch t.op {
	case OConst:
		return t.u, t.u, true
	case OInt2Bv:
		if iv := ivOf(t.args[0]); iv != nil && iv.lo.Sign() >= 0 && iv.hi.BitLen() <= w && iv.hi.IsUint64() {
			return iv.lo.Uint64(), iv.hi.Uint64(), true
		}
	case OAdd:
		if t.args[1].op == OConst {
			if l, h, ok := bvRange(t.args[0]); ok {
				c := t.args[1].u
				if h+c >= h && (w >= 64 || h+c <= mask(w)) {
					return l + c, h + c, true
				}
			}
		}
	case OZext:
		return bvRange(t.args[0])
	}
	return 0, 0, false
}

// bvAsInt recovers the Int term a bit-vector term was derived from (int2bv of
// a ranged Int term, plus constants, without wrap-around).
func bvAsInt(t *Term) (*Term, bool) {
	if _, _, ok := bvRange(t); !ok {
		return nil, false
	}
	switch t.op {
	case OConst:
		return mkInt(new(big.Int).SetUint64(t.u)), true
	case OInt2Bv:
		return t.args[0], true
	case OAdd:
		if x, ok := bvAsInt(t.args[0]); ok {
			return mkIBin(OIAdd, x, mkInt(new(big.Int).SetUint64(t.args[1].u))), true
		}
	case OZext:
		return bvAsInt(t.args[0])
	}
	return nil, false
}

func mkNeg(a *Term) *Term {
	if a.op == OConst {
		return mkBV(-a.u, a.sort.W)
	}
	return mkNode(ONeg, a.sort, 0, 0, nil, a)
}

func mkBNot(a *Term) *Term {
	if a.op == OConst {
		return mkBV(^a.u, a.sort.W)
	}
	return mkNode(OBNot, a.sort, 0, 0, nil, a)
}

func mkCmp(op Op, a, b *Term) *Term {
	if a.sort != b.sort {
		panic(fmt.Sprintf("cmp sort mismatch %v %v", a.sort, b.sort))
	}
	w := a.sort.W
	if a.op == OConst && b.op == OConst {
		switch op {
		case OUlt:
			return mkBool(a.u < b.u)
		case OUle:
			return mkBool(a.u <= b.u)
		case OSlt:
			return mkBool(sext64(a.u, w) < sext64(b.u, w))
		case OSle:
			return mkBool(sext64(a.u, w) <= sext64(b.u, w))
		}
	}
	if a == b {
		return mkBool(op == OUle || op == OSle)
	}
	// zext(x) <u const, const <u zext(x): narrow
	if a.op == OZext && b.op == OConst && (op == OUlt || op == OUle) {
		x := a.args[0]
		if b.u > mask(x.sort.W) {
			return tTrue
		}
		return mkCmp(op, x, mkBV(b.u, x.sort.W))
	}
	if b.op == OZext && a.op == OConst && (op == OUlt || op == OUle) {
		x := b.args[0]
		if a.u > mask(x.sort.W) {
			return tFalse
		}
		return mkCmp(op, mkBV(a.u, x.sort.W), x)
	}
	// signed compare of zero-extended (non-negative) values equals unsigned compare
	if (op == OSlt || op == OSle) && nonNegative(a) && nonNegative(b) {
		if op == OSlt {
			return mkCmp(OUlt, a, b)
		}
		return mkCmp(OUle, a, b)
	}
	return mkNode(op, boolSort, 0, 0, nil, a, b)
}

func nonNegative(t *Term) bool {
	if t.op == OConst {
		return sext64(t.u, t.sort.W) >= 0
	}
	if t.op == OZext {
		return true
	}
	return false
}

func mkExtract(hi, lo int, a *Term) *Term {
	w := hi - lo + 1
	if lo == 0 && w == a.sort.W {
		return a
	}
	if a.op == OConst {
		return mkBV(a.u>>uint(lo), w)
	}
	if (a.op == OZext || a.op == OSext) && lo == 0 {
		x := a.args[0]
		if w == x.sort.W {
			return x
		}
		if w < x.sort.W {
			return mkExtract(hi, 0, x)
		}
		if a.op == OZext {
			return mkZext(x, w)
		}
		return mkSext(x, w)
	}
	return mkNode(OExtract, bvSort(w), hi, lo, nil, a)
}

func mkZext(a *Term, w int) *Term {
	if w == a.sort.W {
		return a
	}
	if w < a.sort.W {
		return mkExtract(w-1, 0, a)
	}
	if a.op == OConst {
		return mkBV(a.u, w)
	}
	if a.op == OZext {
		return mkZext(a.args[0], w)
	}
	return mkNode(OZext, bvSort(w), w-a.sort.W, 0, nil, a)
}

func mkSext(a *Term, w int) *Term {
	if w == a.sort.W {
		return a
	}
	if w < a.sort.W {
		return mkExtract(w-1, 0, a)
	}
	if a.op == OConst {
		return mkBV(uint64(sext64(a.u, a.sort.W)), w)
	}
	if a.op == OZext {
		return mkZext(a.args[0], w)
	}
	return mkNode(OSext, bvSort(w), w-a.sort.W, 0, nil, a)
}

func mkConcat(a, b *Term) *Term {
	w := a.sort.W + b.sort.W
	if a.op == OConst && b.op == OConst {
		return mkBV(a.u<<uint(b.sort.W)|b.u, w)
	}
	return mkNode(OConcat, bvSort(w), 0, 0, nil, a, b)
}

func mkTable(vals []uint64, ew int) *Table {
	var sb strings.Builder
	fmt.Fprintf(&sb, "%d:", ew)
	for _, v := range vals {
		fmt.Fprintf(&sb, "%x,", v)
	}
	k := sb.String()
	if t, ok := tableTab[k]; ok {
		return t
	}
	iw := 1
	for (1 << uint(iw)) < len(vals) {
		iw++
	}
	t := &Table{id: len(tables), vals: append([]uint64(nil), vals...), iw: iw, ew: ew}
	tables = append(tables, t)
	tableTab[k] = t
	return t
}

// mkTbl: lookup vals[idx]; idx is any BV term, assumed (by the caller's
// bounds check) to be < len(vals).
func mkTbl(tbl *Table, idx *Term) *Term {
	if idx.op == OConst {
		if idx.u < uint64(len(tbl.vals)) {
			return mkBV(tbl.vals[idx.u], tbl.ew)
		}
		return mkBV(0, tbl.ew)
	}
	ix := idx
	if ix.sort.W > tbl.iw {
		ix = mkExtract(tbl.iw-1, 0, ix)
	} else if ix.sort.W < tbl.iw {
		ix = mkZext(ix, tbl.iw)
	}
	return mkNode(OTbl, bvSort(tbl.ew), 0, 0, tbl, ix)
}

// ---- Int sort ----

func mkIBin(op Op, a, b *Term) *Term {
	if a.sort.K != KInt || b.sort.K != KInt {
		panic("int op on non-int")
	}
	if a.op == OConst && b.op == OConst {
		r := new(big.Int)
		switch op {
		case OIAdd:
			return mkInt(r.Add(a.z, b.z))
		case OISub:
			return mkInt(r.Sub(a.z, b.z))
		case OIMul:
			return mkInt(r.Mul(a.z, b.z))
		case OIDiv:
			if b.z.Sign() != 0 {
				return mkInt(eucDiv(a.z, b.z))
			}
		case OIMod:
			if b.z.Sign() != 0 {
				return mkInt(eucMod(a.z, b.z))
			}
		}
	}
	switch op {
	case OIAdd:
		if a.op == OConst && a.z.Sign() == 0 {
			return b
		}
		if b.op == OConst && b.z.Sign() == 0 {
			return a
		}
	case OISub:
		if b.op == OConst && b.z.Sign() == 0 {
			return a
		}
		if a == b {
			return mkInt64(0)
		}
		// x - (x - r) = r ; (x - r) - x = -r
		if b.op == OISub && b.args[0] == a {
			return b.args[1]
		}
		if b.op == OIAdd && b.args[0] == a {
			return mkINeg(b.args[1])
		}
		if b.op == OIAdd && b.args[1] == a {
			return mkINeg(b.args[0])
		}
	case OIMul:
		if a.op == OConst && a.z.Cmp(big.NewInt(1)) == 0 {
			return b
		}
		if b.op == OConst && b.z.Cmp(big.NewInt(1)) == 0 {
			return a
		}
	}
	return mkNode(op, intSort, 0, 0, nil, a, b)
}

func eucDiv(a, b *big.Int) *big.Int {
	q, m := new(big.Int), new(big.Int)
	q.DivMod(a, b, m) // Euclidean
	return q
}

func eucMod(a, b *big.Int) *big.Int {
	q, m := new(big.Int), new(big.Int)
	q.DivMod(a, b, m)
	return m
}

func mkINeg(a *Term) *Term {
	if a.op == OConst {
		return mkInt(new(big.Int).Neg(a.z))
	}
	return mkNode(OINeg, intSort, 0, 0, nil, a)
}

func mkIAbs(a *Term) *Term {
	if a.op == OConst {
		return mkInt(new(big.Int).Abs(a.z))
	}
	return mkNode(OIAbs, intSort, 0, 0, nil, a)
}

func mkICmp(op Op, a, b *Term) *Term {
	if a.op == OConst && b.op == OConst {
		c := a.z.Cmp(b.z)
		if op == OILe {
			return mkBool(c <= 0)
		}
		return mkBool(c < 0)
	}
	if a == b {
		return mkBool(op == OILe)
	}
	return mkNode(op, boolSort, 0, 0, nil, a, b)
}

func mkBv2Nat(a *Term) *Term {
	if a.op == OConst {
		return mkInt(new(big.Int).SetUint64(a.u))
	}
	// bv2nat(int2bv_w(t)) = t when 0 <= t < 2^w is known
	if a.op == OInt2Bv {
		if iv := ivOf(a.args[0]); iv != nil && iv.lo.Sign() >= 0 && iv.hi.BitLen() <= a.sort.W {
			return a.args[0]
		}
	}
	if a.op == OZext {
		return mkBv2Nat(a.args[0])
	}
	if x, ok := bvAsInt(a); ok {
		return x
	}
	return mkNode(OBv2Nat, intSort, 0, 0, nil, a)
}

// signed interpretation of a bit-vector as an Int.
func mkBv2Int(a *Term) *Term {
	w := a.sort.W
	if a.op == OConst {
		return mkInt64(sext64(a.u, w))
	}
	n := mkBv2Nat(a)
	p := new(big.Int).Lsh(big.NewInt(1), uint(w))
	return mkIte(mkCmp(OSlt, a, mkBV(0, w)), mkIBin(OISub, n, mkInt(p)), n)
}

func mkInt2Bv(a *Term, w int) *Term {
	if a.op == OConst {
		m := new(big.Int).Lsh(big.NewInt(1), uint(w))
		r := eucMod(a.z, m)
		return mkBV(r.Uint64(), w)
	}
	return mkNode(OInt2Bv, bvSort(w), w, 0, nil, a)
}

// ---- variables of a term ----

func (t *Term) varIDs() []int {
	if t.vok {
		return t.vars
	}
	switch t.op {
	case OConst:
	case OVar:
		t.vars = []int{t.id}
	default:
		set := map[int]bool{}
		for _, a := range t.args {
			for _, v := range a.varIDs() {
				set[v] = true
			}
		}
		vs := make([]int, 0, len(set))
		for v := range set {
			vs = append(vs, v)
		}
		sort.Ints(vs)
		t.vars = vs
	}
	t.vok = true
	return t.vars
}

// ---- evaluation ----

type EVal struct {
	u uint64
	z *big.Int
}

type Model map[int]EVal // var term id -> value

func (m Model) clone() Model {
	n := make(Model, len(m))
	for k, v := range m {
		n[k] = v
	}
	return n
}

type evalCtx struct {
	m    Model
	memo map[int]EVal
}

func evalTerm(t *Term, m Model) EVal {
	c := &evalCtx{m: m}
	return c.eval(t)
}

func evalBool(t *Term, m Model) bool { return evalTerm(t, m).u != 0 }

func (c *evalCtx) eval(t *Term) EVal {
	switch t.op {
	case OConst:
		return EVal{u: t.u, z: t.z}
	case OVar:
		v, ok := c.m[t.id]
		if !ok {
			if t.sort.K == KInt {
				return EVal{z: new(big.Int)}
			}
			return EVal{}
		}
		return v
	}
	if len(t.args) > 1 || t.op == OTbl {
		if c.memo == nil {
			c.memo = map[int]EVal{}
		} else if v, ok := c.memo[t.id]; ok {
			return v
		}
	}
	r := c.eval1(t)
	if c.memo != nil {
		c.memo[t.id] = r
	}
	return r
}

func b2u(b bool) uint64 {
	if b {
		return 1
	}
	return 0
}

func (c *evalCtx) eval1(t *Term) EVal {
	switch t.op {
	case ONot:
		return EVal{u: 1 - c.eval(t.args[0]).u}
	case OAnd:
		if c.eval(t.args[0]).u == 0 {
			return EVal{}
		}
		return c.eval(t.args[1])
	case OOr:
		if c.eval(t.args[0]).u != 0 {
			return EVal{u: 1}
		}
		return c.eval(t.args[1])
	case OIte:
		if c.eval(t.args[0]).u != 0 {
			return c.eval(t.args[1])
		}
		return c.eval(t.args[2])
	case OEq:
		a, b := c.eval(t.args[0]), c.eval(t.args[1])
		if t.args[0].sort.K == KInt {
			return EVal{u: b2u(a.z.Cmp(b.z) == 0)}
		}
		return EVal{u: b2u(a.u == b.u)}
	case OAdd, OSub, OMul, OUDiv, OSDiv, OURem, OSRem, OBAnd, OBOr, OBXor, OShl, OLShr, OAShr:
		a, b := c.eval(t.args[0]), c.eval(t.args[1])
		r, _ := foldBV(t.op, t.sort.W, a.u, b.u)
		return EVal{u: r}
	case ONeg:
		return EVal{u: (-c.eval(t.args[0]).u) & mask(t.sort.W)}
	case OBNot:
		return EVal{u: (^c.eval(t.args[0]).u) & mask(t.sort.W)}
	case OUlt:
		return EVal{u: b2u(c.eval(t.args[0]).u < c.eval(t.args[1]).u)}
	case OUle:
		return EVal{u: b2u(c.eval(t.args[0]).u <= c.eval(t.args[1]).u)}
	case OSlt:
		w := t.args[0].sort.W
		return EVal{u: b2u(sext64(c.eval(t.args[0]).u, w) < sext64(c.eval(t.args[1]).u, w))}
	case OSle:
		w := t.args[0].sort.W
		return EVal{u: b2u(sext64(c.eval(t.args[0]).u, w) <= sext64(c.eval(t.args[1]).u, w))}
	case OConcat:
		return EVal{u: c.eval(t.args[0]).u<<uint(t.args[1].sort.W) | c.eval(t.args[1]).u}
	case OExtract:
		return EVal{u: (c.eval(t.args[0]).u >> uint(t.lo)) & mask(t.hi-t.lo+1)}
	case OZext:
		return EVal{u: c.eval(t.args[0]).u}
	case OSext:
		return EVal{u: uint64(sext64(c.eval(t.args[0]).u, t.args[0].sort.W)) & mask(t.sort.W)}
	case OTbl:
		i := c.eval(t.args[0]).u
		if i < uint64(len(t.tbl.vals)) {
			return EVal{u: t.tbl.vals[i]}
		}
		return EVal{}
	case OIAdd:
		return EVal{z: new(big.Int).Add(c.eval(t.args[0]).z, c.eval(t.args[1]).z)}
	case OISub:
		return EVal{z: new(big.Int).Sub(c.eval(t.args[0]).z, c.eval(t.args[1]).z)}
	case OIMul:
		return EVal{z: new(big.Int).Mul(c.eval(t.args[0]).z, c.eval(t.args[1]).z)}
	case OIDiv:
		b := c.eval(t.args[1]).z
		if b.Sign() == 0 {
			return EVal{z: new(big.Int)}
		}
		return EVal{z: eucDiv(c.eval(t.args[0]).z, b)}
	case OIMod:
		b := c.eval(t.args[1]).z
		if b.Sign() == 0 {
			return EVal{z: new(big.Int).Set(c.eval(t.args[0]).z)}
		}
		return EVal{z: eucMod(c.eval(t.args[0]).z, b)}
	case OINeg:
		return EVal{z: new(big.Int).Neg(c.eval(t.args[0]).z)}
	case OIAbs:
		return EVal{z: new(big.Int).Abs(c.eval(t.args[0]).z)}
	case OILe:
		return EVal{u: b2u(c.eval(t.args[0]).z.Cmp(c.eval(t.args[1]).z) <= 0)}
	case OILt:
		return EVal{u: b2u(c.eval(t.args[0]).z.Cmp(c.eval(t.args[1]).z) < 0)}
	case OBv2Nat:
		return EVal{z: new(big.Int).SetUint64(c.eval(t.args[0]).u)}
	case OInt2Bv:
		m := new(big.Int).Lsh(big.NewInt(1), uint(t.sort.W))
		return EVal{u: eucMod(c.eval(t.args[0]).z, m).Uint64()}
	}
	panic(fmt.Sprintf("eval: unhandled op %d", t.op))
}

// ---- printing ----

func smtName(n string) string { return "|" + n + "|" }

func (t *Term) constStr() string {
	switch t.sort.K {
	case KBool:
		if t.u != 0 {
			return "true"
		}
		return "false"
	case KInt:
		if t.z.Sign() < 0 {
			return "(- " + new(big.Int).Neg(t.z).String() + ")"
		}
		return t.z.String()
	}
	w := t.sort.W
	if w%4 == 0 {
		return fmt.Sprintf("#x%0*x", w/4, t.u)
	}
	return fmt.Sprintf("#b%0*b", w, t.u)
}

// String gives a compact inline rendering (debugging, samples).
func (t *Term) String() string {
	var sb strings.Builder
	t.write(&sb, 0)
	return sb.String()
}

func (t *Term) write(sb *strings.Builder, depth int) {
	if depth > 12 {
		sb.WriteString("…")
		return
	}
	switch t.op {
	case OConst:
		sb.WriteString(t.constStr())
	case OVar:
		sb.WriteString(t.name)
	default:
		sb.WriteByte('(')
		sb.WriteString(t.headStr())
		for _, a := range t.args {
			sb.WriteByte(' ')
			a.write(sb, depth+1)
		}
		sb.WriteByte(')')
	}
}

func (t *Term) headStr() string {
	switch t.op {
	case OExtract:
		return fmt.Sprintf("(_ extract %d %d)", t.hi, t.lo)
	case OZext:
		return fmt.Sprintf("(_ zero_extend %d)", t.hi)
	case OSext:
		return fmt.Sprintf("(_ sign_extend %d)", t.hi)
	case OInt2Bv:
		return fmt.Sprintf("(_ int2bv %d)", t.sort.W)
	case OTbl:
		return fmt.Sprintf("tbl%d", t.tbl.id)
	}
	return opNames[t.op]
}

// script renders the assertions as a self-contained SMT-LIB2 fragment
// (declarations, table definitions, one define-fun per shared inner node).
func script(asserts []*Term) (string, []*Term) {
	var sb strings.Builder
	seen := map[int]bool{}
	refs := map[int]int{}
	var order []*Term
	var vars []*Term
	tbls := map[int]*Table{}
	var walk func(t *Term)
	walk = func(t *Term) {
		refs[t.id]++
		if seen[t.id] {
			return
		}
		seen[t.id] = true
		for _, a := range t.args {
			walk(a)
		}
		if t.op == OVar {
			vars = append(vars, t)
		}
		if t.op == OTbl {
			tbls[t.tbl.id] = t.tbl
		}
		order = append(order, t)
	}
	for _, a := range asserts {
		walk(a)
	}
	sort.Slice(vars, func(i, j int) bool { return vars[i].id < vars[j].id })
	for _, v := range vars {
		fmt.Fprintf(&sb, "(declare-const %s %s)\n", smtName(v.name), v.sort)
	}
	tids := make([]int, 0, len(tbls))
	for id := range tbls {
		tids = append(tids, id)
	}
	sort.Ints(tids)
	for _, id := range tids {
		tb := tbls[id]
		fmt.Fprintf(&sb, "(define-fun tbl%d ((i (_ BitVec %d))) (_ BitVec %d) ", id, tb.iw, tb.ew)
		writeTblTree(&sb, tb, 0, 1<<uint(tb.iw), tb.iw)
		sb.WriteString(")\n")
	}
	named := map[int]string{}
	var ref func(t *Term) string
	ref = func(t *Term) string {
		switch t.op {
		case OConst:
			return t.constStr()
		case OVar:
			return smtName(t.name)
		}
		if n, ok := named[t.id]; ok {
			return n
		}
		var b strings.Builder
		b.WriteByte('(')
		b.WriteString(t.headStr())
		for _, a := range t.args {
			b.WriteByte(' ')
			b.WriteString(ref(a))
		}
		b.WriteByte(')')
		return b.String()
	}
	for _, t := range order {
		if t.op == OConst || t.op == OVar {
			continue
		}
		if refs[t.id] > 1 {
			body := ref(t)
			n := fmt.Sprintf("t%d", t.id)
			fmt.Fprintf(&sb, "(define-fun %s () %s %s)\n", n, t.sort, body)
			named[t.id] = n
		}
	}
	for _, a := range asserts {
		fmt.Fprintf(&sb, "(assert %s)\n", ref(a))
	}
	return sb.String(), vars
}

func writeTblTree(sb *strings.Builder, tb *Table, lo, hi, bit int) {
	// all equal in range?
	get := func(i int) uint64 {
		if i < len(tb.vals) {
			return tb.vals[i]
		}
		return 0
	}
	same := true
	for i := lo + 1; i < hi; i++ {
		if get(i) != get(lo) {
			same = false
			break
		}
	}
	if same {
		sb.WriteString(mkBV(get(lo), tb.ew).constStr())
		return
	}
	mid := (lo + hi) / 2
	b := bit - 1
	fmt.Fprintf(sb, "(ite (= ((_ extract %d %d) i) #b0) ", b, b)
	writeTblTree(sb, tb, lo, mid, b)
	sb.WriteByte(' ')
	writeTblTree(sb, tb, mid, hi, b)
	sb.WriteByte(')')
}
