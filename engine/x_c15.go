package main

// C15 (format directives): internal/strconv.small(i), 0 <= i < 100, returns
// digits[i:i+1] or smalls[2i:2i+2].  Interpreted, the two slice expressions
// concretise a symbolic i (one path per value, 100 paths for every one- or
// two-digit integer argument of ~D).  The model forks only on i < 10 and
// returns the same bytes as table look-ups over the same two constant strings.

import (
	"golang.org/x/tools/go/ssa"
)

const (
	c15Digits = "0123456789"
	c15Smalls = "00010203040506070809" +
		"10111213141516171819" +
		"20212223242526272829" +
		"30313233343536373839" +
		"40414243444546474849" +
		"50515253545556575859" +
		"60616263646566676869" +
		"70717273747576777879" +
		"80818283848586878889" +
		"90919293949596979899"
)

func c15Table(s string) *Table {
	vals := make([]uint64, len(s))
	for i := 0; i < len(s); i++ {
		vals[i] = uint64(s[i])
	}
	return mkTable(vals, 8)
}

func init() {
	reg("internal/strconv.small", func(fr *frame, fn *ssa.Function, args []Val) Val {
		if i, ok := args[0].(int64); ok {
			if i < 0 || 100 <= i {
				unsupported("internal/strconv.small outside 0..99")
			}
			if i < 10 {
				return c15Digits[i : i+1]
			}
			return c15Smalls[i*2 : i*2+2]
		}
		t := toBV(args[0], 64)
		if !in.ex.branch(in.path, mkCmp(OUlt, t, mkBV(100, 64))) {
			unsupported("internal/strconv.small outside 0..99")
		}
		if in.ex.branch(in.path, mkCmp(OUlt, t, mkBV(10, 64))) {
			return SymStr{b: []Val{fromBV(mkTbl(c15Table(c15Digits), t), 8, false)}}.norm()
		}
		t2 := mkBin(OAdd, t, t)
		return SymStr{b: []Val{
			fromBV(mkTbl(c15Table(c15Smalls), t2), 8, false),
			fromBV(mkTbl(c15Table(c15Smalls), mkBin(OAdd, t2, mkBV(1, 64))), 8, false),
		}}.norm()
	})
}
