package main

// Persistent solver processes (z3 -in, z3-new -in, cvc5 --incremental).
// Every query is sent inside (push 1)…(pop 1); any "(error" line makes the
// answer inconclusive.

import (
	"bufio"
	"fmt"
	"io"
	"math/big"
	"os"
	"os/exec"
	"strings"
	"time"
)

var lastQueryFile = os.Getenv("SYMGO_LASTQ")

type Solver struct {
	name    string
	cmd     *exec.Cmd
	in      io.WriteCloser
	out     *bufio.Reader
	queries int
	sat     int
	unsat   int
	unknown int
	errors  int
	time    time.Duration
	dead    bool
	timeout int
}

func startSolver(name string, timeoutMs int) (*Solver, error) {
	var cmd *exec.Cmd
	switch name {
	case "z3":
		cmd = exec.Command("z3", "-in", fmt.Sprintf("-t:%d", timeoutMs))
	case "z3-new":
		cmd = exec.Command("z3-new", "-in", fmt.Sprintf("-t:%d", timeoutMs))
	case "cvc5":
		cmd = exec.Command("cvc5", "--incremental", "--lang=smt2", "--produce-models", fmt.Sprintf("--tlimit-per=%d", timeoutMs))
	default:
		return nil, fmt.Errorf("unknown solver %s", name)
	}
	in, err := cmd.StdinPipe()
	if err != nil {
		return nil, err
	}
	out, err := cmd.StdoutPipe()
	if err != nil {
		return nil, err
	}
	cmd.Stderr = cmd.Stdout
	if err = cmd.Start(); err != nil {
		return nil, err
	}
	s := &Solver{name: name, cmd: cmd, in: in, out: bufio.NewReaderSize(out, 1<<20), timeout: timeoutMs}
	if name == "cvc5" {
		io.WriteString(in, "(set-logic ALL)\n")
	}
	io.WriteString(in, "(set-option :produce-models true)\n")
	return s, nil
}

func (s *Solver) close() {
	if s == nil || s.dead {
		return
	}
	s.dead = true
	s.in.Close()
	s.cmd.Process.Kill()
	go s.cmd.Wait()
}

func (s *Solver) restart() {
	s.close()
	n, err := startSolver(s.name, s.timeout)
	if err != nil {
		return
	}
	s.cmd, s.in, s.out, s.dead = n.cmd, n.in, n.out, false
}

// check decides the conjunction of asserts.  Returns "sat", "unsat" or
// "unknown"; with a model (over the variables occurring) when sat.
func (s *Solver) check(asserts []*Term) (string, Model) {
	t0 := time.Now()
	defer func() { s.time += time.Since(t0) }()
	s.queries++
	if s.dead {
		s.restart()
	}
	body, vars := script(asserts)
	var sb strings.Builder
	// z3: (reset) instead of push/pop keeps the non-incremental tactics
	// (preprocessing + bit-blasting) available; every query is self-contained.
	useReset := s.name != "cvc5"
	if useReset {
		fmt.Fprintf(&sb, "(reset)\n(set-option :produce-models true)\n(set-option :timeout %d)\n", s.timeout)
	} else {
		sb.WriteString("(push 1)\n")
	}
	sb.WriteString(body)
	sb.WriteString("(check-sat)\n(echo \"ENDCHK\")\n")
	if lastQueryFile != "" {
		os.WriteFile(lastQueryFile, []byte(sb.String()), 0o644)
	}
	if _, err := io.WriteString(s.in, sb.String()); err != nil {
		s.errors++
		s.restart()
		return "unknown", nil
	}
	// watchdog: z3's non-linear core can ignore its own timeout
	proc := s.cmd.Process
	wd := time.AfterFunc(time.Duration(s.timeout+3000)*time.Millisecond, func() { proc.Kill() })
	lines, ok := s.readUntil("ENDCHK")
	wd.Stop()
	res := "unknown"
	if !ok {
		s.errors++
		if verbose {
			fmt.Println("SOLVER DIED on query:\n" + sb.String() + "\noutput: " + strings.Join(lines, "\n"))
		}
		s.restart()
		return "unknown", nil
	}
	hasErr := false
	for _, l := range lines {
		l = strings.TrimSpace(l)
		if strings.HasPrefix(l, "(error") {
			hasErr = true
		}
		if l == "sat" || l == "unsat" || l == "unknown" {
			res = l
		}
	}
	if hasErr {
		s.errors++
		res = "unknown"
		if verbose {
			fmt.Println("SOLVER ERROR:", strings.Join(lines, "\n"))
			fmt.Println(sb.String())
		}
	}
	var m Model
	if res == "sat" {
		m = Model{}
		if len(vars) > 0 {
			var q strings.Builder
			q.WriteString("(get-value (")
			for _, v := range vars {
				q.WriteString(smtName(v.name))
				q.WriteByte(' ')
			}
			q.WriteString("))\n(echo \"ENDVAL\")\n")
			io.WriteString(s.in, q.String())
			vl, ok := s.readUntil("ENDVAL")
			if !ok {
				s.errors++
				s.restart()
				return "unknown", nil
			}
			vals, err := parseValues(strings.Join(vl, " "))
			if err != nil || len(vals) != len(vars) {
				s.errors++
				if verbose {
					fmt.Println("MODEL PARSE ERROR:", err, strings.Join(vl, " "))
				}
				res = "unknown"
				m = nil
			} else {
				for i, v := range vars {
					m[v.id] = vals[i]
				}
			}
		}
	}
	if !useReset {
		io.WriteString(s.in, "(pop 1)\n")
	}
	switch res {
	case "sat":
		s.sat++
	case "unsat":
		s.unsat++
	default:
		s.unknown++
	}
	return res, m
}

func (s *Solver) readUntil(marker string) ([]string, bool) {
	var lines []string
	for {
		l, err := s.out.ReadString('\n')
		if err != nil {
			return lines, false
		}
		l = strings.TrimRight(l, "\r\n")
		if strings.Trim(l, "\"") == marker {
			return lines, true
		}
		lines = append(lines, l)
	}
}

// parseValues parses ((name val) (name val) ...) returning the values in order.
func parseValues(s string) ([]EVal, error) {
	toks := tokenize(s)
	pos := 0
	var out []EVal
	expect := func(t string) error {
		if pos >= len(toks) || toks[pos] != t {
			return fmt.Errorf("expected %q at %d", t, pos)
		}
		pos++
		return nil
	}
	if err := expect("("); err != nil {
		return nil, err
	}
	for pos < len(toks) && toks[pos] == "(" {
		pos++
		pos++ // name
		v, err := parseVal(toks, &pos)
		if err != nil {
			return nil, err
		}
		out = append(out, v)
		if err := expect(")"); err != nil {
			return nil, err
		}
	}
	return out, nil
}

func parseVal(toks []string, pos *int) (EVal, error) {
	if *pos >= len(toks) {
		return EVal{}, fmt.Errorf("eof")
	}
	t := toks[*pos]
	*pos++
	switch {
	case t == "true":
		return EVal{u: 1}, nil
	case t == "false":
		return EVal{u: 0}, nil
	case strings.HasPrefix(t, "#x"):
		z, ok := new(big.Int).SetString(t[2:], 16)
		if !ok {
			return EVal{}, fmt.Errorf("bad hex %s", t)
		}
		return EVal{u: z.Uint64()}, nil
	case strings.HasPrefix(t, "#b"):
		z, ok := new(big.Int).SetString(t[2:], 2)
		if !ok {
			return EVal{}, fmt.Errorf("bad bin %s", t)
		}
		return EVal{u: z.Uint64()}, nil
	case t == "(":
		// (- N) or (_ bvN w)
		if *pos < len(toks) && toks[*pos] == "-" {
			*pos++
			v, err := parseVal(toks, pos)
			if err != nil {
				return v, err
			}
			if *pos >= len(toks) || toks[*pos] != ")" {
				return EVal{}, fmt.Errorf("bad neg")
			}
			*pos++
			return EVal{z: new(big.Int).Neg(v.z)}, nil
		}
		if *pos < len(toks) && toks[*pos] == "_" {
			*pos++
			bv := toks[*pos]
			*pos += 2
			if *pos >= len(toks) || toks[*pos] != ")" {
				return EVal{}, fmt.Errorf("bad bv literal")
			}
			*pos++
			z, ok := new(big.Int).SetString(strings.TrimPrefix(bv, "bv"), 10)
			if !ok {
				return EVal{}, fmt.Errorf("bad bv %s", bv)
			}
			return EVal{u: z.Uint64()}, nil
		}
		return EVal{}, fmt.Errorf("unexpected list value")
	default:
		z, ok := new(big.Int).SetString(t, 10)
		if !ok {
			return EVal{}, fmt.Errorf("bad value %s", t)
		}
		return EVal{z: z, u: z.Uint64()}, nil
	}
}

func tokenize(s string) []string {
	var toks []string
	i := 0
	for i < len(s) {
		c := s[i]
		switch {
		case c == ' ' || c == '\n' || c == '\t' || c == '\r':
			i++
		case c == '(' || c == ')':
			toks = append(toks, string(c))
			i++
		case c == '|':
			j := i + 1
			for j < len(s) && s[j] != '|' {
				j++
			}
			toks = append(toks, s[i:j+1])
			i = j + 1
		default:
			j := i
			for j < len(s) && !strings.ContainsRune(" \n\t\r()", rune(s[j])) {
				j++
			}
			toks = append(toks, s[i:j])
			i = j
		}
	}
	return toks
}
