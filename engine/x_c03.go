package main

// C03 (print/read round trip) engine additions.
//
//   - (*big.Int).Append of a SYMBOLIC big integer (core model: unsupported unless
//     opaque_int_text): the text is produced like strconv.AppendInt of a symbolic
//     machine integer (fmtint.go: fork on sign and digit count, the digits are fresh
//     integers defined by x = sum d_i*base^i), for |x| < 2^136.  The harness bounds x
//     to a narrow band so that only a few digit counts are feasible.
//   - ojg.AppendJSONString with symbolic bytes in the string: instead of a hand model the
//     real function body (pure Go: a table lookup per byte, unicode/utf8) is interpreted;
//     ojg is not an interpreted package, so its only global the function reads (the
//     constant table jMap) gets its cell here on first use.  Concrete strings still go
//     through the native function.

import (
	"golang.org/x/tools/go/ssa"
)

const c03BigTextBits = 136

// copy of github.com/ohler55/ojg@v1.27.0 string.go jMap (the harness notes the printed text,
// so the witness validation of ./check compares it with what the native function produces)
const c03JMap = "" +
	`........btn.fr..................` + // 0x00
	`oo"ooohooooooooooooooooooooohoho` + // 0x20
	`oooooooooooooooooooooooooooo\ooo` + // 0x40
	"ooooooooooooooooooooooooooooooo." + // 0x60
	`88888888888888888888888888888888` + // 0x80
	`88888888888888888888888888888888` + // 0xa0
	`88888888888888888888888888888888` + // 0xc0
	`88888888888888888888888888888888` //  0xe0

func init() {
	prevAppend := intrinsics["(*math/big.Int).Append"]
	reg("(*math/big.Int).Append", func(fr *frame, fn *ssa.Function, args []Val) Val {
		x := bigOf(fr, args[0])
		base, ok := args[2].(int64)
		if x.isConc() || opaqueIntText || !ok {
			return prevAppend(fr, fn, args)
		}
		buf, _ := args[1].([]Val)
		return appendVals(buf, formatSymInt(x.term(), c03BigTextBits, true, base))
	})

	prevJSON := intrinsics["github.com/ohler55/ojg.AppendJSONString"]
	jmapReady := false
	reg("github.com/ohler55/ojg.AppendJSONString", func(fr *frame, fn *ssa.Function, args []Val) Val {
		if _, conc := args[1].(string); conc {
			return prevJSON(fr, fn, args)
		}
		if fn.Blocks == nil || fn.Pkg == nil {
			unsupported("ojg.AppendJSONString of a string with symbolic bytes: no SSA body loaded")
		}
		if !jmapReady {
			gl, ok := fn.Pkg.Members["jMap"].(*ssa.Global)
			if !ok {
				unsupported("ojg.AppendJSONString: global jMap not found (module version changed?)")
			}
			if in.globals[gl] == nil {
				cell := new(Val)
				*cell = c03JMap
				in.globals[gl] = cell
			}
			jmapReady = true
		}
		name := fn.String()
		f := intrinsics[name]
		delete(intrinsics, name)
		// only for this call the package counts as interpreted (otherwise callSSA hands the
		// function to the native-call path)
		pp := fn.Pkg.Pkg.Path()
		was := in.interpOK[pp]
		in.interpOK[pp] = true
		defer func() { intrinsics[name] = f; in.interpOK[pp] = was }()
		return callSSA(fr, 0, fn, args, nil)
	})
}
