package main

// C10: printing a bignum / ratio argument inside the no-applicable-method message.
// (*big.Int).Append: the reflect fallback does not find the method. (*big.Rat).Num/Denom: no
// model; here a read-only copy of the concrete numerator/denominator (the result must not be
// written through — slip's printer only reads it).

import (
	"math/big"

	"golang.org/x/tools/go/ssa"
)

func init() {
	// (*big.Int).Append: merged into the core model (big.go), which also handles buffers with
	// symbolic bytes and the opaque_int_text option; the concrete case here is its fallback.
	c10BigAppend := func(fr *frame, fn *ssa.Function, args []Val) Val {
		b := bigOf(fr, args[0])
		base, ok := args[2].(int64)
		if !b.isConc() || !ok {
			unsupported("symbolic operand in (*big.Int).Append")
		}
		buf, _ := args[1].([]Val)
		return appendVals(buf, strBytes(b.c.Text(int(base))))
	}
	bigAppendConcrete = c10BigAppend
	part := func(den bool) intrinsic {
		return func(fr *frame, fn *ssa.Function, args []Val) Val {
			p, ok := args[0].(*Val)
			if !ok || p == nil {
				unsupported("big.Rat receiver in Num/Denom")
			}
			r, ok := (*p).(*BigRat)
			if !ok || !r.num.isConc() || !r.den.isConc() {
				unsupported("symbolic big.Rat in Num/Denom")
			}
			if den {
				return newBigCell(new(big.Int).Set(r.den.c))
			}
			return newBigCell(new(big.Int).Set(r.num.c))
		}
	}
	reg("(*math/big.Rat).Num", part(false))
	reg("(*math/big.Rat).Denom", part(true))
}
