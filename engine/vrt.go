package main

// The harness API (package zzvrt) as seen by the engine, and fmt models.

import (
	"fmt"
	"go/token"
	"go/types"
	"reflect"
	"strings"

	"golang.org/x/tools/go/ssa"
)

type Violation struct {
	Obligation string            `json:"obligation"`
	Entry      string            `json:"entry"`
	Pkg        string            `json:"pkg"`
	Params     []int64           `json:"params"`
	Msg        string            `json:"msg"`
	Site       string            `json:"site"`
	Values     map[string]string `json:"values"` // named inputs -> decimal value
	Order      []string          `json:"order"`
	Notes      []string          `json:"notes"`
	Probe      string            `json:"probe,omitempty"`
	Faults     []string          `json:"faults,omitempty"`
}

var cellGuards = map[*Val]*guardInfo{}

var knownIDs = map[string]bool{} // ids of "known:" findings
var probeID string               // when set: explore inside that finding's region

func (in *Interp) fresh(name string, s Sort) *Term {
	p := in.path
	p.nvar[name]++
	n := name
	if k := p.nvar[name]; k > 1 {
		n = fmt.Sprintf("%s#%d", name, k)
	}
	t := mkVar(n, s)
	p.inputs = append(p.inputs, inputRec{n, t})
	return t
}

// freshInt: a symbolic machine integer in the Int encoding, constrained to its type's range.
func (in *Interp) freshInt(name string, w int, signed bool) *Term {
	t := in.fresh(name, intSort)
	r := typeRange(w, signed)
	varRange[t.id] = r
	in.ex.addPC(in.path, mkICmp(OILe, mkInt(r.lo), t))
	in.ex.addPC(in.path, mkICmp(OILe, t, mkInt(r.hi)))
	return t
}

func strArg(v Val) string {
	s, ok := v.(string)
	if !ok {
		unsupported("symbolic name/tag argument to zzvrt")
	}
	return s
}

func vrtCall(fr *frame, fn *ssa.Function, args []Val) Val {
	switch fn.Name() {
	case "Int", "Int64":
		if in.intMode {
			return in.freshInt(strArg(args[0]), 64, true)
		}
		return in.fresh(strArg(args[0]), bvSort(64))
	case "Uint64":
		if in.intMode {
			return in.freshInt(strArg(args[0]), 64, false)
		}
		return in.fresh(strArg(args[0]), bvSort(64))
	case "Int32", "Rune":
		if in.intMode {
			return in.freshInt(strArg(args[0]), 32, true)
		}
		return in.fresh(strArg(args[0]), bvSort(32))
	case "Byte":
		return in.fresh(strArg(args[0]), bvSort(8))
	case "Bool":
		return in.fresh(strArg(args[0]), boolSort)
	case "Big":
		c := new(Val)
		*c = &BigInt{t: in.fresh(strArg(args[0]), intSort)}
		return c
	case "Bytes", "String":
		name := strArg(args[0])
		n, ok := args[1].(int64)
		if !ok {
			unsupported("zzvrt.Bytes with a symbolic length (case-split lengths in the harness)")
		}
		b := make([]Val, n)
		for i := range b {
			b[i] = in.fresh(fmt.Sprintf("%s[%d]", name, i), bvSort(8))
		}
		if fn.Name() == "String" {
			return SymStr{b: b}.norm()
		}
		return b
	case "Choice":
		name := strArg(args[0])
		n, ok := args[1].(int64)
		if !ok || n <= 0 {
			unsupported("zzvrt.Choice needs a concrete positive count")
		}
		if n == 1 {
			return int64(0)
		}
		t := in.fresh(name, bvSort(64))
		alts := make([]*Term, n)
		for i := range alts {
			alts[i] = mkEq(t, mkBV(uint64(i), 64))
		}
		return int64(in.ex.choose(in.path, alts))
	case "Assume":
		switch c := args[0].(type) {
		case bool:
			if !c {
				panic(pathEnd{"assume-false", ""})
			}
		case *Term:
			res, m := in.ex.feasible(in.path, c)
			if res == "unsat" {
				panic(pathEnd{"assume-false", ""})
			}
			if res == "sat" {
				in.path.model = m
			}
			in.ex.addPC(in.path, c)
		}
		return nil
	case "Assert":
		vrtAssert(fr, args[0], strArg(args[1]))
		return nil
	case "Reach":
		in.path.reached[strArg(args[0])] = true
		return nil
	case "Carve":
		id := strArg(args[0])
		region := toBoolTerm(args[1])
		switch {
		case probeID != "" && id == probeID:
			assume(region)
		case knownIDs[id]:
			assume(mkNot(region))
		}
		return nil
	case "Note":
		in.path.traces = append(in.path.traces, noteString(args))
		return nil
	case "HeldLocks":
		return int64(heldLocks())
	case "Guard":
		obj, _ := args[0].(Iface)
		mu, _ := args[1].(Iface)
		mp, ok := mu.v.(*Val)
		if !ok || mp == nil {
			unsupported("zzvrt.Guard: mutex must be a pointer to a sync.Mutex/RWMutex")
		}
		g := &guardInfo{mu: mp, name: strArg(args[2])}
		switch x := obj.v.(type) {
		case *Map:
			if x != nil {
				old := x.guard
				logUndo(func() { x.guard = old })
				x.guard = g
			}
		case *Val:
			if x != nil {
				old, had := cellGuards[x]
				logUndo(func() {
					if had {
						cellGuards[x] = old
					} else {
						delete(cellGuards, x)
					}
				})
				cellGuards[x] = g
			}
		default:
			unsupported(fmt.Sprintf("zzvrt.Guard on %T", obj.v))
		}
		return nil
	case "GuardField":
		// Guard(table, the mutex stored in field <name> of the struct *holder)
		obj, _ := args[0].(Iface)
		holder, _ := args[1].(Iface)
		field := strArg(args[2])
		hp, ok := holder.v.(*Val)
		if !ok || hp == nil {
			unsupported("zzvrt.GuardField: holder must be a pointer to a struct")
		}
		st, ok := deref(holder.t).Underlying().(*types.Struct)
		if !ok {
			unsupported("zzvrt.GuardField: holder is not a struct pointer")
		}
		var mu Val
		found := false
		var walk func(sv Struct, st *types.Struct)
		walk = func(sv Struct, st *types.Struct) {
			for i := 0; i < st.NumFields() && !found; i++ {
				if st.Field(i).Name() == field {
					mu, found = sv[i], true
					return
				}
				if st.Field(i).Embedded() {
					if es, ok := st.Field(i).Type().Underlying().(*types.Struct); ok {
						if esv, ok := sv[i].(Struct); ok {
							walk(esv, es)
						}
					}
				}
			}
		}
		walk((*hp).(Struct), st)
		if !found {
			unsupported("zzvrt.GuardField: no field " + field)
		}
		for {
			if i, isI := mu.(Iface); isI {
				mu = i.v
				continue
			}
			break
		}
		mp, ok := mu.(*Val)
		if !ok || mp == nil {
			// not synchronised: nothing guards the table (every access is a violation by definition)
			mp = new(Val)
		}
		g := &guardInfo{mu: mp, name: strArg(args[3])}
		if x, ok := obj.v.(*Map); ok && x != nil {
			old := x.guard
			logUndo(func() { x.guard = old })
			x.guard = g
		} else {
			unsupported(fmt.Sprintf("zzvrt.GuardField on %T", obj.v))
		}
		return nil
	case "GuardViolations":
		for _, g := range in.path.guardViol {
			in.path.traces = append(in.path.traces, "GUARD "+g)
		}
		return int64(len(in.path.guardViol))
	case "Symbolic":
		return true
	case "Faults":
		return int64(len(in.path.faults))
	case "Unsupported":
		unsupported("harness: " + strArg(args[0]))
	}
	panic("unknown zzvrt function " + fn.Name())
}

func assume(c *Term) {
	if c.isTrue() {
		return
	}
	if c.isFalse() {
		panic(pathEnd{"assume-false", ""})
	}
	res, m := in.ex.feasible(in.path, c)
	if res == "unsat" {
		panic(pathEnd{"assume-false", ""})
	}
	if res == "sat" {
		in.path.model = m
	}
	in.ex.addPC(in.path, c)
}

func noteString(args []Val) string {
	var sb strings.Builder
	sb.WriteString(strArg(args[0]))
	if len(args) > 1 {
		if vs, ok := args[1].([]Val); ok {
			for _, v := range vs {
				sb.WriteByte(' ')
				sb.WriteString(showVal(v))
			}
		}
	}
	return sb.String()
}

func showVal(v Val) string {
	switch v := v.(type) {
	case Iface:
		if v.t == nil {
			return "nil"
		}
		return showVal(v.v)
	case *Term:
		e := evalTerm(v, in.path.model)
		if v.sort.K == KBool {
			return fmt.Sprint(e.u != 0)
		}
		if v.sort.K == KInt {
			return e.z.String()
		}
		return fmt.Sprint(sext64(e.u, v.sort.W))
	case SymStr:
		b := make([]byte, len(v.b))
		for i, e := range v.b {
			switch e := e.(type) {
			case int64:
				b[i] = byte(e)
			case *Term:
				b[i] = byte(evalTerm(e, in.path.model).u)
			}
		}
		return string(b)
	case []Val:
		parts := make([]string, len(v))
		for i, e := range v {
			parts[i] = showVal(e)
		}
		return "[" + strings.Join(parts, " ") + "]"
	}
	return fmt.Sprint(v)
}

func vrtAssert(fr *frame, c Val, msg string) {
	in.path.asserts++
	site := ""
	if fr != nil {
		site = in.pos(fr.callPos)
		if fr.caller != nil {
			site = fr.fn.Name() + "@" + site
		}
	}
	switch c := c.(type) {
	case bool:
		if c {
			in.ex.stats.AssertFolded++
			return
		}
		// violated on this path for every value satisfying the path condition
		m := in.path.model
		if in.path.uncertain {
			// the path condition itself was never shown satisfiable: ask now
			res, mm := in.ex.cachedCheck(append([]*Term(nil), in.path.pc...), new(int))
			switch res {
			case "unsat":
				panic(pathEnd{"infeasible", "path condition unsatisfiable"})
			case "sat":
				m = mm
			default:
				in.inconclusive = append(in.inconclusive, fmt.Sprintf("%s: assertion %q fails on a path whose feasibility the solver could not decide", site, msg))
				panic(pathEnd{"undecided", msg})
			}
		}
		recordViolation(msg, site, m)
		panic(pathEnd{"violation", msg})
	case *Term:
		neg := mkNot(c)
		ex := in.ex
		ex.stats.AssertQueries++
		q := append(append([]*Term(nil), ex.slice(in.path, neg.varIDs())...), neg)
		res, m := ex.cachedCheck(q, new(int))
		switch res {
		case "unsat":
			ex.stats.AssertUnsat++
			ex.addPC(in.path, c)
		case "sat":
			ex.stats.AssertSat++
			nm := in.path.model.clone()
			for k, v := range m {
				nm[k] = v
			}
			recordViolation(msg, site, nm)
			panic(pathEnd{"violation", msg})
		default:
			ex.stats.AssertUnknown++
			in.inconclusive = append(in.inconclusive, fmt.Sprintf("%s: solver answered unknown for assertion %q", site, msg))
			ex.addPC(in.path, c)
		}
	default:
		panic(fmt.Sprintf("Assert on %T", c))
	}
}

func recordViolation(msg, site string, m Model) {
	v := Violation{Msg: msg, Site: site, Values: map[string]string{}}
	for _, inp := range in.path.inputs {
		e := evalTerm(inp.t, m)
		var s string
		switch inp.t.sort.K {
		case KBool:
			s = fmt.Sprint(e.u)
		case KInt:
			s = e.z.String()
		default:
			s = fmt.Sprint(e.u)
		}
		v.Values[inp.name] = s
		v.Order = append(v.Order, inp.name)
	}
	save := in.path.model
	in.path.model = m
	for _, t := range in.path.traces {
		v.Notes = append(v.Notes, t)
	}
	in.path.model = save
	for _, f := range in.path.faults {
		v.Faults = append(v.Faults, f.kind+" "+f.site+": "+f.msg)
	}
	in.curViolations = append(in.curViolations, v)
}

// ---- fmt ----

func init() {
	reg("fmt.Sprintf", func(fr *frame, fn *ssa.Function, args []Val) Val {
		return fmtSprintf(fr, args[0], args[1])
	})
	reg("fmt.Errorf", func(fr *frame, fn *ssa.Function, args []Val) Val {
		s := fmtSprintf(fr, args[0], args[1])
		return interpError(s.(string))
	})
	reg("fmt.Sprint", func(fr *frame, fn *ssa.Function, args []Val) Val {
		return fmtNative(fr, nil, args[0], fmt.Sprint)
	})
	reg("fmt.Sprintln", func(fr *frame, fn *ssa.Function, args []Val) Val {
		return fmtNative(fr, nil, args[0], fmt.Sprintln)
	})
	reg("fmt.Appendf", func(fr *frame, fn *ssa.Function, args []Val) Val {
		s := fmtSprintf(fr, args[1], args[2]).(string)
		return appendVals(args[0].([]Val), strBytes(s))
	})
	reg("fmt.Append", func(fr *frame, fn *ssa.Function, args []Val) Val {
		s := fmtNative(fr, nil, args[1], fmt.Sprint).(string)
		return appendVals(args[0].([]Val), strBytes(s))
	})
	reg("fmt.Fprintf", func(fr *frame, fn *ssa.Function, args []Val) Val {
		s := fmtSprintf(fr, args[1], args[2]).(string)
		return writeTo(fr, args[0], s)
	})
	reg("fmt.Fprint", func(fr *frame, fn *ssa.Function, args []Val) Val {
		s := fmtNative(fr, nil, args[1], fmt.Sprint).(string)
		return writeTo(fr, args[0], s)
	})
	reg("fmt.Fprintln", func(fr *frame, fn *ssa.Function, args []Val) Val {
		s := fmtNative(fr, nil, args[1], fmt.Sprintln).(string)
		return writeTo(fr, args[0], s)
	})
	pr := func(fr *frame, fn *ssa.Function, args []Val) Val {
		return Tuple{int64(0), Iface{}}
	}
	reg("fmt.Printf", pr)
	reg("fmt.Println", pr)
	reg("fmt.Print", pr)
}

func writeTo(fr *frame, w Val, s string) Val {
	wi := w.(Iface)
	if wi.t == nil {
		fr.fault(nil, "nilderef", "nil io.Writer")
	}
	b := append([]Val{}, strBytes(s)...)
	if nat, ok := wi.v.(Native); ok {
		return callNativeMethod(fr, nativeMethod{nat, "Write"}, []Val{b})
	}
	m := findMethod(wi.t, "Write")
	if m == nil {
		unsupported("writer without Write")
	}
	return call(fr, token.NoPos, m, []Val{wi.v, b})
}

var anyRT = reflect.TypeOf((*any)(nil)).Elem()

func fmtArgs(fr *frame, verbs []byte, a Val) []any {
	vs, _ := a.([]Val)
	out := make([]any, len(vs))
	for i, v := range vs {
		verb := byte('v')
		if i < len(verbs) {
			verb = verbs[i]
		}
		out[i] = fmtArg(fr, verb, v)
	}
	return out
}

func fmtArg(fr *frame, verb byte, v Val) (res any) {
	defer func() {
		if r := recover(); r != nil {
			if _, ok := r.(notMarshallable); ok {
				in.ex.stats.Unsupported["fmt: placeholder for an argument that cannot be rendered"]++
				res = "‹?›"
				return
			}
			panic(r)
		}
	}()
	i, ok := v.(Iface)
	if !ok {
		return fmt.Sprintf("‹%T›", v)
	}
	if i.t == nil {
		return nil
	}
	if containsSym(i.v) {
		return "‹sym›"
	}
	textual := strings.IndexByte("svqxX", verb) >= 0
	if !textual {
		if _, isB := i.t.Underlying().(*types.Basic); isB {
			if _, isNat := i.v.(Native); !isNat {
				rv := ifaceBasicNative(fr, i)
				if rv.IsValid() {
					return rv.Interface()
				}
			}
		}
	}
	rv := ifaceToNative(fr, i, anyRT)
	if !rv.IsValid() {
		return nil
	}
	x := rv.Interface()
	if ot, ok := x.(opaqueText); ok {
		return string(ot)
	}
	return x
}

func ifaceBasicNative(fr *frame, i Iface) reflect.Value {
	save := findMethodDisabled
	findMethodDisabled = true
	defer func() { findMethodDisabled = save }()
	return ifaceToNative(fr, Iface{t: i.t.Underlying(), v: i.v}, anyRT)
}

var findMethodDisabled bool

func containsSym(v Val) bool {
	switch v := v.(type) {
	case *Term:
		return true
	case SymStr:
		return true
	case Iface:
		return containsSym(v.v)
	case []Val:
		for _, e := range v {
			if containsSym(e) {
				return true
			}
		}
	case Struct:
		for _, e := range v {
			if containsSym(e) {
				return true
			}
		}
	}
	return false
}

func fmtVerbs(format string) []byte {
	var verbs []byte
	for i := 0; i < len(format); i++ {
		if format[i] != '%' {
			continue
		}
		i++
		for i < len(format) && strings.IndexByte("+-# 0123456789.[]*", format[i]) >= 0 {
			if format[i] == '*' {
				verbs = append(verbs, 'd')
			}
			i++
		}
		if i < len(format) && format[i] != '%' {
			verbs = append(verbs, format[i])
		}
	}
	return verbs
}

func fmtSprintf(fr *frame, format Val, a Val) Val {
	f, ok := format.(string)
	if !ok {
		return "‹symbolic format›"
	}
	return fmt.Sprintf(f, fmtArgs(fr, fmtVerbs(f), a)...)
}

func fmtNative(fr *frame, _ Val, a Val, f func(...any) string) Val {
	return f(fmtArgs(fr, nil, a)...)
}
