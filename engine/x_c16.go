package main

// C16: model of one dispatch arm of github.com/ohler55/ojg/sen.Bytes.
//
// sen.Bytes(data) is called natively (ojg is not interpreted).  For a value
// that implements alt.Simplifier — every slip.Object does — ojg's writer does
// `wr.appendSEN(td.Simplify(), depth)` (sen/writer.go, case alt.Simplifier).
// The generic marshalling of an interpreted object into a native `any` renders
// it through String(), which is not what ojg sees.  This intrinsic calls the
// object's own (interpreted) Simplify method and hands the resulting plain Go
// data (int64, float64, string, bool, nil, []any of those) to the native
// sen.Bytes.  Concrete values only.

import (
	"go/token"
	"go/types"
	"reflect"

	"golang.org/x/tools/go/ssa"
)

func init() {
	reg("github.com/ohler55/ojg/sen.Bytes", func(fr *frame, fn *ssa.Function, args []Val) Val {
		nf, ok := nativeFuncs["github.com/ohler55/ojg/sen.Bytes"]
		if !ok {
			unsupported("sen.Bytes is not in the native registry")
		}
		data, isI := args[0].(Iface)
		if !isI {
			unsupported("sen.Bytes: unexpected argument")
		}
		if opts, isS := args[1].([]Val); !isS || len(opts) != 0 {
			return callNative(fr, "github.com/ohler55/ojg/sen.Bytes", nf, args, fn.Signature)
		}
		var nat any
		if data.t != nil {
			if _, isNat := data.v.(Native); isNat {
				return callNative(fr, "github.com/ohler55/ojg/sen.Bytes", nf, args, fn.Signature)
			}
			m := findMethod(data.t, "Simplify")
			if m == nil || m.Signature.Params().Len() != 0 || m.Signature.Results().Len() != 1 {
				return callNative(fr, "github.com/ohler55/ojg/sen.Bytes", nf, args, fn.Signature)
			}
			res, isR := call(fr, token.NoPos, m, []Val{data.v}).(Iface)
			if !isR {
				unsupported("sen.Bytes: Simplify did not return an interface value")
			}
			nat = c16PlainToNative(res)
		}
		var out []reflect.Value
		func() {
			defer func() {
				if r := recover(); r != nil {
					if _, isEnd := r.(pathEnd); isEnd {
						panic(r)
					}
					fr.fault(nil, "native-panic", "sen.Bytes panicked")
				}
			}()
			arg := reflect.New(reflect.TypeOf((*any)(nil)).Elem()).Elem()
			if nat != nil {
				arg.Set(reflect.ValueOf(nat))
			}
			out = nf.CallSlice([]reflect.Value{arg, reflect.ValueOf([]any{})})
		}()
		return fromNative(out[0], fn.Signature.Results().At(0).Type())
	})
}

// c16PlainToNative converts the result of a Simplify() call (plain data) into
// native Go data; anything symbolic or not plain ends the path as unsupported.
func c16PlainToNative(i Iface) any {
	if i.t == nil {
		return nil
	}
	switch v := i.v.(type) {
	case bool:
		return v
	case int64:
		if w, signed, ok := intInfo(i.t); ok {
			if !signed {
				return uint64(v) & mask(w)
			}
			return v
		}
		return v
	case float64:
		if b, isB := i.t.Underlying().(*types.Basic); isB && b.Kind() == types.Float32 {
			return float32(v)
		}
		return v
	case string:
		return v
	case SymStr:
		if s, isC := v.concrete(); isC {
			return s
		}
		unsupported("sen.Bytes: symbolic string")
	case []Val:
		out := make([]any, len(v))
		for k, e := range v {
			ei, ok := e.(Iface)
			if !ok {
				unsupported("sen.Bytes: slice element is not an interface value")
			}
			out[k] = c16PlainToNative(ei)
		}
		return out
	}
	unsupported("sen.Bytes: Simplify result is not plain concrete data")
	return nil
}
