package main

import (
	"fmt"
	"go/constant"
	"go/token"
	"go/types"
	"math"
	"reflect"
	"unicode/utf8"

	"golang.org/x/tools/go/ssa"
)

func constValue(c *ssa.Const) Val {
	if c.Value == nil {
		return zero(c.Type())
	}
	if t, ok := c.Type().Underlying().(*types.Basic); ok {
		switch {
		case t.Info()&types.IsBoolean != 0:
			return constant.BoolVal(c.Value)
		case t.Info()&types.IsInteger != 0:
			w, signed, _ := intInfo(t)
			if signed {
				return canon(uint64(c.Int64()), w, true)
			}
			return canon(c.Uint64(), w, false)
		case t.Info()&types.IsFloat != 0:
			f := c.Float64()
			if t.Kind() == types.Float32 {
				f = float64(float32(f))
			}
			return f
		case t.Info()&types.IsComplex != 0:
			return c.Complex128()
		case t.Info()&types.IsString != 0:
			if c.Value.Kind() == constant.String {
				return constant.StringVal(c.Value)
			}
			return string(rune(c.Int64()))
		}
	}
	panic(fmt.Sprintf("constValue: %s", c))
}

// toBV lifts an integer value to a bit-vector term of width w.
func toBV(v Val, w int) *Term {
	switch v := v.(type) {
	case int64:
		return mkBV(uint64(v), w)
	case *Term:
		if v.sort.K == KInt {
			return mkInt2Bv(v, w)
		}
		if v.sort.K != KBV || v.sort.W != w {
			panic(fmt.Sprintf("toBV: term of sort %v where width %d expected: %s", v.sort, w, v))
		}
		return v
	case Poison:
		unsupported("poison: " + v.why)
	}
	panic(fmt.Sprintf("toBV: %T", v))
}

func toBoolTerm(v Val) *Term {
	switch v := v.(type) {
	case bool:
		return mkBool(v)
	case *Term:
		return v
	case Poison:
		unsupported("poison: " + v.why)
	}
	panic(fmt.Sprintf("toBoolTerm: %T", v))
}

// fromTerm turns a constant term back into a concrete value.
func fromBV(t *Term, w int, signed bool) Val {
	if t.op == OConst {
		return canon(t.u, w, signed)
	}
	return t
}

func fromBoolTerm(t *Term) Val {
	if t.isTrue() {
		return true
	}
	if t.isFalse() {
		return false
	}
	return t
}

func isSym(v Val) bool {
	_, ok := v.(*Term)
	return ok
}

func binop(fr *frame, instr ssa.Instruction, op token.Token, t types.Type, x, y Val) Val {
	checkPoison(x)
	checkPoison(y)
	if w, signed, ok := intInfo(t); ok {
		return intBinop(fr, instr, op, w, signed, x, y)
	}
	if _, ok := isFloat(t); ok {
		return floatBinop(fr, op, t, x, y)
	}
	if isString(t) {
		return strBinop(op, x, y)
	}
	if isBoolT(t) {
		a, b := toBoolTerm(x), toBoolTerm(y)
		switch op {
		case token.EQL:
			return fromBoolTerm(mkEq(a, b))
		case token.NEQ:
			return fromBoolTerm(mkNot(mkEq(a, b)))
		case token.AND:
			return fromBoolTerm(mkAnd(a, b))
		case token.OR:
			return fromBoolTerm(mkOr(a, b))
		case token.XOR:
			return fromBoolTerm(mkNot(mkEq(a, b)))
		}
	}
	if bt, ok := t.Underlying().(*types.Basic); ok && bt.Info()&types.IsComplex != 0 {
		a, b := x.(complex128), y.(complex128)
		switch op {
		case token.ADD:
			return a + b
		case token.SUB:
			return a - b
		case token.MUL:
			return a * b
		case token.QUO:
			return a / b
		case token.EQL:
			return a == b
		case token.NEQ:
			return a != b
		}
	}
	switch op {
	case token.EQL:
		return equals(fr, instr, t, x, y)
	case token.NEQ:
		return notVal(equals(fr, instr, t, x, y))
	}
	panic(fmt.Sprintf("binop: %s on %s (%T, %T)", op, t, x, y))
}

func notVal(v Val) Val {
	switch v := v.(type) {
	case bool:
		return !v
	case *Term:
		return fromBoolTerm(mkNot(v))
	}
	panic("notVal")
}

func intBinop(fr *frame, instr ssa.Instruction, op token.Token, w int, signed bool, x, y Val) Val {
	// shifts: y has its own type
	if op == token.SHL || op == token.SHR {
		return shiftOp(fr, instr, op, w, signed, x, y)
	}
	xc, xok := x.(int64)
	yc, yok := y.(int64)
	if xok && yok {
		ux, uy := uint64(xc), uint64(yc)
		switch op {
		case token.ADD:
			return canon(ux+uy, w, signed)
		case token.SUB:
			return canon(ux-uy, w, signed)
		case token.MUL:
			return canon(ux*uy, w, signed)
		case token.QUO:
			if yc == 0 {
				fr.fault(instr, "divzero", "integer divide by zero")
			}
			if signed {
				if yc == -1 {
					return canon(uint64(-xc), w, true)
				}
				return canon(uint64(xc/yc), w, true)
			}
			return canon(ux/uy, w, false)
		case token.REM:
			if yc == 0 {
				fr.fault(instr, "divzero", "integer divide by zero")
			}
			if signed {
				if yc == -1 {
					return int64(0)
				}
				return canon(uint64(xc%yc), w, true)
			}
			return canon(ux%uy, w, false)
		case token.AND:
			return canon(ux&uy, w, signed)
		case token.OR:
			return canon(ux|uy, w, signed)
		case token.XOR:
			return canon(ux^uy, w, signed)
		case token.AND_NOT:
			return canon(ux&^uy, w, signed)
		case token.EQL:
			return xc == yc
		case token.NEQ:
			return xc != yc
		case token.LSS:
			if signed {
				return xc < yc
			}
			return ux < uy
		case token.LEQ:
			if signed {
				return xc <= yc
			}
			return ux <= uy
		case token.GTR:
			if signed {
				return xc > yc
			}
			return ux > uy
		case token.GEQ:
			if signed {
				return xc >= yc
			}
			return ux >= uy
		}
		panic(fmt.Sprintf("intBinop: unexpected op %s", op))
	}
	if isIntTerm(x) || isIntTerm(y) {
		return intBinopInt(fr, instr, op, w, signed, x, y)
	}
	a, b := toBV(x, w), toBV(y, w)
	switch op {
	case token.ADD:
		return fromBV(mkBin(OAdd, a, b), w, signed)
	case token.SUB:
		return fromBV(mkBin(OSub, a, b), w, signed)
	case token.MUL:
		return fromBV(mkBin(OMul, a, b), w, signed)
	case token.QUO, token.REM:
		if in.ex.branch(in.path, mkEq(b, mkBV(0, w))) {
			fr.fault(instr, "divzero", "integer divide by zero")
		}
		var o Op
		switch {
		case op == token.QUO && signed:
			o = OSDiv
		case op == token.QUO:
			o = OUDiv
		case signed:
			o = OSRem
		default:
			o = OURem
		}
		return fromBV(mkBin(o, a, b), w, signed)
	case token.AND:
		return fromBV(mkBin(OBAnd, a, b), w, signed)
	case token.OR:
		return fromBV(mkBin(OBOr, a, b), w, signed)
	case token.XOR:
		return fromBV(mkBin(OBXor, a, b), w, signed)
	case token.AND_NOT:
		return fromBV(mkBin(OBAnd, a, mkBNot(b)), w, signed)
	case token.EQL:
		return fromBoolTerm(mkEq(a, b))
	case token.NEQ:
		return fromBoolTerm(mkNot(mkEq(a, b)))
	case token.LSS:
		if signed {
			return fromBoolTerm(mkCmp(OSlt, a, b))
		}
		return fromBoolTerm(mkCmp(OUlt, a, b))
	case token.LEQ:
		if signed {
			return fromBoolTerm(mkCmp(OSle, a, b))
		}
		return fromBoolTerm(mkCmp(OUle, a, b))
	case token.GTR:
		if signed {
			return fromBoolTerm(mkCmp(OSlt, b, a))
		}
		return fromBoolTerm(mkCmp(OUlt, b, a))
	case token.GEQ:
		if signed {
			return fromBoolTerm(mkCmp(OSle, b, a))
		}
		return fromBoolTerm(mkCmp(OUle, b, a))
	}
	panic(fmt.Sprintf("intBinop: unexpected op %s", op))
}

func shiftOp(fr *frame, instr ssa.Instruction, op token.Token, w int, signed bool, x, y Val) Val {
	var yt types.Type
	if bo, ok := instr.(*ssa.BinOp); ok {
		yt = bo.Y.Type()
	}
	yw, ysigned := 64, false
	if yt != nil {
		if ww, ss, ok := intInfo(yt); ok {
			yw, ysigned = ww, ss
		}
	}
	xc, xok := x.(int64)
	yc, yok := y.(int64)
	if yok && ysigned && yc < 0 {
		fr.fault(instr, "shift", "negative shift amount")
	}
	if xok && yok {
		n := uint64(yc)
		if op == token.SHL {
			if n >= uint64(w) {
				return int64(0)
			}
			return canon(uint64(xc)<<n, w, signed)
		}
		if signed {
			if n >= 64 {
				n = 63
			}
			return canon(uint64(xc>>n), w, true)
		}
		if n >= uint64(w) {
			return int64(0)
		}
		return canon(uint64(xc)>>n, w, false)
	}
	if isIntTerm(x) {
		if !yok {
			if yt2, isT := y.(*Term); isT {
				yc = concretize(yt2, yw, 0, 64)
			}
		}
		return shiftInt(fr, op, w, signed, x, yc)
	}
	if isIntTerm(y) {
		y = toBV(y, yw)
	}
	a := toBV(x, w)
	var b *Term
	if yok {
		if uint64(yc) >= uint64(w) {
			b = mkBV(uint64(w), w)
			if w < 8 {
				panic("tiny width")
			}
		} else {
			b = mkBV(uint64(yc), w)
		}
	} else {
		bt := toBV(y, yw)
		if ysigned {
			if in.ex.branch(in.path, mkCmp(OSlt, bt, mkBV(0, yw))) {
				fr.fault(instr, "shift", "negative shift amount")
			}
		}
		// clamp into width w: if bt >= w then w else bt
		big := mkCmp(OUle, mkBV(uint64(w), yw), bt)
		var nb *Term
		if yw >= w {
			nb = mkExtract(w-1, 0, bt)
		} else {
			nb = mkZext(bt, w)
		}
		b = mkIte(big, mkBV(uint64(w), w), nb)
	}
	switch {
	case op == token.SHL:
		return fromBV(mkBin(OShl, a, b), w, signed)
	case signed:
		return fromBV(mkBin(OAShr, a, b), w, signed)
	default:
		return fromBV(mkBin(OLShr, a, b), w, signed)
	}
}

func floatBinop(fr *frame, op token.Token, t types.Type, x, y Val) Val {
	a, ok1 := x.(float64)
	b, ok2 := y.(float64)
	if !ok1 || !ok2 {
		unsupported("symbolic floating-point arithmetic")
	}
	bits, _ := isFloat(t)
	r := func(f float64) Val {
		if bits == 32 {
			return float64(float32(f))
		}
		return f
	}
	switch op {
	case token.ADD:
		return r(a + b)
	case token.SUB:
		return r(a - b)
	case token.MUL:
		return r(a * b)
	case token.QUO:
		return r(a / b)
	case token.EQL:
		return a == b
	case token.NEQ:
		return a != b
	case token.LSS:
		return a < b
	case token.LEQ:
		return a <= b
	case token.GTR:
		return a > b
	case token.GEQ:
		return a >= b
	}
	panic("floatBinop " + op.String())
}

func strEqTerm(x, y Val) *Term {
	if a, ok := x.(string); ok {
		if b, ok := y.(string); ok {
			return mkBool(a == b)
		}
	}
	if strLen(x) != strLen(y) {
		return tFalse
	}
	a, b := strBytes(x), strBytes(y)
	r := tTrue
	for i := range a {
		r = mkAnd(r, mkEq(byteTerm(a[i]), byteTerm(b[i])))
		if r.isFalse() {
			return r
		}
	}
	return r
}

// strLessTerm: x < y lexicographically (bytes, unsigned).
func strLessTerm(x, y Val, orEqual bool) *Term {
	a, b := strBytes(x), strBytes(y)
	n := len(a)
	if len(b) < n {
		n = len(b)
	}
	// from the end: result for the common prefix being equal
	var r *Term
	if orEqual {
		r = mkBool(len(a) <= len(b))
	} else {
		r = mkBool(len(a) < len(b))
	}
	for i := n - 1; i >= 0; i-- {
		ai, bi := byteTerm(a[i]), byteTerm(b[i])
		r = mkIte(mkEq(ai, bi), r, mkCmp(OUlt, ai, bi))
	}
	return r
}

func strBinop(op token.Token, x, y Val) Val {
	if a, ok := x.(string); ok {
		if b, ok := y.(string); ok {
			switch op {
			case token.ADD:
				return a + b
			case token.EQL:
				return a == b
			case token.NEQ:
				return a != b
			case token.LSS:
				return a < b
			case token.LEQ:
				return a <= b
			case token.GTR:
				return a > b
			case token.GEQ:
				return a >= b
			}
		}
	}
	switch op {
	case token.ADD:
		return SymStr{b: append(append([]Val(nil), strBytes(x)...), strBytes(y)...)}.norm()
	case token.EQL:
		return fromBoolTerm(strEqTerm(x, y))
	case token.NEQ:
		return fromBoolTerm(mkNot(strEqTerm(x, y)))
	case token.LSS:
		return fromBoolTerm(strLessTerm(x, y, false))
	case token.LEQ:
		return fromBoolTerm(strLessTerm(x, y, true))
	case token.GTR:
		return fromBoolTerm(strLessTerm(y, x, false))
	case token.GEQ:
		return fromBoolTerm(strLessTerm(y, x, true))
	}
	panic("strBinop " + op.String())
}

func isNilVal(v Val) bool {
	switch v := v.(type) {
	case *Val:
		return v == nil
	case []Val:
		return v == nil
	case *Map:
		return v == nil
	case *Chan:
		return v == nil
	case *ssa.Function:
		return v == nil
	case *Closure:
		return v == nil
	case Iface:
		return v.t == nil
	case Native:
		if !v.rv.IsValid() {
			return true
		}
		switch v.rv.Kind() {
		case reflect.Ptr, reflect.Map, reflect.Slice, reflect.Chan, reflect.Func, reflect.Interface, reflect.UnsafePointer:
			return v.rv.IsNil()
		}
		return false
	case nil:
		return true
	}
	return false
}

// equals implements == for type t; result is bool or a Bool term.
func equals(fr *frame, instr ssa.Instruction, t types.Type, x, y Val) Val {
	checkPoison(x)
	checkPoison(y)
	switch tt := t.Underlying().(type) {
	case *types.Basic:
		if w, _, ok := intInfo(tt); ok {
			xc, xok := x.(int64)
			yc, yok := y.(int64)
			if xok && yok {
				return xc == yc
			}
			if isIntTerm(x) || isIntTerm(y) {
				_, signed, _ := intInfo(tt)
				return fromBoolTerm(mkEq(toIntTerm(x, w, signed), toIntTerm(y, w, signed)))
			}
			return fromBoolTerm(mkEq(toBV(x, w), toBV(y, w)))
		}
		if isString(tt) {
			return fromBoolTerm(strEqTerm(x, y))
		}
		if isBoolT(tt) {
			return fromBoolTerm(mkEq(toBoolTerm(x), toBoolTerm(y)))
		}
		if tt.Kind() == types.UnsafePointer {
			return x == y
		}
		switch a := x.(type) {
		case float64:
			return a == y.(float64)
		case complex128:
			return a == y.(complex128)
		}
	case *types.Pointer, *types.Chan:
		xn, xIsNat := x.(Native)
		yn, yIsNat := y.(Native)
		switch {
		case xIsNat && yIsNat:
			return xn.rv.Pointer() == yn.rv.Pointer()
		case xIsNat:
			return isNilVal(xn) && isNilVal(y)
		case yIsNat:
			return isNilVal(yn) && isNilVal(x)
		}
		return x == y
	case *types.Interface:
		a, b := x.(Iface), y.(Iface)
		if a.t == nil || b.t == nil {
			return a.t == nil && b.t == nil
		}
		if !types.Identical(a.t, b.t) {
			return false
		}
		if !types.Comparable(a.t) {
			fr.fault(instr, "uncomparable", "comparing uncomparable type "+a.t.String())
		}
		return equals(fr, instr, a.t, a.v, b.v)
	case *types.Struct:
		if _, ok := x.(Native); ok {
			unsupported("comparison of native struct values")
		}
		if _, ok := x.(*BigInt); ok {
			unsupported("comparison of big.Int struct values")
		}
		a, b := x.(Struct), y.(Struct)
		r := tTrue
		for i := range a {
			if tt.Field(i).Name() == "_" {
				continue
			}
			r = mkAnd(r, toBoolTerm(equals(fr, instr, tt.Field(i).Type(), a[i], b[i])))
		}
		return fromBoolTerm(r)
	case *types.Array:
		a, b := x.(Array), y.(Array)
		r := tTrue
		for i := range a {
			r = mkAnd(r, toBoolTerm(equals(fr, instr, tt.Elem(), a[i], b[i])))
		}
		return fromBoolTerm(r)
	case *types.Slice, *types.Map, *types.Signature:
		// only comparable with nil
		if isNilVal(y) {
			return isNilVal(x)
		}
		if isNilVal(x) {
			return isNilVal(y)
		}
		fr.fault(instr, "uncomparable", "comparing uncomparable type "+t.String())
	}
	panic(fmt.Sprintf("equals: unhandled %s (%T, %T)", t, x, y))
}

func unop(fr *frame, instr *ssa.UnOp, x Val) Val {
	checkPoison(x)
	switch instr.Op {
	case token.ARROW:
		v, ok := chanRecv(fr, asChan17(x), instr.X.Type().Underlying().(*types.Chan).Elem())
		if instr.CommaOk {
			return Tuple{v, ok}
		}
		return v
	case token.SUB:
		switch x := x.(type) {
		case int64:
			w, signed, _ := intInfo(instr.Type())
			return canon(uint64(-x), w, signed)
		case float64:
			return -x
		case complex128:
			return -x
		case *Term:
			w, signed, _ := intInfo(instr.Type())
			if x.sort.K == KInt {
				return fromInt(wrapInt(mkINeg(x), w, signed), w, signed)
			}
			return fromBV(mkNeg(x), w, signed)
		}
	case token.MUL:
		if r, isRef := x.(elemRef); isRef {
			return loadRef(r)
		}
		p, ok := x.(*Val)
		if !ok {
			unsupported(fmt.Sprintf("load through %T (%s)", x, fr.fn))
		}
		if p == nil {
			fr.fault(instr, "nilderef", "invalid memory address or nil pointer dereference")
		}
		if len(cellGuards) > 0 {
			guardCheck(fr, instr, cellGuards[p], false)
		}
		return load(p)
	case token.NOT:
		return notVal(x)
	case token.XOR:
		w, signed, _ := intInfo(instr.Type())
		switch x := x.(type) {
		case int64:
			return canon(^uint64(x), w, signed)
		case *Term:
			if x.sort.K == KInt {
				return fromInt(wrapInt(mkIBin(OISub, mkINeg(x), mkInt64(1)), w, signed), w, signed)
			}
			return fromBV(mkBNot(x), w, signed)
		}
	}
	panic(fmt.Sprintf("invalid unary op %s %T", instr.Op, x))
}

// concretize forks until the integer value is concrete; lo..hi inclusive is
// the range known (by a preceding bounds decision) to contain it.
func concretize(v Val, w int, lo, hi int64) int64 {
	switch v := v.(type) {
	case int64:
		return v
	case *Term:
		if hi-lo > 4096 {
			unsupported("concretisation range too large")
		}
		alts := make([]*Term, 0, hi-lo+1)
		for k := lo; k <= hi; k++ {
			if v.sort.K == KInt {
				alts = append(alts, mkEq(v, mkInt64(k)))
			} else {
				alts = append(alts, mkEq(v, mkBV(uint64(k), w)))
			}
		}
		if len(alts) == 0 {
			panic(pathEnd{"infeasible", "empty concretisation range"})
		}
		return lo + int64(in.ex.choose(in.path, alts))
	case Poison:
		unsupported("poison: " + v.why)
	}
	panic(fmt.Sprintf("concretize %T", v))
}

// inRange builds lo <= v <= hi (signed, width w).
func inRange(v Val, w int, lo, hi int64) *Term {
	t := toBV(v, w)
	return mkAnd(mkCmp(OSle, mkBV(uint64(lo), w), t), mkCmp(OSle, t, mkBV(uint64(hi), w)))
}

func valWidth(t types.Type) int {
	w, _, ok := intInfo(t)
	if !ok {
		return 64
	}
	return w
}

func sliceOp(fr *frame, instr *ssa.Slice) Val {
	x := fr.get(instr.X)
	checkPoison(x)
	var lo, hi, max Val
	if instr.Low != nil {
		lo = fr.get(instr.Low)
	}
	if instr.High != nil {
		hi = fr.get(instr.High)
	}
	if instr.Max != nil {
		max = fr.get(instr.Max)
	}
	var length, capacity int
	isStr := false
	var arr []Val
	switch x := x.(type) {
	case string, SymStr:
		length = strLen(x)
		capacity = length
		isStr = true
	case []Val:
		length, capacity = len(x), cap(x)
		arr = x
	case *Val:
		if x == nil {
			fr.fault(instr, "nilderef", "invalid memory address or nil pointer dereference")
		}
		a := (*x).(Array)
		length, capacity = len(a), len(a)
		arr = []Val(a)
	default:
		unsupported(fmt.Sprintf("slice of %T", x))
	}
	get := func(v Val, def int64, op ssa.Value) Val {
		if v == nil {
			return def
		}
		if t, ok := v.(*Term); ok && t.sort.K == KBV {
			// widen to 64 bit signed per its static type
			w, signed, _ := intInfo(op.Type())
			if w < 64 {
				if signed {
					return Val(mkSext(t, 64))
				}
				return Val(mkZext(t, 64))
			}
		}
		return v
	}
	limit := int64(capacity)
	loV := get(lo, 0, instr.Low)
	var hiV, maxV Val
	if instr.High != nil {
		hiV = get(hi, 0, instr.High)
	} else {
		hiV = int64(length)
	}
	if instr.Max != nil {
		maxV = get(max, 0, instr.Max)
	} else {
		maxV = limit
	}
	// bounds: 0 <= lo <= hi <= max <= cap
	ok := mkAndN(
		mkCmp(OSle, mkBV(0, 64), toBV(loV, 64)),
		mkCmp(OSle, toBV(loV, 64), toBV(hiV, 64)),
		mkCmp(OSle, toBV(hiV, 64), toBV(maxV, 64)),
		mkCmp(OSle, toBV(maxV, 64), mkBV(uint64(limit), 64)))
	if !in.ex.branch(in.path, ok) {
		fr.fault(instr, "slice", fmt.Sprintf("slice bounds out of range [%v:%v:%v] with capacity %d", show(loV), show(hiV), show(maxV), limit))
	}
	l := concretize(loV, 64, 0, limit)
	h := concretize(hiV, 64, l, limit)
	m := concretize(maxV, 64, h, limit)
	if isStr {
		switch s := x.(type) {
		case string:
			return s[l:h]
		case SymStr:
			return SymStr{b: s.b[l:h]}.norm()
		}
	}
	if arr == nil && l == 0 && h == 0 {
		if _, isSlice := x.([]Val); isSlice {
			return []Val(nil)
		}
	}
	return arr[l:h:m]
}

func show(v Val) string {
	switch v := v.(type) {
	case *Term:
		return "sym"
	default:
		return fmt.Sprint(v)
	}
}

func makeSlice(fr *frame, instr *ssa.MakeSlice) Val {
	lv, cv := fr.get(instr.Len), fr.get(instr.Cap)
	checkPoison(lv)
	checkPoison(cv)
	const maxAlloc = 64
	conc := func(v Val, op ssa.Value) int64 {
		if c, ok := v.(int64); ok {
			if c < 0 {
				fr.fault(instr, "makeslice", "makeslice: len out of range")
			}
			return c
		}
		w, _, _ := intInfo(op.Type())
		t := toBV(v, w)
		if in.ex.branch(in.path, mkCmp(OSlt, t, mkBV(0, w))) {
			fr.fault(instr, "makeslice", "makeslice: len out of range")
		}
		if in.ex.branch(in.path, mkCmp(OSlt, mkBV(uint64(1)<<31, w), t)) {
			in.path.faults = append(in.path.faults, faultRec{kind: "hugealloc", site: fr.site(instr), msg: "allocation size can exceed 2^31 elements"})
			panic(pathEnd{"hugealloc", fr.site(instr)})
		}
		if in.ex.branch(in.path, mkCmp(OSlt, mkBV(maxAlloc, w), t)) {
			panic(pathEnd{"bound", "symbolic allocation size above the engine bound of 64"})
		}
		return concretize(t, w, 0, maxAlloc)
	}
	n := conc(lv, instr.Len)
	c := n
	if instr.Cap != instr.Len {
		c = conc(cv, instr.Cap)
	}
	if c < n {
		fr.fault(instr, "makeslice", "makeslice: cap out of range")
	}
	if c > 1<<26 {
		in.path.faults = append(in.path.faults, faultRec{kind: "hugealloc", site: fr.site(instr), msg: fmt.Sprintf("allocation of %d elements", c)})
		panic(pathEnd{"hugealloc", fr.site(instr)})
	}
	s := make([]Val, c)
	et := instr.Type().Underlying().(*types.Slice).Elem()
	for i := range s {
		s[i] = zero(et)
	}
	return s[:n]
}

func indexAddr(fr *frame, instr *ssa.IndexAddr) Val {
	x := fr.get(instr.X)
	idx := fr.get(instr.Index)
	checkPoison(x)
	checkPoison(idx)
	var arr []Val
	switch x := x.(type) {
	case []Val:
		arr = x
	case *Val:
		if x == nil {
			fr.fault(instr, "nilderef", "invalid memory address or nil pointer dereference")
		}
		arr = []Val((*x).(Array))
	default:
		unsupported(fmt.Sprintf("IndexAddr on %T", x))
	}
	// symbolic index into an array/slice of scalars: defer the choice of the
	// element (a load becomes one table/ite term instead of len(arr) forks)
	if _, isC := idx.(int64); !isC && len(arr) > 1 && allScalar(arr) {
		t := boundsOnly(fr, instr, idx, instr.Index.Type(), len(arr))
		return elemRef{arr: arr, idx: t, et: instr.Type().Underlying().(*types.Pointer).Elem()}
	}
	i := boundsIndex(fr, instr, idx, instr.Index.Type(), len(arr))
	return &arr[i]
}

// elemRef is the address of arr[idx] for a symbolic, in-bounds idx (64-bit term
// or Int term).
type elemRef struct {
	arr []Val
	idx *Term
	et  types.Type
}

func allScalar(arr []Val) bool {
	for _, e := range arr {
		switch e.(type) {
		case int64, bool, *Term:
		default:
			return false
		}
	}
	return true
}

// boundsOnly performs the bounds check (fault path forked) and returns the
// index as a term without concretising it.
func boundsOnly(fr *frame, instr ssa.Instruction, idx Val, it types.Type, n int) *Term {
	if isIntTerm(idx) {
		t := idx.(*Term)
		ok := mkAnd(mkICmp(OILe, mkInt64(0), t), mkICmp(OILt, t, mkInt64(int64(n))))
		if !in.ex.branch(in.path, ok) {
			fr.fault(instr, "index", fmt.Sprintf("index out of range [sym] with length %d", n))
		}
		return t
	}
	t := widen64(idx, it)
	if !in.ex.branch(in.path, mkCmp(OUlt, t, mkBV(uint64(n), 64))) {
		fr.fault(instr, "index", fmt.Sprintf("index out of range [sym] with length %d", n))
	}
	return t
}

// loadRef reads through an elemRef: a table term for constant integer arrays,
// an ite chain otherwise.
func loadRef(r elemRef) Val {
	w, signed, isInt := intInfo(r.et)
	idxEq := func(i int) *Term {
		if r.idx.sort.K == KInt {
			return mkEq(r.idx, mkInt64(int64(i)))
		}
		return mkEq(r.idx, mkBV(uint64(i), 64))
	}
	if isInt {
		allC := true
		for _, e := range r.arr {
			if _, ok := e.(int64); !ok {
				allC = false
				break
			}
		}
		if allC && r.idx.sort.K == KBV {
			vals := make([]uint64, len(r.arr))
			for i, e := range r.arr {
				vals[i] = uint64(e.(int64)) & mask(w)
			}
			return fromBV(mkTbl(mkTable(vals, w), r.idx), w, signed)
		}
		if anyIntTerm(r.arr) || r.idx.sort.K == KInt && in.intMode {
			res := toIntTerm(r.arr[len(r.arr)-1], w, signed)
			for i := len(r.arr) - 2; i >= 0; i-- {
				res = mkIte(idxEq(i), toIntTerm(r.arr[i], w, signed), res)
			}
			return fromInt(res, w, signed)
		}
		res := toBV(r.arr[len(r.arr)-1], w)
		for i := len(r.arr) - 2; i >= 0; i-- {
			res = mkIte(idxEq(i), toBV(r.arr[i], w), res)
		}
		return fromBV(res, w, signed)
	}
	if isBoolT(r.et) {
		res := toBoolTerm(r.arr[len(r.arr)-1])
		for i := len(r.arr) - 2; i >= 0; i-- {
			res = mkIte(idxEq(i), toBoolTerm(r.arr[i]), res)
		}
		return fromBoolTerm(res)
	}
	return load(resolveRef(r))
}

func anyIntTerm(arr []Val) bool {
	for _, e := range arr {
		if isIntTerm(e) {
			return true
		}
	}
	return false
}

// resolveRef forks on the index to obtain a real cell address.
func resolveRef(r elemRef) *Val {
	i := concretize(r.idx, 64, 0, int64(len(r.arr)-1))
	return &r.arr[i]
}

// asPtr converts an address value to a cell pointer (forking for elemRef).
func asPtr(v Val) (*Val, bool) {
	switch p := v.(type) {
	case *Val:
		return p, true
	case elemRef:
		return resolveRef(p), true
	}
	return nil, false
}

// widen64 extends an index value to a 64-bit term per its static type.
func widen64(idx Val, it types.Type) *Term {
	if isIntTerm(idx) {
		return mkInt2Bv(idx.(*Term), 64)
	}
	w, signed, _ := intInfo(it)
	t := toBV(idx, w)
	if w < 64 {
		if signed {
			return mkSext(t, 64)
		}
		return mkZext(t, 64)
	}
	return t
}

// boundsIndex checks 0 <= idx < n (fault otherwise) and returns a concrete index.
func boundsIndex(fr *frame, instr ssa.Instruction, idx Val, it types.Type, n int) int64 {
	if c, ok := idx.(int64); ok {
		if _, signed, _ := intInfo(it); !signed && c < 0 {
			c = math.MaxInt64 // huge unsigned
		}
		if c < 0 || c >= int64(n) {
			fr.fault(instr, "index", fmt.Sprintf("index out of range [%d] with length %d", c, n))
		}
		return c
	}
	if isIntTerm(idx) {
		it := idx.(*Term)
		ok := mkAnd(mkICmp(OILe, mkInt64(0), it), mkICmp(OILt, it, mkInt64(int64(n))))
		if !in.ex.branch(in.path, ok) {
			fr.fault(instr, "index", fmt.Sprintf("index out of range [sym] with length %d", n))
		}
		return concretize(it, 64, 0, int64(n-1))
	}
	t := widen64(idx, it)
	ok := mkCmp(OUlt, t, mkBV(uint64(n), 64))
	if !in.ex.branch(in.path, ok) {
		fr.fault(instr, "index", fmt.Sprintf("index out of range [sym] with length %d", n))
	}
	return concretize(t, 64, 0, int64(n-1))
}

func indexOp(fr *frame, instr *ssa.Index) Val {
	x := fr.get(instr.X)
	idx := fr.get(instr.Index)
	checkPoison(x)
	switch x := x.(type) {
	case Array:
		i := boundsIndex(fr, instr, idx, instr.Index.Type(), len(x))
		return copyVal(x[i])
	case string, SymStr:
		return strIndex(fr, instr, x, idx, instr.Index.Type())
	}
	panic(fmt.Sprintf("Index on %T", x))
}

func strIndex(fr *frame, instr ssa.Instruction, s Val, idx Val, it types.Type) Val {
	n := strLen(s)
	if c, ok := idx.(int64); ok {
		if c < 0 || c >= int64(n) {
			fr.fault(instr, "index", fmt.Sprintf("index out of range [%d] with length %d", c, n))
		}
		switch s := s.(type) {
		case string:
			return int64(s[c])
		case SymStr:
			return s.b[c]
		}
	}
	t := widen64(idx, it)
	w := 64
	if !in.ex.branch(in.path, mkCmp(OUlt, t, mkBV(uint64(n), 64))) {
		fr.fault(instr, "index", fmt.Sprintf("index out of range [sym] with length %d", n))
	}
	if cs, isC := s.(string); isC {
		vals := make([]uint64, len(cs))
		for i := 0; i < len(cs); i++ {
			vals[i] = uint64(cs[i])
		}
		return fromBV(mkTbl(mkTable(vals, 8), t), 8, false)
	}
	bs := strBytes(s)
	r := byteTerm(bs[n-1])
	for i := n - 2; i >= 0; i-- {
		r = mkIte(mkEq(t, mkBV(uint64(i), w)), byteTerm(bs[i]), r)
	}
	return fromBV(r, 8, false)
}

func lookupOp(fr *frame, instr *ssa.Lookup) Val {
	x := fr.get(instr.X)
	checkPoison(x)
	idx := fr.get(instr.Index)
	checkPoison(idx)
	switch x := x.(type) {
	case string, SymStr:
		return strIndex(fr, instr, x, idx, instr.Index.Type())
	case *Map:
		var v Val
		ok := false
		if x != nil {
			guardCheck(fr, instr, x.guard, false)
			if i := mapFind(fr, instr, x, idx); i >= 0 {
				v, ok = copyVal(x.vals[i]), true
			}
		} else if !types.Comparable(dynKeyType(instr.X.Type().Underlying().(*types.Map).Key(), idx)) {
			fr.fault(instr, "unhashable", "hash of unhashable type")
		}
		if !ok {
			v = zero(instr.X.Type().Underlying().(*types.Map).Elem())
		}
		if instr.CommaOk {
			return Tuple{v, ok}
		}
		return v
	}
	panic(fmt.Sprintf("Lookup on %T", x))
}

func dynKeyType(kt types.Type, k Val) types.Type {
	if i, ok := k.(Iface); ok && i.t != nil {
		return i.t
	}
	return kt
}

// checkHashable faults like the Go runtime when an interface key holds an
// unhashable dynamic type.
func checkHashable(fr *frame, instr ssa.Instruction, kt types.Type, k Val) {
	if i, ok := k.(Iface); ok && i.t != nil {
		if !types.Comparable(i.t) {
			fr.fault(instr, "unhashable", "hash of unhashable type "+i.t.String())
		}
		// nested interface fields are not checked (not used by the code under test)
	}
}

// mapFind returns the entry index of key k or -1; symbolic keys fork.
// guardCheck: lockset monitor — an access to a guarded table without its mutex.
func guardCheck(fr *frame, instr ssa.Instruction, g *guardInfo, write bool) {
	if g == nil || in.path == nil {
		return
	}
	l := lockOf(g.mu)
	if l.writer || (!write && l.readers > 0) {
		return
	}
	kind := "read"
	if write {
		kind = "write"
	}
	site := "?"
	if instr != nil {
		site = fr.site(instr)
	} else if fr != nil {
		site = fr.fn.String()
	}
	in.path.guardViol = append(in.path.guardViol, kind+" of "+g.name+" without its mutex at "+site)
}

func mapFind(fr *frame, instr ssa.Instruction, m *Map, k Val) int {
	checkHashable(fr, instr, m.kt, k)
	hk, conc := hashKey(k)
	if conc {
		if i, ok := m.idx[hk]; ok && m.live[i] {
			return i
		}
	}
	// compare with entries that have symbolic keys (or all, if k is symbolic)
	for i := range m.keys {
		if !m.live[i] {
			continue
		}
		_, ec := hashKey(m.keys[i])
		if conc && ec {
			continue
		}
		eq := equals(fr, instr, m.kt, m.keys[i], k)
		switch e := eq.(type) {
		case bool:
			if e {
				return i
			}
		case *Term:
			if in.ex.branch(in.path, e) {
				return i
			}
		}
	}
	return -1
}

func mapInsert(fr *frame, instr ssa.Instruction, m *Map, k, v Val) {
	guardCheck(fr, instr, m.guard, true)
	v = copyVal(v)
	if i := mapFind(fr, instr, m, k); i >= 0 {
		setCell(&m.vals[i], v)
		return
	}
	n := len(m.keys)
	oldKeys, oldVals, oldLive, oldCount := m.keys, m.vals, m.live, m.count
	hk, conc := hashKey(k)
	var hadOld bool
	var oldIdx int
	if conc {
		oldIdx, hadOld = m.idx[hk]
	}
	logUndo(func() {
		m.keys, m.vals, m.live, m.count = oldKeys, oldVals, oldLive, oldCount
		if conc {
			if hadOld {
				m.idx[hk] = oldIdx
			} else {
				delete(m.idx, hk)
			}
		}
	})
	// copy-on-append so that the undo closure's old slices stay intact
	m.keys = append(oldKeys[:n:n], copyVal(k))
	m.vals = append(oldVals[:n:n], v)
	m.live = append(oldLive[:n:n], true)
	m.count++
	if conc {
		m.idx[hk] = n
	}
}

func mapDelete(fr *frame, m *Map, k Val) {
	if m == nil {
		return
	}
	guardCheck(fr, nil, m.guard, true)
	i := mapFind(fr, nil, m, k)
	if i < 0 {
		return
	}
	oldLive, oldCount := m.live, m.count
	logUndo(func() { m.live, m.count = oldLive, oldCount })
	nl := append([]bool(nil), m.live...)
	nl[i] = false
	m.live = nl
	m.count--
}

func typeAssert(fr *frame, instr *ssa.TypeAssert, x Val) Val {
	checkPoison(x)
	itf := x.(Iface)
	var v Val
	err := ""
	if itf.t == nil {
		err = fmt.Sprintf("interface conversion: interface is nil, not %s", instr.AssertedType)
	} else if idst, ok := instr.AssertedType.Underlying().(*types.Interface); ok {
		v = itf
		if meth, _ := types.MissingMethod(itf.t, idst, true); meth != nil {
			err = fmt.Sprintf("interface conversion: %v is not %v: missing method %s", itf.t, idst, meth.Name())
		}
	} else if types.Identical(itf.t, instr.AssertedType) {
		v = itf.v
	} else {
		err = fmt.Sprintf("interface conversion: interface is %s, not %s", itf.t, instr.AssertedType)
	}
	if err != "" {
		if !instr.CommaOk {
			fr.fault(instr, "typeassert", err)
		}
		return Tuple{zero(instr.AssertedType), false}
	}
	if instr.CommaOk {
		return Tuple{v, true}
	}
	return v
}

// ---- iterators ----

type iter interface {
	next(fr *frame, instr *ssa.Next) Tuple
}

type mapIter struct {
	m *Map
	i int
	n int
}

func (it *mapIter) next(fr *frame, instr *ssa.Next) Tuple {
	if it.m != nil {
		for it.i < len(it.m.keys) {
			i := it.i
			it.i++
			if it.m.live[i] {
				return Tuple{true, copyVal(it.m.keys[i]), copyVal(it.m.vals[i])}
			}
		}
	}
	return Tuple{false, nil, nil}
}

type strIter struct {
	b []Val
	i int
}

func (it *strIter) next(fr *frame, instr *ssa.Next) Tuple {
	if it.i >= len(it.b) {
		return Tuple{false, int64(0), int64(0)}
	}
	start := it.i
	r, size := decodeRuneAt(it.b, it.i)
	it.i += size
	return Tuple{true, int64(start), r}
}

// decodeRuneAt decodes one UTF-8 sequence starting at b[i]; symbolic bytes fork
// on the structural cases (ASCII, valid 2/3/4-byte sequence, invalid).
func decodeRuneAt(b []Val, i int) (Val, int) {
	allConc := true
	end := i + 4
	if end > len(b) {
		end = len(b)
	}
	for _, e := range b[i:end] {
		if _, ok := e.(int64); !ok {
			allConc = false
		}
	}
	if allConc {
		buf := make([]byte, end-i)
		for k := range buf {
			buf[k] = byte(b[i+k].(int64))
		}
		r, size := utf8.DecodeRune(buf)
		return int64(r), size
	}
	b0 := byteTerm(b[i])
	k8 := func(x uint64) *Term { return mkBV(x, 8) }
	between := func(t *Term, lo, hi uint64) *Term {
		return mkAnd(mkCmp(OUle, k8(lo), t), mkCmp(OUle, t, k8(hi)))
	}
	cont := func(t *Term) *Term { return between(t, 0x80, 0xBF) }
	alts := []*Term{mkCmp(OUlt, b0, k8(0x80))}
	kinds := []int{1}
	var b1, b2, b3 *Term
	if i+1 < len(b) {
		b1 = byteTerm(b[i+1])
		alts = append(alts, mkAnd(between(b0, 0xC2, 0xDF), cont(b1)))
		kinds = append(kinds, 2)
	}
	if i+2 < len(b) {
		b2 = byteTerm(b[i+2])
		// E0: b1 in A0..BF; E1..EC,EE,EF: 80..BF; ED: 80..9F
		c3 := mkOrN(
			mkAnd(mkEq(b0, k8(0xE0)), between(b1, 0xA0, 0xBF)),
			mkAnd(mkOr(between(b0, 0xE1, 0xEC), between(b0, 0xEE, 0xEF)), cont(b1)),
			mkAnd(mkEq(b0, k8(0xED)), between(b1, 0x80, 0x9F)))
		alts = append(alts, mkAnd(c3, cont(b2)))
		kinds = append(kinds, 3)
	}
	if i+3 < len(b) {
		b3 = byteTerm(b[i+3])
		c4 := mkOrN(
			mkAnd(mkEq(b0, k8(0xF0)), between(b1, 0x90, 0xBF)),
			mkAnd(between(b0, 0xF1, 0xF3), cont(b1)),
			mkAnd(mkEq(b0, k8(0xF4)), between(b1, 0x80, 0x8F)))
		alts = append(alts, mkAndN(c4, cont(b2), cont(b3)))
		kinds = append(kinds, 4)
	}
	any := tFalse
	for _, a := range alts {
		any = mkOr(any, a)
	}
	alts = append(alts, mkNot(any))
	kinds = append(kinds, 0)
	k := kinds[in.ex.choose(in.path, alts)]
	z := func(t *Term) *Term { return mkZext(t, 32) }
	sh := func(t *Term, n uint64) *Term { return mkBin(OShl, t, mkBV(n, 32)) }
	and := func(t *Term, m uint64) *Term { return mkBin(OBAnd, t, mkBV(m, 32)) }
	switch k {
	case 1:
		return fromBV(z(b0), 32, true), 1
	case 2:
		return fromBV(mkBin(OBOr, sh(and(z(b0), 0x1F), 6), and(z(b1), 0x3F)), 32, true), 2
	case 3:
		return fromBV(mkBin(OBOr, mkBin(OBOr, sh(and(z(b0), 0x0F), 12), sh(and(z(b1), 0x3F), 6)), and(z(b2), 0x3F)), 32, true), 3
	case 4:
		return fromBV(mkBin(OBOr, mkBin(OBOr, mkBin(OBOr, sh(and(z(b0), 0x07), 18), sh(and(z(b1), 0x3F), 12)), sh(and(z(b2), 0x3F), 6)), and(z(b3), 0x3F)), 32, true), 4
	}
	return int64(utf8.RuneError), 1
}

// encodeRune gives the UTF-8 bytes of a rune value (symbolic runes fork on
// the encoding length).
func encodeRune(r Val) []Val {
	if c, ok := r.(int64); ok {
		s := string(rune(c))
		return strBytes(s)
	}
	t := r.(*Term)
	if t.sort.K == KInt {
		t = mkInt2Bv(t, 64)
	}
	w := t.sort.W
	if w < 32 {
		t = mkZext(t, 32)
	} else if w > 32 {
		// int/int64 to string: out-of-range values give U+FFFD
		hiOK := mkEq(mkSext(mkExtract(31, 0, t), w), t)
		if !in.ex.branch(in.path, hiOK) {
			return strBytes("�")
		}
		t = mkExtract(31, 0, t)
	}
	k := func(x uint64) *Term { return mkBV(x, 32) }
	ult := func(a *Term, x uint64) *Term { return mkCmp(OUlt, a, k(x)) }
	surr := mkAnd(mkCmp(OUle, k(0xD800), t), mkCmp(OUle, t, k(0xDFFF)))
	bad := mkOr(surr, mkCmp(OUlt, k(0x10FFFF), t))
	alts := []*Term{ult(t, 0x80), mkAnd(mkNot(ult(t, 0x80)), ult(t, 0x800)), bad,
		mkAndN(mkNot(ult(t, 0x800)), ult(t, 0x10000), mkNot(surr)),
		mkAndN(mkNot(ult(t, 0x10000)), mkNot(bad))}
	ex8 := func(x *Term) Val { return fromBV(mkExtract(7, 0, x), 8, false) }
	or := func(x *Term, m uint64) *Term { return mkBin(OBOr, x, k(m)) }
	and := func(x *Term, m uint64) *Term { return mkBin(OBAnd, x, k(m)) }
	shr := func(x *Term, n uint64) *Term { return mkBin(OLShr, x, k(n)) }
	switch in.ex.choose(in.path, alts) {
	case 0:
		return []Val{ex8(t)}
	case 1:
		return []Val{ex8(or(shr(t, 6), 0xC0)), ex8(or(and(t, 0x3F), 0x80))}
	case 2:
		return strBytes("�")
	case 3:
		return []Val{ex8(or(shr(t, 12), 0xE0)), ex8(or(and(shr(t, 6), 0x3F), 0x80)), ex8(or(and(t, 0x3F), 0x80))}
	default:
		return []Val{ex8(or(shr(t, 18), 0xF0)), ex8(or(and(shr(t, 12), 0x3F), 0x80)), ex8(or(and(shr(t, 6), 0x3F), 0x80)), ex8(or(and(t, 0x3F), 0x80))}
	}
}

func rangeIter(fr *frame, instr *ssa.Range, x Val) Val {
	checkPoison(x)
	switch x := x.(type) {
	case *Map:
		if x != nil {
			guardCheck(fr, instr, x.guard, false)
		}
		return &mapIter{m: x}
	case string, SymStr:
		return &strIter{b: strBytes(x)}
	}
	panic(fmt.Sprintf("cannot range over %T", x))
}

// ---- conversions ----

func conv(fr *frame, instr ssa.Instruction, tdst, tsrc types.Type, x Val) Val {
	checkPoison(x)
	ut_src := tsrc.Underlying()
	ut_dst := tdst.Underlying()
	switch ut_src := ut_src.(type) {
	case *types.Signature:
		return x
	case *types.Pointer:
		// *T -> unsafe.Pointer or *U
		return x
	case *types.Slice:
		// []byte / []rune -> string
		if isString(ut_dst) {
			s := x.([]Val)
			eb, _ := ut_src.Elem().Underlying().(*types.Basic)
			if eb != nil && eb.Kind() == types.Int32 {
				var out []Val
				for _, r := range s {
					out = append(out, encodeRune(r)...)
				}
				return SymStr{b: out}.norm()
			}
			return SymStr{b: append([]Val(nil), s...)}.norm()
		}
		return x
	case *types.Basic:
		if ut_src.Kind() == types.UnsafePointer {
			return x
		}
		// string -> []byte, []rune
		if isString(ut_src) {
			if sl, ok := ut_dst.(*types.Slice); ok {
				eb := sl.Elem().Underlying().(*types.Basic)
				if eb.Kind() == types.Int32 {
					b := strBytes(x)
					var out []Val
					for i := 0; i < len(b); {
						r, n := decodeRuneAt(b, i)
						out = append(out, r)
						i += n
					}
					if out == nil {
						out = []Val{}
					}
					return out
				}
				b := append([]Val{}, strBytes(x)...)
				return b
			}
			if isString(ut_dst) {
				return x
			}
		}
		if db, ok := ut_dst.(*types.Basic); ok {
			if db.Kind() == types.UnsafePointer {
				return x
			}
			sw, ssigned, sInt := intInfo(ut_src)
			dw, dsigned, dInt := intInfo(ut_dst)
			switch {
			case sInt && dInt:
				switch v := x.(type) {
				case int64:
					return canon(uint64(v), dw, dsigned)
				case *Term:
					if v.sort.K == KInt {
						return fromInt(wrapInt(v, dw, dsigned), dw, dsigned)
					}
					if in.intMode && dw > sw && !ssigned {
						// a narrow value that came from an Int term goes back to the Int encoding
						if x, ok := bvAsInt(v); ok {
							return fromInt(x, dw, dsigned)
						}
					}
					var r *Term
					if dw <= sw {
						r = mkExtract(dw-1, 0, v)
					} else if ssigned {
						r = mkSext(v, dw)
					} else {
						r = mkZext(v, dw)
					}
					return fromBV(r, dw, dsigned)
				}
				if ut_src.Kind() == types.Uintptr && dw >= sw {
					// uintptr(unsafe.Pointer(p)) carried as the engine pointer itself: an address is
					// only ever printed (#<error 0xc000...>), give it a stable small number per object
					return canon(fakeAddr(x), dw, dsigned)
				}
			case sInt && isString(ut_dst):
				return SymStr{b: encodeRune(widenRune(x, sw, ssigned))}.norm()
			case sInt:
				if bits, ok := isFloat(ut_dst); ok {
					v, isC := x.(int64)
					if !isC {
						return symIntToFloat(fr, x.(*Term), ssigned, bits)
					}
					var f float64
					if ssigned {
						f = float64(v)
					} else {
						f = float64(uint64(v))
					}
					if bits == 32 {
						f = float64(float32(f))
					}
					return f
				}
				if db.Info()&types.IsComplex != 0 {
					return complex(float64(x.(int64)), 0)
				}
			case dInt:
				if _, ok := isFloat(ut_src); ok {
					f, isC := x.(float64)
					if !isC {
						unsupported("symbolic float to int")
					}
					if dsigned {
						return canon(uint64(floatToInt64(f)), dw, true)
					}
					return canon(floatToUint64(f), dw, false)
				}
			default:
				if _, ok := isFloat(ut_src); ok {
					if bits, ok := isFloat(ut_dst); ok {
						f, isC := x.(float64)
						if !isC {
							unsupported("symbolic float conversion")
						}
						if bits == 32 {
							return float64(float32(f))
						}
						return f
					}
				}
				if db.Info()&types.IsComplex != 0 {
					return x
				}
				if isBoolT(ut_dst) {
					return x
				}
			}
		}
	}
	panic(fmt.Sprintf("unsupported conversion: %s -> %s (%T)", tsrc, tdst, x))
}

func widenRune(x Val, w int, signed bool) Val {
	return x
}

func floatToInt64(f float64) int64 {
	if f != f {
		return math.MinInt64
	}
	if f >= 9.223372036854775807e18 || f < -9.223372036854775808e18 {
		return math.MinInt64
	}
	return int64(f)
}

func floatToUint64(f float64) uint64 {
	if f != f || f < 0 {
		return uint64(int64(f))
	}
	return uint64(f)
}

func symIntToFloat(fr *frame, t *Term, signed bool, bits int) Val {
	unsupported("symbolic int to float")
	return nil
}

// ---- builtins ----

func callBuiltin(caller *frame, pos token.Pos, fn *ssa.Builtin, args []Val) Val {
	for _, a := range args {
		checkPoison(a)
	}
	switch fn.Name() {
	case "append":
		if len(args) == 1 {
			return args[0]
		}
		dst := args[0].([]Val)
		var src []Val
		switch s := args[1].(type) {
		case string, SymStr:
			src = strBytes(s)
		case []Val:
			src = s
		}
		return appendVals(dst, src)
	case "copy":
		dst := args[0].([]Val)
		var src []Val
		switch s := args[1].(type) {
		case string, SymStr:
			src = strBytes(s)
		case []Val:
			src = s
		}
		n := len(dst)
		if len(src) < n {
			n = len(src)
		}
		// memmove semantics
		tmp := make([]Val, n)
		for i := 0; i < n; i++ {
			tmp[i] = copyVal(src[i])
		}
		for i := 0; i < n; i++ {
			setCell(&dst[i], tmp[i])
		}
		return int64(n)
	case "close":
		ch := args[0].(*Chan)
		if ch == nil || ch.closed {
			caller.fault(nil, "closedchan", "close of nil or closed channel")
		}
		logUndo(func() { ch.closed = false })
		ch.closed = true
		return nil
	case "delete":
		mapDelete(caller, args[0].(*Map), args[1])
		return nil
	case "print", "println":
		return nil
	case "len":
		switch x := args[0].(type) {
		case string, SymStr:
			return int64(strLen(x))
		case Array:
			return int64(len(x))
		case *Val:
			return int64(len((*x).(Array)))
		case []Val:
			return int64(len(x))
		case *Map:
			if x == nil {
				return int64(0)
			}
			return int64(x.count)
		case *Chan:
			if x == nil {
				return int64(0)
			}
			return int64(chanLen17(x))
		}
		panic(fmt.Sprintf("len: illegal operand: %T", args[0]))
	case "cap":
		switch x := args[0].(type) {
		case Array:
			return int64(len(x))
		case *Val:
			return int64(len((*x).(Array)))
		case []Val:
			return int64(cap(x))
		case *Chan:
			if x == nil {
				return int64(0)
			}
			return int64(x.cap)
		}
		panic(fmt.Sprintf("cap: illegal operand: %T", args[0]))
	case "min", "max":
		t := fn.Type().(*types.Signature).Params().At(0).Type()
		r := args[0]
		for _, a := range args[1:] {
			r = minmax(caller, fn.Name() == "min", t, r, a)
		}
		return r
	case "real":
		return real(args[0].(complex128))
	case "imag":
		return imag(args[0].(complex128))
	case "complex":
		return complex(args[0].(float64), args[1].(float64))
	case "panic":
		panic(targetPanic{args[0]})
	case "recover":
		return doRecover(caller)
	case "ssa:wrapnilchk":
		recv := args[0]
		if p, ok := recv.(*Val); ok && p == nil {
			caller.fault(nil, "nilderef", fmt.Sprintf("value method %v.%v called using nil pointer", args[1], args[2]))
		}
		return recv
	case "Sizeof":
		t := fn.Type().(*types.Signature).Params().At(0).Type()
		return types.SizesFor("gc", "amd64").Sizeof(t)
	case "SliceData":
		return slicePtr{args[0].([]Val)}
	case "StringData":
		return slicePtr{strBytes(args[0])}
	case "String":
		sp, ok := args[0].(slicePtr)
		n, _ := args[1].(int64)
		if !ok {
			if n == 0 {
				return ""
			}
			unsupported("unsafe.String on a foreign pointer")
		}
		return SymStr{b: append([]Val(nil), sp.s[:n]...)}.norm()
	case "Slice":
		sp, ok := args[0].(slicePtr)
		n, _ := args[1].(int64)
		if !ok {
			if n == 0 {
				return []Val(nil)
			}
			unsupported("unsafe.Slice on a foreign pointer")
		}
		return sp.s[:n:n]
	case "clear":
		switch x := args[0].(type) {
		case *Map:
			if x != nil {
				oldLive, oldCount := x.live, x.count
				logUndo(func() { x.live, x.count = oldLive, oldCount })
				x.live = make([]bool, len(oldLive))
				x.count = 0
			}
		}
		return nil
	}
	panic("unknown built-in: " + fn.Name())
}

type slicePtr struct{ s []Val }

func minmax(fr *frame, isMin bool, t types.Type, a, b Val) Val {
	if w, signed, ok := intInfo(t); ok {
		ac, aok := a.(int64)
		bc, bok := b.(int64)
		if aok && bok {
			less := ac < bc
			if !signed {
				less = uint64(ac) < uint64(bc)
			}
			if less == isMin {
				return ac
			}
			return bc
		}
		if isIntTerm(a) || isIntTerm(b) {
			x, y := toIntTerm(a, w, signed), toIntTerm(b, w, signed)
			c := mkICmp(OILt, x, y)
			if isMin {
				return fromInt(mkIte(c, x, y), w, signed)
			}
			return fromInt(mkIte(c, y, x), w, signed)
		}
		x, y := toBV(a, w), toBV(b, w)
		op := OSlt
		if !signed {
			op = OUlt
		}
		c := mkCmp(op, x, y)
		if isMin {
			return fromBV(mkIte(c, x, y), w, signed)
		}
		return fromBV(mkIte(c, y, x), w, signed)
	}
	if _, ok := isFloat(t); ok {
		x, y := a.(float64), b.(float64)
		if isMin {
			return math.Min(x, y)
		}
		return math.Max(x, y)
	}
	if isString(t) {
		x, xok := a.(string)
		y, yok := b.(string)
		if xok && yok {
			if (x < y) == isMin {
				return x
			}
			return y
		}
	}
	unsupported("min/max on " + t.String())
	return nil
}

// appendVals implements append with Go's growth policy (the element size of
// []Val equals that of a slice of interfaces) and journalled in-place writes.
func appendVals(dst, src []Val) []Val {
	n := len(dst)
	if n+len(src) <= cap(dst) {
		r := dst[:n+len(src)]
		tmp := make([]Val, len(src))
		for i, v := range src {
			tmp[i] = copyVal(v)
		}
		for i, v := range tmp {
			setCell(&r[n+i], v)
		}
		return r
	}
	tmp := make([]Val, len(src))
	for i, v := range src {
		tmp[i] = copyVal(v)
	}
	return append(dst, tmp...) // cap exceeded: Go allocates a new array, the old one is untouched
}

var fakeAddrs = map[any]uint64{}

// fakeAddr numbers the objects whose address a program converts to an integer.
func fakeAddr(x Val) uint64 {
	var key any
	switch p := x.(type) {
	case *Val:
		key = p
	case int64:
		return uint64(p)
	default:
		key = fmt.Sprintf("%T", x)
	}
	if a, ok := fakeAddrs[key]; ok {
		return a
	}
	a := 0xc000100000 + uint64(len(fakeAddrs))*64
	fakeAddrs[key] = a
	return a
}
