package main

// Int-with-wrap encoding (per-harness option "int_mode"): symbolic machine
// integers are SMT Int terms kept inside the range of their Go type; every
// + - * and conversion is followed by an explicit wrap  ((x + 2^(w-1)) mod 2^w) - 2^(w-1)
// unless interval reasoning shows that it cannot overflow.  This keeps Go's
// mod-2^w semantics and lets z3 use linear integer arithmetic where bit-blasting
// 64-bit multiplication/division does not finish.

import (
	"fmt"
	"go/token"
	"math/big"
)

type ival struct {
	lo, hi *big.Int
}

var ivMemo = map[int]*ival{}
var varRange = map[int]*ival{}

func typeRange(w int, signed bool) *ival {
	if signed {
		lo := new(big.Int).Neg(new(big.Int).Lsh(big.NewInt(1), uint(w-1)))
		hi := new(big.Int).Sub(new(big.Int).Lsh(big.NewInt(1), uint(w-1)), big.NewInt(1))
		return &ival{lo, hi}
	}
	return &ival{big.NewInt(0), new(big.Int).Sub(new(big.Int).Lsh(big.NewInt(1), uint(w)), big.NewInt(1))}
}

func minBig(xs ...*big.Int) *big.Int {
	m := xs[0]
	for _, x := range xs[1:] {
		if x.Cmp(m) < 0 {
			m = x
		}
	}
	return m
}

func maxBig(xs ...*big.Int) *big.Int {
	m := xs[0]
	for _, x := range xs[1:] {
		if x.Cmp(m) > 0 {
			m = x
		}
	}
	return m
}

// ivOf computes a (possibly missing) interval of an Int term.
func ivOf(t *Term) *ival {
	if t.sort.K != KInt {
		return nil
	}
	if iv, ok := ivMemo[t.id]; ok {
		return iv
	}
	var r *ival
	switch t.op {
	case OConst:
		r = &ival{t.z, t.z}
	case OVar:
		r = varRange[t.id]
	case OIAdd, OISub, OIMul:
		a, b := ivOf(t.args[0]), ivOf(t.args[1])
		if a != nil && b != nil {
			switch t.op {
			case OIAdd:
				r = &ival{new(big.Int).Add(a.lo, b.lo), new(big.Int).Add(a.hi, b.hi)}
			case OISub:
				r = &ival{new(big.Int).Sub(a.lo, b.hi), new(big.Int).Sub(a.hi, b.lo)}
			default:
				p := []*big.Int{new(big.Int).Mul(a.lo, b.lo), new(big.Int).Mul(a.lo, b.hi), new(big.Int).Mul(a.hi, b.lo), new(big.Int).Mul(a.hi, b.hi)}
				r = &ival{minBig(p...), maxBig(p...)}
			}
		}
	case OINeg:
		if a := ivOf(t.args[0]); a != nil {
			r = &ival{new(big.Int).Neg(a.hi), new(big.Int).Neg(a.lo)}
		}
	case OIAbs:
		if a := ivOf(t.args[0]); a != nil {
			r = &ival{big.NewInt(0), maxBig(new(big.Int).Abs(a.lo), new(big.Int).Abs(a.hi))}
		}
	case OIMod:
		if b := t.args[1]; b.op == OConst && b.z.Sign() > 0 {
			r = &ival{big.NewInt(0), new(big.Int).Sub(b.z, big.NewInt(1))}
		}
	case OIDiv:
		a := ivOf(t.args[0])
		if b := t.args[1]; a != nil && b.op == OConst && b.z.Sign() > 0 {
			r = &ival{eucDiv(a.lo, b.z), eucDiv(a.hi, b.z)}
		}
	case OIte:
		a, b := ivOf(t.args[1]), ivOf(t.args[2])
		if a != nil && b != nil {
			r = &ival{minBig(a.lo, b.lo), maxBig(a.hi, b.hi)}
		}
	case OBv2Nat:
		w := t.args[0].sort.W
		r = typeRange(w, false)
	}
	ivMemo[t.id] = r
	return r
}

func (iv *ival) within(o *ival) bool {
	return iv != nil && iv.lo.Cmp(o.lo) >= 0 && iv.hi.Cmp(o.hi) <= 0
}

// wrapInt brings an Int term into the range of a w-bit (un)signed integer.
func wrapInt(x *Term, w int, signed bool) *Term {
	tr := typeRange(w, signed)
	if x.op == OConst {
		return mkInt64AsInt(canonBig(x.z, w, signed))
	}
	if ivOf(x).within(tr) {
		return x
	}
	m := mkInt(new(big.Int).Lsh(big.NewInt(1), uint(w)))
	var r *Term
	if signed {
		h := mkInt(new(big.Int).Lsh(big.NewInt(1), uint(w-1)))
		r = mkIBin(OISub, mkIBin(OIMod, mkIBin(OIAdd, x, h), m), h)
	} else {
		r = mkIBin(OIMod, x, m)
	}
	ivMemo[r.id] = tr
	return r
}

func canonBig(z *big.Int, w int, signed bool) *big.Int {
	m := new(big.Int).Lsh(big.NewInt(1), uint(w))
	r := eucMod(z, m)
	if signed {
		h := new(big.Int).Lsh(big.NewInt(1), uint(w-1))
		if r.Cmp(h) >= 0 {
			r.Sub(r, m)
		}
	}
	return r
}

func mkInt64AsInt(z *big.Int) *Term { return mkInt(z) }

// toIntTerm lifts an integer value (concrete, BV term or Int term) of a w-bit
// (un)signed Go type to an Int term holding its mathematical value.
func toIntTerm(v Val, w int, signed bool) *Term {
	switch v := v.(type) {
	case int64:
		if signed {
			return mkInt64(v)
		}
		return mkInt(new(big.Int).SetUint64(uint64(v) & mask(w)))
	case *Term:
		switch v.sort.K {
		case KInt:
			return v
		case KBV:
			if signed {
				return mkBv2Int(v)
			}
			return mkBv2Nat(v)
		}
	case Poison:
		unsupported("poison: " + v.why)
	}
	panic(fmt.Sprintf("toIntTerm: %T", v))
}

// fromInt turns a constant Int term back into the canonical concrete value.
func fromInt(t *Term, w int, signed bool) Val {
	if t.op == OConst {
		c := canonBig(t.z, w, signed)
		if signed {
			return c.Int64()
		}
		return int64(c.Uint64())
	}
	return t
}

func isIntTerm(v Val) bool {
	t, ok := v.(*Term)
	return ok && t.sort.K == KInt
}

// intBinopInt: binary operation on machine integers in the Int encoding.
func intBinopInt(fr *frame, instr interface{}, op token.Token, w int, signed bool, x, y Val) Val {
	a, b := toIntTerm(x, w, signed), toIntTerm(y, w, signed)
	wr := func(t *Term) Val { return fromInt(wrapInt(t, w, signed), w, signed) }
	switch op {
	case token.ADD:
		return wr(mkIBin(OIAdd, a, b))
	case token.SUB:
		return wr(mkIBin(OISub, a, b))
	case token.MUL:
		return wr(smartMul(a, b))
	case token.QUO, token.REM:
		if in.ex.branch(in.path, mkEq(b, mkInt64(0))) {
			fr.fault(nil, "divzero", "integer divide by zero")
		}
		q, r := truncDivRem(a, b)
		if op == token.QUO {
			if !signed {
				return wr(q)
			}
			// the only overflow is MinInt / -1, which wraps to MinInt
			tr := typeRange(w, true)
			c := mkAnd(mkEq(a, mkInt(tr.lo)), mkEq(b, mkInt64(-1)))
			res := mkIte(c, mkInt(tr.lo), q)
			if res.op != OConst {
				ivMemo[res.id] = tr
			}
			return fromInt(res, w, signed)
		}
		return wr(r)
	case token.EQL:
		return fromBoolTerm(mkEq(a, b))
	case token.NEQ:
		return fromBoolTerm(mkNot(mkEq(a, b)))
	case token.LSS:
		return fromBoolTerm(mkICmp(OILt, a, b))
	case token.LEQ:
		return fromBoolTerm(mkICmp(OILe, a, b))
	case token.GTR:
		return fromBoolTerm(mkICmp(OILt, b, a))
	case token.GEQ:
		return fromBoolTerm(mkICmp(OILe, b, a))
	case token.AND, token.OR, token.XOR, token.AND_NOT:
		// mask with 2^k - 1 of a non-negative value: mod 2^k
		if op == token.AND && b.op == OConst && b.z.Sign() >= 0 {
			p1 := new(big.Int).Add(b.z, big.NewInt(1))
			if p1.BitLen()-1 == int(p1.TrailingZeroBits()) { // power of two
				if signed {
					// x & (2^k-1) on two's complement equals x mod 2^k (Euclidean)
					return wr(mkIBin(OIMod, a, mkInt(p1)))
				}
				return wr(mkIBin(OIMod, a, mkInt(p1)))
			}
		}
		// general bitwise operation: go through bit-vectors
		xa, xb := mkInt2Bv(a, w), mkInt2Bv(b, w)
		var o Op
		switch op {
		case token.AND:
			o = OBAnd
		case token.OR:
			o = OBOr
		case token.XOR:
			o = OBXor
		default:
			o, xb = OBAnd, mkBNot(xb)
		}
		r := mkBin(o, xa, xb)
		if signed {
			return fromInt(mkBv2Int(r), w, signed)
		}
		return fromInt(mkBv2Nat(r), w, signed)
	}
	panic(fmt.Sprintf("intBinopInt: unexpected op %s", op))
}

// shiftInt: shifts in the Int encoding (concrete shift amount only).
func shiftInt(fr *frame, op token.Token, w int, signed bool, x Val, n int64) Val {
	a := toIntTerm(x, w, signed)
	if n >= int64(w) {
		if op == token.SHL || !signed {
			return int64(0)
		}
		// arithmetic shift by >= width: 0 or -1
		return fromInt(mkIte(mkICmp(OILt, a, mkInt64(0)), mkInt64(-1), mkInt64(0)), w, signed)
	}
	p := mkInt(new(big.Int).Lsh(big.NewInt(1), uint(n)))
	if op == token.SHL {
		return fromInt(wrapInt(mkIBin(OIMul, a, p), w, signed), w, signed)
	}
	// floor division = arithmetic / logical right shift
	return fromInt(mkIBin(OIDiv, a, p), w, signed)
}
