package main

// C17 (channels, mutexes and synchronized objects under concurrency): a
// deterministic *cooperative* model of goroutines.
//
//   - `go f(x)` creates a task and puts it on the run queue; the creating task
//     keeps running.
//   - A task runs until it blocks (receive on an empty channel, send on a full /
//     unbuffered channel without a waiting receiver, blocking select with no
//     ready case, Lock of a held mutex, WaitGroup.Wait with a positive counter)
//     or sleeps / yields (time.Sleep, runtime.Gosched) or ends; then the next
//     runnable task in round-robin order (by task id, starting after the
//     current one) continues.
//   - Time is virtual: computation takes no time; when no task can run the clock
//     jumps to the earliest deadline of a sleeping task or of a time.After timer
//     (discrete-event simulation). Durations only order the wake-ups.
//   - When every live task is blocked the path ends as "deadlock".
//   - Channels are bounded FIFO queues of engine values with a FIFO queue of
//     parked senders (value + task), exactly the structure of the Go runtime's
//     hchan; a sender finding plain receivers waiting hands its value over and
//     goes on (capacity + number of waiting receivers).
//   - select: the ready cases are computed; when several are ready the case is
//     picked by a solver-visible choice (fresh variable "select"), so every
//     ready case is explored on its own path.
//   - Optionally (zzC17Sched(budget) called by the harness) up to `budget`
//     *alternative* scheduling decisions per path are explored as well: at every
//     scheduling point (go statement, channel operation, Lock/Unlock, yield,
//     blocking) with more than one runnable task the engine forks on a fresh
//     variable "sched"; taking a non-default alternative consumes one unit.
//
// This explores ONE schedule per program (plus the bounded alternatives just
// described), not all interleavings: there is no preemption between scheduling
// points.  What is checked with it is the *functional* behaviour of the
// primitives (FIFO, exactly-once, close, select, lock release); freedom from
// data races under all schedules stays with the lockset obligations.
//
// Implementation: the SSA interpreter is recursive, so the continuation of a
// task is a Go stack: every task owns an OS-level goroutine, but exactly one of
// them runs at any time (strict hand-off through the tasks' wake channels), all
// engine state stays single-threaded.  A path end raised inside a task is
// forwarded to the main task, which re-raises it on the stack runPath watches.
// Tasks left parked when a path ends are unwound (pathEnd "task-killed") when
// the scheduler is next used on another path.

import (
	"fmt"
	"go/types"
	"reflect"
	"strings"
	"time"

	"golang.org/x/tools/go/ssa"
)

type task17 struct {
	id      int
	wake    chan struct{}
	exited  chan struct{}
	started bool
	done    bool
	killed  bool
	ready   func() bool // nil: runnable; else blocked until ready()
	until   int64       // > 0: sleeping until the virtual clock reaches this value
	what    string      // what a blocked task waits for
	selSend bool        // blocked in a select that has a send case
	depth   int         // saved in.depth
	fn      Val
	args    []Val
	site    string
}

type sched17 struct {
	path     *Path
	tasks    []*task17
	cur      *task17
	pend     any // path end raised in a non-main task, re-raised by the main task
	budget   int // remaining alternative scheduling decisions on this path
	deadlock int // 0: a deadlock is reported as unsupported; 1: violation; 2: allowed (path end "deadlock", reach tag "deadlock")
	spawned  int
	switches int
	now      int64 // virtual clock (ns): advances only when no task can run
	timers   []*timer17
}

// timer17 is a pending time.After: at the deadline the time is put on the channel.
type timer17 struct {
	deadline int64
	ch       *Chan
	elem     types.Type
	fired    bool
}

var sc17 = &sched17{}
var initGo17 int // go statements skipped during package initialisation

// sync resets the scheduler when a new path has begun.
func (sc *sched17) sync() {
	if sc.path == in.path {
		return
	}
	saveDepth := in.depth
	for _, t := range sc.tasks {
		if t.id != 0 && t.started && !t.done {
			t.killed = true
			t.wake <- struct{}{}
			select {
			case <-t.exited:
			case <-time.After(5 * time.Second):
				// something on its stack swallowed the unwinding: leave it parked
			}
		}
	}
	in.depth = saveDepth
	sc.path = in.path
	main := &task17{id: 0, wake: make(chan struct{}, 1), started: true, site: "main"}
	sc.tasks = []*task17{main}
	sc.cur = main
	sc.pend = nil
	sc.budget = 0
	sc.deadlock = 0
	sc.spawned = 0
	sc.switches = 0
	sc.now = 0
	sc.timers = nil
}

// advance moves the virtual clock to the earliest pending deadline (a
// sleeping task or a time.After timer); false when there is none.
func (sc *sched17) advance() bool {
	var min int64 = -1
	for _, t := range sc.tasks {
		if !t.done && t.until > sc.now && (min < 0 || t.until < min) {
			min = t.until
		}
	}
	for _, tm := range sc.timers {
		if !tm.fired && (min < 0 || tm.deadline < min) {
			min = tm.deadline
		}
	}
	if min < 0 {
		return false
	}
	if min > sc.now {
		sc.now = min
	}
	for _, tm := range sc.timers {
		if !tm.fired && tm.deadline <= sc.now {
			tm.fired = true
			touch17(tm.ch)
			tm.ch.buf = append(append([]Val(nil), tm.ch.buf...), fromNative(reflect.ValueOf(time.Unix(0, tm.deadline).UTC()), tm.elem))
		}
	}
	return true
}

// next17 lists the runnable tasks, advancing the virtual clock while nobody can run.
func (sc *sched17) next17() []*task17 {
	for {
		next := sc.runnable()
		if len(next) > 0 || (sc.cur.ready != nil && !sc.cur.done && sc.cur.ready()) {
			return next
		}
		if !sc.advance() {
			return nil
		}
	}
}

func (sc *sched17) live() int {
	n := 0
	for _, t := range sc.tasks {
		if !t.done {
			n++
		}
	}
	return n
}

func (sc *sched17) blocked() int {
	n := 0
	for _, t := range sc.tasks {
		if !t.done && t.ready != nil && !t.ready() {
			n++
		}
	}
	return n
}

// runnable lists the tasks other than the current one that can run, in
// round-robin order starting after the current task.
func (sc *sched17) runnable() []*task17 {
	var out []*task17
	n := len(sc.tasks)
	for k := 1; k < n; k++ {
		t := sc.tasks[(sc.cur.id+k)%n]
		if t.done {
			continue
		}
		if t.ready == nil || t.ready() {
			out = append(out, t)
		}
	}
	return out
}

// decide picks one of n alternatives at a scheduling point: alternative 0 is
// the default; others are explored only while the budget lasts.
func (sc *sched17) decide(n int) int {
	if n <= 1 || sc.budget <= 0 {
		return 0
	}
	t := in.fresh("sched", bvSort(64))
	alts := make([]*Term, n)
	for i := range alts {
		alts[i] = mkEq(t, mkBV(uint64(i), 64))
	}
	k := in.ex.choose(in.path, alts)
	if k != 0 {
		sc.budget--
	}
	return k
}

func (t *task17) park() {
	<-t.wake
	if t.killed {
		panic(pathEnd{"task-killed", ""})
	}
	in.depth = t.depth
	if t.id == 0 && sc17.pend != nil {
		p := sc17.pend
		sc17.pend = nil
		panic(p)
	}
}

func (sc *sched17) resume(next *task17) {
	sc.cur = next
	sc.switches++
	if !next.started {
		next.started = true
		next.depth = 0
		go next.run()
	}
	next.wake <- struct{}{}
}

func (sc *sched17) switchTo(next *task17) {
	cur := sc.cur
	if next == cur {
		return
	}
	cur.depth = in.depth
	sc.resume(next)
	cur.park()
}

// run is the body of a task's goroutine.
func (t *task17) run() {
	defer close(t.exited)
	<-t.wake
	if t.killed {
		return
	}
	in.depth = 0
	defer func() {
		r := recover()
		t.done = true
		if pe, ok := r.(pathEnd); ok && pe.kind == "task-killed" {
			return
		}
		sc := sc17
		if r == nil {
			// normal end of the task: somebody else continues
			func() {
				defer func() {
					if r2 := recover(); r2 != nil {
						r = r2
					}
				}()
				next := sc.next17()
				if len(next) == 0 {
					sc.deadlocked()
				}
				sc.resume(next[sc.decide(len(next))])
			}()
			if r == nil {
				return
			}
		}
		if tp, isT := r.(targetPanic); isT {
			// a panic nobody recovered ends the whole process
			func() {
				defer func() { r = recover() }()
				in.path.faults = append(in.path.faults, faultRec{kind: "goroutine-panic", site: t.site, msg: showVal(tp.v)})
				vrtAssert(nil, false, "uncaught panic in a goroutine (the Go runtime ends the process)")
			}()
		}
		// forward the path end (or engine error) to the main task
		sc.pend = r
		main := sc.tasks[0]
		sc.cur = main
		main.wake <- struct{}{}
	}()
	call(nil, 0, t.fn, t.args)
}

func (sc *sched17) describe() string {
	var parts []string
	for _, t := range sc.tasks {
		if !t.done {
			parts = append(parts, fmt.Sprintf("task %d (%s): %s", t.id, t.site, t.what))
		}
	}
	return strings.Join(parts, "; ")
}

// deadlocked: no live task can run.
func (sc *sched17) deadlocked() {
	msg := "all goroutines are asleep: " + sc.describe()
	for _, t := range sc.tasks {
		if !t.done && t.selSend {
			unsupported("blocking select with a send case and no plain receiver (select/select rendezvous is not modelled): " + msg)
		}
	}
	switch sc.deadlock {
	case 1:
		in.path.faults = append(in.path.faults, faultRec{kind: "deadlock", site: sc.cur.site, msg: msg})
		vrtAssert(nil, false, "deadlock: all goroutines are blocked")
	case 2:
		in.path.faults = append(in.path.faults, faultRec{kind: "deadlock", site: sc.cur.site, msg: msg})
		in.path.reached["deadlock"] = true
		panic(pathEnd{"deadlock", msg})
	}
	if initGo17 > 0 && len(sc.tasks) == 1 {
		unsupported("operation blocks with no other goroutine (goroutines started by package initialisation are not modelled): " + sc.tasks[0].what)
	}
	unsupported("deadlock (the harness did not say whether one is expected): " + msg)
}

// block parks the current task until ready() holds.
func (sc *sched17) block(ready func() bool, what string, selSend bool) {
	sc.sync()
	cur := sc.cur
	for !ready() {
		cur.ready, cur.what, cur.selSend = ready, what, selSend
		next := sc.next17()
		if len(next) == 0 {
			if ready() {
				break // the clock moved on and this task is the one to run
			}
			sc.deadlocked()
		}
		sc.switchTo(next[sc.decide(len(next))])
		cur.ready, cur.what, cur.selSend = nil, "", false
	}
	cur.ready, cur.what, cur.selSend = nil, "", false
}

// sleep parks the current task until the virtual clock has advanced by d.
func (sc *sched17) sleep(d int64) {
	sc.sync()
	if d <= 0 {
		sc.yield()
		return
	}
	cur := sc.cur
	cur.until = sc.now + d
	until := cur.until
	sc.block(func() bool { return sc.now >= until }, "sleep", false)
	cur.until = 0
}

// point is an optional scheduling point: by default the current task goes on.
func (sc *sched17) point() {
	if sc.path != in.path || sc.budget <= 0 || len(sc.tasks) < 2 {
		return
	}
	next := sc.runnable()
	if len(next) == 0 {
		return
	}
	if k := sc.decide(len(next) + 1); k > 0 {
		sc.switchTo(next[k-1])
	}
}

// yield (time.Sleep, runtime.Gosched): by default the next runnable task runs.
func (sc *sched17) yield() {
	if sc.path != in.path || len(sc.tasks) < 2 {
		return
	}
	next := sc.runnable()
	if len(next) == 0 {
		return
	}
	if k := sc.decide(len(next) + 1); k < len(next) {
		sc.switchTo(next[k])
	}
}

func goStmt17(fr *frame, instr *ssa.Go, fn Val, args []Val) {
	if in.initing {
		initGo17++
		return // background workers started by init are not modelled
	}
	sc := sc17
	sc.sync()
	if len(sc.tasks) >= 64 {
		unsupported("more than 64 goroutines on one path")
	}
	t := &task17{id: len(sc.tasks), wake: make(chan struct{}, 1), exited: make(chan struct{}), fn: fn, args: args, site: fr.site(instr)}
	sc.tasks = append(sc.tasks, t)
	sc.spawned++
	sc.point()
}

// ---- channels ----

type sendWait17 struct {
	v     Val
	taken bool
}

type chanExt17 struct {
	sendq       []*sendWait17
	recvWaiting int // tasks parked in a plain receive
}

var chanExt17s = map[*Chan]*chanExt17{}

func extOf17(ch *Chan) *chanExt17 {
	e, ok := chanExt17s[ch]
	if !ok {
		e = &chanExt17{}
		chanExt17s[ch] = e
		logUndo(func() { delete(chanExt17s, ch) })
	}
	return e
}

// touch17 journals the state of a channel before it is changed.
func touch17(ch *Chan) *chanExt17 {
	e := extOf17(ch)
	oldC, oldE := *ch, *e
	logUndo(func() { *ch, *e = oldC, oldE })
	return e
}

func chanLen17(ch *Chan) int {
	if len(ch.buf) > ch.cap {
		return ch.cap // values handed to waiting receivers are not in the buffer
	}
	return len(ch.buf)
}

func nativeChan17(v Val) {
	if _, ok := v.(Native); ok {
		unsupported("operation on a channel created by native code (time.After, ...)")
	}
}

func asChan17(v Val) *Chan {
	checkPoison(v)
	nativeChan17(v)
	ch, ok := v.(*Chan)
	if !ok {
		unsupported(fmt.Sprintf("channel operation on %T", v))
	}
	return ch
}

func sendReady17(ch *Chan) bool {
	return ch.closed || len(ch.buf) < ch.cap+extOf17(ch).recvWaiting
}

func recvReady17(ch *Chan) bool {
	return len(ch.buf) > 0 || ch.closed || len(extOf17(ch).sendq) > 0
}

func chanSend17(fr *frame, instr ssa.Instruction, ch *Chan, v Val) {
	sc := sc17
	sc.sync()
	if ch == nil {
		sc.block(func() bool { return false }, "send on nil channel", false)
	}
	if ch.closed {
		fr.fault(instr, "closedchan", "send on closed channel")
	}
	if sendReady17(ch) {
		touch17(ch)
		ch.buf = append(append([]Val(nil), ch.buf...), v)
		sc.point()
		return
	}
	w := &sendWait17{v: v}
	e := touch17(ch)
	e.sendq = append(append([]*sendWait17(nil), e.sendq...), w)
	sc.block(func() bool { return w.taken || ch.closed }, "send on a full or unbuffered channel", false)
	if !w.taken {
		// closed while parked
		e = touch17(ch)
		var q []*sendWait17
		for _, x := range e.sendq {
			if x != w {
				q = append(q, x)
			}
		}
		e.sendq = q
		fr.fault(instr, "closedchan", "send on closed channel")
	}
}

func chanRecv17(fr *frame, ch *Chan, elem types.Type) (Val, bool) {
	sc := sc17
	sc.sync()
	if ch == nil {
		sc.block(func() bool { return false }, "receive on nil channel", false)
	}
	for {
		if len(ch.buf) > 0 {
			e := touch17(ch)
			v := ch.buf[0]
			ch.buf = append([]Val(nil), ch.buf[1:]...)
			if !ch.closed && len(e.sendq) > 0 && len(ch.buf) < ch.cap {
				w := e.sendq[0]
				e.sendq = append([]*sendWait17(nil), e.sendq[1:]...)
				ch.buf = append(ch.buf, w.v)
				w.taken = true
			}
			sc.point()
			return v, true
		}
		if ch.closed {
			return zero(elem), false
		}
		if e := extOf17(ch); len(e.sendq) > 0 {
			e = touch17(ch)
			w := e.sendq[0]
			e.sendq = append([]*sendWait17(nil), e.sendq[1:]...)
			w.taken = true
			sc.point()
			return w.v, true
		}
		e := touch17(ch)
		e.recvWaiting++
		sc.block(func() bool { return recvReady17(ch) }, "receive on an empty channel", false)
		e = touch17(ch)
		e.recvWaiting--
	}
}

func chanElem17(v ssa.Value) types.Type {
	return v.Type().Underlying().(*types.Chan).Elem()
}

func selectOp17(fr *frame, instr *ssa.Select) Val {
	sc := sc17
	sc.sync()
	chans := make([]*Chan, len(instr.States))
	hasSend := false
	for i, st := range instr.States {
		chans[i] = asChan17(fr.get(st.Chan))
		if st.Dir != types.RecvOnly {
			hasSend = true
		}
	}
	readyCases := func() []int {
		var r []int
		for i, st := range instr.States {
			ch := chans[i]
			if ch == nil {
				continue
			}
			if st.Dir == types.RecvOnly {
				if recvReady17(ch) {
					r = append(r, i)
				}
			} else if sendReady17(ch) {
				r = append(r, i)
			}
		}
		return r
	}
	ready := readyCases()
	if len(ready) == 0 && instr.Blocking {
		sc.block(func() bool { return len(readyCases()) > 0 }, fmt.Sprintf("select with %d cases, none ready", len(instr.States)), hasSend)
		ready = readyCases()
	}
	chosen := -1
	var recvVal Val
	recvOk := false
	if len(ready) > 0 {
		k := 0
		if len(ready) > 1 {
			// the Go runtime picks a ready case at random: every one is explored
			t := in.fresh("select", bvSort(64))
			alts := make([]*Term, len(ready))
			for i := range alts {
				alts[i] = mkEq(t, mkBV(uint64(i), 64))
			}
			k = in.ex.choose(in.path, alts)
		}
		chosen = ready[k]
		st := instr.States[chosen]
		if st.Dir == types.RecvOnly {
			recvVal, recvOk = chanRecv17(fr, chans[chosen], chanElem17(st.Chan))
		} else {
			chanSend17(fr, instr, chans[chosen], fr.get(st.Send))
		}
	}
	r := Tuple{int64(chosen), recvOk}
	for i, st := range instr.States {
		if st.Dir == types.RecvOnly {
			if i == chosen && recvOk {
				r = append(r, recvVal)
			} else {
				r = append(r, zero(chanElem17(st.Chan)))
			}
		}
	}
	return r
}

// ---- mutexes that block instead of ending the path, WaitGroup ----

var wg17 = map[*Val]int64{}

func wgAdd17(fr *frame, p Val, n int64) {
	c, ok := p.(*Val)
	if !ok || c == nil {
		fr.fault(nil, "nilderef", "nil WaitGroup")
	}
	old, had := wg17[c]
	logUndo(func() {
		if had {
			wg17[c] = old
		} else {
			delete(wg17, c)
		}
	})
	wg17[c] = old + n
	if wg17[c] < 0 {
		fr.fault(nil, "waitgroup", "sync: negative WaitGroup counter")
	}
}

func lock17(write bool) intrinsic {
	return func(fr *frame, fn *ssa.Function, args []Val) Val {
		sc := sc17
		// (with a single task and no word from the harness about deadlocks the
		// original model below ends the path as a self-deadlock, as it always did)
		if p, ok := args[0].(*Val); ok && p != nil && sc.path == in.path && (sc.live() > 1 || sc.deadlock != 0) {
			l := lockOf(p)
			held := func() bool { return l.writer || (write && l.readers > 0) }
			if held() {
				sc.block(func() bool { return !held() }, "Lock of a held mutex ("+fr17(fr)+")", false)
			}
		}
		mutexLock(fr, args[0], write)
		sc.point()
		return nil
	}
}

func fr17(fr *frame) string {
	if fr == nil {
		return "?"
	}
	return fr.fn.String()
}

func unlock17(write bool) intrinsic {
	return func(fr *frame, fn *ssa.Function, args []Val) Val {
		mutexUnlock(fr, args[0], write)
		sc17.point()
		return nil
	}
}

func init() {
	reg("(*sync.Mutex).Lock", lock17(true))
	reg("(*sync.Mutex).Unlock", unlock17(true))
	reg("(*sync.RWMutex).Lock", lock17(true))
	reg("(*sync.RWMutex).Unlock", unlock17(true))
	reg("(*sync.RWMutex).RLock", lock17(false))
	reg("(*sync.RWMutex).RUnlock", unlock17(false))
	reg("(*sync.WaitGroup).Add", func(fr *frame, fn *ssa.Function, args []Val) Val {
		n, ok := args[1].(int64)
		if !ok {
			unsupported("WaitGroup.Add of a symbolic count")
		}
		wgAdd17(fr, args[0], n)
		return nil
	})
	reg("(*sync.WaitGroup).Done", func(fr *frame, fn *ssa.Function, args []Val) Val {
		wgAdd17(fr, args[0], -1)
		sc17.point()
		return nil
	})
	reg("(*sync.WaitGroup).Wait", func(fr *frame, fn *ssa.Function, args []Val) Val {
		c, _ := args[0].(*Val)
		if wg17[c] > 0 {
			if sc17.path != in.path || len(sc17.tasks) < 2 {
				return nil // no goroutine was started on this path (the counter is then of no consequence)
			}
			sc17.block(func() bool { return wg17[c] <= 0 }, "WaitGroup.Wait", false)
		}
		return nil
	})
	yield := func(fr *frame, fn *ssa.Function, args []Val) Val {
		sc17.yield()
		return nil
	}
	reg("time.Sleep", func(fr *frame, fn *ssa.Function, args []Val) Val {
		d, ok := args[0].(int64)
		if !ok {
			unsupported("time.Sleep of a symbolic duration")
		}
		sc17.sleep(d)
		return nil
	})
	reg("time.After", func(fr *frame, fn *ssa.Function, args []Val) Val {
		d, ok := args[0].(int64)
		if !ok {
			unsupported("time.After of a symbolic duration")
		}
		sc17.sync()
		if d < 0 {
			d = 0
		}
		ch := &Chan{cap: 1}
		elem := fn.Signature.Results().At(0).Type().Underlying().(*types.Chan).Elem()
		sc17.timers = append(sc17.timers, &timer17{deadline: sc17.now + d, ch: ch, elem: elem})
		return ch
	})
	reg("runtime.Gosched", yield)
	reg("runtime.NumGoroutine", func(fr *frame, fn *ssa.Function, args []Val) Val {
		if sc17.path != in.path {
			return int64(1)
		}
		return int64(sc17.live())
	})
	// harness hooks: zzC17Sched(budget), zzC17Deadlock(mode), zzC17Live(), zzC17Blocked()
	for _, pkg := range []string{"", "/pkg/gi", "/pkg/clos", "/pkg/flavors", "/pkg/cl", "/pkg/generic"} {
		p := "github.com/ohler55/slip" + pkg + "."
		reg(p+"zzC17Sched", func(fr *frame, fn *ssa.Function, args []Val) Val {
			sc17.sync()
			n, ok := args[0].(int64)
			if !ok {
				unsupported("zzC17Sched needs a concrete budget")
			}
			sc17.budget = int(n)
			return nil
		})
		reg(p+"zzC17Deadlock", func(fr *frame, fn *ssa.Function, args []Val) Val {
			sc17.sync()
			n, ok := args[0].(int64)
			if !ok {
				unsupported("zzC17Deadlock needs a concrete mode")
			}
			sc17.deadlock = int(n)
			return nil
		})
		reg(p+"zzC17Live", func(fr *frame, fn *ssa.Function, args []Val) Val {
			sc17.sync()
			return int64(sc17.live())
		})
		reg(p+"zzC17Blocked", func(fr *frame, fn *ssa.Function, args []Val) Val {
			sc17.sync()
			return int64(sc17.blocked())
		})
		reg(p+"zzC17Switches", func(fr *frame, fn *ssa.Function, args []Val) Val {
			sc17.sync()
			return int64(sc17.switches)
		})
	}
}
