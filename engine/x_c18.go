package main

// C18 (bag path operations, parse/write round trips): the bag functions of
// pkg/bag delegate to github.com/ohler55/ojg (jp, oj, sen, pretty, alt, gen).
// For runs of property C18 — and only for those, so that other properties keep
// the native-call behaviour they were built against — these packages are
// interpreted from their own SSA like the standard-library packages of
// interpPkgs, so that document leaves can be symbolic.

import (
	"go/token"
	"go/types"
	"os"
	"reflect"
	"strings"

	"golang.org/x/tools/go/ssa"
)

var c18OjgPkgs = []string{
	"github.com/ohler55/ojg",
	"github.com/ohler55/ojg/gen",
	"github.com/ohler55/ojg/alt",
	"github.com/ohler55/ojg/jp",
	"github.com/ohler55/ojg/oj",
	"github.com/ohler55/ojg/sen",
	"github.com/ohler55/ojg/pretty",
}

func c18Active() bool {
	for i, a := range os.Args {
		if (a == "-prop" || a == "--prop") && i+1 < len(os.Args) && os.Args[i+1] == "C18" {
			return true
		}
		if a == "-prop=C18" || a == "--prop=C18" {
			return true
		}
		if (a == "-only" || a == "--only") && i+1 < len(os.Args) && strings.HasPrefix(os.Args[i+1], "C18.") {
			return true
		}
	}
	return false
}

func init() {
	if !c18Active() {
		return
	}
	interpPkgs = append(interpPkgs, c18OjgPkgs...)
	// the native-call models of other properties for ojg functions give way to
	// the interpreted code
	delete(intrinsics, "github.com/ohler55/ojg/sen.Bytes")
	delete(intrinsics, "github.com/ohler55/ojg.AppendJSONString")
	// jp.isNil(v any) looks at the data word of the interface value through
	// unsafe: it is nil for the nil interface and for a nil pointer, map, chan
	// or func held in the interface (a slice is boxed, its data word is not nil).
	c18IsNil := func(fr *frame, fn *ssa.Function, args []Val) Val {
		i := args[0].(Iface)
		if i.t == nil {
			return true
		}
		switch i.t.Underlying().(type) {
		case *types.Pointer, *types.Map, *types.Chan, *types.Signature:
			return isNilVal(i.v)
		}
		return false
	}
	reg("github.com/ohler55/ojg/jp.isNil", c18IsNil)
	c18Reflect()
	c18Pool()
}

// ---- sync.Pool with reuse ----
//
// The core model of sync.Pool (extern.go) never reuses an object: Get always
// calls New and Put drops its argument.  That is one legal behaviour of a
// pool, but it hides state that an object carries from one use to the next
// (ojg's parsers come from a pool).  For C18 a pool is a stack: Get returns the
// object of the most recent Put if there is one (what the Go runtime does for
// a single goroutine through the per-P private slot), otherwise New().

var c18Pools = map[*Val][]Val{}

func c18Pool() {
	reg("(*sync.Pool).Get", func(fr *frame, fn *ssa.Function, args []Val) Val {
		p := args[0].(*Val)
		if st := c18Pools[p]; 0 < len(st) {
			old := st
			logUndo(func() { c18Pools[p] = old })
			ns := make([]Val, len(st)-1)
			copy(ns, st)
			c18Pools[p] = ns
			return st[len(st)-1]
		}
		s := (*p).(Struct)
		newf := s[len(s)-1] // field New is the last one
		if !isNilVal(newf) {
			return call(fr, token.NoPos, newf, nil)
		}
		return Iface{}
	})
	reg("(*sync.Pool).Put", func(fr *frame, fn *ssa.Function, args []Val) Val {
		p := args[0].(*Val)
		if in.initing {
			return nil
		}
		old := c18Pools[p]
		logUndo(func() { c18Pools[p] = old })
		ns := make([]Val, len(old)+1)
		copy(ns, old)
		ns[len(old)] = args[1]
		c18Pools[p] = ns
		return nil
	})
}

// ---- reflect on plain JSON data ----
//
// jp falls back to reflection whenever a path fragment meets data it has no
// typed case for (a key applied to []any, an index applied to a map or to a
// scalar, ...).  For the data a bag holds — nil, bool, int64, float64, string,
// []any, map[string]any — these fallbacks only ask for the kind of the value.
// reflect.TypeOf of such a value is the real (native) reflect type, so every
// method of it works; reflect.ValueOf is a model that knows Kind, Type and
// IsValid and ends the path as unsupported for anything else.

type c18RV struct {
	t types.Type // nil: the zero Value
}

var c18AnyRT = reflect.TypeOf((*any)(nil)).Elem()

// c18NativeType: the Go run-time type of one of the plain JSON kinds.
func c18NativeType(t types.Type) (reflect.Type, bool) {
	if _, named := t.(*types.Named); named {
		return nil, false
	}
	switch u := t.(type) {
	case *types.Basic:
		switch u.Kind() {
		case types.Bool:
			return reflect.TypeOf(false), true
		case types.Int64:
			return reflect.TypeOf(int64(0)), true
		case types.Int:
			return reflect.TypeOf(int(0)), true
		case types.Float64:
			return reflect.TypeOf(float64(0)), true
		case types.String:
			return reflect.TypeOf(""), true
		}
	case *types.Slice:
		if it, ok := u.Elem().Underlying().(*types.Interface); ok && it.Empty() {
			return reflect.SliceOf(c18AnyRT), true
		}
	case *types.Map:
		if it, ok := u.Elem().Underlying().(*types.Interface); ok && it.Empty() {
			if kb, isB := u.Key().Underlying().(*types.Basic); isB && kb.Kind() == types.String {
				return reflect.MapOf(reflect.TypeOf(""), c18AnyRT), true
			}
		}
	}
	return nil, false
}

func c18TypeIface(t types.Type) (Val, bool) {
	nt, ok := c18NativeType(types.Unalias(t))
	if !ok {
		return nil, false
	}
	rp := in.prog.ImportedPackage("reflect")
	if rp == nil {
		unsupported("package reflect not loaded")
	}
	rt := rp.Pkg.Scope().Lookup("rtype").Type()
	return Iface{t: types.NewPointer(rt), v: Native{reflect.ValueOf(nt)}}, true
}

func c18Reflect() {
	oldTypeOf := intrinsics["reflect.TypeOf"]
	reg("reflect.TypeOf", func(fr *frame, fn *ssa.Function, args []Val) Val {
		i := args[0].(Iface)
		if i.t != nil {
			if v, ok := c18TypeIface(i.t); ok {
				return v
			}
		}
		return oldTypeOf(fr, fn, args)
	})
	reg("reflect.ValueOf", func(fr *frame, fn *ssa.Function, args []Val) Val {
		i := args[0].(Iface)
		if i.t == nil {
			return Native{reflect.ValueOf(c18RV{})}
		}
		if _, ok := c18NativeType(types.Unalias(i.t)); !ok {
			unsupported("reflect.ValueOf of a " + i.t.String() + " (model: plain JSON kinds only)")
		}
		return Native{reflect.ValueOf(c18RV{t: types.Unalias(i.t)})}
	})
	recv := func(args []Val) c18RV {
		if n, ok := args[0].(Native); ok && n.rv.IsValid() {
			if m, isM := n.rv.Interface().(c18RV); isM {
				return m
			}
		}
		unsupported("reflect.Value that is not the C18 model")
		return c18RV{}
	}
	reg("(reflect.Value).IsValid", func(fr *frame, fn *ssa.Function, args []Val) Val { return recv(args).t != nil })
	reg("(reflect.Value).Kind", func(fr *frame, fn *ssa.Function, args []Val) Val {
		m := recv(args)
		if m.t == nil {
			return int64(reflect.Invalid)
		}
		nt, _ := c18NativeType(m.t)
		return int64(nt.Kind())
	})
	reg("(reflect.Value).Type", func(fr *frame, fn *ssa.Function, args []Val) Val {
		m := recv(args)
		if m.t == nil {
			fr.fault(nil, "reflect", "reflect: call of reflect.Value.Type on zero Value")
		}
		v, _ := c18TypeIface(m.t)
		return v
	})
}
