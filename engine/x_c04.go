package main

import (
	"math"

	"golang.org/x/tools/go/ssa"
)

// C04 (documented arity of every built-in): models needed because the
// built-ins are actually called.
//
//   - internal/strconv's float<->bits helpers are unsafe pointer casts
//     (printing a float argument in an error message went through
//     genericFtoa: "toBV: float64").  Concrete floats only.
//   - (*flavors.Instance).ID and (*cl.StructureObject).ID convert the object's
//     address to an integer for printing "#<vanilla-flavor 1f00>"; the address
//     is not observable by the property, the model returns a fixed number.
func init() {
	reg("internal/strconv.float64bits", func(fr *frame, fn *ssa.Function, args []Val) Val {
		f, ok := args[0].(float64)
		if !ok {
			unsupported("float64bits of a non-concrete float")
		}
		return int64(math.Float64bits(f))
	})
	reg("internal/strconv.float32bits", func(fr *frame, fn *ssa.Function, args []Val) Val {
		f, ok := args[0].(float64)
		if !ok {
			unsupported("float32bits of a non-concrete float")
		}
		return int64(math.Float32bits(float32(f)))
	})
	reg("internal/strconv.float64frombits", func(fr *frame, fn *ssa.Function, args []Val) Val {
		b, ok := args[0].(int64)
		if !ok {
			unsupported("float64frombits of symbolic bits")
		}
		return math.Float64frombits(uint64(b))
	})
	reg("internal/strconv.float32frombits", func(fr *frame, fn *ssa.Function, args []Val) Val {
		b, ok := args[0].(int64)
		if !ok {
			unsupported("float32frombits of symbolic bits")
		}
		return float64(math.Float32frombits(uint32(b)))
	})
	reg("(*github.com/ohler55/slip/pkg/flavors.Instance).ID", func(fr *frame, fn *ssa.Function, args []Val) Val {
		return int64(0x1c04)
	})
	reg("(*github.com/ohler55/slip/pkg/cl.StructureObject).ID", func(fr *frame, fn *ssa.Function, args []Val) Val {
		return int64(0x2c04)
	})
}
