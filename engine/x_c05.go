package main

// C05: bitwise operations of math/big on symbolic integers.
//
// A symbolic *big.Int is an SMT Int term (big.go).  The two's complement bit operations
// (And, Or, Xor, AndNot, Not) have no closed form in integer arithmetic, so they are modelled on
// a fixed-width two's complement image of the operands: four 64-bit limbs (256 bits), least
// significant first.  The image of an Int term is computed structurally (the map Int -> Z/2^256
// is a ring homomorphism, so + - neg ite and constants translate limb-wise with carries); terms
// the translation does not understand fall back to int2bv(t div 2^(64 i)).  The bit operation is
// exact when both operands lie in [-2^255, 2^255): that is decided by the solver for the path
// (the other side of the branch ends the path as unsupported).
//
//   zzC05Big3(hi int64, l1, l0 uint64) *big.Int   hi*2^128 + l1*2^64 + l0 (harness constructor;
//                                                  natively the Go body computes the same value)
//   zzC05Limb(x *big.Int, i int) uint64           limb i of the infinite two's complement image
//                                                  of x (harness accessor; i concrete)
//
// The result of a bit operation is the Int term sum(nat(limb_i)*2^(64 i)) (top limb signed) and
// its limbs are remembered, so chains of operations stay in bit-vector form.

import (
	"go/types"
	"math/big"

	"golang.org/x/tools/go/ssa"
)

const c05K = 4 // limbs

var c05LimbTab = map[int][]*Term{} // Int term id -> limbs (terms are hash-consed globally: pure cache)

func c05ConstLimbs(z *big.Int) []*Term {
	m := new(big.Int).Lsh(big.NewInt(1), 64*c05K)
	r := eucMod(z, m)
	out := make([]*Term, c05K)
	mask64 := new(big.Int).SetUint64(^uint64(0))
	for i := 0; i < c05K; i++ {
		out[i] = mkBV(new(big.Int).And(new(big.Int).Rsh(r, uint(64*i)), mask64).Uint64(), 64)
	}
	return out
}

// a + b + cin over limbs (cin a Bool term)
func c05AddLimbs(a, b []*Term, cin *Term) []*Term {
	out := make([]*Term, c05K)
	one, zero := mkBV(1, 64), mkBV(0, 64)
	c := cin
	for i := 0; i < c05K; i++ {
		s1 := mkBin(OAdd, a[i], b[i])
		c1 := mkCmp(OUlt, s1, a[i])
		s := mkBin(OAdd, s1, mkIte(c, one, zero))
		c2 := mkCmp(OUlt, s, s1)
		out[i] = s
		c = mkOr(c1, c2)
	}
	return out
}

func c05NotLimbs(a []*Term) []*Term {
	out := make([]*Term, c05K)
	for i := range a {
		out[i] = mkBin(OBXor, a[i], mkBV(^uint64(0), 64))
	}
	return out
}

// c05Image: limbs of t modulo 2^256; exact reports that t is known to lie in the signed range.
func c05Image(t *Term) (limbs []*Term, exact bool) {
	if l, ok := c05LimbTab[t.id]; ok {
		return l, true
	}
	zero := mkBV(0, 64)
	switch t.op {
	case OConst:
		lim := new(big.Int).Lsh(big.NewInt(1), 64*c05K-1)
		return c05ConstLimbs(t.z), t.z.Cmp(lim) < 0 && t.z.Cmp(new(big.Int).Neg(lim)) >= 0
	case OBv2Nat:
		if t.args[0].sort.W <= 64 {
			return []*Term{mkZext(t.args[0], 64), zero, zero, zero}, true
		}
	case OIAdd:
		a, _ := c05Image(t.args[0])
		b, _ := c05Image(t.args[1])
		return c05AddLimbs(a, b, mkBool(false)), false
	case OISub:
		a, _ := c05Image(t.args[0])
		b, _ := c05Image(t.args[1])
		return c05AddLimbs(a, c05NotLimbs(b), mkBool(true)), false
	case OINeg:
		a, _ := c05Image(t.args[0])
		return c05AddLimbs(c05ConstLimbs(new(big.Int)), c05NotLimbs(a), mkBool(true)), false
	case OIte:
		a, ea := c05Image(t.args[1])
		b, eb := c05Image(t.args[2])
		out := make([]*Term, c05K)
		for i := range out {
			out[i] = mkIte(t.args[0], a[i], b[i])
		}
		return out, ea && eb
	case OIMul:
		// multiplication by 2^(64 j): limb shift
		for k := 0; k < 2; k++ {
			c, x := t.args[k], t.args[1-k]
			if c.op == OConst && c.z.Sign() > 0 && c.z.BitLen()%64 == 1 && c.z.TrailingZeroBits() == uint(c.z.BitLen()-1) {
				j := (c.z.BitLen() - 1) / 64
				a, _ := c05Image(x)
				out := make([]*Term, c05K)
				for i := range out {
					if i < j {
						out[i] = zero
					} else {
						out[i] = a[i-j]
					}
				}
				return out, false
			}
		}
	}
	out := make([]*Term, c05K)
	for i := range out {
		d := t
		if i > 0 {
			d = mkIBin(OIDiv, t, mkInt(new(big.Int).Lsh(big.NewInt(1), uint(64*i))))
		}
		out[i] = mkInt2Bv(d, 64)
	}
	return out, false
}

// c05Operand: the limbs of a big operand of a bit operation, with the range decided for the path.
func c05Operand(b *BigInt) []*Term {
	if b.isConc() {
		lim := new(big.Int).Lsh(big.NewInt(1), 64*c05K-1)
		if b.c.Cmp(lim) >= 0 || b.c.Cmp(new(big.Int).Neg(lim)) < 0 {
			unsupported("C05 bit model: concrete operand beyond 256 bits next to a symbolic one")
		}
		return c05ConstLimbs(b.c)
	}
	limbs, exact := c05Image(b.t)
	if !exact {
		if iv := ivOf(b.t); iv != nil && iv.lo != nil && iv.hi != nil && iv.lo.BitLen() < 64*c05K-1 && iv.hi.BitLen() < 64*c05K-1 {
			return limbs // the interval analysis already bounds the term (e.g. a converted fixnum)
		}
		lim := new(big.Int).Lsh(big.NewInt(1), 64*c05K-1)
		rng := mkAnd(mkICmp(OILe, mkInt(new(big.Int).Neg(lim)), b.t), mkICmp(OILt, b.t, mkInt(lim)))
		if !inBranch(rng) {
			unsupported("C05 bit model: symbolic operand beyond 256 bits")
		}
	}
	return limbs
}

func inBranch(c *Term) bool { return in.ex.branch(in.path, c) }

func c05FromLimbs(l []*Term) *BigInt {
	allConst := true
	for _, x := range l {
		if x.op != OConst {
			allConst = false
		}
	}
	if allConst {
		z := new(big.Int)
		for i := c05K - 1; i >= 0; i-- {
			z.Lsh(z, 64)
			if i == c05K-1 {
				z.SetInt64(int64(l[i].u))
			} else {
				z.Add(z, new(big.Int).SetUint64(l[i].u))
			}
		}
		return &BigInt{c: z}
	}
	var sum *Term
	for i := 0; i < c05K; i++ {
		var n *Term
		if i == c05K-1 {
			n = mkBv2Int(l[i])
		} else {
			n = mkBv2Nat(l[i])
		}
		if i > 0 {
			n = mkIBin(OIMul, n, mkInt(new(big.Int).Lsh(big.NewInt(1), uint(64*i))))
		}
		if sum == nil {
			sum = n
		} else {
			sum = mkIBin(OIAdd, sum, n)
		}
	}
	if sum.op != OConst {
		c05LimbTab[sum.id] = l
	}
	return mkBigInt(sum)
}

func c05BV64(v Val) *Term {
	switch x := v.(type) {
	case int64:
		return mkBV(uint64(x), 64)
	case *Term:
		if x.sort.K == KInt {
			return mkInt2Bv(x, 64)
		}
		if x.sort.W == 64 {
			return x
		}
	}
	unsupported("C05: limb argument is not a 64-bit integer")
	return nil
}

func init() {
	bitop := func(kind string) intrinsic {
		return func(fr *frame, fn *ssa.Function, args []Val) Val {
			x := bigOf(fr, args[1])
			bigOf(fr, args[0])
			var y *BigInt
			if kind != "Not" {
				y = bigOf(fr, args[2])
			}
			if x.isConc() && (y == nil || y.isConc()) {
				r := new(big.Int)
				switch kind {
				case "And":
					r.And(x.c, y.c)
				case "Or":
					r.Or(x.c, y.c)
				case "Xor":
					r.Xor(x.c, y.c)
				case "AndNot":
					r.AndNot(x.c, y.c)
				case "Not":
					r.Not(x.c)
				}
				return setBig(args[0], &BigInt{c: r})
			}
			a := c05Operand(x)
			out := make([]*Term, c05K)
			if kind == "Not" {
				out = c05NotLimbs(a)
			} else {
				b := c05Operand(y)
				for i := range out {
					switch kind {
					case "And":
						out[i] = mkBin(OBAnd, a[i], b[i])
					case "Or":
						out[i] = mkBin(OBOr, a[i], b[i])
					case "Xor":
						out[i] = mkBin(OBXor, a[i], b[i])
					case "AndNot":
						out[i] = mkBin(OBAnd, a[i], mkBin(OBXor, b[i], mkBV(^uint64(0), 64)))
					}
				}
			}
			return setBig(args[0], c05FromLimbs(out))
		}
	}
	for _, k := range []string{"And", "Or", "Xor", "AndNot", "Not"} {
		reg("(*math/big.Int)."+k, bitop(k))
	}
	reg("github.com/ohler55/slip/pkg/cl.zzC05Big3", func(fr *frame, fn *ssa.Function, args []Val) Val {
		hi, l1, l0 := c05BV64(args[0]), c05BV64(args[1]), c05BV64(args[2])
		sign := mkBin(OAShr, hi, mkBV(63, 64))
		c := new(Val)
		*c = c05FromLimbs([]*Term{l0, l1, hi, sign})
		return c
	})
	reg("github.com/ohler55/slip/pkg/cl.zzC05Limb", func(fr *frame, fn *ssa.Function, args []Val) Val {
		x := bigOf(fr, args[0])
		i, ok := args[1].(int64)
		if !ok || i < 0 {
			unsupported("zzC05Limb with a symbolic index")
		}
		var l []*Term
		if x.isConc() {
			s := new(big.Int).Rsh(x.c, uint(64*i))
			return int64(new(big.Int).And(s, new(big.Int).SetUint64(^uint64(0))).Uint64())
		}
		l = c05Operand(x)
		if i >= c05K {
			return fromBV(mkBin(OAShr, l[c05K-1], mkBV(63, 64)), 64, false)
		}
		return fromBV(l[i], 64, false)
	})
}

// ---- math/big.Rat with a symbolic numerator -------------------------------------------------
//
// The stock engine runs big.Rat natively on concrete values only.  Here a Rat may have a symbolic
// numerator (SMT Int term) over a CONCRETE positive denominator, kept in lowest terms: when a value
// n/d is formed, the path forks over the divisors g of d (largest first) on "g divides n", so that
// on every path the gcd is a known constant and the stored fraction is (n div g)/(d/g).  All
// arithmetic then stays linear in the numerators except Mul of two symbolic numerators.  A
// symbolic denominator (Inv / Quo by a symbolic numerator, NewRat/SetFrac with a symbolic second
// argument) ends the path as unsupported: harnesses take denominators from case parameters.
// With concrete operands every method is delegated to the real math/big as before.

func c05RatOf(fr *frame, v Val) (*BigRat, *Val) {
	p, ok := v.(*Val)
	if !ok || p == nil {
		unsupported("C05 rat model: big.Rat operand is not a cell")
	}
	r, ok := (*p).(*BigRat)
	if !ok {
		unsupported("C05 rat model: cell does not hold a big.Rat")
	}
	return r, p
}

func c05RatConc(r *BigRat) bool { return r.num.isConc() && r.den.isConc() }

var c05DivisorMemo = map[string][]*big.Int{}

// divisors of d (> 1), largest first; nil, false if d cannot be factored cheaply
func c05Divisors(d *big.Int) ([]*big.Int, bool) {
	key := d.String()
	if ds, ok := c05DivisorMemo[key]; ok {
		return ds, ds != nil
	}
	type pf struct {
		p *big.Int
		e int
	}
	var fs []pf
	rest := new(big.Int).Set(d)
	for p := int64(2); p < 1<<20 && rest.Cmp(big.NewInt(1)) > 0; p++ {
		bp := big.NewInt(p)
		if new(big.Int).Mul(bp, bp).Cmp(rest) > 0 {
			break
		}
		e := 0
		for new(big.Int).Rem(rest, bp).Sign() == 0 {
			rest.Quo(rest, bp)
			e++
		}
		if e > 0 {
			fs = append(fs, pf{bp, e})
		}
	}
	if rest.Cmp(big.NewInt(1)) > 0 {
		if !rest.ProbablyPrime(20) {
			c05DivisorMemo[key] = nil
			return nil, false
		}
		fs = append(fs, pf{rest, 1})
	}
	ds := []*big.Int{big.NewInt(1)}
	for _, f := range fs {
		n := len(ds)
		pw := big.NewInt(1)
		for e := 1; e <= f.e; e++ {
			pw = new(big.Int).Mul(pw, f.p)
			for i := 0; i < n; i++ {
				ds = append(ds, new(big.Int).Mul(ds[i], pw))
			}
		}
	}
	if len(ds) > 200 {
		c05DivisorMemo[key] = nil
		return nil, false
	}
	// sort descending, drop 1
	for i := 1; i < len(ds); i++ {
		for j := i; j > 0 && ds[j].Cmp(ds[j-1]) > 0; j-- {
			ds[j], ds[j-1] = ds[j-1], ds[j]
		}
	}
	ds = ds[:len(ds)-1]
	c05DivisorMemo[key] = ds
	return ds, true
}

// c05RatNorm: the Rat n/d in lowest terms (d concrete, non-zero).
func c05RatNorm(n *Term, d *big.Int) *BigRat {
	d = new(big.Int).Set(d)
	if d.Sign() < 0 {
		d.Neg(d)
		n = mkINeg(n)
	}
	if n.op == OConst {
		r := new(big.Rat).SetFrac(n.z, d)
		return &BigRat{num: BigInt{c: new(big.Int).Set(r.Num())}, den: BigInt{c: new(big.Int).Set(r.Denom())}}
	}
	if d.Cmp(big.NewInt(1)) == 0 {
		return &BigRat{num: *mkBigInt(n), den: BigInt{c: d}}
	}
	ds, ok := c05Divisors(d)
	if !ok {
		unsupported("C05 rat model: denominator with too many / unknown divisors")
	}
	// the common case first: no prime factor of d divides n
	coprime := mkBool(true)
	for i := len(ds) - 1; i >= 0; i-- {
		g := ds[i]
		if g.ProbablyPrime(20) {
			coprime = mkAnd(coprime, mkNot(mkEq(mkIBin(OIMod, n, mkInt(g)), mkInt64(0))))
		}
	}
	if inBranch(coprime) {
		return &BigRat{num: *mkBigInt(n), den: BigInt{c: d}}
	}
	for _, g := range ds {
		if inBranch(mkEq(mkIBin(OIMod, n, mkInt(g)), mkInt64(0))) {
			q := mkIBin(OIDiv, n, mkInt(g))
			return &BigRat{num: *mkBigInt(q), den: BigInt{c: new(big.Int).Quo(d, g)}}
		}
	}
	return &BigRat{num: *mkBigInt(n), den: BigInt{c: d}}
}

func c05ConstMul(t *Term, c *big.Int) *Term {
	if c.Cmp(big.NewInt(1)) == 0 {
		return t
	}
	return mkIBin(OIMul, t, mkInt(c))
}

func c05SetRat(cell Val, r *BigRat) Val {
	c05EnsureNumDenom()
	p := cell.(*Val)
	setCell(p, r)
	return cell
}

func init() {
	regRat := func(name string, f intrinsic) { reg("(*math/big.Rat)."+name, f) }
	needConcDen := func(r *BigRat) {
		if !r.den.isConc() {
			unsupported("C05 rat model: symbolic denominator")
		}
	}
	binop := func(kind string) intrinsic {
		return func(fr *frame, fn *ssa.Function, args []Val) Val {
			c05RatOf(fr, args[0])
			x, _ := c05RatOf(fr, args[1])
			y, _ := c05RatOf(fr, args[2])
			if c05RatConc(x) && c05RatConc(y) {
				return bigMethodNative(fr, fn, args)
			}
			needConcDen(x)
			needConcDen(y)
			n1, n2 := x.num.term(), y.num.term()
			d1, d2 := x.den.c, y.den.c
			var r *BigRat
			switch kind {
			case "Add":
				r = c05RatNorm(mkIBin(OIAdd, c05ConstMul(n1, d2), c05ConstMul(n2, d1)), new(big.Int).Mul(d1, d2))
			case "Sub":
				r = c05RatNorm(mkIBin(OISub, c05ConstMul(n1, d2), c05ConstMul(n2, d1)), new(big.Int).Mul(d1, d2))
			case "Mul":
				r = c05RatNorm(smartMul(n1, n2), new(big.Int).Mul(d1, d2))
			case "Quo":
				if !y.num.isConc() {
					unsupported("C05 rat model: Quo by a symbolic numerator")
				}
				if y.num.c.Sign() == 0 {
					in.path.faults = append(in.path.faults, faultRec{kind: "native-panic", site: "math/big.(*Rat).Quo", msg: "division by zero"})
					panic(targetPanic{Iface{t: types.Typ[types.String], v: "division by zero", box: 1}})
				}
				r = c05RatNorm(c05ConstMul(n1, d2), new(big.Int).Mul(d1, y.num.c))
			}
			return c05SetRat(args[0], r)
		}
	}
	for _, k := range []string{"Add", "Sub", "Mul", "Quo"} {
		regRat(k, binop(k))
	}
	unop := func(kind string) intrinsic {
		return func(fr *frame, fn *ssa.Function, args []Val) Val {
			c05RatOf(fr, args[0])
			x, _ := c05RatOf(fr, args[1])
			if c05RatConc(x) {
				return bigMethodNative(fr, fn, args)
			}
			needConcDen(x)
			var r *BigRat
			switch kind {
			case "Neg":
				r = &BigRat{num: *mkBigInt(mkINeg(x.num.t)), den: x.den}
			case "Abs":
				r = &BigRat{num: *mkBigInt(mkIAbs(x.num.t)), den: x.den}
			case "Set":
				r = x
			case "Inv":
				unsupported("C05 rat model: Inv of a symbolic numerator")
			}
			return c05SetRat(args[0], r)
		}
	}
	for _, k := range []string{"Neg", "Abs", "Set", "Inv"} {
		regRat(k, unop(k))
	}
	regRat("SetInt", func(fr *frame, fn *ssa.Function, args []Val) Val {
		c05RatOf(fr, args[0])
		x := bigOf(fr, args[1])
		if x.isConc() {
			return bigMethodNative(fr, fn, args)
		}
		return c05SetRat(args[0], &BigRat{num: *x, den: BigInt{c: big.NewInt(1)}})
	})
	regRat("SetInt64", func(fr *frame, fn *ssa.Function, args []Val) Val {
		c05RatOf(fr, args[0])
		if _, ok := args[1].(int64); ok {
			return bigMethodNative(fr, fn, args)
		}
		return c05SetRat(args[0], &BigRat{num: *mkBigInt(intArg(args[1])), den: BigInt{c: big.NewInt(1)}})
	})
	regRat("SetFrac", func(fr *frame, fn *ssa.Function, args []Val) Val {
		c05RatOf(fr, args[0])
		a, b := bigOf(fr, args[1]), bigOf(fr, args[2])
		if a.isConc() && b.isConc() {
			return bigMethodNative(fr, fn, args)
		}
		if !b.isConc() {
			unsupported("C05 rat model: SetFrac with a symbolic denominator")
		}
		if b.c.Sign() == 0 {
			in.path.faults = append(in.path.faults, faultRec{kind: "native-panic", site: "math/big.(*Rat).SetFrac", msg: "division by zero"})
			panic(targetPanic{Iface{t: types.Typ[types.String], v: "division by zero", box: 1}})
		}
		return c05SetRat(args[0], c05RatNorm(a.term(), b.c))
	})
	stockNewRat := func(fr *frame, fn *ssa.Function, args []Val) Val {
		return callNative(fr, "math/big.NewRat", nativeFuncs["math/big.NewRat"], args, fn.Signature)
	}
	reg("math/big.NewRat", func(fr *frame, fn *ssa.Function, args []Val) Val {
		_, ca := args[0].(int64)
		b, cb := args[1].(int64)
		if ca && cb {
			return stockNewRat(fr, fn, args)
		}
		if !cb {
			unsupported("C05 rat model: NewRat with a symbolic denominator")
		}
		if b == 0 {
			in.path.faults = append(in.path.faults, faultRec{kind: "native-panic", site: "math/big.NewRat", msg: "division by zero"})
			panic(targetPanic{Iface{t: types.Typ[types.String], v: "division by zero", box: 1}})
		}
		c := new(Val)
		*c = c05RatNorm(intArg(args[0]), big.NewInt(b))
		c05EnsureNumDenom()
		return c
	})
	regRat("Sign", func(fr *frame, fn *ssa.Function, args []Val) Val {
		x, _ := c05RatOf(fr, args[0])
		if x.num.isConc() {
			return int64(x.num.c.Sign())
		}
		z := mkInt64(0)
		if inBranch(mkEq(x.num.t, z)) {
			return int64(0)
		}
		if inBranch(mkICmp(OILt, x.num.t, z)) {
			return int64(-1)
		}
		return int64(1)
	})
	regRat("Cmp", func(fr *frame, fn *ssa.Function, args []Val) Val {
		x, _ := c05RatOf(fr, args[0])
		y, _ := c05RatOf(fr, args[1])
		if c05RatConc(x) && c05RatConc(y) {
			return bigMethodNative(fr, fn, args)
		}
		needConcDen(x)
		needConcDen(y)
		a := c05ConstMul(x.num.term(), y.den.c)
		b := c05ConstMul(y.num.term(), x.den.c)
		if inBranch(mkEq(a, b)) {
			return int64(0)
		}
		if inBranch(mkICmp(OILt, a, b)) {
			return int64(-1)
		}
		return int64(1)
	})
	regRat("IsInt", func(fr *frame, fn *ssa.Function, args []Val) Val {
		x, _ := c05RatOf(fr, args[0])
		needConcDen(x)
		return x.den.c.Cmp(big.NewInt(1)) == 0
	})
}

// x_c10.go registers concrete-only Num/Denom after this file's init ran (file order), so the
// versions that also accept a symbolic numerator are installed when the first symbolic Rat is made
// (for concrete Rats they behave like x_c10's: a copy of the part).
var c05NumDenomDone bool

func c05EnsureNumDenom() {
	if c05NumDenomDone {
		return
	}
	c05NumDenomDone = true
	// Num / Denom: a copy (math/big hands out a reference into the Rat for Num; slip only reads it)
	reg("(*math/big.Rat).Num", func(fr *frame, fn *ssa.Function, args []Val) Val {
		x, _ := c05RatOf(fr, args[0])
		c := new(Val)
		n := x.num
		*c = &n
		return c
	})
	reg("(*math/big.Rat).Denom", func(fr *frame, fn *ssa.Function, args []Val) Val {
		x, _ := c05RatOf(fr, args[0])
		c := new(Val)
		d := x.den
		*c = &d
		return c
	})
}

// (*big.Float).Int with a nil destination: the generic native fallback returned a wrong
// result for (z=nil) — Bignum.Equal / DoubleFloat.Equal use f.Int(nil); modelled directly
// on the concrete float.
func init() {
	reg("(*math/big.Float).Int", func(fr *frame, fn *ssa.Function, args []Val) Val {
		p, ok := args[0].(*Val)
		if !ok || p == nil {
			return bigMethodNative(fr, fn, args)
		}
		bf, ok := (*p).(*BigFloat)
		if !ok {
			return bigMethodNative(fr, fn, args)
		}
		z, acc := bf.f.Int(nil)
		if !isNilVal(args[1]) {
			bigOf(fr, args[1])
			setBig(args[1], &BigInt{c: z})
			return Tuple{args[1], int64(acc)}
		}
		return Tuple{newBigCell(z), int64(acc)}
	})
}
