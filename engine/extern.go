package main

// Calls that leave the interpreted world: intrinsic models, native delegation
// through reflect (concrete arguments only), and the harness API (zzvrt).

import (
	"errors"
	"fmt"
	"go/token"
	"go/types"
	"reflect"
	"sort"
	"strings"

	"golang.org/x/tools/go/ssa"
)

type intrinsic func(fr *frame, fn *ssa.Function, args []Val) Val

var intrinsics = map[string]intrinsic{}

// nativeFuncs / nativeVars are filled by the generated file native_gen.go.
var nativeFuncs = map[string]reflect.Value{}
var nativeVars = map[string]reflect.Value{}

var missingNative = map[string]int{}

func externalCall(caller *frame, pos token.Pos, fn *ssa.Function, args []Val) (Val, bool) {
	name := fn.String()
	if strings.HasPrefix(name, "slices.overlaps[") {
		// pointer arithmetic on the backing arrays: decide by cell identity
		a, _ := args[0].([]Val)
		b, _ := args[1].([]Val)
		if len(a) == 0 || len(b) == 0 {
			return false, true
		}
		for i := range a {
			for j := range b {
				if &a[i] == &b[j] {
					return true, true
				}
			}
		}
		return false, true
	}
	if len(overrides) > 0 {
		if to, ok := overrides[name]; ok {
			return callSSA(caller, pos, to, args, nil), true
		}
	}
	if f, ok := intrinsics[name]; ok {
		return f(caller, fn, args), true
	}
	if fn.Pkg == nil {
		// synthetic wrapper / bound method / instantiated generic: interpret,
		// unless it wraps a method of a native receiver
		if len(args) > 0 {
			if nat, ok := args[0].(Native); ok && fn.Object() != nil {
				return callNativeMethod(caller, nativeMethod{nat, fn.Object().Name()}, args[1:]), true
			}
		}
		if fn.Blocks != nil {
			if org := fn.Origin(); org != nil && org.Pkg != nil && !in.pkgInterpreted(org.Pkg.Pkg.Path()) {
				unsupported("generic function of a package that is not interpreted: " + name)
			}
			return nil, false
		}
		unsupported("no code for synthetic function " + name)
	}
	path := fn.Pkg.Pkg.Path()
	if fn.Synthetic == "package initializer" || (fn.Name() == "init" && fn.Signature.Recv() == nil && fn.Signature.Params().Len() == 0 && fn.Parent() == nil && fn.Synthetic != "") {
		if !in.pkgInterpreted(path) {
			return nil, true
		}
		return nil, false
	}
	if strings.HasSuffix(path, "/zzvrt") {
		return vrtCall(caller, fn, args), true
	}
	if in.pkgInterpreted(path) {
		if fn.Blocks == nil {
			unsupported("no Go body for " + name + " (assembly or linkname)")
		}
		return nil, false
	}
	if isBigPkgFunc(fn) {
		return bigMethodNative(caller, fn, args), true
	}
	// native receiver?
	if fn.Signature.Recv() != nil && len(args) > 0 {
		if nat, ok := args[0].(Native); ok {
			return callNativeMethod(caller, nativeMethod{nat, fn.Name()}, args[1:]), true
		}
	}
	if nf, ok := nativeFuncs[name]; ok {
		return callNative(caller, name, nf, args, fn.Signature), true
	}
	missingNative[name]++
	unsupported("external function " + name)
	return nil, true
}

// ---- marshalling ----

type notMarshallable struct{ why string }

func toNative(fr *frame, v Val, rt reflect.Type) reflect.Value {
	if p, ok := v.(Poison); ok {
		unsupported("poison: " + p.why)
	}
	if n, ok := v.(Native); ok {
		if !n.rv.IsValid() {
			return reflect.Zero(rt)
		}
		if n.rv.Type().AssignableTo(rt) {
			return n.rv
		}
		if n.rv.Type().ConvertibleTo(rt) {
			return n.rv.Convert(rt)
		}
		panic(notMarshallable{fmt.Sprintf("native %s to %s", n.rv.Type(), rt)})
	}
	switch rt.Kind() {
	case reflect.Bool:
		if b, ok := v.(bool); ok {
			return reflect.ValueOf(b).Convert(rt)
		}
	case reflect.Int, reflect.Int8, reflect.Int16, reflect.Int32, reflect.Int64:
		if i, ok := v.(int64); ok {
			r := reflect.New(rt).Elem()
			r.SetInt(i)
			return r
		}
	case reflect.Uint, reflect.Uint8, reflect.Uint16, reflect.Uint32, reflect.Uint64, reflect.Uintptr:
		if i, ok := v.(int64); ok {
			r := reflect.New(rt).Elem()
			r.SetUint(uint64(i))
			return r
		}
	case reflect.Float32, reflect.Float64:
		if f, ok := v.(float64); ok {
			r := reflect.New(rt).Elem()
			r.SetFloat(f)
			return r
		}
	case reflect.Complex64, reflect.Complex128:
		if c, ok := v.(complex128); ok {
			r := reflect.New(rt).Elem()
			r.SetComplex(c)
			return r
		}
	case reflect.String:
		if s, ok := v.(string); ok {
			r := reflect.New(rt).Elem()
			r.SetString(s)
			return r
		}
	case reflect.Slice:
		if s, ok := v.([]Val); ok {
			if s == nil {
				return reflect.Zero(rt)
			}
			r := reflect.MakeSlice(rt, len(s), len(s))
			for i, e := range s {
				r.Index(i).Set(toNative(fr, e, rt.Elem()))
			}
			return r
		}
	case reflect.Array:
		if s, ok := v.(Array); ok {
			r := reflect.New(rt).Elem()
			for i, e := range s {
				r.Index(i).Set(toNative(fr, e, rt.Elem()))
			}
			return r
		}
	case reflect.Ptr, reflect.Map, reflect.Chan, reflect.Func:
		if isNilVal(v) {
			return reflect.Zero(rt)
		}
		if p, ok := v.(*Val); ok && (rt == bigIntRT || rt == bigRatRT || rt == bigFloatRT) {
			// the same cell passed twice (z.Lsh(z, n), z.Add(z, y)): hand the callee the same native
			// object, as Go does; two copies would make the write-back of the unchanged copy
			// overwrite the result
			for _, a := range bigArgs[bigCurStart:] {
				if a.cell == p && a.nat.Type() == rt {
					return a.nat
				}
			}
			if nat, ok := bigToNative(p, rt); ok {
				bigArgs = append(bigArgs, bigArg{p, nat})
				return nat
			}
			panic(notMarshallable{"symbolic math/big value"})
		}
	case reflect.Interface:
		if i, ok := v.(Iface); ok {
			if i.t == nil {
				return reflect.Zero(rt)
			}
			return ifaceToNative(fr, i, rt)
		}
	}
	panic(notMarshallable{fmt.Sprintf("%T to %s", v, rt)})
}

var errorRT = reflect.TypeOf((*error)(nil)).Elem()

func ifaceToNative(fr *frame, i Iface, rt reflect.Type) reflect.Value {
	if n, ok := i.v.(Native); ok {
		return toNative(fr, n, rt)
	}
	// value with Error()/String(): render through the interpreter
	for _, mname := range []string{"Error", "String"} {
		if mname == "String" && rt == errorRT {
			continue
		}
		if m := findMethod(i.t, mname); m != nil && m.Signature.Params().Len() == 0 && m.Signature.Results().Len() == 1 && isString(m.Signature.Results().At(0).Type()) {
			s := call(fr, token.NoPos, m, []Val{i.v})
			str, ok := s.(string)
			if !ok {
				panic(notMarshallable{"symbolic text from " + mname + "()"})
			}
			if rt == errorRT || mname == "Error" {
				e := errors.New(str)
				if reflect.TypeOf(e).AssignableTo(rt) {
					return reflect.ValueOf(e)
				}
			}
			return reflect.ValueOf(str)
		}
	}
	if rt.NumMethod() != 0 {
		panic(notMarshallable{fmt.Sprintf("interpreted %s to %s", i.t, rt)})
	}
	switch u := i.t.Underlying().(type) {
	case *types.Basic:
		var brt reflect.Type
		switch u.Kind() {
		case types.Bool:
			brt = reflect.TypeOf(false)
		case types.Int:
			brt = reflect.TypeOf(int(0))
		case types.Int8:
			brt = reflect.TypeOf(int8(0))
		case types.Int16:
			brt = reflect.TypeOf(int16(0))
		case types.Int32:
			brt = reflect.TypeOf(int32(0))
		case types.Int64:
			brt = reflect.TypeOf(int64(0))
		case types.Uint:
			brt = reflect.TypeOf(uint(0))
		case types.Uint8:
			brt = reflect.TypeOf(uint8(0))
		case types.Uint16:
			brt = reflect.TypeOf(uint16(0))
		case types.Uint32:
			brt = reflect.TypeOf(uint32(0))
		case types.Uint64:
			brt = reflect.TypeOf(uint64(0))
		case types.Uintptr:
			brt = reflect.TypeOf(uintptr(0))
		case types.Float32:
			brt = reflect.TypeOf(float32(0))
		case types.Float64:
			brt = reflect.TypeOf(float64(0))
		case types.String:
			brt = reflect.TypeOf("")
		case types.Complex128:
			brt = reflect.TypeOf(complex128(0))
		}
		if brt != nil {
			return toNative(fr, i.v, brt)
		}
	case *types.Slice:
		if eb, ok := u.Elem().Underlying().(*types.Basic); ok && eb.Kind() == types.Uint8 {
			return toNative(fr, i.v, reflect.TypeOf([]byte(nil)))
		}
		if s, ok := i.v.([]Val); ok {
			out := make([]any, len(s))
			for k, e := range s {
				if ei, ok := e.(Iface); ok {
					if ei.t == nil {
						out[k] = nil
					} else {
						out[k] = ifaceToNative(fr, ei, reflect.TypeOf((*any)(nil)).Elem()).Interface()
					}
				} else {
					out[k] = fmt.Sprintf("‹%T›", e)
				}
			}
			return reflect.ValueOf(out)
		}
	}
	return reflect.ValueOf(opaqueText("‹" + i.t.String() + "›"))
}

type opaqueText string

func findMethod(t types.Type, name string) *ssa.Function {
	ms := in.prog.MethodSets.MethodSet(t)
	for i := 0; i < ms.Len(); i++ {
		sel := ms.At(i)
		if sel.Obj().Name() == name {
			return in.prog.MethodValue(sel)
		}
	}
	return nil
}

func lookupType(rt reflect.Type) types.Type {
	if rt.PkgPath() == "" {
		switch rt.Kind() {
		case reflect.Bool:
			return types.Typ[types.Bool]
		case reflect.Int:
			return types.Typ[types.Int]
		case reflect.Int8:
			return types.Typ[types.Int8]
		case reflect.Int16:
			return types.Typ[types.Int16]
		case reflect.Int32:
			return types.Typ[types.Int32]
		case reflect.Int64:
			return types.Typ[types.Int64]
		case reflect.Uint:
			return types.Typ[types.Uint]
		case reflect.Uint8:
			return types.Typ[types.Uint8]
		case reflect.Uint16:
			return types.Typ[types.Uint16]
		case reflect.Uint32:
			return types.Typ[types.Uint32]
		case reflect.Uint64:
			return types.Typ[types.Uint64]
		case reflect.Uintptr:
			return types.Typ[types.Uintptr]
		case reflect.Float32:
			return types.Typ[types.Float32]
		case reflect.Float64:
			return types.Typ[types.Float64]
		case reflect.Complex128:
			return types.Typ[types.Complex128]
		case reflect.String:
			return types.Typ[types.String]
		case reflect.Ptr:
			if e := lookupType(rt.Elem()); e != nil {
				return types.NewPointer(e)
			}
		case reflect.Slice:
			if e := lookupType(rt.Elem()); e != nil {
				return types.NewSlice(e)
			}
		case reflect.Interface:
			if rt.NumMethod() == 0 {
				return types.NewInterfaceType(nil, nil)
			}
		case reflect.Map:
			k, e := lookupType(rt.Key()), lookupType(rt.Elem())
			if k != nil && e != nil {
				return types.NewMap(k, e)
			}
		}
		if rt == errorRT {
			return types.Universe.Lookup("error").Type()
		}
		return nil
	}
	if p := in.prog.ImportedPackage(rt.PkgPath()); p != nil {
		if o := p.Pkg.Scope().Lookup(rt.Name()); o != nil {
			return o.Type()
		}
	}
	return nil
}

// fromNative converts a native result into an interpreter value; t is the
// static go/types type expected (may be nil).
func fromNative(rv reflect.Value, t types.Type) Val {
	if !rv.IsValid() {
		if t != nil {
			return zero(t)
		}
		return nil
	}
	switch rv.Kind() {
	case reflect.Bool:
		return rv.Bool()
	case reflect.Int, reflect.Int8, reflect.Int16, reflect.Int32, reflect.Int64:
		return rv.Int()
	case reflect.Uint, reflect.Uint8, reflect.Uint16, reflect.Uint32, reflect.Uint64, reflect.Uintptr:
		return int64(rv.Uint())
	case reflect.Float32, reflect.Float64:
		return rv.Float()
	case reflect.Complex64, reflect.Complex128:
		return rv.Complex()
	case reflect.String:
		return rv.String()
	case reflect.Slice:
		if rv.IsNil() {
			return []Val(nil)
		}
		var et types.Type
		if t != nil {
			if st, ok := t.Underlying().(*types.Slice); ok {
				et = st.Elem()
			}
		}
		s := make([]Val, rv.Len(), rv.Cap())
		for i := 0; i < rv.Len(); i++ {
			s[i] = fromNative(rv.Index(i), et)
		}
		return s
	case reflect.Array:
		var et types.Type
		if t != nil {
			if at, ok := t.Underlying().(*types.Array); ok {
				et = at.Elem()
			}
		}
		a := make(Array, rv.Len())
		for i := range a {
			a[i] = fromNative(rv.Index(i), et)
		}
		return a
	case reflect.Interface:
		if rv.IsNil() {
			return Iface{}
		}
		e := rv.Elem()
		if ot, ok := e.Interface().(opaqueText); ok {
			return Iface{t: types.Typ[types.String], v: string(ot)}
		}
		dt := lookupType(e.Type())
		if dt == nil {
			if err, ok := e.Interface().(error); ok {
				return interpError(err.Error())
			}
			unsupported("native value of unknown type " + e.Type().String())
		}
		if err, ok := e.Interface().(error); ok {
			if g, ok := sentinelErr[err]; ok {
				return load(in.globalAddr(g))
			}
		}
		return Iface{t: dt, v: fromNative(e, dt)}
	case reflect.Ptr:
		if rv.IsNil() {
			return (*Val)(nil)
		}
		for _, a := range bigArgs {
			if a.nat.Type() == rv.Type() && a.nat.Pointer() == rv.Pointer() {
				return a.cell
			}
		}
		if c, ok := bigFromNative(rv); ok {
			return c
		}
		return Native{rv}
	case reflect.Map, reflect.Chan, reflect.Func:
		if rv.IsNil() {
			if t != nil {
				return zero(t)
			}
		}
		return Native{rv}
	case reflect.Struct:
		return Native{rv}
	}
	return Native{rv}
}

var sentinelErr = map[error]*ssa.Global{}

// interpError builds an interpreted *errors.errorString.
func interpError(msg string) Val {
	p := in.prog.ImportedPackage("errors")
	if p == nil {
		unsupported("package errors not loaded")
	}
	t := p.Pkg.Scope().Lookup("errorString").Type()
	cell := new(Val)
	*cell = Struct{msg}
	return Iface{t: types.NewPointer(t), v: cell}
}

func callNative(fr *frame, name string, nf reflect.Value, args []Val, sig *types.Signature) (res Val) {
	ft := nf.Type()
	bigStart := len(bigArgs)
	savedBigCur := bigCurStart
	bigCurStart = bigStart
	defer func() { bigCurStart = savedBigCur }()
	if pendingBigRecv != nil {
		bigArgs = append(bigArgs, *pendingBigRecv)
		pendingBigRecv = nil
	}
	defer func() { bigArgs = bigArgs[:bigStart] }()
	defer func() {
		if r := recover(); r != nil {
			if nm, ok := r.(notMarshallable); ok {
				unsupported("native call " + name + ": cannot marshal " + nm.why)
			}
			panic(r)
		}
	}()
	in_ := make([]reflect.Value, 0, len(args))
	for i, a := range args {
		var pt reflect.Type
		if ft.IsVariadic() && i >= ft.NumIn()-1 {
			pt = ft.In(ft.NumIn() - 1)
			if i == ft.NumIn()-1 {
				// SSA passes the variadic slice as one argument
				in_ = append(in_, toNative(fr, a, pt))
				continue
			}
		} else {
			pt = ft.In(i)
		}
		in_ = append(in_, toNative(fr, a, pt))
	}
	var out []reflect.Value
	func() {
		defer func() {
			if r := recover(); r != nil {
				if _, ok := r.(pathEnd); ok {
					panic(r)
				}
				// the native function panicked: reproduce as a target panic with an error string
				fr.fault(nil, "native-panic", fmt.Sprintf("%v", r))
			}
		}()
		if ft.IsVariadic() {
			out = nf.CallSlice(in_)
		} else {
			out = nf.Call(in_)
		}
	}()
	// write back []byte arguments (native callee may have filled them)
	for i, a := range args {
		if s, ok := a.([]Val); ok && i < len(in_) && in_[i].Kind() == reflect.Slice && in_[i].Type().Elem().Kind() == reflect.Uint8 {
			for k := 0; k < len(s) && k < in_[i].Len(); k++ {
				nv := int64(in_[i].Index(k).Uint())
				if s[k] != Val(nv) {
					setCell(&s[k], nv)
				}
			}
		}
	}
	rs := sig.Results()
	// results first (identity with big pointer arguments), then write-back
	defer func() {
		for _, a := range bigArgs[bigStart:] {
			if v, ok := bigFromNative(a.nat); ok {
				nv := *(v.(*Val))
				if !bigSame(*a.cell, nv) {
					setCell(a.cell, nv)
				}
			}
		}
	}()
	switch len(out) {
	case 0:
		return nil
	case 1:
		return fromNative(out[0], rs.At(0).Type())
	}
	t := make(Tuple, len(out))
	for i := range out {
		t[i] = fromNative(out[i], rs.At(i).Type())
	}
	return t
}

func callNativeMethod(fr *frame, nm nativeMethod, args []Val) Val {
	rv := nm.recv.rv
	m := rv.MethodByName(nm.name)
	if !m.IsValid() && rv.CanAddr() {
		m = rv.Addr().MethodByName(nm.name)
	}
	if !m.IsValid() && rv.Kind() != reflect.Ptr {
		// addressable copy for pointer-receiver methods
		c := reflect.New(rv.Type())
		c.Elem().Set(rv)
		m = c.MethodByName(nm.name)
	}
	if !m.IsValid() {
		unsupported(fmt.Sprintf("native method %s.%s not found", rv.Type(), nm.name))
	}
	// result static types: look up through go/types if we can
	var sig *types.Signature
	if t := lookupType(rv.Type()); t != nil {
		if f := findMethod(t, nm.name); f != nil {
			sig = f.Signature
		} else if f := findMethod(types.NewPointer(t), nm.name); f != nil {
			sig = f.Signature
		}
	}
	if sig == nil {
		sig = types.NewSignatureType(nil, nil, nil, nil, types.NewTuple(make([]*types.Var, 0)...), false)
		// build a result tuple of nils
		vars := make([]*types.Var, m.Type().NumOut())
		for i := range vars {
			var tt types.Type = lookupType(m.Type().Out(i))
			if tt == nil {
				tt = types.NewInterfaceType(nil, nil)
			}
			vars[i] = types.NewVar(token.NoPos, nil, "", tt)
		}
		sig = types.NewSignatureType(nil, nil, nil, nil, types.NewTuple(vars...), false)
	}
	return callNative(fr, rv.Type().String()+"."+nm.name, m, args, sig)
}

// ---- registration helpers ----

func reg(name string, f intrinsic) { intrinsics[name] = f }

func init() {
	nop := func(fr *frame, fn *ssa.Function, args []Val) Val { return zeroResults(fn) }
	ident := func(fr *frame, fn *ssa.Function, args []Val) Val { return args[0] }
	// --- runtime / abi ---
	reg("internal/abi.NoEscape", ident)
	reg("(runtime.errorString).Error", func(fr *frame, fn *ssa.Function, args []Val) Val {
		return strBinop(token.ADD, "runtime error: ", args[0])
	})
	reg("(runtime.errorString).RuntimeError", nop)
	reg("internal/abi.Escape", nop)
	reg("runtime.GC", nop)
	reg("runtime.Gosched", nop)
	reg("runtime.KeepAlive", nop)
	reg("runtime.SetFinalizer", nop)
	reg("runtime.NumCPU", func(fr *frame, fn *ssa.Function, args []Val) Val { return int64(16) })
	reg("runtime.GOMAXPROCS", func(fr *frame, fn *ssa.Function, args []Val) Val { return int64(16) })
	reg("runtime.NumGoroutine", func(fr *frame, fn *ssa.Function, args []Val) Val { return int64(1) })
	reg("runtime.Caller", func(fr *frame, fn *ssa.Function, args []Val) Val {
		return Tuple{int64(0), "verif.go", int64(1), true}
	})
	reg("runtime.Callers", func(fr *frame, fn *ssa.Function, args []Val) Val { return int64(0) })
	reg("runtime.Stack", func(fr *frame, fn *ssa.Function, args []Val) Val { return int64(0) })
	reg("runtime/debug.Stack", func(fr *frame, fn *ssa.Function, args []Val) Val { return []Val{} })
	reg("runtime/debug.PrintStack", nop)
	reg("os.Exit", func(fr *frame, fn *ssa.Function, args []Val) Val { panic(pathEnd{"exit", "os.Exit"}) })
	reg("time.Sleep", nop)
	reg("os/signal.Notify", nop)
	// --- sync ---
	reg("(*sync.Mutex).Lock", func(fr *frame, fn *ssa.Function, args []Val) Val { mutexLock(fr, args[0], true); return nil })
	reg("(*sync.Mutex).Unlock", func(fr *frame, fn *ssa.Function, args []Val) Val { mutexUnlock(fr, args[0], true); return nil })
	reg("(*sync.Mutex).TryLock", func(fr *frame, fn *ssa.Function, args []Val) Val { return mutexTry(fr, args[0]) })
	reg("(*sync.RWMutex).Lock", func(fr *frame, fn *ssa.Function, args []Val) Val { mutexLock(fr, args[0], true); return nil })
	reg("(*sync.RWMutex).Unlock", func(fr *frame, fn *ssa.Function, args []Val) Val { mutexUnlock(fr, args[0], true); return nil })
	reg("(*sync.RWMutex).RLock", func(fr *frame, fn *ssa.Function, args []Val) Val { mutexLock(fr, args[0], false); return nil })
	reg("(*sync.RWMutex).RUnlock", func(fr *frame, fn *ssa.Function, args []Val) Val { mutexUnlock(fr, args[0], false); return nil })
	reg("(*sync.RWMutex).TryLock", func(fr *frame, fn *ssa.Function, args []Val) Val { return mutexTry(fr, args[0]) })
	reg("(*sync.Once).Do", func(fr *frame, fn *ssa.Function, args []Val) Val {
		p := args[0].(*Val)
		if onceDone[p] {
			return nil
		}
		logUndo(func() { delete(onceDone, p) })
		onceDone[p] = true
		call(fr, token.NoPos, args[1], nil)
		return nil
	})
	reg("(*sync.WaitGroup).Add", nop)
	reg("(*sync.WaitGroup).Done", nop)
	reg("(*sync.WaitGroup).Wait", nop)
	reg("(*sync.Pool).Get", func(fr *frame, fn *ssa.Function, args []Val) Val {
		p := args[0].(*Val)
		s := (*p).(Struct)
		// field New is the last one
		newf := s[len(s)-1]
		if !isNilVal(newf) {
			return call(fr, token.NoPos, newf, nil)
		}
		return Iface{}
	})
	reg("(*sync.Pool).Put", nop)
	// atomics (single-threaded: plain operations)
	for _, w := range []string{"Int32", "Int64", "Uint32", "Uint64"} {
		w := w
		reg("sync/atomic.Add"+w, func(fr *frame, fn *ssa.Function, args []Val) Val {
			p := args[0].(*Val)
			t := fn.Signature.Results().At(0).Type()
			n := binop(fr, nil, token.ADD, t, load(p), args[1])
			store(p, n)
			return n
		})
		reg("sync/atomic.Load"+w, func(fr *frame, fn *ssa.Function, args []Val) Val { return load(args[0].(*Val)) })
		reg("sync/atomic.Store"+w, func(fr *frame, fn *ssa.Function, args []Val) Val { store(args[0].(*Val), args[1]); return nil })
		reg("sync/atomic.CompareAndSwap"+w, func(fr *frame, fn *ssa.Function, args []Val) Val {
			p := args[0].(*Val)
			if load(p) == args[1] {
				store(p, args[2])
				return true
			}
			return false
		})
		for _, m := range []string{"Load", "Store", "Add", "CompareAndSwap", "Swap"} {
			m := m
			reg("(*sync/atomic."+w+")."+m, func(fr *frame, fn *ssa.Function, args []Val) Val {
				p := args[0].(*Val)
				s := (*p).(Struct)
				cell := &s[len(s)-1]
				switch m {
				case "Load":
					return load(cell)
				case "Store":
					store(cell, args[1])
					return nil
				case "Add":
					t := fn.Signature.Results().At(0).Type()
					n := binop(fr, nil, token.ADD, t, load(cell), args[1])
					store(cell, n)
					return n
				case "Swap":
					old := load(cell)
					store(cell, args[1])
					return old
				default:
					if load(cell) == args[1] {
						store(cell, args[2])
						return true
					}
					return false
				}
			})
		}
	}
	reg("(*sync/atomic.Bool).Load", func(fr *frame, fn *ssa.Function, args []Val) Val {
		s := (*args[0].(*Val)).(Struct)
		return load(&s[len(s)-1]) != Val(int64(0))
	})
	reg("(*sync/atomic.Bool).Store", func(fr *frame, fn *ssa.Function, args []Val) Val {
		s := (*args[0].(*Val)).(Struct)
		v := int64(0)
		if args[1].(bool) {
			v = 1
		}
		store(&s[len(s)-1], v)
		return nil
	})
	// --- sort with reflection ---
	sortSlice := func(fr *frame, fn *ssa.Function, args []Val) Val {
		x := args[0].(Iface)
		s, ok := x.v.([]Val)
		if !ok {
			unsupported("sort.Slice on non-slice")
		}
		less := args[1]
		// insertion sort (stable); same result as sort.SliceStable, and as
		// sort.Slice whenever the order is total
		for i := 1; i < len(s); i++ {
			for j := i; j > 0; j-- {
				r := call(fr, token.NoPos, less, []Val{int64(j), int64(j - 1)})
				var lt bool
				switch r := r.(type) {
				case bool:
					lt = r
				case *Term:
					lt = in.ex.branch(in.path, r)
				}
				if !lt {
					break
				}
				a, b := copyVal(s[j]), copyVal(s[j-1])
				setCell(&s[j], b)
				setCell(&s[j-1], a)
			}
		}
		return nil
	}
	reg("sort.Slice", sortSlice)
	reg("sort.SliceStable", sortSlice)
	// --- bytealg (assembly on amd64) ---
	reg("internal/bytealg.IndexByte", func(fr *frame, fn *ssa.Function, args []Val) Val {
		return indexByte(args[0].([]Val), args[1])
	})
	reg("internal/bytealg.IndexByteString", func(fr *frame, fn *ssa.Function, args []Val) Val {
		return indexByte(strBytes(args[0]), args[1])
	})
	reg("internal/bytealg.LastIndexByte", func(fr *frame, fn *ssa.Function, args []Val) Val {
		return lastIndexByte(args[0].([]Val), args[1])
	})
	reg("internal/bytealg.LastIndexByteString", func(fr *frame, fn *ssa.Function, args []Val) Val {
		return lastIndexByte(strBytes(args[0]), args[1])
	})
	reg("internal/bytealg.Count", func(fr *frame, fn *ssa.Function, args []Val) Val {
		return countByte(args[0].([]Val), args[1])
	})
	reg("internal/bytealg.CountString", func(fr *frame, fn *ssa.Function, args []Val) Val {
		return countByte(strBytes(args[0]), args[1])
	})
	reg("internal/bytealg.Equal", func(fr *frame, fn *ssa.Function, args []Val) Val {
		return fromBoolTerm(strEqTerm(SymStr{args[0].([]Val)}, SymStr{args[1].([]Val)}))
	})
	reg("internal/bytealg.Compare", func(fr *frame, fn *ssa.Function, args []Val) Val {
		a, b := SymStr{args[0].([]Val)}, SymStr{args[1].([]Val)}
		return compare3(a, b)
	})
	reg("internal/bytealg.CompareString", func(fr *frame, fn *ssa.Function, args []Val) Val {
		return compare3(args[0], args[1])
	})
	reg("internal/bytealg.Index", func(fr *frame, fn *ssa.Function, args []Val) Val {
		return indexSub(strBytes2(args[0]), strBytes2(args[1]))
	})
	reg("internal/bytealg.IndexString", func(fr *frame, fn *ssa.Function, args []Val) Val {
		return indexSub(strBytes2(args[0]), strBytes2(args[1]))
	})
	reg("internal/bytealg.MakeNoZero", func(fr *frame, fn *ssa.Function, args []Val) Val {
		n, isC := args[0].(int64)
		if !isC {
			t := toBV(args[0], 64)
			if in.ex.branch(in.path, mkCmp(OSlt, t, mkBV(0, 64))) {
				fr.fault(nil, "makeslice", "makeslice: len out of range")
			}
			if in.ex.branch(in.path, mkCmp(OSlt, mkBV(64, 64), t)) {
				panic(pathEnd{"bound", "symbolic allocation size above the engine bound of 64"})
			}
			n = concretize(t, 64, 0, 64)
		}
		s := make([]Val, n)
		for i := range s {
			s[i] = int64(0)
		}
		return s
	})
	reg("strings.Index", func(fr *frame, fn *ssa.Function, args []Val) Val {
		return indexSub(strBytes2(args[0]), strBytes2(args[1]))
	})
	reg("bytes.Index", func(fr *frame, fn *ssa.Function, args []Val) Val {
		return indexSub(strBytes2(args[0]), strBytes2(args[1]))
	})
	reg("errors.Is", func(fr *frame, fn *ssa.Function, args []Val) Val { return errorsIs(fr, args[0].(Iface), args[1].(Iface)) })
	reg("errors.As", func(fr *frame, fn *ssa.Function, args []Val) Val { return errorsAs(fr, args[0].(Iface), args[1].(Iface)) })
	reg("strings.Compare", func(fr *frame, fn *ssa.Function, args []Val) Val { return compare3(args[0], args[1]) })
	reg("internal/stringslite.Clone", ident)
	reg("strings.Clone", ident)
	reg("internal/race.Enabled", nop)
	reg("unique.Make[string]", ident)
}

var onceDone = map[*Val]bool{}
var pendingBigRecv *bigArg

// bigCurStart: index in bigArgs where the entries of the native call being marshalled start
var bigCurStart int

func strBytes2(v Val) []Val {
	if s, ok := v.([]Val); ok {
		return s
	}
	return strBytes(v)
}

func compare3(a, b Val) Val {
	if x, ok := a.(string); ok {
		if y, ok := b.(string); ok {
			return int64(strings.Compare(x, y))
		}
	}
	if ca, ok := a.(SymStr); ok {
		if s, isC := ca.concrete(); isC {
			a = s
		}
	}
	if cb, ok := b.(SymStr); ok {
		if s, isC := cb.concrete(); isC {
			b = s
		}
	}
	if x, ok := a.(string); ok {
		if y, ok := b.(string); ok {
			return int64(strings.Compare(x, y))
		}
	}
	lt := strLessTerm(a, b, false)
	eq := strEqTerm(a, b)
	if in.ex.branch(in.path, eq) {
		return int64(0)
	}
	if in.ex.branch(in.path, lt) {
		return int64(-1)
	}
	return int64(1)
}

func indexByte(b []Val, c Val) Val {
	for i, e := range b {
		eq := mkEq(byteTerm(e), byteTerm(c))
		if eq.isTrue() {
			return int64(i)
		}
		if eq.isFalse() {
			continue
		}
		if in.ex.branch(in.path, eq) {
			return int64(i)
		}
	}
	return int64(-1)
}

func lastIndexByte(b []Val, c Val) Val {
	for i := len(b) - 1; i >= 0; i-- {
		eq := mkEq(byteTerm(b[i]), byteTerm(c))
		if eq.isTrue() {
			return int64(i)
		}
		if eq.isFalse() {
			continue
		}
		if in.ex.branch(in.path, eq) {
			return int64(i)
		}
	}
	return int64(-1)
}

func countByte(b []Val, c Val) Val {
	n := int64(0)
	for _, e := range b {
		eq := mkEq(byteTerm(e), byteTerm(c))
		if eq.isTrue() || (!eq.isFalse() && in.ex.branch(in.path, eq)) {
			n++
		}
	}
	return n
}

func indexSub(a, b []Val) Val {
	for i := 0; i+len(b) <= len(a); i++ {
		eq := strEqTerm(SymStr{a[i : i+len(b)]}, SymStr{b})
		if eq.isTrue() || (!eq.isFalse() && in.ex.branch(in.path, eq)) {
			return int64(i)
		}
	}
	return int64(-1)
}

// ---- mutex model ----

type lockInfo struct {
	writer  bool
	readers int
}

var locks = map[*Val]*lockInfo{}

func lockOf(p *Val) *lockInfo {
	l, ok := locks[p]
	if !ok {
		l = &lockInfo{}
		locks[p] = l
	}
	return l
}

func mutexLock(fr *frame, m Val, write bool) {
	p, ok := m.(*Val)
	if !ok || p == nil {
		fr.fault(nil, "nilderef", "nil mutex")
	}
	l := lockOf(p)
	old := *l
	if l.writer || (write && l.readers > 0) {
		in.path.faults = append(in.path.faults, faultRec{kind: "deadlock", site: fr.fn.String(), msg: "lock of a mutex already held by the only thread"})
		panic(pathEnd{"deadlock", "self-deadlock in " + fr.fn.String()})
	}
	logUndo(func() { *l = old })
	if write {
		l.writer = true
	} else {
		l.readers++
	}
}

func mutexUnlock(fr *frame, m Val, write bool) {
	p, ok := m.(*Val)
	if !ok || p == nil {
		fr.fault(nil, "nilderef", "nil mutex")
	}
	l := lockOf(p)
	old := *l
	if (write && !l.writer) || (!write && l.readers == 0) {
		in.path.faults = append(in.path.faults, faultRec{kind: "badunlock", site: fr.fn.String(), msg: "sync: unlock of unlocked mutex"})
		panic(pathEnd{"badunlock", "unlock of unlocked mutex in " + fr.fn.String()})
	}
	logUndo(func() { *l = old })
	if write {
		l.writer = false
	} else {
		l.readers--
	}
}

func mutexTry(fr *frame, m Val) Val {
	p := m.(*Val)
	l := lockOf(p)
	if l.writer || l.readers > 0 {
		return false
	}
	old := *l
	logUndo(func() { *l = old })
	l.writer = true
	return true
}

func heldLocks() int {
	n := 0
	for _, l := range locks {
		if l.writer {
			n++
		}
		n += l.readers
	}
	return n
}

// sortedKeys is a small helper for deterministic output.
func sortedKeys(m map[string]int) []string {
	ks := make([]string, 0, len(m))
	for k := range m {
		ks = append(ks, k)
	}
	sort.Strings(ks)
	return ks
}

func errorsUnwrap(fr *frame, e Iface) []Iface {
	if e.t == nil {
		return nil
	}
	if _, isNat := e.v.(Native); isNat {
		return nil
	}
	if m := findMethod(e.t, "Unwrap"); m != nil && m.Signature.Params().Len() == 0 && m.Signature.Results().Len() == 1 {
		r := call(fr, token.NoPos, m, []Val{e.v})
		switch r := r.(type) {
		case Iface:
			return []Iface{r}
		case []Val:
			var out []Iface
			for _, x := range r {
				out = append(out, x.(Iface))
			}
			return out
		}
	}
	return nil
}

func errorsIs(fr *frame, err, target Iface) Val {
	if err.t == nil || target.t == nil {
		return err.t == nil && target.t == nil
	}
	if types.Identical(err.t, target.t) && types.Comparable(err.t) {
		if eq, ok := equals(fr, nil, err.t, err.v, target.v).(bool); ok && eq {
			return true
		}
	}
	if _, isNat := err.v.(Native); !isNat {
		if m := findMethod(err.t, "Is"); m != nil && m.Signature.Params().Len() == 1 {
			if r, ok := call(fr, token.NoPos, m, []Val{err.v, target}).(bool); ok && r {
				return true
			}
		}
	}
	for _, u := range errorsUnwrap(fr, err) {
		if r, _ := errorsIs(fr, u, target).(bool); r {
			return true
		}
	}
	return false
}

func errorsAs(fr *frame, err, target Iface) Val {
	if err.t == nil {
		return false
	}
	pt, ok := target.t.Underlying().(*types.Pointer)
	if !ok {
		unsupported("errors.As target")
	}
	want := pt.Elem()
	cell := target.v.(*Val)
	if it, isI := want.Underlying().(*types.Interface); isI {
		if types.Implements(err.t, it) {
			store(cell, err)
			return true
		}
	} else if types.Identical(err.t, want) {
		store(cell, err.v)
		return true
	}
	for _, u := range errorsUnwrap(fr, err) {
		if r, _ := errorsAs(fr, u, target).(bool); r {
			return true
		}
	}
	return false
}

// ---- a minimal reflect.Type ----

type rtypeVal struct{ t types.Type }

type rtypeMethod struct {
	rt   rtypeVal
	name string
}

func reflectTypeIface(t types.Type) Val {
	rp := in.prog.ImportedPackage("reflect")
	if rp == nil {
		unsupported("package reflect not loaded")
	}
	rt := rp.Pkg.Scope().Lookup("rtype").Type()
	return Iface{t: types.NewPointer(rt), v: rtypeVal{t}}
}

func init() {
	reg("reflect.TypeOf", func(fr *frame, fn *ssa.Function, args []Val) Val {
		i := args[0].(Iface)
		if i.t == nil {
			return Iface{}
		}
		return reflectTypeIface(i.t)
	})
}

func callRtypeMethod(fr *frame, m rtypeMethod, args []Val) Val {
	t := m.rt.t
	switch m.name {
	case "Elem":
		switch u := t.Underlying().(type) {
		case *types.Pointer:
			return reflectTypeIface(u.Elem())
		case *types.Slice:
			return reflectTypeIface(u.Elem())
		case *types.Array:
			return reflectTypeIface(u.Elem())
		case *types.Map:
			return reflectTypeIface(u.Elem())
		}
		fr.fault(nil, "reflect", "reflect: Elem of invalid type "+t.String())
	case "PkgPath":
		if n, ok := types.Unalias(t).(*types.Named); ok && n.Obj().Pkg() != nil {
			return n.Obj().Pkg().Path()
		}
		return ""
	case "Name":
		if n, ok := types.Unalias(t).(*types.Named); ok {
			return n.Obj().Name()
		}
		if b, ok := t.(*types.Basic); ok {
			return b.Name()
		}
		return ""
	case "String":
		return types.TypeString(t, func(p *types.Package) string { return p.Name() })
	}
	unsupported("reflect.Type." + m.name)
	return nil
}

func init() {
	reg("github.com/ohler55/slip.IsNil", func(fr *frame, fn *ssa.Function, args []Val) Val {
		i := args[0].(Iface)
		if i.t == nil {
			return true
		}
		switch i.t.Underlying().(type) {
		case *types.Pointer, *types.Map, *types.Chan, *types.Signature:
			return isNilVal(i.v)
		}
		return false
	})
	reg("github.com/ohler55/slip/pkg/cl.eq", func(fr *frame, fn *ssa.Function, args []Val) Val {
		x, y := args[0].(Iface), args[1].(Iface)
		if x.t == nil || y.t == nil {
			return x.t == nil && y.t == nil
		}
		if !types.Identical(x.t, y.t) {
			return false
		}
		if namedPath(x.t) == in.modPath+".Symbol" {
			return fromBoolTerm(strEqTerm(x.v, y.v))
		}
		switch x.t.Underlying().(type) {
		case *types.Pointer, *types.Map, *types.Chan:
			r := equals(fr, nil, types.NewPointer(types.Typ[types.Int]), x.v, y.v)
			if xm, ok := x.v.(*Map); ok {
				ym, _ := y.v.(*Map)
				return xm == ym
			}
			return r
		case *types.Signature:
			return x.v == y.v
		}
		// same interface word: either the same box, or both values live in the
		// runtime's shared static storage (integers < 256, bools, "", nil slice)
		if x.box != 0 && x.box == y.box {
			return true
		}
		static := func(i Iface) *Term {
			switch v := i.v.(type) {
			case int64:
				w, _, _ := intInfo(i.t)
				return mkBool(i.box == 0 || uint64(v)&mask(w) < 256)
			case *Term:
				if v.sort.K == KBV {
					if v.sort.W <= 8 {
						return tTrue
					}
					return mkCmp(OUlt, v, mkBV(256, v.sort.W))
				}
				if v.sort.K == KInt {
					return mkAnd(mkICmp(OILe, mkInt64(0), v), mkICmp(OILt, v, mkInt64(256)))
				}
			}
			return mkBool(i.box == 0)
		}
		same := tFalse
		switch xv := x.v.(type) {
		case int64, *Term:
			if w, sg, ok := intInfo(x.t); ok {
				if isIntTerm(x.v) || isIntTerm(y.v) {
					same = mkEq(toIntTerm(x.v, w, sg), toIntTerm(y.v, w, sg))
				} else {
					same = mkEq(toBV(x.v, w), toBV(y.v, w))
				}
			} else if xb, isB := xv.(*Term); isB && xb.sort.K == KBool {
				same = mkEq(xb, toBoolTerm(y.v))
			}
		case bool:
			same = mkEq(mkBool(xv), toBoolTerm(y.v))
		case string, SymStr, []Val:
			same = tTrue // static only when empty/nil
		default:
			same = mkBool(x.box == 0 && y.box == 0)
		}
		return fromBoolTerm(mkAndN(static(x), static(y), same))
	})
}

func init() {
	// ojg.AppendJSONString(buf, s, htmlSafe): the buffer may hold symbolic bytes;
	// the text appended only depends on the (concrete) string.
	reg("github.com/ohler55/ojg.AppendJSONString", func(fr *frame, fn *ssa.Function, args []Val) Val {
		s, ok := args[1].(string)
		if !ok {
			unsupported("ojg.AppendJSONString of a string with symbolic bytes (external module, no model)")
		}
		nf, has := nativeFuncs["github.com/ohler55/ojg.AppendJSONString"]
		if !has {
			unsupported("external function github.com/ohler55/ojg.AppendJSONString")
		}
		out := nf.Call([]reflect.Value{reflect.ValueOf([]byte(nil)), reflect.ValueOf(s), reflect.ValueOf(args[2].(bool))})
		return appendVals(args[0].([]Val), strBytes(string(out[0].Bytes())))
	})
}
