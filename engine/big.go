package main

// math/big models.  A *big.Int is an interpreter cell holding an immutable
// *BigInt (concrete *big.Int or an SMT Int term).  Methods with symbolic
// operands are modelled over Int arithmetic; everything else is delegated to
// the native math/big on concrete values with write-back of the receiver.

import (
	"fmt"
	"go/types"
	"math/big"
	"reflect"
	"strings"

	"golang.org/x/tools/go/ssa"
)

var bigIntU, bigRatU, bigFloatU types.Type

func setupBigTypes() {
	p := in.prog.ImportedPackage("math/big")
	if p == nil {
		return
	}
	bigIntU = p.Pkg.Scope().Lookup("Int").Type().Underlying()
	bigRatU = p.Pkg.Scope().Lookup("Rat").Type().Underlying()
	bigFloatU = p.Pkg.Scope().Lookup("Float").Type().Underlying()
}

// bigKind: 1 Int, 2 Rat, 3 Float, 0 none — for big types and named types
// defined as one of them (slip.Bignum, slip.Ratio, slip.LongFloat).
func bigKind(t types.Type) int {
	n, ok := types.Unalias(t).(*types.Named)
	if !ok || bigIntU == nil {
		return 0
	}
	u := n.Underlying()
	if _, isS := u.(*types.Struct); !isS {
		return 0
	}
	switch {
	case types.Identical(u, bigIntU):
		return 1
	case types.Identical(u, bigRatU):
		return 2
	case types.Identical(u, bigFloatU):
		return 3
	}
	return 0
}

var bigIntRT = reflect.TypeOf((*big.Int)(nil))
var bigRatRT = reflect.TypeOf((*big.Rat)(nil))
var bigFloatRT = reflect.TypeOf((*big.Float)(nil))

func newBigCell(z *big.Int) *Val {
	c := new(Val)
	*c = &BigInt{c: z}
	return c
}

func (b *BigInt) term() *Term {
	if b.t != nil {
		return b.t
	}
	return mkInt(b.c)
}

func (b *BigInt) isConc() bool { return b.t == nil }

func mkBigInt(t *Term) *BigInt {
	if t.op == OConst {
		return &BigInt{c: new(big.Int).Set(t.z)}
	}
	return &BigInt{t: t}
}

func bigOf(fr *frame, v Val) *BigInt {
	p, ok := v.(*Val)
	if !ok {
		if n, isN := v.(Native); isN && n.rv.Type() == bigIntRT {
			if n.rv.IsNil() {
				fr.fault(nil, "nilderef", "nil *big.Int")
			}
			return &BigInt{c: n.rv.Interface().(*big.Int)}
		}
		checkPoison(v)
		unsupported(fmt.Sprintf("big.Int operand %T", v))
	}
	if p == nil {
		fr.fault(nil, "nilderef", "invalid memory address or nil pointer dereference (nil *big.Int)")
	}
	b, ok := (*p).(*BigInt)
	if !ok {
		unsupported(fmt.Sprintf("big.Int cell holds %T", *p))
	}
	return b
}

func setBig(v Val, b *BigInt) Val {
	p := v.(*Val)
	setCell(p, b)
	return v
}

// bigToNativeCell converts a big cell to a native pointer (concrete only).
func bigToNative(p *Val, rt reflect.Type) (reflect.Value, bool) {
	switch c := (*p).(type) {
	case *BigInt:
		if rt == bigIntRT && c.isConc() {
			return reflect.ValueOf(new(big.Int).Set(c.c)), true
		}
	case *BigRat:
		if rt == bigRatRT && c.num.isConc() && c.den.isConc() {
			return reflect.ValueOf(new(big.Rat).SetFrac(c.num.c, c.den.c)), true
		}
	case *BigFloat:
		if rt == bigFloatRT {
			return reflect.ValueOf(new(big.Float).Copy(c.f)), true
		}
	}
	return reflect.Value{}, false
}

func bigFromNative(rv reflect.Value) (Val, bool) {
	if rv.Kind() != reflect.Ptr || rv.IsNil() {
		return nil, false
	}
	switch x := rv.Interface().(type) {
	case *big.Int:
		c := new(Val)
		*c = &BigInt{c: new(big.Int).Set(x)}
		return c, true
	case *big.Rat:
		c := new(Val)
		*c = &BigRat{num: BigInt{c: new(big.Int).Set(x.Num())}, den: BigInt{c: new(big.Int).Set(x.Denom())}}
		return c, true
	case *big.Float:
		c := new(Val)
		*c = &BigFloat{f: new(big.Float).Copy(x)}
		return c, true
	}
	return nil, false
}

type bigArg struct {
	cell *Val
	nat  reflect.Value
}

var bigArgs []bigArg

func bigSame(a, b Val) bool {
	switch x := a.(type) {
	case *BigInt:
		y, ok := b.(*BigInt)
		return ok && x.isConc() && y.isConc() && x.c.Cmp(y.c) == 0
	case *BigRat:
		y, ok := b.(*BigRat)
		return ok && x.num.isConc() && y.num.isConc() && x.num.c.Cmp(y.num.c) == 0 && x.den.c.Cmp(y.den.c) == 0
	case *BigFloat:
		y, ok := b.(*BigFloat)
		return ok && x.f.Cmp(y.f) == 0 && x.f.Prec() == y.f.Prec() && x.f.Mode() == y.f.Mode()
	}
	return false
}

// bigMethodNative: generic fallback — call the real math/big method on
// concrete copies, then write the receiver and pointer arguments back.
func bigMethodNative(fr *frame, fn *ssa.Function, args []Val) Val {
	recvCell, ok := args[0].(*Val)
	if !ok {
		if n, isN := args[0].(Native); isN {
			return callNativeMethod(fr, nativeMethod{n, fn.Name()}, args[1:])
		}
		unsupported(fmt.Sprintf("big method %s on %T", fn.Name(), args[0]))
	}
	if recvCell == nil {
		// several big methods accept a nil receiver? (none used) — fault like Go
		fr.fault(nil, "nilderef", "invalid memory address or nil pointer dereference (nil big receiver in "+fn.Name()+")")
	}
	var rt reflect.Type
	switch (*recvCell).(type) {
	case *BigInt:
		rt = bigIntRT
	case *BigRat:
		rt = bigRatRT
	case *BigFloat:
		rt = bigFloatRT
	default:
		unsupported(fmt.Sprintf("big receiver cell holds %T", *recvCell))
	}
	nat, ok := bigToNative(recvCell, rt)
	if !ok {
		unsupported("symbolic math/big operand in " + fn.String() + " (no model)")
	}
	pendingBigRecv = &bigArg{recvCell, nat}
	m := nat.MethodByName(fn.Name())
	if !m.IsValid() {
		unsupported("big method not found: " + fn.String())
	}
	sig := types.NewSignatureType(nil, nil, nil, fn.Signature.Params(), fn.Signature.Results(), fn.Signature.Variadic())
	return callNative(fr, fn.String(), m, args[1:], sig)
}

func intArg(v Val) *Term {
	switch v := v.(type) {
	case int64:
		return mkInt64(v)
	case *Term:
		if v.sort.K == KInt {
			return v
		}
		return mkBv2Int(v)
	}
	panic(fmt.Sprintf("intArg %T", v))
}

// truncated quotient/remainder (Go semantics) over Int terms; b != 0.
func truncDivRem(a, b *Term) (q, r *Term) {
	if a.op == OConst && b.op == OConst {
		qq, rr := new(big.Int).QuoRem(a.z, b.z, new(big.Int))
		return mkInt(qq), mkInt(rr)
	}
	defer func() {
		// remember q*b = a - r (keeps later products linear) and the ranges
		quoInfo[q.id] = quoRec{a, b, r}
		if ia := ivOf(a); ia != nil {
			m := maxBig(new(big.Int).Abs(ia.lo), new(big.Int).Abs(ia.hi))
			if _, ok := ivMemo[q.id]; !ok || ivMemo[q.id] == nil {
				ivMemo[q.id] = &ival{new(big.Int).Neg(m), m}
			}
		}
		if ib := ivOf(b); ib != nil {
			m := new(big.Int).Sub(maxBig(new(big.Int).Abs(ib.lo), new(big.Int).Abs(ib.hi)), big.NewInt(1))
			if m.Sign() >= 0 {
				ivMemo[r.id] = &ival{new(big.Int).Neg(m), m}
			}
		}
	}()
	zero := mkInt64(0)
	ed := mkIBin(OIDiv, a, b) // Euclidean: a = b*ed + em, 0 <= em < |b|
	em := mkIBin(OIMod, a, b)
	// truncation: if a < 0 and em != 0 then adjust towards zero
	adj := mkAnd(mkICmp(OILt, a, zero), mkNot(mkEq(em, zero)))
	bpos := mkICmp(OILt, zero, b)
	one := mkInt64(1)
	q = mkIte(adj, mkIte(bpos, mkIBin(OIAdd, ed, one), mkIBin(OISub, ed, one)), ed)
	r = mkIBin(OISub, a, mkIBin(OIMul, b, q))
	return
}

// bigAppendConcrete: concrete (*big.Int).Append that tolerates a buffer with symbolic bytes.
var bigAppendConcrete intrinsic

type quoRec struct{ a, b, r *Term }

var quoInfo = map[int]quoRec{}

// smartMul multiplies Int terms, using q*b = a - r for a known truncated
// quotient q = a quo b and distributing over +/- constants, so that the
// remainder computations of the rounding divisions stay linear.
func smartMul(x, y *Term) *Term {
	if x.op == OConst || y.op == OConst {
		return mkIBin(OIMul, x, y)
	}
	if qi, ok := quoInfo[x.id]; ok && qi.b == y {
		return mkIBin(OISub, qi.a, qi.r)
	}
	if qi, ok := quoInfo[y.id]; ok && qi.b == x {
		return mkIBin(OISub, qi.a, qi.r)
	}
	for _, p := range [][2]*Term{{x, y}, {y, x}} {
		s, o := p[0], p[1]
		if (s.op == OIAdd || s.op == OISub) && (s.args[0].op == OConst || s.args[1].op == OConst) {
			l, r := smartMul(s.args[0], o), smartMul(s.args[1], o)
			return mkIBin(s.op, l, r)
		}
		if s.op == OIte && (quoHas(s.args[1], o) || quoHas(s.args[2], o)) {
			return mkIte(s.args[0], smartMul(s.args[1], o), smartMul(s.args[2], o))
		}
	}
	return mkIBin(OIMul, x, y)
}

func quoHas(t, b *Term) bool {
	if qi, ok := quoInfo[t.id]; ok && qi.b == b {
		return true
	}
	if (t.op == OIAdd || t.op == OISub) && (t.args[0].op == OConst || t.args[1].op == OConst) {
		return quoHas(t.args[0], b) || quoHas(t.args[1], b)
	}
	if t.op == OIte {
		return quoHas(t.args[1], b) || quoHas(t.args[2], b)
	}
	return false
}

func init() {
	regBig := func(name string, f intrinsic) { reg("(*math/big.Int)."+name, f) }
	bin := func(op Op) intrinsic {
		return func(fr *frame, fn *ssa.Function, args []Val) Val {
			x, y := bigOf(fr, args[1]), bigOf(fr, args[2])
			bigOf(fr, args[0])
			if x.isConc() && y.isConc() {
				r := new(big.Int)
				switch op {
				case OIAdd:
					r.Add(x.c, y.c)
				case OISub:
					r.Sub(x.c, y.c)
				case OIMul:
					r.Mul(x.c, y.c)
				}
				return setBig(args[0], &BigInt{c: r})
			}
			if op == OIMul {
				return setBig(args[0], mkBigInt(smartMul(x.term(), y.term())))
			}
			return setBig(args[0], mkBigInt(mkIBin(op, x.term(), y.term())))
		}
	}
	regBig("Add", bin(OIAdd))
	regBig("Sub", bin(OISub))
	regBig("Mul", bin(OIMul))
	divlike := func(kind string) intrinsic {
		return func(fr *frame, fn *ssa.Function, args []Val) Val {
			x, y := bigOf(fr, args[1]), bigOf(fr, args[2])
			bigOf(fr, args[0])
			// math/big panics with the plain string "division by zero"
			bigDivZero := func() {
				in.path.faults = append(in.path.faults, faultRec{kind: "native-panic", site: "math/big.(*Int)." + kind, msg: "division by zero"})
				panic(targetPanic{Iface{t: types.Typ[types.String], v: "division by zero", box: 1}})
			}
			if y.isConc() {
				if y.c.Sign() == 0 {
					bigDivZero()
				}
			} else if in.ex.branch(in.path, mkEq(y.t, mkInt64(0))) {
				bigDivZero()
			}
			a, b := x.term(), y.term()
			var q, r *Term
			switch kind {
			case "Quo", "Rem", "QuoRem":
				q, r = truncDivRem(a, b)
			default: // Euclidean: Div, Mod, DivMod
				if a.op == OConst && b.op == OConst {
					q, r = mkInt(eucDiv(a.z, b.z)), mkInt(eucMod(a.z, b.z))
				} else {
					q, r = mkIBin(OIDiv, a, b), mkIBin(OIMod, a, b)
				}
			}
			switch kind {
			case "Quo", "Div":
				return setBig(args[0], mkBigInt(q))
			case "Rem", "Mod":
				return setBig(args[0], mkBigInt(r))
			}
			// QuoRem / DivMod (z, x, y, r)
			bigOf(fr, args[3])
			setBig(args[3], mkBigInt(r))
			setBig(args[0], mkBigInt(q))
			return Tuple{args[0], args[3]}
		}
	}
	for _, k := range []string{"Quo", "Rem", "QuoRem", "Div", "Mod", "DivMod"} {
		regBig(k, divlike(k))
	}
	regBig("Neg", func(fr *frame, fn *ssa.Function, args []Val) Val {
		x := bigOf(fr, args[1])
		bigOf(fr, args[0])
		if x.isConc() {
			return setBig(args[0], &BigInt{c: new(big.Int).Neg(x.c)})
		}
		return setBig(args[0], mkBigInt(mkINeg(x.t)))
	})
	regBig("Abs", func(fr *frame, fn *ssa.Function, args []Val) Val {
		x := bigOf(fr, args[1])
		bigOf(fr, args[0])
		if x.isConc() {
			return setBig(args[0], &BigInt{c: new(big.Int).Abs(x.c)})
		}
		return setBig(args[0], mkBigInt(mkIAbs(x.t)))
	})
	regBig("Set", func(fr *frame, fn *ssa.Function, args []Val) Val {
		x := bigOf(fr, args[1])
		bigOf(fr, args[0])
		return setBig(args[0], x)
	})
	regBig("SetInt64", func(fr *frame, fn *ssa.Function, args []Val) Val {
		bigOf(fr, args[0])
		return setBig(args[0], mkBigInt(intArg(args[1])))
	})
	regBig("SetUint64", func(fr *frame, fn *ssa.Function, args []Val) Val {
		bigOf(fr, args[0])
		switch v := args[1].(type) {
		case int64:
			return setBig(args[0], &BigInt{c: new(big.Int).SetUint64(uint64(v))})
		case *Term:
			if v.sort.K == KInt {
				return setBig(args[0], mkBigInt(v))
			}
			return setBig(args[0], mkBigInt(mkBv2Nat(v)))
		}
		panic("SetUint64")
	})
	reg("math/big.NewInt", func(fr *frame, fn *ssa.Function, args []Val) Val {
		c := new(Val)
		*c = mkBigInt(intArg(args[0]))
		return c
	})
	regBig("Sign", func(fr *frame, fn *ssa.Function, args []Val) Val {
		x := bigOf(fr, args[0])
		if x.isConc() {
			return int64(x.c.Sign())
		}
		z := mkInt64(0)
		if in.ex.branch(in.path, mkEq(x.t, z)) {
			return int64(0)
		}
		if in.ex.branch(in.path, mkICmp(OILt, x.t, z)) {
			return int64(-1)
		}
		return int64(1)
	})
	cmp := func(abs bool) intrinsic {
		return func(fr *frame, fn *ssa.Function, args []Val) Val {
			x, y := bigOf(fr, args[0]), bigOf(fr, args[1])
			if x.isConc() && y.isConc() {
				if abs {
					return int64(x.c.CmpAbs(y.c))
				}
				return int64(x.c.Cmp(y.c))
			}
			a, b := x.term(), y.term()
			if abs {
				a, b = mkIAbs(a), mkIAbs(b)
			}
			if in.ex.branch(in.path, mkEq(a, b)) {
				return int64(0)
			}
			if in.ex.branch(in.path, mkICmp(OILt, a, b)) {
				return int64(-1)
			}
			return int64(1)
		}
	}
	regBig("Cmp", cmp(false))
	regBig("CmpAbs", cmp(true))
	regBig("IsInt64", func(fr *frame, fn *ssa.Function, args []Val) Val {
		x := bigOf(fr, args[0])
		if x.isConc() {
			return x.c.IsInt64()
		}
		lo := mkInt(new(big.Int).Neg(new(big.Int).Lsh(big.NewInt(1), 63)))
		hi := mkInt(new(big.Int).Sub(new(big.Int).Lsh(big.NewInt(1), 63), big.NewInt(1)))
		return fromBoolTerm(mkAnd(mkICmp(OILe, lo, x.t), mkICmp(OILe, x.t, hi)))
	})
	regBig("IsUint64", func(fr *frame, fn *ssa.Function, args []Val) Val {
		x := bigOf(fr, args[0])
		if x.isConc() {
			return x.c.IsUint64()
		}
		hi := mkInt(new(big.Int).Sub(new(big.Int).Lsh(big.NewInt(1), 64), big.NewInt(1)))
		return fromBoolTerm(mkAnd(mkICmp(OILe, mkInt64(0), x.t), mkICmp(OILe, x.t, hi)))
	})
	regBig("Int64", func(fr *frame, fn *ssa.Function, args []Val) Val {
		x := bigOf(fr, args[0])
		if x.isConc() {
			return x.c.Int64()
		}
		if in.intMode {
			return fromInt(wrapInt(x.t, 64, true), 64, true)
		}
		return fromBV(mkInt2Bv(x.t, 64), 64, true)
	})
	regBig("Uint64", func(fr *frame, fn *ssa.Function, args []Val) Val {
		x := bigOf(fr, args[0])
		if x.isConc() {
			return int64(x.c.Uint64())
		}
		if in.intMode {
			return fromInt(wrapInt(x.t, 64, false), 64, false)
		}
		return fromBV(mkInt2Bv(x.t, 64), 64, false)
	})
	regBig("SetString", func(fr *frame, fn *ssa.Function, args []Val) Val {
		bigOf(fr, args[0])
		return bigSetString(fr, args[0], args[1], args[2])
	})
	regBig("Exp", func(fr *frame, fn *ssa.Function, args []Val) Val {
		x, y := bigOf(fr, args[1]), bigOf(fr, args[2])
		bigOf(fr, args[0])
		if !y.isConc() || !isNilVal(args[3]) {
			if x.isConc() && y.isConc() {
				return bigMethodNative(fr, fn, args)
			}
			unsupported("big.Int.Exp with symbolic exponent or modulus")
		}
		if x.isConc() {
			return bigMethodNative(fr, fn, args)
		}
		if y.c.Sign() <= 0 {
			return setBig(args[0], &BigInt{c: big.NewInt(1)})
		}
		if !y.c.IsInt64() || y.c.Int64() > 8 {
			unsupported("big.Int.Exp with symbolic base and exponent > 8")
		}
		r := x.t
		for i := int64(1); i < y.c.Int64(); i++ {
			r = mkIBin(OIMul, r, x.t)
		}
		return setBig(args[0], mkBigInt(r))
	})
	shift := func(left bool) intrinsic {
		return func(fr *frame, fn *ssa.Function, args []Val) Val {
			x := bigOf(fr, args[1])
			bigOf(fr, args[0])
			n, ok := args[2].(int64)
			if x.isConc() && ok {
				return bigMethodNative(fr, fn, args)
			}
			if !ok || n > 256 {
				unsupported("big.Int shift by a symbolic or huge amount")
			}
			p := mkInt(new(big.Int).Lsh(big.NewInt(1), uint(n)))
			if left {
				return setBig(args[0], mkBigInt(mkIBin(OIMul, x.term(), p)))
			}
			return setBig(args[0], mkBigInt(mkIBin(OIDiv, x.term(), p))) // floor, like Rsh
		}
	}
	regBig("Append", func(fr *frame, fn *ssa.Function, args []Val) Val {
		x := bigOf(fr, args[0])
		if x.isConc() {
			if bigAppendConcrete != nil {
				return bigAppendConcrete(fr, fn, args)
			}
			return bigMethodNative(fr, fn, args)
		}
		if !opaqueIntText {
			unsupported("text of a symbolic big integer (set opaque_int_text if no assertion depends on it)")
		}
		opaqueIntUses++
		return appendVals(args[1].([]Val), strBytes("‹int›"))
	})
	regBig("String", func(fr *frame, fn *ssa.Function, args []Val) Val {
		x := bigOf(fr, args[0])
		if x.isConc() {
			return bigMethodNative(fr, fn, args)
		}
		if !opaqueIntText {
			unsupported("text of a symbolic big integer (set opaque_int_text if no assertion depends on it)")
		}
		opaqueIntUses++
		return "‹int›"
	})
	regBig("Bit", func(fr *frame, fn *ssa.Function, args []Val) Val {
		x := bigOf(fr, args[0])
		i, ok := args[1].(int64)
		if x.isConc() && ok {
			return int64(x.c.Bit(int(i)))
		}
		if !ok || i < 0 || i > 4096 {
			unsupported("big.Int.Bit with a symbolic index")
		}
		// two's complement bit i of x = floor(x / 2^i) mod 2
		p := mkInt(new(big.Int).Lsh(big.NewInt(1), uint(i)))
		t := mkIBin(OIMod, mkIBin(OIDiv, x.term(), p), mkInt64(2))
		if in.intMode {
			return fromInt(t, 64, false)
		}
		return fromBV(mkInt2Bv(t, 64), 64, false)
	})
	regBig("Lsh", shift(true))
	regBig("Rsh", shift(false))
}

// bigSetString models (*big.Int).SetString(s, base) for strings with symbolic
// bytes (base 2..36 concrete or concretised; no prefixes, no underscores when
// base != 0).
func bigSetString(fr *frame, z Val, s Val, base Val) Val {
	bv, ok := base.(int64)
	if !ok {
		t := base.(*Term)
		w := t.sort.W
		if !in.ex.branch(in.path, inRange(t, w, 0, 62)) {
			bv = -1
		} else {
			bv = concretize(t, w, 0, 62)
		}
	}
	if bv != 0 && (bv < 2 || bv > 62) {
		// math/big panics with a plain string
		in.path.faults = append(in.path.faults, faultRec{kind: "native-panic", site: "math/big.(*Int).SetString", msg: "illegal number base"})
		panic(targetPanic{Iface{t: types.Typ[types.String], v: fmt.Sprintf("illegal number base %d", bv)}})
	}
	if cs, isC := s.(string); isC {
		r, ok := new(big.Int).SetString(cs, int(bv))
		if !ok {
			// value of z is undefined; Go leaves it 0 in practice
			return Tuple{(*Val)(nil), false}
		}
		setBig(z, &BigInt{c: r})
		return Tuple{z, true}
	}
	if bv == 0 || bv > 36 {
		unsupported("big.Int.SetString: symbolic text with base 0 or > 36")
	}
	b := strBytes(s)
	fail := Tuple{(*Val)(nil), false}
	if len(b) == 0 {
		return fail
	}
	neg := false
	i := 0
	c0 := byteTerm(b[0])
	if in.ex.branch(in.path, mkEq(c0, mkBV('-', 8))) {
		neg = true
		i = 1
	} else if in.ex.branch(in.path, mkEq(c0, mkBV('+', 8))) {
		i = 1
	}
	if i >= len(b) {
		return fail
	}
	// digit value table for the base (255 = invalid; '_' is invalid for base != 0)
	vals := make([]uint64, 256)
	for c := 0; c < 256; c++ {
		d := 255
		switch {
		case '0' <= c && c <= '9':
			d = c - '0'
		case 'a' <= c && c <= 'z':
			d = c - 'a' + 10
		case 'A' <= c && c <= 'Z':
			d = c - 'A' + 10
		}
		if d >= int(bv) {
			d = 255
		}
		vals[c] = uint64(d)
	}
	tbl := mkTable(vals, 8)
	acc := mkInt64(0)
	bt := mkInt64(bv)
	for ; i < len(b); i++ {
		d := mkTbl(tbl, byteTerm(b[i]))
		if in.ex.branch(in.path, mkEq(d, mkBV(255, 8))) {
			return fail
		}
		acc = mkIBin(OIAdd, mkIBin(OIMul, acc, bt), mkBv2Nat(d))
	}
	if neg {
		acc = mkINeg(acc)
	}
	setBig(z, mkBigInt(acc))
	return Tuple{z, true}
}

func isBigPkgFunc(fn *ssa.Function) bool {
	return fn.Pkg != nil && fn.Pkg.Pkg.Path() == "math/big" && fn.Signature.Recv() != nil
}

var _ = strings.Contains
