package main

// strconv integer formatting on symbolic values: fork only on sign and digit
// count; the digits are terms.  With the per-obligation option
// "opaque_int_text" the text is a fixed placeholder instead (for properties
// that never look at the text, e.g. stack traces built on error paths).

import (
	"math/big"

	"golang.org/x/tools/go/ssa"
)

var opaqueIntText bool
var opaqueIntUses int

const digitChars = "0123456789abcdefghijklmnopqrstuvwxyz"

func formatSymInt(v *Term, w int, signed bool, base int64) []Val {
	if opaqueIntText {
		opaqueIntUses++
		return strBytes("‹int›")
	}
	if base < 2 || base > 36 {
		unsupported("integer formatting with an invalid base")
	}
	var out []Val
	if v.sort.K == KInt {
		x := v
		neg := false
		if signed && in.ex.branch(in.path, mkICmp(OILt, x, mkInt64(0))) {
			neg = true
			x = mkINeg(x)
		}
		// digit count
		maxd := 1
		lim := new(big.Int).Lsh(big.NewInt(1), uint(w))
		for p := big.NewInt(base); p.Cmp(lim) < 0; p = new(big.Int).Mul(p, big.NewInt(base)) {
			maxd++
		}
		alts := make([]*Term, 0, maxd)
		pow := big.NewInt(1)
		for k := 1; k <= maxd; k++ {
			lo := new(big.Int).Set(pow)
			pow = new(big.Int).Mul(pow, big.NewInt(base))
			c := mkICmp(OILt, x, mkInt(pow))
			if k > 1 {
				c = mkAnd(mkICmp(OILe, mkInt(lo), x), c)
			}
			alts = append(alts, c)
		}
		k := in.ex.choose(in.path, alts) + 1
		if neg {
			out = append(out, int64('-'))
		}
		// the k digits are fresh integers defined by x = sum d_i*base^i, 0 <= d_i < base
		// (positional notation is unique, so this is equivalent to the div/mod
		// definition and keeps later re-parsing linear)
		sum := mkInt64(0)
		digits := make([]*Term, k)
		for i := k - 1; i >= 0; i-- {
			d := in.fresh("digit", intSort)
			varRange[d.id] = &ival{big.NewInt(0), big.NewInt(base - 1)}
			in.ex.addPC(in.path, mkICmp(OILe, mkInt64(0), d))
			in.ex.addPC(in.path, mkICmp(OILt, d, mkInt64(base)))
			digits[i] = d
			p := new(big.Int).Exp(big.NewInt(base), big.NewInt(int64(i)), nil)
			sum = mkIBin(OIAdd, sum, mkIBin(OIMul, d, mkInt(p)))
		}
		in.ex.addPC(in.path, mkEq(x, sum))
		// keep the witness model consistent with the new definitions
		if res, m := in.ex.feasible(in.path, tTrue); res == "sat" {
			in.path.model = m
		}
		in.path.model = completeDigits(in.path.model, x, digits, base)
		for i := k - 1; i >= 0; i-- {
			out = append(out, digitCharInt(digits[i], base))
		}
		return out
	}
	// bit-vector value
	x := v
	if x.sort.W < 64 {
		if signed {
			x = mkSext(x, 64)
		} else {
			x = mkZext(x, 64)
		}
	}
	neg := false
	if signed && in.ex.branch(in.path, mkCmp(OSlt, x, mkBV(0, 64))) {
		neg = true
		x = mkNeg(x)
	}
	maxd := 1
	lim := new(big.Int).Lsh(big.NewInt(1), uint(w))
	for p := big.NewInt(base); p.Cmp(lim) < 0; p = new(big.Int).Mul(p, big.NewInt(base)) {
		maxd++
	}
	alts := make([]*Term, 0, maxd)
	pow := big.NewInt(1)
	for k := 1; k <= maxd; k++ {
		lo := new(big.Int).Set(pow)
		pow = new(big.Int).Mul(pow, big.NewInt(base))
		var c *Term
		if pow.BitLen() > 64 {
			c = tTrue
		} else {
			c = mkCmp(OUlt, x, mkBV(pow.Uint64(), 64))
		}
		if k > 1 {
			c = mkAnd(mkCmp(OUle, mkBV(lo.Uint64(), 64), x), c)
		}
		alts = append(alts, c)
	}
	k := in.ex.choose(in.path, alts) + 1
	if neg {
		out = append(out, int64('-'))
	}
	bt := mkBV(uint64(base), 64)
	for i := k - 1; i >= 0; i-- {
		p := new(big.Int).Exp(big.NewInt(base), big.NewInt(int64(i)), nil)
		d := mkBin(OURem, mkBin(OUDiv, x, mkBV(p.Uint64(), 64)), bt)
		out = append(out, digitChar(mkExtract(7, 0, d), base))
	}
	return out
}

// completeDigits extends the witness model with the digit values of x.
func completeDigits(m Model, x *Term, digits []*Term, base int64) Model {
	nm := m.clone()
	v := new(big.Int).Set(evalTerm(x, m).z)
	b := big.NewInt(base)
	for i := 0; i < len(digits); i++ {
		d := new(big.Int)
		v.QuoRem(v, b, d)
		nm[digits[i].id] = EVal{z: d, u: d.Uint64()}
	}
	return nm
}

// digitCharInt: the character of an Int-sorted digit as a byte term.
func digitCharInt(d *Term, base int64) Val {
	b := mkInt2Bv(d, 8)
	if base <= 10 {
		return fromBV(mkBin(OAdd, b, mkBV('0', 8)), 8, false)
	}
	// fork on digit/letter so that the character is plain arithmetic on the digit
	if in.ex.branch(in.path, mkICmp(OILt, d, mkInt64(10))) {
		// a decimal digit: d = e with e in 0..9
		e := in.fresh("digitlo", intSort)
		varRange[e.id] = &ival{big.NewInt(0), big.NewInt(9)}
		in.ex.addPC(in.path, mkEq(d, e))
		in.path.model[e.id] = evalTerm(d, in.path.model)
		return fromBV(mkBin(OAdd, mkInt2Bv(e, 8), mkBV('0', 8)), 8, false)
	}
	// a letter: d = e + 10 with e in 0..base-11, so that the character's range is known
	e := in.fresh("digithi", intSort)
	varRange[e.id] = &ival{big.NewInt(0), big.NewInt(base - 11)}
	in.ex.addPC(in.path, mkEq(d, mkIBin(OIAdd, e, mkInt64(10))))
	dv := evalTerm(d, in.path.model).z
	if dv != nil {
		ev := new(big.Int).Sub(dv, big.NewInt(10))
		in.path.model[e.id] = EVal{z: ev, u: ev.Uint64()}
	}
	return fromBV(mkBin(OAdd, mkInt2Bv(e, 8), mkBV('a', 8)), 8, false)
}

func digitChar(d *Term, base int64) Val {
	if base <= 10 {
		return fromBV(mkBin(OAdd, d, mkBV('0', 8)), 8, false)
	}
	vals := make([]uint64, len(digitChars))
	for i := range vals {
		vals[i] = uint64(digitChars[i])
	}
	return fromBV(mkTbl(mkTable(vals, 8), d), 8, false)
}

func init() {
	baseOf := func(v Val) int64 {
		b, ok := v.(int64)
		if !ok {
			t := v.(*Term)
			if t.sort.K == KInt {
				if !in.ex.branch(in.path, mkAnd(mkICmp(OILe, mkInt64(2), t), mkICmp(OILe, t, mkInt64(36)))) {
					unsupported("integer formatting with an invalid symbolic base")
				}
			} else if !in.ex.branch(in.path, inRange(t, t.sort.W, 2, 36)) {
				unsupported("integer formatting with an invalid symbolic base")
			}
			b = concretize(t, t.sort.W, 2, 36)
		}
		return b
	}
	for _, pkg := range []string{"strconv", "internal/strconv"} {
		pkg := pkg
		for _, name := range []string{"AppendInt", "AppendUint", "FormatInt", "FormatUint", "Itoa"} {
			name := name
			full := pkg + "." + name
			intrinsics[full] = func(fr *frame, fn *ssa.Function, args []Val) Val {
				var val Val
				var base Val = int64(10)
				var dst []Val
				isAppend := name == "AppendInt" || name == "AppendUint"
				switch {
				case isAppend:
					dst, _ = args[0].([]Val)
					val, base = args[1], args[2]
				case name == "Itoa":
					val = args[0]
				default:
					val, base = args[0], args[1]
				}
				t, sym := val.(*Term)
				if !sym {
					return interpretBody(fr, fn, args)
				}
				signed := name != "AppendUint" && name != "FormatUint"
				digits := formatSymInt(t, 64, signed, baseOf(base))
				if isAppend {
					return appendVals(dst, digits)
				}
				return SymStr{b: digits}.norm()
			}
		}
	}
}

// interpretBody runs the function's own SSA (used by intrinsics that only
// take over for symbolic arguments).
func interpretBody(fr *frame, fn *ssa.Function, args []Val) Val {
	name := fn.String()
	f := intrinsics[name]
	delete(intrinsics, name)
	defer func() { intrinsics[name] = f }()
	return callSSA(fr, 0, fn, args, nil)
}
