module symgo

go 1.26.8

require (
	golang.org/x/sys v0.48.0
	golang.org/x/tools v0.50.0
)

require (
	golang.org/x/mod v0.41.0 // indirect
	golang.org/x/sync v0.23.0 // indirect
)

require (
	github.com/ohler55/ojg v1.27.0
	golang.org/x/text v0.28.0
)
