package main

// (*regexp.Regexp).Match / MatchString on inputs with symbolic bytes: a
// Thompson simulation of the program compiled by regexp/syntax from the
// regexp's own source.  The set of active NFA states is kept as a map from
// program counter to a Bool term ("this state is active"), so the result is
// one Bool term and no path forks.  Supported: patterns whose character
// classes are ASCII only (then a byte >= 0x80 can never match a class and bytes
// can be treated as runes one by one); anything else ends the path as
// unsupported.

import (
	"reflect"
	"regexp"
	"regexp/syntax"

	"golang.org/x/tools/go/ssa"
)

type rxProg struct {
	prog *syntax.Prog
	ok   bool
}

var rxCache = map[string]*rxProg{}

func compileRx(src string) *rxProg {
	if p, ok := rxCache[src]; ok {
		return p
	}
	r := &rxProg{}
	rxCache[src] = r
	re, err := syntax.Parse(src, syntax.Perl)
	if err != nil {
		return r
	}
	prog, err := syntax.Compile(re.Simplify())
	if err != nil {
		return r
	}
	for _, ins := range prog.Inst {
		switch ins.Op {
		case syntax.InstRune, syntax.InstRune1:
			for _, rn := range ins.Rune {
				if rn >= 0x80 {
					return r
				}
			}
			if syntax.Flags(ins.Arg)&syntax.FoldCase != 0 {
				return r
			}
		case syntax.InstRuneAny, syntax.InstRuneAnyNotNL:
			return r // would need UTF-8 decoding
		case syntax.InstEmptyWidth:
			if syntax.EmptyOp(ins.Arg)&^(syntax.EmptyBeginText|syntax.EmptyEndText|syntax.EmptyBeginLine|syntax.EmptyEndLine) != 0 {
				return r
			}
		}
	}
	r.prog, r.ok = prog, true
	return r
}

// rxMatch returns the condition under which the regexp matches somewhere in b
// (unanchored search semantics of Match, anchors honoured).
func rxMatch(p *rxProg, b []Val) *Term {
	prog := p.prog
	n := len(b)
	// addThread: follow empty transitions from pc at input position pos
	var add func(set map[int]*Term, pc int, cond *Term, pos int, depth int)
	add = func(set map[int]*Term, pc int, cond *Term, pos int, depth int) {
		if cond.isFalse() || depth > 1000 {
			return
		}
		ins := &prog.Inst[pc]
		switch ins.Op {
		case syntax.InstAlt, syntax.InstAltMatch:
			add(set, int(ins.Out), cond, pos, depth+1)
			add(set, int(ins.Arg), cond, pos, depth+1)
		case syntax.InstNop, syntax.InstCapture:
			add(set, int(ins.Out), cond, pos, depth+1)
		case syntax.InstEmptyWidth:
			op := syntax.EmptyOp(ins.Arg)
			c := cond
			if op&syntax.EmptyBeginText != 0 && pos != 0 {
				c = tFalse
			}
			if op&syntax.EmptyEndText != 0 && pos != n {
				c = tFalse
			}
			if op&syntax.EmptyBeginLine != 0 && pos != 0 {
				c = mkAnd(c, mkEq(byteTerm(b[pos-1]), mkBV('\n', 8)))
			}
			if op&syntax.EmptyEndLine != 0 && pos != n {
				c = mkAnd(c, mkEq(byteTerm(b[pos]), mkBV('\n', 8)))
			}
			add(set, int(ins.Out), c, pos, depth+1)
		case syntax.InstFail:
		default: // rune instructions and match
			if old, ok := set[pc]; ok {
				set[pc] = mkOr(old, cond)
			} else {
				set[pc] = cond
			}
		}
	}
	matched := tFalse
	cur := map[int]*Term{}
	for pos := 0; pos <= n; pos++ {
		// unanchored: a new thread may start at every position
		add(cur, prog.Start, tTrue, pos, 0)
		next := map[int]*Term{}
		for pc, cond := range cur {
			ins := &prog.Inst[pc]
			switch ins.Op {
			case syntax.InstMatch:
				matched = mkOr(matched, cond)
			case syntax.InstRune, syntax.InstRune1:
				if pos == n {
					continue
				}
				c := byteTerm(b[pos])
				var in_ *Term
				if len(ins.Rune) == 1 {
					in_ = mkEq(c, mkBV(uint64(ins.Rune[0]), 8))
				} else {
					in_ = tFalse
					for k := 0; k+1 < len(ins.Rune); k += 2 {
						lo, hi := uint64(ins.Rune[k]), uint64(ins.Rune[k+1])
						in_ = mkOr(in_, mkAnd(mkCmp(OUle, mkBV(lo, 8), c), mkCmp(OUle, c, mkBV(hi, 8))))
					}
				}
				add(next, int(ins.Out), mkAnd(cond, in_), pos+1, 0)
			}
		}
		cur = next
	}
	return matched
}

func init() {
	rxSource := func(recv Val) (string, bool) {
		n, ok := recv.(Native)
		if !ok {
			return "", false
		}
		re, ok := n.rv.Interface().(*regexp.Regexp)
		if !ok || re == nil {
			return "", false
		}
		return re.String(), true
	}
	match := func(fr *frame, fn *ssa.Function, args []Val) Val {
		var bytes []Val
		switch s := args[1].(type) {
		case []Val:
			bytes = s
		case string, SymStr:
			bytes = strBytes(s)
		}
		conc := true
		for _, e := range bytes {
			if _, isC := e.(int64); !isC {
				conc = false
			}
		}
		if conc {
			return callNativeMethod(fr, nativeMethod{args[0].(Native), fn.Name()}, args[1:])
		}
		src, ok := rxSource(args[0])
		if !ok {
			unsupported("regexp match on symbolic text: receiver is not a native *regexp.Regexp")
		}
		p := compileRx(src)
		if !p.ok {
			unsupported("regexp match on symbolic text: pattern outside the modelled subset: " + src)
		}
		return fromBoolTerm(rxMatch(p, bytes))
	}
	reg("(*regexp.Regexp).Match", match)
	reg("(*regexp.Regexp).MatchString", match)
	_ = reflect.TypeOf
}
