package main

// C09: "never an unbounded allocation, never a hang" needs the harness to see
// that a path was cut by the engine because the code under test went on to
// allocate a symbolic number of elements that can exceed 2^31, or to loop
// beyond a step/decision budget.  The core ends such paths with pathEnd kinds
// "hugealloc", "bound" and "unwind", which never reach an assertion.
//
// zzC09Guard(steps, decisions int, f func()) int  (defined in the C09 harness
// files; natively it runs f under a wall-clock/memory watchdog) is executed
// here as: run f with a local budget of `steps` SSA instructions and
// `decisions` symbolic decisions; return
//
//	0  f returned (or panicked: an interpreted panic propagates unchanged)
//	1  f reached an allocation whose symbolic size can exceed 2^31 elements
//	2  f reached an allocation of 65..2^31 elements (above the engine's
//	   concretisation bound; legitimate by the property, not explored further)
//	3  f exhausted the local step or decision budget
//
// After 1..3 the interpreted stack of f has been abandoned (its deferred
// functions did not run): the harness must only assert and return.

import (
	"go/token"
	"strings"

	"golang.org/x/tools/go/ssa"
)

func init() {
	guard := func(fr *frame, fn *ssa.Function, args []Val) (res Val) {
		steps, ok1 := asInt(args[0])
		decisions, ok2 := asInt(args[1])
		if !ok1 || !ok2 {
			unsupported("zzC09Guard: budgets must be concrete")
		}
		saveSteps, saveDepth, saveCallDepth := in.ex.maxSteps, in.ex.maxDepth, in.depth
		entrySteps := in.path.steps
		if s := entrySteps + int(steps); s < in.ex.maxSteps {
			in.ex.maxSteps = s
		}
		if d := len(in.path.trail) + int(decisions); d < in.ex.maxDepth {
			in.ex.maxDepth = d
		}
		restore := func() {
			in.ex.maxSteps, in.ex.maxDepth = saveSteps, saveDepth
		}
		defer func() {
			r := recover()
			restore()
			if r == nil {
				return
			}
			pe, isEnd := r.(pathEnd)
			if !isEnd {
				panic(r)
			}
			code := int64(0)
			switch {
			case pe.kind == "hugealloc":
				code = 1
			case pe.kind == "bound" && strings.Contains(pe.msg, "allocation size"):
				code = 2
			case pe.kind == "unwind":
				code = 3
			default:
				panic(r)
			}
			in.depth = saveCallDepth
			// give the harness room to finish: the abandoned instructions do
			// not count against the case budget
			in.path.steps = entrySteps
			if len(in.path.trail) >= in.ex.maxDepth {
				logUndo(func() { in.ex.maxDepth = saveDepth })
				in.ex.maxDepth = len(in.path.trail) + 64
			}
			res = code
		}()
		call(fr, token.NoPos, args[2], nil)
		return int64(0)
	}
	reg("github.com/ohler55/slip.zzC09Guard", guard)
	reg("github.com/ohler55/slip/pkg/cl.zzC09Guard", guard)
}
