package main

// C09: "never an unbounded allocation, never a hang" needs the harness to see
// that a path was cut by the engine because the code under test went on to
// allocate a symbolic number of elements that can exceed 2^31, or to loop
// beyond a step/decision budget.  The core ends such paths with pathEnd kinds
// "hugealloc", "bound" and "unwind", which never reach an assertion.
//
// zzC09Guard(steps, decisions int, f func()) int  (defined in the C09 harness
// files; natively it runs f under a wall-clock/memory watchdog) is executed
// here as: run f with a local budget of `steps` SSA instructions and
// `decisions` symbolic decisions; return
//
//	0  f returned (or panicked: an interpreted panic propagates unchanged)
//	1  f reached an allocation whose symbolic size can exceed 2^31 elements
//	2  f reached an allocation of 65..2^31 elements (above the engine's
//	   concretisation bound; legitimate by the property, not explored further)
//	3  f exhausted the local step budget (or the call depth)
//	4  f exhausted the local budget of symbolic decisions
//
// After 1..3 the interpreted stack of f has been abandoned (its deferred
// functions did not run): the harness must only assert and return.

import (
	"go/token"
	"go/types"
	"strings"

	"golang.org/x/tools/go/ssa"
)

func init() {
	guard := func(fr *frame, fn *ssa.Function, args []Val) (res Val) {
		steps, ok1 := asInt(args[0])
		decisions, ok2 := asInt(args[1])
		if !ok1 || !ok2 {
			unsupported("zzC09Guard: budgets must be concrete")
		}
		saveSteps, saveDepth, saveCallDepth := in.ex.maxSteps, in.ex.maxDepth, in.depth
		entrySteps := in.path.steps
		if s := entrySteps + int(steps); s < in.ex.maxSteps {
			in.ex.maxSteps = s
		}
		if d := len(in.path.trail) + int(decisions); d < in.ex.maxDepth {
			in.ex.maxDepth = d
		}
		restore := func() {
			in.ex.maxSteps, in.ex.maxDepth = saveSteps, saveDepth
		}
		defer func() {
			r := recover()
			restore()
			if r == nil {
				return
			}
			pe, isEnd := r.(pathEnd)
			if !isEnd {
				panic(r)
			}
			code := int64(0)
			switch {
			case pe.kind == "hugealloc":
				code = 1
			case pe.kind == "bound" && strings.Contains(pe.msg, "allocation size"):
				code = 2
			case pe.kind == "unwind" && strings.Contains(pe.msg, "symbolic decisions"):
				code = 4
			case pe.kind == "unwind":
				code = 3
			default:
				panic(r)
			}
			in.depth = saveCallDepth
			// give the harness room to finish: the abandoned instructions do
			// not count against the case budget
			in.path.steps = entrySteps
			if len(in.path.trail) >= in.ex.maxDepth {
				logUndo(func() { in.ex.maxDepth = saveDepth })
				in.ex.maxDepth = len(in.path.trail) + 64
			}
			res = code
		}()
		call(fr, token.NoPos, args[2], nil)
		return int64(0)
	}
	reg("github.com/ohler55/slip.zzC09Guard", guard)
	reg("github.com/ohler55/slip/pkg/cl.zzC09Guard", guard)
}

// bytes.Repeat(b, count) with a symbolic count (the interpreted body trips an
// engine limitation on its chunked copy loop): same contract as the library —
// a negative count panics with a plain string; the result has len(b)*count
// bytes, allocated under the same size rules as a MakeSlice instruction.
func init() {
	reg("bytes.Repeat", func(fr *frame, fn *ssa.Function, args []Val) Val {
		b, _ := args[0].([]Val)
		negative := func() {
			in.path.faults = append(in.path.faults, faultRec{kind: "native-panic", site: "bytes.Repeat", msg: "bytes: negative Repeat count"})
			panic(targetPanic{Iface{t: types.Typ[types.String], v: "bytes: negative Repeat count"}})
		}
		var n int64
		switch c := args[1].(type) {
		case int64:
			if c < 0 {
				negative()
			}
			n = c
		case *Term:
			t := toBV(c, 64)
			if in.ex.branch(in.path, mkCmp(OSlt, t, mkBV(0, 64))) {
				negative()
			}
			if len(b) == 0 {
				return []Val{}
			}
			if in.ex.branch(in.path, mkCmp(OSlt, mkBV(uint64(1)<<31, 64), t)) {
				in.path.faults = append(in.path.faults, faultRec{kind: "hugealloc", site: "bytes.Repeat", msg: "allocation size can exceed 2^31 elements"})
				panic(pathEnd{"hugealloc", "bytes.Repeat"})
			}
			if in.ex.branch(in.path, mkCmp(OSlt, mkBV(64, 64), t)) {
				panic(pathEnd{"bound", "symbolic allocation size above the engine bound of 64"})
			}
			n = concretize(t, 64, 0, 64)
		default:
			unsupported("bytes.Repeat: count")
		}
		if n*int64(len(b)) > 1<<26 {
			in.path.faults = append(in.path.faults, faultRec{kind: "hugealloc", site: "bytes.Repeat", msg: "large allocation"})
			panic(pathEnd{"hugealloc", "bytes.Repeat"})
		}
		out := make([]Val, 0, int(n)*len(b))
		for i := int64(0); i < n; i++ {
			for _, e := range b {
				out = append(out, copyVal(e))
			}
		}
		return out
	})
}

// strings.Repeat(s, count) with a symbolic count (the interpreted body trips
// an engine limitation in strings.Builder.grow): same contract as the library.
func init() {
	reg("strings.Repeat", func(fr *frame, fn *ssa.Function, args []Val) Val {
		negative := func() {
			in.path.faults = append(in.path.faults, faultRec{kind: "native-panic", site: "strings.Repeat", msg: "strings: negative Repeat count"})
			panic(targetPanic{Iface{t: types.Typ[types.String], v: "strings: negative Repeat count"}})
		}
		var elems []Val
		switch x := args[0].(type) {
		case string:
			elems = strBytes(x)
		case SymStr:
			elems = x.b
		default:
			unsupported("strings.Repeat: string argument")
		}
		var n int64
		switch c := args[1].(type) {
		case int64:
			if c < 0 {
				negative()
			}
			n = c
		case *Term:
			t := toBV(c, 64)
			if in.ex.branch(in.path, mkCmp(OSlt, t, mkBV(0, 64))) {
				negative()
			}
			if len(elems) == 0 {
				return ""
			}
			if in.ex.branch(in.path, mkCmp(OSlt, mkBV(uint64(1)<<31, 64), t)) {
				in.path.faults = append(in.path.faults, faultRec{kind: "hugealloc", site: "strings.Repeat", msg: "allocation size can exceed 2^31 elements"})
				panic(pathEnd{"hugealloc", "strings.Repeat"})
			}
			if in.ex.branch(in.path, mkCmp(OSlt, mkBV(64, 64), t)) {
				panic(pathEnd{"bound", "symbolic allocation size above the engine bound of 64"})
			}
			n = concretize(t, 64, 0, 64)
		default:
			unsupported("strings.Repeat: count")
		}
		if n*int64(len(elems)) > 1<<26 {
			in.path.faults = append(in.path.faults, faultRec{kind: "hugealloc", site: "strings.Repeat", msg: "large allocation"})
			panic(pathEnd{"hugealloc", "strings.Repeat"})
		}
		if cs, ok := args[0].(string); ok {
			return strings.Repeat(cs, int(n))
		}
		out := make([]Val, 0, int(n)*len(elems))
		for i := int64(0); i < n; i++ {
			out = append(out, elems...)
		}
		return SymStr{b: out}
	})
}

// c09ConcreteStr turns a string with symbolic bytes into a concrete one by
// forking over the feasible values of each symbolic byte (the caller's path
// condition — here: the reader's float regular expressions — keeps the number
// of alternatives small).
func c09ConcreteStr(v Val) Val {
	x, ok := v.(SymStr)
	if !ok {
		return v
	}
	// the bytes a float token can consist of after the reader lower-cased it
	const cand = "0123456789.e+-dfls"
	b := make([]byte, len(x.b))
	for i, e := range x.b {
		t, isT := e.(*Term)
		if !isT {
			b[i] = byte(concretize(e, 8, 0, 255))
			continue
		}
		alts := make([]*Term, 0, len(cand)+1)
		var none *Term = tTrue
		for j := 0; j < len(cand); j++ {
			eq := mkEq(t, mkBV(uint64(cand[j]), 8))
			alts = append(alts, eq)
			none = mkAnd(none, mkNot(eq))
		}
		alts = append(alts, none)
		k := in.ex.choose(in.path, alts)
		if k == len(cand) {
			b[i] = byte(concretize(e, 8, 0, 255))
		} else {
			b[i] = cand[k]
		}
	}
	return string(b)
}

// Float parsing of a token with symbolic bytes (floats are concrete in the
// engine): concretise the token, then run the ordinary code.
func init() {
	reg("strconv.ParseFloat", func(fr *frame, fn *ssa.Function, args []Val) Val {
		const name = "strconv.ParseFloat"
		f := intrinsics[name]
		delete(intrinsics, name)
		defer func() { intrinsics[name] = f }()
		return callSSA(fr, token.NoPos, fn, []Val{c09ConcreteStr(args[0]), args[1]}, nil)
	})
	reg("math/big.ParseFloat", func(fr *frame, fn *ssa.Function, args []Val) Val {
		nf, ok := nativeFuncs["math/big.ParseFloat"]
		if !ok {
			unsupported("math/big.ParseFloat is not in the native registry")
		}
		a := append([]Val{c09ConcreteStr(args[0])}, args[1:]...)
		return callNative(fr, "math/big.ParseFloat", nf, a, fn.Signature)
	})
}

// (*big.Int).Lsh by a symbolic amount: the core model ends the path as
// unsupported.  For C09 the interesting question is whether the amount can
// exceed 2^37 (a result of more than 2^31 words: unbounded allocation, natively
// "makeslice: len out of range" or an out-of-memory crash); below that the
// core model decides as before.
func init() {
	const name = "(*math/big.Int).Lsh"
	orig := intrinsics[name]
	reg(name, func(fr *frame, fn *ssa.Function, args []Val) Val {
		if t, isT := args[2].(*Term); isT {
			if in.ex.branch(in.path, mkCmp(OUlt, mkBV(uint64(1)<<37, 64), toBV(t, 64))) {
				in.path.faults = append(in.path.faults, faultRec{kind: "hugealloc", site: "math/big.(*Int).Lsh", msg: "shift count can exceed 2^37 bits (2^31 words)"})
				panic(pathEnd{"hugealloc", "math/big.(*Int).Lsh"})
			}
			// a small symbolic amount: fork over its values
			if in.ex.branch(in.path, mkCmp(OUle, toBV(t, 64), mkBV(64, 64))) {
				args = []Val{args[0], args[1], concretize(t, 64, 0, 64)}
			}
		}
		if orig == nil {
			unsupported("big.Int.Lsh: no core model registered")
		}
		return orig(fr, fn, args)
	})
}
