package main

import "golang.org/x/tools/go/ssa"

// C12: (*clos.StandardObject).ID converts the object's address to an integer
// (uintptr(unsafe.Pointer(obj))) for printing "#<class 1f00>" in condition
// messages.  The address is not observable by the property; the model returns
// a fixed number.
func init() {
	reg("(*github.com/ohler55/slip/pkg/clos.StandardObject).ID", func(fr *frame, fn *ssa.Function, args []Val) Val {
		return int64(0x12c12)
	})
}
