package main

// C20: in-memory model of the os file API (what pkg/repl uses to persist the
// REPL history, the stash and config.lisp), with a step counter and a crash
// point.
//
//   - the directory is a map name -> byte vector ([]Val: int64 0..255 or BV8
//     terms); vectors are immutable, every write installs a new vector
//   - OpenFile honours O_CREATE / O_EXCL / O_TRUNC / O_APPEND and the access
//     mode; Rename replaces the target atomically; WriteFile is open(trunc) +
//     write + close (three steps, as the real one is three system calls)
//   - every call is one step.  zzC20FsArm(k): the call that would be step k
//     (counted from the arming, 0-based) does not happen: the model freezes
//     (every later call fails without effect, as if the process were gone) and
//     a Go panic unwinds the interpreted program up to the harness.
//     zzC20FsDisarm() thaws the model and tells the harness how many steps
//     ran and whether the crash point was hit.  What the directory holds then
//     is what the next start of the program sees.
//   - zzC20Export/zzC20ExportBytes hand engine-side values (the directory
//     contents at the crash) to the native replay: they are recorded as
//     derived named inputs, i.e. terms over the real inputs that are evaluated
//     under the reported model and land in the replay file under their name.
//
//   - bytes.TrimSpace has a model for slices with symbolic bytes (see below);
//     on concrete bytes the real function is called.
//   - The os intrinsics are inert until a harness calls zzC20FsReset on the
//     path: before that (and in every other property's harness) the os
//     functions behave as in the stock engine.  os.Stat of an existing file is
//     not modelled (FileInfo), it ends the path as unsupported.
//
// All state changes are journalled with logUndo.

import (
	"bytes"
	"fmt"
	"go/types"
	"io/fs"
	"os"
	"path/filepath"
	"reflect"
	"sort"
	"strings"
	"syscall"
	"unicode"
	"unicode/utf8"

	"golang.org/x/tools/go/ssa"
)

type c20Handle struct {
	name   string
	flags  int
	pos    int
	closed bool
	dir    bool
}

type c20State struct {
	active  bool // set by zzC20FsReset: until then every os call behaves as in the stock engine
	files   map[string][]Val
	dirs    map[string]bool
	steps   int
	crashAt int
	crashed bool
	ops     []string
	temps   int
}

var c20 = c20State{files: map[string][]Val{}, dirs: map[string]bool{}, crashAt: -1}

const c20CrashMsg = "zzC20: simulated process death"

func c20Name(v Val) string {
	s, ok := v.(string)
	if !ok {
		if ss, isS := v.(SymStr); isS {
			if c, isC := ss.concrete(); isC {
				return filepath.Clean(c)
			}
		}
		unsupported("C20 file model: symbolic file name")
	}
	return filepath.Clean(s)
}

func c20Int(v Val, what string) int {
	i, ok := v.(int64)
	if !ok {
		unsupported("C20 file model: symbolic " + what)
	}
	return int(i)
}

var c20ErrT types.Type

func c20Err(e error) Val {
	if e == nil {
		return Iface{}
	}
	if c20ErrT == nil {
		c20ErrT = types.Universe.Lookup("error").Type()
	}
	x := e
	return fromNative(reflect.ValueOf(&x).Elem(), c20ErrT)
}

func c20PathErr(op, name string, errno syscall.Errno) Val {
	return c20Err(&fs.PathError{Op: op, Path: name, Err: errno})
}

func c20EOF() Val {
	p := in.prog.ImportedPackage("io")
	if p == nil {
		unsupported("package io not loaded")
	}
	g := p.Var("EOF")
	if cell, ok := in.globals[g]; ok {
		return load(cell)
	}
	return load(in.globalAddr(g))
}

// c20Step accounts for one call.  false: the model is frozen (after the crash
// point), the call must fail without any effect.
func c20Step(what string) bool {
	if c20.crashed {
		return false
	}
	if c20.crashAt >= 0 && c20.steps == c20.crashAt {
		logUndo(func() { c20.crashed = false })
		c20.crashed = true
		if verbose {
			fmt.Fprintf(os.Stderr, "C20: death before step %d (%s); done: %s\n", c20.steps, what, strings.Join(c20.ops, " | "))
		}
		panic(targetPanic{Iface{t: types.Typ[types.String], v: c20CrashMsg}})
	}
	oldOps := c20.ops
	logUndo(func() { c20.steps--; c20.ops = oldOps })
	c20.steps++
	c20.ops = append(oldOps[:len(oldOps):len(oldOps)], what)
	return true
}

func c20Dead(op, name string) Val { return c20PathErr(op, name, syscall.EIO) }

func c20SetFile(name string, data []Val) {
	old, had := c20.files[name]
	logUndo(func() {
		if had {
			c20.files[name] = old
		} else {
			delete(c20.files, name)
		}
	})
	c20.files[name] = data
}

func c20DelFile(name string) {
	old, had := c20.files[name]
	if !had {
		return
	}
	logUndo(func() { c20.files[name] = old })
	delete(c20.files, name)
}

func c20SetDir(name string) {
	if c20.dirs[name] {
		return
	}
	logUndo(func() { delete(c20.dirs, name) })
	c20.dirs[name] = true
}

func c20IsDir(name string) bool {
	return name == "/" || name == "." || c20.dirs[name]
}

func c20Open(name string, flag int) (Val, Val) {
	if c20IsDir(name) {
		if flag&(os.O_WRONLY|os.O_RDWR) != 0 {
			return (*Val)(nil), c20PathErr("open", name, syscall.EISDIR)
		}
		cell := new(Val)
		*cell = &c20Handle{name: name, flags: flag, dir: true}
		return cell, Iface{}
	}
	_, exists := c20.files[name]
	if !exists {
		if flag&os.O_CREATE == 0 {
			return (*Val)(nil), c20PathErr("open", name, syscall.ENOENT)
		}
		if !c20IsDir(filepath.Dir(name)) {
			if _, isFile := c20.files[filepath.Dir(name)]; isFile {
				return (*Val)(nil), c20PathErr("open", name, syscall.ENOTDIR)
			}
			return (*Val)(nil), c20PathErr("open", name, syscall.ENOENT)
		}
		c20SetFile(name, []Val{})
	} else if flag&os.O_CREATE != 0 && flag&os.O_EXCL != 0 {
		return (*Val)(nil), c20PathErr("open", name, syscall.EEXIST)
	}
	if exists && flag&os.O_TRUNC != 0 && flag&(os.O_WRONLY|os.O_RDWR) != 0 {
		c20SetFile(name, []Val{})
	}
	cell := new(Val)
	*cell = &c20Handle{name: name, flags: flag}
	return cell, Iface{}
}

func c20H(fr *frame, v Val) *c20Handle {
	p, ok := v.(*Val)
	if !ok {
		unsupported(fmt.Sprintf("C20 file model: *os.File value of kind %T (a real file? use the modelled API only)", v))
	}
	if p == nil {
		return nil
	}
	h, ok := (*p).(*c20Handle)
	if !ok {
		unsupported("C20 file model: *os.File not created by the model")
	}
	return h
}

func c20Write(fr *frame, hv Val, data []Val) Val {
	h := c20H(fr, hv)
	if h == nil {
		return Tuple{int64(0), c20Err(os.ErrInvalid)}
	}
	if !c20Step("write " + h.name + " " + fmt.Sprint(len(data))) {
		return Tuple{int64(0), c20Dead("write", h.name)}
	}
	if h.closed {
		return Tuple{int64(0), c20Err(&fs.PathError{Op: "write", Path: h.name, Err: os.ErrClosed})}
	}
	if h.dir || h.flags&(os.O_WRONLY|os.O_RDWR) == 0 {
		return Tuple{int64(0), c20PathErr("write", h.name, syscall.EBADF)}
	}
	cur, ok := c20.files[h.name]
	if !ok {
		// unlinked or renamed away while open: the write goes to an inode nobody can reach by this name
		return Tuple{int64(len(data)), Iface{}}
	}
	pos := h.pos
	if h.flags&os.O_APPEND != 0 {
		pos = len(cur)
	}
	n := len(cur)
	if pos+len(data) > n {
		n = pos + len(data)
	}
	nw := make([]Val, n)
	copy(nw, cur)
	for i := len(cur); i < pos; i++ {
		nw[i] = int64(0)
	}
	for i, b := range data {
		nw[pos+i] = b
	}
	c20SetFile(h.name, nw)
	oldPos := h.pos
	logUndo(func() { h.pos = oldPos })
	h.pos = pos + len(data)
	return Tuple{int64(len(data)), Iface{}}
}

func c20Read(fr *frame, hv Val, buf []Val) Val {
	h := c20H(fr, hv)
	if h == nil {
		return Tuple{int64(0), c20Err(os.ErrInvalid)}
	}
	if !c20Step("read " + h.name) {
		return Tuple{int64(0), c20Dead("read", h.name)}
	}
	if h.closed {
		return Tuple{int64(0), c20Err(&fs.PathError{Op: "read", Path: h.name, Err: os.ErrClosed})}
	}
	if h.dir {
		return Tuple{int64(0), c20PathErr("read", h.name, syscall.EISDIR)}
	}
	if h.flags&os.O_WRONLY != 0 {
		return Tuple{int64(0), c20PathErr("read", h.name, syscall.EBADF)}
	}
	if len(buf) == 0 {
		return Tuple{int64(0), Iface{}}
	}
	cur := c20.files[h.name]
	if h.pos >= len(cur) {
		return Tuple{int64(0), c20EOF()}
	}
	n := len(cur) - h.pos
	if n > len(buf) {
		n = len(buf)
	}
	for i := 0; i < n; i++ {
		setCell(&buf[i], cur[h.pos+i])
	}
	oldPos := h.pos
	logUndo(func() { h.pos = oldPos })
	h.pos += n
	return Tuple{int64(n), Iface{}}
}

func c20WriteFile(name string, data []Val) Val {
	if !c20Step("open(trunc) " + name) {
		return c20Dead("open", name)
	}
	hv, err := c20Open(name, os.O_WRONLY|os.O_CREATE|os.O_TRUNC)
	if e, _ := err.(Iface); e.t != nil {
		return err
	}
	r := c20Write(nil, hv, append([]Val(nil), data...)).(Tuple)
	if e, _ := r[1].(Iface); e.t != nil {
		return r[1]
	}
	if !c20Step("close " + name) {
		return c20Dead("close", name)
	}
	return Iface{}
}

func c20Export(name string, t *Term) {
	p := in.path
	p.nvar[name]++
	n := name
	if k := p.nvar[name]; k > 1 {
		n = fmt.Sprintf("%s#%d", name, k)
	}
	p.inputs = append(p.inputs, inputRec{n, t})
}

// c20Stock is what the stock engine does for a function of package os: call
// it natively (concrete arguments only).
func c20Stock(fr *frame, fn *ssa.Function, args []Val) Val {
	name := fn.String()
	if fn.Signature.Recv() != nil && len(args) > 0 {
		if nat, ok := args[0].(Native); ok {
			return callNativeMethod(fr, nativeMethod{nat, fn.Name()}, args[1:])
		}
	}
	if nf, ok := nativeFuncs[name]; ok {
		return callNative(fr, name, nf, args, fn.Signature)
	}
	missingNative[name]++
	unsupported("external function " + name)
	return nil
}

func init() {
	const repl = "github.com/ohler55/slip/pkg/repl."
	// the file model replaces the os functions only on paths whose harness has
	// switched it on (zzC20FsReset); everywhere else nothing changes
	reg := func(name string, f intrinsic) {
		if strings.HasPrefix(name, repl) {
			intrinsics[name] = f
			return
		}
		intrinsics[name] = func(fr *frame, fn *ssa.Function, args []Val) Val {
			if !c20.active {
				return c20Stock(fr, fn, args)
			}
			return f(fr, fn, args)
		}
	}
	reg("os.OpenFile", func(fr *frame, fn *ssa.Function, args []Val) Val {
		name, flag := c20Name(args[0]), c20Int(args[1], "open flags")
		if !c20Step(fmt.Sprintf("open %s %#x", name, flag)) {
			return Tuple{(*Val)(nil), c20Dead("open", name)}
		}
		h, err := c20Open(name, flag)
		return Tuple{h, err}
	})
	reg("os.Open", func(fr *frame, fn *ssa.Function, args []Val) Val {
		name := c20Name(args[0])
		if !c20Step("open " + name + " rdonly") {
			return Tuple{(*Val)(nil), c20Dead("open", name)}
		}
		h, err := c20Open(name, os.O_RDONLY)
		return Tuple{h, err}
	})
	reg("os.Create", func(fr *frame, fn *ssa.Function, args []Val) Val {
		name := c20Name(args[0])
		if !c20Step("create " + name) {
			return Tuple{(*Val)(nil), c20Dead("open", name)}
		}
		h, err := c20Open(name, os.O_RDWR|os.O_CREATE|os.O_TRUNC)
		return Tuple{h, err}
	})
	reg("(*os.File).Write", func(fr *frame, fn *ssa.Function, args []Val) Val {
		return c20Write(fr, args[0], append([]Val(nil), args[1].([]Val)...))
	})
	reg("(*os.File).WriteString", func(fr *frame, fn *ssa.Function, args []Val) Val {
		return c20Write(fr, args[0], append([]Val(nil), strBytes(args[1])...))
	})
	reg("(*os.File).Read", func(fr *frame, fn *ssa.Function, args []Val) Val {
		return c20Read(fr, args[0], args[1].([]Val))
	})
	reg("(*os.File).Close", func(fr *frame, fn *ssa.Function, args []Val) Val {
		h := c20H(fr, args[0])
		if h == nil {
			return c20Err(os.ErrInvalid)
		}
		if !c20Step("close " + h.name) {
			return c20Dead("close", h.name)
		}
		if h.closed {
			return c20Err(&fs.PathError{Op: "close", Path: h.name, Err: os.ErrClosed})
		}
		logUndo(func() { h.closed = false })
		h.closed = true
		return Iface{}
	})
	reg("(*os.File).Sync", func(fr *frame, fn *ssa.Function, args []Val) Val {
		h := c20H(fr, args[0])
		if h == nil {
			return c20Err(os.ErrInvalid)
		}
		if !c20Step("sync " + h.name) {
			return c20Dead("sync", h.name)
		}
		if h.closed {
			return c20Err(&fs.PathError{Op: "sync", Path: h.name, Err: os.ErrClosed})
		}
		return Iface{}
	})
	reg("(*os.File).Name", func(fr *frame, fn *ssa.Function, args []Val) Val {
		h := c20H(fr, args[0])
		if h == nil {
			fr.fault(nil, "nilderef", "invalid memory address or nil pointer dereference")
		}
		return h.name
	})
	reg("(*os.File).Seek", func(fr *frame, fn *ssa.Function, args []Val) Val {
		h := c20H(fr, args[0])
		if h == nil {
			return Tuple{int64(0), c20Err(os.ErrInvalid)}
		}
		off, whence := c20Int(args[1], "seek offset"), c20Int(args[2], "whence")
		if !c20Step("seek " + h.name) {
			return Tuple{int64(0), c20Dead("seek", h.name)}
		}
		if h.closed {
			return Tuple{int64(0), c20Err(&fs.PathError{Op: "seek", Path: h.name, Err: os.ErrClosed})}
		}
		np := off
		switch whence {
		case 1:
			np = h.pos + off
		case 2:
			np = len(c20.files[h.name]) + off
		}
		if np < 0 {
			return Tuple{int64(0), c20PathErr("seek", h.name, syscall.EINVAL)}
		}
		old := h.pos
		logUndo(func() { h.pos = old })
		h.pos = np
		return Tuple{int64(np), Iface{}}
	})
	reg("(*os.File).Truncate", func(fr *frame, fn *ssa.Function, args []Val) Val {
		h := c20H(fr, args[0])
		if h == nil {
			return c20Err(os.ErrInvalid)
		}
		size := c20Int(args[1], "truncate size")
		if !c20Step(fmt.Sprintf("truncate %s %d", h.name, size)) {
			return c20Dead("truncate", h.name)
		}
		if h.closed {
			return c20Err(&fs.PathError{Op: "truncate", Path: h.name, Err: os.ErrClosed})
		}
		if h.flags&(os.O_WRONLY|os.O_RDWR) == 0 || size < 0 {
			return c20PathErr("truncate", h.name, syscall.EINVAL)
		}
		cur, ok := c20.files[h.name]
		if !ok {
			return Iface{}
		}
		nw := make([]Val, size)
		copy(nw, cur)
		for i := len(cur); i < size; i++ {
			nw[i] = int64(0)
		}
		c20SetFile(h.name, nw)
		return Iface{}
	})
	reg("os.Rename", func(fr *frame, fn *ssa.Function, args []Val) Val {
		from, to := c20Name(args[0]), c20Name(args[1])
		if !c20Step("rename " + from + " " + to) {
			return c20Err(&os.LinkError{Op: "rename", Old: from, New: to, Err: syscall.EIO})
		}
		data, ok := c20.files[from]
		if !ok {
			if c20IsDir(from) {
				unsupported("C20 file model: rename of a directory")
			}
			return c20Err(&os.LinkError{Op: "rename", Old: from, New: to, Err: syscall.ENOENT})
		}
		if c20IsDir(to) {
			return c20Err(&os.LinkError{Op: "rename", Old: from, New: to, Err: syscall.EEXIST})
		}
		if !c20IsDir(filepath.Dir(to)) {
			return c20Err(&os.LinkError{Op: "rename", Old: from, New: to, Err: syscall.ENOENT})
		}
		if from == to {
			return Iface{}
		}
		c20SetFile(to, data)
		c20DelFile(from)
		return Iface{}
	})
	reg("os.Remove", func(fr *frame, fn *ssa.Function, args []Val) Val {
		name := c20Name(args[0])
		if !c20Step("remove " + name) {
			return c20Dead("remove", name)
		}
		if _, ok := c20.files[name]; ok {
			c20DelFile(name)
			return Iface{}
		}
		if c20.dirs[name] {
			for f := range c20.files {
				if strings.HasPrefix(f, name+"/") {
					return c20PathErr("remove", name, syscall.ENOTEMPTY)
				}
			}
			for d := range c20.dirs {
				if strings.HasPrefix(d, name+"/") {
					return c20PathErr("remove", name, syscall.ENOTEMPTY)
				}
			}
			logUndo(func() { c20.dirs[name] = true })
			delete(c20.dirs, name)
			return Iface{}
		}
		return c20PathErr("remove", name, syscall.ENOENT)
	})
	reg("os.RemoveAll", func(fr *frame, fn *ssa.Function, args []Val) Val {
		name := c20Name(args[0])
		if !c20Step("removeall " + name) {
			return c20Dead("unlinkat", name)
		}
		var fl, dl []string
		for f := range c20.files {
			if f == name || strings.HasPrefix(f, name+"/") {
				fl = append(fl, f)
			}
		}
		for d := range c20.dirs {
			if d == name || strings.HasPrefix(d, name+"/") {
				dl = append(dl, d)
			}
		}
		sort.Strings(fl)
		sort.Strings(dl)
		for _, f := range fl {
			c20DelFile(f)
		}
		for _, d := range dl {
			d := d
			logUndo(func() { c20.dirs[d] = true })
			delete(c20.dirs, d)
		}
		return Iface{}
	})
	reg("os.WriteFile", func(fr *frame, fn *ssa.Function, args []Val) Val {
		return c20WriteFile(c20Name(args[0]), args[1].([]Val))
	})
	reg("os.ReadFile", func(fr *frame, fn *ssa.Function, args []Val) Val {
		name := c20Name(args[0])
		if !c20Step("readfile " + name) {
			return Tuple{[]Val(nil), c20Dead("open", name)}
		}
		if c20IsDir(name) {
			return Tuple{[]Val(nil), c20PathErr("read", name, syscall.EISDIR)}
		}
		data, ok := c20.files[name]
		if !ok {
			return Tuple{[]Val(nil), c20PathErr("open", name, syscall.ENOENT)}
		}
		return Tuple{append(make([]Val, 0, len(data)+1), data...), Iface{}}
	})
	mkdirAll := func(fr *frame, fn *ssa.Function, args []Val) Val {
		name := c20Name(args[0])
		if !c20Step("mkdirall " + name) {
			return c20Dead("mkdir", name)
		}
		var parts []string
		for d := name; d != "/" && d != "." && d != ""; d = filepath.Dir(d) {
			parts = append(parts, d)
		}
		for i := len(parts) - 1; i >= 0; i-- {
			if _, isFile := c20.files[parts[i]]; isFile {
				return c20PathErr("mkdir", parts[i], syscall.ENOTDIR)
			}
			c20SetDir(parts[i])
		}
		return Iface{}
	}
	reg("os.MkdirAll", mkdirAll)
	reg("os.Mkdir", func(fr *frame, fn *ssa.Function, args []Val) Val {
		name := c20Name(args[0])
		if !c20Step("mkdir " + name) {
			return c20Dead("mkdir", name)
		}
		if _, isFile := c20.files[name]; isFile || c20IsDir(name) {
			return c20PathErr("mkdir", name, syscall.EEXIST)
		}
		if !c20IsDir(filepath.Dir(name)) {
			return c20PathErr("mkdir", name, syscall.ENOENT)
		}
		c20SetDir(name)
		return Iface{}
	})
	reg("os.MkdirTemp", func(fr *frame, fn *ssa.Function, args []Val) Val {
		base, pat := c20Name(args[0]), c20Name(args[1])
		if base == "." || base == "" {
			base = "/tmp"
		}
		if !c20Step("mkdirtemp " + base) {
			return Tuple{"", c20Dead("mkdir", base)}
		}
		logUndo(func() { c20.temps-- })
		c20.temps++
		name := filepath.Join(base, strings.ReplaceAll(pat, "*", "")+fmt.Sprintf("m%d", c20.temps))
		for d := name; d != "/" && d != "."; d = filepath.Dir(d) {
			c20SetDir(d)
		}
		return Tuple{name, Iface{}}
	})
	reg("os.Stat", func(fr *frame, fn *ssa.Function, args []Val) Val {
		name := c20Name(args[0])
		if !c20Step("stat " + name) {
			return Tuple{Iface{}, c20Dead("stat", name)}
		}
		if _, ok := c20.files[name]; !ok && !c20IsDir(name) {
			return Tuple{Iface{}, c20PathErr("stat", name, syscall.ENOENT)}
		}
		unsupported("C20 file model: os.Stat of an existing file (FileInfo is not modelled)")
		return nil
	})

	// ---- harness side of the model (the Go bodies in the harness are the native variants) ----
	reg(repl+"zzC20FsReset", func(fr *frame, fn *ssa.Function, args []Val) Val {
		old := c20
		logUndo(func() { c20 = old })
		c20 = c20State{active: true, files: map[string][]Val{}, dirs: map[string]bool{}, crashAt: -1}
		return nil
	})
	reg(repl+"zzC20FsArm", func(fr *frame, fn *ssa.Function, args []Val) Val {
		k := c20Int(args[0], "crash point")
		oldS, oldC, oldOps, oldCr := c20.steps, c20.crashAt, c20.ops, c20.crashed
		logUndo(func() { c20.steps, c20.crashAt, c20.ops, c20.crashed = oldS, oldC, oldOps, oldCr })
		c20.steps, c20.crashAt, c20.ops, c20.crashed = 0, k, nil, false
		return nil
	})
	reg(repl+"zzC20FsDisarm", func(fr *frame, fn *ssa.Function, args []Val) Val {
		steps, crashed := c20.steps, c20.crashed
		oldS, oldC, oldCr := c20.steps, c20.crashAt, c20.crashed
		logUndo(func() { c20.steps, c20.crashAt, c20.crashed = oldS, oldC, oldCr })
		c20.crashAt, c20.crashed = -1, false
		if verbose {
			fmt.Fprintf(os.Stderr, "C20: disarm after %d steps crashed=%v: %s\n", steps, crashed, strings.Join(c20.ops, " | "))
		}
		return Tuple{int64(steps), crashed}
	})
	reg(repl+"zzC20Export", func(fr *frame, fn *ssa.Function, args []Val) Val {
		c20Export(strArg(args[0]), toBV(args[1], 64))
		return args[1]
	})
	reg(repl+"zzC20ExportBytes", func(fr *frame, fn *ssa.Function, args []Val) Val {
		name := strArg(args[0])
		b := args[1].([]Val)
		n := c20Int(args[2], "export length")
		if n != len(b) {
			unsupported("zzC20ExportBytes: length differs from the exported length")
		}
		for i, e := range b {
			c20Export(fmt.Sprintf("%s[%d]", name, i), byteTerm(e))
		}
		return b
	})
}

// ---- bytes.TrimSpace on symbolic bytes -------------------------------------
//
// The library code indexes the tables asciiSpace[c] / utf8.first[c] with the
// (symbolic) byte, which the interpreter can only do by a 256-way case split
// per lookup.  This model has the documented behaviour of bytes.TrimSpace
// (leading and trailing Unicode White_Space removed, UTF-8 decoded forwards
// from the front and with DecodeLastRune from the back, nil when nothing is
// left) and forks only on "is this rune white space" and on the UTF-8 shape.
// The White_Space set is checked against unicode.IsSpace for every rune when
// the model is first used.

var c20SpaceChecked bool

func c20SpaceConc(r rune) bool {
	switch {
	case 9 <= r && r <= 13, r == 32, r == 0x85, r == 0xA0, r == 0x1680, 0x2000 <= r && r <= 0x200A,
		r == 0x2028, r == 0x2029, r == 0x202F, r == 0x205F, r == 0x3000:
		return true
	}
	return false
}

func c20IsSpace(r Val) *Term {
	if !c20SpaceChecked {
		for x := rune(0); x <= 0x10FFFF; x++ {
			if c20SpaceConc(x) != unicode.IsSpace(x) {
				unsupported(fmt.Sprintf("C20 TrimSpace model: White_Space set differs from unicode.IsSpace at U+%04X", x))
			}
		}
		c20SpaceChecked = true
	}
	if c, ok := r.(int64); ok {
		return mkBool(c20SpaceConc(rune(c)))
	}
	t := toBV(r, 32)
	k := func(x uint64) *Term { return mkBV(x, 32) }
	rng := func(lo, hi uint64) *Term { return mkAnd(mkCmp(OUle, k(lo), t), mkCmp(OUle, t, k(hi))) }
	eq := func(x uint64) *Term { return mkEq(t, k(x)) }
	return mkOrN(rng(9, 13), eq(32), eq(0x85), eq(0xA0), eq(0x1680), rng(0x2000, 0x200A), eq(0x2028), eq(0x2029), eq(0x202F), eq(0x205F), eq(0x3000))
}

func c20DecodeLastRune(p []Val) (Val, int) {
	end := len(p)
	if end == 0 {
		return int64(utf8.RuneError), 0
	}
	last := byteTerm(p[end-1])
	if in.ex.branch(in.path, mkCmp(OUlt, last, mkBV(0x80, 8))) {
		return fromBV(mkZext(last, 32), 32, true), 1
	}
	lim := end - utf8.UTFMax
	if lim < 0 {
		lim = 0
	}
	start := end - 2
	for ; start >= lim; start-- {
		b := byteTerm(p[start])
		isStart := mkNot(mkEq(mkBin(OBAnd, b, mkBV(0xC0, 8)), mkBV(0x80, 8)))
		if in.ex.branch(in.path, isStart) {
			break
		}
	}
	if start < 0 {
		start = 0
	}
	r, size := decodeRuneAt(p[start:end], 0)
	if start+size != end {
		return int64(utf8.RuneError), 1
	}
	return r, size
}

func init() {
	reg("bytes.TrimSpace", func(fr *frame, fn *ssa.Function, args []Val) Val {
		s := args[0].([]Val)
		conc := make([]byte, len(s))
		allConc := true
		for i, e := range s {
			c, ok := e.(int64)
			if !ok {
				allConc = false
				break
			}
			conc[i] = byte(c)
		}
		if allConc {
			// concrete bytes: the real function decides, the result is the same sub-slice
			res := bytes.TrimSpace(conc)
			if res == nil {
				return []Val(nil)
			}
			start := cap(conc) - cap(res)
			return s[start : start+len(res)]
		}
		start := 0
		for start < len(s) {
			r, size := decodeRuneAt(s, start)
			if !in.ex.branch(in.path, c20IsSpace(r)) {
				break
			}
			start += size
		}
		if start >= len(s) {
			return []Val(nil)
		}
		stop := len(s)
		for stop > start {
			r, size := c20DecodeLastRune(s[start:stop])
			if !in.ex.branch(in.path, c20IsSpace(r)) {
				break
			}
			stop -= size
		}
		if start == stop {
			return []Val(nil)
		}
		return s[start:stop]
	})
}
