package main

import (
	"encoding/json"
	"flag"
	"fmt"
	"go/types"
	"os"
	"path/filepath"
	"runtime/debug"
	"sort"
	"strings"
	"time"

	"golang.org/x/tools/go/packages"
	"golang.org/x/tools/go/ssa"
	"golang.org/x/tools/go/ssa/ssautil"
)

// repoDir is the tree under test: /repo, or a scratch worktree when seeded
// changes are tried (SYMGO_REPO).
var repoDir = func() string {
	if d := os.Getenv("SYMGO_REPO"); d != "" {
		return d
	}
	return "/repo"
}()

var loadPatterns = []string{".", "./pkg/cl", "./pkg/generic", "./pkg/flavors", "./pkg/clos", "./pkg/gi", "./pkg/bag", "./pkg/repl", "./pkg/swank", "./pp"}

// packages outside the module whose Go code is interpreted (pure Go, no
// reflection/unsafe tricks beyond the handful of intrinsics in extern.go)
var interpPkgs = []string{
	"errors", "internal/errors", "io", "bufio", "bytes", "strings", "strconv", "unicode", "unicode/utf8", "unicode/utf16",
	"sort", "slices", "maps", "cmp", "math/bits", "internal/stringslite", "internal/bytealg", "internal/byteorder",
	"internal/itoa", "internal/strconv", "iter", "container/list", "path", "encoding/hex", "internal/oserror",
}

type Spec struct {
	ID            string               `json:"id"`
	Property      string               `json:"property"`
	Pkg           string               `json:"pkg"` // directory relative to /repo ("." for the root package)
	Entry         string               `json:"entry"`
	Cases         map[string][][]int64 `json:"cases"` // tier -> list of parameter tuples
	Reach         []string             `json:"reach"`
	MaxDepth      int                  `json:"max_depth"`
	MaxSteps      int                  `json:"max_steps"`
	IntMode       bool                 `json:"int_mode"`
	Carves        []string             `json:"carves"`
	Timeout       int                  `json:"solver_timeout_ms"`
	MaxPaths      int                  `json:"max_paths"`
	Note          string               `json:"note"`
	Overrides     map[string]string    `json:"overrides"`
	MaxCaseS      int                  `json:"max_case_s"`
	ExtraFiles    []string             `json:"extra_files"`
	OpaqueIntText bool                 `json:"opaque_int_text"`
}

type CaseResult struct {
	Obligation   string         `json:"obligation"`
	Params       []int64        `json:"params"`
	Paths        int            `json:"paths"`
	Ends         map[string]int `json:"ends"`
	Reached      []string       `json:"reached"`
	Violations   []Violation    `json:"violations"`
	Inconclusive []string       `json:"inconclusive"`
	WallS        float64        `json:"wall_s"`
	Samples      []string       `json:"samples"`
	Truncated    bool           `json:"truncated"`
	Witnesses    []Violation    `json:"witnesses"`
}

type ShardResult struct {
	Property  string            `json:"property"`
	Tier      string            `json:"tier"`
	Shard     string            `json:"shard"`
	Probe     string            `json:"probe,omitempty"`
	Cases     []CaseResult      `json:"cases"`
	Stats     Stats             `json:"stats"`
	Solver    map[string]any    `json:"solver"`
	Functions map[string]int    `json:"functions_encoded"` // slip function -> SSA instruction count
	FuncCalls map[string]int    `json:"function_calls"`
	LoadS     float64           `json:"load_s"`
	InitS     float64           `json:"init_s"`
	WallS     float64           `json:"wall_s"`
	Missing   map[string]int    `json:"missing_natives"`
	Errors    []string          `json:"engine_errors"`
	Faults    map[string]int    `json:"fault_sites"`
	Extra     map[string]string `json:"extra,omitempty"`
}

func main() {
	os.Setenv("PATH", "/opt/veriftools/go1.26.8/bin:"+os.Getenv("PATH"))
	if len(os.Args) < 2 {
		fatalf("usage: symgo run|gen|selftest ...")
	}
	debug.SetMaxStack(2 << 30)
	switch os.Args[1] {
	case "run":
		cmdRun(os.Args[2:])
	case "gen":
		cmdGen(os.Args[2:])
	default:
		fatalf("unknown command %s", os.Args[1])
	}
}

// harnessOverlay maps the harness sources into /repo; with a property id only
// zz_verif_<prop>*.go and the named extra files are included, so that another
// property's half-edited harness cannot break this run.
func harnessOverlay(harnessDir, rtFile, prop string, extra map[string]bool) map[string][]byte {
	ov := map[string][]byte{}
	filepath.Walk(harnessDir, func(p string, fi os.FileInfo, err error) error {
		if err != nil || fi.IsDir() || !strings.HasSuffix(p, ".go") {
			return nil
		}
		if base := filepath.Base(p); prop != "" && !strings.HasPrefix(base, "zz_verif_"+strings.ToLower(prop)) && !extra[base] {
			return nil
		}
		rel, _ := filepath.Rel(harnessDir, p)
		parts := strings.Split(rel, string(filepath.Separator))
		if parts[0] == "root" {
			parts = parts[1:]
		}
		b, err := os.ReadFile(p)
		if err == nil {
			ov[filepath.Join(append([]string{repoDir}, parts...)...)] = b
		}
		return nil
	})
	if rtFile != "" {
		b, err := os.ReadFile(rtFile)
		if err != nil {
			fatalf("cannot read %s: %v", rtFile, err)
		}
		ov[filepath.Join(repoDir, "zzvrt", "vrt.go")] = b
	}
	return ov
}

func loadProgram(overlay map[string][]byte, patterns []string) (*ssa.Program, []*packages.Package) {
	cfg := &packages.Config{
		Mode:    packages.LoadAllSyntax | packages.NeedModule,
		Dir:     repoDir,
		Overlay: overlay,
		Env:     append(os.Environ(), "GOFLAGS=-mod=mod", "GOPROXY=off", "GOSUMDB=off", "GOTOOLCHAIN=local", "CGO_ENABLED=0"),
	}
	pkgs, err := packages.Load(cfg, patterns...)
	if err != nil {
		fatalf("load: %v", err)
	}
	bad := false
	packages.Visit(pkgs, nil, func(p *packages.Package) {
		for _, e := range p.Errors {
			fmt.Fprintln(os.Stderr, "LOAD ERROR:", e)
			bad = true
		}
	})
	if bad {
		fatalf("package load errors (the tree does not compile?)")
	}
	prog, _ := ssautil.AllPackages(pkgs, ssa.InstantiateGenerics)
	prog.Build()
	return prog, pkgs
}

func newInterp(prog *ssa.Program, modPath string) *Interp {
	i := &Interp{prog: prog, globals: map[*ssa.Global]*Val{}, infos: map[*ssa.Function]*fnInfo{}, funcsHit: map[*ssa.Function]int{},
		modPath: modPath, interpOK: map[string]bool{}}
	for _, p := range interpPkgs {
		i.interpOK[p] = true
	}
	if rp := prog.ImportedPackage("runtime"); rp != nil {
		i.errStrT = rp.Type("errorString").Object().Type()
	} else {
		fatalf("runtime package not loaded")
	}
	return i
}

// initPackages runs the package initialisers concretely, before any path.
func (in *Interp) initPackages(roots []string) {
	in.initing = true
	journaling = false
	in.ex = newExplorer(nil)
	in.path = newPath(nil, nil)
	in.ex.maxSteps = 1 << 40
	for _, g := range in.prog.AllPackages() {
		for _, m := range g.Members {
			if gl, ok := m.(*ssa.Global); ok && in.pkgInterpreted(g.Pkg.Path()) {
				cell := new(Val)
				*cell = zero(deref(gl.Type()))
				in.globals[gl] = cell
			}
		}
	}
	runInit := func(path string) {
		p := in.prog.ImportedPackage(path)
		if p == nil {
			return
		}
		initFn := p.Func("init")
		func() {
			defer func() {
				if r := recover(); r != nil {
					switch r := r.(type) {
					case pathEnd:
						fmt.Fprintf(os.Stderr, "INIT %s stopped: %s %s\n", path, r.kind, r.msg)
					case targetPanic:
						fmt.Fprintf(os.Stderr, "INIT %s panicked: %s\n", path, showVal(r.v))
					case engineError:
						fmt.Fprintf(os.Stderr, "INIT %s engine error: %s\n%s\n", path, r.msg, r.stack)
					default:
						fmt.Fprintf(os.Stderr, "INIT %s engine error: %v\n%s\n", path, r, debug.Stack())
					}
					initFailures = append(initFailures, path)
				}
			}()
			callSSA(nil, 0, initFn, nil, nil)
		}()
	}
	for _, p := range interpPkgs {
		runInit(p)
	}
	for _, r := range roots {
		runInit(r)
	}
	in.initing = false
	initBoxes = in.nextBox
	initSteps = in.path.steps
}

var initSteps int
var initBoxes int64

var initFailures []string

func stackOf() string { return string(debug.Stack()) }

func cmdRun(argv []string) {
	fs := flag.NewFlagSet("run", flag.ExitOnError)
	specFile := fs.String("spec", "/verif/harness/obligations.json", "obligation spec")
	harnessDir := fs.String("harness", "/verif/harness", "harness directory")
	rtFile := fs.String("rt", "/verif/rt/engine/vrt.go", "zzvrt source for the engine")
	prop := fs.String("prop", "", "property id")
	only := fs.String("only", "", "run only this obligation id")
	tier := fs.String("tier", "quick", "quick|thorough")
	shard := fs.String("shard", "0/1", "i/n")
	out := fs.String("out", "", "result file")
	known := fs.String("known", "/verif/known_findings.txt", "known findings file")
	probe := fs.String("probe", "", "explore inside the region of this known finding")
	solverName := fs.String("solver", "z3", "z3|z3-new|cvc5")
	paramsFlag := fs.String("params", "", "override: single case, comma separated ints")
	fs.BoolVar(&verbose, "v", false, "verbose")
	fs.BoolVar(&stopFirst, "first", false, "stop a case at its first violation")
	fs.IntVar(&maxViol, "maxviol", 12, "violations recorded per case")
	fs.StringVar(&fallbackSolver, "fallback", "cvc5", "second solver asked when the first answers unknown (empty: none)")
	fs.Parse(argv)
	t0 := time.Now()
	probeID = *probe
	loadKnown(*known)

	var specs []Spec
	b, err := os.ReadFile(*specFile)
	if err != nil {
		fatalf("spec: %v", err)
	}
	if err := json.Unmarshal(b, &specs); err != nil {
		fatalf("spec: %v", err)
	}
	more, _ := filepath.Glob(filepath.Join(filepath.Dir(*specFile), "obligations.d", "*.json"))
	sort.Strings(more)
	for _, f := range more {
		var extra []Spec
		b, err := os.ReadFile(f)
		if err != nil {
			fatalf("spec: %v", err)
		}
		if err := json.Unmarshal(b, &extra); err != nil {
			fatalf("spec %s: %v", f, err)
		}
		specs = append(specs, extra...)
	}
	var sel []Spec
	for _, s := range specs {
		if (*prop == "" || s.Property == *prop) && (*only == "" || s.ID == *only) {
			sel = append(sel, s)
		}
	}
	if len(sel) == 0 {
		fatalf("no obligations selected")
	}
	extra := map[string]bool{}
	for _, s := range sel {
		for _, f := range s.ExtraFiles {
			extra[f] = true
		}
	}
	prog, pkgs := loadProgram(harnessOverlay(*harnessDir, *rtFile, *prop, extra), append(append([]string{}, loadPatterns...), "./zzvrt"))
	modPath := ""
	for _, p := range pkgs {
		if p.Module != nil {
			modPath = p.Module.Path
			break
		}
	}
	in = newInterp(prog, modPath)
	setupBigTypes()
	loadS := time.Since(t0).Seconds()
	t1 := time.Now()
	rootSet := map[string]bool{}
	var roots []string
	for _, s := range sel {
		path := modPath
		if s.Pkg != "." && s.Pkg != "" {
			path = modPath + "/" + s.Pkg
		}
		if !rootSet[path] {
			rootSet[path] = true
			roots = append(roots, path)
		}
	}
	for _, lp := range loadPatterns {
		path := modPath
		if lp != "." {
			path = modPath + "/" + strings.TrimPrefix(lp, "./")
		}
		if !rootSet[path] {
			rootSet[path] = true
			roots = append(roots, path)
		}
	}
	in.initPackages(roots)
	initS := time.Since(t1).Seconds()
	journaling = true

	// enumerate cases
	type kase struct {
		spec   Spec
		params []int64
	}
	var cases []kase
	for _, s := range sel {
		if probeID != "" {
			has := false
			for _, c := range s.Carves {
				if c == probeID {
					has = true
				}
			}
			if !has {
				continue
			}
		}
		if *paramsFlag != "" {
			var ps []int64
			for _, f := range strings.Split(*paramsFlag, ",") {
				var v int64
				fmt.Sscan(f, &v)
				ps = append(ps, v)
			}
			cases = append(cases, kase{s, ps})
			continue
		}
		cs := s.Cases[*tier]
		if cs == nil && *tier == "thorough" {
			cs = s.Cases["quick"]
		}
		for _, ps := range cs {
			cases = append(cases, kase{s, ps})
		}
	}
	var si, sn int
	fmt.Sscanf(*shard, "%d/%d", &si, &sn)
	if sn <= 0 {
		sn = 1
	}
	res := ShardResult{Property: *prop, Tier: *tier, Shard: *shard, Probe: probeID, Functions: map[string]int{}, FuncCalls: map[string]int{}, LoadS: loadS, InitS: initS, Faults: map[string]int{}}
	total := Stats{Ends: map[string]int{}, Unsupported: map[string]int{}}
	solverStats := map[string]any{}
	var solvers []*Solver
	for ci, c := range cases {
		if ci%sn != si {
			continue
		}
		to := c.spec.Timeout
		if to == 0 {
			to = 10000
		}
		sv, err := startSolver(*solverName, to)
		if err != nil {
			fatalf("solver: %v", err)
		}
		solvers = append(solvers, sv)
		fmt.Fprintf(os.Stderr, "CASE %s %v ...\n", c.spec.ID, c.params)
		cr := runCase(c.spec, c.params, sv, &res)
		fmt.Fprintf(os.Stderr, "CASE %s %v done: %d paths %.1fs ends=%v\n", c.spec.ID, c.params, cr.Paths, cr.WallS, cr.Ends)
		res.Cases = append(res.Cases, cr)
		mergeStats(&total, &in.ex.stats)
		sv.close()
		if in.ex.solver2 != nil {
			solvers = append(solvers, in.ex.solver2)
			in.ex.solver2.close()
		}
	}
	q, sat, unsat, unk, errs := 0, 0, 0, 0, 0
	var st time.Duration
	for _, s := range solvers {
		q += s.queries
		sat += s.sat
		unsat += s.unsat
		unk += s.unknown
		errs += s.errors
		st += s.time
	}
	solverStats["name"] = *solverName
	solverStats["queries"] = q
	solverStats["sat"] = sat
	solverStats["unsat"] = unsat
	solverStats["unknown"] = unk
	solverStats["errors"] = errs
	solverStats["time_s"] = st.Seconds()
	res.Solver = solverStats
	res.Stats = total
	for fn, n := range in.funcsHit {
		if fn.Pkg == nil || !strings.HasPrefix(fn.Pkg.Pkg.Path(), modPath) || strings.HasSuffix(fn.Pkg.Pkg.Path(), "/zzvrt") {
			continue
		}
		cnt := 0
		for _, b := range fn.Blocks {
			cnt += len(b.Instrs)
		}
		res.Functions[fn.String()] = cnt
		res.FuncCalls[fn.String()] = n
	}
	res.Missing = missingNative
	res.Errors = engineErrors
	res.WallS = time.Since(t0).Seconds()
	res.Extra = map[string]string{"init_steps": fmt.Sprint(initSteps)}
	if len(initFailures) > 0 {
		res.Extra["init_failures"] = strings.Join(initFailures, ",")
	}
	for k, v := range initPoison {
		res.Extra["init_poison: "+k] = fmt.Sprint(v)
	}
	js, _ := json.MarshalIndent(res, "", " ")
	if *out != "" {
		os.WriteFile(*out, js, 0o644)
	} else {
		os.Stdout.Write(js)
		fmt.Println()
	}
}

var engineErrors []string
var stopFirst bool
var maxViol = 12
var overrides = map[string]*ssa.Function{}

func mergeStats(dst, src *Stats) {
	dst.Paths += src.Paths
	for k, v := range src.Ends {
		dst.Ends[k] += v
	}
	dst.Decisions += src.Decisions
	dst.WitnessHits += src.WitnessHits
	dst.DomainDecided += src.DomainDecided
	dst.SolverFeas += src.SolverFeas
	dst.CacheHits += src.CacheHits
	dst.AssertQueries += src.AssertQueries
	dst.AssertUnsat += src.AssertUnsat
	dst.AssertSat += src.AssertSat
	dst.AssertUnknown += src.AssertUnknown
	dst.AssertFolded += src.AssertFolded
	dst.FeasUnknown += src.FeasUnknown
	dst.FallbackDecided += src.FallbackDecided
	for k, v := range src.Unsupported {
		dst.Unsupported[k] += v
	}
	dst.UnwindExceeded += src.UnwindExceeded
	dst.Steps += src.Steps
}

func loadKnown(file string) {
	more, _ := filepath.Glob(filepath.Join(filepath.Dir(file), "known_findings.d", "*.txt"))
	for _, f := range more {
		loadKnown1(f)
	}
	loadKnown1(file)
}

func loadKnown1(file string) {
	b, err := os.ReadFile(file)
	if err != nil {
		return
	}
	for _, l := range strings.Split(string(b), "\n") {
		l = strings.TrimSpace(l)
		if !strings.HasPrefix(l, "known:") {
			continue
		}
		for _, f := range strings.Fields(l) {
			if strings.HasPrefix(f, "id=") {
				knownIDs[strings.TrimPrefix(f, "id=")] = true
			}
		}
	}
}

func runCase(spec Spec, params []int64, sv *Solver, res *ShardResult) CaseResult {
	t0 := time.Now()
	path := in.modPath
	if spec.Pkg != "." && spec.Pkg != "" {
		path = in.modPath + "/" + spec.Pkg
	}
	pkg := in.prog.ImportedPackage(path)
	if pkg == nil {
		fatalf("package %s not loaded", path)
	}
	fn := pkg.Func(spec.Entry)
	if fn == nil {
		fatalf("harness entry %s.%s not found", path, spec.Entry)
	}
	if fn.Signature.Params().Len() != len(params) {
		fatalf("harness %s takes %d parameters, spec gives %d", spec.Entry, fn.Signature.Params().Len(), len(params))
	}
	args := make([]Val, len(params))
	for i, p := range params {
		pt := fn.Signature.Params().At(i).Type()
		if isBoolT(pt) {
			args[i] = p != 0
		} else {
			args[i] = p
		}
	}
	ex := newExplorer(sv)
	if spec.MaxDepth > 0 {
		ex.maxDepth = spec.MaxDepth
	}
	if spec.MaxSteps > 0 {
		ex.maxSteps = spec.MaxSteps
	}
	in.ex = ex
	in.intMode = spec.IntMode
	opaqueIntText = spec.OpaqueIntText
	overrides = map[string]*ssa.Function{}
	for from, to := range spec.Overrides {
		i := strings.LastIndex(to, ".")
		tp := in.prog.ImportedPackage(to[:i])
		if tp == nil || tp.Func(to[i+1:]) == nil {
			fatalf("override target %s not found", to)
		}
		overrides[from] = tp.Func(to[i+1:])
	}
	cr := CaseResult{Obligation: spec.ID, Params: params, Ends: map[string]int{}}
	reached := map[string]bool{}
	ex.work = []workItem{{}}
	maxPaths := spec.MaxPaths
	if maxPaths == 0 {
		maxPaths = 5000000
	}
	seenViol := map[string]bool{}
	for len(ex.work) > 0 {
		if limit := caseLimit(spec); time.Since(t0) > limit {
			cr.Truncated = true
			cr.Inconclusive = append(cr.Inconclusive, fmt.Sprintf("case time budget %s exhausted with %d paths pending", limit, len(ex.work)))
			break
		}
		if ex.stats.Paths >= maxPaths {
			cr.Truncated = true
			cr.Inconclusive = append(cr.Inconclusive, fmt.Sprintf("path budget %d exhausted with %d paths pending", maxPaths, len(ex.work)))
			break
		}
		it := ex.work[len(ex.work)-1]
		ex.work = ex.work[:len(ex.work)-1]
		p := newPath(it.trail, it.model)
		in.path = p
		in.curViolations = nil
		in.depth = 0
		in.nextBox = initBoxes
		end := runPath(fn, args)
		rollback()
		ex.stats.Paths++
		ex.stats.Steps += int64(p.steps)
		ex.stats.Ends[end.kind]++
		switch end.kind {
		case "unsupported", "bound":
			ex.stats.Unsupported[end.msg]++
		case "unwind":
			ex.stats.UnwindExceeded++
			cr.Inconclusive = appendCapped(cr.Inconclusive, "unwind bound exceeded: "+end.msg)
		case "engine-error":
			// a limitation of the engine on this path: reported like an unsupported construct
			first := end.msg
			if i := strings.Index(first, "\n"); i > 0 {
				first = first[:i]
			}
			ex.stats.Unsupported["engine limitation: "+first]++
			engineErrors = appendCapped(engineErrors, end.msg)
		case "escaped-panic":
			cr.Inconclusive = appendCapped(cr.Inconclusive, "panic escaped the harness: "+end.msg)
		}
		for _, f := range p.faults {
			res.Faults[f.kind+" "+f.site]++
		}
		for t := range p.reached {
			reached[t] = true
		}
		for _, v := range in.curViolations {
			key := v.Msg + "|" + v.Site
			if seenViol[key] && len(cr.Violations) >= maxViol/4 {
				continue
			}
			if len(cr.Violations) >= maxViol {
				continue
			}
			seenViol[key] = true
			v.Obligation, v.Entry, v.Pkg, v.Params, v.Probe = spec.ID, spec.Entry, spec.Pkg, params, probeID
			cr.Violations = append(cr.Violations, v)
		}
		if len(cr.Samples) < 3 && end.kind == "returned" && len(p.inputs) > 0 {
			cr.Samples = append(cr.Samples, sampleOf(p))
		}
		if len(cr.Witnesses) < 2 && end.kind == "returned" && len(p.inputs) > 0 && probeID == "" {
			in.curViolations = nil
			recordViolation("", "", p.model)
			w := in.curViolations[0]
			w.Obligation, w.Entry, w.Pkg, w.Params = spec.ID, spec.Entry, spec.Pkg, params
			cr.Witnesses = append(cr.Witnesses, w)
			in.curViolations = nil
		}
		if stopFirst && len(cr.Violations) > 0 {
			break
		}
		cr.Inconclusive = append(cr.Inconclusive, in.inconclusive...)
		in.inconclusive = nil
	}
	cr.Paths = ex.stats.Paths
	cr.Ends = ex.stats.Ends
	for t := range reached {
		cr.Reached = append(cr.Reached, t)
	}
	sort.Strings(cr.Reached)
	cr.WallS = time.Since(t0).Seconds()
	return cr
}

func caseLimit(spec Spec) time.Duration {
	if spec.MaxCaseS > 0 {
		return time.Duration(spec.MaxCaseS) * time.Second
	}
	return 600 * time.Second
}

func appendCapped(s []string, m string) []string {
	if len(s) < 20 {
		return append(s, m)
	}
	return s
}

func sampleOf(p *Path) string {
	var sb strings.Builder
	for i, inp := range p.inputs {
		if i > 0 {
			sb.WriteByte(' ')
		}
		if i >= 12 {
			sb.WriteString("…")
			break
		}
		e := evalTerm(inp.t, p.model)
		if inp.t.sort.K == KInt {
			fmt.Fprintf(&sb, "%s=%s", inp.name, e.z)
		} else {
			fmt.Fprintf(&sb, "%s=%d", inp.name, e.u)
		}
	}
	fmt.Fprintf(&sb, " | pc=%d conjuncts, %d decisions", len(p.pc), len(p.trail))
	return sb.String()
}

func runPath(fn *ssa.Function, args []Val) (end pathEnd) {
	defer func() {
		if r := recover(); r != nil {
			switch r := r.(type) {
			case pathEnd:
				end = r
			case targetPanic:
				end = pathEnd{"escaped-panic", showVal(r.v)}
			case engineError:
				end = pathEnd{"engine-error", r.msg + "\n" + firstLines(r.stack, 30)}
			default:
				end = pathEnd{"engine-error", fmt.Sprintf("%v\n%s", r, firstLines(string(debug.Stack()), 30))}
			}
		}
	}()
	callSSA(nil, 0, fn, args, nil)
	return pathEnd{"returned", ""}
}

func firstLines(s string, n int) string {
	ls := strings.Split(s, "\n")
	if len(ls) > n {
		ls = ls[:n]
	}
	return strings.Join(ls, "\n")
}

var _ = types.Typ
