package main

// The SSA interpreter: frames, instruction dispatch, calls, defer/panic/recover.
// Structure follows golang.org/x/tools/go/ssa/interp; scalars may be symbolic.

import (
	"fmt"
	"go/token"
	"go/types"
	"os"
	"strings"

	"golang.org/x/tools/go/ssa"
)

type targetPanic struct {
	v Val
}

type deferred struct {
	fn   Val
	args []Val
	pos  token.Pos
	tail *deferred
}

type fnInfo struct {
	slots map[ssa.Value]int
	n     int
}

type frame struct {
	caller    *frame
	fn        *ssa.Function
	info      *fnInfo
	regs      []Val
	block     *ssa.BasicBlock
	prev      *ssa.BasicBlock
	locals    []Val
	defers    *deferred
	result    Val
	panicking bool
	panicVal  any
	phitemps  []Val
	callPos   token.Pos
}

type Interp struct {
	prog          *ssa.Program
	globals       map[*ssa.Global]*Val
	infos         map[*ssa.Function]*fnInfo
	ex            *Explorer
	path          *Path
	errStrT       types.Type // runtime.errorString
	initing       bool
	depth         int
	funcsHit      map[*ssa.Function]int
	modPath       string // module path of the code under test
	interpOK      map[string]bool
	intMode       bool // Int-with-wrap encoding for 64-bit symbolic integers (C05)
	nextBox       int64
	curViolations []Violation
	inconclusive  []string
}

var in *Interp
var verbose bool

func (in *Interp) info(fn *ssa.Function) *fnInfo {
	if fi, ok := in.infos[fn]; ok {
		return fi
	}
	fi := &fnInfo{slots: map[ssa.Value]int{}}
	add := func(v ssa.Value) {
		fi.slots[v] = fi.n
		fi.n++
	}
	for _, p := range fn.Params {
		add(p)
	}
	for _, fv := range fn.FreeVars {
		add(fv)
	}
	for _, l := range fn.Locals {
		add(l)
	}
	for _, b := range fn.Blocks {
		for _, ins := range b.Instrs {
			if v, ok := ins.(ssa.Value); ok {
				if _, dup := fi.slots[v]; !dup {
					add(v)
				}
			}
		}
	}
	in.infos[fn] = fi
	return fi
}

func (fr *frame) get(key ssa.Value) Val {
	switch key := key.(type) {
	case nil:
		return nil
	case *ssa.Function:
		return key
	case *ssa.Builtin:
		return key
	case *ssa.Const:
		return constValue(key)
	case *ssa.Global:
		if r, ok := in.globals[key]; ok {
			return r
		}
		return in.globalAddr(key)
	}
	if i, ok := fr.info.slots[key]; ok {
		return fr.regs[i]
	}
	panic(fmt.Sprintf("get: no value for %T: %v", key, key.Name()))
}

func (fr *frame) set(key ssa.Value, v Val) {
	fr.regs[fr.info.slots[key]] = v
}

func (in *Interp) globalAddr(g *ssa.Global) *Val {
	// Global of a package whose init was not interpreted: read natively if we can.
	cell := new(Val)
	name := g.Pkg.Pkg.Path() + "." + g.Name()
	if nv, ok := nativeVars[name]; ok {
		*cell = fromNative(nv.Elem(), deref(g.Type()))
	} else {
		*cell = zero(deref(g.Type()))
		if !in.pkgInterpreted(g.Pkg.Pkg.Path()) {
			*cell = poisonFor(deref(g.Type()), "global "+name+" of a package that is not interpreted")
		}
	}
	in.globals[g] = cell
	return cell
}

func poisonFor(t types.Type, why string) Val {
	return Poison{why}
}

func (in *Interp) pkgInterpreted(path string) bool {
	if path == in.modPath || strings.HasPrefix(path, in.modPath+"/") {
		return true
	}
	return in.interpOK[path]
}

func (in *Interp) pos(p token.Pos) string {
	if p == token.NoPos {
		return "?"
	}
	ps := in.prog.Fset.Position(p)
	f := ps.Filename
	f = strings.TrimPrefix(f, repoDir+"/")
	return fmt.Sprintf("%s:%d", f, ps.Line)
}

func (fr *frame) site(ins ssa.Instruction) string {
	p := ins.Pos()
	if p == token.NoPos {
		// walk back in the block for a position
		for _, i2 := range ins.Block().Instrs {
			if i2.Pos() != token.NoPos {
				p = i2.Pos()
			}
			if i2 == ins {
				break
			}
		}
	}
	return fr.fn.String() + "@" + in.pos(p)
}

// fault raises a Go run-time error inside the interpreted program.
func (fr *frame) fault(ins ssa.Instruction, kind, msg string) {
	site := "?"
	if ins != nil {
		site = fr.site(ins)
	}
	in.path.faults = append(in.path.faults, faultRec{kind: kind, site: site, msg: msg})
	panic(targetPanic{Iface{t: in.errStrT, v: msg}})
}

func unsupported(what string) {
	panic(pathEnd{"unsupported", what})
}

func (fr *frame) runDefer(d *deferred) {
	var ok bool
	defer func() {
		if !ok {
			r := recover()
			if pe, isEnd := r.(pathEnd); isEnd {
				panic(pe)
			}
			if _, isT := r.(targetPanic); !isT {
				panic(r) // engine bug: propagate
			}
			fr.panicking = true
			fr.panicVal = r
		}
	}()
	call(fr, d.pos, d.fn, d.args)
	ok = true
}

func (fr *frame) runDefers() {
	for d := fr.defers; d != nil; d = d.tail {
		fr.runDefer(d)
	}
	fr.defers = nil
	if fr.panicking {
		panic(fr.panicVal)
	}
}

func prepareCall(fr *frame, c *ssa.CallCommon, ins ssa.Instruction) (fn Val, args []Val) {
	v := fr.get(c.Value)
	if c.Method == nil {
		fn = v
	} else {
		recv, ok := v.(Iface)
		if !ok {
			if p, isP := v.(Poison); isP {
				unsupported("poison: " + p.why)
			}
			panic(fmt.Sprintf("invoke on non-interface %T", v))
		}
		if recv.t == nil {
			fr.fault(ins, "nilderef", "invalid memory address or nil pointer dereference")
		}
		if nat, isNat := recv.v.(Native); isNat && !typeInterpreted(recv.t) {
			fn = nativeMethod{nat, c.Method.Name()}
		} else if rt, isRT := recv.v.(rtypeVal); isRT {
			fn = rtypeMethod{rt, c.Method.Name()}
		} else {
			f := in.prog.LookupMethod(recv.t, c.Method.Pkg(), c.Method.Name())
			if f == nil {
				panic(fmt.Sprintf("method set for dynamic type %v does not contain %s", recv.t, c.Method))
			}
			fn = f
			args = append(args, recv.v)
		}
	}
	for _, a := range c.Args {
		args = append(args, fr.get(a))
	}
	return
}

// typeInterpreted: the (pointer to a) named type is defined in an interpreted
// package, so its methods are run from SSA even when the value inside is native
// (e.g. slip.Time wrapping a time.Time).
func typeInterpreted(t types.Type) bool {
	if p, ok := t.Underlying().(*types.Pointer); ok {
		if _, named := types.Unalias(t).(*types.Named); !named {
			t = p.Elem()
		}
	}
	if n, ok := types.Unalias(t).(*types.Named); ok && n.Obj().Pkg() != nil {
		return in.pkgInterpreted(n.Obj().Pkg().Path())
	}
	return false
}

type nativeMethod struct {
	recv Native
	name string
}

func call(caller *frame, pos token.Pos, fn Val, args []Val) Val {
	switch fn := fn.(type) {
	case *ssa.Function:
		if fn == nil {
			caller.fault(nil, "nilderef", "invalid memory address or nil pointer dereference (call of nil func)")
		}
		return callSSA(caller, pos, fn, args, nil)
	case *Closure:
		return callSSA(caller, pos, fn.fn, args, fn.env)
	case *ssa.Builtin:
		return callBuiltin(caller, pos, fn, args)
	case nativeMethod:
		return callNativeMethod(caller, fn, args)
	case rtypeMethod:
		return callRtypeMethod(caller, fn, args)
	case Poison:
		unsupported("call of poison: " + fn.why)
	}
	panic(fmt.Sprintf("cannot call %T", fn))
}

func callSSA(caller *frame, pos token.Pos, fn *ssa.Function, args []Val, env []Val) Val {
	if r, handled := externalCall(caller, pos, fn, args); handled {
		return r
	}
	if fn.Blocks == nil {
		unsupported("no code for function " + fn.String())
	}
	if fn.TypeParams().Len() > 0 && len(fn.TypeArgs()) == 0 {
		unsupported("uninstantiated generic " + fn.String())
	}
	in.depth++
	if in.depth > 3000 {
		in.depth = 0
		panic(pathEnd{"unwind", "call depth > 3000"})
	}
	defer func() { in.depth-- }()
	if !in.initing {
		in.funcsHit[fn]++
	}
	fi := in.info(fn)
	fr := &frame{caller: caller, fn: fn, info: fi, regs: make([]Val, fi.n), callPos: pos}
	fr.block = fn.Blocks[0]
	fr.locals = make([]Val, len(fn.Locals))
	for i, l := range fn.Locals {
		fr.locals[i] = zero(deref(l.Type()))
		fr.regs[fi.slots[l]] = &fr.locals[i]
	}
	for i, p := range fn.Params {
		fr.regs[fi.slots[p]] = args[i]
	}
	for i, fv := range fn.FreeVars {
		fr.regs[fi.slots[fv]] = env[i]
	}
	for fr.block != nil {
		runFrame(fr)
	}
	return fr.result
}

func runFrame(fr *frame) {
	defer func() {
		if fr.block == nil {
			return // normal return
		}
		r := recover()
		if pe, isEnd := r.(pathEnd); isEnd {
			panic(pe)
		}
		if _, isT := r.(targetPanic); !isT {
			// engine bug or Go runtime error inside the engine
			if _, already := r.(engineError); already {
				panic(r)
			}
			panic(engineError{fmt.Sprintf("%v (in %s)", r, fr.fn), stackOf()})
		}
		fr.panicking = true
		fr.panicVal = r
		fr.runDefers()
		fr.block = fr.fn.Recover
		if fr.block == nil {
			// no named results: return zero values
			fr.result = zeroResults(fr.fn)
		}
	}()
	for {
		nonPhis := executePhis(fr)
		for _, instr := range nonPhis {
			in.path.steps++
			if in.path.steps > in.ex.maxSteps {
				panic(pathEnd{"unwind", fmt.Sprintf("more than %d instructions on one path", in.ex.maxSteps)})
			}
			var k continuation
			if in.initing {
				k = visitInstrInit(fr, instr)
			} else {
				k = visitInstr(fr, instr)
			}
			if k == kReturn {
				return
			}
		}
	}
}

// visitInstrInit: during package initialisation an instruction the engine
// cannot perform yields a poison value instead of stopping initialisation.
func visitInstrInit(fr *frame, instr ssa.Instruction) (k continuation) {
	defer func() {
		if r := recover(); r != nil {
			pe, ok := r.(pathEnd)
			if !ok || (pe.kind != "unsupported") {
				panic(r)
			}
			if _, isCtl := instr.(interface{ isControl() }); isCtl {
				panic(r)
			}
			switch instr.(type) {
			case *ssa.If, *ssa.Jump, *ssa.Return, *ssa.Panic:
				panic(r)
			}
			initPoison[pe.msg]++
			if v, isVal := instr.(ssa.Value); isVal {
				fr.set(v, Poison{pe.msg})
			}
			k = kNext
		}
	}()
	return visitInstr(fr, instr)
}

var initPoison = map[string]int{}

type engineError struct {
	msg   string
	stack string
}

func zeroResults(fn *ssa.Function) Val {
	res := fn.Signature.Results()
	switch res.Len() {
	case 0:
		return nil
	case 1:
		return zero(res.At(0).Type())
	}
	t := make(Tuple, res.Len())
	for i := range t {
		t[i] = zero(res.At(i).Type())
	}
	return t
}

func executePhis(fr *frame) []ssa.Instruction {
	firstNonPhi := -1
	for i, instr := range fr.block.Instrs {
		if _, ok := instr.(*ssa.Phi); !ok {
			firstNonPhi = i
			break
		}
	}
	nonPhis := fr.block.Instrs[firstNonPhi:]
	if firstNonPhi > 0 {
		phis := fr.block.Instrs[:firstNonPhi]
		predIndex := -1
		for i, p := range fr.block.Preds {
			if p == fr.prev {
				predIndex = i
				break
			}
		}
		fr.phitemps = fr.phitemps[:0]
		for _, phi := range phis {
			fr.phitemps = append(fr.phitemps, fr.get(phi.(*ssa.Phi).Edges[predIndex]))
		}
		for i, phi := range phis {
			fr.set(phi.(*ssa.Phi), fr.phitemps[i])
		}
	}
	return nonPhis
}

func doRecover(caller *frame) Val {
	if caller != nil && !caller.panicking && caller.caller != nil && caller.caller.panicking {
		caller.caller.panicking = false
		p := caller.caller.panicVal
		caller.caller.panicVal = nil
		switch p := p.(type) {
		case targetPanic:
			return p.v
		default:
			panic(fmt.Sprintf("unexpected panic type %T in target call to recover()", p))
		}
	}
	return Iface{}
}

// boxFor models the data word the Go runtime produces when a value is
// converted to an interface: pointer-shaped values are their own identity;
// other values are boxed, with the runtime's sharing rules (single-byte values,
// integers < 256, empty string, nil slice use static storage).
func boxFor(t types.Type, v Val) int64 {
	switch u := t.Underlying().(type) {
	case *types.Pointer, *types.Map, *types.Chan, *types.Signature, *types.Interface:
		return 0
	case *types.Basic:
		if u.Kind() == types.UnsafePointer {
			return 0
		}
		if w, _, ok := intInfo(u); ok {
			if w == 8 {
				return 0
			}
			switch x := v.(type) {
			case int64:
				if uint64(x)&mask(w) < 256 {
					return 0
				}
			}
		}
		if isBoolT(u) {
			return 0
		}
		if isString(u) {
			if strLen(v) == 0 {
				return 0
			}
		}
	case *types.Slice:
		if s, ok := v.([]Val); ok && s == nil {
			return 0
		}
	case *types.Struct:
		if u.NumFields() == 0 {
			return 0
		}
	}
	in.nextBox++
	return in.nextBox
}

type continuation int

const (
	kNext continuation = iota
	kReturn
	kJump
)

func asInt(v Val) (int64, bool) {
	i, ok := v.(int64)
	return i, ok
}

func checkPoison(v Val) {
	if p, ok := v.(Poison); ok {
		unsupported("poison: " + p.why)
	}
}

func visitInstr(fr *frame, instr ssa.Instruction) continuation {
	switch instr := instr.(type) {
	case *ssa.DebugRef:
	case *ssa.UnOp:
		fr.set(instr, unop(fr, instr, fr.get(instr.X)))
	case *ssa.BinOp:
		fr.set(instr, binop(fr, instr, instr.Op, instr.X.Type(), fr.get(instr.X), fr.get(instr.Y)))
	case *ssa.Call:
		fn, args := prepareCall(fr, &instr.Call, instr)
		fr.set(instr, call(fr, instr.Pos(), fn, args))
	case *ssa.ChangeInterface:
		fr.set(instr, fr.get(instr.X))
	case *ssa.ChangeType:
		fr.set(instr, fr.get(instr.X))
	case *ssa.Convert:
		fr.set(instr, conv(fr, instr, instr.Type(), instr.X.Type(), fr.get(instr.X)))
	case *ssa.SliceToArrayPointer:
		unsupported("SliceToArrayPointer")
	case *ssa.MakeInterface:
		v := fr.get(instr.X)
		fr.set(instr, Iface{t: instr.X.Type(), v: v, box: boxFor(instr.X.Type(), v)})
	case *ssa.Extract:
		tup := fr.get(instr.Tuple)
		checkPoison(tup)
		fr.set(instr, tup.(Tuple)[instr.Index])
	case *ssa.Slice:
		fr.set(instr, sliceOp(fr, instr))
	case *ssa.Return:
		switch len(instr.Results) {
		case 0:
		case 1:
			fr.result = fr.get(instr.Results[0])
		default:
			res := make(Tuple, 0, len(instr.Results))
			for _, r := range instr.Results {
				res = append(res, fr.get(r))
			}
			fr.result = res
		}
		fr.block = nil
		return kReturn
	case *ssa.RunDefers:
		fr.runDefers()
	case *ssa.Panic:
		panic(targetPanic{fr.get(instr.X)})
	case *ssa.Send:
		chanSend(fr, instr, asChan17(fr.get(instr.Chan)), fr.get(instr.X))
	case *ssa.Store:
		addr := fr.get(instr.Addr)
		checkPoison(addr)
		p, ok := asPtr(addr)
		if !ok {
			unsupported(fmt.Sprintf("store through %T", addr))
		}
		if p == nil {
			fr.fault(instr, "nilderef", "invalid memory address or nil pointer dereference")
		}
		if len(cellGuards) > 0 {
			guardCheck(fr, instr, cellGuards[p], true)
		}
		store(p, fr.get(instr.Val))
	case *ssa.If:
		c := fr.get(instr.Cond)
		succ := 1
		switch c := c.(type) {
		case bool:
			if c {
				succ = 0
			}
		case *Term:
			if in.ex.branch(in.path, c) {
				succ = 0
			}
		case Poison:
			unsupported("poison: " + c.why)
		default:
			panic(fmt.Sprintf("If on %T", c))
		}
		fr.prev, fr.block = fr.block, fr.block.Succs[succ]
		return kJump
	case *ssa.Jump:
		fr.prev, fr.block = fr.block, fr.block.Succs[0]
		return kJump
	case *ssa.Defer:
		fn, args := prepareCall(fr, &instr.Call, instr)
		fr.defers = &deferred{fn: fn, args: args, pos: instr.Pos(), tail: fr.defers}
	case *ssa.Go:
		fn, args := prepareCall(fr, &instr.Call, instr)
		goStmt(fr, instr, fn, args)
	case *ssa.MakeChan:
		n, ok := asInt(fr.get(instr.Size))
		if !ok {
			unsupported("symbolic channel size")
		}
		fr.set(instr, &Chan{cap: int(n)})
	case *ssa.Alloc:
		var addr *Val
		if instr.Heap {
			addr = new(Val)
			fr.set(instr, addr)
		} else {
			addr = fr.get(instr).(*Val)
		}
		*addr = zero(deref(instr.Type()))
	case *ssa.MakeSlice:
		fr.set(instr, makeSlice(fr, instr))
	case *ssa.MakeMap:
		fr.set(instr, newMap(instr.Type().Underlying().(*types.Map).Key()))
	case *ssa.Range:
		fr.set(instr, rangeIter(fr, instr, fr.get(instr.X)))
	case *ssa.Next:
		fr.set(instr, fr.get(instr.Iter).(iter).next(fr, instr))
	case *ssa.FieldAddr:
		x := fr.get(instr.X)
		checkPoison(x)
		p, ok := asPtr(x)
		if !ok {
			unsupported(fmt.Sprintf("FieldAddr on %T in %s", x, fr.fn))
		}
		if p == nil {
			fr.fault(instr, "nilderef", "invalid memory address or nil pointer dereference")
		}
		s, ok := (*p).(Struct)
		if !ok {
			unsupported(fmt.Sprintf("FieldAddr: cell holds %T (%s)", *p, fr.fn))
		}
		fr.set(instr, &s[instr.Field])
	case *ssa.Field:
		x := fr.get(instr.X)
		checkPoison(x)
		fr.set(instr, x.(Struct)[instr.Field])
	case *ssa.IndexAddr:
		fr.set(instr, indexAddr(fr, instr))
	case *ssa.Index:
		fr.set(instr, indexOp(fr, instr))
	case *ssa.Lookup:
		fr.set(instr, lookupOp(fr, instr))
	case *ssa.MapUpdate:
		m := fr.get(instr.Map)
		checkPoison(m)
		mm := m.(*Map)
		if mm == nil {
			fr.fault(instr, "nilmap", "assignment to entry in nil map")
		}
		mapInsert(fr, instr, mm, fr.get(instr.Key), fr.get(instr.Value))
	case *ssa.TypeAssert:
		fr.set(instr, typeAssert(fr, instr, fr.get(instr.X)))
	case *ssa.MakeClosure:
		var bindings []Val
		for _, b := range instr.Bindings {
			bindings = append(bindings, fr.get(b))
		}
		fr.set(instr, &Closure{instr.Fn.(*ssa.Function), bindings})
	case *ssa.Select:
		fr.set(instr, selectOp(fr, instr))
	default:
		panic(fmt.Sprintf("unexpected instruction: %T", instr))
	}
	return kNext
}

// Goroutines, channel operations and select are modelled in x_c17.go
// (deterministic cooperative tasks).

func goStmt(fr *frame, instr *ssa.Go, fn Val, args []Val) { goStmt17(fr, instr, fn, args) }

func chanSend(fr *frame, instr ssa.Instruction, ch *Chan, v Val) { chanSend17(fr, instr, ch, v) }

func chanRecv(fr *frame, ch *Chan, elem types.Type) (Val, bool) { return chanRecv17(fr, ch, elem) }

func selectOp(fr *frame, instr *ssa.Select) Val { return selectOp17(fr, instr) }

func fatalf(format string, args ...any) {
	fmt.Fprintf(os.Stderr, format+"\n", args...)
	os.Exit(2)
}
