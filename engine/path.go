package main

// Path state: path condition, decision trail, witness model, feasibility
// checks (constant folding -> witness model -> small-domain evaluation -> z3).

import (
	"fmt"
	"sort"
	"strconv"
	"strings"
)

type workItem struct {
	trail []int
	model Model
}

type pathEnd struct {
	kind string // returned | assume-false | unsupported | unwind | infeasible | engine-error | crashed | opaque
	msg  string
}

type Path struct {
	pc      []*Term
	trail   []int // decisions taken so far on this path
	prefix  []int // decisions to replay
	model   Model
	nvar    map[string]int // occurrence counters for named symbolic values
	inputs  []inputRec
	reached map[string]bool
	traces  []string
	faults  []faultRec
	asserts int
	steps   int
	// small-domain tracking
	dom       map[int]*[4]uint64 // var id -> allowed values bitset (8-bit vars)
	nonUnary  map[int]bool       // var id occurs in a non-unary conjunct
	depth     int
	guardViol []string
	uncertain bool // some branch on this path was kept although the solver could not decide it
}

type inputRec struct {
	name string
	t    *Term
}

type faultRec struct {
	kind string
	site string
	msg  string
}

var fallbackSolver string

type Explorer struct {
	solver       *Solver
	solver2      *Solver
	work         []workItem
	cache        map[string]cacheEnt
	unaryCache   map[int]*[4]uint64
	maxDepth     int
	maxSteps     int
	stats        Stats
	feasTimeouts int
}

type cacheEnt struct {
	res   string
	model Model
}

type Stats struct {
	Paths           int            `json:"paths"`
	Ends            map[string]int `json:"path_ends"`
	Decisions       int            `json:"symbolic_branch_decisions"`
	WitnessHits     int            `json:"feasible_by_witness"`
	DomainDecided   int            `json:"feasible_by_small_domain_eval"`
	SolverFeas      int            `json:"feasibility_queries"`
	CacheHits       int            `json:"query_cache_hits"`
	AssertQueries   int            `json:"assert_queries"`
	AssertUnsat     int            `json:"assert_unsat"`
	AssertSat       int            `json:"assert_sat"`
	AssertUnknown   int            `json:"assert_unknown"`
	AssertFolded    int            `json:"assert_true_by_term_identity"`
	FeasUnknown     int            `json:"feasibility_unknown_branch_kept"`
	FallbackDecided int            `json:"decided_by_fallback_solver"`
	Unsupported     map[string]int `json:"unsupported"`
	UnwindExceeded  int            `json:"unwind_exceeded"`
	Steps           int64          `json:"ssa_instructions_executed"`
}

func newExplorer(s *Solver) *Explorer {
	return &Explorer{solver: s, cache: map[string]cacheEnt{}, unaryCache: map[int]*[4]uint64{}, maxDepth: 400, maxSteps: 20000000,
		stats: Stats{Ends: map[string]int{}, Unsupported: map[string]int{}}}
}

func newPath(prefix []int, model Model) *Path {
	if model == nil {
		model = Model{}
	}
	return &Path{prefix: prefix, model: model, nvar: map[string]int{}, reached: map[string]bool{}, dom: map[int]*[4]uint64{}, nonUnary: map[int]bool{}}
}

// addPC appends a conjunct to the path condition, maintaining the domains.
func (ex *Explorer) addPC(p *Path, c *Term) {
	if c.isTrue() {
		return
	}
	p.pc = append(p.pc, c)
	vs := c.varIDs()
	if len(vs) == 1 && termList[vs[0]].sort.K == KBV && termList[vs[0]].sort.W <= 8 {
		v := vs[0]
		bs := ex.unaryBits(c, v)
		if d, ok := p.dom[v]; ok {
			nd := *d
			for i := range nd {
				nd[i] &= bs[i]
			}
			p.dom[v] = &nd
		} else {
			nd := *bs
			p.dom[v] = &nd
		}
		return
	}
	for _, v := range vs {
		p.nonUnary[v] = true
	}
}

func (ex *Explorer) unaryBits(c *Term, v int) *[4]uint64 {
	if b, ok := ex.unaryCache[c.id]; ok {
		return b
	}
	var bs [4]uint64
	w := termList[v].sort.W
	m := Model{}
	for x := 0; x < (1 << uint(w)); x++ {
		m[v] = EVal{u: uint64(x)}
		if evalBool(c, m) {
			bs[x>>6] |= 1 << uint(x&63)
		}
	}
	ex.unaryCache[c.id] = &bs
	return &bs
}

// feasible decides whether pc ∧ c is satisfiable.  Returns (answer, model);
// answer "unknown" is treated as feasible by callers, with the old model.
func (ex *Explorer) feasible(p *Path, c *Term) (string, Model) {
	if c.isTrue() {
		return "sat", p.model
	}
	if c.isFalse() {
		return "unsat", nil
	}
	if evalBool(c, p.model) {
		ex.stats.WitnessHits++
		return "sat", p.model
	}
	vs := c.varIDs()
	// small domain: a single <=8-bit variable that is only constrained by unary conjuncts
	if len(vs) == 1 && !p.nonUnary[vs[0]] && termList[vs[0]].sort.K == KBV && termList[vs[0]].sort.W <= 8 {
		v := vs[0]
		bs := ex.unaryBits(c, v)
		d := p.dom[v]
		ex.stats.DomainDecided++
		for i := 0; i < 4; i++ {
			x := bs[i]
			if d != nil {
				x &= d[i]
			}
			if x != 0 {
				bit := 0
				for x&1 == 0 {
					x >>= 1
					bit++
				}
				m := p.model.clone()
				m[v] = EVal{u: uint64(i*64 + bit)}
				return "sat", m
			}
		}
		return "unsat", nil
	}
	// slice the path condition to the conjuncts sharing variables (transitively)
	rel := ex.slice(p, vs)
	rel = append(rel, c)
	res, m := ex.cachedCheck(rel, &ex.stats.SolverFeas)
	if res == "sat" {
		nm := p.model.clone()
		for k, v := range m {
			nm[k] = v
		}
		return "sat", nm
	}
	return res, nil
}

func (ex *Explorer) slice(p *Path, vs []int) []*Term {
	inset := map[int]bool{}
	for _, v := range vs {
		inset[v] = true
	}
	used := make([]bool, len(p.pc))
	var rel []*Term
	for changed := true; changed; {
		changed = false
		for i, c := range p.pc {
			if used[i] {
				continue
			}
			cv := c.varIDs()
			hit := false
			for _, v := range cv {
				if inset[v] {
					hit = true
					break
				}
			}
			if hit {
				used[i] = true
				rel = append(rel, c)
				for _, v := range cv {
					if !inset[v] {
						inset[v] = true
						changed = true
					}
				}
			}
		}
	}
	return rel
}

func (ex *Explorer) cachedCheck(asserts []*Term, counter *int) (string, Model) {
	ids := make([]int, len(asserts))
	for i, a := range asserts {
		ids[i] = a.id
	}
	sort.Ints(ids)
	var sb strings.Builder
	last := -1
	for _, id := range ids {
		if id == last {
			continue
		}
		last = id
		sb.WriteString(strconv.Itoa(id))
		sb.WriteByte(',')
	}
	key := sb.String()
	if e, ok := ex.cache[key]; ok {
		ex.stats.CacheHits++
		return e.res, e.model
	}
	*counter++
	res, m := ex.solver.check(asserts)
	if res == "unknown" && fallbackSolver != "" {
		// second opinion from another solver (non-linear integer queries)
		if ex.solver2 == nil {
			ex.solver2, _ = startSolver(fallbackSolver, ex.solver.timeout)
		}
		if ex.solver2 != nil {
			res, m = ex.solver2.check(asserts)
			if res != "unknown" {
				ex.stats.FallbackDecided++
			}
		}
	}
	ex.cache[key] = cacheEnt{res, m}
	return res, m
}

// choose picks one of the alternative conditions; the others that are
// feasible are queued as new paths.  Returns the index taken.
func (ex *Explorer) choose(p *Path, alts []*Term) int {
	pos := len(p.trail)
	if pos < len(p.prefix) {
		k := p.prefix[pos]
		p.trail = append(p.trail, k)
		ex.addPC(p, alts[k])
		return k
	}
	ex.stats.Decisions++
	if len(p.trail) >= ex.maxDepth {
		panic(pathEnd{"unwind", fmt.Sprintf("more than %d symbolic decisions on one path", ex.maxDepth)})
	}
	first := -1
	var firstModel Model
	type alt struct {
		k int
		m Model
	}
	var others []alt
	for k, c := range alts {
		res, m := ex.feasible(p, c)
		if res == "unsat" {
			continue
		}
		if res != "sat" {
			m = p.model // unknown: keep the branch, model may be stale
			ex.feasTimeouts++
			ex.stats.FeasUnknown++
			p.uncertain = true
		}
		if first < 0 {
			first, firstModel = k, m
		} else {
			others = append(others, alt{k, m})
		}
	}
	if first < 0 {
		panic(pathEnd{"infeasible", "no feasible alternative"})
	}
	for i := len(others) - 1; i >= 0; i-- {
		o := others[i]
		tr := make([]int, len(p.trail)+1)
		copy(tr, p.trail)
		tr[len(p.trail)] = o.k
		ex.work = append(ex.work, workItem{trail: tr, model: o.m})
	}
	p.trail = append(p.trail, first)
	p.model = firstModel
	ex.addPC(p, alts[first])
	return first
}

// branch decides a boolean condition.
func (ex *Explorer) branch(p *Path, c *Term) bool {
	if c.isTrue() {
		return true
	}
	if c.isFalse() {
		return false
	}
	return ex.choose(p, []*Term{c, mkNot(c)}) == 0
}
