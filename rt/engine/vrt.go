// Package zzvrt is the harness API.  This is the variant compiled into the SSA
// that the symbolic engine executes: every function is intercepted by the
// engine, the bodies are never run.
package zzvrt

import "math/big"

func Int(name string) int             { return 0 }
func Int64(name string) int64         { return 0 }
func Uint64(name string) uint64       { return 0 }
func Int32(name string) int32         { return 0 }
func Rune(name string) rune           { return 0 }
func Byte(name string) byte           { return 0 }
func Bool(name string) bool           { return false }
func Bytes(name string, n int) []byte { return make([]byte, n) }
func String(name string, n int) string {
	return string(make([]byte, n))
}
func Choice(name string, n int) int { return 0 }

// Big returns a symbolic big integer of unbounded magnitude.
func Big(name string) *big.Int { return new(big.Int) }
func Assume(c bool)                 {}
func Assert(c bool, msg string)     {}
func Reach(tag string)              {}
func Carve(id string, region bool)  {}
func Note(tag string, v ...any)     {}
func HeldLocks() int                { return 0 }

// Guard tells the lockset monitor that obj (a map, or a pointer to a variable)
// may only be accessed while mu (pointer to a sync.Mutex / RWMutex) is held.
func Guard(obj any, mu any, name string) {}

// GuardField is Guard with the mutex taken from the (possibly unexported,
// possibly embedded) field of the struct *holder: the engine reads it directly.
func GuardField(obj any, holder any, field string, name string) {}

// GuardViolations is the number of monitored accesses made without the mutex.
func GuardViolations() int { return 0 }
func Symbolic() bool                { return true }
func Faults() int                   { return 0 }
func Unsupported(why string)        {}
