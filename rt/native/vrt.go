// Package zzvrt is the harness API.  This is the native variant used to replay
// a solver model against the natively compiled code: values come from the JSON
// file named by VERIF_REPLAY, by name and occurrence.
package zzvrt

import (
	"encoding/json"
	"fmt"
	"math/big"
	"os"
)

type replay struct {
	Values map[string]string `json:"values"`
}

var rp replay
var loaded bool
var occ = map[string]int{}

func load() {
	if loaded {
		return
	}
	loaded = true
	f := os.Getenv("VERIF_REPLAY")
	if f == "" {
		fmt.Println("VERIF-REPLAY-MISSING")
		os.Exit(4)
	}
	b, err := os.ReadFile(f)
	if err != nil {
		fmt.Println("VERIF-REPLAY-MISSING", err)
		os.Exit(4)
	}
	if err = json.Unmarshal(b, &rp); err != nil {
		fmt.Println("VERIF-REPLAY-BAD", err)
		os.Exit(4)
	}
}

func get(name string) uint64 {
	load()
	occ[name]++
	n := name
	if occ[name] > 1 {
		n = fmt.Sprintf("%s#%d", name, occ[name])
	}
	s, ok := rp.Values[n]
	if !ok {
		return 0
	}
	z, _ := new(big.Int).SetString(s, 10)
	if z == nil {
		return 0
	}
	if z.Sign() < 0 {
		return uint64(z.Int64())
	}
	return z.Uint64()
}

func Int(name string) int       { return int(get(name)) }
func Int64(name string) int64   { return int64(get(name)) }
func Uint64(name string) uint64 { return get(name) }
func Int32(name string) int32   { return int32(get(name)) }
func Rune(name string) rune     { return rune(get(name)) }
func Byte(name string) byte     { return byte(get(name)) }
func Bool(name string) bool     { return get(name) != 0 }
func Bytes(name string, n int) []byte {
	b := make([]byte, n)
	for i := range b {
		b[i] = byte(get(fmt.Sprintf("%s[%d]", name, i)))
	}
	return b
}
func String(name string, n int) string { return string(Bytes(name, n)) }
// Big returns the replayed big integer.
func Big(name string) *big.Int {
	load()
	occ[name]++
	k := name
	if occ[name] > 1 {
		k = fmt.Sprintf("%s#%d", name, occ[name])
	}
	z, ok := new(big.Int).SetString(rp.Values[k], 10)
	if !ok {
		return new(big.Int)
	}
	return z
}

func Choice(name string, n int) int {
	if n <= 1 {
		return 0
	}
	return int(get(name))
}
func Assume(c bool) {
	if !c {
		fmt.Println("VERIF-ASSUME-FAILED")
		os.Exit(5)
	}
}
func Assert(c bool, msg string) {
	if !c {
		fmt.Println("VERIF-ASSERT-FAILED " + msg)
		os.Exit(3)
	}
}
func Reach(tag string) { fmt.Println("VERIF-REACH " + tag) }

// Carve is a no-op natively: the model being replayed already lies inside or
// outside the region as the engine decided.
func Carve(id string, region bool) {}
func Note(tag string, v ...any) {
	fmt.Print("VERIF-NOTE ", tag)
	for _, x := range v {
		fmt.Print(" ", x)
	}
	fmt.Println()
}
func HeldLocks() int         { return -1 }
func Guard(obj any, mu any, name string) {}
func GuardField(obj any, holder any, field string, name string) {}
func GuardViolations() int   { return 0 }
func Symbolic() bool         { return false }
func Faults() int            { return -1 }
func Unsupported(why string) {}
