package slip

import (
	vrt "github.com/ohler55/slip/zzvrt"
)

const zzAlphaPrefix = "()'`,\" a"

// zzInsidePrefix: independent scanner over the alphabet ( ) ' ` , " a and
// blank: the text stops inside a list or a string, or right after a reader
// prefix (quote, backquote, comma) that still waits for its datum.
// ok = false: the scanner has no opinion (a closing parenthesis without an
// opening one, or directly after a prefix).
func zzInsidePrefix(src []byte) (inside bool, ok bool) {
	depth := 0
	str := false
	pending := false
	for _, c := range src {
		if str {
			if c == '"' {
				str = false
			}
			continue
		}
		switch c {
		case '"':
			str = true
			pending = false
		case '\'', '`', ',':
			pending = true
		case '(':
			depth++
			pending = false
		case ')':
			if pending || depth == 0 {
				return false, false
			}
			depth--
		case ' ':
		default:
			pending = false
		}
	}
	return str || 0 < depth || pending, true
}

// VerifC02TruncatedPrefix: a text that stops right after ' ` or , (or inside a
// list or string) is reported, not read as the shorter sequence of objects,
// whole and delivered in two pieces.
func VerifC02TruncatedPrefix(n int, k int) {
	src := vrt.Bytes("src", n)
	zzAlphabet(src, zzAlphaPrefix)
	scope := NewScope()
	whole := zzRun(func() (Code, int) { return Read(append([]byte{}, src...), scope), 0 })
	parts := zzRun(func() (Code, int) {
		return ReadStream(&zzCutReader{src: src, cuts: []int{k}}, scope)
	})
	vrt.Reach("compared")
	inside, ok := zzInsidePrefix(src)
	if ok && inside {
		vrt.Assert(whole.class != 0, "text ending inside a form or after a reader prefix was read as a value")
		vrt.Assert(parts.class != 0, "streamed text ending inside a form or after a reader prefix was read as a value")
	}
	vrt.Assert(whole.class != 3 && parts.class != 3, "Go run-time fault while reading")
	vrt.Assert(zzSameOutcome(whole, parts), "truncated text: chunked read differs from whole read")
}
