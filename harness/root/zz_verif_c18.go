package slip

import (
	"encoding/json"
	"strconv"
	"time"

	vrt "github.com/ohler55/slip/zzvrt"
)

// ---------------------------------------------------------------------------
// C18 (Go data bridge): Simplify(SimpleObject(v)) returns the same data.
// "The same" is read modulo the documented target kinds of Simplify (nil,
// bool, int64, float64, string, []any, map[string]any, time.Time): an integer
// of any Go kind must come back as the int64 of the same numeric value, a
// float32 as the float64 of the same value, a []byte as the string with the
// same bytes.
// ---------------------------------------------------------------------------

type zzC18Out struct {
	val   any
	class int // 0 value, 1 lisp condition, 3 Go run-time fault, 4 other
	fault string
}

func zzC18Run(f func() any) (out zzC18Out) {
	defer func() {
		if rec := recover(); rec != nil {
			switch tr := rec.(type) {
			case *Panic:
				out.class = 1
			case Instance:
				out.class = 1
			case interface{ RuntimeError() }:
				out.class = 3
				out.fault = tr.(error).Error()
			default:
				out.class = 4
			}
			out.val = nil
		}
	}()
	out.val = f()
	return
}

func zzC18Trip(v any) zzC18Out {
	return zzC18Run(func() any { return Simplify(SimpleObject(v)) })
}

type zzC18Err string

func (e zzC18Err) Error() string { return string(e) }

var zzC18Floats = []float64{0, 1.5, -2.25, 1e300, 3.0e-7, 16777217}
var zzC18Floats32 = []float32{0, 1.5, -2.25, 3.0e-7, 1e30}

// VerifC18Scalar: one scalar of the Go kind selected by kind, symbolic payload.
func VerifC18Scalar(kind int, n int) {
	var (
		v       any
		wantInt bool
		want    int64
		wantU   uint64
		isU     bool
	)
	switch kind {
	case 0: // nil
		out := zzC18Trip(nil)
		vrt.Reach("compared")
		vrt.Assert(out.class == 0 && out.val == nil, "nil does not come back as nil")
		return
	case 1: // bool
		b := vrt.Bool("b")
		vrt.Carve("C18-false-becomes-nil", !b)
		out := zzC18Trip(b)
		vrt.Reach("compared")
		rb, ok := out.val.(bool)
		vrt.Assert(out.class == 0 && ok && rb == b, "bool does not come back as the same bool")
		return
	case 2:
		x := vrt.Int("xint")
		v, wantInt, want = x, true, int64(x)
	case 3:
		x := vrt.Int64("xi8")
		vrt.Assume(-128 <= x && x <= 127)
		v, wantInt, want = int8(x), true, x
	case 4:
		x := vrt.Int64("xi16")
		vrt.Assume(-32768 <= x && x <= 32767)
		v, wantInt, want = int16(x), true, x
	case 5:
		x := vrt.Int32("xi32")
		v, wantInt, want = x, true, int64(x)
	case 6:
		x := vrt.Int64("xi64")
		v, wantInt, want = x, true, x
	case 19: // json.Number holding an integer (what ojg delivers for integers of 19 and more digits)
		zzC18JSONNumber()
		return
	case 7:
		if n == 1 {
			zzC18BigUnsigned(false)
			return
		}
		x := vrt.Uint64("xuint")
		v, wantInt, isU, wantU = uint(x), true, true, x
	case 8:
		x := vrt.Byte("xu8")
		v, wantInt, isU, wantU = x, true, true, uint64(x)
	case 9:
		x := vrt.Uint64("xu16")
		vrt.Assume(x <= 0xFFFF)
		v, wantInt, isU, wantU = uint16(x), true, true, x
	case 10:
		x := vrt.Uint64("xu32")
		vrt.Assume(x <= 0xFFFFFFFF)
		v, wantInt, isU, wantU = uint32(x), true, true, x
	case 11:
		if n == 1 {
			zzC18BigUnsigned(true)
			return
		}
		x := vrt.Uint64("xu64")
		v, wantInt, isU, wantU = x, true, true, x
	case 12: // float32 (concrete table: floats are concrete only in this engine)
		f := zzC18Floats32[vrt.Choice("f", len(zzC18Floats32))]
		out := zzC18Trip(f)
		vrt.Reach("compared")
		rf, ok := out.val.(float64)
		vrt.Assert(out.class == 0 && ok && rf == float64(f), "float32 does not come back as the float64 of the same value")
		return
	case 13:
		f := zzC18Floats[vrt.Choice("f", len(zzC18Floats))]
		out := zzC18Trip(f)
		vrt.Reach("compared")
		rf, ok := out.val.(float64)
		vrt.Assert(out.class == 0 && ok && rf == f, "float64 does not come back as the same float64")
		return
	case 14: // string of n symbolic bytes
		s := vrt.String("s", n)
		out := zzC18Trip(s)
		vrt.Reach("compared")
		rs, ok := out.val.(string)
		vrt.Assert(out.class == 0 && ok && rs == s, "string does not come back as the same string")
		return
	case 15: // []byte of n symbolic bytes
		bs := vrt.Bytes("s", n)
		keep := string(bs)
		out := zzC18Trip(bs)
		vrt.Reach("compared")
		rs, ok := out.val.(string)
		vrt.Assert(out.class == 0 && ok && rs == keep, "[]byte does not come back as the string of the same bytes")
		return
	case 16: // time.Time, concrete instants (time is an external package)
		secs := []int64{0, 1700000000, -1, 253402300799}
		k := vrt.Choice("t", len(secs))
		t := time.Unix(secs[k], int64(k)*1001).UTC()
		out := zzC18Trip(t)
		vrt.Reach("compared")
		rt, ok := out.val.(time.Time)
		vrt.Assert(out.class == 0 && ok && rt.Equal(t) && rt.UnixNano() == t.UnixNano(), "time.Time does not come back as the same instant")
		return
	case 17: // a slip Object is passed through unchanged
		x := vrt.Int64("xobj")
		out := zzC18Trip(Fixnum(x))
		vrt.Reach("compared")
		r, ok := out.val.(int64)
		vrt.Assert(out.class == 0 && ok && r == x, "an Object does not pass through the bridge")
		return
	case 18: // error -> its text
		out := zzC18Trip(zzC18Err("boom"))
		vrt.Reach("compared")
		rs, ok := out.val.(string)
		vrt.Assert(out.class == 0 && ok && rs == "boom", "an error does not come back as its text")
		return
	}
	if isU {
		vrt.Carve("C18-uint64-wraps-negative", wantU >= 1<<63)
		// since fix b2e735f a uint/uint64 from 2^63 on becomes a bignum, which
		// Simplify returns as its decimal text: the engine can not write the text
		// of a symbolic big integer, so that range is checked on concrete values
		// (cases [7,1] and [11,1], zzC18BigUnsigned) and excluded here
		vrt.Assume(wantU < 1<<63)
	}
	out := zzC18Trip(v)
	vrt.Reach("compared")
	vrt.Assert(out.class != 3, "Go run-time fault in the bridge")
	vrt.Assert(out.class == 0, "the bridge signals on a plain scalar")
	if wantInt {
		r, ok := out.val.(int64)
		vrt.Assert(ok, "integer does not come back as int64")
		if isU {
			vrt.Assert(0 <= r && uint64(r) == wantU, "unsigned integer comes back with another numeric value")
		} else {
			vrt.Assert(r == want, "signed integer comes back with another numeric value")
		}
	}
}

// zzC18BigUnsigned: uint / uint64 values from 2^63 on (concrete table) come
// back as the decimal text of the same number (bignum -> Simplify).
func zzC18BigUnsigned(as64 bool) {
	vals := []uint64{1 << 63, 1<<63 + 12345, 18446744073709551615}
	x := vals[vrt.Choice("big", len(vals))]
	var out zzC18Out
	if as64 {
		out = zzC18Trip(x)
	} else {
		out = zzC18Trip(uint(x))
	}
	vrt.Reach("compared")
	vrt.Assert(out.class != 3, "Go run-time fault in the bridge")
	rs, ok := out.val.(string)
	vrt.Assert(out.class == 0 && ok && rs == strconv.FormatUint(x, 10), "an unsigned integer from 2^63 on does not come back as its decimal text")
}

// zzC18JSONNumber: SimpleObject of a json.Number with integer text: the exact
// integer, whatever its size and sign (Simplify gives an int64 inside the
// fixnum range and the decimal text of the bignum outside).
func zzC18JSONNumber() {
	texts := []string{"0", "7", "-7", "9223372036854775807", "9223372036854775808", "9223372036854775809", "12345678901234567890",
		"18446744073709551615", "18446744073709551616", "18446744073709551617", "-9223372036854775808", "-9223372036854775809",
		"-18446744073709551615", "100000000000000000000000000000", "-100000000000000000000000000000"}
	t := texts[vrt.Choice("num", len(texts))]
	out := zzC18Trip(json.Number(t))
	vrt.Reach("compared")
	vrt.Assert(out.class != 3, "Go run-time fault in the bridge")
	vrt.Assert(out.class == 0, "json.Number with integer text signals")
	if x, err := strconv.ParseInt(t, 10, 64); err == nil {
		ri, ok := out.val.(int64)
		vrt.Assert(ok && ri == x, "json.Number inside the fixnum range does not come back as that integer")
		return
	}
	rs, ok := out.val.(string)
	vrt.Assert(ok && rs == t, "json.Number beyond the fixnum range does not come back as the decimal text of that integer")
}

// zzC18Gen builds a Go value from a shape text and, independently, its
// expected normal form (ints as int64 ...).
//
//	i int64  I int  b int8  u uint8  w uint32  s string(2 bytes)  e ""  n nil  t true  f false
//	d float64 (concrete)  [ ... ] []any   { ... } map[string]any with keys k0,k1,...
type zzC18Gen struct {
	src      string
	pos      int
	n        int
	hasMap   bool
	hasFalse bool
}

func (g *zzC18Gen) name(p string) string {
	g.n++
	return p + strconv.Itoa(g.n)
}

// value returns (the value, its expected normal form).
func (g *zzC18Gen) value() (any, any) {
	c := g.src[g.pos]
	g.pos++
	switch c {
	case 'i':
		x := vrt.Int64(g.name("i"))
		return x, x
	case 'I':
		x := vrt.Int(g.name("I"))
		return x, int64(x)
	case 'b':
		x := vrt.Int64(g.name("b"))
		vrt.Assume(-128 <= x && x <= 127)
		return int8(x), x
	case 'u':
		x := vrt.Byte(g.name("u"))
		return x, int64(x)
	case 'w':
		x := vrt.Uint64(g.name("w"))
		vrt.Assume(x <= 0xFFFFFFFF)
		return uint32(x), int64(x)
	case 's':
		s := vrt.String(g.name("s"), 2)
		return s, s
	case 'e':
		return "", ""
	case 'n':
		return nil, nil
	case 't':
		return true, true
	case 'f':
		g.hasFalse = true
		return false, false
	case 'd':
		return 2.5, 2.5
	case '[':
		list := []any{}
		want := []any{}
		for g.src[g.pos] != ']' {
			v, w := g.value()
			list = append(list, v)
			want = append(want, w)
		}
		g.pos++
		return list, want
	case '{':
		g.hasMap = true
		m := map[string]any{}
		want := map[string]any{}
		for g.src[g.pos] != '}' {
			k := "k" + strconv.Itoa(len(m))
			v, w := g.value()
			m[k] = v
			want[k] = w
		}
		g.pos++
		return m, want
	}
	panic("zzC18Gen: bad shape " + g.src)
}

// zzC18Deep: independent deep comparison of normal forms.
func zzC18Deep(a, b any) bool {
	switch ta := a.(type) {
	case nil:
		return b == nil
	case bool:
		tb, ok := b.(bool)
		return ok && ta == tb
	case int64:
		tb, ok := b.(int64)
		return ok && ta == tb
	case float64:
		tb, ok := b.(float64)
		return ok && ta == tb
	case string:
		tb, ok := b.(string)
		return ok && ta == tb
	case []any:
		tb, ok := b.([]any)
		if !ok || len(ta) != len(tb) {
			return false
		}
		for i := 0; i < len(ta); i++ {
			if !zzC18Deep(ta[i], tb[i]) {
				return false
			}
		}
		return true
	case map[string]any:
		tb, ok := b.(map[string]any)
		if !ok || len(ta) != len(tb) {
			return false
		}
		for k, va := range ta {
			vb, has := tb[k]
			if !has || !zzC18Deep(va, vb) {
				return false
			}
		}
		return true
	}
	return false
}

var zzC18Shapes = []string{
	/* 0 */ "[]", "[i]", "[iIbuw]", "[sen]", "[td]", "[[i][s]]", "[[][i]]", "[i[sn]]", "[nn]", "[[ii][ss][tt]]",
	/* 10 */ "[f]", "[tf]", "{}", "{i}", "{is}", "{[i]}", "{{i}}", "[{i}]", "[{is}{n}]", "{[i]{s}n}",
	/* 20 */ "{f}", "{n}", "[[f]]", "{[is][]}", "[iiiiiiii]", "[ssss]",
}

// VerifC18Tree: []any / map[string]any trees of depth <= 2 with symbolic leaves.
func VerifC18Tree(shape int) {
	g := zzC18Gen{src: zzC18Shapes[shape]}
	v, want := g.value()
	vrt.Carve("C18-false-becomes-nil", g.hasFalse)
	vrt.Carve("C18-simplify-map-becomes-pair-list", g.hasMap)
	out := zzC18Trip(v)
	vrt.Reach("compared")
	vrt.Assert(out.class != 3, "Go run-time fault in the bridge")
	vrt.Assert(out.class == 0, "the bridge signals on plain data")
	vrt.Assert(zzC18Deep(want, out.val), "plain data does not come back the same")
}

// VerifC18Print: the Lisp object made from plain data can be printed (the
// REPL does that with every result). kind 0: map with a nil value, 1: map
// with a false value, 2: map with symbolic fixnum value, 3: list.
func VerifC18Print(kind int) {
	var v any
	switch kind {
	case 0:
		v = map[string]any{"a": nil}
	case 1:
		v = map[string]any{"a": false}
	case 2:
		x := vrt.Int64("xint")
		vrt.Assume(-1000 < x && x < 1000)
		v = map[string]any{"a": x}
	case 3:
		v = []any{nil, true, "s"}
	}
	vrt.Carve("C18-map-nil-value-tail-nil", kind == 0 || kind == 1)
	obj := SimpleObject(v)
	out := zzC18Run(func() any { return ObjectString(obj) })
	vrt.Reach("printed")
	vrt.Assert(out.class != 3, "Go run-time fault printing an object made by SimpleObject")
	vrt.Assert(out.class == 0, "printing an object made by SimpleObject signals")
	eq := zzC18Run(func() any { return ObjectEqual(obj, SimpleObject(v)) })
	vrt.Assert(eq.class != 3, "Go run-time fault comparing objects made by SimpleObject")
	vrt.Assert(eq.class == 0 && eq.val == true, "two objects made from the same data are not Equal")
}
