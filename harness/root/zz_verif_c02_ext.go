package slip

// C02 extension (root package): RuneReader over split UTF-8, the real
// resolveToken under chunked delivery, ReadStreamPush, Compile vs Read then
// Compile, and end-of-text as a delimiter.

import (
	"io"
	"strconv"

	vrt "github.com/ohler55/slip/zzvrt"
)

// zzC02Chunk hands out src in pieces of at most k bytes per Read call.
type zzC02Chunk struct {
	src []byte
	pos int
	k   int
}

func (r *zzC02Chunk) Read(p []byte) (int, error) {
	if len(r.src) <= r.pos {
		return 0, io.EOF
	}
	n := r.k
	if len(p) < n {
		n = len(p)
	}
	if len(r.src)-r.pos < n {
		n = len(r.src) - r.pos
	}
	for i := 0; i < n; i++ {
		p[i] = r.src[r.pos+i]
	}
	r.pos += n
	return n, nil
}

// ---- (5) the real resolveToken ----

const (
	zzC02AlphaNum = "019+-/. a("   // base 10 numbers, ratios, a symbol constituent
	zzC02AlphaHex = "019afg+-/. (" // digits of base 16 and a non-digit
	zzC02AlphaBin = "012+-/. ("    // digits of base 2 and a non-digit
	zzC02AlphaB36 = "09az+-/. ("   // base 36
	zzC02AlphaN3  = "19+-a ("      // three byte texts: no . and no / (a float needs concrete text, a ratio of symbolic digits has no engine model)
)

func zzC02Alpha(sel int) string {
	switch sel {
	case 1:
		return zzC02AlphaHex
	case 2:
		return zzC02AlphaBin
	case 3:
		return zzC02AlphaB36
	case 5:
		return zzC02AlphaN3
	}
	return zzC02AlphaNum
}

func zzC02Base(sel int) int {
	switch sel {
	case 1:
		return 16
	case 2:
		return 2
	case 3:
		return 36
	}
	return 10
}

// zzC02SameNum compares the objects the real resolveToken can build
// (structurally, by type and value).
func zzC02SameObj(a, b Object) bool {
	switch ta := a.(type) {
	case nil:
		return b == nil
	case Fixnum:
		tb, ok := b.(Fixnum)
		return ok && ta == tb
	case Symbol:
		tb, ok := b.(Symbol)
		return ok && string(ta) == string(tb)
	case *Bignum:
		tb, ok := b.(*Bignum)
		return ok && ta.Equal(tb)
	case *Ratio:
		tb, ok := b.(*Ratio)
		return ok && ta.Equal(tb)
	case DoubleFloat:
		tb, ok := b.(DoubleFloat)
		return ok && ta == tb
	case SingleFloat:
		tb, ok := b.(SingleFloat)
		return ok && ta == tb
	case *LongFloat:
		tb, ok := b.(*LongFloat)
		return ok && ta.Equal(tb)
	case List:
		tb, ok := b.(List)
		if !ok || len(ta) != len(tb) {
			return false
		}
		for i := range ta {
			if !zzC02SameObj(ta[i], tb[i]) {
				return false
			}
		}
		return true
	}
	return zzSame(a, b)
}

func zzC02SameCode(a, b Code) bool {
	if len(a) != len(b) {
		return false
	}
	for i := range a {
		if !zzC02SameObj(a[i], b[i]) {
			return false
		}
	}
	return true
}

func zzC02SameOutcome(a, b zzOutcome) bool {
	if a.class != b.class {
		return false
	}
	if a.class != 0 {
		return true
	}
	return zzC02SameCode(a.code, b.code)
}

// VerifC02Resolve: with the real resolveToken (regexp matching, ParseInt,
// bignum and ratio construction) a text of n symbolic bytes over a number
// alphabet, read whole, equals the same text delivered in pieces cut at k1 and
// k2, for the read base selected by sel.
func VerifC02Resolve(n int, k1 int, k2 int, sel int) {
	src := vrt.Bytes("src", n)
	zzAlphabet(src, zzC02Alpha(sel))
	scope := NewScope()
	if base := zzC02Base(sel); base != 10 {
		scope.Let(Symbol("*read-base*"), Fixnum(base))
	}
	whole := zzRun(func() (Code, int) { return Read(append([]byte{}, src...), scope), 0 })
	parts := zzRun(func() (Code, int) {
		return ReadStream(&zzCutReader{src: src, cuts: []int{k1, k2}}, scope)
	})
	vrt.Reach("compared")
	vrt.Assert(whole.class != 3 && parts.class != 3, "Go run-time fault while reading")
	vrt.Assert(zzC02SameOutcome(whole, parts), "real token resolution: chunked read differs from whole read")
}

// zzC02FloatTexts: bounded enumeration of float/ratio/number-like texts (floats
// are concrete in the engine).
var zzC02FloatTexts = []string{
	"1.5", "-0.25", "+1.", "1e3", "-2.5e-3", "1.5d0", "2s1", "3f-2", "1.25l2",
	"1.0e400", "1/2", "-6/4", "3/0", "1e", "1.5.2", ".5", "1/2/3", "12345678901234567890",
	"-9223372036854775808", "9223372036854775808", "(1.5 2e2)", "1.5 2.5", "1e3x", "@2024-01-02",
	"@2024-01-02T03:04:05Z", "1.5e+2)", "#xFF.", "1d", "0.1f0 1/3",
}

// VerifC02Floats: concrete number texts (index ti), every pair of cut
// positions, every float format (fmtSel): chunked read equals whole read.
func VerifC02Floats(ti int, fmtSel int) {
	text := zzC02FloatTexts[ti]
	scope := NewScope()
	switch fmtSel {
	case 1:
		scope.Let(Symbol("*read-default-float-format*"), SingleFloatSymbol)
	case 2:
		scope.Let(Symbol("*read-default-float-format*"), LongFloatSymbol)
	case 3:
		scope.Let(Symbol("*read-default-float-format*"), ShortFloatSymbol)
	}
	src := []byte(text)
	whole := zzRun(func() (Code, int) { return Read(append([]byte{}, src...), scope), 0 })
	// the two cut positions are symbolic: the engine forks over them where the
	// delivery depends on them and the solver decides the comparison
	k1 := vrt.Int("k1")
	k2 := vrt.Int("k2")
	vrt.Assume(0 <= k1 && k1 <= k2 && k2 <= len(src))
	parts := zzRun(func() (Code, int) {
		return ReadStream(&zzCutReader{src: src, cuts: []int{k1, k2}}, scope)
	})
	vrt.Assert(whole.class != 3 && parts.class != 3, "Go run-time fault while reading")
	vrt.Assert(zzC02SameOutcome(whole, parts), "number text: chunked read differs from whole read")
	// one byte at a time
	one := zzRun(func() (Code, int) { return ReadStream(&zzC02Chunk{src: src, k: 1}, scope) })
	vrt.Reach("compared")
	vrt.Assert(zzC02SameOutcome(whole, one), "number text: byte-at-a-time read differs from whole read")
}

// ---- (2) RuneReader ----

// zzC02Decode: reference UTF-8 decoder written from the definition (RFC 3629):
// returns the runes and their sizes, ok=false when the text is not well formed.
func zzC02Decode(src []byte) (runes []rune, sizes []int, ok bool) {
	i := 0
	for i < len(src) {
		b0 := src[i]
		var need int
		var r rune
		var min rune
		switch {
		case b0 < 0x80:
			need, r, min = 0, rune(b0), 0
		case 0xc0 <= b0 && b0 < 0xe0:
			need, r, min = 1, rune(b0&0x1f), 0x80
		case 0xe0 <= b0 && b0 < 0xf0:
			need, r, min = 2, rune(b0&0x0f), 0x800
		case 0xf0 <= b0 && b0 < 0xf8:
			need, r, min = 3, rune(b0&0x07), 0x10000
		default:
			return nil, nil, false
		}
		if len(src) < i+1+need {
			return nil, nil, false
		}
		for j := 1; j <= need; j++ {
			c := src[i+j]
			if c < 0x80 || 0xc0 <= c {
				return nil, nil, false
			}
			r = r<<6 | rune(c&0x3f)
		}
		if r < min || 0x10ffff < r || (0xd800 <= r && r < 0xe000) {
			return nil, nil, false
		}
		runes = append(runes, r)
		sizes = append(sizes, need+1)
		i += need + 1
	}
	return runes, sizes, true
}

// VerifC02RuneReader: a RuneReader over a reader that hands out at most k bytes
// per Read call delivers the characters of a well-formed UTF-8 text of n
// symbolic bytes exactly as the reference decoder does, whatever k is.
//
//	mode 0: ReadRune until end of file
//	mode 1: every ReadRune is followed by UnreadRune and a second ReadRune
//	mode 2: PushRune of a symbolic rune first, then as mode 0
//	mode 3: ReadRune once, UnreadRune, then bulk Read calls: the bytes are the whole text
//	mode 4: ReadByte until end of file gives the bytes (any text, no UTF-8 assumption),
//	        an ASCII byte can be unread and is delivered again
func VerifC02RuneReader(n int, k int, mode int) {
	src := vrt.Bytes("src", n)
	runes, sizes, ok := zzC02Decode(src)
	if mode != 4 {
		vrt.Assume(ok)
		for _, r := range runes {
			vrt.Assume(r != 0) // RuneReader uses lastRune==0 as "nothing read yet"
		}
	}
	maxSize := 1
	for _, s := range sizes {
		if maxSize < s {
			maxSize = s
		}
	}
	// ReadRune asks the underlying reader for the continuation bytes in one
	// Read call and takes a short count as an invalid character.
	vrt.Carve("C02-runereader-short-read", mode != 4 && k < maxSize-1)
	rr := &RuneReader{Reader: &zzC02Chunk{src: src, k: k}}
	switch mode {
	case 0, 1, 2:
		if mode == 2 {
			pr := vrt.Rune("push")
			vrt.Assume(0 < pr && pr <= 0x10ffff && !(0xd800 <= pr && pr < 0xe000))
			rr.PushRune(pr)
			r, _, err := rr.ReadRune()
			vrt.Assert(err == nil && r == pr, "PushRune: the pushed rune is not the next one read")
		}
		for i := range runes {
			if mode == 0 {
				vrt.Assert(rr.IsOpen(), "IsOpen is false although characters are left")
			}
			r, size, err := rr.ReadRune()
			vrt.Assert(err == nil, "ReadRune fails on a well-formed character split across reads")
			vrt.Assert(r == runes[i] && size == sizes[i], "ReadRune delivers a different character")
			if mode == 1 {
				vrt.Assert(rr.UnreadRune() == nil, "UnreadRune refused after ReadRune")
				vrt.Assert(rr.UnreadRune() != nil, "UnreadRune accepted twice")
				r2, size2, err2 := rr.ReadRune()
				vrt.Assert(err2 == nil && r2 == runes[i] && size2 == sizes[i], "the unread character is not read again")
			}
		}
		if mode == 0 {
			// asking whether the stream is open takes nothing from it
			vrt.Assert(!rr.IsOpen(), "IsOpen is true at the end of the text")
		}
		_, _, err := rr.ReadRune()
		vrt.Reach("compared")
		vrt.Assert(err == io.EOF, "ReadRune past the text is not end of file")
		if mode == 0 {
			cr := &zzC02Closer{}
			vrt.Assert((&RuneReader{Reader: cr}).Close() == nil && cr.closed, "Close does not reach the underlying reader")
			vrt.Assert(rr.Close() == nil, "Close of a reader that is no io.Closer fails")
		}
	case 3:
		vrt.Assume(0 < len(runes))
		r, _, err := rr.ReadRune()
		vrt.Assert(err == nil && r == runes[0], "ReadRune delivers a different character")
		vrt.Assert(rr.UnreadRune() == nil, "UnreadRune refused after ReadRune")
		var got []byte
		buf := make([]byte, 8)
		for i := 0; i <= n+1; i++ {
			cnt, err := rr.Read(buf)
			got = append(got, buf[:cnt]...)
			if err != nil {
				vrt.Assert(err == io.EOF, "Read fails")
				break
			}
		}
		vrt.Reach("compared")
		same := len(got) == len(src)
		if same {
			for i := range src {
				if got[i] != src[i] {
					same = false
				}
			}
		}
		vrt.Assert(same, "Read after UnreadRune does not deliver the whole text")
	case 4:
		for i := range src {
			b, err := rr.ReadByte()
			vrt.Assert(err == nil && b == src[i], "ReadByte delivers a different byte")
			if 0 < b && b < 0x80 {
				vrt.Assert(rr.UnreadRune() == nil, "UnreadRune refused after ReadByte")
				b2, err2 := rr.ReadByte()
				vrt.Assert(err2 == nil && b2 == b, "the unread byte is not read again")
			}
		}
		_, err := rr.ReadByte()
		vrt.Reach("compared")
		vrt.Assert(err == io.EOF, "ReadByte past the text is not end of file")
	}
}

type zzC02Closer struct {
	closed bool
}

func (c *zzC02Closer) Read(p []byte) (int, error) { return 0, io.EOF }
func (c *zzC02Closer) Close() error               { c.closed = true; return nil }

// ---- \u and \U escapes (reader.runeAppendByte) ----

// VerifC02Escape: a string with a \u00XX (kind 0) or \U0001F6XX (kind 1) escape
// whose last two hex positions are symbolic bytes, followed by a symbol, read
// whole and in pieces of at most k bytes.
func VerifC02Escape(kind int, k int) {
	var src []byte
	if kind == 0 {
		src = append([]byte("\"a\\u00"), vrt.Bytes("src", 2)...)
	} else {
		src = append([]byte("\"\\U0001F6"), vrt.Bytes("src", 2)...)
	}
	src = append(src, []byte("b\" c")...)
	scope := NewScope()
	whole := zzRun(func() (Code, int) { return Read(append([]byte{}, src...), scope), 0 })
	parts := zzRun(func() (Code, int) { return ReadStream(&zzC02Chunk{src: src, k: k}, scope) })
	vrt.Reach("compared")
	vrt.Assert(whole.class != 3 && parts.class != 3, "Go run-time fault while reading")
	vrt.Assert(zzSameOutcome(whole, parts), "unicode escape: chunked read differs from whole read")
}

// ---- (3) ReadStreamPush ----

// VerifC02Push: ReadStreamPush delivers on the channel the objects of the
// whole read, in order (buffered channel, drained afterwards; sequential).
func VerifC02Push(n int, k int, alpha int) {
	src := zzSrc(n, alpha)
	scope := NewScope()
	whole := zzRun(func() (Code, int) { return Read(append([]byte{}, src...), scope), 0 })
	ch := make(chan Object, 2*n+2)
	parts := zzRun(func() (Code, int) {
		ReadStreamPush(&zzCutReader{src: src, cuts: []int{k}}, scope, ch)
		return nil, 0
	})
	var got Code
	for 0 < len(ch) {
		got = append(got, <-ch)
	}
	parts.code = got
	vrt.Reach("compared")
	if whole.class == 0 {
		vrt.Assert(zzSameOutcome(whole, parts), "ReadStreamPush in pieces differs from whole read")
	} else {
		vrt.Assert(parts.class != 0, "ReadStreamPush accepts a text the whole read rejects")
	}
}

// ---- (6) Compile entry points ----

func zzC02Compile(f func() Object) (res Object, class int) {
	defer func() {
		if rec := recover(); rec != nil {
			class, _ = zzClassify(rec)
			res = nil
		}
	}()
	return f(), 0
}

// VerifC02Compile: Compile / CompileString of a text agree with ReadString
// followed by Code.Compile (last object), and with each other.
func VerifC02Compile(n int, alpha int) {
	src := zzSrc(n, alpha)
	scope := NewScope()
	a, ca := zzC02Compile(func() Object { return Compile(append([]byte{}, src...), scope) })
	b, cb := zzC02Compile(func() Object { return CompileString(string(src), scope) })
	c, cc := zzC02Compile(func() Object {
		code := ReadString(string(src), scope)
		code.Compile()
		if len(code) == 0 {
			return nil
		}
		return code[len(code)-1]
	})
	vrt.Reach("compared")
	vrt.Assert(ca != 3 && cb != 3 && cc != 3, "Go run-time fault while compiling")
	vrt.Assert(ca == cb && ca == cc, "Compile, CompileString and Read+Compile end differently")
	if ca == 0 {
		vrt.Assert(zzSame(a, b) && zzSame(a, c), "Compile, CompileString and Read+Compile give different objects")
	}
}

// ---- end of text is a delimiter ----

// zzC02EndsCharFirst: reference scanner saying that the text ends directly
// after a #\\ that starts a character (not inside a string, |symbol| or
// comment): the only place where a following newline becomes part of the last
// form instead of delimiting it.
func zzC02EndsCharFirst(src []byte) bool {
	const (
		norm = iota
		str
		strEsc
		pipe
		pipeEsc
		comment
		sharp
		block
		blockBar
		charFirst
		tok
	)
	mode := norm
	for _, c := range src {
		switch mode {
		case norm, tok:
			switch c {
			case '"':
				mode = str
			case '|':
				mode = pipe
			case ';':
				mode = comment
			case '#':
				mode = sharp
			default:
				mode = norm
			}
		case str:
			if c == '"' {
				mode = norm
			} else if c == '\\' {
				mode = strEsc
			}
		case strEsc:
			mode = str
		case pipe:
			if c == '|' {
				mode = norm
			} else if c == '\\' {
				mode = pipeEsc
			}
		case pipeEsc:
			mode = pipe
		case comment:
			if c == '\n' || c == '\r' {
				mode = norm
			}
		case sharp:
			switch c {
			case '|':
				mode = block
			case '\\':
				mode = charFirst
			default:
				mode = norm
			}
		case block:
			if c == '|' {
				mode = blockBar
			}
		case blockBar:
			if c == '#' {
				mode = norm
			} else if c != '|' {
				mode = block
			}
		case charFirst:
			mode = norm
		}
	}
	return mode == charFirst
}

// VerifC02EofDelim: the end of the text delimits the last token exactly as a
// newline does: when both the text and the text followed by a newline are read
// as values, they are the same objects (a complete last form is not dropped and
// not read differently at end of text).
func VerifC02EofDelim(n int, alpha int) {
	src := zzSrc(n, alpha)
	vrt.Assume(!zzC02EndsCharFirst(src))
	scope := NewScope()
	whole := zzRun(func() (Code, int) { return Read(append([]byte{}, src...), scope), 0 })
	withNL := zzRun(func() (Code, int) { return Read(append(append([]byte{}, src...), '\n'), scope), 0 })
	vrt.Reach("compared")
	vrt.Assert(whole.class != 3 && withNL.class != 3, "Go run-time fault while reading")
	// a trailing # or #<digits> and a trailing #*<bits> are silently read as nothing
	endsSharp := false
	for i := len(src) - 1; 0 <= i; i-- {
		c := src[i]
		if c == '#' {
			endsSharp = true
			break
		}
		if !('0' <= c && c <= '9') && !(c == '*' && i+1 <= len(src)) {
			break
		}
	}
	vrt.Carve("C02-eof-drops-sharp-form", endsSharp)
	if whole.class == 0 && withNL.class == 0 {
		vrt.Assert(zzSameCode(whole.code, withNL.code), "text read differently when followed by a newline")
	}
	if withNL.class == 0 {
		vrt.Assert(whole.class == 0, "complete text rejected only because it ends without a newline")
	}
}

var _ = strconv.Itoa
