package slip

import (
	"math"
	"math/big"
	"strconv"

	vrt "github.com/ohler55/slip/zzvrt"
)

// ---- C03 extension: numbers (bignum, ratio, float, *read-base*), strings, symbols that look like numbers ----

// zzC03XRead reads text with *read-base* rb (10: left alone) and
// *read-default-float-format* ff (0 left alone, 1 single, 2 double, 3 long, 4 short).
func zzC03XRead(text []byte, rb int, ff int) (out zzC03Out) {
	defer func() {
		if rec := recover(); rec != nil {
			switch tr := rec.(type) {
			case *PartialPanic:
				out.class = 2
			case *Panic:
				out.class = 1
				if tr.Value != nil {
					out.class = 3
				}
			case Instance:
				out.class = 1
			case interface{ RuntimeError() }:
				out.class = 3
			default:
				out.class = 4
			}
		}
	}()
	s := NewScope()
	if rb != 10 {
		s.Let(Symbol("*read-base*"), Fixnum(rb))
	}
	switch ff {
	case 1:
		s.Let(Symbol("*read-default-float-format*"), SingleFloatSymbol)
	case 2:
		s.Let(Symbol("*read-default-float-format*"), DoubleFloatSymbol)
	case 3:
		s.Let(Symbol("*read-default-float-format*"), LongFloatSymbol)
	case 4:
		s.Let(Symbol("*read-default-float-format*"), ShortFloatSymbol)
	}
	out.code = Read(text, s)
	return
}

// zzC03XSame: same type and same value; written without the Equal methods of slip.
func zzC03XSame(a, b Object) bool {
	switch ta := a.(type) {
	case nil:
		return b == nil
	case Fixnum:
		tb, ok := b.(Fixnum)
		return ok && int64(ta) == int64(tb)
	case *Bignum:
		tb, ok := b.(*Bignum)
		return ok && (*big.Int)(ta).Cmp((*big.Int)(tb)) == 0
	case *Ratio:
		tb, ok := b.(*Ratio)
		return ok && (*big.Rat)(ta).Cmp((*big.Rat)(tb)) == 0
	case SingleFloat:
		tb, ok := b.(SingleFloat)
		return ok && ta == tb && (ta != 0 || 1/ta == 1/tb) // same value, same sign of zero
	case DoubleFloat:
		tb, ok := b.(DoubleFloat)
		return ok && ta == tb && (ta != 0 || 1/ta == 1/tb) // same value, same sign of zero
	case *LongFloat:
		tb, ok := b.(*LongFloat)
		return ok && (*big.Float)(ta).Cmp((*big.Float)(tb)) == 0 && (*big.Float)(ta).Signbit() == (*big.Float)(tb).Signbit()
	case String:
		tb, ok := b.(String)
		return ok && string(ta) == string(tb)
	case Character:
		tb, ok := b.(Character)
		return ok && ta == tb
	case Symbol:
		tb, ok := b.(Symbol)
		return ok && zzC03Lower(string(ta)) == zzC03Lower(string(tb))
	case List:
		tb, ok := b.(List)
		if !ok || len(ta) != len(tb) {
			return false
		}
		for i := range ta {
			if !zzC03XSame(ta[i], tb[i]) {
				return false
			}
		}
		return true
	case Tail:
		tb, ok := b.(Tail)
		return ok && zzC03XSame(ta.Value, tb.Value)
	case *Vector:
		tb, ok := b.(*Vector)
		if !ok || len(ta.elements) != len(tb.elements) {
			return false
		}
		for i := range ta.elements {
			if !zzC03XSame(ta.elements[i], tb.elements[i]) {
				return false
			}
		}
		return true
	case *Array:
		tb, ok := b.(*Array)
		if !ok || len(ta.dims) != len(tb.dims) || len(ta.elements) != len(tb.elements) {
			return false
		}
		for i := range ta.dims {
			if ta.dims[i] != tb.dims[i] {
				return false
			}
		}
		for i := range ta.elements {
			if !zzC03XSame(ta.elements[i], tb.elements[i]) {
				return false
			}
		}
		return true
	case Funky:
		tb, ok := b.(Funky)
		if !ok || ta.GetName() != tb.GetName() {
			return false
		}
		return zzC03XSame(ta.GetArgs(), tb.GetArgs())
	}
	return false
}

func zzC03Lower(s string) string {
	b := []byte(s)
	for i, c := range b {
		if 'A' <= c && c <= 'Z' {
			b[i] = c + 'a' - 'A'
		}
	}
	return string(b)
}

func zzC03XCheck(out zzC03Out, want Object, what string) {
	vrt.Assert(out.class != 3 && out.class != 4, "reading a printed "+what+" is a Go fault")
	vrt.Assert(out.class == 0 && len(out.code) == 1, "a printed "+what+" cannot be read back")
	vrt.Assert(zzC03XSame(want, out.code[0]), "a printed "+what+" reads back as a different object or type")
}

func zzC03Pow(b int64, e int) *big.Int {
	return new(big.Int).Exp(big.NewInt(b), big.NewInt(int64(e)), nil)
}

// zzC03XBigGrid: boundary integers around which the symbolic band is laid.
func zzC03XBigGrid(k int) *big.Int {
	one := big.NewInt(1)
	switch k {
	case 0:
		return zzC03Pow(2, 63) // most-positive-fixnum + 1
	case 1:
		return new(big.Int).Neg(zzC03Pow(2, 63)) // most-negative-fixnum
	case 2:
		return zzC03Pow(2, 64)
	case 3:
		return new(big.Int).Neg(zzC03Pow(2, 64))
	case 4:
		return zzC03Pow(2, 70)
	case 5:
		return zzC03Pow(10, 20)
	case 6:
		return zzC03Pow(10, 40)
	case 7:
		return new(big.Int).Neg(zzC03Pow(10, 40))
	case 8:
		return new(big.Int).Sub(zzC03Pow(2, 128), one)
	}
	return zzC03Pow(36, 13)
}

// zzC03XInteger: the slip object for an integer value (fixnum when it fits).
func zzC03XInteger(x *big.Int) Object {
	if x.IsInt64() {
		return Fixnum(x.Int64())
	}
	return (*Bignum)(x)
}

// VerifC03XBig: an integer x = grid[k] + y with y symbolic in -spread..spread (spread 0: the
// grid value itself) printed in *print-base* base — with *print-radix* (read with the default
// *read-base*) or without it (read with *read-base* = *print-base*) — reads back as the same
// integer of the same type (fixnum inside the int64 range, bignum outside).
func VerifC03XBig(k int, base int, radix int, spread int) {
	x := zzC03XBigGrid(k)
	if 0 < spread {
		y := vrt.Big("y")
		vrt.Assume(y.Cmp(big.NewInt(int64(-spread))) >= 0 && y.Cmp(big.NewInt(int64(spread))) <= 0)
		x = new(big.Int).Add(x, y)
	}
	obj := zzC03XInteger(x)
	p := zzC03Printer(true)
	p.Base = uint(base)
	p.Radix = radix != 0
	text := p.Append(nil, obj, 0)
	rb := base
	if radix != 0 {
		rb = 10
	}
	out := zzC03XRead(text, rb, 0)
	vrt.Reach("read")
	zzC03XCheck(out, obj, "integer")
}

// VerifC03XReadBase: a fixnum of at most `digits` digits printed in *print-base* base without
// *print-radix* — alone or as an element of a list — and read with *read-base* = base.
func VerifC03XReadBase(base int, digits int, inlist int) {
	x := vrt.Int64("x")
	lim := int64(1)
	for i := 0; i < digits; i++ {
		lim *= int64(base)
	}
	vrt.Assume(-lim < x && x < lim)
	b := int64(base)
	vrt.Carve("C03-integer-digits-spell-t-or-nil", (x == 29 && base >= 30) || (x == 23*b*b+18*b+21 && base >= 24))
	var obj Object = Fixnum(x)
	if inlist != 0 {
		obj = List{Symbol("a"), Fixnum(x), List{Fixnum(x)}}
	}
	p := zzC03Printer(true)
	p.Base = uint(base)
	text := p.Append(nil, obj, 0)
	out := zzC03XRead(text, base, 0)
	vrt.Reach("read")
	zzC03XCheck(out, obj, "integer (read with *read-base* = *print-base*)")
}

func zzC03XBigRatio(n, d *big.Int) *Ratio {
	return (*Ratio)(new(big.Rat).SetFrac(n, d))
}

// zzC03XRatioGrid: ratios with bignum parts.
func zzC03XRatioGrid(i int) *Ratio {
	one := big.NewInt(1)
	switch i {
	case 0:
		return zzC03XBigRatio(new(big.Int).Add(zzC03Pow(2, 64), one), big.NewInt(2))
	case 1:
		return zzC03XBigRatio(one, zzC03Pow(2, 64))
	case 2:
		return zzC03XBigRatio(new(big.Int).Neg(zzC03Pow(10, 20)), big.NewInt(7))
	case 3:
		return zzC03XBigRatio(zzC03Pow(2, 63), new(big.Int).Add(zzC03Pow(2, 64), one))
	case 4:
		return zzC03XBigRatio(new(big.Int).Sub(zzC03Pow(2, 63), one), zzC03Pow(3, 41))
	case 5:
		return zzC03XBigRatio(big.NewInt(-1), new(big.Int).Sub(zzC03Pow(2, 63), one))
	}
	return zzC03XBigRatio(big.NewInt(29), big.NewInt(30)) // t/u in base 31
}

// VerifC03XRatio: ratios printed in *print-base* base with/without *print-radix* read back
// (with the default *read-base* when the radix is printed, *read-base* = base otherwise) as an
// equal ratio.  sel < 0: every n/d with |n| <= 12, 2 <= d <= 12 in lowest terms (bounded
// enumeration executed by the engine: big.Rat is concrete-only); sel >= 0: grid with bignum parts.
func VerifC03XRatio(base int, radix int, sel int) {
	vrt.Carve("C03-ratio-radix-unreadable", radix != 0)
	p := zzC03Printer(true)
	p.Base = uint(base)
	p.Radix = radix != 0
	rb := base
	if radix != 0 {
		rb = 10
	}
	if 0 <= sel {
		obj := zzC03XRatioGrid(sel)
		text := p.Append(nil, obj, 0)
		out := zzC03XRead(text, rb, 0)
		vrt.Reach("read")
		zzC03XCheck(out, obj, "ratio")
		return
	}
	for d := int64(2); d <= 12; d++ {
		for n := int64(-12); n <= 12; n++ {
			if n == 0 || zzC03Gcd(n, d) != 1 {
				continue
			}
			obj := NewRatio(n, d)
			text := p.Append(nil, obj, 0)
			out := zzC03XRead(text, rb, 0)
			vrt.Reach("read")
			zzC03XCheck(out, obj, "ratio")
		}
	}
}

func zzC03Gcd(a, b int64) int64 {
	if a < 0 {
		a = -a
	}
	for b != 0 {
		a, b = b, a%b
	}
	return a
}

func zzC03XSingle(i int) float32 {
	if i == 1 {
		z := float32(0)
		return -z // negative zero
	}
	return zzC03XSingles[i]
}

func zzC03XDouble(i int) float64 {
	if i == 1 {
		z := float64(0)
		return -z // negative zero
	}
	return zzC03XDoubles[i]
}

var zzC03XSingles = []float32{
	0, 0, math.SmallestNonzeroFloat32, 1.1754942e-38, 1.17549435e-38, math.MaxFloat32,
	16777215, 16777216, 16777218, 1.0 / 3.0, 0.1, 1e21, 1e-7, -1.5, 1e10, 123456.7, 1, -2.5e-5,
}

var zzC03XDoubles = []float64{
	0, 0, math.SmallestNonzeroFloat64, 2.225073858507201e-308, 2.2250738585072014e-308, math.MaxFloat64,
	9007199254740991, 9007199254740992, 9007199254740994, 1.0 / 3.0, 0.1, 1e21, 1e-7, -1.5, 1e22, 1e23, 123456789.125, 1, -2.5e-5,
	float64(float32(0.1)), 5e-324 * 3,
}

// zzC03XLong: long-floats; 0..7 have the 53 bits of a double, the others more.
func zzC03XLong(i int) *LongFloat {
	switch i {
	case 0:
		return NewLongFloat(0)
	case 1:
		return NewLongFloat(1)
	case 2:
		return NewLongFloat(-2.5)
	case 3:
		return NewLongFloat(0.1)
	case 4:
		return NewLongFloat(1.0 / 3.0)
	case 5:
		return NewLongFloat(1e21)
	case 6:
		return NewLongFloat(9007199254740993 - 2)
	case 7:
		return NewLongFloat(1.7976931348623157e308)
	case 8: // 1/3 with 64 bits
		f := new(big.Float).SetPrec(64).Quo(big.NewFloat(1), big.NewFloat(3))
		return (*LongFloat)(f)
	case 9: // 1/3 with 128 bits
		f := new(big.Float).SetPrec(128).Quo(big.NewFloat(1), big.NewFloat(3))
		return (*LongFloat)(f)
	case 10: // 2^100 + 1: 101 bits
		f := new(big.Float).SetPrec(101).SetInt(new(big.Int).Add(zzC03Pow(2, 100), big.NewInt(1)))
		return (*LongFloat)(f)
	case 11: // 2^53 + 1 needs 54 bits
		f := new(big.Float).SetPrec(64).SetInt(new(big.Int).Add(zzC03Pow(2, 53), big.NewInt(1)))
		return (*LongFloat)(f)
	case 12:
		f, _, _ := big.ParseFloat("1.2345678901234567890123456789", 10, 100, big.ToNearestEven)
		return (*LongFloat)(f)
	case 13:
		f, _, _ := big.ParseFloat("-9.87654321e-400", 10, 80, big.ToNearestEven)
		return (*LongFloat)(f)
	}
	f, _, _ := big.ParseFloat("1e5000", 10, 64, big.ToNearestEven)
	return (*LongFloat)(f)
}

// VerifC03XFloat: float number idx of kind (0 single, 1 double, 2 long) printed readably and
// read under *read-default-float-format* ff (1 single, 2 double, 3 long, 4 short) reads back
// with the same bits and as the same float type.  Floats are concrete in the engine: bounded
// enumeration of boundary values.
func VerifC03XFloat(kind int, idx int, ff int) {
	var obj Object
	switch kind {
	case 0:
		obj = SingleFloat(zzC03XSingle(idx))
	case 1:
		obj = DoubleFloat(zzC03XDouble(idx))
	default:
		obj = zzC03XLong(idx)
	}
	p := zzC03Printer(true)
	text := p.Append(nil, obj, 0)
	if lf, ok := obj.(*LongFloat); ok {
		// Region of the known defect.  The reader gives a long-float token 3.32 bits per
		// mantissa character and rounds the decimal text to that many bits, the printer writes
		// the shortest text that identifies the value at the value's own precision: the two only
		// agree when the text is the exact decimal expansion of the value and the reader's
		// precision is enough for it.
		// (the digits are taken from math/big directly, not from the text slip printed)
		ref := []byte((*big.Float)(lf).Text('e', -1))
		cnt := 0
		for _, c := range ref {
			if c == 'e' {
				break
			}
			if c != '-' && c != '+' {
				cnt++
			}
		}
		dec := string(ref)
		exact := false
		if lit, ok2 := new(big.Rat).SetString(dec); ok2 {
			if val, _ := (*big.Float)(lf).Rat(nil); val != nil {
				exact = lit.Cmp(val) == 0
			}
		}
		vrt.Carve("C03-long-float-loses-bits", !exact || uint(3.32*float64(cnt)) < (*big.Float)(lf).MinPrec())
	}
	out := zzC03XRead(text, 10, ff)
	vrt.Reach("read")
	zzC03XCheck(out, obj, "float")
}

var zzC03XStrGrid = []string{
	"", "a\"b", "x\\y", "\\", "\"", "line\nbreak", "tab\there", "\r\b\f", "\x01\x1f\x7f", "é", "日本語", "  ", "😀", "a\\\"b\\n", "\\u0041",
	"|", ";", "#|", "(", "  ", "\\\\", "\x00",
}

// VerifC03XString: a string printed readably (escapes written by ojg.AppendJSONString, whose
// real body the engine interprets over symbolic bytes) reads back equal.  mode 0: grid string
// number n; mode 1: n symbolic ASCII bytes; mode 2: n symbolic Unicode scalar values (UTF-8
// encoded by the harness).
func VerifC03XString(mode int, n int) {
	var str String
	switch mode {
	case 0:
		str = String(zzC03XStrGrid[n])
	case 1:
		b := vrt.Bytes("s", n)
		for _, c := range b {
			vrt.Assume(c < 0x80)
		}
		str = String(string(b))
	default:
		var b []byte
		for i := 0; i < n; i++ {
			r := vrt.Rune("r" + strconv.Itoa(i))
			vrt.Assume(0 <= r && r <= 0x10FFFF && !(0xD800 <= r && r <= 0xDFFF))
			b = zzC03AppendRune(b, r)
		}
		str = String(string(b))
	}
	p := zzC03Printer(true)
	text := p.Append(nil, str, 0)
	if mode == 0 {
		vrt.Note("text", string(text))
	}
	out := zzC03XRead(text, 10, 0)
	vrt.Reach("read")
	zzC03XCheck(out, str, "string")
}

// zzC03AppendRune: UTF-8 encoding written out (independent of unicode/utf8).
func zzC03AppendRune(b []byte, r rune) []byte {
	switch {
	case r < 0x80:
		return append(b, byte(r))
	case r < 0x800:
		return append(b, 0xC0|byte(r>>6), 0x80|byte(r)&0x3F)
	case r < 0x10000:
		return append(b, 0xE0|byte(r>>12), 0x80|byte(r>>6)&0x3F, 0x80|byte(r)&0x3F)
	}
	return append(b, 0xF0|byte(r>>18), 0x80|byte(r>>12)&0x3F, 0x80|byte(r>>6)&0x3F, 0x80|byte(r)&0x3F)
}

var zzC03XNumNames = []string{
	"-1", "+1", "+3/4", "-1.5", "-1e5", "+1.0d0", "-", "+", "1+", "1-", "+.5", "-.", "-1/", "+1/2/3", "-0", "+12345678901234567890123",
	"-f", "+ff", "-z", "+a/b", "-1s0", "+2l5", "-7f-2", "..", ".", "1.", "-1.",
}

// VerifC03XSymNum: symbols whose names look like signed numbers.  mode 0: name number n of a
// grid; mode 1: a sign followed by n symbolic bytes over {+ - 1 9 . / e f}.  Printed under
// *print-base* base (the printer must quote what the reader would take as a number in that
// base) and read with *read-base* = base.
func VerifC03XSymNum(mode int, n int, base int) {
	var name string
	if mode == 0 {
		name = zzC03XNumNames[n]
	} else {
		b := vrt.Bytes("s", n+1)
		zzAlphabet(b[:1], "+-")
		zzAlphabet(b[1:], "+-19./ef")
		name = string(b)
	}
	sym := Symbol(name)
	p := zzC03Printer(true)
	p.Base = uint(base)
	text := p.Append(nil, sym, 0)
	out := zzC03XRead(text, base, 0)
	vrt.Reach("read")
	vrt.Assert(out.class != 3 && out.class != 4, "reading a printed symbol is a Go fault")
	vrt.Assert(out.class == 0 && len(out.code) == 1, "a printed symbol cannot be read back")
	got, ok := out.code[0].(Symbol)
	vrt.Assert(ok, "a printed symbol reads back as another type")
	vrt.Assert(string(got) == zzC03Lower(name), "a printed symbol reads back as a different symbol")
}
