package slip

import (
	"sync"

	vrt "github.com/ohler55/slip/zzvrt"
)

// ---- C17 (i): lock discipline of the interpreter's shared package tables ----
//
// Engine: the operation is executed once with symbolic data; the lockset
// monitor (vrt.Guard) records every read/write of the guarded maps that
// happens without the owning mutex; the assertion is "none". Natively (replay)
// the same operation is run from two goroutines under the race detector.

type zzC17Fn struct {
	Function
}

func (f *zzC17Fn) Call(s *Scope, args List, depth int) Object { return nil }

func zzC17Setup() (p, q *Package) {
	p = DefPackage("zzc17p", nil, "")
	q = DefPackage("zzc17q", nil, "")
	AddPackage(p)
	AddPackage(q)
	p.Set("zzv", Fixnum(1))
	q.Set("zzv", Fixnum(2))
	q.Set("zzw", Fixnum(3))
	q.Export("zzw")
	p.Define(func(args List) Object {
		f := zzC17Fn{Function: Function{Name: "zzf", Args: args}}
		f.Self = &f
		return &f
	}, &FuncDoc{Name: "zzf", Args: []*DocArg{}, Kind: BuiltInSymbol})
	return
}

func zzC17Guard(p *Package, tag string) {
	vrt.Guard(p.vars, &p.mu, tag+".vars")
	vrt.Guard(p.funcs, &p.mu, tag+".funcs")
	vrt.Guard(p.lambdas, &p.mu, tag+".lambdas")
	if p.classes != nil {
		vrt.Guard(p.classes, &p.mu, tag+".classes")
	}
}

var zzC17OpNames = []string{
	"Set", "Get", "GetVarVal", "Remove", "Has", "Define", "Export", "Unexport", "Undefine", "Use", "Unuse",
	"Import", "DefConst", "SetIfHas", "JustGet", "GetFunc", "FindFunc", "FindFunc-qualified", "CompileList-known",
	"CompileList-unknown", "DefLambda", "RegisterClass", "FindClass", "EachFuncName", "EachVarName",
}

func zzC17Op(op int, variant int, p, q *Package, val Object) {
	defer func() { _ = recover() }() // conditions are fine; only the locking matters here
	name := "zzv"
	if variant == 1 {
		name = "zznew"
	}
	switch op {
	case 0:
		p.Set(name, val)
	case 1:
		_, _ = p.Get(name)
	case 2:
		_ = p.GetVarVal(name)
	case 3:
		_ = p.Remove(name)
	case 4:
		_ = p.Has(name)
	case 5:
		p.Define(func(args List) Object {
			f := zzC17Fn{Function: Function{Name: "zzg", Args: args}}
			f.Self = &f
			return &f
		}, &FuncDoc{Name: "zzg", Args: []*DocArg{}, Kind: BuiltInSymbol})
	case 6:
		p.Export(name)
	case 7:
		p.Unexport(name)
	case 8:
		p.Undefine("zzf")
	case 9:
		p.Use(q)
	case 10:
		p.Use(q)
		p.Unuse(q)
	case 11:
		p.Import(q, "zzw")
	case 12:
		_ = p.DefConst("zzconst", val, "doc")
	case 13:
		_ = p.SetIfHas(name, val, variant == 1)
	case 14:
		_ = p.JustGet(name)
	case 15:
		_ = p.GetFunc("zzf")
	case 16:
		_ = FindFunc("zzf", p)
	case 17:
		_ = FindFunc("zzc17p::zzf")
	case 18:
		save := CurrentPackage
		CurrentPackage = p
		_ = CompileList(List{Symbol("zzf")})
		CurrentPackage = save
	case 19:
		save := CurrentPackage
		CurrentPackage = p
		_ = CompileList(List{Symbol("zzundefined"), val})
		CurrentPackage = save
	case 20:
		lam := &Lambda{Doc: &FuncDoc{Name: "zzlam", Args: []*DocArg{}}, Forms: List{val}}
		_ = p.DefLambda("zzlam", lam, func(args List) Object { return nil }, FunctionSymbol)
	case 21:
		p.RegisterClass("zzclass", nil)
	case 22:
		_ = p.FindClass("zzclass")
	case 23:
		p.EachFuncName(func(string) {})
	case 24:
		p.EachVarName(func(string) {})
	}
}

// VerifC17Pkg: every access to a package's vars/funcs/lambdas/classes tables
// made by operation op happens with that package's mutex held, and no mutex
// stays locked afterwards.
func VerifC17Pkg(op int, variant int) {
	p, q := zzC17Setup()
	val := Fixnum(vrt.Int64("val"))
	vrt.Carve("C17-findfunc-unlocked", op == 16 || op == 17)
	vrt.Carve("C17-compilelist-unlocked", op == 18 || op == 19)
	vrt.Carve("C17-class-table-unlocked", op == 21 || op == 22)
	if vrt.Symbolic() {
		zzC17Guard(p, "p")
		zzC17Guard(q, "q")
		held := vrt.HeldLocks()
		zzC17Op(op, variant, p, q, val)
		vrt.Reach("ran")
		vrt.Assert(vrt.GuardViolations() == 0, "shared package table accessed without its mutex")
		vrt.Assert(vrt.HeldLocks() == held, "a package mutex is still held after the operation")
		return
	}
	// native replay: two routines under the race detector
	var wg sync.WaitGroup
	for g := 0; g < 2; g++ {
		wg.Add(1)
		go func() {
			defer wg.Done()
			for i := 0; i < 200; i++ {
				zzC17Op(op, variant, p, q, val)
				zzC17Op(0, variant, p, q, val)
				zzC17Op(5, variant, p, q, val)
			}
		}()
	}
	wg.Wait()
	if !p.mu.TryLock() {
		vrt.Assert(false, "a package mutex is still held after the operation")
	}
	p.mu.Unlock()
}
