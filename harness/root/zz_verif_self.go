package slip

import (
	"strconv"
	"strings"

	vrt "github.com/ohler55/slip/zzvrt"
)

// VerifSelfArith: encoder self-test with symbolic integers.
func VerifSelfArith() {
	a := vrt.Int64("a")
	b := vrt.Int64("b")
	vrt.Assume(b&0xff != 0)
	b = b & 0xff
	q, r := a/b, a%b
	vrt.Reach("divided")
	vrt.Assert(q*b+r == a, "division identity")
	x := vrt.Byte("x")
	s := []byte{1, 2, 3}
	s = append(s, x)
	t := s[:2]
	t = append(t, 9)
	vrt.Assert(s[2] == 9, "append aliasing visible")
	m := map[string]int{}
	m["a"] = 1
	m[strconv.Itoa(3)] = 2
	vrt.Assert(m["3"] == 2 && len(m) == 2, "map")
	up := strings.ToUpper("abc")
	vrt.Assert(up == "ABC", "strings")
}

// VerifSelfFail must come back violated: a == 12345 is reachable.
func VerifSelfFail() {
	a := vrt.Int64("a")
	vrt.Assert(a*3 != 37035, "reachable failure")
}

type selfErr struct{ code int }

func (e *selfErr) Error() string { return "self " + strconv.Itoa(e.code) }

func selfMayPanic(i int, s []int) (res int, err error) {
	defer func() {
		if r := recover(); r != nil {
			if e, ok := r.(error); ok {
				err = e
			} else {
				err = &selfErr{1}
			}
		}
	}()
	if i == 7 {
		panic(&selfErr{7})
	}
	return s[i], nil
}

// VerifSelfPanic: defer/recover, run-time faults as errors.
func VerifSelfPanic() {
	i := vrt.Int("i")
	s := []int{10, 20, 30}
	v, err := selfMayPanic(i, s)
	vrt.Reach("returned")
	if 0 <= i && i < 3 {
		vrt.Assert(err == nil && v == s[i], "in range")
	} else {
		vrt.Assert(err != nil, "out of range gives an error")
		if i == 7 {
			vrt.Assert(err.Error() == "self 7", "own panic value")
		}
	}
}

// VerifSelfStr: symbolic bytes through strconv and string ops.
func VerifSelfStr(n int) {
	b := vrt.Bytes("b", n)
	for _, c := range b {
		vrt.Assume('0' <= c && c <= '9')
	}
	v, err := strconv.ParseInt(string(b), 10, 64)
	vrt.Reach("parsed")
	if n == 0 {
		vrt.Assert(err != nil, "empty is an error")
		return
	}
	vrt.Assert(err == nil, "digits parse")
	back := strconv.AppendInt(nil, v, 10)
	// leading zeros are dropped
	vrt.Assert(len(back) <= n, "not longer")
	if b[0] != '0' {
		vrt.Assert(string(back) == string(b), "round trip")
	}
}

var zzSelfTable = [8]uint8{3, 1, 4, 1, 5, 9, 2, 6}

// VerifSelfArrayIndex: symbolic index into a constant array and into a slice
// holding a symbolic element.
func VerifSelfArrayIndex() {
	i := vrt.Int("i")
	vrt.Assume(0 <= i && i < 8)
	v := zzSelfTable[i]
	vrt.Reach("indexed")
	vrt.Assert(v <= 9 && (i != 5 || v == 9), "table lookup")
	s := []int{10, 20, vrt.Int("e"), 40}
	j := vrt.Int("j")
	vrt.Assume(0 <= j && j < 4)
	w := s[j]
	vrt.Assert(j != 2 || w == s[2], "slice element")
	s[j] = 7
	vrt.Assert(s[j] == 7, "store through symbolic index")
}

// VerifSelfRegexp: the regexp model against a hand-written predicate for the
// reader's decimal-integer pattern.
func VerifSelfRegexp(n int) {
	b := vrt.Bytes("b", n)
	got := intRxs[10].Match(b)
	// reference: optional sign, one or more digits, optional final dot
	i := 0
	if i < n && (b[i] == '-' || b[i] == '+') {
		i++
	}
	digits := 0
	for i < n && '0' <= b[i] && b[i] <= '9' {
		i++
		digits++
	}
	if i < n && b[i] == '.' {
		i++
	}
	want := digits > 0 && i == n
	vrt.Reach("matched")
	vrt.Assert(got == want, "regexp model disagrees with the reference predicate")
}
