package slip

import vrt "github.com/ohler55/slip/zzvrt"

// Stubs used by the C06 obligations (engine runs only; the native replay uses
// the real functions).  The real functions print their arguments in decimal
// into a message / stack-trace text; with symbolic fixnums that forks the path
// once per digit count and argument.  C06 only looks at "a condition was
// signalled" and at "was it caused by a Go run-time error", never at the text,
// so the stubs keep everything except the formatted text.

// zzC06StubErrorNew replaces ErrorNew: the message is the unformatted format string.
func zzC06StubErrorNew(s *Scope, depth int, format string, args ...any) Object {
	c := FindClass("error")
	obj := c.MakeInstance()
	obj.Init(s, List{Symbol(":message"), String(format)}, depth)
	return obj
}

// zzC06StubTypeErrorNew replaces TypeErrorNew: the message does not print the datum.
func zzC06StubTypeErrorNew(s *Scope, depth int, use string, value Object, wants ...string) Object {
	c := FindClass("type-error")
	obj := c.MakeInstance()
	xt := make(List, len(wants))
	for i, w := range wants {
		xt[i] = Symbol(w)
	}
	obj.Init(s, List{
		Symbol(":datum"), value,
		Symbol(":expected-type"), xt,
		Symbol(":message"), String(use),
	}, depth)
	return obj
}

// zzC06StubAppendToStack replaces (*Panic).AppendToStack.
func zzC06StubAppendToStack(p *Panic, name string, args List) {
	line := append(List{Symbol(name)}, args...)
	p.stack = append(p.stack, name)
	if p.Condition != nil {
		if sv, has := p.Condition.SlotValue(stackSymbol); has {
			stack, _ := sv.(List)
			p.Condition.SetSlotValue(stackSymbol, append(stack, line))
		}
	}
}

// zzC06StubWrapError replaces WrapError.
func zzC06StubWrapError(s *Scope, obj Instance, name string, args List) *Panic {
	line := append(List{Symbol(name)}, args...)
	p := Panic{Condition: obj}
	var stack List
	if sv, has := obj.SlotValue(stackSymbol); has {
		stack, _ = sv.(List)
	}
	if 0 < len(name) {
		p.stack = []string{name}
		obj.SetSlotValue(stackSymbol, append(stack, line))
	} else if 0 < len(stack) {
		p.stack = append(p.stack, name)
	}
	if msg, has := obj.SlotValue(messageSymbol); has {
		if str, ok2 := msg.(String); ok2 {
			p.Message = string(str)
		}
	}
	return &p
}

// ---- C06: the slice idiom inside the runtime: RemovePackage / Unuse ----

// VerifC06RemovePackage: a package using k others is deleted; `after` more packages were defined
// behind it in the global list (so the removal from `packages` is in the middle). Oracle: the
// global list is the snapshot without the package, order kept; no used package still lists it as a
// user; its own use list is empty.
func VerifC06RemovePackage(k, after int) {
	names := []string{"zzc06-u0", "zzc06-u1", "zzc06-u2", "zzc06-u3", "zzc06-u4", "zzc06-u5"}
	pk := DefPackage("zzc06-p", nil, "")
	used := make([]*Package, k)
	for i := 0; i < k; i++ {
		used[i] = DefPackage(names[i], nil, "")
	}
	for i := 0; i < after; i++ {
		DefPackage("zzc06-x"+names[i][7:], nil, "")
	}
	for i := 0; i < k; i++ {
		pk.Use(used[i])
	}
	before := AllPackages()
	vrt.Reach("removing")
	RemovePackage(pk)
	got := AllPackages()
	vrt.Assert(len(got) == len(before)-1, "the package list did not shrink by one")
	j := 0
	for i := 0; i < len(before); i++ {
		if before[i] == pk {
			continue
		}
		vrt.Assert(j < len(got) && got[j] == before[i], "another package was lost or moved")
		j++
	}
	vrt.Carve("C06-removepackage-unuse-while-ranging", k >= 3)
	for i := 0; i < k; i++ {
		for _, u := range used[i].Users {
			vrt.Assert(u != pk, "a used package still lists the deleted package as a user")
		}
	}
	vrt.Assert(len(pk.Uses) == 0, "the deleted package still uses a package")
}
