package slip

import (
	vrt "github.com/ohler55/slip/zzvrt"
)

// ---- C03: print then read gives back an equal object of the same type ----

type zzC03Out struct {
	code  Code
	class int // 0 value, 1 condition, 2 partial, 3 Go fault, 4 other
}

func zzC03Read(text []byte) (out zzC03Out) {
	defer func() {
		if rec := recover(); rec != nil {
			switch tr := rec.(type) {
			case *PartialPanic:
				out.class = 2
			case *Panic:
				out.class = 1
				if tr.Value != nil {
					out.class = 3
				}
			case Instance:
				out.class = 1
			case interface{ RuntimeError() }:
				out.class = 3
			default:
				out.class = 4
			}
		}
	}()
	out.code = Read(text, NewScope())
	return
}

func zzC03Printer(readably bool) *Printer {
	p := *DefaultPrinter()
	p.Readably = readably
	p.Escape = true
	return &p
}

// VerifC03Char: every Unicode scalar value printed as a character reads back
// as the same character. lo/hi select a sub-range so that cases run in parallel:
// 0 ASCII control, 1 ASCII printable, 2 two-byte, 3 three-byte, 4 four-byte.
func VerifC03Char(class int) {
	r := vrt.Rune("r")
	switch class {
	case 0:
		vrt.Assume(0 < r && r < 0x20)
	case 1:
		vrt.Assume(0x20 <= r && r < 0x80)
	case 2:
		vrt.Assume(0x80 <= r && r < 0x800)
	case 3:
		vrt.Assume(0x800 <= r && r < 0x10000 && !(0xD800 <= r && r <= 0xDFFF))
	case 4:
		vrt.Assume(0x10000 <= r && r <= 0x10FFFF)
	}
	c := Character(r)
	vrt.Carve("C03-char-delimiter-unreadable", zzC03In(byte(r), " !\"$%&'();?[\\]`{}") && r < 0x80)
	text := c.Readably(nil, zzC03Printer(true))
	out := zzC03Read(text)
	vrt.Reach("read")
	vrt.Assert(out.class != 3 && out.class != 4, "reading a printed character is a Go fault")
	vrt.Assert(out.class == 0 && len(out.code) == 1, "a printed character cannot be read back")
	got, ok := out.code[0].(Character)
	vrt.Assert(ok, "a printed character reads back as another type")
	vrt.Assert(got == c, "a printed character reads back as a different character")
}

const zzC03SymAlpha = "abzAZ019-+*/.:|#\\ ()\"';,@_<=>!?%&$^~"

// VerifC03Symbol: a symbol of n bytes printed under *print-case* pc (0 nil, 1
// upcase, 2 downcase, 3 capitalize) reads back as a symbol equal to it.
// alpha != 0 restricts the bytes to zzC03SymAlpha.
func VerifC03Symbol(n int, pc int, alpha int) {
	b := vrt.Bytes("s", n)
	if alpha != 0 {
		zzAlphabet(b, zzC03SymAlpha)
	} else {
		for _, c := range b {
			vrt.Assume(c < 0x80) // ASCII names; non-ASCII names are outside this obligation
		}
	}
	sym := Symbol(string(b))
	ctl, bar, num, quest := false, false, true, false
	digit := false
	for _, c := range b {
		if c < 0x20 {
			ctl = true
		}
		if c == '|' || c == '\\' {
			bar = true
		}
		if c == '?' {
			quest = true
		}
		if !zzC03In(c, "0123456789+-./eEdDfFlLsS") {
			num = false
		}
		if '0' <= c && c <= '9' {
			digit = true
		}
	}
	vrt.Carve("C03-symbol-bar-or-backslash", bar)
	vrt.Assume(b[0] != '@') // @... is slip's time-literal extension (time.ParseInLocation: native, concrete only)
	kwSpecial := false
	if b[0] == ':' {
		for _, c := range b[1:] {
			if !zzC03In(c, "abcdefghijklmnopqrstuvwxyzABCDEFGHIJKLMNOPQRSTUVWXYZ0123456789-+*/<=>_.:@%$^~") {
				kwSpecial = true
			}
		}
	}
	vrt.Carve("C03-symbol-specials-unquoted", ctl || quest || kwSpecial)
	vrt.Carve("C03-symbol-reads-as-other-datum", (num && digit) || zzC03Fold(b, "t") || zzC03Fold(b, "nil"))
	p := zzC03Printer(true)
	switch pc {
	case 0:
		p.Case = nil
	case 1:
		p.Case = upcaseKey
	case 2:
		p.Case = downcaseKey
	case 3:
		p.Case = capitalizeKey
	}
	text := sym.Readably(nil, p)
	out := zzC03Read(text)
	vrt.Reach("read")
	vrt.Assert(out.class != 3 && out.class != 4, "reading a printed symbol is a Go fault")
	vrt.Assert(out.class == 0 && len(out.code) == 1, "a printed symbol cannot be read back")
	got, ok := out.code[0].(Symbol)
	vrt.Assert(ok, "a printed symbol reads back as another type")
	vrt.Assert(got.Equal(sym) && len(got) == len(sym), "a printed symbol reads back as a different symbol")
}

// VerifC03String: a string of n bytes printed without *print-readably* (the
// escaping of the readable form lives in the external ojg module) reads back
// equal.
func VerifC03String(n int) {
	b := vrt.Bytes("s", n)
	str := String(string(b))
	text := str.Readably(nil, zzC03Printer(false))
	out := zzC03Read(text)
	vrt.Reach("read")
	vrt.Assert(out.class != 3 && out.class != 4, "reading a printed string is a Go fault")
	vrt.Assert(out.class == 0 && len(out.code) == 1, "a printed string cannot be read back")
	got, ok := out.code[0].(String)
	vrt.Assert(ok, "a printed string reads back as another type")
	vrt.Assert(string(got) == string(str), "a printed string reads back as a different string")
}

// VerifC03Fixnum: a fixnum printed in base b with or without *print-radix*
// reads back as the same fixnum (with radix in any base; without radix in
// base 10, the default *read-base*).
func VerifC03Fixnum(base int, radix int, maxdigits int) {
	x := vrt.Int64("x")
	if 0 < maxdigits {
		// with letters as digits every digit forks on digit/letter: bound the length
		lim := int64(1)
		for i := 0; i < maxdigits; i++ {
			lim *= int64(base)
		}
		vrt.Assume(-lim < x && x < lim)
	}
	p := zzC03Printer(true)
	p.Base = uint(base)
	p.Radix = radix != 0
	text := Fixnum(x).Readably(nil, p)
	out := zzC03Read(text)
	vrt.Reach("read")
	vrt.Assert(out.class != 3 && out.class != 4, "reading a printed integer is a Go fault")
	vrt.Assert(out.class == 0 && len(out.code) == 1, "a printed integer cannot be read back")
	got, ok := out.code[0].(Fixnum)
	vrt.Assert(ok, "a printed fixnum reads back as another type")
	vrt.Assert(int64(got) == x, "a printed fixnum reads back as a different number")
}

func zzC03In(c byte, set string) bool {
	for i := 0; i < len(set); i++ {
		if set[i] == c {
			return true
		}
	}
	return false
}

// zzC03Fold: b equals the lower-case ASCII word w ignoring case.
func zzC03Fold(b []byte, w string) bool {
	if len(b) != len(w) {
		return false
	}
	for i := range b {
		c := b[i]
		if 'A' <= c && c <= 'Z' {
			c += 'a' - 'A'
		}
		if c != w[i] {
			return false
		}
	}
	return true
}
