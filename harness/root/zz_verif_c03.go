package slip

import (
	vrt "github.com/ohler55/slip/zzvrt"
)

// ---- C03: print then read gives back an equal object of the same type ----

type zzC03Out struct {
	code  Code
	class int // 0 value, 1 condition, 2 partial, 3 Go fault, 4 other
}

func zzC03Read(text []byte) (out zzC03Out) {
	defer func() {
		if rec := recover(); rec != nil {
			switch tr := rec.(type) {
			case *PartialPanic:
				out.class = 2
			case *Panic:
				out.class = 1
				if tr.Value != nil {
					out.class = 3
				}
			case Instance:
				out.class = 1
			case interface{ RuntimeError() }:
				out.class = 3
			default:
				out.class = 4
			}
		}
	}()
	out.code = Read(text, NewScope())
	return
}

func zzC03Printer(readably bool) *Printer {
	p := *DefaultPrinter()
	p.Readably = readably
	p.Escape = true
	return &p
}

// VerifC03Char: every Unicode scalar value printed as a character reads back
// as the same character. lo/hi select a sub-range so that cases run in parallel:
// 0 ASCII control, 1 ASCII printable, 2 two-byte, 3 three-byte, 4 four-byte.
func VerifC03Char(class int) {
	r := vrt.Rune("r")
	switch class {
	case 0:
		vrt.Assume(0 < r && r < 0x20)
	case 1:
		vrt.Assume(0x20 <= r && r < 0x80)
	case 2:
		vrt.Assume(0x80 <= r && r < 0x800)
	case 3:
		vrt.Assume(0x800 <= r && r < 0x10000 && !(0xD800 <= r && r <= 0xDFFF))
	case 4:
		vrt.Assume(0x10000 <= r && r <= 0x10FFFF)
	}
	c := Character(r)
	vrt.Carve("C03-char-delimiter-unreadable", zzC03In(byte(r), " !\"$%&'();?[\\]`{}") && r < 0x80)
	text := c.Readably(nil, zzC03Printer(true))
	out := zzC03Read(text)
	vrt.Reach("read")
	vrt.Assert(out.class != 3 && out.class != 4, "reading a printed character is a Go fault")
	vrt.Assert(out.class == 0 && len(out.code) == 1, "a printed character cannot be read back")
	got, ok := out.code[0].(Character)
	vrt.Assert(ok, "a printed character reads back as another type")
	vrt.Assert(got == c, "a printed character reads back as a different character")
}

const zzC03SymAlpha = "abzAZ019-+*/.:|#\\ ()\"';,@_<=>!?%&$^~"

// VerifC03Symbol: a symbol of n bytes printed under *print-case* pc (0 nil, 1
// upcase, 2 downcase, 3 capitalize) reads back as a symbol equal to it.
// alpha != 0 restricts the bytes to zzC03SymAlpha.
func VerifC03Symbol(n int, pc int, alpha int) {
	b := vrt.Bytes("s", n)
	if alpha != 0 {
		zzAlphabet(b, zzC03SymAlpha)
	} else {
		for _, c := range b {
			vrt.Assume(c < 0x80) // ASCII names; non-ASCII names are outside this obligation
		}
	}
	sym := Symbol(string(b))
	ctl, bar, num, quest := false, false, true, false
	digit := false
	for _, c := range b {
		if c < 0x20 {
			ctl = true
		}
		if c == '|' || c == '\\' {
			bar = true
		}
		if c == '?' {
			quest = true
		}
		if !zzC03In(c, "0123456789+-./eEdDfFlLsS") {
			num = false
		}
		if '0' <= c && c <= '9' {
			digit = true
		}
	}
	vrt.Carve("C03-symbol-bar-or-backslash", bar)
	vrt.Assume(b[0] != '@') // @... is slip's time-literal extension (time.ParseInLocation: native, concrete only)
	kwSpecial := false
	if b[0] == ':' {
		for _, c := range b[1:] {
			if !zzC03In(c, "abcdefghijklmnopqrstuvwxyzABCDEFGHIJKLMNOPQRSTUVWXYZ0123456789-+*/<=>_.:@%$^~") {
				kwSpecial = true
			}
		}
	}
	vrt.Carve("C03-symbol-specials-unquoted", ctl || quest || kwSpecial)
	vrt.Carve("C03-symbol-reads-as-other-datum", num && digit)
	vrt.Carve("C03-symbol-t-nil-reads-as-constant", zzC03Fold(b, "t") || zzC03Fold(b, "nil"))
	p := zzC03Printer(true)
	switch pc {
	case 0:
		p.Case = nil
	case 1:
		p.Case = upcaseKey
	case 2:
		p.Case = downcaseKey
	case 3:
		p.Case = capitalizeKey
	}
	text := sym.Readably(nil, p)
	out := zzC03Read(text)
	vrt.Reach("read")
	vrt.Assert(out.class != 3 && out.class != 4, "reading a printed symbol is a Go fault")
	vrt.Assert(out.class == 0 && len(out.code) == 1, "a printed symbol cannot be read back")
	got, ok := out.code[0].(Symbol)
	vrt.Assert(ok, "a printed symbol reads back as another type")
	vrt.Assert(got.Equal(sym) && len(got) == len(sym), "a printed symbol reads back as a different symbol")
}

// VerifC03String: a string of n bytes printed without *print-readably* (the
// escaping of the readable form lives in the external ojg module) reads back
// equal.
func VerifC03String(n int) {
	b := vrt.Bytes("s", n)
	str := String(string(b))
	text := str.Readably(nil, zzC03Printer(false))
	out := zzC03Read(text)
	vrt.Reach("read")
	vrt.Assert(out.class != 3 && out.class != 4, "reading a printed string is a Go fault")
	vrt.Assert(out.class == 0 && len(out.code) == 1, "a printed string cannot be read back")
	got, ok := out.code[0].(String)
	vrt.Assert(ok, "a printed string reads back as another type")
	vrt.Assert(string(got) == string(str), "a printed string reads back as a different string")
}

// VerifC03Fixnum: a fixnum printed in base b with or without *print-radix*
// reads back as the same fixnum (with radix in any base; without radix in
// base 10, the default *read-base*).
func VerifC03Fixnum(base int, radix int, maxdigits int) {
	x := vrt.Int64("x")
	if 0 < maxdigits {
		// with letters as digits every digit forks on digit/letter: bound the length
		lim := int64(1)
		for i := 0; i < maxdigits; i++ {
			lim *= int64(base)
		}
		vrt.Assume(-lim < x && x < lim)
	}
	p := zzC03Printer(true)
	p.Base = uint(base)
	p.Radix = radix != 0
	text := Fixnum(x).Readably(nil, p)
	out := zzC03Read(text)
	vrt.Reach("read")
	vrt.Assert(out.class != 3 && out.class != 4, "reading a printed integer is a Go fault")
	vrt.Assert(out.class == 0 && len(out.code) == 1, "a printed integer cannot be read back")
	got, ok := out.code[0].(Fixnum)
	vrt.Assert(ok, "a printed fixnum reads back as another type")
	vrt.Assert(int64(got) == x, "a printed fixnum reads back as a different number")
}

func zzC03In(c byte, set string) bool {
	for i := 0; i < len(set); i++ {
		if set[i] == c {
			return true
		}
	}
	return false
}

// zzC03Fold: b equals the lower-case ASCII word w ignoring case.
func zzC03Fold(b []byte, w string) bool {
	if len(b) != len(w) {
		return false
	}
	for i := range b {
		c := b[i]
		if 'A' <= c && c <= 'Z' {
			c += 'a' - 'A'
		}
		if c != w[i] {
			return false
		}
	}
	return true
}

var zzC03Strs = []string{"a\"b", "x\\y", "tab\there", "plain", ""}

// zzC03Leaf builds a leaf: kind 0 concrete string (by index), 1 symbol of two
// symbolic bytes from a small alphabet with a blank and a paren (so that some
// names need bars), 2 symbolic fixnum (|x| < 1000), 3 symbolic lower-case letter
// character, 4 nil.
func zzC03Leaf(tag string, kind int, si int) Object {
	switch kind {
	case 0:
		return String(zzC03Strs[si%len(zzC03Strs)])
	case 1:
		b := vrt.Bytes(tag, 2)
		zzAlphabet(b, "ab (")
		return Symbol(string(b))
	case 2:
		x := vrt.Int64(tag)
		vrt.Assume(-1000 < x && x < 1000)
		return Fixnum(x)
	case 3:
		r := vrt.Rune(tag)
		vrt.Assume('a' <= r && r <= 'z')
		return Character(r)
	}
	return nil
}

// zzC03SameTree: structural equality, symbols compared without case.
func zzC03SameTree(a, b Object) bool {
	switch ta := a.(type) {
	case nil:
		return b == nil
	case Symbol:
		tb, ok := b.(Symbol)
		return ok && len(ta) == len(tb) && ta.Equal(tb)
	case List:
		tb, ok := b.(List)
		if !ok || len(ta) != len(tb) {
			return false
		}
		for i := range ta {
			if !zzC03SameTree(ta[i], tb[i]) {
				return false
			}
		}
		return true
	case Tail:
		tb, ok := b.(Tail)
		return ok && zzC03SameTree(ta.Value, tb.Value)
	case *Vector:
		tb, ok := b.(*Vector)
		return ok && zzC03SameTree(ta.AsList(), tb.AsList())
	}
	return zzSame(a, b)
}

// VerifC03Tree: a small structure (list, nested list, dotted list or vector) of
// leaves printed readably — flat or pretty with a symbolic right margin — reads
// back as an equal structure. k0..k2 are the leaf kinds, si the string index.
func VerifC03Tree(shape int, k0 int, k1 int, k2 int, si int, pretty int) {
	l0, l1, l2 := zzC03Leaf("l0", k0, si), zzC03Leaf("l1", k1, si+1), zzC03Leaf("l2", k2, si+2)
	var obj Object
	switch shape {
	case 0:
		obj = List{l0, l1, l2}
	case 1:
		obj = List{List{l0, l1}, l2}
	case 2:
		obj = List{l0, List{l1, List{l2}}}
	case 3:
		obj = List{l0, l1, Tail{Value: l2}}
		vrt.Assume(l2 != nil)
	case 4:
		obj = NewVector(3, TrueSymbol, nil, List{l0, l1, l2}, true)
	}
	p := zzC03Printer(true)
	p.Array = true
	p.Pretty = pretty != 0
	if p.Pretty {
		m := vrt.Int("margin")
		vrt.Assume(1 <= m && m <= 200)
		p.RightMargin = uint(m)
	}
	needBars := false
	for _, l := range []Object{l0, l1, l2} {
		if sym, ok := l.(Symbol); ok {
			for i := 0; i < len(sym); i++ {
				if sym[i] == ' ' || sym[i] == '(' {
					needBars = true
				}
			}
		}
	}
	vrt.Carve("C03-pretty-symbol-unquoted", pretty != 0 && needBars)
	text := p.Append(nil, obj, 0)
	out := zzC03Read(text)
	vrt.Reach("read")
	vrt.Assert(out.class != 3 && out.class != 4, "reading a printed structure is a Go fault")
	vrt.Assert(out.class == 0 && len(out.code) == 1, "a printed structure cannot be read back")
	vrt.Assert(zzC03SameTree(obj, out.code[0]), "a printed structure reads back as a different object")
}
