package slip

// C04 part (a): Lambda.Call / DefLambda bind the actual arguments as the
// lambda list prescribes.  The lambda list shape comes from the harness
// parameters, the structure of the argument tail (fixnum / own key / unknown
// key per position) from vrt.Choice, the argument values are symbolic fixnums.
// The body of the lambda is a spy object that records the scope it is
// evaluated in, so the bindings made by Lambda.Call are read directly from
// that scope's Vars and compared with an independent reference binder.

import (
	"strconv"

	vrt "github.com/ohler55/slip/zzvrt"
)

// zzC04Spy is the body form: it records the scope Lambda.Call built.
type zzC04Spy struct {
	got *Scope
}

func (sp *zzC04Spy) String() string              { return "#<zz-c04-spy>" }
func (sp *zzC04Spy) Append(b []byte) []byte      { return append(b, "#<zz-c04-spy>"...) }
func (sp *zzC04Spy) Simplify() any               { return "#<zz-c04-spy>" }
func (sp *zzC04Spy) Equal(other Object) bool     { return false }
func (sp *zzC04Spy) Hierarchy() []Symbol         { return []Symbol{TrueSymbol} }
func (sp *zzC04Spy) Eval(s *Scope, d int) Object { sp.got = s; return nil }

const (
	zzC04OK         = 0
	zzC04TooFew     = 1 // fewer actuals than required parameters
	zzC04TooMany    = 2 // actuals left over without &rest/&key
	zzC04OddKeys    = 3 // odd number of actuals in the keyword part
	zzC04KeyNotSym  = 4 // a key position holds a non-keyword
	zzC04UnknownKey = 5 // keyword that is not a parameter, no &allow-other-keys
)

// zzC04Shape is a lambda list shape.
type zzC04Shape struct {
	nreq, nopt, optdef int // optdef: 0 no default, 1 constant default, 2 default is the form (+ 100 i)
	rest               bool
	body               bool // the rest parameter is introduced by &body
	nkey, keydef       int  // keydef as optdef (constant 200+i / form (+ 200 i))
	allow              bool
	naux               int
}

func zzC04Name(prefix string, i int) string { return prefix + strconv.Itoa(i) }

// zzC04LambdaList builds the lambda list as the reader would deliver it.
func zzC04LambdaList(sh zzC04Shape) List {
	var ll List
	for i := 0; i < sh.nreq; i++ {
		ll = append(ll, Symbol(zzC04Name("r", i)))
	}
	if 0 < sh.nopt {
		ll = append(ll, Symbol("&optional"))
		for i := 0; i < sh.nopt; i++ {
			ll = append(ll, zzC04Param(zzC04Name("o", i), sh.optdef, 100+i))
		}
	}
	if sh.rest {
		if sh.body {
			ll = append(ll, Symbol("&body"), Symbol("rs"))
		} else {
			ll = append(ll, Symbol("&rest"), Symbol("rs"))
		}
	}
	if 0 < sh.nkey {
		ll = append(ll, Symbol("&key"))
		for i := 0; i < sh.nkey; i++ {
			ll = append(ll, zzC04Param(zzC04Name("k", i), sh.keydef, 200+i))
		}
		if sh.allow {
			ll = append(ll, Symbol("&allow-other-keys"))
		}
	}
	if 0 < sh.naux {
		ll = append(ll, Symbol("&aux"))
		for i := 0; i < sh.naux; i++ {
			switch {
			case i == 0:
				ll = append(ll, List{Symbol("x0"), Fixnum(41)})
			case i == 2 && 0 < sh.nreq:
				// init form referring to an earlier parameter
				ll = append(ll, List{Symbol("x2"), List{Symbol("+"), Symbol("r0"), Fixnum(1)}})
			case i == 2:
				ll = append(ll, List{Symbol("x2"), List{Symbol("+"), Fixnum(40), Fixnum(2)}})
			default:
				ll = append(ll, Symbol(zzC04Name("x", i)))
			}
		}
	}
	return ll
}

func zzC04Param(name string, def int, val int) Object {
	switch def {
	case 1:
		return List{Symbol(name), Fixnum(val)}
	case 2:
		return List{Symbol(name), List{Symbol("+"), Fixnum(val), Fixnum(0)}}
	}
	return Symbol(name)
}

func zzC04Default(def int, val int) Object {
	if def == 0 {
		return nil
	}
	return Fixnum(val) // the value of the constant and of the form (+ val 0)
}

// zzC04Exp is what the reference binder computes.
type zzC04Exp struct {
	reason    int
	names     []string
	vals      []Object
	defaulted int // optional/key parameters that took their default
	formDef   int // ... whose default is a form
	dupKey    bool
}

func (e *zzC04Exp) bind(name string, v Object) {
	e.names = append(e.names, name)
	e.vals = append(e.vals, v)
}

func zzC04KeyName(a Object) (string, bool) {
	sym, ok := a.(Symbol)
	if !ok || len(sym) < 2 || sym[0] != ':' {
		return "", false
	}
	return string(sym[1:]), true
}

// zzC04Reference binds args to the shape the way the Common Lisp lambda list
// rules say (DESIGN appendix F).
func zzC04Reference(sh zzC04Shape, args List) (e zzC04Exp) {
	ai := 0
	for i := 0; i < sh.nreq; i++ {
		if len(args) <= ai {
			e.reason = zzC04TooFew
			return
		}
		e.bind(zzC04Name("r", i), args[ai])
		ai++
	}
	for i := 0; i < sh.nopt; i++ {
		if ai < len(args) {
			e.bind(zzC04Name("o", i), args[ai])
			ai++
		} else {
			e.bind(zzC04Name("o", i), zzC04Default(sh.optdef, 100+i))
			e.defaulted++
			if sh.optdef == 2 {
				e.formDef++
			}
		}
	}
	tail := args[ai:]
	if sh.rest {
		if len(tail) == 0 {
			e.bind("rs", nil)
		} else {
			e.bind("rs", append(List{}, tail...))
		}
	}
	if 0 < sh.nkey {
		if len(tail)%2 != 0 {
			e.reason = zzC04OddKeys
			return
		}
		for j := 0; j < len(tail); j += 2 {
			if _, ok := zzC04KeyName(tail[j]); !ok {
				e.reason = zzC04KeyNotSym
				return
			}
		}
		seen := make([]bool, sh.nkey)
		kv := make([]Object, sh.nkey)
		for j := 0; j < len(tail); j += 2 {
			kn, _ := zzC04KeyName(tail[j])
			found := -1
			for i := 0; i < sh.nkey; i++ {
				if kn == zzC04Name("k", i) {
					found = i
				}
			}
			if found < 0 {
				if !sh.allow {
					e.reason = zzC04UnknownKey
					return
				}
				continue
			}
			if seen[found] {
				e.dupKey = true
				continue // the first occurrence wins
			}
			seen[found] = true
			kv[found] = tail[j+1]
		}
		for i := 0; i < sh.nkey; i++ {
			if seen[i] {
				e.bind(zzC04Name("k", i), kv[i])
			} else {
				e.bind(zzC04Name("k", i), zzC04Default(sh.keydef, 200+i))
				e.defaulted++
				if sh.keydef == 2 {
					e.formDef++
				}
			}
		}
	} else if !sh.rest && 0 < len(tail) {
		e.reason = zzC04TooMany
		return
	}
	for i := 0; i < sh.naux; i++ {
		switch {
		case i == 0:
			e.bind("x0", Fixnum(41))
		case i == 2 && 0 < sh.nreq:
			e.bind("x2", Fixnum(int64(args[0].(Fixnum))+1))
		case i == 2:
			e.bind("x2", Fixnum(42))
		default:
			e.bind(zzC04Name("x", i), nil)
		}
	}
	return
}

// zzC04Same compares a bound value with the expected one.
func zzC04Same(a, b Object) bool {
	switch ta := a.(type) {
	case nil:
		if lb, ok := b.(List); ok {
			return len(lb) == 0
		}
		return b == nil
	case Fixnum:
		tb, ok := b.(Fixnum)
		return ok && ta == tb
	case Symbol:
		tb, ok := b.(Symbol)
		return ok && string(ta) == string(tb)
	case List:
		if len(ta) == 0 {
			return zzC04Same(nil, b)
		}
		tb, ok := b.(List)
		if !ok || len(ta) != len(tb) {
			return false
		}
		same := true
		for i := range ta {
			if !zzC04Same(ta[i], tb[i]) {
				same = false
			}
		}
		return same
	}
	return false
}

// zzC04CallClass: 0 returned, 1 rejected (condition or other non-fault panic), 3 Go run-time fault.
func zzC04CallClass(lam *Lambda, s *Scope, args List) (class int) {
	defer func() {
		if rec := recover(); rec != nil {
			if _, ok := rec.(interface{ RuntimeError() }); ok {
				class = 3
			} else {
				class = 1
			}
		}
	}()
	lam.Call(s, args, 0)
	return 0
}

// zzC04Actuals builds the argument vector: required arguments are symbolic
// fixnums, each element of the tail (what follows the positional parameters)
// is a symbolic fixnum, one of the lambda list's own keys, or an unknown key.
// With vals != 0 the arguments for &optional parameters and every tail element
// may also be an explicit nil or the plain symbol zzs (vrt.Choice): a supplied
// nil must be bound as nil, not replaced by the parameter's default.
func zzC04Actuals(sh zzC04Shape, nargs int, vals int) List {
	args := make(List, 0, nargs)
	npos := sh.nreq + sh.nopt
	for i := 0; i < nargs; i++ {
		kind := 0 // 0 fixnum, 1..nkey own key, nkey+1 unknown key, nkey+2 nil, nkey+3 symbol zzs
		extra := 0
		if vals != 0 {
			extra = 2
		}
		switch {
		case i < sh.nreq:
		case i < npos:
			if vals != 0 {
				if c := vrt.Choice(zzC04Name("v", i), 3); 0 < c {
					kind = sh.nkey + 1 + c
				}
			}
		case 0 < sh.nkey:
			kind = vrt.Choice(zzC04Name("t", i), sh.nkey+2+extra)
		case sh.rest:
			if c := vrt.Choice(zzC04Name("t", i), 2+extra); 0 < c {
				kind = sh.nkey + c
			}
		}
		switch {
		case kind == 0:
			args = append(args, Fixnum(vrt.Int64(zzC04Name("a", i))))
		case kind <= sh.nkey:
			args = append(args, Symbol(":"+zzC04Name("k", kind-1)))
		case kind == sh.nkey+1:
			// a keyword that names no &key parameter: a fresh name, or the name of another
			// variable of the lambda list (an &aux variable, a required or an &optional parameter)
			unknown := []string{":zz"}
			if 0 < sh.nkey {
				if 0 < sh.naux {
					unknown = append(unknown, ":"+zzC04Name("x", 0))
				}
				if 0 < sh.nreq {
					unknown = append(unknown, ":"+zzC04Name("r", 0))
				}
				if 0 < sh.nopt {
					unknown = append(unknown, ":"+zzC04Name("o", 0))
				}
			}
			args = append(args, Symbol(unknown[vrt.Choice(zzC04Name("u", i), len(unknown))]))
		case kind == sh.nkey+2:
			args = append(args, nil)
		default:
			args = append(args, Symbol("zzs"))
		}
	}
	return args
}

// VerifC04Bind: Lambda.Call binds exactly as the reference binder, or both reject.
//
// rest: 0 none, 1 &rest, 2 &body.  naux: x0 has a constant init, x1 none, x2 the
// init form (+ r0 1) (or (+ 40 2) without required parameters).
// outer = 1: the calling scope has variables named like every optional and key
// parameter (bound to 999), which must not influence the bindings.
// vals = 1: optional arguments and tail elements may also be nil or a symbol.
func VerifC04Bind(nreq, nopt, optdef, rest, nkey, keydef, allow, naux, nargs, outer, vals int) {
	sh := zzC04Shape{nreq: nreq, nopt: nopt, optdef: optdef, rest: rest != 0, body: rest == 2, nkey: nkey, keydef: keydef,
		allow: allow != 0, naux: naux}
	args := zzC04Actuals(sh, nargs, vals)
	if 2 < naux && 0 < nreq && 0 < nargs {
		// x2 = (+ r0 1): keep the sum inside the fixnum range (overflow is C05's subject)
		r0 := int64(args[0].(Fixnum))
		vrt.Assume(-(1 << 62) < r0)
		vrt.Assume(r0 < 1<<62)
	}
	exp := zzC04Reference(sh, args)

	scope := NewScope()
	spy := &zzC04Spy{}
	lam := DefLambda("zzc04fun", scope, List{zzC04LambdaList(sh), spy})
	caller := scope.NewScope()
	if outer != 0 {
		for i := 0; i < sh.nopt; i++ {
			caller.Let(Symbol(zzC04Name("o", i)), Fixnum(999))
		}
		for i := 0; i < sh.nkey; i++ {
			caller.Let(Symbol(zzC04Name("k", i)), Fixnum(999))
		}
	}
	actual := append(List{}, args...)
	class := zzC04CallClass(lam, caller, actual)

	// regions of the known findings (all concrete: shape and tail structure)
	vrt.Carve("C04-bind-too-few-required-accepted", exp.reason == zzC04TooFew)
	vrt.Carve("C04-bind-rest-with-key-drops-keyword-part", sh.rest && 0 < sh.nkey && sh.nreq+sh.nopt < nargs)
	vrt.Carve("C04-bind-unknown-key-accepted", exp.reason == zzC04UnknownKey)
	vrt.Carve("C04-bind-unknown-key-bound-as-variable", exp.reason == zzC04OK && sh.allow && zzC04HasUnknown(sh, args))
	vrt.Carve("C04-bind-duplicate-key-last-wins", exp.reason == zzC04OK && exp.dupKey)
	vrt.Carve("C04-bind-default-form-not-evaluated", exp.reason == zzC04OK && 0 < exp.formDef)
	vrt.Carve("C04-bind-default-shadowed-by-caller-variable", exp.reason == zzC04OK && outer != 0 && 0 < exp.defaulted)

	vrt.Reach("compared")
	vrt.Assert(class != 3, "Go run-time fault while binding arguments")
	if exp.reason != zzC04OK {
		vrt.Assert(class != 0, "call that the lambda list does not allow was accepted")
		return
	}
	vrt.Assert(class == 0, "call that the lambda list allows was rejected")
	vrt.Assert(spy.got != nil, "body not evaluated")
	for i := range exp.names {
		v, has := spy.got.Vars[exp.names[i]]
		vrt.Assert(has, "parameter not bound in the function's scope")
		vrt.Assert(zzC04Same(exp.vals[i], v), "parameter bound to the wrong value")
	}
	// (the marker &allow-other-keys itself ends up bound to nil as if it were a
	// key parameter; that cannot change what a body computes and is not counted)
	extra := 0
	for name := range spy.got.Vars {
		if 0 < len(name) && name[0] != '&' {
			extra++
		}
	}
	vrt.Assert(extra == len(exp.names), "variables other than the parameters bound in the function's scope")
	for i := range args {
		vrt.Assert(zzC04Same(args[i], actual[i]), "argument vector modified by the call")
	}
}

func zzC04HasUnknown(sh zzC04Shape, args List) bool {
	for j := sh.nreq + sh.nopt; j < len(args); j += 2 {
		if kn, ok := zzC04KeyName(args[j]); ok {
			own := false
			for k := 0; k < sh.nkey; k++ {
				if kn == zzC04Name("k", k) {
					own = true
				}
			}
			if !own {
				return true
			}
		}
	}
	return false
}

// zzC04StubErrorPanic replaces ErrorPanic in the C04.bind runs: Lambda.Call's
// "Too many arguments to %s" formats the lambda itself, whose printed form
// contains its address (uintptr conversion, not modelled by the engine). The
// stub raises the same kind of panic carrying the unformatted text.
func zzC04StubErrorPanic(s *Scope, depth int, format string, args ...any) {
	panic(&Panic{Message: format})
}
