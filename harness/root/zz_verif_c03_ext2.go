package slip

import (
	"math"
	"math/big"

	vrt "github.com/ohler55/slip/zzvrt"
)

// ---- C03 extension: nested structures under the printer control variables, arrays, quote forms ----

// zzC03XCfg sets one group of printer control variables on p; returns the
// *read-base* to read with.
//
//	0 defaults          1 *print-length*/*print-level*/*print-lines* = 2^40 (a limit no object reaches)
//	2 limits = max int ("nil")   3 *print-miser-width* symbolic 0..200
//	4 base 16 + radix   5 base 2, no radix (read-base 2)   6 base 36, no radix (read-base 36)
//	7 *print-case* :upcase   8 :capitalize   9 nil
func zzC03XCfg(p *Printer, cfg int) int {
	switch cfg {
	case 1:
		p.Length, p.Level, p.Lines = 1<<40, 1<<40, 1<<40
	case 2:
		p.Length, p.Level, p.Lines = math.MaxInt, math.MaxInt, math.MaxInt
	case 3:
		w := vrt.Int("miser")
		vrt.Assume(0 <= w && w <= 200)
		p.MiserWidth = uint(w)
	case 4:
		p.Base, p.Radix = 16, true
	case 5:
		p.Base = 2
		return 2
	case 6:
		p.Base = 36
		return 36
	case 7:
		p.Case = upcaseKey
	case 8:
		p.Case = capitalizeKey
	case 9:
		p.Case = nil
	}
	return 10
}

func zzC03XNestObj(shape int, cfg int) Object {
	x := vrt.Int64("x")
	vrt.Assume(-1300 < x && x < 1300)
	vrt.Carve("C03-integer-digits-spell-t-or-nil", x == 29 && cfg == 6) // 29 is written t in base 36
	r := vrt.Rune("c")
	vrt.Assume('!' <= r && r <= '~')
	fx, ch := Fixnum(x), Character(r)
	big64 := (*Bignum)(zzC03Pow(2, 64))
	vec := func(el ...Object) Object { return NewVector(len(el), TrueSymbol, nil, List(el), true) }
	switch shape {
	case 0: // lists of lists of vectors, dotted tails
		return List{
			List{fx, vec(Symbol("a"), String("s\"q"), ch)},
			List{ch, Tail{Value: NewRatio(2, 3)}},
			List{Symbol("a b"), nil, Tail{Value: fx}},
			Tail{Value: Symbol("tail")},
		}
	case 1: // vector of lists of vectors
		return vec(List{Symbol("FooBar"), List{Symbol("b"), vec(Symbol("c"), vec(), fx)}}, DoubleFloat(1.5), String("x\ny"), SingleFloat(2.5), big64)
	case 2: // depth 7
		return List{List{List{List{List{List{List{fx, ch}, Symbol("d6")}, String("five")}, vec(fx)}, nil}, Symbol(":key")}, Tail{Value: ch}}
	case 3: // a long flat list: many line breaks under a small margin
		return List{Symbol("alpha"), fx, Symbol("beta"), ch, Symbol("gamma"), String("delta epsilon"), fx, List{Symbol("zeta"), fx}, Symbol("eta"),
			DoubleFloat(-0.25), Symbol("theta"), NewRatio(-7, 36)}
	}
	// integers in every position of a nested structure (for the base settings)
	return List{fx, List{Fixnum(35), Fixnum(-36), List{fx, Fixnum(1295)}}, vec(fx, Fixnum(0), big64), Tail{Value: fx}}
}

// VerifC03XNest: a nested structure with mixed leaves (one symbolic fixnum |x| < 1300 used in
// several places, one symbolic printable ASCII character, concrete symbols — some needing
// bars or with upper case —, strings with escapes, ratio, floats, bignum, nil, empty vector)
// printed readably under printer-control setting cfg, flat AND pretty (right margin symbolic
// 1..200): both renderings must read back as an object equal to the original.
func VerifC03XNest(shape int, cfg int) {
	obj := zzC03XNestObj(shape, cfg)
	p := zzC03Printer(true)
	p.Array = true
	rb := zzC03XCfg(p, cfg)
	p.Pretty = false
	flat := p.Append(nil, obj, 0)
	out := zzC03XRead(flat, rb, 0)
	vrt.Reach("read")
	zzC03XCheck(out, obj, "nested structure (flat)")
	m := vrt.Int("margin")
	vrt.Assume(1 <= m && m <= 200)
	p.Pretty = true
	p.RightMargin = uint(m)
	pretty := p.Append(nil, obj, 0)
	out = zzC03XRead(pretty, rb, 0)
	vrt.Reach("readpretty")
	zzC03XCheck(out, obj, "nested structure (pretty)")
}

var zzC03XDims = [][]int{
	{},                                                          // 0: rank 0
	{2, 3}, {1, 1}, {3, 1}, {2, 0}, {0, 2}, {0, 0},              // 1..6: rank 2
	{2, 1, 2}, {1, 2, 3}, {2, 3, 0}, {2, 0, 3}, {0, 1, 1}, {1, 0, 0}, // 7..12: rank 3
	{1, 1, 1, 2}, // 13: rank 4
}

// VerifC03XArray: a multi-dimensional array (dims number d of zzC03XDims: rank 0, 2, 3, 4, with
// zero dimensions) whose first two elements are symbolic fixnums, printed with *print-array* t
// in *print-base* base with/without *print-radix*, flat or pretty, and read back (under
// *read-base* = base when no radix is printed): same dimensions, same elements.
func VerifC03XArray(d int, base int, radix int, pretty int) {
	dims := zzC03XDims[d]
	rank := len(dims)
	zeroInner, zeroLast := false, false
	for i, n := range dims {
		if n == 0 && i < rank-1 {
			zeroInner = true
		}
		if n == 0 && i == rank-1 {
			zeroLast = true
		}
	}
	vrt.Carve("C03-array-rank-zero", rank == 0)
	// an empty sub-list is written as nil by the flat printer and as () by the pretty one; the
	// reader only copes with () in the last dimension
	vrt.Carve("C03-array-zero-dimension", 2 <= rank && (zeroInner || (zeroLast && pretty == 0)))
	// what remains after the repair: the nested-list syntax after #nA cannot say how long the rows
	// of zero rows would be, so a zero dimension followed by a non-zero one reads back as zero
	zeroThenNonZero := false
	for i, n := range dims {
		if n == 0 && i < rank-1 && dims[i+1] != 0 {
			zeroThenNonZero = true
		}
	}
	vrt.Carve("C03-array-zero-then-nonzero-dimension", 2 <= rank && zeroThenNonZero)
	vrt.Carve("C03-array-rank-in-print-base", 2 <= rank && (radix != 0 || base <= rank))
	arr := NewArray(dims, TrueSymbol, nil, nil, false)
	for i := range arr.elements {
		if i < 2 {
			x := vrt.Int64("e" + string(rune('0'+i)))
			vrt.Assume(-40 < x && x < 40)
			vrt.Carve("C03-integer-digits-spell-t-or-nil", x == 29 && 30 <= base && radix == 0)
			arr.elements[i] = Fixnum(x)
		} else {
			arr.elements[i] = Fixnum(i * 7)
		}
	}
	p := zzC03Printer(true)
	p.Array = true
	p.Base = uint(base)
	p.Radix = radix != 0
	p.Pretty = pretty != 0
	p.RightMargin = 20
	text := p.Append(nil, arr, 0)
	rb := base
	if radix != 0 {
		rb = 10
	}
	out := zzC03XRead(text, rb, 0)
	vrt.Reach("read")
	zzC03XCheck(out, arr, "array")
}

func zzC03XArg(kind int) Object {
	switch kind {
	case 0:
		return Symbol("x")
	case 1:
		return List{Symbol("a"), Fixnum(1), List{Symbol("b")}}
	case 2:
		x := vrt.Int64("x")
		vrt.Assume(-1000 < x && x < 1000)
		return Fixnum(x)
	case 3:
		return DoubleFloat(1.5)
	case 4:
		return nil
	case 5:
		return String("s")
	case 6:
		return Character('c')
	case 7:
		return NewVector(2, TrueSymbol, nil, List{Fixnum(1), Symbol("v")}, true)
	case 8:
		return Symbol("a b") // needs bars
	case 9:
		return NewRatio(1, 2)
	}
	return (*Bignum)(zzC03Pow(2, 64))
}

var zzC03XFormNames = []string{"quote", "backquote", "function", "comma", "comma-at"}

// VerifC03XQuote: (quote x) / (backquote x) / (function x) / `(.. ,x) / `(.. ,@x) objects as
// the reader builds them for ' ` #' , ,@ — printed with their prefix characters and read back:
// same form, same argument.  where: 0 top level, 1 inside a list, 2 nested twice ('`x style:
// form applied to (quote arg)).
func VerifC03XQuote(form int, arg int, where int, pretty int) {
	a := zzC03XArg(arg)
	mk := func(name string, x Object) Object { return CLPkg.GetFunc(name).Create(List{x}) }
	if where == 2 {
		a = mk("quote", a)
	}
	// what follows the prefix is written as a plain token or a list (not a string, a character,
	// a vector, a |symbol| or another prefix)
	token := (arg <= 4 || 9 <= arg) && where != 2
	var obj Object
	switch form {
	case 3, 4: // comma forms only exist inside a backquote
		obj = mk("backquote", List{Symbol("a"), mk(zzC03XFormNames[form], a)})
	default:
		obj = mk(zzC03XFormNames[form], a)
	}
	if where == 1 {
		obj = List{Symbol("f"), obj, Fixnum(2)}
	}
	vrt.Carve("C03-function-form-prints-as-name", form == 2)
	vrt.Carve("C03-quote-prefix-before-non-token", !token)
	p := zzC03Printer(true)
	p.Array = true
	p.Pretty = pretty != 0
	p.RightMargin = 12
	text := p.Append(nil, obj, 0)
	out := zzC03XRead(text, 10, 0)
	vrt.Reach("read")
	zzC03XCheck(out, obj, "quote/backquote/function form")
}

var _ = big.NewInt

var zzC03XNamed = []rune{' ', '\n', '\t', '\f', '\r', 0x7f, '\b'}

// VerifC03XCharName: the name the printer writes for a character (#\Space #\Newline #\Tab
// #\Page #\Return #\Rubout #\Backspace, #\u00XX for the other control characters: sel 7 = a
// symbolic control character) is read back as that character in every letter case (character
// names are case-insensitive): variant 0 as printed, 1 upper case, 2 lower case, 3 the case
// of every letter symbolic.
func VerifC03XCharName(sel int, variant int) {
	var c Character
	if sel < len(zzC03XNamed) {
		c = Character(zzC03XNamed[sel])
	} else {
		r := vrt.Rune("r")
		vrt.Assume(0 < r && r < 0x20)
		c = Character(r)
	}
	text := c.Readably(nil, zzC03Printer(true))
	if 3 < len(text) {
		for i := 2; i < len(text); i++ {
			ch := text[i]
			letter := ('a' <= ch && ch <= 'z') || ('A' <= ch && ch <= 'Z')
			if !letter {
				continue
			}
			switch variant {
			case 1:
				text[i] = ch &^ 0x20
			case 2:
				text[i] = ch | 0x20
			case 3:
				m := vrt.Byte("case" + string(rune('a'+i)))
				text[i] = (ch &^ 0x20) | (m & 0x20)
			}
		}
	}
	out := zzC03Read(text)
	vrt.Reach("read")
	zzC03XCheck(out, c, "character name")
}
