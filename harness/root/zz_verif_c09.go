package slip

// C09 (a): no byte string given to the reader faults the host.
//
// The text is symbolic; Read, ReadOne and ReadStream run on it with the REAL
// resolveToken / pushChar / pushInteger / closeList; the outcome must be a
// value or a slip condition, never a Go run-time fault, a foreign panic value
// (string / error of a library) or a fault raised and swallowed on the way.

import (
	"io"
	"runtime"
	"time"

	vrt "github.com/ohler55/slip/zzvrt"
)

// zzC09Chunks hands out src in pieces ending at the given cut positions; the
// last piece comes with io.EOF.
type zzC09Chunks struct {
	src  []byte
	cuts []int // ascending positions in 0..len(src)
	pos  int
	ci   int
}

func (r *zzC09Chunks) Read(p []byte) (int, error) {
	end := len(r.src)
	for r.ci < len(r.cuts) && r.cuts[r.ci] <= r.pos {
		r.ci++
	}
	if r.ci < len(r.cuts) && r.cuts[r.ci] < end {
		end = r.cuts[r.ci]
		r.ci++
	}
	n := copy(p, r.src[r.pos:end])
	r.pos += n
	if len(r.src) <= r.pos {
		return n, io.EOF
	}
	return n, nil
}

const (
	zzC09Value   = 0 // returned
	zzC09Cond    = 1 // slip condition (parse-error, partial, ...)
	zzC09Fault   = 2 // Go run-time error
	zzC09Foreign = 3 // any other panic value (string, error of a library)
	zzC09Wrapped = 4 // *Panic carrying a wrapped Go panic value
)

// zzC09Alpha is the reader alphabet for the longer texts.
const zzC09Alpha = "()\"\\|#',;@:./+- \naedflstnixbor019*\x80"

func zzC09Classify(rec any) int {
	switch tr := rec.(type) {
	case *PartialPanic:
		return zzC09Cond
	case *Panic:
		if tr.Value != nil {
			return zzC09Wrapped
		}
		return zzC09Cond
	case Instance:
		return zzC09Cond
	case interface{ RuntimeError() }:
		return zzC09Fault
	default:
		return zzC09Foreign
	}
}

func zzC09Run(f func()) (class int) {
	defer func() {
		if rec := recover(); rec != nil {
			class = zzC09Classify(rec)
		}
	}()
	f()
	return zzC09Value
}

func zzC09Src(n, alpha int) []byte {
	src := vrt.Bytes("src", n)
	if alpha != 0 {
		for i := range src {
			// one table term per byte: no fork per alphabet member
			vrt.Assume(zzC09AlphaTab[src[i]] == 1)
		}
	}
	return src
}

var zzC09AlphaTab = zzC09MakeTab(zzC09Alpha)

func zzC09MakeTab(alpha string) (tab [256]uint8) {
	for i := 0; i < len(alpha); i++ {
		tab[alpha[i]] = 1
	}
	return
}

// zzC09ReaderCarves: regions of the recorded reader faults, as predicates over
// the text.
func zzC09ReaderCarves(src []byte) {
	vrt.Carve("C09-reader-radix-below-2", zzC09HasRadixBelow2(src))
}

// zzC09HasRadixBelow2: the text contains `#` digits `r`/`R` with the digits
// denoting 1 or more than 62, i.e. a radix strconv rejects with an error and
// math/big then rejects with a string panic (0 means "by prefix" for both, and
// 37..62 are accepted by math/big).
func zzC09HasRadixBelow2(src []byte) bool {
	for i := 0; i < len(src); i++ {
		if src[i] != '#' {
			continue
		}
		j := i + 1
		val := 0
		for j < len(src) && '0' <= src[j] && src[j] <= '9' && j-i < 4 {
			val = val*10 + int(src[j]-'0')
			j++
		}
		if i+1 < j && j < len(src) && (src[j] == 'r' || src[j] == 'R') && (val == 1 || 62 < val) {
			return true
		}
	}
	return false
}

// VerifC09Read: mode 0 Read, 1 ReadOne, 2 ReadStream whole, 3 ReadStream cut
// after the first byte.  alpha 0: all 256 byte values, 1: zzC09Alpha.  first
// >= 0 fixes the first byte to zzC09Alpha[first] (splits the long texts into
// parallel cases).
func VerifC09Read(n, alpha, mode, first int) {
	src := zzC09Src(n, alpha)
	if 0 <= first && 0 < n {
		vrt.Assume(src[0] == zzC09Alpha[first])
	}
	if first == -2 {
		// probe of the radix finding: "#1r" followed by a digit (with an empty
		// digit string math/big returns before it looks at the base; the
		// engine's SetString model panics there too, which is why the region
		// of the carve includes the empty digit string)
		vrt.Assume(src[0] == '#' && src[1] == '1' && src[2] == 'r' && src[3] == '1')
	}
	zzC09ReaderCarves(src)
	scope := NewScope()
	class := zzC09Value
	cut := zzC09Guard(2000000, 400, func() {
		class = zzC09Run(func() {
			switch mode {
			case 0:
				Read(append([]byte{}, src...), scope)
			case 1:
				ReadOne(append([]byte{}, src...), scope)
			case 2:
				ReadStream(&zzC09Chunks{src: src}, scope)
			default:
				ReadStream(&zzC09Chunks{src: src, cuts: []int{1}}, scope)
			}
		})
	})
	vrt.Reach("read")
	vrt.Assert(cut != 1, "allocation whose size can exceed 2^31 elements")
	if cut == 2 {
		// #<n>A with 64 < n <= 1024 dimensions (array rank limit): an
		// allocation of n ints, allowed, not explored further
		vrt.Reach("large-allocation-cut")
		return
	}
	vrt.Assert(cut == 0, "reading does not finish within its budget")
	vrt.Assert(class != zzC09Fault, "Go run-time fault in the reader")
	vrt.Assert(class != zzC09Foreign && class != zzC09Wrapped, "reader panics with a value that is not a Lisp condition")
	vrt.Assert(vrt.Faults() <= 0, "Go run-time fault raised (and swallowed) while reading")
}

// zzC09Guard runs f (which recovers its own panics) and reports how it ended:
// 0 it returned; 1 it allocated without bound; 2 (engine only) it reached an
// allocation of 65..2^31 elements, which the engine does not explore further;
// 3 it did not finish within its budget of steps (natively: of time); 4
// (engine only) it forked more often than its budget of symbolic decisions.  In the engine this function is an
// intrinsic (/verif/engine/x_c09.go): budgets are SSA instructions and
// symbolic decisions, "without bound" means an allocation whose symbolic size
// can exceed 2^31 elements under the path condition.  Natively (replay of a
// model) f runs in a goroutine under a watchdog: more than 2 GiB obtained from
// the system => 1, more than 10 s => 3.
func zzC09Guard(steps, decisions int, f func()) int {
	var base runtime.MemStats
	runtime.ReadMemStats(&base)
	done := make(chan struct{})
	go func() {
		defer close(done)
		f()
	}()
	tick := time.NewTicker(10 * time.Millisecond)
	defer tick.Stop()
	deadline := time.After(10 * time.Second)
	for {
		select {
		case <-done:
			return 0
		case <-deadline:
			return 3
		case <-tick.C:
			var ms runtime.MemStats
			runtime.ReadMemStats(&ms)
			if base.Sys+(2<<30) < ms.Sys {
				return 1
			}
		}
	}
}

// zzC09StubErrorPanic replaces ErrorPanic in the C09.format runs: format's
// error messages quote the control string (%q of symbolic bytes), which the
// engine's fmt model cannot render.  The stub raises the same condition (the
// real ErrorNew: class lookup, instance creation, Init) with the unformatted
// text; fmt.Sprintf itself recovers from panics of the String methods it
// calls, so nothing that can fault the host is skipped.
func zzC09StubErrorPanic(s *Scope, depth int, format string, args ...any) {
	panic(ErrorNew(s, depth, "%s", format))
}
