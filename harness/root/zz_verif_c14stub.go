package slip

// Stubs used by the C14 obligations (engine runs only; the native replay uses
// the real functions).  The real AppendToStack/WrapError print the whole call
// `(find <item> <sequence> ...)` into the stack-trace strings of a condition:
// with symbolic fixnums that is a decimal conversion per argument and forks
// the path once per digit count.  C14 never looks at the text of a stack
// trace (only at "a condition was signalled"), so the stubs keep everything
// except that text.

// zzC14StubAppendToStack replaces (*Panic).AppendToStack.
func zzC14StubAppendToStack(p *Panic, name string, args List) {
	line := append(List{Symbol(name)}, args...)
	p.stack = append(p.stack, name)
	if p.Condition != nil {
		if sv, has := p.Condition.SlotValue(stackSymbol); has {
			stack, _ := sv.(List)
			p.Condition.SetSlotValue(stackSymbol, append(stack, line))
		}
	}
}

// zzC14StubWrapError replaces WrapError.
func zzC14StubWrapError(s *Scope, obj Instance, name string, args List) *Panic {
	line := append(List{Symbol(name)}, args...)
	p := Panic{Condition: obj}
	var stack List
	if sv, has := obj.SlotValue(stackSymbol); has {
		stack, _ = sv.(List)
	}
	if 0 < len(name) {
		p.stack = []string{name}
		obj.SetSlotValue(stackSymbol, append(stack, line))
	} else if 0 < len(stack) {
		p.stack = append(p.stack, name)
	}
	if msg, has := obj.SlotValue(messageSymbol); has {
		if str, ok2 := msg.(String); ok2 {
			p.Message = string(str)
		}
	}
	return &p
}
