package slip

import (
	"io"

	vrt "github.com/ohler55/slip/zzvrt"
)

// ---- shared helpers for reader harnesses ----

// zzCutReader hands out src in pieces ending at the given cut positions.
type zzCutReader struct {
	src      []byte
	cuts     []int // ascending positions in 0..len(src)
	pos      int
	ci       int
	eofAlone bool // true: final (0, io.EOF); false: (n, io.EOF) with the last piece
}

func (r *zzCutReader) Read(p []byte) (int, error) {
	end := len(r.src)
	for r.ci < len(r.cuts) && r.cuts[r.ci] <= r.pos {
		r.ci++
	}
	if r.ci < len(r.cuts) {
		end = r.cuts[r.ci]
		r.ci++
	}
	n := copy(p, r.src[r.pos:end])
	r.pos += n
	if r.pos >= len(r.src) {
		if r.eofAlone && 0 < n {
			return n, nil
		}
		return n, io.EOF
	}
	return n, nil
}

// zzOutcome is what a read produced: objects, or a panic of some class.
type zzOutcome struct {
	code  Code
	pos   int
	class int // 0 = value, 1 = parse-error (or other condition), 2 = partial, 3 = Go run-time error, 4 = other panic
	fault string
}

func zzClassify(rec any) (int, string) {
	switch tr := rec.(type) {
	case *PartialPanic:
		return 2, ""
	case *Panic:
		return 1, ""
	case Instance:
		return 1, ""
	case interface{ RuntimeError() }:
		return 3, tr.(error).Error()
	case error:
		return 4, ""
	default:
		return 4, ""
	}
}

func zzRun(f func() (Code, int)) (out zzOutcome) {
	defer func() {
		if rec := recover(); rec != nil {
			out.class, out.fault = zzClassify(rec)
			out.code = nil
		}
	}()
	out.code, out.pos = f()
	return
}

// zzSame compares two objects structurally (type and content).
func zzSame(a, b Object) bool {
	switch ta := a.(type) {
	case nil:
		return b == nil
	case Symbol:
		tb, ok := b.(Symbol)
		return ok && string(ta) == string(tb)
	case String:
		tb, ok := b.(String)
		return ok && string(ta) == string(tb)
	case Character:
		tb, ok := b.(Character)
		return ok && ta == tb
	case Fixnum:
		tb, ok := b.(Fixnum)
		return ok && ta == tb
	case List:
		tb, ok := b.(List)
		if !ok || len(ta) != len(tb) {
			return false
		}
		for i := range ta {
			if !zzSame(ta[i], tb[i]) {
				return false
			}
		}
		return true
	case Tail:
		tb, ok := b.(Tail)
		return ok && zzSame(ta.Value, tb.Value)
	case *Vector:
		tb, ok := b.(*Vector)
		if !ok {
			return false
		}
		return zzSame(ta.AsList(), tb.AsList())
	case Funky:
		tb, ok := b.(Funky)
		if !ok || ta.GetName() != tb.GetName() {
			return false
		}
		return zzSame(ta.GetArgs(), tb.GetArgs())
	}
	if b == nil {
		return false
	}
	if a.Hierarchy()[0] != b.Hierarchy()[0] {
		return false
	}
	return a.Equal(b)
}

func zzSameCode(a, b Code) bool {
	if len(a) != len(b) {
		return false
	}
	for i := range a {
		if !zzSame(a[i], b[i]) {
			return false
		}
	}
	return true
}

func zzSameOutcome(a, b zzOutcome) bool {
	if a.class != b.class {
		return false
	}
	if a.class != 0 {
		return true
	}
	return zzSameCode(a.code, b.code)
}

// zzStubResolveToken replaces reader.resolveToken in the C02 runs: an injective
// function of the token bytes (delivery independence only needs the same token
// bytes to reach it).
func zzStubResolveToken(r *reader, token []byte) Object {
	return Symbol(token)
}

func zzAlphabet(src []byte, alpha string) {
	for _, c := range src {
		ok := false
		for i := 0; i < len(alpha); i++ {
			if c == alpha[i] {
				ok = true
			}
		}
		vrt.Assume(ok)
	}
}

const zzAlpha12 = "()\"\\|#',; a1"

// zzSrc builds the symbolic text: n bytes, optionally restricted to an alphabet.
func zzSrc(n int, alpha int) []byte {
	src := vrt.Bytes("src", n)
	switch alpha {
	case 1:
		zzAlphabet(src, zzAlpha12)
	case 2:
		zzAlphabet(src, zzAlpha7)
	}
	return src
}

const zzAlpha7 = "()\"| a1"

// VerifC02Cut1: a text read whole equals the same text delivered in two pieces
// cut at position k (0 <= k <= n), with either EOF convention.
func VerifC02Cut1(n int, k int, alpha int, eofAlone int) {
	src := zzSrc(n, alpha)
	scope := NewScope()
	whole := zzRun(func() (Code, int) { return Read(append([]byte{}, src...), scope), 0 })
	parts := zzRun(func() (Code, int) {
		return ReadStream(&zzCutReader{src: src, cuts: []int{k}, eofAlone: eofAlone != 0}, scope)
	})
	vrt.Reach("compared")
	vrt.Assert(whole.class != 3 && parts.class != 3, "Go run-time fault while reading")
	vrt.Assert(zzSameOutcome(whole, parts), "chunked read differs from whole read")
}

// VerifC02Cut2: the same with two cut positions k1 <= k2.
func VerifC02Cut2(n int, k1 int, k2 int, alpha int) {
	src := zzSrc(n, alpha)
	scope := NewScope()
	whole := zzRun(func() (Code, int) { return Read(append([]byte{}, src...), scope), 0 })
	parts := zzRun(func() (Code, int) {
		return ReadStream(&zzCutReader{src: src, cuts: []int{k1, k2}}, scope)
	})
	vrt.Reach("compared")
	vrt.Assert(zzSameOutcome(whole, parts), "read in three pieces differs from whole read")
}

// VerifC02Each: ReadStreamEach (callback per form) delivers the same objects.
type zzCollect struct {
	got Code
}

func (c *zzCollect) Call(s *Scope, args List, depth int) Object {
	c.got = append(c.got, args[0])
	return nil
}

func VerifC02Each(n int, k int, alpha int) {
	src := zzSrc(n, alpha)
	scope := NewScope()
	whole := zzRun(func() (Code, int) { return Read(append([]byte{}, src...), scope), 0 })
	var col zzCollect
	parts := zzRun(func() (Code, int) {
		ReadStreamEach(&zzCutReader{src: src, cuts: []int{k}}, scope, &col)
		return col.got, 0
	})
	vrt.Reach("compared")
	if whole.class == 0 {
		vrt.Assert(zzSameOutcome(whole, parts), "read-each in pieces differs from whole read")
	} else {
		vrt.Assert(parts.class != 0, "read-each accepts a text the whole read rejects")
	}
}

// VerifC02ReadOne: reading one form at a time from the reported positions
// yields the same objects as reading the whole text, and the text up to each
// reported position contains exactly that form.
func VerifC02ReadOne(n int, alpha int) {
	src := zzSrc(n, alpha)
	scope := NewScope()
	whole := zzRun(func() (Code, int) { return Read(append([]byte{}, src...), scope), 0 })
	vrt.Assume(whole.class == 0)
	// known finding C02-eof-drops-sharp-form: a #*bits form is dropped when the
	// text ends directly behind it, so "the text up to the reported position"
	// reads as nothing for such a form (region: the text contains #*)
	sharpStar := false
	for i := 0; i+1 < len(src); i++ {
		if src[i] == '#' && src[i+1] == '*' {
			sharpStar = true
		}
	}
	vrt.Carve("C02-eof-drops-sharp-form", sharpStar)
	var got Code
	pos := 0
	for i := 0; i <= n; i++ {
		start := pos
		one := zzRun(func() (Code, int) { return ReadOne(append([]byte{}, src[start:]...), scope) })
		vrt.Assert(one.class == 0, "form-at-a-time read fails on a text the whole read accepts")
		if len(one.code) == 0 {
			break
		}
		vrt.Assert(len(one.code) == 1, "ReadOne returned more than one form")
		vrt.Assert(0 < one.pos && start+one.pos <= n, "reported position outside the text")
		pos = start + one.pos
		got = append(got, one.code[0])
		alone := zzRun(func() (Code, int) { return Read(append([]byte{}, src[start:pos]...), scope), 0 })
		vrt.Assert(alone.class == 0 && len(alone.code) == 1 && zzSame(alone.code[0], one.code[0]),
			"the text up to the reported position is not exactly that form")
	}
	vrt.Reach("compared")
	vrt.Assert(zzSameCode(whole.code, got), "forms read one at a time differ from the whole read")
}

// zzInside: an independent scanner over the alphabet ( ) " | a 1 and blank that
// says whether the text stops inside a list, a string or a |symbol|.
func zzInside(src []byte) bool {
	depth := 0
	mode := 0 // 0 normal, 1 string, 2 pipe
	for _, c := range src {
		switch mode {
		case 1:
			if c == '"' {
				mode = 0
			}
		case 2:
			if c == '|' {
				mode = 0
			}
		default:
			switch c {
			case '"':
				mode = 1
			case '|':
				mode = 2
			case '(':
				depth++
			case ')':
				depth--
				if depth < 0 {
					return false // a parse error is expected, not our concern
				}
			}
		}
	}
	return mode != 0 || 0 < depth
}

// VerifC02Truncated: a text that stops inside a list, string or |symbol| is
// never read as a value, however it is delivered; and whole and chunked reads
// of the truncated text agree.
func VerifC02Truncated(n int, k int) {
	src := zzSrc(n, 2)
	scope := NewScope()
	whole := zzRun(func() (Code, int) { return Read(append([]byte{}, src...), scope), 0 })
	parts := zzRun(func() (Code, int) {
		return ReadStream(&zzCutReader{src: src, cuts: []int{k}}, scope)
	})
	vrt.Reach("compared")
	if zzInside(src) {
		vrt.Assert(whole.class != 0, "text ending inside a form was read as a value")
		vrt.Assert(parts.class != 0, "streamed text ending inside a form was read as a value")
	}
	vrt.Assert(zzSameOutcome(whole, parts), "truncated text: chunked read differs from whole read")
}
