package slip

import (
	"io"

	vrt "github.com/ohler55/slip/zzvrt"
)

// zzGapReader delivers src cut at k; gap != 0: a read that returns (0, nil)
// (a pipe or socket with nothing to hand over yet) comes between the two
// pieces; gap == 2: two such reads.
type zzGapReader struct {
	src  []byte
	k    int
	gap  int
	pos  int
	gaps int
}

func (r *zzGapReader) Read(p []byte) (int, error) {
	if r.pos == r.k && r.gaps < r.gap && 0 < r.k {
		r.gaps++
		return 0, nil
	}
	end := len(r.src)
	if r.pos < r.k {
		end = r.k
	}
	n := copy(p, r.src[r.pos:end])
	r.pos += n
	if r.pos >= len(r.src) {
		return n, io.EOF
	}
	return n, nil
}

// VerifC02StreamPos: the position reported after the first form is the same
// whether the text is read from memory (ReadOne) or from a stream that hands
// it over in two pieces cut at k, with or without empty reads in between
// (ReadStream with one = true); the form is the same.
func VerifC02StreamPos(n int, k int, alpha int, gap int) {
	src := zzSrc(n, alpha)
	scope := NewScope()
	whole := zzRun(func() (Code, int) { return ReadOne(append([]byte{}, src...), scope) })
	parts := zzRun(func() (Code, int) {
		return ReadStream(&zzGapReader{src: src, k: k, gap: gap}, scope, true)
	})
	vrt.Reach("compared")
	vrt.Assert(whole.class != 3 && parts.class != 3, "Go run-time fault while reading")
	vrt.Assert(zzSameOutcome(whole, parts), "one form read from a stream differs from the form read from memory")
	if whole.class == 0 && len(whole.code) == 1 {
		vrt.Assert(parts.pos <= n, "the position reported by the stream read lies beyond the text")
		vrt.Assert(parts.pos == whole.pos, "the position reported after the form depends on how the text was delivered")
	}
}
