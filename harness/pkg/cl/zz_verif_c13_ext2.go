package cl

// C13 extension, part 2 — the rest of the package API: find-symbol / intern status, unintern,
// do-symbols / do-external-symbols / do-all-symbols, find-all-symbols, package-use-list /
// package-used-by-list, describe and Package.Exports, defconstant, defparameter with a qualified
// name, a name that is variable and function at once, locked packages, the keyword package,
// delete-package / rename-package, Package.Import (the Go extension interface) and classes
// registered per package.
//
// Each scenario is a short script of real Lisp forms (values symbolic) with the expectation
// written next to it from the Common Lisp package rules / the property statement. Expectations
// that fail on the unchanged tree for a recorded defect carry the defect's id: the main run skips
// them, the probe obligation of that id asserts exactly them behind vrt.Carve.

import (
	"strconv"
	"strings"

	"github.com/ohler55/slip"
	vrt "github.com/ohler55/slip/zzvrt"
)

var zzC13YIDs = []string{"",
	"C13-export-per-cell",                 // 1
	"C13-find-symbol-other-package",       // 2
	"C13-defparameter-qualified",          // 3
	"C13-unintern-inherited",              // 4
	"C13-unintern-keeps-function",         // 5
	"C13-do-external-inherited",           // 6
	"C13-defconstant-unbound-record",      // 7
	"C13-intern-status",                   // 8
	"C13-exports-list-stale",              // 9
	"C13-locked-export",                   // 10
	"C13-locked-rename",                   // 11
	"C13-locked-defun-new",                // 12
	"C13-locked-unbind-local",             // 13
	"C13-keyword-setq",                    // 14
	"C13-import-one-record",               // 15
	"C13-class-unuse-stale",               // 16
	"C13-class-clobbers-user",             // 17
	"C13-locked-fmakunbound",              // 18
	"C13-boundp-qualified",                // 19
	"C13-import-unexported-function",      // 20
}

// zzC13YProbe: 0 main run, i > 0 probe of finding i
var zzC13YProbe int

// zzC13YCollect (native exploration only) receives every check.
var zzC13YCollect func(fid int, ok bool, msg string)

func zzC13YCheck(fid int, cond bool, msg string) {
	if zzC13YCollect != nil {
		zzC13YCollect(fid, cond, msg)
		return
	}
	if fid == zzC13YProbe {
		vrt.Assert(cond, msg)
	}
}

type zzC13YEnv struct {
	scope      *slip.Scope
	pa, pb, pc string
	nx         int
}

var zzC13YPrefix = "zy13"

func zzC13YNew(tag string) *zzC13YEnv {
	e := &zzC13YEnv{scope: slip.NewScope()}
	e.scope.Let(slip.Symbol("*error-output*"), &slip.StringStream{})
	if zzC13YCollect != nil {
		// native exploration runs many scenarios in one process
		slip.CLPkg.Set("*package*", slip.FindPackage("cl-user"))
	}
	e.pa = zzC13YPrefix + tag + "a"
	e.pb = zzC13YPrefix + tag + "b"
	e.pc = zzC13YPrefix + tag + "c"
	for _, p := range []string{e.pa, e.pb, e.pc} {
		r := e.run(`(defpackage "` + p + `" (:use "cl" "cl-user"))`)
		zzC13YCheck(0, r.class == zzC13OtherValue, "defpackage failed")
	}
	return e
}

func (e *zzC13YEnv) fresh() int64 {
	e.nx++
	if zzC13YCollect != nil {
		return int64(2000 + e.nx)
	}
	return vrt.Int64("y" + strconv.Itoa(e.nx-1))
}

type zzC13YRes struct {
	class int
	val   int64
	obj   slip.Object
}

func zzC13YSubst(obj slip.Object, vals []int64) slip.Object {
	switch t := obj.(type) {
	case slip.Symbol:
		if len(t) == 3 && t[0] == 'z' && t[1] == 'z' && '0' <= t[2] && t[2] <= '9' && int(t[2]-'0') < len(vals) {
			return slip.Fixnum(vals[t[2]-'0'])
		}
	case slip.List:
		out := make(slip.List, len(t))
		for i, v := range t {
			out[i] = zzC13YSubst(v, vals)
		}
		return out
	}
	return obj
}

// run evaluates the forms of text one after the other (PA, PB, PC stand for the package names, zz0..zz9
// for the values) and returns the outcome of the last one; an earlier form that does not return
// normally ends the script with that outcome.
func (e *zzC13YEnv) run(text string, vals ...int64) (res zzC13YRes) {
	text = strings.ReplaceAll(text, "PA", e.pa)
	text = strings.ReplaceAll(text, "PB", e.pb)
	text = strings.ReplaceAll(text, "PC", e.pc)
	defer func() {
		if rec := recover(); rec != nil {
			res = zzC13YRes{}
			switch tr := rec.(type) {
			case slip.Instance:
				if tr.IsA("unbound-variable") || tr.IsA("undefined-function") {
					res.class = zzC13Unbound
				} else {
					res.class = zzC13OtherCondition
				}
			case *slip.Panic:
				res.class = zzC13OtherCondition
			case interface{ RuntimeError() }:
				res.class = zzC13GoFault
			default:
				res.class = zzC13OtherPanic
			}
		}
	}()
	code := slip.ReadString(text, e.scope)
	for _, form := range code {
		v := e.scope.Eval(zzC13YSubst(form, vals), 0)
		if vs, ok := v.(slip.Values); ok && 0 < len(vs) {
			res.obj = vs
		} else {
			res.obj = v
		}
		switch tv := v.(type) {
		case slip.Fixnum:
			res.class, res.val = zzC13Value, int64(tv)
		default:
			if v == slip.Unbound {
				res.class = zzC13MarkerValue
			} else {
				res.class = zzC13OtherValue
			}
		}
	}
	return
}

func (r zzC13YRes) isVal(x int64) bool  { return r.class == zzC13Value && r.val == x }
func (r zzC13YRes) isUnbound() bool     { return r.class == zzC13Unbound }
func (r zzC13YRes) rejected() bool      { return r.class == zzC13Unbound || r.class == zzC13OtherCondition }
func (r zzC13YRes) returned() bool      { return r.class == zzC13Value || r.class == zzC13OtherValue }
func (r zzC13YRes) isNil() bool         { return r.class == zzC13OtherValue && r.obj == nil }
func (r zzC13YRes) isT() bool           { return r.class == zzC13OtherValue && r.obj == slip.True }
func (r zzC13YRes) isSym(s string) bool { return r.class == zzC13OtherValue && r.obj == slip.Symbol(s) }

// status of a (find-symbol ..) / (intern ..) result: 0 nil, 1 :internal, 2 :external, 3 :inherited, -1 other
func (r zzC13YRes) status() int {
	vs, ok := r.obj.(slip.Values)
	if r.class != zzC13OtherValue || !ok || len(vs) != 2 {
		return -1
	}
	switch vs[1] {
	case nil:
		return 0
	case slip.Symbol(":internal"):
		return 1
	case slip.Symbol(":external"):
		return 2
	case slip.Symbol(":inherited"):
		return 3
	}
	return -1
}

// hasSym: the result is a list that contains the symbol
func (r zzC13YRes) hasSym(s string) bool {
	l, ok := r.obj.(slip.List)
	if !ok {
		return false
	}
	for _, v := range l {
		if v == slip.Symbol(s) {
			return true
		}
	}
	return false
}

func (r zzC13YRes) isList() bool {
	if r.class != zzC13OtherValue {
		return false
	}
	if r.obj == nil {
		return true
	}
	_, ok := r.obj.(slip.List)
	return ok
}

func zzC13YI(i int) string { return strconv.Itoa(i) }

// ---------------------------------------------------------------------------------------------
// scenarios

// 0: a name that is a variable and a function at once: export is per symbol
func zzC13YCells(e *zzC13YEnv, v int) {
	x, y := e.fresh(), e.fresh()
	switch v {
	case 0:
		e.run(`(in-package "PA") (defvar n zz0) (export 'n) (defun n () zz1) (in-package "PB")`, x, y)
	case 1:
		e.run(`(in-package "PA") (defun n () zz1) (export 'n) (defvar n zz0) (in-package "PB")`, x, y)
	case 2:
		e.run(`(in-package "PA") (defvar n zz0) (defun n () zz1) (export 'n) (in-package "PB")`, x, y)
	default:
		e.run(`(in-package "PA") (export 'n) (defvar n zz0) (defun n () zz1) (in-package "PB")`, x, y)
	}
	vrt.Reach("compared")
	zzC13YCheck(0, e.run(`PA:n`).isVal(x), "cells: PA:n is not the exported variable")
	zzC13YCheck(1, e.run(`(PA:n)`).isVal(y), "cells: (PA:n) does not call the function of the exported symbol n")
	zzC13YCheck(0, e.run(`(PA::n)`).isVal(y), "cells: (PA::n)")
	e.run(`(use-package "PA")`)
	zzC13YCheck(0, e.run(`n`).isVal(x), "cells: inherited variable n")
	zzC13YCheck(1, e.run(`(n)`).isVal(y), "cells: inherited function n")
	e.run(`(in-package "PA") (unexport 'n) (in-package "PB")`)
	zzC13YCheck(0, e.run(`n`).isUnbound(), "cells: variable n still visible after unexport")
	zzC13YCheck(0, e.run(`(n)`).isUnbound(), "cells: function n still visible after unexport")
	zzC13YCheck(0, e.run(`PA:n`).rejected(), "cells: PA:n after unexport")
	zzC13YCheck(0, e.run(`(PA:n)`).rejected(), "cells: (PA:n) after unexport")
	zzC13YCheck(0, e.run(`PA::n`).isVal(x) && e.run(`(PA::n)`).isVal(y), "cells: PA::n after unexport")
}

// 1: find-symbol / intern status, from inside and with a package argument
func zzC13YStatus(e *zzC13YEnv, v int) {
	x, y := e.fresh(), e.fresh()
	e.run(`(in-package "PA") (defvar w zz0) (defvar v zz0) (export 'v) (defun g () zz1) (defun f () zz1) (export 'f)
	       (in-package "PB") (use-package "PA")`, x, y)
	vrt.Reach("compared")
	cur := []string{"PA", "PB", "PC"}[v%3]
	e.run(`(in-package "` + cur + `")`)
	withArg := v < 3 // otherwise: evaluated inside the package, no package argument
	q := func(op, name, pkg string) int {
		if withArg {
			return e.run(`(` + op + ` "` + name + `" "` + pkg + `")`).status()
		}
		e.run(`(in-package "` + pkg + `")`)
		st := e.run(`(` + op + ` "` + name + `")`).status()
		e.run(`(in-package "` + cur + `")`)
		return st
	}
	// variables
	zzC13YCheck(0, q("find-symbol", "w", "PA") == 1, "status: own unexported variable")
	zzC13YCheck(0, q("find-symbol", "v", "PA") == 2, "status: own exported variable")
	zzC13YCheck(0, q("find-symbol", "v", "PB") == 3, "status: inherited variable")
	zzC13YCheck(0, q("find-symbol", "w", "PB") == 0, "status: unexported variable of a used package")
	zzC13YCheck(0, q("find-symbol", "v", "PC") == 0, "status: variable of an unrelated package")
	// functions: find-symbol looks the function up in *package*, not in the package given
	fid := 0
	if withArg && cur != "PA" {
		fid = 2
	}
	zzC13YCheck(fid, q("find-symbol", "g", "PA") == 1, "status: own unexported function")
	zzC13YCheck(0, q("find-symbol", "f", "PA") == 2, "status: own exported function")
	zzC13YCheck(0, q("find-symbol", "f", "PB") == 3, "status: inherited function")
	fid = 0
	if withArg && cur == "PA" {
		fid = 2
	}
	zzC13YCheck(fid, q("find-symbol", "g", "PB") == 0, "status: unexported function of a used package")
	zzC13YCheck(fid, q("find-symbol", "g", "PC") == 0, "status: function of an unrelated package")
	// intern of an existing symbol reports the same status as find-symbol and changes nothing
	zzC13YCheck(0, q("intern", "w", "PA") == 1, "intern: own unexported variable")
	zzC13YCheck(8, q("intern", "v", "PA") == 2, "intern: own exported variable is :external")
	zzC13YCheck(0, q("intern", "v", "PB") == 3, "intern: inherited variable")
	zzC13YCheck(0, q("find-symbol", "v", "PA") == 2 && q("find-symbol", "v", "PB") == 3, "intern changed the status")
	// intern of a new name makes an internal, unbound symbol
	zzC13YCheck(0, q("intern", "fresh", "PC") == 0, "intern: new symbol")
	zzC13YCheck(0, q("find-symbol", "fresh", "PC") == 1, "intern: new symbol is internal afterwards")
	zzC13YCheck(0, q("find-symbol", "fresh", "PA") == 0, "intern: new symbol leaked")
	e.run(`(in-package "PC")`)
	zzC13YCheck(0, e.run(`fresh`).isUnbound() && e.run(`(boundp 'fresh)`).isNil(), "intern: new symbol is bound")
	e.run(`(in-package "PB")`)
	zzC13YCheck(0, e.run(`v`).isVal(x) && e.run(`(f)`).isVal(y), "status: bindings changed")
}

// 2: defparameter / defvar / setq with qualified names; boundp, fboundp and symbol-value of them
func zzC13YQualified(e *zzC13YEnv, v int) {
	x, y, z := e.fresh(), e.fresh(), e.fresh()
	e.run(`(in-package "PA") (defvar v zz0) (export 'v) (defvar w zz1) (defun f () zz2) (export 'f) (in-package "PB")`, x, y, z)
	vrt.Reach("compared")
	switch v {
	case 0:
		n := e.fresh()
		r := e.run(`(defparameter PA::q zz0)`, n)
		zzC13YCheck(0, r.returned(), "defparameter PA::q failed")
		zzC13YCheck(3, e.run(`PA::q`).isVal(n), "(defparameter PA::q x) did not make the variable q of PA")
		zzC13YCheck(3, e.run(`(find-symbol "PA::q")`).status() == 0, "(defparameter PA::q x) made a variable named \"PA::q\" in *package*")
		r = e.run(`(defparameter PA::w zz0)`, n)
		zzC13YCheck(3, e.run(`PA::w`).isVal(n), "(defparameter PA::w x) did not set w of PA")
	case 1:
		n := e.fresh()
		e.run(`(defvar PA::q zz0)`, n)
		zzC13YCheck(0, e.run(`PA::q`).isVal(n), "(defvar PA::q x)")
		zzC13YCheck(0, e.run(`(find-symbol "PA::q")`).status() == 0, "(defvar PA::q x) made a variable named \"PA::q\"")
		e.run(`(setq PA::w zz0)`, n)
		zzC13YCheck(0, e.run(`PA::w`).isVal(n), "(setq PA::w x)")
		e.run(`(defvar PA::w zz0)`, x)
		zzC13YCheck(0, e.run(`PA::w`).isVal(n), "(defvar PA::w x) of a bound variable changed it")
		e.run(`(in-package "PA")`)
		zzC13YCheck(0, e.run(`q`).isVal(n) && e.run(`w`).isVal(n), "qualified writes not seen at home")
	default:
		// the predicates and symbol-value agree with evaluation for qualified names
		zzC13YCheck(19, e.run(`(boundp 'PA:v)`).isT(), "(boundp 'PA:v) of an exported bound variable")
		zzC13YCheck(19, e.run(`(boundp 'PA::w)`).isT(), "(boundp 'PA::w)")
		zzC13YCheck(0, e.run(`(boundp 'PA:w)`).isNil(), "(boundp 'PA:w) of an unexported variable")
		zzC13YCheck(19, e.run(`(symbol-value 'PA:v)`).isVal(x), "(symbol-value 'PA:v)")
		zzC13YCheck(19, e.run(`(symbol-value 'PA::w)`).isVal(y), "(symbol-value 'PA::w)")
		zzC13YCheck(19, e.run(`(fboundp 'PA:f)`).isT(), "(fboundp 'PA:f)")
		zzC13YCheck(0, e.run(`(funcall 'PA:f)`).isVal(z) && e.run(`(apply 'PA::f nil)`).isVal(z), "funcall/apply of qualified names")
		zzC13YCheck(0, e.run(`PA:v`).isVal(x) && e.run(`PA::w`).isVal(y) && e.run(`(PA:f)`).isVal(z), "evaluation of qualified names")
	}
}

// 3: unintern
func zzC13YUnintern(e *zzC13YEnv, v int) {
	x, y := e.fresh(), e.fresh()
	e.run(`(in-package "PA") (defvar v zz0) (export 'v) (defvar n zz0) (defun n () zz1) (defvar w zz1)
	       (in-package "PB") (use-package "PA")`, x, y)
	vrt.Reach("compared")
	switch v {
	case 0:
		// unintern of a symbol the package merely inherits does nothing and returns nil
		r := e.run(`(unintern 'v)`)
		zzC13YCheck(4, r.isNil(), "unintern of an inherited symbol did not return nil")
		zzC13YCheck(4, e.run(`v`).isVal(x), "unintern of an inherited symbol removed it from the package")
		e.run(`(in-package "PA")`)
		zzC13YCheck(0, e.run(`v`).isVal(x), "unintern in a user reached the home package")
	case 1:
		// unintern of an own symbol removes the variable and the function
		e.run(`(in-package "PA")`)
		r := e.run(`(unintern 'n)`)
		zzC13YCheck(0, r.isT(), "unintern of an own symbol did not return t")
		zzC13YCheck(0, e.run(`n`).isUnbound() && e.run(`(boundp 'n)`).isNil(), "unintern left the variable")
		zzC13YCheck(5, e.run(`(n)`).isUnbound(), "unintern left the function of the symbol")
		zzC13YCheck(5, e.run(`(find-symbol "n")`).status() == 0, "unintern left the symbol (find-symbol)")
		zzC13YCheck(0, e.run(`w`).isVal(y), "unintern removed another variable")
	case 2:
		// unintern of an exported own symbol: the users lose it
		e.run(`(in-package "PA")`)
		e.run(`(unintern 'v)`)
		zzC13YCheck(0, e.run(`v`).isUnbound(), "unintern left the exported variable")
		e.run(`(in-package "PB")`)
		zzC13YCheck(0, e.run(`v`).isUnbound(), "unintern left the variable in the user")
		zzC13YCheck(0, e.run(`PA:v`).rejected() && e.run(`PA::v`).rejected(), "unintern left PA:v")
		zzC13YCheck(0, e.run(`(find-symbol "v")`).status() == 0, "unintern: find-symbol in the user")
	default:
		// unintern with a package argument, and of a name that does not exist
		r := e.run(`(unintern 'w "PA")`)
		zzC13YCheck(0, r.isT(), "(unintern 'w PA) did not return t")
		zzC13YCheck(0, e.run(`PA::w`).rejected(), "(unintern 'w PA) left w")
		zzC13YCheck(0, e.run(`(unintern 'nosuch)`).isNil(), "unintern of an unknown name")
		zzC13YCheck(0, e.run(`v`).isVal(x), "unintern touched v")
	}
}

func (e *zzC13YEnv) collect(macro, pkg string) zzC13YRes {
	arg := `(s (find-package "` + pkg + `"))`
	if macro == "do-all-symbols" {
		arg = `(s)`
	}
	return e.run(`(let ((acc nil)) (` + macro + ` ` + arg + ` (if (member s '(v w f g zq)) (setq acc (cons s acc)))) acc)`)
}

// 4: do-symbols, do-external-symbols, do-all-symbols, find-all-symbols, package-use-list, package-used-by-list
func zzC13YIterate(e *zzC13YEnv, v int) {
	x, y := e.fresh(), e.fresh()
	e.run(`(in-package "PA") (defvar w zz0) (defvar v zz0) (export 'v) (defun g () zz1) (defun f () zz1) (export 'f)
	       (in-package "PB") (use-package "PA")`, x, y)
	vrt.Reach("compared")
	switch v {
	case 0:
		r := e.collect("do-symbols", "PA")
		zzC13YCheck(0, r.hasSym("v") && r.hasSym("w") && r.hasSym("f") && r.hasSym("g") && !r.hasSym("zq"), "do-symbols of the home package")
		r = e.collect("do-symbols", "PB")
		zzC13YCheck(0, r.hasSym("v") && r.hasSym("f"), "do-symbols of the user misses inherited symbols")
		zzC13YCheck(0, !r.hasSym("w") && !r.hasSym("g"), "do-symbols of the user lists unexported symbols of the used package")
		r = e.collect("do-symbols", "PC")
		zzC13YCheck(0, r.isList() && !r.hasSym("v") && !r.hasSym("w") && !r.hasSym("f") && !r.hasSym("g"), "do-symbols of an unrelated package")
	case 1:
		r := e.collect("do-external-symbols", "PA")
		zzC13YCheck(0, r.hasSym("v") && r.hasSym("f") && !r.hasSym("w") && !r.hasSym("g"), "do-external-symbols of the home package")
		r = e.collect("do-external-symbols", "PB")
		zzC13YCheck(0, r.isList(), "do-external-symbols of the user failed")
		zzC13YCheck(6, !r.hasSym("v") && !r.hasSym("f"), "do-external-symbols of the user lists symbols it merely inherits")
		e.run(`(in-package "PA") (unexport 'v) (unexport 'f)`)
		r = e.collect("do-external-symbols", "PA")
		zzC13YCheck(0, r.isList() && !r.hasSym("v") && !r.hasSym("f"), "do-external-symbols after unexport")
	case 2:
		r := e.collect("do-all-symbols", "")
		zzC13YCheck(0, r.hasSym("v") && r.hasSym("w") && r.hasSym("f") && r.hasSym("g") && !r.hasSym("zq"), "do-all-symbols")
	case 3:
		r := e.run(`(find-all-symbols "w")`)
		zzC13YCheck(0, r.isList() && r.hasSym(e.pa+"::w") && !r.hasSym(e.pb+"::w") && !r.hasSym("w"), "find-all-symbols of an unexported variable")
		r = e.run(`(find-all-symbols "v")`)
		zzC13YCheck(0, r.hasSym("v") && !r.hasSym(e.pb+"::v"), "find-all-symbols of an inherited variable")
		r = e.run(`(find-all-symbols "g")`)
		zzC13YCheck(0, r.hasSym(e.pa+"::g") && !r.hasSym("g"), "find-all-symbols of an unexported function")
	default:
		has := func(form, pkg string) bool {
			r := e.run(form)
			l, _ := r.obj.(slip.List)
			n := 0
			for _, p := range l {
				if pp, ok := p.(*slip.Package); ok && pp.Name == pkg {
					n++
				}
			}
			zzC13YCheck(0, n <= 1, form+": a package is listed twice")
			return n == 1
		}
		zzC13YCheck(0, has(`(package-use-list (find-package "PB"))`, e.pa), "package-use-list misses the used package")
		zzC13YCheck(0, has(`(package-used-by-list (find-package "PA"))`, e.pb), "package-used-by-list misses the user")
		e.run(`(use-package "PA")`)
		zzC13YCheck(0, has(`(package-use-list (find-package "PB"))`, e.pa), "package-use-list after a second use-package")
		e.run(`(unuse-package "PA")`)
		zzC13YCheck(0, !has(`(package-use-list (find-package "PB"))`, e.pa), "package-use-list after unuse-package")
		zzC13YCheck(0, !has(`(package-used-by-list (find-package "PA"))`, e.pb), "package-used-by-list after unuse-package")
		zzC13YCheck(0, e.run(`v`).isUnbound() && e.run(`(f)`).isUnbound(), "unuse-package left the names")
		e.run(`(use-package "PA")`)
		zzC13YCheck(0, has(`(package-use-list (find-package "PB"))`, e.pa) && has(`(package-used-by-list (find-package "PA"))`, e.pb), "use again")
		zzC13YCheck(0, e.run(`v`).isVal(x) && e.run(`(f)`).isVal(y), "use again: names")
	}
}

// 5: defconstant
func zzC13YConstant(e *zzC13YEnv, v int) {
	x, y := e.fresh(), e.fresh()
	vrt.Assume(x != y)
	e.run(`(in-package "PA")`)
	vrt.Reach("compared")
	switch v {
	case 0:
		zzC13YCheck(0, e.run(`(defconstant c zz0)`, x).isSym("c"), "defconstant failed")
		zzC13YCheck(0, e.run(`c`).isVal(x), "constant value")
		zzC13YCheck(0, e.run(`(setq c zz0)`, y).rejected() && e.run(`c`).isVal(x), "setq of a constant")
		zzC13YCheck(0, e.run(`(defconstant c zz0)`, x).returned(), "defconstant again with the same value")
		zzC13YCheck(0, e.run(`(defconstant c zz0)`, y).rejected() && e.run(`c`).isVal(x), "defconstant again with another value")
		zzC13YCheck(0, e.run(`(defvar c zz0)`, y).returned() && e.run(`c`).isVal(x), "defvar of a constant")
		zzC13YCheck(0, e.run(`(let ((c 1)) c)`).rejected(), "let of a constant")
		e.run(`(export 'c) (in-package "PB") (use-package "PA")`)
		zzC13YCheck(0, e.run(`c`).isVal(x) && e.run(`PA:c`).isVal(x), "exported constant in the user")
		zzC13YCheck(0, e.run(`(setq c zz0)`, y).rejected() && e.run(`c`).isVal(x), "setq of an inherited constant")
	case 1:
		// a name exported before it is defined can become a constant
		e.run(`(export 'c)`)
		r := e.run(`(defconstant c zz0)`, x)
		zzC13YCheck(7, r.returned(), "defconstant of an exported, not yet defined name rejected")
		zzC13YCheck(7, e.run(`c`).isVal(x), "defconstant of an exported, not yet defined name: value")
	case 2:
		// so can a variable that was made unbound
		e.run(`(defvar c zz0) (makunbound 'c)`, y)
		r := e.run(`(defconstant c zz0)`, x)
		zzC13YCheck(7, r.returned(), "defconstant of an unbound variable rejected")
		zzC13YCheck(7, e.run(`c`).isVal(x), "defconstant of an unbound variable: value")
	default:
		e.run(`(in-package "PB")`)
		zzC13YCheck(0, e.run(`(defconstant PA::c zz0)`, x).returned(), "defconstant PA::c")
		zzC13YCheck(0, e.run(`PA::c`).isVal(x) && e.run(`(boundp 'c)`).isNil(), "defconstant PA::c: value / leaked")
		zzC13YCheck(0, e.run(`(setq PA::c zz0)`, y).rejected() && e.run(`PA::c`).isVal(x), "setq PA::c of a constant")
	}
}

// 6: Package.Exports / describe / LoadForm follow unexport
func zzC13YExportsList(e *zzC13YEnv, v int) {
	// (concrete value: describe prints the variables of the package, and printing a symbolic integer forks
	// on its digits)
	x := int64(4711)
	e.run(`(in-package "PA") (defvar v zz0) (defvar u zz0) (export 'v) (export 'u)`, x)
	vrt.Reach("compared")
	pa := slip.FindPackage(e.pa)
	listed := func(name string) (n int) {
		for _, s := range pa.Exports {
			if s == name {
				n++
			}
		}
		return
	}
	described := func(name string) bool {
		text := string(pa.Describe(nil, 0, 80, false))
		i := strings.Index(text, "Exports:\n")
		if i < 0 {
			return false
		}
		rest := text[i+len("Exports:\n"):]
		for _, line := range strings.Split(rest, "\n") {
			if !strings.HasPrefix(line, "  ") {
				break
			}
			if strings.TrimSpace(line) == name {
				return true
			}
		}
		return false
	}
	// the (:export ...) option of the form Package.LoadForm writes
	loadForm := func(name string) bool {
		form, _ := pa.LoadForm().(slip.List)
		for _, o := range form {
			if l, ok := o.(slip.List); ok && 0 < len(l) && l[0] == slip.Symbol(":export") {
				for _, n := range l[1:] {
					if n == slip.Symbol(name) {
						return true
					}
				}
			}
		}
		return false
	}
	zzC13YCheck(0, listed("v") == 1 && listed("u") == 1 && described("v") && described("u"), "Exports after export")
	zzC13YCheck(0, loadForm("v") && loadForm("u"), "LoadForm after export")
	switch v {
	case 0:
		e.run(`(unexport 'v)`)
		zzC13YCheck(9, listed("v") == 0, "Package.Exports still lists an unexported name")
		zzC13YCheck(9, !described("v"), "describe still lists an unexported name under Exports")
		zzC13YCheck(9, !loadForm("v"), "LoadForm still writes an unexported name into (:export ...)")
		zzC13YCheck(0, loadForm("u"), "LoadForm lost an exported name")
		zzC13YCheck(0, listed("u") == 1 && described("u"), "unexport removed another name from Exports")
	case 1:
		e.run(`(export 'v) (export 'v)`)
		zzC13YCheck(9, listed("v") == 1, "Package.Exports lists a name more than once")
	default:
		e.run(`(unexport 'v) (export 'v)`)
		zzC13YCheck(9, listed("v") == 1, "Package.Exports lists a re-exported name twice")
		zzC13YCheck(0, described("v"), "describe misses a re-exported name")
	}
	e.run(`(in-package "PB")`)
	if v == 0 {
		zzC13YCheck(0, e.run(`PA:v`).rejected(), "PA:v after unexport")
	} else {
		zzC13YCheck(0, e.run(`PA:v`).isVal(x), "PA:v")
	}
}

// 7: a locked package rejects every change and its tables stay as they were
func zzC13YLocked(e *zzC13YEnv, v int) {
	x0, x1, x2, x3, n := e.fresh(), e.fresh(), e.fresh(), e.fresh(), e.fresh()
	e.run(`(in-package "PA") (defvar v zz0) (export 'v) (defvar w zz1) (defun f () zz2) (export 'f) (defun g () zz3)
	       (in-package "PB") (use-package "PA") (lock-package "PA")`, x0, x1, x2, x3)
	zzC13YCheck(0, e.run(`(package-locked-p "PA")`).isT(), "package-locked-p")
	vrt.Reach("compared")
	type opT struct {
		in, form string
		fid      int
		mayPass  bool // the form may return normally as long as nothing changes
	}
	ops := []opT{
		{"PA", `(export 'w)`, 10, false},
		{"PA", `(unexport 'v)`, 10, false},
		{"PB", `(rename-package "PA" "PAzz")`, 11, false},
		{"PA", `(defun nf () zz0)`, 12, false},
		{"PA", `(defun f () zz0)`, 0, false},
		{"PA", `(defvar nv zz0)`, 0, false},
		{"PA", `(makunbound 'v)`, 0, true},
		{"PA", `(fmakunbound 'f)`, 18, true},
		{"PB", `(makunbound 'v)`, 13, true},
		{"PB", `(fmakunbound 'f)`, 13, true},
		{"PA", `(defconstant nv zz0)`, 0, false},
		{"PA", `(unintern 'v)`, 0, false},
		{"PA", `(use-package "PC")`, 0, false},
		{"PA", `(unuse-package "PC")`, 0, false},
		{"PB", `(delete-package "PA")`, 0, false},
		{"PB", `(setq PA::nv zz0)`, 0, false},
		{"PB", `(defvar PA::nv zz0)`, 0, false},
		{"PB", `(defun PA::nf () zz0)`, 12, false},
		{"PB", `(export 'w "PA")`, 10, false},
		{"PA", `(defparameter nv zz0)`, 0, false},
		{"PB", `(unintern 'v "PA")`, 0, false},
	}
	if v < 0 || len(ops) <= v {
		return
	}
	op := ops[v]
	e.run(`(in-package "` + op.in + `")`)
	r := e.run(op.form, n)
	zzC13YCheck(0, r.class != zzC13GoFault && r.class != zzC13OtherPanic, "locked: "+op.form+" faulted")
	if !op.mayPass {
		zzC13YCheck(op.fid, r.rejected(), "locked: "+op.form+" was not rejected")
	}
	msg := "locked: after " + op.form + ": "
	zzC13YCheck(op.fid, slip.FindPackage(e.pa) != nil, msg+"the package lost its name")
	if slip.FindPackage(e.pa) == nil {
		return
	}
	e.run(`(in-package "PA")`)
	zzC13YCheck(op.fid, e.run(`v`).isVal(x0), msg+"v at home")
	zzC13YCheck(op.fid, e.run(`w`).isVal(x1), msg+"w at home")
	zzC13YCheck(op.fid, e.run(`(f)`).isVal(x2), msg+"(f) at home")
	zzC13YCheck(op.fid, e.run(`(g)`).isVal(x3), msg+"(g) at home")
	zzC13YCheck(op.fid, e.run(`nv`).isUnbound(), msg+"new variable at home")
	zzC13YCheck(op.fid, e.run(`(nf)`).isUnbound(), msg+"new function at home")
	e.run(`(in-package "PB")`)
	zzC13YCheck(op.fid, e.run(`v`).isVal(x0), msg+"v in the user")
	zzC13YCheck(op.fid, e.run(`(f)`).isVal(x2), msg+"(f) in the user")
	zzC13YCheck(op.fid, e.run(`w`).isUnbound(), msg+"w in the user")
	zzC13YCheck(op.fid, e.run(`(g)`).isUnbound(), msg+"(g) in the user")
	zzC13YCheck(op.fid, e.run(`PA:v`).isVal(x0) && e.run(`(PA:f)`).isVal(x2), msg+"PA:v / (PA:f)")
	zzC13YCheck(op.fid, e.run(`PA:w`).rejected() && e.run(`(PA:g)`).rejected(), msg+"PA:w / (PA:g)")
	zzC13YCheck(op.fid, e.run(`PA::w`).isVal(x1) && e.run(`(PA::g)`).isVal(x3), msg+"PA::w / (PA::g)")
	zzC13YCheck(op.fid, e.run(`(package-locked-p "PA")`).isT(), msg+"no longer locked")
	// unlocked again the package takes changes
	e.run(`(unlock-package "PA") (in-package "PA")`)
	zzC13YCheck(op.fid, e.run(`(defvar nv zz0)`, n).returned() && e.run(`nv`).isVal(n), msg+"defvar after unlock-package")
}

// 8: the keyword package
func zzC13YKeyword(e *zzC13YEnv, v int) {
	x := e.fresh()
	e.run(`(in-package "PA")`)
	vrt.Reach("compared")
	zzC13YCheck(0, e.run(`:zk`).isSym(":zk"), "a keyword does not evaluate to itself")
	switch v {
	case 0:
		r := e.run(`(setq :zk zz0)`, x)
		zzC13YCheck(14, r.rejected(), "(setq :zk x) was not rejected")
		zzC13YCheck(0, e.run(`:zk`).isSym(":zk"), "after setq a keyword does not evaluate to itself")
		zzC13YCheck(14, e.run(`(find-symbol ":zk" "PA")`).status() == 0, "(setq :zk x) made a variable named :zk in *package*")
	case 1:
		r := e.run(`(defvar :zk zz0)`, x)
		zzC13YCheck(14, r.rejected(), "(defvar :zk x) was not rejected")
		zzC13YCheck(0, e.run(`:zk`).isSym(":zk"), "after defvar a keyword does not evaluate to itself")
	case 2:
		zzC13YCheck(0, e.run(`(symbol-value :zk)`).isSym(":zk"), "symbol-value of a keyword")
		zzC13YCheck(0, e.run(`(let ((:zk 1)) :zk)`).rejected() || e.run(`(let ((:zk 1)) :zk)`).isSym(":zk"), "let of a keyword")
		zzC13YCheck(0, e.run(`(keywordp :zk)`).isT(), "keywordp")
		zzC13YCheck(0, e.run(`(eq :zk keyword:zk)`).isT() || e.run(`keyword:zk`).rejected() || e.run(`keyword:zk`).isSym(":zk"), "keyword:zk")
	default:
		st := e.run(`(intern "zk" "keyword")`).status()
		zzC13YCheck(0, st == 0 || st == 2, "intern in the keyword package")
		zzC13YCheck(0, e.run(`(find-symbol "zk" "keyword")`).status() == 2, "find-symbol in the keyword package is :external")
		zzC13YCheck(0, e.run(`:zk`).isSym(":zk"), "after intern a keyword does not evaluate to itself")
	}
}

// 9: delete-package and rename-package
func zzC13YDelete(e *zzC13YEnv, v int) {
	x, y := e.fresh(), e.fresh()
	e.run(`(in-package "PA") (defvar v zz0) (export 'v) (defun f () zz1) (export 'f)
	       (in-package "PB") (use-package "PA") (in-package "PC")`, x, y)
	vrt.Reach("compared")
	switch v {
	case 0:
		// a package in use can not be deleted
		zzC13YCheck(0, e.run(`(delete-package "PA")`).rejected(), "delete-package of a used package")
		zzC13YCheck(0, e.run(`PA:v`).isVal(x) && e.run(`(PA:f)`).isVal(y), "after a rejected delete-package")
		e.run(`(in-package "PB")`)
		zzC13YCheck(0, e.run(`v`).isVal(x) && e.run(`(f)`).isVal(y), "after a rejected delete-package: user")
	case 1:
		// the user can be deleted; the used package forgets it
		zzC13YCheck(0, e.run(`(delete-package "PB")`).isT(), "delete-package of the user")
		zzC13YCheck(0, e.run(`(find-package "PB")`).isNil(), "deleted package still found")
		zzC13YCheck(0, e.run(`PB::v`).rejected(), "name of a deleted package resolves")
		l, _ := e.run(`(package-used-by-list (find-package "PA"))`).obj.(slip.List)
		zzC13YCheck(0, len(l) == 0, "package-used-by-list still has the deleted user")
		zzC13YCheck(0, e.run(`PA:v`).isVal(x), "deleting the user damaged the used package")
		zzC13YCheck(0, e.run(`(delete-package "PA")`).isT() && e.run(`(find-package "PA")`).isNil(), "now the used package can be deleted")
	case 2:
		// deleting *package* itself
		e.run(`(in-package "PB")`)
		r := e.run(`(delete-package "PB")`)
		zzC13YCheck(0, r.class != zzC13GoFault && r.class != zzC13OtherPanic, "delete-package of *package* faulted")
		// (the deleted package no longer uses cl: leave it through the Go API)
		slip.CLPkg.Set("*package*", slip.FindPackage(e.pc))
		zzC13YCheck(0, e.run(`PA:v`).isVal(x) && e.run(`(PA:f)`).isVal(y), "after deleting *package*: PA:v")
		zzC13YCheck(0, e.run(`(find-package "PB")`).isNil(), "deleted package still found")
		l, _ := e.run(`(package-used-by-list (find-package "PA"))`).obj.(slip.List)
		zzC13YCheck(0, len(l) == 0, "package-used-by-list still has the deleted user")
	case 3:
		r := e.run(`(rename-package "PA" "PAnn")`)
		zzC13YCheck(0, r.returned(), "rename-package failed")
		zzC13YCheck(0, e.run(`(find-package "PA")`).isNil() && !e.run(`(find-package "PAnn")`).isNil(), "rename-package: find-package")
		zzC13YCheck(0, e.run(`PAnn:v`).isVal(x) && e.run(`(PAnn:f)`).isVal(y) && e.run(`PA:v`).rejected(), "rename-package: qualified names")
		e.run(`(in-package "PB")`)
		zzC13YCheck(0, e.run(`v`).isVal(x) && e.run(`(f)`).isVal(y), "rename-package: the user lost the names")
		e.run(`(unuse-package "PAnn")`)
		zzC13YCheck(0, e.run(`v`).isUnbound() && e.run(`(f)`).isUnbound(), "unuse-package of the renamed package")
	default:
		zzC13YCheck(0, e.run(`(rename-package "PA" "PB")`).rejected(), "rename-package to an existing name")
		zzC13YCheck(0, e.run(`PA:v`).isVal(x), "after a rejected rename-package")
	}
}

// 10: Package.Import, the Go extension interface
func zzC13YImport(e *zzC13YEnv, v int) {
	x, y, z := e.fresh(), e.fresh(), e.fresh()
	e.run(`(in-package "PA") (defvar v zz0) (defun f () zz1) (defvar n zz0) (defun n () zz1) (defvar ev zz2) (export 'ev)
	       (defun ef () zz2) (export 'ef) (in-package "PB")`, x, y, z)
	pa, pb := slip.FindPackage(e.pa), slip.FindPackage(e.pb)
	imp := func(name string) (ok bool) {
		defer func() {
			if rec := recover(); rec != nil {
				_, fault := rec.(interface{ RuntimeError() })
				zzC13YCheck(0, !fault, "Package.Import faulted")
				ok = false
			}
		}()
		pb.Import(pa, name)
		return true
	}
	vrt.Reach("compared")
	switch v {
	case 0:
		zzC13YCheck(0, imp("ev") && imp("ef"), "Import of exported names failed")
		zzC13YCheck(0, e.run(`ev`).isVal(z), "imported exported variable is not visible")
		// (export 'ef) made a variable placeholder named ef, and Import takes the variable only
		zzC13YCheck(15, e.run(`(ef)`).isVal(z), "imported exported function is not callable")
		zzC13YCheck(0, e.run(`v`).isUnbound() && e.run(`(f)`).isUnbound(), "Import brought other names")
		n := e.fresh()
		e.run(`(in-package "PA") (setq ev zz0) (in-package "PB")`, n)
		zzC13YCheck(0, e.run(`ev`).isVal(n), "imported variable does not follow its home")
		// imports survive unuse-package
		e.run(`(use-package "PA") (unuse-package "PA")`)
		zzC13YCheck(0, e.run(`ev`).isVal(n), "unuse-package dropped the imported variable")
		zzC13YCheck(15, e.run(`(ef)`).isVal(z), "unuse-package dropped the imported function")
		zzC13YCheck(0, !imp("nosuch"), "Import of an unknown name did not fail")
	case 1:
		// an unexported variable / function can be imported too
		zzC13YCheck(0, imp("v"), "Import of an unexported variable failed")
		zzC13YCheck(0, e.run(`v`).isVal(x), "imported unexported variable is not visible")
		zzC13YCheck(0, imp("f"), "Import of an unexported function failed")
		zzC13YCheck(20, e.run(`(f)`).isVal(y), "imported unexported function is not callable")
		e.run(`(in-package "PC")`)
		zzC13YCheck(0, e.run(`v`).isUnbound() && e.run(`(f)`).isUnbound(), "Import leaked into another package")
	case 2:
		// a name that is variable and function: the symbol is imported, both come along
		zzC13YCheck(0, imp("n"), "Import failed")
		zzC13YCheck(0, e.run(`n`).isVal(x), "imported variable n")
		e.run(`(in-package "PA") (export 'n) (in-package "PB")`)
		zzC13YCheck(15, e.run(`(n)`).isVal(y), "Import of a name that is variable and function brought the variable only")
	default:
		// importing does not change the home package nor what others see
		zzC13YCheck(0, imp("ev") && imp("v"), "Import failed")
		e.run(`(in-package "PA")`)
		zzC13YCheck(0, e.run(`ev`).isVal(z) && e.run(`v`).isVal(x) && e.run(`(f)`).isVal(y), "Import changed the home package")
		e.run(`(in-package "PC") (use-package "PB")`)
		zzC13YCheck(0, e.run(`v`).isUnbound(), "an imported, unexported name is passed on to the users of the importer")
	}
}

// 11: classes registered per package
func zzC13YClasses(e *zzC13YEnv, v int) {
	e.run(`(in-package "PA")`)
	var def string
	kn := "k" + e.pa // flavors are global by name
	switch v % 2 {
	case 0:
		def = `(defclass ` + kn + ` () ())`
	default:
		def = `(defflavor ` + kn + ` () ())`
		if v/2 == 2 {
			return // a flavor name can be defined once only: there is no user's own flavor of the same name
		}
	}
	find := func() slip.Object {
		r := e.run(`(find-class '` + kn + ` nil)`)
		zzC13YCheck(0, r.class == zzC13OtherValue, "find-class failed")
		return r.obj
	}
	ra := e.run(def)
	zzC13YCheck(0, ra.class == zzC13OtherValue, "class definition failed")
	ka := find()
	zzC13YCheck(0, ka != nil, "class not found in its own package")
	vrt.Reach("compared")
	switch v / 2 {
	case 0:
		e.run(`(in-package "PB")`)
		zzC13YCheck(0, find() == nil, "class visible in an unrelated package")
		e.run(`(use-package "PA")`)
		zzC13YCheck(0, find() == ka, "class not visible after use-package")
		e.run(`(unuse-package "PA")`)
		zzC13YCheck(16, find() == nil, "class still visible after unuse-package")
		e.run(`(in-package "PA")`)
		zzC13YCheck(0, find() == ka, "unuse-package removed the class at home")
	case 1:
		// transitive: C uses B uses A; then B unuses A
		e.run(`(in-package "PB") (use-package "PA") (in-package "PC") (use-package "PB")`)
		e.run(`(in-package "PB") (unuse-package "PA") (in-package "PC")`)
		zzC13YCheck(16, find() == nil, "class still visible through a package that no longer uses its home")
	case 2:
		// the user has its own class of that name; a (re)definition at home must not replace it
		e.run(`(in-package "PB")`)
		e.run(def)
		kb := find()
		zzC13YCheck(0, kb != nil && kb != ka, "the user's own class")
		e.run(`(use-package "PA")`)
		zzC13YCheck(0, find() == kb, "use-package replaced the user's own class")
		e.run(`(in-package "PA")`)
		e.run(def)
		ka2 := find()
		e.run(`(in-package "PB")`)
		zzC13YCheck(17, find() == kb, "defining the class in the used package replaced the user's own class")
		e.run(`(unuse-package "PA")`)
		zzC13YCheck(17, find() == kb, "after unuse-package the user's own class is gone")
		_ = ka2
	default:
		// defined after the use edge exists
		e.run(`(in-package "PB") (use-package "PA") (in-package "PA")`)
		e.run(strings.Replace(def, kn, kn+"2", 1))
		e.run(`(in-package "PB")`)
		zzC13YCheck(0, !e.run(`(find-class '`+kn+`2 nil)`).isNil(), "class defined after use-package is not visible in the user")
		e.run(`(in-package "PC")`)
		zzC13YCheck(0, e.run(`(find-class '`+kn+`2 nil)`).isNil(), "class visible in an unrelated package")
	}
}

func zzC13YScenario(tag string, scn, v int) {
	e := zzC13YNew(tag + zzC13YI(scn) + "x" + zzC13YI(v))
	switch scn {
	case 0:
		zzC13YCells(e, v)
	case 1:
		zzC13YStatus(e, v)
	case 2:
		zzC13YQualified(e, v)
	case 3:
		zzC13YUnintern(e, v)
	case 4:
		zzC13YIterate(e, v)
	case 5:
		zzC13YConstant(e, v)
	case 6:
		zzC13YExportsList(e, v)
	case 7:
		zzC13YLocked(e, v)
	case 8:
		zzC13YKeyword(e, v)
	case 9:
		zzC13YDelete(e, v)
	case 10:
		zzC13YImport(e, v)
	case 11:
		zzC13YClasses(e, v)
	}
}

// VerifC13XApi: scenario scn, variant v (see the functions above).
func VerifC13XApi(scn, v int) {
	zzC13YProbe = 0
	zzC13YScenario("m", scn, v)
}

// VerifC13XApiFinding: the same scenario asserting only the expectations that carry finding fid.
func VerifC13XApiFinding(fid, scn, v int) {
	zzC13YProbe = 0
	if fid <= 0 || len(zzC13YIDs) <= fid {
		return
	}
	vrt.Carve(zzC13YIDs[fid], true)
	zzC13YProbe = fid
	zzC13YScenario("p", scn, v)
}

// VerifC13YExplore: native exploration only.
func VerifC13YExplore(prefix string, collect func(fid int, ok bool, msg string), scn, v int) {
	zzC13YPrefix = prefix
	zzC13YCollect = collect
	zzC13YScenario("e", scn, v)
}
