package cl

// C16 — equality, hashing and type predicates are mutually coherent.
//
// Object universe: a KIND code (harness parameter, concrete) selects the Go
// representation; the payload is symbolic where the engine supports it.
//
//	 0 nil
//	 1 fixnum, symbolic int64
//	 2 bignum, symbolic unbounded integer (vrt.Big)
//	 3 bignum, concrete grid
//	 4 ratio, concrete grid
//	 5 single-float, concrete grid
//	 6 double-float, concrete grid
//	 7 character, symbolic rune 0..127
//	 8 fixnum, concrete grid (values around the float precision limits)
//	 9 bignum made by big.NewInt(symbolic int64) (a fixnum-sized bignum)
//	10+n string of n symbolic ASCII bytes (n = 0..3)
//	14 string, concrete grid with non-ASCII case pairs
//	17 character, concrete grid with non-ASCII case pairs
//	20+n symbol of n symbolic ASCII bytes (n = 1..3)
//	24 symbol, concrete grid
//	30.. further built-in types for the type obligations (octet, long-float,
//	     complex, signed-byte, unsigned-byte, bit, bit-vector, octets,
//	     hash-table, empty list)
//	100+50a+b   list   of two elements of scalar kinds a, b
//	3000+50a+b  vector of two elements of scalar kinds a, b
import (
	"math/big"
	"sort"

	"github.com/ohler55/slip"
	vrt "github.com/ohler55/slip/zzvrt"
)

var zzC16FixGrid = []int64{0, 1, -1, 255, 256, 16777216, 16777217, 9007199254740992, 9007199254740993}
var zzC16BigGrid = []string{"0", "1", "16777217", "9007199254740993", "18446744073709551616", "18446744073709551617", "-18446744073709551616"}
var zzC16RatGrid = [][2]string{{"1", "2"}, {"-1", "2"}, {"3", "4"}, {"1", "3"}, {"16777217", "2"}, {"36893488147419103233", "2"}}
var zzC16SFGrid = []float32{0, 1, -1, 0.5, 0.75, 16777216, 1.8446744e19}
var zzC16DFGrid = []float64{0, 1, -1, 0.5, 0.1, 16777217, 9007199254740992, 18446744073709551616}
var zzC16StrGrid = []string{"я", "Я", "é", "É", "K", "k", "K", "straße", "STRASSE"}
var zzC16ChrGrid = []rune{'a', 'A', 'я', 'Я', 0x212a, 'k', 0x1c4, 0x1c5, 0x1c6}
var zzC16SymGrid = []string{"abc", "ABC", "aBc", "abd", "nil", "t"}

// zzC16Ascii: n symbolic bytes, each 0..127 (a symbolic byte >= 0x80 makes
// utf8 decoding a 256-way table fork per byte; non-ASCII text is covered by
// the concrete grids).
func zzC16Ascii(name string, n int) string {
	b := vrt.Bytes(name, n)
	for _, c := range b {
		vrt.Assume(c < 0x80)
	}
	return string(b)
}

// zzC16Obj builds an object of the kind; tag makes the input names unique.
// (The type obligations run without int_mode and use the tag "o": within one
// engine process an input name must not be used with two different sorts.)
func zzC16Obj(kind int, tag string) slip.Object {
	switch {
	case kind == 0:
		return nil
	case kind == 1:
		return slip.Fixnum(vrt.Int64(tag + ".fix"))
	case kind == 2:
		return (*slip.Bignum)(vrt.Big(tag + ".big"))
	case kind == 3:
		z, _ := new(big.Int).SetString(zzC16BigGrid[vrt.Choice(tag+".bigi", len(zzC16BigGrid))], 10)
		return (*slip.Bignum)(z)
	case kind == 4:
		r := zzC16RatGrid[vrt.Choice(tag+".rati", len(zzC16RatGrid))]
		n, _ := new(big.Int).SetString(r[0], 10)
		d, _ := new(big.Int).SetString(r[1], 10)
		return slip.NewBigRatio(n, d)
	case kind == 5:
		return slip.SingleFloat(zzC16SFGrid[vrt.Choice(tag+".sfi", len(zzC16SFGrid))])
	case kind == 6:
		return slip.DoubleFloat(zzC16DFGrid[vrt.Choice(tag+".dfi", len(zzC16DFGrid))])
	case kind == 7:
		r := vrt.Rune(tag + ".chr")
		vrt.Assume(0 <= r && r < 128)
		return slip.Character(r)
	case kind == 8:
		return slip.Fixnum(zzC16FixGrid[vrt.Choice(tag+".fixi", len(zzC16FixGrid))])
	case kind == 9:
		return (*slip.Bignum)(big.NewInt(vrt.Int64(tag + ".bfx")))
	case 10 <= kind && kind <= 13:
		return slip.String(zzC16Ascii(tag+".str", kind-10))
	case kind == 14:
		return slip.String(zzC16StrGrid[vrt.Choice(tag+".stri", len(zzC16StrGrid))])
	case kind == 17:
		return slip.Character(zzC16ChrGrid[vrt.Choice(tag+".chri", len(zzC16ChrGrid))])
	case 21 <= kind && kind <= 23:
		return slip.Symbol(zzC16Ascii(tag+".sym", kind-20))
	case kind == 24:
		return slip.Symbol(zzC16SymGrid[vrt.Choice(tag+".symi", len(zzC16SymGrid))])
	case kind == 30:
		return slip.Octet(vrt.Byte(tag + ".oct"))
	case kind == 31:
		return (*slip.LongFloat)(big.NewFloat(2.5))
	case kind == 32:
		return slip.Complex(complex(1, 2))
	case kind == 33:
		return slip.SignedByteFromInt64(-5)
	case kind == 34:
		return &slip.UnsignedByte{Bytes: []byte{1, 2}}
	case kind == 35:
		return slip.Bit(1)
	case kind == 36:
		return slip.ReadBitVector([]byte("1011"))
	case kind == 37:
		return slip.Octets(vrt.Bytes(tag+".octs", 2))
	case kind == 38:
		return slip.HashTable{}
	case kind == 39:
		return slip.List{}
	case kind == 40:
		return slip.Complex(complex(3, 0))
	case kind == 41:
		return slip.SignedByteFromInt64(7)
	case kind == 42:
		return (*slip.LongFloat)(big.NewFloat(3))
	case 100 <= kind && kind < 3000:
		k := kind - 100
		return slip.List{zzC16Obj(k/50, tag+".0"), zzC16Obj(k%50, tag+".1")}
	case 3000 <= kind && kind < 6000:
		k := kind - 3000
		el := slip.List{zzC16Obj(k/50, tag+".0"), zzC16Obj(k%50, tag+".1")}
		return slip.NewVector(2, slip.TrueSymbol, nil, el, false)
	}
	panic("zzC16Obj: unknown kind")
}

// ---- calling the real functions ----

// zzC16Res is the outcome of one call.
type zzC16Res struct {
	class int // 0 value, 1 Lisp condition, 3 Go run-time fault, 4 other panic
	val   bool
	other bool // predicate result neither t nor nil
	obj   slip.Object
	fault string
}

func zzC16Classify(rec any) (int, string) {
	switch tr := rec.(type) {
	case *slip.Panic:
		return 1, ""
	case slip.Instance:
		return 1, ""
	case interface{ RuntimeError() }:
		return 3, tr.(error).Error()
	}
	return 4, ""
}

// zzC16StubTypePanic / zzC16StubErrorPanic replace slip.TypePanic and
// slip.ErrorPanic in the engine runs: the real ones print the offending object
// into the message (decimal conversion of a symbolic fixnum forks once per
// digit count; fmt with symbolic arguments is not interpretable).  C16 only
// looks at "a condition was signalled", never at its text.
func zzC16StubTypePanic(s *slip.Scope, depth int, use string, value slip.Object, wants ...string) {
	panic(&slip.Panic{Message: "type-error (C16 stub)"})
}

func zzC16StubErrorPanic(s *slip.Scope, depth int, format string, args ...any) {
	panic(&slip.Panic{Message: "error (C16 stub)"})
}

// zzC16Apply calls the function registered under name with already evaluated
// arguments: FindFunc(name).Create(nil).(Caller).Call(scope, args, 0).  (Going
// through Function.Eval would wrap a Go run-time fault into a *slip.Panic and
// print every argument into the stack trace.)
func zzC16Apply(scope *slip.Scope, name string, args slip.List) slip.Object {
	fi := slip.MustFindFunc(name)
	return fi.Create(nil).(slip.Caller).Call(scope, args, 0)
}

func zzC16Call(scope *slip.Scope, name string, args slip.List) (r zzC16Res) {
	defer func() {
		if rec := recover(); rec != nil {
			r.class, r.fault = zzC16Classify(rec)
			r.obj = nil
		}
	}()
	r.obj = zzC16Apply(scope, name, args)
	if r.obj == slip.True {
		r.val = true
	} else if r.obj != nil {
		r.other = true
	}
	return
}

func zzC16Pred(scope *slip.Scope, fn string, x, y slip.Object) zzC16Res {
	return zzC16Call(scope, fn, slip.List{x, y})
}

func zzC16IsBool(r zzC16Res) bool { return r.class == 0 && !r.other }

// ---- kind families (from the Go representation) ----

const (
	zzC16FNil = iota
	zzC16FNum
	zzC16FChar
	zzC16FStr
	zzC16FSym
	zzC16FList
	zzC16FOther
)

func zzC16Fam(x slip.Object) int {
	switch x.(type) {
	case nil:
		return zzC16FNil
	case slip.Number:
		return zzC16FNum
	case slip.Character:
		return zzC16FChar
	case slip.String:
		return zzC16FStr
	case slip.Symbol:
		return zzC16FSym
	case slip.List:
		return zzC16FList
	}
	return zzC16FOther
}

// zzC16EqlCondRegion: the region of known finding C16-eql-nonnumber-condition
// for the call (eql x y): x is not a character or string, x and y are not both
// numbers, and x, y are not the same symbol text / both nil (then eq answers).
func zzC16EqlCondRegion(x, y slip.Object) bool {
	fx, fy := zzC16Fam(x), zzC16Fam(y)
	if fx == zzC16FChar || fx == zzC16FStr {
		return false
	}
	if fx == zzC16FNum && fy == zzC16FNum {
		return false
	}
	if fx == zzC16FNil && fy == zzC16FNil {
		return false
	}
	if fx == zzC16FSym && fy == zzC16FSym {
		return string(x.(slip.Symbol)) != string(y.(slip.Symbol))
	}
	return true
}

// zzC16EqlCharRegion: (eql x y) with x a character and y not one.
func zzC16EqlCharRegion(x, y slip.Object) bool {
	return zzC16Fam(x) == zzC16FChar && zzC16Fam(y) != zzC16FChar
}

// zzC16NilDerefRegion: (equalp x y) reaches x.Equal(y) with x == nil: x nil
// and y not, or lists of equal length with such a pair of elements.
func zzC16NilDerefRegion(x, y slip.Object) bool {
	if x == nil {
		return y != nil
	}
	lx, ok1 := x.(slip.List)
	ly, ok2 := y.(slip.List)
	if ok1 && ok2 && len(lx) == len(ly) {
		for i := range lx {
			if zzC16NilDerefRegion(lx[i], ly[i]) {
				return true
			}
		}
	}
	return false
}

// zzC16BitRegion: known finding C16-bit-number-compare — exactly one of the
// two is a slip.Bit and the other is a number.
func zzC16BitRegion(x, y slip.Object) bool {
	_, bx := x.(slip.Bit)
	_, by := y.(slip.Bit)
	return bx != by && zzC16Fam(x) == zzC16FNum && zzC16Fam(y) == zzC16FNum
}

// VerifC16Pair: for a pair of objects of kinds (kx, ky), both argument orders:
// each of eq, eql, equal, equalp returns t or nil (no condition, no Go fault),
// eq => eql => equal => equalp, and each predicate is symmetric.
func VerifC16Pair(kx int, ky int) {
	scope := slip.NewScope()
	x := zzC16Obj(kx, "x")
	y := zzC16Obj(ky, "y")
	var xy, yx [4]zzC16Res
	for i, fn := range []string{"eq", "eql", "equal", "equalp"} {
		xy[i] = zzC16Pred(scope, fn, x, y)
		yx[i] = zzC16Pred(scope, fn, y, x)
	}
	vrt.Reach("compared")
	// eq and equal
	vrt.Assert(zzC16IsBool(xy[0]) && zzC16IsBool(yx[0]), "eq does not return a boolean")
	vrt.Assert(xy[0].val == yx[0].val, "eq is not symmetric")
	vrt.Carve("C16-bit-number-compare", zzC16BitRegion(x, y))
	vrt.Assert(zzC16IsBool(xy[2]) && zzC16IsBool(yx[2]), "equal does not return a boolean")
	vrt.Assert(xy[2].val == yx[2].val, "equal is not symmetric")
	vrt.Assert(!xy[0].val || xy[2].val, "eq but not equal")
	// equalp
	vrt.Carve("C16-equalp-nil-deref", zzC16NilDerefRegion(x, y) || zzC16NilDerefRegion(y, x))
	vrt.Assert(xy[3].class != 3 && yx[3].class != 3, "equalp: Go run-time fault")
	vrt.Assert(zzC16IsBool(xy[3]) && zzC16IsBool(yx[3]), "equalp does not return a boolean")
	vrt.Assert(xy[3].val == yx[3].val, "equalp is not symmetric")
	vrt.Assert(!xy[2].val || xy[3].val, "equal but not equalp")
	// eql
	vrt.Carve("C16-eql-char-type-assertion", zzC16EqlCharRegion(x, y) || zzC16EqlCharRegion(y, x))
	vrt.Assert(xy[1].class != 3 && yx[1].class != 3, "eql: Go run-time fault")
	vrt.Carve("C16-eql-nonnumber-condition", zzC16EqlCondRegion(x, y) || zzC16EqlCondRegion(y, x))
	vrt.Assert(zzC16IsBool(xy[1]) && zzC16IsBool(yx[1]), "eql signals a condition instead of returning a boolean")
	vrt.Assert(xy[1].val == yx[1].val, "eql is not symmetric")
	vrt.Assert(!xy[0].val || xy[1].val, "eq but not eql")
	vrt.Assert(!xy[1].val || xy[2].val, "eql but not equal")
	vrt.Reach("checked")
}

// zzC16Same: structural identity (same Go type, same content), written
// independently of the slip predicates.
func zzC16Same(a, b slip.Object) bool {
	switch ta := a.(type) {
	case nil:
		return b == nil
	case slip.Fixnum:
		tb, ok := b.(slip.Fixnum)
		return ok && int64(ta) == int64(tb)
	case slip.Octet:
		tb, ok := b.(slip.Octet)
		return ok && byte(ta) == byte(tb)
	case *slip.Bignum:
		tb, ok := b.(*slip.Bignum)
		return ok && (*big.Int)(ta).Cmp((*big.Int)(tb)) == 0
	case *slip.Ratio:
		tb, ok := b.(*slip.Ratio)
		return ok && (*big.Rat)(ta).Cmp((*big.Rat)(tb)) == 0
	case slip.SingleFloat:
		tb, ok := b.(slip.SingleFloat)
		return ok && float32(ta) == float32(tb)
	case slip.DoubleFloat:
		tb, ok := b.(slip.DoubleFloat)
		return ok && float64(ta) == float64(tb)
	case slip.Character:
		tb, ok := b.(slip.Character)
		return ok && rune(ta) == rune(tb)
	case slip.String:
		tb, ok := b.(slip.String)
		return ok && string(ta) == string(tb)
	case slip.Symbol:
		tb, ok := b.(slip.Symbol)
		return ok && string(ta) == string(tb)
	case slip.List:
		tb, ok := b.(slip.List)
		if !ok || len(ta) != len(tb) {
			return false
		}
		for i := range ta {
			if !zzC16Same(ta[i], tb[i]) {
				return false
			}
		}
		return true
	case *slip.Vector:
		tb, ok := b.(*slip.Vector)
		return ok && zzC16Same(ta.AsList(), tb.AsList())
	}
	return false
}

// VerifC16Refl: reflexivity.  (P x x) is t for the four predicates with the
// same object in both positions; and for a second, separately built object of
// identical type and content: equal and equalp are t, and eql is t when the
// objects are numbers, characters, strings (slip documents eql on strings as
// case-sensitive comparison) or symbols.
func VerifC16Refl(k int) {
	scope := slip.NewScope()
	x := zzC16Obj(k, "x")
	for _, fn := range []string{"eq", "eql", "equal", "equalp"} {
		r := zzC16Pred(scope, fn, x, x)
		vrt.Assert(r.class == 0 && r.val, "(P x x) is not t for P = "+fn)
	}
	vrt.Reach("same-object")
	y := zzC16Obj(k, "y")
	vrt.Assume(zzC16Same(x, y))
	for _, fn := range []string{"equal", "equalp"} {
		r := zzC16Pred(scope, fn, x, y)
		vrt.Assert(r.class == 0 && r.val, "identical copies are not "+fn)
	}
	switch zzC16Fam(x) {
	case zzC16FNum, zzC16FChar, zzC16FStr, zzC16FSym:
		r := zzC16Pred(scope, "eql", x, y)
		vrt.Assert(r.class == 0 && r.val, "identical copies of a number/character/string/symbol are not eql")
	}
	vrt.Reach("copy")
}

// zzC16FloatBits: mantissa bits of a float object kind, 0 for others.
func zzC16FloatBits(x slip.Object) int {
	switch x.(type) {
	case slip.SingleFloat:
		return 24
	case slip.DoubleFloat:
		return 53
	}
	return 0
}

// zzC16Inexact: converting the exact number x to a float with `bits` mantissa
// bits may round (integers wider than the mantissa; a ratio whose numerator is
// wider or whose denominator is not a power of two).
func zzC16Inexact(x slip.Object, bits int) bool {
	switch tx := x.(type) {
	case slip.Fixnum:
		v := int64(tx)
		if v < 0 {
			v = -v
		}
		return v < 0 || (v>>uint(bits)) != 0
	case *slip.Bignum:
		return (*big.Int)(tx).BitLen() > bits
	case *slip.Ratio:
		return (*big.Rat)(tx).Num().BitLen() > bits || !zzC16Pow2((*big.Rat)(tx).Denom())
	}
	return false
}

func zzC16Pow2(d *big.Int) bool {
	return d.Sign() > 0 && d.BitLen() <= 60 && d.Int64()&(d.Int64()-1) == 0
}

// zzC16RoundRegion: known finding C16-number-compare-rounds — two numbers of
// different representation are compared after converting the exact one to the
// float type of the other (or a big ratio through float64), so distinct exact
// numbers can both compare equal to one float.  The region: in the triple
// some member is a float (or a ratio wider than a float64 mantissa) and some
// other member is an exact number that does not fit that mantissa.
func zzC16RoundRegion(a, b, c slip.Object) bool {
	// element-wise inside lists/vectors of the same length
	ea, oka := zzC16Elems(a)
	eb, okb := zzC16Elems(b)
	ec, okc := zzC16Elems(c)
	if oka && okb && okc && len(ea) == len(eb) && len(eb) == len(ec) {
		for i := range ea {
			if zzC16RoundRegion(ea[i], eb[i], ec[i]) {
				return true
			}
		}
		return false
	}
	all := []slip.Object{a, b, c}
	for i, f := range all {
		bits := zzC16FloatBits(f)
		if bits == 0 {
			if r, ok := f.(*slip.Ratio); ok && (*big.Rat)(r).Num().BitLen() > 53 {
				bits = 53
			} else {
				continue
			}
		}
		for j, e := range all {
			if i != j && zzC16Inexact(e, bits) {
				return true
			}
		}
	}
	return false
}

func zzC16Elems(x slip.Object) (slip.List, bool) {
	switch tx := x.(type) {
	case slip.List:
		return tx, true
	case *slip.Vector:
		return tx.AsList(), true
	}
	return nil, false
}

// VerifC16Trans: transitivity of eql, equal, equalp over a triple of kinds,
// wherever the three calls return (totality is VerifC16Pair's).
func VerifC16Trans(kx int, ky int, kz int) {
	scope := slip.NewScope()
	x := zzC16Obj(kx, "x")
	y := zzC16Obj(ky, "y")
	z := zzC16Obj(kz, "z")
	vrt.Carve("C16-number-compare-rounds", zzC16RoundRegion(x, y, z))
	vrt.Carve("C16-bit-number-compare", zzC16BitRegion(x, y) || zzC16BitRegion(y, z) || zzC16BitRegion(x, z))
	for _, fn := range []string{"eql", "equal", "equalp"} {
		xy := zzC16Pred(scope, fn, x, y)
		yz := zzC16Pred(scope, fn, y, z)
		xz := zzC16Pred(scope, fn, x, z)
		if xy.class == 0 && yz.class == 0 && xz.class == 0 {
			vrt.Reach("compared")
			vrt.Assert(!(xy.val && yz.val) || xz.val, fn+" is not transitive")
		}
	}
}

// VerifC16GoEqual: the Go Equal methods (slip.ObjectEqual) directly:
// reflexive, symmetric, transitive over a triple of kinds.
func VerifC16GoEqual(kx int, ky int, kz int) {
	x := zzC16Obj(kx, "x")
	y := zzC16Obj(ky, "y")
	z := zzC16Obj(kz, "z")
	vrt.Assert(slip.ObjectEqual(x, x), "Equal is not reflexive")
	xy := slip.ObjectEqual(x, y)
	yx := slip.ObjectEqual(y, x)
	yz := slip.ObjectEqual(y, z)
	xz := slip.ObjectEqual(x, z)
	vrt.Reach("compared")
	vrt.Carve("C16-bit-number-compare", zzC16BitRegion(x, y) || zzC16BitRegion(y, z) || zzC16BitRegion(x, z))
	vrt.Assert(xy == yx, "Equal is not symmetric")
	vrt.Carve("C16-number-compare-rounds", zzC16RoundRegion(x, y, z))
	vrt.Assert(!(xy && yz) || xz, "Equal is not transitive")
}

// ---- (ii) sxhash ----

func zzC16Big(s string) *slip.Bignum {
	z, _ := new(big.Int).SetString(s, 10)
	return (*slip.Bignum)(z)
}

// zzC16Pool: concrete representative objects for the sxhash enumeration.
func zzC16Pool() []slip.Object {
	n, _ := new(big.Int).SetString("36893488147419103233", 10)
	return []slip.Object{
		nil,                                          // 0
		slip.Fixnum(1),                               // 1
		slip.DoubleFloat(1),                          // 2
		slip.SingleFloat(1),                          // 3
		(*slip.Bignum)(big.NewInt(1)),                // 4
		slip.Fixnum(16777217),                        // 5
		slip.SingleFloat(16777216),                   // 6
		slip.Fixnum(16777216),                        // 7
		zzC16Big("18446744073709551616"),             // 8
		slip.DoubleFloat(18446744073709551616),       // 9
		slip.NewBigRatio(n, big.NewInt(2)),           // 10
		slip.NewRatio(1, 2),                          // 11
		slip.DoubleFloat(0.5),                        // 12
		slip.String("abc"),                           // 13
		slip.String("ABC"),                           // 14
		slip.String("aBc"),                           // 15
		slip.String("я"),                             // 16
		slip.String("Я"),                             // 17
		slip.String("K"),                             // 18 Kelvin sign
		slip.String("k"),                             // 19
		slip.String("é"),                             // 20
		slip.String("É"),                             // 21
		slip.Symbol("abc"),                           // 22
		slip.Symbol("ABC"),                           // 23
		slip.Character('a'),                          // 24
		slip.Character('A'),                          // 25
		slip.List{slip.Fixnum(1), slip.String("ab")}, // 26
		slip.List{slip.DoubleFloat(1), slip.String("AB")},                                         // 27
		slip.List{slip.Fixnum(1), slip.String("ab")},                                              // 28
		slip.NewVector(2, slip.TrueSymbol, nil, slip.List{slip.Fixnum(1), slip.Fixnum(2)}, false), // 29
		slip.NewVector(2, slip.TrueSymbol, nil, slip.List{slip.Fixnum(1), slip.Fixnum(2)}, false), // 30
		slip.List{slip.Fixnum(1), slip.Fixnum(2)},                                                 // 31
		slip.Fixnum(0),      // 32
		slip.DoubleFloat(0), // 33
		slip.String(""),     // 34
		slip.String("1"),    // 35
	}
}

// VerifC16Sxhash: enumeration over pairs of the concrete pool (i from the
// parameter, j by vrt.Choice so that the native replay cross-checks the hash
// codes the engine computed): sxhash returns a non-negative fixnum, the same
// one for the same object, and objects that are equal have the same code.
func VerifC16Sxhash(i int) {
	scope := slip.NewScope()
	pool := zzC16Pool()
	j := vrt.Choice("j", len(pool))
	x, y := pool[i], pool[j]
	hx := zzC16Call(scope, "sxhash", slip.List{x})
	hx2 := zzC16Call(scope, "sxhash", slip.List{x})
	hy := zzC16Call(scope, "sxhash", slip.List{y})
	vrt.Assert(hx.class == 0 && hy.class == 0, "sxhash does not return")
	fx, ok1 := hx.obj.(slip.Fixnum)
	fx2, ok2 := hx2.obj.(slip.Fixnum)
	fy, ok3 := hy.obj.(slip.Fixnum)
	vrt.Assert(ok1 && ok2 && ok3 && 0 <= fx && 0 <= fy, "sxhash is not a non-negative fixnum")
	vrt.Assert(fx == fx2, "sxhash of the same object differs between calls")
	eqv := zzC16Pred(scope, "equal", x, y)
	vrt.Assert(zzC16IsBool(eqv), "equal does not return a boolean")
	vrt.Reach("hashed")
	vrt.Note("pair", i, j, eqv.val, int64(fx), int64(fy))
	if eqv.val {
		// known finding: objects of different Go type/content that are equal
		vrt.Carve("C16-sxhash-not-equal-invariant", !zzC16Same(x, y))
		vrt.Assert(fx == fy, "equal objects with different sxhash")
		vrt.Reach("equal-pair")
	}
}

// zzC16Punct: bytes without a case variant; in the letter enumeration they
// stand for "digits and punctuation are left alone" (two separately built
// texts with the same byte must hash alike).
const zzC16Punct = "0123456789-_*+/<>=!?.:@[]{}~^&%$#| "

// VerifC16SxhashCase: ENUMERATION of single-letter case pairs.  For every
// letter a..z (vrt.Choice, so that the native replay cross-checks the codes)
// the two-byte texts that differ only in the case of that letter — letter in
// first (pos 0) or last (pos 1) position, next to a fixed lower-case or
// upper-case companion (other) — as strings (kind 0: equal, equalp and
// sxhash) and as symbols (kind 1: Symbol.Equal, i.e. equalp, is
// case-insensitive; sxhash documents (sxhash 'abc) = (sxhash 'aBc)).  Choices
// 26.. take a digit/punctuation byte unchanged in two separately built texts.
func VerifC16SxhashCase(pos int, kind int, other int) {
	scope := slip.NewScope()
	i := vrt.Choice("c", 26+len(zzC16Punct))
	var lo, up byte
	if i < 26 {
		lo, up = byte('a'+i), byte('A'+i)
	} else {
		lo = zzC16Punct[i-26]
		up = lo
	}
	comp := byte('q')
	if other == 1 {
		comp = 'Q'
	}
	ta, tb := []byte{lo, comp}, []byte{up, comp}
	if pos == 1 {
		ta, tb = []byte{comp, lo}, []byte{comp, up}
	}
	var x, y slip.Object
	if kind == 0 {
		x, y = slip.String(ta), slip.String(tb)
	} else {
		x, y = slip.Symbol(ta), slip.Symbol(tb)
	}
	hx := zzC16Call(scope, "sxhash", slip.List{x})
	hy := zzC16Call(scope, "sxhash", slip.List{y})
	fx, ok1 := hx.obj.(slip.Fixnum)
	fy, ok2 := hy.obj.(slip.Fixnum)
	vrt.Assert(hx.class == 0 && hy.class == 0 && ok1 && ok2 && 0 <= fx && 0 <= fy, "sxhash is not a non-negative fixnum")
	vrt.Reach("hashed")
	vrt.Note("case", pos, kind, other, i, int64(fx), int64(fy))
	eqv := zzC16Pred(scope, "equal", x, y)
	eqp := zzC16Pred(scope, "equalp", x, y)
	vrt.Assert(zzC16IsBool(eqv) && zzC16IsBool(eqp), "equal/equalp does not return a boolean")
	vrt.Assert(!eqv.val || eqp.val, "equal but not equalp")
	if eqv.val {
		vrt.Reach("equal-pair")
		vrt.Assert(fx == fy, "equal texts differing in the case of one letter have different sxhash")
	}
	if kind == 1 && slip.ObjectEqual(x, y) {
		vrt.Reach("same-symbol")
		vrt.Assert(eqp.val, "symbols that are Equal are not equalp")
		vrt.Assert(fx == fy, "symbols differing only in the case of one letter have different sxhash")
	}
	if kind == 0 {
		// slip documents string comparison by equal as case-insensitive
		vrt.Assert(eqv.val, "strings differing only in the case of one ASCII letter are not equal")
	}
}

// ---- (iii) hash table = finite map ----

type zzC16Entry struct {
	key slip.Object
	val slip.Object
}

// zzC16KeyEquiv: the reference key equivalence of an eql table (slip's
// make-hash-table documents eql as the only test): same type and same value;
// strings by content (slip's eql compares strings case-sensitively); symbols
// by text; a list/vector only with itself (sameObject: the harness knows
// whether the two are the same harness key).  ok=false marks pairs on which
// slip's own eql and the standard eql disagree (numbers of different type
// with the same value, symbols differing only in case): those are assumed
// away.
func zzC16KeyEquiv(x, y slip.Object, sameObject bool) (eq bool, ok bool) {
	if sameObject {
		return true, true
	}
	fx, fy := zzC16Fam(x), zzC16Fam(y)
	if fx != fy {
		return false, true
	}
	switch fx {
	case zzC16FNil:
		return true, true
	case zzC16FNum:
		if zzC16SameGoType(x, y) {
			return zzC16Same(x, y), true
		}
		return false, !zzC16NumSame(x, y)
	case zzC16FChar, zzC16FStr:
		return zzC16Same(x, y), true
	case zzC16FSym:
		if zzC16Same(x, y) {
			return true, true
		}
		return false, !zzC16FoldEq(string(x.(slip.Symbol)), string(y.(slip.Symbol)))
	}
	return false, true
}

func zzC16SameGoType(x, y slip.Object) bool {
	switch x.(type) {
	case slip.Fixnum:
		_, ok := y.(slip.Fixnum)
		return ok
	case *slip.Bignum:
		_, ok := y.(*slip.Bignum)
		return ok
	case *slip.Ratio:
		_, ok := y.(*slip.Ratio)
		return ok
	case slip.SingleFloat:
		_, ok := y.(slip.SingleFloat)
		return ok
	case slip.DoubleFloat:
		_, ok := y.(slip.DoubleFloat)
		return ok
	case slip.Octet:
		_, ok := y.(slip.Octet)
		return ok
	}
	return false
}

func zzC16FoldEq(a, b string) bool {
	if len(a) != len(b) {
		return false
	}
	for i := 0; i < len(a); i++ {
		ca, cb := a[i], b[i]
		if 'A' <= ca && ca <= 'Z' {
			ca += 'a' - 'A'
		}
		if 'A' <= cb && cb <= 'Z' {
			cb += 'a' - 'A'
		}
		if ca != cb {
			return false
		}
	}
	return true
}

// zzC16NumSame: numeric equality of two numbers used as hash keys (integers
// exactly; floats against floats; mixed exact/float counts as "same", i.e.
// ambiguous).
func zzC16NumSame(x, y slip.Object) bool {
	rx, okx := zzC16Int(x)
	ry, oky := zzC16Int(y)
	if okx && oky {
		return rx.Cmp(ry) == 0
	}
	_, ratx := x.(*slip.Ratio)
	_, raty := y.(*slip.Ratio)
	if (ratx && (oky || raty)) || (raty && okx) {
		return false // a proper ratio never equals an integer; two different ratios differ
	}
	fx, okx := zzC16F64(x)
	fy, oky := zzC16F64(y)
	if okx && oky {
		return fx == fy
	}
	return true
}

func zzC16Int(x slip.Object) (*big.Int, bool) {
	switch tx := x.(type) {
	case slip.Fixnum:
		return big.NewInt(int64(tx)), true
	case *slip.Bignum:
		return (*big.Int)(tx), true
	}
	return nil, false
}

func zzC16F64(x slip.Object) (float64, bool) {
	switch tx := x.(type) {
	case slip.SingleFloat:
		return float64(tx), true
	case slip.DoubleFloat:
		return float64(tx), true
	}
	return 0, false
}

type zzC16Model struct {
	ents []zzC16Entry
	id   []int // which harness key (0 = A, 1 = B) the entry was stored with
}

func (m *zzC16Model) find(key slip.Object, id int) int {
	for i := range m.ents {
		eq, ok := zzC16KeyEquiv(m.ents[i].key, key, m.id[i] == id)
		vrt.Assume(ok)
		if eq {
			return i
		}
	}
	return -1
}

func (m *zzC16Model) del(i int) {
	m.ents = append(append([]zzC16Entry{}, m.ents[:i]...), m.ents[i+1:]...)
	m.id = append(append([]int{}, m.id[:i]...), m.id[i+1:]...)
}

// zzC16PtrKey: a bignum or ratio key is a Go pointer.
func zzC16PtrKey(x slip.Object) bool {
	switch x.(type) {
	case *slip.Bignum, *slip.Ratio:
		return true
	}
	return false
}

func zzC16Unhashable(x slip.Object) bool {
	switch x.(type) {
	case slip.List, slip.Octets, slip.HashTable:
		return true
	}
	return false
}

// VerifC16Hash: a history of up to four operations on a fresh table against a
// reference association list.  Keys A (kind ka) and B (kind kb) are built
// separately; op codes: 0 none, 1/2 (setf (gethash A/B h) v), 9/10 (setf
// (gethash A/B h) nil), 3/4 (gethash A/B h), 5/6 (remhash A/B h), 7 (clrhash
// h), 8 (hash-table-count h).  Every operation's own result is compared with
// the model, and after every operation the whole observable state is:
// hash-table-count, both values of (gethash A h) and (gethash B h), and the
// set of key/value pairs maphash visits.
func VerifC16Hash(ka int, kb int, o1 int, o2 int, o3 int, o4 int) {
	scope := slip.NewScope()
	keys := []slip.Object{zzC16Obj(ka, "a"), zzC16Obj(kb, "b")}
	eqAB, okAB := zzC16KeyEquiv(keys[0], keys[1], false)
	vrt.Assume(okAB)
	// pointer-shaped keys with the same value are distinct Go map keys
	vrt.Carve("C16-hash-pointer-keys", eqAB && zzC16PtrKey(keys[0]))
	vrt.Carve("C16-hash-unhashable-key", zzC16Unhashable(keys[0]) || zzC16Unhashable(keys[1]))
	mk := zzC16Call(scope, "make-hash-table", slip.List{})
	h, isHT := mk.obj.(slip.HashTable)
	vrt.Assert(mk.class == 0 && isHT, "make-hash-table does not return a hash-table")
	var m zzC16Model
	step := 0
	check := func(id int) {
		r := zzC16Call(scope, "gethash", slip.List{keys[id], h})
		vrt.Assert(r.class != 3, "gethash: Go run-time fault")
		vals, isV := r.obj.(slip.Values)
		vrt.Assert(r.class == 0 && isV && len(vals) == 2, "gethash does not return two values")
		i := m.find(keys[id], id)
		if i < 0 {
			vrt.Assert(vals[1] == nil && vals[0] == nil, "gethash finds a key that was never stored, was removed or cleared")
		} else {
			vrt.Assert(vals[1] == slip.True, "gethash misses a key stored under an equivalent key")
			vrt.Assert(zzC16Same(vals[0], m.ents[i].val), "gethash returns a value other than the last one stored")
		}
	}
	count := func() {
		r := zzC16Call(scope, "hash-table-count", slip.List{h})
		n, isF := r.obj.(slip.Fixnum)
		vrt.Assert(r.class == 0 && isF, "hash-table-count does not return a fixnum")
		vrt.Assert(int(n) == len(m.ents), "hash-table-count is not the number of distinct keys")
	}
	// maphash visits exactly the model's entries (as a set of key/value pairs)
	lam := slip.ReadString("(lambda (k v) (setq zz-c16-acc (cons v (cons k zz-c16-acc))))", scope).Eval(scope, nil)
	visit := func() {
		scope.Let(slip.Symbol("zz-c16-acc"), nil)
		r := zzC16Call(scope, "maphash", slip.List{lam, h})
		vrt.Assert(r.class == 0, "maphash does not return")
		acc, _ := scope.Get(slip.Symbol("zz-c16-acc")).(slip.List)
		vrt.Assert(len(acc) == 2*len(m.ents), "maphash does not visit one entry per distinct key")
		for i := range m.ents {
			seen := false
			for j := 0; j+1 < len(acc); j += 2 {
				if zzC16Same(acc[j], m.ents[i].val) && zzC16Same(acc[j+1], m.ents[i].key) {
					seen = true
				}
			}
			vrt.Assert(seen, "maphash does not visit an entry of the model")
		}
	}
	for _, op := range []int{o1, o2, o3, o4} {
		step++
		switch op {
		case 1, 2, 9, 10:
			id := (op - 1) % 8
			var v slip.Object = slip.Fixnum(100 + step)
			if op >= 9 {
				v = nil // a stored NIL is an entry like any other
			}
			fi := slip.MustFindFunc("gethash")
			cls := 0
			func() {
				defer func() {
					if rec := recover(); rec != nil {
						cls, _ = zzC16Classify(rec)
					}
				}()
				fi.Create(nil).(slip.Placer).Place(scope, slip.List{keys[id], h}, v)
			}()
			vrt.Assert(cls != 3, "(setf gethash): Go run-time fault")
			vrt.Assert(cls == 0, "(setf gethash) signals a condition")
			if i := m.find(keys[id], id); i >= 0 {
				m.ents[i].val = v
			} else {
				m.ents = append(m.ents, zzC16Entry{keys[id], v})
				m.id = append(m.id, id)
			}
		case 3, 4:
			check(op - 3)
		case 5, 6:
			id := op - 5
			r := zzC16Call(scope, "remhash", slip.List{keys[id], h})
			vrt.Assert(r.class != 3, "remhash: Go run-time fault")
			vrt.Assert(zzC16IsBool(r), "remhash does not return a boolean")
			i := m.find(keys[id], id)
			vrt.Assert(r.val == (i >= 0), "remhash result is not `an entry existed`")
			if i >= 0 {
				m.del(i)
			}
		case 7:
			r := zzC16Call(scope, "clrhash", slip.List{h})
			_, same := r.obj.(slip.HashTable)
			vrt.Assert(r.class == 0 && same, "clrhash does not return the table")
			m.ents, m.id = nil, nil
		case 8:
			count()
		}
		if op != 0 {
			// the whole observable state after every operation
			count()
			check(0)
			check(1)
			visit()
		}
	}
	vrt.Reach("history")
	count()
	check(0)
	check(1)
	visit()
	vrt.Reach("maphash")
}

// ---- (iv) types ----

// zzC16Classes: the names of every class visible in the current package,
// sorted (map order is unspecified).
func zzC16Classes() []string {
	var names []string
	for _, c := range slip.CurrentPackage.AllClasses() {
		names = append(names, c.Name())
	}
	sort.Strings(names)
	return names
}

func zzC16Typep(scope *slip.Scope, x slip.Object, t slip.Symbol) zzC16Res {
	return zzC16Call(scope, "typep", slip.List{x, t})
}

// zzC16Subtypep: 1 yes, 0 no, -1 the call failed or is malformed.
func zzC16Subtypep(scope *slip.Scope, a, b string) int {
	r := zzC16Call(scope, "subtypep", slip.List{slip.Symbol(a), slip.Symbol(b)})
	vals, ok := r.obj.(slip.Values)
	if r.class != 0 || !ok || len(vals) != 2 || vals[1] != slip.True {
		return -1
	}
	if vals[0] == slip.True {
		return 1
	}
	if vals[0] == nil {
		return 0
	}
	return -1
}

// VerifC16TypeOf: (typep x (type-of x)), (typep x t), and typep of every
// member of x's Hierarchy().
func VerifC16TypeOf(k int) {
	scope := slip.NewScope()
	x := zzC16Obj(k, "o")
	to := zzC16Call(scope, "type-of", slip.List{x})
	ts, isSym := to.obj.(slip.Symbol)
	vrt.Assert(to.class == 0 && isSym, "type-of does not return a symbol")
	r := zzC16Typep(scope, x, ts)
	vrt.Reach("typed")
	vrt.Assert(r.class == 0 && r.val, "(typep x (type-of x)) is not t")
	if x != nil {
		for _, h := range x.Hierarchy() {
			r = zzC16Typep(scope, x, h)
			vrt.Assert(r.class == 0 && r.val, "typep of a member of the object's hierarchy is not t")
		}
	}
	vrt.Carve("C16-typep-nil-supertypes", x == nil)
	r = zzC16Typep(scope, x, slip.Symbol("t"))
	vrt.Assert(r.class == 0 && r.val, "(typep x t) is not t")
	if x == nil {
		for _, h := range []string{"list", "symbol", "sequence"} {
			r = zzC16Typep(scope, x, slip.Symbol(h))
			vrt.Assert(r.class == 0 && r.val, "nil is not typep of list/symbol/sequence")
		}
	}
}

// VerifC16Subtypep: for the class with index i in the sorted registry:
// (subtypep c c), and for all j, k: c <= cj and cj <= ck imply c <= ck; every
// call returns (values t-or-nil t).
func VerifC16Subtypep(i int) {
	scope := slip.NewScope()
	names := zzC16Classes()
	vrt.Assert(60 <= len(names) && len(names) <= 70, "class registry size outside the case list of the obligation")
	if len(names) <= i {
		return
	}
	c := names[i]
	vrt.Assert(zzC16Subtypep(scope, c, c) == 1, "subtypep is not reflexive")
	row := make([]int, len(names))
	for j, cj := range names {
		row[j] = zzC16Subtypep(scope, c, cj)
		vrt.Assert(row[j] >= 0, "subtypep fails or returns malformed values")
	}
	for j, cj := range names {
		if row[j] != 1 {
			continue
		}
		for k, ck := range names {
			if zzC16Subtypep(scope, cj, ck) == 1 {
				vrt.Assert(row[k] == 1, "subtypep is not transitive")
			}
		}
	}
	vrt.Reach("subtypes")
}

// VerifC16TypepSub: subtypep agrees with typep on an object of kind k: for all
// registered classes c1, c2: (typep x c1) and (subtypep c1 c2) imply (typep x
// c2); and every member of x's Hierarchy() that is a registered class is a
// supertype (subtypep) of (type-of x) when that is a registered class.
func VerifC16TypepSub(k int) {
	scope := slip.NewScope()
	names := zzC16Classes()
	x := zzC16Obj(k, "o")
	is := make([]bool, len(names))
	for i, c := range names {
		r := zzC16Typep(scope, x, slip.Symbol(c))
		vrt.Assert(zzC16IsBool(r), "typep does not return a boolean")
		is[i] = r.val
	}
	for i, c1 := range names {
		if !is[i] {
			continue
		}
		for j, c2 := range names {
			if zzC16Subtypep(scope, c1, c2) == 1 {
				vrt.Assert(is[j], "typep x c1 and subtypep c1 c2 but not typep x c2")
			}
		}
	}
	vrt.Reach("sound")
	if x == nil {
		return
	}
	to := zzC16Call(scope, "type-of", slip.List{x})
	ts, _ := to.obj.(slip.Symbol)
	if slip.FindClass(string(ts)) == nil {
		return
	}
	for _, h := range x.Hierarchy() {
		if slip.FindClass(string(h)) != nil {
			vrt.Assert(zzC16Subtypep(scope, string(ts), string(h)) == 1, "a registered class in the object's hierarchy is not a subtypep-supertype of its type-of")
		}
	}
	vrt.Reach("complete")
}

func zzC16CoerceAlias(t string) bool { return t == "byte" || t == "short-float" }

// VerifC16Coerce: (coerce x T) for an object of kind k and the type symbol
// with index ti (sorted class registry, then `list` and `t`): either signals a
// condition or returns an object that is typep T; never a Go fault.
// (C16-typep-nil-supertypes is repaired; the narrower C16-coerce-nil-vector is
// what is left of its region here.)
func VerifC16Coerce(k int, ti int) {
	scope := slip.NewScope()
	names := append(zzC16Classes(), "list", "t")
	if len(names) <= ti {
		return
	}
	t := names[ti]
	x := zzC16Obj(k, "o")
	r := zzC16Call(scope, "coerce", slip.List{x, slip.Symbol(t)})
	vrt.Reach("coerced")
	vrt.Assert(r.class != 3, "coerce: Go run-time fault")
	vrt.Assert(r.class == 0 || r.class == 1, "coerce: unexpected panic")
	if r.class != 0 {
		return
	}
	vrt.Reach("returned")
	vrt.Carve("C16-coerce-alias-types", zzC16CoerceAlias(t))
	vrt.Carve("C16-typep-nil-supertypes", x == nil)
	// what remains of the former x == nil region after typep was repaired:
	// (coerce nil 'vector) and (coerce nil 'octets) return nil itself
	vrt.Carve("C16-coerce-nil-vector", x == nil && (t == "vector" || t == "octets"))
	_, fromSB := x.(*slip.SignedByte)
	vrt.Carve("C16-coerce-signed-to-unsigned", fromSB && t == "unsigned-byte")
	tp := zzC16Typep(scope, r.obj, slip.Symbol(t))
	vrt.Assert(tp.class == 0 && tp.val, "(coerce x T) returned an object that is not typep T")
}
