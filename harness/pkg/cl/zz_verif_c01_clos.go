package cl

import (
	"github.com/ohler55/slip"
	vrt "github.com/ohler55/slip/zzvrt"
)

// C01, closures made from ONE lambda expression evaluated several times: each
// closure sees and updates the variables of the binding it was created in,
// also after the same expression has been evaluated again in another binding,
// and also when it is called later, in another order, or from another function.
//
//	shape 0  counters from a factory:      (progn (defun zzmkS (n) (lambda () (setq n (+ n L)))) (let ((a (zzmkS L)) (b (zzmkS L))) (list (funcall a) (funcall b) (funcall a) (funcall b))))
//	shape 1  adders from a factory:        (progn (defun zzmkS (n) (lambda (v) (+ v n))) (let ((a (zzmkS L)) (b (zzmkS L))) (list (funcall a L) (funcall b L) (funcall a L))))
//	shape 2  closures collected by mapcar: (mapcar (lambda (f) (funcall f)) (mapcar (lambda (k) (lambda () (+ k L))) (list L L L)))
//	shape 3  closure per let evaluation inside dotimes, called after the loop: two closures kept in x-style variables p q
//	shape 4  lambda expression directly in a let that is evaluated twice through a function (no defun of the factory):
//	         (progn (defun zzmkS (n) (let ((m (+ n L))) (lambda () m))) (let ((a (zzmkS L)) (b (zzmkS L))) (list (funcall b) (funcall a))))
//	shape 5  apply instead of funcall, closure with one parameter shadowing nothing
//	shape 6  two closures over the SAME binding (must share) next to one over another binding (must not)
func VerifC01Closures(shape, variant int) {
	g := &zzGen{variant: variant}
	S := zzSym
	fn := "zzmk" + string(rune('0'+shape))
	fc := func(f string, args ...slip.Object) slip.Object {
		return g.tr(append(slip.List{S("funcall"), S(f)}, args...))
	}
	var prog slip.Object
	switch shape {
	case 0:
		prog = zzL(S("progn"),
			zzL(S("defun"), S(fn), zzL(S("n")), zzL(S("lambda"), zzL(), zzL(S("setq"), S("n"), zzL(S("+"), S("n"), g.lit())))),
			zzL(S("let"), zzL(zzL(S("a"), zzL(S(fn), g.lit())), zzL(S("b"), zzL(S(fn), g.lit()))),
				zzL(S("list"), fc("a"), fc("b"), fc("a"), fc("b"))))
	case 1:
		prog = zzL(S("progn"),
			zzL(S("defun"), S(fn), zzL(S("n")), zzL(S("lambda"), zzL(S("v")), zzL(S("+"), S("v"), S("n")))),
			zzL(S("let"), zzL(zzL(S("a"), zzL(S(fn), g.lit())), zzL(S("b"), zzL(S(fn), g.lit()))),
				zzL(S("list"), fc("a", g.lit()), fc("b", g.lit()), fc("a", g.lit()))))
	case 2:
		prog = zzL(S("mapcar"), zzL(S("lambda"), zzL(S("f")), g.tr(zzL(S("funcall"), S("f")))),
			zzL(S("mapcar"), zzL(S("lambda"), zzL(S("k")), zzL(S("lambda"), zzL(), zzL(S("+"), S("k"), g.lit()))),
				zzL(S("list"), g.lit(), g.lit(), g.lit())))
	case 3:
		prog = zzL(S("let"), zzL(zzL(S("p"), nil), zzL(S("q"), nil)),
			zzL(S("dotimes"), zzL(S("i"), slip.Fixnum(2)),
				zzL(S("let"), zzL(zzL(S("c"), zzL(S("+"), S("i"), g.lit()))),
					zzL(S("if"), zzL(S("="), S("i"), slip.Fixnum(0)),
						zzL(S("setq"), S("p"), zzL(S("lambda"), zzL(), zzL(S("setq"), S("c"), zzL(S("+"), S("c"), slip.Fixnum(1))))),
						zzL(S("setq"), S("q"), zzL(S("lambda"), zzL(), zzL(S("setq"), S("c"), zzL(S("+"), S("c"), slip.Fixnum(1)))))))),
			zzL(S("list"), fc("p"), fc("q"), fc("p")))
	case 4:
		prog = zzL(S("progn"),
			zzL(S("defun"), S(fn), zzL(S("n")), zzL(S("let"), zzL(zzL(S("m"), zzL(S("+"), S("n"), g.lit()))), zzL(S("lambda"), zzL(), S("m")))),
			zzL(S("let"), zzL(zzL(S("a"), zzL(S(fn), g.lit())), zzL(S("b"), zzL(S(fn), g.lit()))),
				zzL(S("list"), fc("b"), fc("a"))))
	case 5:
		prog = zzL(S("progn"),
			zzL(S("defun"), S(fn), zzL(S("n")), zzL(S("lambda"), zzL(S("v")), zzL(S("setq"), S("n"), zzL(S("+"), S("n"), S("v"))))),
			zzL(S("let"), zzL(zzL(S("a"), zzL(S(fn), g.lit())), zzL(S("b"), zzL(S(fn), g.lit()))),
				zzL(S("list"), g.tr(zzL(S("apply"), S("a"), zzL(S("list"), g.lit()))), g.tr(zzL(S("apply"), S("b"), zzL(S("list"), g.lit()))),
					g.tr(zzL(S("apply"), S("a"), zzL(S("list"), g.lit()))))))
	case 6:
		prog = zzL(S("progn"),
			zzL(S("defun"), S(fn), zzL(S("n")),
				zzL(S("list"), zzL(S("lambda"), zzL(), zzL(S("setq"), S("n"), zzL(S("+"), S("n"), slip.Fixnum(1)))), zzL(S("lambda"), zzL(), S("n")))),
			zzL(S("let"), zzL(zzL(S("u"), zzL(S(fn), g.lit())), zzL(S("w"), zzL(S(fn), g.lit()))),
				zzL(S("list"),
					g.tr(zzL(S("funcall"), zzL(S("car"), S("u")))),
					g.tr(zzL(S("funcall"), zzL(S("car"), zzL(S("cdr"), S("u"))))),
					g.tr(zzL(S("funcall"), zzL(S("car"), zzL(S("cdr"), S("w"))))),
					g.tr(zzL(S("funcall"), zzL(S("car"), S("w")))),
					g.tr(zzL(S("funcall"), zzL(S("car"), zzL(S("cdr"), S("u"))))))))
	default:
		g.invalid = true
	}
	vrt.Assert(!g.invalid, "case list names an unknown shape")
	zzCompareProgram(g.tr(prog), g.nlit, zzC01Carves)
}
