package cl

// C14: sequence functions honour their keyword arguments on lists, vectors and
// strings.  Shared helpers + the find/position/count/remove family.
//
// Everything slip evaluates goes through the real registry: a form
// (fn item 'seq :start s ...) is built from objects and handed to scope.Eval.
// Element values, item, :start, :end and :count are symbolic; the length, the
// sequence type, which :key/:test callers are supplied are case parameters; the
// presence of the optional keywords is a vrt.Choice.
//
// Oracle: the CLHS 17.2/17.3 definitions over an index range [start,end) on
// plain int64 slices, written index-based below (zzC14Ref...).

import (
	"strconv"

	"github.com/ohler55/slip"
	vrt "github.com/ohler55/slip/zzvrt"
)

// ---- harness-defined callers (:key / :test / predicates) ----

// zzC14Fn is a function object understood by ResolveToCaller (a slip.Funky).
// It works on the integer value of a fixnum or the code of a character.
//
//	mode 1: (lambda (x) x)            key, identity
//	mode 2: (lambda (x) (1+ (val x))) key, yields a fixnum
//	mode 3: (lambda (a b) (< a b))    two argument test, NOT symmetric
//	mode 4: (lambda (x) (< 0 x))      one argument predicate: "positive" (for
//	                                   characters: code above zzC14Pivot)
//	mode 5: (lambda (a b) (= a b))    two argument test on values
//	mode 8: (lambda (x) (values (1+ (val x)) 0))  key returning two values
//	                                   (only the primary value counts)
//	mode 6: (lambda (x) (ash x -1))   key that is not injective (2k and 2k+1
//	                                   share a key), yields a fixnum
type zzC14Fn struct {
	slip.Function
	mode int
}

const zzC14Pivot = 77 // characters: predicate is code > 'M'

func zzC14Val(obj slip.Object) (int64, bool) {
	switch to := obj.(type) {
	case slip.Fixnum:
		return int64(to), false
	case slip.Character:
		return int64(to), true
	}
	panic("zzC14Fn: argument is neither fixnum nor character")
}

func zzC14Bool(b bool) slip.Object {
	if b {
		return slip.True
	}
	return nil
}

// Call applies the harness function.
func (f *zzC14Fn) Call(s *slip.Scope, args slip.List, depth int) slip.Object {
	switch f.mode {
	case 1:
		if len(args) != 1 {
			panic("zzC14Fn: identity wants 1 argument")
		}
		return args[0]
	case 2:
		if len(args) != 1 {
			panic("zzC14Fn: inc wants 1 argument")
		}
		v, _ := zzC14Val(args[0])
		return slip.Fixnum(v + 1)
	case 3:
		if len(args) != 2 {
			panic("zzC14Fn: less wants 2 arguments")
		}
		a, _ := zzC14Val(args[0])
		b, _ := zzC14Val(args[1])
		return zzC14Bool(a < b)
	case 4:
		if len(args) != 1 {
			panic("zzC14Fn: positive wants 1 argument")
		}
		v, ch := zzC14Val(args[0])
		if ch {
			return zzC14Bool(zzC14Pivot < v)
		}
		return zzC14Bool(0 < v)
	case 8:
		if len(args) != 1 {
			panic("zzC14Fn: inc2 wants 1 argument")
		}
		v, _ := zzC14Val(args[0])
		return slip.Values{slip.Fixnum(v + 1), slip.Fixnum(0)}
	case 6:
		if len(args) != 1 {
			panic("zzC14Fn: half wants 1 argument")
		}
		v, _ := zzC14Val(args[0])
		return slip.Fixnum(v >> 1)
	case 5:
		if len(args) != 2 {
			panic("zzC14Fn: same wants 2 arguments")
		}
		a, _ := zzC14Val(args[0])
		b, _ := zzC14Val(args[1])
		return zzC14Bool(a == b)
	}
	panic("zzC14Fn: bad mode")
}

func zzC14NewFn(mode int) slip.Object {
	f := &zzC14Fn{Function: slip.Function{Name: "zzc14fn" + strconv.Itoa(mode)}, mode: mode}
	f.Self = f
	return f
}

func zzC14Quote(obj slip.Object) slip.Object {
	return slip.List{slip.Symbol("quote"), obj}
}

// ---- outcome of an evaluation ----

const (
	zzC14Value = 0 // returned a value
	zzC14Cond  = 1 // signalled a Lisp condition
	zzC14Fault = 3 // Go run-time fault (index out of range, nil dereference, ...)
	zzC14Other = 4 // some other panic
)

type zzC14Out struct {
	class int
	val   slip.Object
}

func zzC14Eval(scope *slip.Scope, form slip.Object) (out zzC14Out) {
	defer func() {
		if rec := recover(); rec != nil {
			out.val = nil
			switch rec.(type) {
			case *slip.Panic:
				out.class = zzC14Cond
			case slip.Instance:
				out.class = zzC14Cond
			case interface{ RuntimeError() }:
				out.class = zzC14Fault
			default:
				out.class = zzC14Other
			}
		}
	}()
	out.val = scope.Eval(form, 0)
	return
}

// ---- the symbolic call description ----

const (
	zzC14List   = 0
	zzC14Vector = 1
	zzC14String = 2
)

// zzC14Call holds one symbolic invocation of an item/-if style function.
type zzC14Call struct {
	kind    int     // zzC14List, zzC14Vector, zzC14String
	n       int     // length
	vals    []int64 // element values (fixnum values or character codes)
	item    int64
	itemCh  bool // item is passed as a character
	keyMode int  // 0 absent, 1 identity, 2 inc
	tstMode int  // 0 absent (equal), 3 less
	hasS    bool
	start   int64
	endMode int // 0 absent, 1 nil, 2 fixnum
	end     int64
	feMode  int // 0 absent, 1 nil, 2 t
	cntMode int // 0 absent, 1 nil, 2 fixnum
	count   int64
}

// zzC14Elems introduces the n symbolic elements.
func zzC14Elems(kind, n int) []int64 {
	vals := make([]int64, n)
	for i := 0; i < n; i++ {
		if kind == zzC14String {
			b := vrt.Byte("c" + strconv.Itoa(i))
			vrt.Assume(b < 128)
			vals[i] = int64(b)
		} else {
			vals[i] = vrt.Int64("e" + strconv.Itoa(i))
		}
	}
	return vals
}

// zzC14Seq builds the slip sequence object from element values.
func zzC14Seq(kind int, vals []int64) slip.Object {
	switch kind {
	case zzC14List:
		if len(vals) == 0 {
			return nil // what '() reads as
		}
		list := make(slip.List, len(vals))
		for i, v := range vals {
			list[i] = slip.Fixnum(v)
		}
		return list
	case zzC14Vector:
		list := make(slip.List, len(vals))
		for i, v := range vals {
			list[i] = slip.Fixnum(v)
		}
		return slip.NewVector(len(list), slip.TrueSymbol, nil, list, false)
	}
	ba := make([]byte, len(vals))
	for i, v := range vals {
		ba[i] = byte(v)
	}
	return slip.String(ba)
}

func zzC14Elem(kind int, v int64) slip.Object {
	if kind == zzC14String {
		return slip.Character(rune(v))
	}
	return slip.Fixnum(v)
}

// zzC14NewCall makes the symbolic inputs.  withCount: the function takes
// :count.  Bounds are kept within [-1, n+1] so that every class of invalid
// bound is present with few paths.
func zzC14NewCall(kind, n, keyMode, tstMode int, withCount bool) *zzC14Call {
	c := &zzC14Call{kind: kind, n: n, keyMode: keyMode, tstMode: tstMode}
	c.vals = zzC14Elems(kind, n)
	if kind == zzC14String && keyMode != 2 && keyMode != 8 && keyMode != 6 {
		b := vrt.Byte("itemc")
		vrt.Assume(b < 128)
		c.item = int64(b)
		c.itemCh = true
	} else {
		c.item = vrt.Int64("item")
	}
	c.hasS = vrt.Choice("hasStart", 2) == 1
	if c.hasS {
		c.start = vrt.Int64("start")
		vrt.Assume(-1 <= c.start && c.start <= int64(n)+1)
	}
	c.endMode = vrt.Choice("endMode", 3)
	if c.endMode == 2 {
		c.end = vrt.Int64("end")
		vrt.Assume(-1 <= c.end && c.end <= int64(n)+1)
	}
	c.feMode = vrt.Choice("feMode", 3)
	// the keyword parsers treat every keyword independently: the explicit nil
	// forms of :from-end and :count are combined with absent bounds only
	vrt.Assume(!(c.feMode == 1 && (c.hasS || c.endMode != 0)))
	if withCount {
		c.cntMode = vrt.Choice("cntMode", 3)
		vrt.Assume(!(c.cntMode == 1 && (c.hasS || c.endMode != 0 || c.feMode != 0)))
		if c.cntMode == 2 {
			c.count = vrt.Int64("count")
			vrt.Assume(-1 <= c.count && c.count <= int64(n)+1)
		}
	}
	return c
}

// form builds (fn [item|pred] 'seq keywords...).
func (c *zzC14Call) form(fn string, first slip.Object) slip.List {
	form := slip.List{slip.Symbol(fn), first, zzC14Quote(zzC14Seq(c.kind, c.vals))}
	return append(form, c.keywords()...)
}

func (c *zzC14Call) keywords() slip.List {
	var kw slip.List
	if c.hasS {
		kw = append(kw, slip.Symbol(":start"), slip.Fixnum(c.start))
	}
	switch c.endMode {
	case 1:
		kw = append(kw, slip.Symbol(":end"), nil)
	case 2:
		kw = append(kw, slip.Symbol(":end"), slip.Fixnum(c.end))
	}
	switch c.feMode {
	case 1:
		kw = append(kw, slip.Symbol(":from-end"), nil)
	case 2:
		kw = append(kw, slip.Symbol(":from-end"), slip.True)
	}
	switch c.cntMode {
	case 1:
		kw = append(kw, slip.Symbol(":count"), nil)
	case 2:
		kw = append(kw, slip.Symbol(":count"), slip.Fixnum(c.count))
	}
	if c.keyMode != 0 {
		kw = append(kw, slip.Symbol(":key"), zzC14Quote(zzC14NewFn(c.keyMode)))
	}
	if c.tstMode != 0 {
		kw = append(kw, slip.Symbol(":test"), zzC14Quote(zzC14NewFn(c.tstMode)))
	}
	return kw
}

func (c *zzC14Call) itemObj() slip.Object {
	if c.itemCh {
		return slip.Character(rune(c.item))
	}
	return slip.Fixnum(c.item)
}

// Classes of bounding index designators (CLHS 3.6 / 17.1: valid means
// 0 <= start <= end <= length).
const (
	zzC14BValid   = 0
	zzC14BNegS    = 1 // start < 0
	zzC14BNegE    = 2 // end < 0
	zzC14BEndBig  = 3 // end > length
	zzC14BStartGt = 4 // start > end (end <= length; covers start > length)
)

var zzC14BName = [...]string{"valid", "start<0", "end<0", "end>length", "start>end"}

// bounds returns the effective [s,e) and the class of the designators.
func (c *zzC14Call) bounds() (s, e int64, cls int) {
	e = int64(c.n)
	if c.hasS {
		s = c.start
	}
	if c.endMode == 2 {
		e = c.end
	}
	switch {
	case s < 0:
		cls = zzC14BNegS
	case e < 0:
		cls = zzC14BNegE
	case int64(c.n) < e:
		cls = zzC14BEndBig
	case e < s:
		cls = zzC14BStartGt
	}
	return
}

// sat is the reference "element i satisfies the test": test(item, key(e_i)).
// pred: the one argument predicate form (-if functions): pred(key(e_i)).
func (c *zzC14Call) sat(i int, pred bool) bool {
	km := c.keyMode
	if km == 8 {
		km = 2 // the primary value of (values (1+ x) 0)
	}
	k, keyCh := zzC14Key(c.kind, km, c.vals[i])
	if pred {
		return zzC14Pred1(k, keyCh)
	}
	return zzC14Test2(c.tstMode, c.item, c.itemCh, k, keyCh)
}

func (c *zzC14Call) fromEnd() bool { return c.feMode == 2 }

// limit is the effective :count (number of matches acted on).
func (c *zzC14Call) limit() int64 {
	if c.cntMode == 2 {
		if c.count < 0 {
			return 0
		}
		return c.count
	}
	return int64(c.n) + 1
}

// ---- result comparison ----

// zzC14IsElem: obj is the element object for value v.
func zzC14IsElem(kind int, obj slip.Object, v int64) bool {
	if kind == zzC14String {
		ch, ok := obj.(slip.Character)
		return ok && int64(ch) == v
	}
	f, ok := obj.(slip.Fixnum)
	return ok && int64(f) == v
}

// zzC14IsSeq: obj is a sequence of the given kind with exactly the values want.
func zzC14IsSeq(kind int, obj slip.Object, want []int64) bool {
	switch kind {
	case zzC14List:
		if obj == nil {
			return len(want) == 0
		}
		list, ok := obj.(slip.List)
		if !ok || len(list) != len(want) {
			return false
		}
		for i := range want {
			if !zzC14IsElem(kind, list[i], want[i]) {
				return false
			}
		}
		return true
	case zzC14Vector:
		vec, ok := obj.(*slip.Vector)
		if !ok {
			return false
		}
		list := vec.AsList()
		if len(list) != len(want) {
			return false
		}
		for i := range want {
			if !zzC14IsElem(kind, list[i], want[i]) {
				return false
			}
		}
		return true
	}
	str, ok := obj.(slip.String)
	if !ok {
		return false
	}
	bs := []byte(string(str))
	if len(bs) != len(want) {
		return false
	}
	for i := range want {
		if int64(bs[i]) != want[i] {
			return false
		}
	}
	return true
}

// zzC14Check does the common part: classify, demand a Lisp error for invalid
// bounds, never a Go fault; returns true when a value must be compared.
func zzC14Check(fam string, out zzC14Out, cls int) bool {
	vrt.Assert(out.class != zzC14Fault, fam+": Go run-time fault (C09) escaped, bounds "+zzC14BName[cls])
	vrt.Assert(out.class != zzC14Other, fam+": non-Lisp panic, bounds "+zzC14BName[cls])
	if cls != zzC14BValid {
		vrt.Reach("invalid-bounds")
		vrt.Assert(out.class == zzC14Cond, fam+": invalid bounding indices accepted without a Lisp error: "+zzC14BName[cls])
		return false
	}
	vrt.Reach("compared")
	vrt.Assert(out.class == zzC14Value, fam+": Lisp error for a valid call")
	return true
}

// ---- reference implementations ----

// zzC14RefPos: index of the first (last with from-end) satisfying element in
// [s,e), or -1.
func zzC14RefPos(c *zzC14Call, s, e int64, pred bool) int {
	pos := -1
	for i := 0; i < c.n; i++ {
		if int64(i) < s || e <= int64(i) {
			continue
		}
		if c.sat(i, pred) {
			if c.fromEnd() {
				pos = i
			} else if pos < 0 {
				pos = i
			}
		}
	}
	return pos
}

// zzC14RefKeep: which elements survive remove/delete.
func zzC14RefKeep(c *zzC14Call, s, e int64, pred bool) []bool {
	keep := make([]bool, c.n)
	lim := c.limit()
	var done int64
	for j := 0; j < c.n; j++ {
		i := j
		if c.fromEnd() {
			i = c.n - 1 - j
		}
		keep[i] = true
		if int64(i) < s || e <= int64(i) {
			continue
		}
		if done < lim && c.sat(i, pred) {
			keep[i] = false
			done++
		}
	}
	return keep
}

// ---- entries ----

// VerifC14Find: (find item seq ...) and (find-if pred seq ...).
func VerifC14Find(kind, n, keyMode, tstMode, ifForm int) {
	c := zzC14NewCall(kind, n, keyMode, tstMode, false)
	s, e, cls := c.bounds()
	zzC14Carves(c, "find", s, e, cls)
	scope := slip.NewScope()
	var out zzC14Out
	if ifForm != 0 {
		out = zzC14Eval(scope, c.form("find-if", zzC14Quote(zzC14NewFn(4))))
	} else {
		out = zzC14Eval(scope, c.form("find", c.itemObj()))
	}
	if !zzC14Check("find", out, cls) {
		return
	}
	pos := zzC14RefPos(c, s, e, ifForm != 0)
	if pos < 0 {
		vrt.Assert(out.val == nil, "find: no element satisfies the test but a value was returned")
	} else {
		vrt.Assert(zzC14IsElem(c.kind, out.val, c.vals[pos]), "find: wrong element")
	}
}

// VerifC14Position: (position item seq ...) and (position-if pred seq ...).
func VerifC14Position(kind, n, keyMode, tstMode, ifForm int) {
	c := zzC14NewCall(kind, n, keyMode, tstMode, false)
	s, e, cls := c.bounds()
	zzC14Carves(c, "position", s, e, cls)
	scope := slip.NewScope()
	var out zzC14Out
	if ifForm != 0 {
		out = zzC14Eval(scope, c.form("position-if", zzC14Quote(zzC14NewFn(4))))
	} else {
		out = zzC14Eval(scope, c.form("position", c.itemObj()))
	}
	if !zzC14Check("position", out, cls) {
		return
	}
	pos := zzC14RefPos(c, s, e, ifForm != 0)
	if pos < 0 {
		vrt.Assert(out.val == nil, "position: no element satisfies the test but a value was returned")
	} else {
		f, ok := out.val.(slip.Fixnum)
		vrt.Assert(ok && int64(f) == int64(pos), "position: wrong index")
	}
}

// VerifC14Count: (count item seq ...) and (count-if pred seq ...).
func VerifC14Count(kind, n, keyMode, tstMode, ifForm int) {
	c := zzC14NewCall(kind, n, keyMode, tstMode, false)
	s, e, cls := c.bounds()
	zzC14Carves(c, "count", s, e, cls)
	scope := slip.NewScope()
	var out zzC14Out
	if ifForm != 0 {
		out = zzC14Eval(scope, c.form("count-if", zzC14Quote(zzC14NewFn(4))))
	} else {
		out = zzC14Eval(scope, c.form("count", c.itemObj()))
	}
	if !zzC14Check("count", out, cls) {
		return
	}
	var want int64
	for i := 0; i < c.n; i++ {
		if s <= int64(i) && int64(i) < e && c.sat(i, ifForm != 0) {
			want++
		}
	}
	f, ok := out.val.(slip.Fixnum)
	vrt.Assert(ok && int64(f) == want, "count: wrong number")
}

// VerifC14Remove: remove / remove-if / delete / delete-if (fn selects).
func VerifC14Remove(kind, n, keyMode, tstMode, fn int) {
	c := zzC14NewCall(kind, n, keyMode, tstMode, true)
	s, e, cls := c.bounds()
	zzC14Carves(c, "remove", s, e, cls)
	scope := slip.NewScope()
	var out zzC14Out
	name := [...]string{"remove", "remove-if", "delete", "delete-if"}[fn]
	pred := fn == 1 || fn == 3
	if pred {
		out = zzC14Eval(scope, c.form(name, zzC14Quote(zzC14NewFn(4))))
	} else {
		out = zzC14Eval(scope, c.form(name, c.itemObj()))
	}
	if !zzC14Check("remove", out, cls) {
		return
	}
	keep := zzC14RefKeep(c, s, e, pred)
	var want []int64
	for i := 0; i < c.n; i++ {
		if keep[i] {
			want = append(want, c.vals[i])
		}
	}
	vrt.Assert(zzC14IsSeq(c.kind, out.val, want), name+": wrong result sequence")
}

// VerifC14Substitute: substitute / substitute-if / nsubstitute / nsubstitute-if.
func VerifC14Substitute(kind, n, keyMode, tstMode, fn int) {
	c := zzC14NewCall(kind, n, keyMode, tstMode, true)
	s, e, cls := c.bounds()
	zzC14Carves(c, "substitute", s, e, cls)
	var newv int64
	var newObj slip.Object
	if kind == zzC14String {
		b := vrt.Byte("newc")
		vrt.Assume(b < 128)
		newv = int64(b)
		newObj = slip.Character(rune(b))
	} else {
		newv = vrt.Int64("new")
		newObj = slip.Fixnum(newv)
	}
	scope := slip.NewScope()
	name := [...]string{"substitute", "substitute-if", "nsubstitute", "nsubstitute-if"}[fn]
	pred := fn == 1 || fn == 3
	form := slip.List{slip.Symbol(name), newObj}
	if pred {
		form = append(form, zzC14Quote(zzC14NewFn(4)))
	} else {
		form = append(form, c.itemObj())
	}
	form = append(form, zzC14Quote(zzC14Seq(c.kind, c.vals)))
	form = append(form, c.keywords()...)
	out := zzC14Eval(scope, form)
	if !zzC14Check(name, out, cls) {
		return
	}
	keep := zzC14RefKeep(c, s, e, pred)
	want := make([]int64, c.n)
	for i := 0; i < c.n; i++ {
		if keep[i] {
			want[i] = c.vals[i]
		} else {
			want[i] = newv
		}
	}
	vrt.Assert(zzC14IsSeq(c.kind, out.val, want), name+": wrong result sequence")
}

// zzC14Carves: regions of known findings shared by the item/-if families (see
// known_findings.d/C14.txt); fam names the family.
func zzC14Carves(c *zzC14Call, fam string, s, e int64, cls int) {
	// a :key function that returns two values: the whole values object is
	// compared instead of the primary value
	vrt.Carve("C14-key-multiple-values", c.keyMode == 8)
	// :count nil is the CLHS default ("integer or nil") but slip rejects it
	vrt.Carve("C14-valid-args-rejected", c.cntMode == 1 && fam == "remove")
	// (one Carve call per id and path: in a probe run every call with the
	// probed id assumes its region)
	// :end beyond the length is silently clamped to the length
	inv := cls == zzC14BEndBig
	// :start beyond :end (or beyond the length) is silently an empty range;
	// find/position slice the sequence and so signal an error (with the text
	// of a Go slice fault) unless start >= length
	switch fam {
	case "find", "position":
		inv = inv || (cls == zzC14BStartGt && int64(c.n) <= s)
	default:
		inv = inv || cls == zzC14BStartGt
	}
	if fam == "substitute" {
		// a negative :start is clamped to 0, a negative :end means "the length"
		inv = inv || cls == zzC14BNegS || cls == zzC14BNegE
	}
	vrt.Carve("C14-invalid-bounds-accepted", inv)
	if fam == "substitute" {
		// what remains of C14-invalid-bounds-accepted after its repair: the
		// existing tests pin that a negative :start is clamped to 0
		vrt.Carve("C14-substitute-negative-start-accepted", cls == zzC14BNegS)
		// :count is decremented per element examined, not per substitution;
		// 0 still substitutes once, a negative count means "all"
		vrt.Carve("C14-substitute-count-per-examined", c.cntMode == 2 && s < e && c.count < e-s)
	}
}

/*
obligations.d/C14.json is generated by the following Python script (kept here
because the case lists are long; edit the script, not the JSON):

import json, sys
OV={"(*github.com/ohler55/slip.Panic).AppendToStack": "github.com/ohler55/slip.zzC14StubAppendToStack",
    "github.com/ohler55/slip.WrapError": "github.com/ohler55/slip.zzC14StubWrapError"}
STUB=(" Stubs (engine only): (*Panic).AppendToStack and WrapError keep everything except the printed text of the call in the stack trace "
      "(printing symbolic fixnums forks per digit count; C14 never reads that text).")
COMMON=("Forms are built as objects and evaluated through the real registry (scope.Eval). Element values, item, new value, :start/:end/:count "
        "(each within [-1, length+1] so that every class of invalid bound occurs) are symbolic: lists/vectors hold unrestricted 64-bit fixnums, "
        "strings symbolic ASCII characters (< 128). Length(s), sequence type (0 list, 1 vector, 2 string), the :key/:test callers are case parameters; "
        "presence of optional keywords (absent / nil / value) is a vrt.Choice (the explicit nil forms of :from-end and :count are combined with absent bounds only; two-sequence functions use 9 presence shapes of :start1 :end1 :start2 :end2). "
        ":key/:test/predicates are harness-defined slip function objects "
        "(identity, 1+, non-injective ash -1, asymmetric <, =, positive-p). Oracle: CLHS 17.2/17.3 definitions on plain int64 slices, index based. "
        "Invalid bounding indices must give a Lisp condition, valid calls a value; regions of known findings (known_findings.d/C14.txt) are excluded by vrt.Carve and probed separately.")
def ob(id, entry, quick, thorough, note, reach=["compared"], carves=[]):
    return {"id": id, "property": "C14", "pkg": "pkg/cl", "entry": entry,
            "cases": {"quick": quick, "thorough": thorough}, "reach": reach,
            "max_depth": 400, "max_steps": 20000000, "solver_timeout_ms": 10000,
            "carves": carves, "overrides": OV, "note": note+" "+COMMON+STUB,
            "assumptions": ["string elements are ASCII (one byte per character) except the fixed first character of C14.count-multibyte",
                            "bounds, :count restricted to [-1, length+1]",
                            "sort.Slice/SliceStable modelled as insertion sort (exact below 12 elements)"]}
KT_ITEM=[(0,0),(1,0),(2,0),(6,0),(0,3),(2,3),(0,5)]
KT_IF=[(0,0),(1,0),(2,0)]
def fam(kinds, ns, last_item, last_if):
    out=[]
    for k in kinds:
        for n in ns:
            for l in last_item:
                for km,tm in KT_ITEM: out.append([k,n,km,tm,l])
            for l in last_if:
                for km,tm in KT_IF: out.append([k,n,km,tm,l])
    return out
def base(kinds, ns, lasts):
    return [[k,n,0,0,l] for k in kinds for n in ns for l in lasts]
def uniq(l):
    seen=set(); out=[]
    for x in l:
        t=tuple(x)
        if t not in seen: seen.add(t); out.append(x)
    return out
spec=[]
# ---- find / position / count: last = 0 item form, 1 -if form
QF_ITEM=[[0,2,km,tm,0] for km,tm in KT_ITEM[1:]]+[[2,2,2,3,0],[2,2,0,3,0],[1,2,2,3,0]]
QF_IF=[[0,2,km,tm,1] for km,tm in KT_IF[1:]]+[[2,2,2,0,1]]
for name,entry in [("find","VerifC14Find"),("position","VerifC14Position"),("count","VerifC14Count")]:
    if name=="find":
        q=uniq(base([0],[0,1,2,3],[0,1])+base([1],[2],[0])+base([2],[1,2],[0,1])+QF_ITEM+QF_IF)
    else:
        q=uniq(base([0],[0,1,2],[0,1])+base([0],[3],[0])+base([2],[2],[0,1])+[[0,2,2,3,0],[0,2,6,0,0],[2,2,2,3,0],[0,2,2,0,1],[1,2,0,3,0]])
    t=uniq(base([0,1,2],[0,1,2,3,4],[0,1])+fam([0,1,2],[2,3],[0],[1]))
    spec.append(ob("C14."+name, entry, q, t, "(%s item seq ...) and (%s-if pred seq ...) with :start :end :from-end :key :test; params kind,n,keyMode,testMode,ifForm."%(name,name)))
spec.append(ob("C14.count-multibyte","VerifC14CountMB",[[n,f] for n in [0,1,2] for f in [0,1]],[[n,f] for n in [0,1,2,3] for f in [0,1]],"count / count-if on a string whose first character is the two byte character e-acute followed by n symbolic ASCII characters (indices are character indices); params n,ifForm."))
# ---- remove/delete: last 0 remove 1 remove-if 2 delete 3 delete-if
q=uniq(base([0],[0,1,2,3],[0])+base([0],[1,2],[1])+base([0],[2],[2,3])+base([1],[2],[0])+base([2],[2],[0,1])+[[0,2,2,3,0],[0,2,6,0,0],[0,2,0,5,0],[2,2,2,3,0],[0,2,2,0,1],[0,2,1,0,2]])
t=uniq(base([0],[0,1,2,3,4],[0,1,2,3])+base([1,2],[0,1,2,3],[0,1,2,3])+fam([0,2],[2,3],[0,2],[1,3])+fam([1],[2],[0],[1]))
spec.append(ob("C14.remove","VerifC14Remove",q,t,"remove, remove-if, delete, delete-if with :start :end :from-end :count :key :test; params kind,n,keyMode,testMode,fn."))
# ---- substitute
q=uniq(base([0],[0,1,2],[0])+base([0],[2],[1,2])+base([0],[1],[3])+base([1],[1],[0])+base([2],[2],[0])+base([2],[1],[1])+[[0,2,2,3,0],[0,1,6,0,0],[2,1,2,3,0]])
t=uniq(base([0],[0,1,2,3,4],[0,1,2,3])+base([1,2],[0,1,2,3],[0,1,2,3])+fam([0,2],[2,3],[0,2],[1,3])+fam([1],[2],[0],[1]))
spec.append(ob("C14.substitute","VerifC14Substitute",q,t,"substitute, substitute-if, nsubstitute, nsubstitute-if (new value symbolic) with :start :end :from-end :count :key :test; params kind,n,keyMode,testMode,fn."))
# ---- remove-duplicates: equivalence tests only
RD=[(0,0),(2,5),(6,0),(6,5)]
q=[[0,n,0,0,0] for n in [0,1,2,3]]+[[2,n,0,0,0] for n in [1,2]]+[[0,2,km,tm,0] for (km,tm) in RD]+[[0,2,0,0,1],[1,2,0,0,0],[2,2,6,5,1]]
t=[[k,n,km,tm,f] for k in [0,1,2] for n in [0,1,2,3,4] for (km,tm) in RD for f in [0,1]]
spec.append(ob("C14.remove-duplicates","VerifC14RemoveDuplicates",uniq(q),t,"remove-duplicates / delete-duplicates with :start :end :from-end :key :test; the test is an equivalence (equal or =), because for other tests the standard does not fix which pairs are compared; params kind,n,keyMode,testMode,fn."))
# ---- member / assoc
MKT=[(0,0),(2,0),(6,0),(0,3),(2,3)]
q=[[n,km,tm,f] for n in [0,1,2,3] for (km,tm) in MKT for f in [0,1] if not (f==1 and tm)]
t=[[n,km,tm,f] for n in [0,1,2,3,4,5] for (km,tm) in MKT for f in [0,1] if not (f==1 and tm)]
spec.append(ob("C14.member","VerifC14Member",q,t,"(member item list :key :test), (member-if pred list :key): the tail from the first satisfying element; params n,keyMode,testMode,fn."))
def assoc(ns):
    return [[n,km,tm,f,na] for n in ns for (km,tm) in MKT for f in [0,1,2,3,4] for na in range(n+1) if not (f in (1,2,4) and tm)]
spec.append(ob("C14.assoc","VerifC14Assoc",[c for c in assoc([0,1,2]) if c[0]<2 or c[1:3] in ([0,0],[2,3],[6,0])],assoc([0,1,2,3,4]),"assoc, assoc-if, assoc-if-not, rassoc, rassoc-if on an alist of n conses (k . v) with symbolic k, v; nilAt < n inserts a nil entry that must be skipped; params n,keyMode,testMode,fn,nilAt."))
# ---- search / mismatch / replace
MN_Q=[(0,0),(0,2),(1,1),(1,2),(2,2),(2,1)]
MN_T=[(0,0),(0,1),(0,2),(1,0),(1,1),(1,2),(2,1),(2,2),(1,3),(2,3),(3,2),(3,3),(2,4)]
SKT=[(0,0),(2,0),(0,3),(6,5)]
q=[[0,m,n,0,0] for (m,n) in [(1,2),(2,2)]]+[[2,1,2,0,0],[0,1,2,2,3]]
t=[[k,m,n,km,tm] for k in [0,1,2] for (m,n) in MN_T for (km,tm) in SKT if ((km,tm)==(0,0) and (k==0 or m+n<=5)) or (m,n) in [(1,2),(2,2)] or (k==0 and (m,n)==(2,3))]
spec.append(ob("C14.search","VerifC14Search",q,t,"(search seq1 seq2 :start1 :end1 :start2 :end2 :from-end :key :test): leftmost/rightmost match index; 9 presence shapes of the four bounds; params kind,m,n,keyMode,testMode."))
spec.append(ob("C14.mismatch","VerifC14Mismatch",q,t,"(mismatch seq1 seq2 :start1 :end1 :start2 :end2 :from-end :key :test): CLHS index relative to sequence-1; params kind,m,n,keyMode,testMode."))
qa=[[k,3,n,fe,0] for k in [0,1,2] for n in [4,5] for fe in [0,1]]+[[0,3,4,0,1],[0,3,4,1,1],[2,3,5,1,1],[1,4,3,0,1]]
ta=[[k,m,n,fe,0] for k in [0,1,2] for (m,n) in [(3,4),(3,5),(3,6),(4,5),(4,6)] for fe in [0,1]]+[[k,m,n,fe,1] for k in [0,1,2] for (m,n) in [(3,4),(4,3),(3,5),(4,6)] for fe in [0,1]]
spec.append(ob("C14.search-alphabet","VerifC14SearchAlpha",qa,ta,"search (fn 0) and mismatch (fn 1) with pattern length m >= 3 in a sequence of length n >= 4 (quick 3x4, 3x5; thorough up to 4x6) whose elements are symbolic but assumed to come from a two value alphabet (0/1, or #\\a/#\\b for strings): every repetition pattern is explored, in particular self-overlapping patterns where the real match overlaps an earlier partial match, e.g. (search '(a a b) '(a a a b)) => 1; no bounds, no :key/:test; params kind,m,n,fromEnd,fn."))
q=[[0,m,n] for (m,n) in [(0,0),(0,1),(1,1),(2,1),(1,2)]]+[[1,2,1],[2,2,1]]
t=[[k,m,n] for k in [0,1,2] for (m,n) in MN_T]
spec.append(ob("C14.replace","VerifC14Replace",q,t,"(replace seq1 seq2 :start1 :end1 :start2 :end2): result (and for lists/vectors the modified argument) equals the reference; params kind,m,n."))
# ---- subseq / fill / reverse
q=[[k,n] for k in [0,1,2] for n in [0,1,2,3]]
t=[[k,n] for k in [0,1,2] for n in [0,1,2,3,4,5]]
spec.append(ob("C14.subseq","VerifC14Subseq",q,t,"(subseq seq start [end]) incl. the no-shared-storage requirement (the result is overwritten and the argument re-read); params kind,n."))
spec.append(ob("C14.fill","VerifC14Fill",q,t,"(fill seq item :start :end); params kind,n."))
q=[[k,n,f] for k in [0,1,2] for n in [0,1,2,3,4] for f in [0,1,2]]
t=[[k,n,f] for k in [0,1,2] for n in [0,1,2,3,4,5,6] for f in [0,1,2]]
spec.append(ob("C14.reverse","VerifC14Reverse",q,t,"reverse, nreverse, copy-seq; params kind,n,fn."))
# ---- sort / merge
q=[[k,n,km,f] for k in [0,1,2] for n in [0,1,2,3] for km in [0,2,6] for f in [0,1] if not (f==0 and km==6) and not (k!=0 and n<2)]
t=[[k,n,km,f] for k in [0,1,2] for n in [0,1,2,3,4,5] for km in [0,2,6] for f in [0,1] if not (f==0 and km==6)]
spec.append(ob("C14.sort","VerifC14Sort",q,t,"(sort seq < :key k) and (stable-sort seq < :key k): the result equals the reference stable insertion sort (with an injective key the ordered permutation is unique, so this is 'permutation and ordered'; with the non-injective key only stable-sort is run: equal keys keep input order); params kind,n,keyMode,fn."))
q=[[k,m,n,km] for k in [0,2] for (m,n) in [(0,0),(0,1),(1,0),(1,1),(2,1),(1,2)] for km in [0,6]]+[[1,1,1,6],[0,2,2,6]]
t=[[k,m,n,km] for k in [0,1,2] for (m,n) in [(0,0),(0,1),(1,0),(1,1),(2,1),(1,2),(2,2),(3,2),(2,3),(3,3)] for km in [0,2,6]]
spec.append(ob("C14.merge","VerifC14Merge",q,t,"(merge result-type seq1 seq2 < :key k) with both inputs assumed sorted: stable merge (sequence-1 first on ties); params kind,m,n,keyMode."))
# ---- sets
SET_KT=[(0,0),(6,0),(2,5)]
q=[[m,n,km,tm,f] for (m,n) in [(0,0),(0,1),(1,0),(1,1),(2,1),(1,2),(2,2)] for (km,tm) in SET_KT for f in [0,1,2,3]]
t=[[m,n,km,tm,f] for (m,n) in [(0,0),(0,1),(1,0),(1,1),(2,1),(1,2),(2,2),(3,2),(2,3),(3,3)] for (km,tm) in SET_KT for f in [0,1,2,3]]
spec.append(ob("C14.set","VerifC14Set",q,t,"union, intersection, set-difference, subsetp with :key/:test (equivalences); lists assumed duplicate-free under the test; the result is compared as a set (order and which of two matching elements is kept are unspecified); params m,n,keyMode,testMode,fn."))
# ---- every/some
q=[[k,m,n,two,f] for k in [0,1,2] for (m,n,two) in [(0,0,0),(2,0,0),(3,0,0),(0,1,1),(2,1,1),(2,2,1)] for f in [0,1,2,3] if k==0 or (m,n,two) in [(2,0,0),(2,1,1)]]
t=[[k,m,n,two,f] for k in [0,1,2] for (m,n,two) in [(0,0,0),(1,0,0),(2,0,0),(3,0,0),(4,0,0),(5,0,0),(0,1,1),(2,1,1),(1,2,1),(2,2,1),(3,3,1),(4,3,1)] for f in [0,1,2,3]]
spec.append(ob("C14.every","VerifC14Every",q,t,"every, some, notany, notevery over one sequence (one argument predicate) or two sequences (two argument predicate, stops at the shorter); params kind,m,n,two,fn."))
# ---- reduce / map / concatenate
q=[[0,n,0] for n in [0,1,2,3]]+[[2,1,0],[2,2,0],[0,2,2],[1,2,2],[2,2,2]]
t=[[k,n,km] for k in [0,1,2] for n in [0,1,2,3,4] for km in [0,2]]
spec.append(ob("C14.reduce","VerifC14Reduce",q,t,"(reduce f seq :start :end :from-end :initial-value :key) with f = (lambda (&optional a b) ...) returning 7 for no arguments and a-b otherwise; also checks that the argument is not modified; params kind,n,keyMode."))
q=[[k,m,n,two,f] for k in [0,1,2] for (m,n,two) in [(0,0,0),(1,0,0),(2,0,0),(0,1,1),(2,1,1),(1,2,1),(2,2,1)] for f in [0,1,2] if not (f==2 and k!=0)]
t=[[k,m,n,two,f] for k in [0,1,2] for (m,n,two) in [(0,0,0),(1,0,0),(2,0,0),(3,0,0),(4,0,0),(0,1,1),(2,1,1),(1,2,1),(2,2,1),(3,3,1),(4,2,1)] for f in [0,1,2] if not (f==2 and k!=0)]
spec.append(ob("C14.map","VerifC14Map",q,t,"(map 'list|'vector f seq [seq2]) and (mapcar f list [list2]) with f = 1+ or a-b; params kind,m,n,two,fn."))
q=[[rt,k1,k2,m,n] for rt in [0,1] for k1 in [0,1,2] for k2 in [0,1,2] for (m,n) in [(0,0),(1,2),(2,1)]]+[[2,2,2,m,n] for (m,n) in [(0,0),(0,1),(1,2),(2,1)]]
t=[[rt,k1,k2,m,n] for rt in [0,1] for k1 in [0,1,2] for k2 in [0,1,2] for (m,n) in [(0,0),(0,2),(1,2),(2,1),(3,3)]]+[[2,2,2,m,n] for (m,n) in [(0,0),(0,1),(1,2),(2,1),(3,3)]]
spec.append(ob("C14.concatenate","VerifC14Concatenate",q,t,"(concatenate 'list|'vector|'string seq1 seq2) over all pairs of argument types; params resultType,kind1,kind2,m,n."))
# ---- probe obligations: one small case inside the region of each known finding
KF=[("C14-invalid-bounds-accepted","VerifC14Count",[0,1,0,0,0]),
    ("C14-valid-args-rejected","VerifC14Fill",[0,1]),
    ("C14-substitute-count-per-examined","VerifC14Substitute",[0,2,0,0,0]),
    ("C14-assoc-test-args-swapped","VerifC14Assoc",[1,0,3,0,1]),
    ("C14-search-wrong-index","VerifC14Search",[0,1,1,0,0]),
    ("C14-mismatch-from-end-index","VerifC14Mismatch",[0,2,2,0,0]),
    ("C14-subseq-shares-storage","VerifC14Subseq",[0,2]),
    ("C14-merge-not-stable","VerifC14Merge",[0,1,1,6]),
    ("C14-reduce-empty-and-key","VerifC14Reduce",[0,1,2]),
    ("C14-key-multiple-values","VerifC14Find",[0,1,8,0,0]),
    ("C14-substitute-negative-start-accepted","VerifC14Substitute",[0,1,0,0,0]),
    ("C14-fill-bounds-equal-length","VerifC14Fill",[0,2]),
    ("C14-reduce-empty-not-called","VerifC14Reduce",[0,1,0])]
# the probe cases also run in the main run (region excluded): drop the same case from the regular quick lists
for o in spec:
    o["cases"]["quick"]=[c for c in o["cases"]["quick"] if not any(e==o["entry"] and c==k for _,e,k in KF)]
for kid,entry,case in KF:
    spec.append(ob("C14.known."+kid[4:], entry, [case],[case], "Probe case for the known finding %s: the engine must still find a natively reproducing violation inside the carved region (the same Carve call excludes the region in every other obligation)."%kid, reach=[], carves=[kid]))
for o in spec:
    if o["entry"] in ("VerifC14Search","VerifC14Mismatch","VerifC14Replace"):
        o["solver_timeout_ms"]=30000
json.dump(spec, open('/verif/harness/obligations.d/C14.json','w'), indent=1)
for tier in ("quick","thorough"):
    print(tier, sum(len(o["cases"][tier]) for o in spec), {o["id"][4:]:len(o["cases"][tier]) for o in spec if not o["id"].startswith("C14.known")})

*/
