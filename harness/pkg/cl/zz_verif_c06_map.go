package cl

import (
	"strconv"

	"github.com/ohler55/slip"
	vrt "github.com/ohler55/slip/zzvrt"
)

// C06, results of successive calls made by a mapping function: the lists (and
// &rest lists) a function returns for one position are independent of those it
// returns for the next position, although the mapping functions call it with
// an argument buffer of their own.
//
//	(MAP F '(a0 .. an-1) '(b0 .. bn-1))  ->  element i is built from ai and bi only
//
// fk (the function): 0 #'cons  1 #'list  2 (lambda (&rest r) r)  3 (lambda (a &rest r) (cons a r))
//	4 (lambda (a b) (list a b))  5 #'list*  6 (lambda (a b &rest r) (list* a b r))  7 #'vector
// mk (the mapping form): 0 (mapcar F l1 l2)  1 (map 'list F l1 l2)  2 mapc, collecting with (setq acc (cons (funcall F a b) acc))
//	is not a buffer user: instead 2 = (mapcar F l1 l2 l3) three lists  3 (let (acc) (mapc (lambda (a b) (setq acc (cons (F a b) acc))) l1 l2) acc)
//	4 (maplist (lambda (x y) (F (car x) (car y))) l1 l2)
func VerifC06MapBuffer(fk, mk, n int) {
	S := func(s string) slip.Object { return slip.Symbol(s) }
	Q := func(o slip.Object) slip.Object { return slip.List{S("quote"), o} }
	a := make([]int64, n)
	b := make([]int64, n)
	c := make([]int64, n)
	var l1, l2, l3 slip.List
	for i := 0; i < n; i++ {
		a[i] = int64(vrt.Int32("a" + strconv.Itoa(i)))
		b[i] = int64(vrt.Int32("b" + strconv.Itoa(i)))
		c[i] = int64(vrt.Int32("c" + strconv.Itoa(i)))
		l1 = append(l1, slip.Fixnum(a[i]))
		l2 = append(l2, slip.Fixnum(b[i]))
		l3 = append(l3, slip.Fixnum(c[i]))
	}
	three := mk == 2
	var f slip.Object
	switch fk {
	case 0:
		f = slip.List{S("function"), S("cons")}
	case 1:
		f = slip.List{S("function"), S("list")}
	case 2:
		f = slip.List{S("lambda"), slip.List{S("&rest"), S("r")}, S("r")}
	case 3:
		f = slip.List{S("lambda"), slip.List{S("a"), S("&rest"), S("r")}, slip.List{S("cons"), S("a"), S("r")}}
	case 4:
		f = slip.List{S("lambda"), slip.List{S("a"), S("b"), S("&optional"), S("c")}, slip.List{S("list"), S("a"), S("b")}}
	case 5:
		f = slip.List{S("function"), S("list*")}
	case 6:
		f = slip.List{S("lambda"), slip.List{S("a"), S("b"), S("&rest"), S("r")}, slip.List{S("list*"), S("a"), S("b"), S("r")}}
	default:
		f = slip.List{S("function"), S("vector")}
	}
	vrt.Assume(!(three && fk == 0)) // cons takes two arguments
	var form slip.Object
	switch mk {
	case 0:
		form = slip.List{S("mapcar"), f, Q(l1), Q(l2)}
	case 1:
		form = slip.List{S("map"), Q(S("list")), f, Q(l1), Q(l2)}
	case 2:
		form = slip.List{S("mapcar"), f, Q(l1), Q(l2), Q(l3)}
	case 3:
		form = slip.List{S("let"), slip.List{slip.List{S("acc"), nil}},
			slip.List{S("mapc"), slip.List{S("lambda"), slip.List{S("a"), S("b")},
				slip.List{S("setq"), S("acc"), slip.List{S("cons"), slip.List{S("funcall"), f, S("a"), S("b")}, S("acc")}}}, Q(l1), Q(l2)},
			slip.List{S("reverse"), S("acc")}}
	default:
		form = slip.List{S("maplist"), slip.List{S("lambda"), slip.List{S("x"), S("y")},
			slip.List{S("funcall"), f, slip.List{S("car"), S("x")}, slip.List{S("car"), S("y")}}}, Q(l1), Q(l2)}
	}
	scope := slip.NewScope()
	var res slip.Object
	class := 0
	func() {
		defer func() {
			if rec := recover(); rec != nil {
				class = 1
				if _, isRT := rec.(interface{ RuntimeError() }); isRT {
					class = 3
				}
			}
		}()
		res = scope.Eval(form, 0)
	}()
	vrt.Reach("mapped")
	vrt.Assert(class != 3, "Go run-time fault")
	vrt.Assert(class == 0, "the mapping form signals")
	out, ok := res.(slip.List)
	vrt.Assert(ok && len(out) == n, "the mapping form does not return one element per position")
	fix := func(o slip.Object, want int64, msg string) {
		if t, isTail := o.(slip.Tail); isTail {
			o = t.Value
		}
		v, isF := o.(slip.Fixnum)
		vrt.Assert(isF && int64(v) == want, msg)
	}
	for i := 0; i < n; i++ {
		var el []slip.Object
		switch t := out[i].(type) {
		case slip.List:
			el = t
		case *slip.Vector:
			el = t.AsList()
		default:
			vrt.Assert(false, "element of the result is neither a list nor a vector")
		}
		want := 2
		if three && fk != 4 {
			want = 3
		}
		vrt.Assert(len(el) == want, "a result element has the wrong length")
		fix(el[0], a[i], "a list returned for one position holds the argument of another position (first)")
		fix(el[1], b[i], "a list returned for one position holds the argument of another position (second)")
		if want == 3 {
			fix(el[2], c[i], "a list returned for one position holds the argument of another position (third)")
		}
	}
}
