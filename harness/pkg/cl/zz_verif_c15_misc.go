package cl

import (
	"github.com/ohler55/slip"
	vrt "github.com/ohler55/slip/zzvrt"
)

// ---------------------------------------------------------------------------
// C15: ~T, ~C, ~A/~S against princ/prin1, ~D with a non-integer, ~nR,
// destinations, compositions, scanner adjacency.
// ---------------------------------------------------------------------------

var zzC15TabPrefix = [...]string{"", "ab", "abcdef", "ab\ncd", "abcdefghij\n"}

// zzC15Column: characters after the last newline.
func zzC15Column(s string) int {
	col := 0
	for i := 0; i < len(s); i++ {
		if s[i] == '\n' {
			col = 0
		} else {
			col++
		}
	}
	return col
}

// VerifC15Tab: "<prefix>~colnum,colincT|" (at == 0) or "~colrel,colinc@T".
// pm0 / pm1: how colnum / colinc are supplied (0 omitted, 1 literal, 2 v);
// both symbolic in 0..12.  CLHS 22.3.6.1.
func VerifC15Tab(at, pm0, pm1, pre int) {
	ctrl := []byte(zzC15TabPrefix[pre])
	col := zzC15Column(zzC15TabPrefix[pre])
	ctrl = append(ctrl, '~')
	var args slip.List
	colnum, colinc := 1, 1
	switch pm0 {
	case 1:
		colnum = zzC15Small("colnum", 0, 12)
		ctrl = zzC15AppendNum(ctrl, colnum)
	case 2:
		colnum = zzC15Small("colnum", 0, 12)
		ctrl = append(ctrl, 'v')
		args = append(args, slip.Fixnum(colnum))
	}
	if pm1 != 0 {
		ctrl = append(ctrl, ',')
		colinc = zzC15Small("colinc", 0, 12)
		if pm1 == 1 {
			ctrl = zzC15AppendNum(ctrl, colinc)
		} else {
			ctrl = append(ctrl, 'v')
			args = append(args, slip.Fixnum(colinc))
		}
	}
	if at != 0 {
		ctrl = append(ctrl, '@')
	}
	ctrl = append(ctrl, 'T', '|')
	nargs := len(args)
	args = append(args, slip.Fixnum(7))
	// oracle
	spaces := 0
	if at == 0 {
		switch {
		case col < colnum:
			spaces = colnum - col
		case colinc != 0:
			spaces = colinc - (col-colnum)%colinc
		}
	} else {
		spaces = colnum
		if colinc != 0 {
			spaces += (colinc - (col+colnum)%colinc) % colinc
		}
	}
	want := []byte(zzC15TabPrefix[pre])
	for i := 0; i < spaces; i++ {
		want = append(want, ' ')
	}
	want = append(want, '|')
	slipColnum := colnum
	if pm0 == 0 {
		slipColnum = 0
	}
	// C15-T-colinc (colinc 0: integer divide by zero) is repaired; what remains of
	// its region is the colnum*colinc target of the form without @ (for colinc 0
	// slip now writes no spaces, which is right once the cursor has reached colnum)
	vrt.Carve("C15-T-colinc", (at == 0 && colinc != 1) || (at != 0 && colinc == 0))
	vrt.Carve("C15-T-colnum-times-colinc", at == 0 && colinc != 1 && !(colinc == 0 && colnum <= col))
	vrt.Carve("C15-T-boundary-defaults", (at == 0 && colinc == 1 && slipColnum == col) || (at != 0 && pm0 == 0 && colinc != 0))
	got := zzC15Process(slip.NewScope(), ctrl, args)
	vrt.Reach("compared")
	vrt.Assert(got.class != 3, "~T: Go run-time fault")
	vrt.Assert(got.class == 0, "~T signalled a condition for legal parameters")
	vrt.Assert(got.pos == nargs, "~T: arguments consumed")
	vrt.Assert(zzC15Same(got.text, want), "~T text")
}

var zzC15CharNames = [...]string{"Space", "Newline", "Tab", "Backspace", "Page", "Return", "Rubout"}
var zzC15CharCodes = [...]rune{' ', '\n', '\t', '\b', '\f', '\r', 0x7f}

// VerifC15Char: mode 0 ~C, 1 ~:C, 2 ~@C, 3 ~:@C.  kind 0: a symbolic graphic
// ASCII character 0x21..0x7e; kind 1..7: the named characters.
func VerifC15Char(mode, kind int) {
	ctrl := [...]string{"<~C>", "<~:C>", "<~@C>", "<~:@C>"}[mode]
	var ch rune
	want := []byte{'<'}
	if mode == 2 {
		want = append(want, '#', '\\')
	}
	if kind == 0 {
		b := vrt.Byte("ch")
		vrt.Assume(0x21 <= b && b <= 0x7e)
		ch = rune(b)
		want = append(want, b)
	} else {
		ch = zzC15CharCodes[kind-1]
		if mode == 0 {
			want = append(want, byte(ch))
		} else {
			want = append(want, zzC15CharNames[kind-1]...)
		}
	}
	want = append(want, '>')
	got := zzC15Process(slip.NewScope(), []byte(ctrl), slip.List{slip.Character(ch), slip.Fixnum(7)})
	vrt.Reach("compared")
	vrt.Assert(got.class != 3, "~C: Go run-time fault")
	vrt.Assert(got.class == 0, "~C signalled a condition for a character")
	vrt.Assert(got.pos == 1, "~C: arguments consumed")
	vrt.Assert(zzC15Same(got.text, want), "~C text")
}

// zzC15PoolArg: the argument pool of the ~A / ~S obligations.
//
//	0 fixnum (symbolic, |x| < 1000)   1 string of n symbolic printable bytes
//	2 symbol abc                      3 character (symbolic graphic ASCII)
//	4 nil                             5 t
//	6 list (1 "a\"b" #\c sym)         7 keyword :key
//	8 empty string                    9 list with a nested list and nil
//	10 the string a"b\c d (concrete: prin1 of a string goes through ojg, native)
func zzC15PoolArg(kind, n int) slip.Object {
	switch kind {
	case 0:
		x := vrt.Int64("x")
		vrt.Assume(-1000 < x && x < 1000)
		return slip.Fixnum(x)
	case 1:
		b := vrt.Bytes("s", n)
		for i := 0; i < n; i++ {
			vrt.Assume(0x20 <= b[i] && b[i] <= 0x7e)
		}
		return slip.String(b)
	case 2:
		return slip.Symbol("abc")
	case 3:
		b := vrt.Byte("ch")
		vrt.Assume(0x21 <= b && b <= 0x7e)
		return slip.Character(rune(b))
	case 4:
		return nil
	case 5:
		return slip.True
	case 6:
		return slip.List{slip.Fixnum(1), slip.String("a\"b"), slip.Character('c'), slip.Symbol("sym")}
	case 7:
		return slip.Symbol(":key")
	case 8:
		return slip.String("")
	case 10:
		return slip.String("a\"b\\c d")
	}
	return slip.List{slip.List{slip.Fixnum(1), nil}, nil, slip.String("x")}
}

// zzC15PrinX: the text princ (escape == false) or prin1 (escape == true)
// writes for the object: the real princ / prin1 functions, called on a stream
// whose writer is the harness sink.
func zzC15PrinX(scope *slip.Scope, obj slip.Object, escape bool) []byte {
	sink := &zzC15Sink{}
	args := slip.List{obj, &slip.OutputStream{Writer: sink}}
	if escape {
		f := Prin1{Function: slip.Function{Name: "prin1"}}
		f.Self = &f
		f.Call(scope, args, 0)
	} else {
		f := Princ{Function: slip.Function{Name: "princ"}}
		f.Self = &f
		f.Call(scope, args, 0)
	}
	return sink.buf
}

// zzC15PrincToString: the string (princ-to-string obj) returns.
func zzC15PrincToString(scope *slip.Scope, obj slip.Object) []byte {
	f := PrincToString{Function: slip.Function{Name: "princ-to-string"}}
	f.Self = &f
	s, _ := f.Call(scope, slip.List{obj}, 0).(slip.String)
	return []byte(s)
}

// VerifC15AS: "[~mincol,colinc,minpad,padcharA]" (dir 0) or S (dir 1) with
// mods (bit0 colon, bit1 at).  pm: 0 no parameters; 1 mincol only (literal,
// symbolic 0..12); 2 all four by v (mincol 0..12, colinc 1..4, minpad 0..3,
// padchar printable); 3 mincol literal and padchar literal quoted.
// CLHS 22.3.4.1: the text of princ / prin1, padded on the right (left with
// @) with minpad copies of padchar and then colinc copies at a time until the
// width is at least mincol; ~:A prints nil as ().
func VerifC15AS(dir, mods, pm, kind, n int) {
	colon, at := mods&1 != 0, mods&2 != 0
	ctrl := []byte{'[', '~'}
	var pre slip.List
	mincol, colinc, minpad, pad := 0, 1, 0, byte(' ')
	litPad := false
	switch pm {
	case 1:
		mincol = vrt.Int("mincol")
		vrt.Assume(0 <= mincol && mincol <= 12)
		ctrl = zzC15AppendNum(ctrl, mincol)
	case 2:
		mincol = zzC15Small("mincol", 0, 12)
		colinc = zzC15Small("colinc", 1, 4)
		minpad = zzC15Small("minpad", 0, 3)
		pad = zzC15Printable("padchar")
		ctrl = append(ctrl, "v,v,v,v"...)
		pre = slip.List{slip.Fixnum(mincol), slip.Fixnum(colinc), slip.Fixnum(minpad), slip.Character(rune(pad))}
	case 3:
		mincol = vrt.Int("mincol")
		vrt.Assume(0 <= mincol && mincol <= 12)
		pad = zzC15Printable("padchar")
		litPad = true
		ctrl = zzC15AppendNum(ctrl, mincol)
		ctrl = append(ctrl, ',', ',', ',', '\'', pad)
	case 4:
		// v before # in one directive: # counts what is left after the v
		// parameters took theirs (2 of the 4 arguments remain)
		mincol = zzC15Small("mincol", 0, 12)
		colinc = zzC15Small("colinc", 1, 4)
		minpad = 2
		ctrl = append(ctrl, "v,v,#"...)
		pre = slip.List{slip.Fixnum(mincol), slip.Fixnum(colinc)}
	case 5:
		// # alone: both arguments remain
		mincol = 2
		ctrl = append(ctrl, '#')
	case 6:
		// # before v: all three arguments remain when # is read
		mincol = 3
		colinc = zzC15Small("colinc", 1, 4)
		ctrl = append(ctrl, "#,v"...)
		pre = slip.List{slip.Fixnum(colinc)}
	}
	if colon {
		ctrl = append(ctrl, ':')
	}
	if at {
		ctrl = append(ctrl, '@')
	}
	ctrl = append(ctrl, "AS"[dir], ']')
	arg := zzC15PoolArg(kind, n)
	args := append(append(slip.List{}, pre...), arg, slip.Fixnum(7))
	scope := slip.NewScope()
	var bad byte
	if litPad {
		bad = zzC15DirCharBit(pad)
	}
	vrt.Carve("C15-quoted-dirchar-param", bad != 0)
	if str, isStr := arg.(slip.String); isStr {
		vrt.Carve("C15-princ-string", dir == 0 && len(str) == 0)
	}
	var core []byte
	if colon && arg == nil {
		core = []byte("()")
	} else {
		core = zzC15PrinX(scope, arg, dir == 1)
	}
	npad := minpad
	for len(core)+npad < mincol {
		npad += colinc
	}
	want := []byte{'['}
	if !at {
		want = append(want, core...)
	}
	for i := 0; i < npad; i++ {
		want = append(want, pad)
	}
	if at {
		want = append(want, core...)
	}
	want = append(want, ']')
	got := zzC15Process(scope, ctrl, args)
	vrt.Reach("compared")
	vrt.Assert(got.class != 3, "~A/~S: Go run-time fault")
	vrt.Assert(got.class == 0, "~A/~S signalled a condition")
	vrt.Assert(got.pos == len(pre)+1, "~A/~S: arguments consumed")
	vrt.Assert(zzC15Same(got.text, want), "~A/~S text differs from princ/prin1 with padding")
}

// VerifC15PrincToString: (format nil "~A" x) against (princ-to-string x), the
// observation named by the property record.
func VerifC15PrincToString(kind, n int) {
	arg := zzC15PoolArg(kind, n)
	scope := slip.NewScope()
	_, isStr := arg.(slip.String)
	vrt.Carve("C15-princ-string", isStr)
	want := zzC15PrincToString(scope, arg)
	got := zzC15Process(scope, []byte("~A"), slip.List{arg})
	vrt.Reach("compared")
	vrt.Assert(got.class == 0, "~A signalled a condition")
	vrt.Assert(zzC15Same(got.text, want), "~A text differs from princ-to-string")
}

// VerifC15IntOther: ~mincol,padcharD (dir as VerifC15Int) with an argument
// that is not an integer (pool kinds 1..9): CLHS 22.3.2.2 "printed in ~A
// format and decimal base"; the columns are filled on the left like for an
// integer.  mincol by v (0..12), padchar by v.
func VerifC15IntOther(dir, mods, pm, kind, n int) {
	dirch := "DBOXdbox"[dir]
	ctrl := []byte{'~'}
	var pre slip.List
	mincol, pad := 0, byte(' ')
	if pm != 0 {
		mincol = zzC15Small("mincol", 0, 12)
		pad = zzC15Printable("padchar")
		ctrl = append(ctrl, 'v', ',', 'v')
		pre = slip.List{slip.Fixnum(mincol), slip.Character(rune(pad))}
	}
	if mods&1 != 0 {
		ctrl = append(ctrl, ':')
	}
	if mods&2 != 0 {
		ctrl = append(ctrl, '@')
	}
	ctrl = append(ctrl, dirch)
	arg := zzC15PoolArg(kind, n)
	args := append(append(slip.List{}, pre...), arg, slip.Fixnum(7))
	scope := slip.NewScope()
	core := zzC15PrinX(scope, arg, false)
	if _, isStr := arg.(slip.String); isStr {
		// prin1 of a string always differs from princ (the quotes); prin1 of a
		// symbolic string is not runnable in the engine (ojg, native)
		vrt.Carve("C15-int-nonint-escaped", true)
	} else {
		esc := zzC15PrinX(scope, arg, true)
		vrt.Carve("C15-int-nonint-escaped", !zzC15Same(core, esc))
	}
	var want []byte
	for i := len(core); i < mincol; i++ {
		want = append(want, pad)
	}
	want = append(want, core...)
	got := zzC15Process(scope, ctrl, args)
	vrt.Reach("compared")
	vrt.Assert(got.class != 3, "~D of a non-integer: Go run-time fault")
	vrt.Assert(got.class == 0, "~D of a non-integer signalled a condition")
	vrt.Assert(got.pos == len(pre)+1, "~D of a non-integer: arguments consumed")
	vrt.Assert(zzC15Same(got.text, want), "~D of a non-integer is not its ~A text")
}

// VerifC15Radix: ~radix,mincol,padchar,commachar,commaintR with the radix
// given (rm 1 literal, 2 v), the remaining four parameters as pm of
// zzC15IntControl, mods as there; every integer of nd digits in that radix
// (each digit an engine fork: slip's ~R indexes word tables with the decimal
// digits, which makes the engine enumerate the value anyway), sign symbolic.
// The whole obligation lies inside the known finding C15-radix-param-ignored
// (dirR never looks at its parameters): the main run only witnesses
// reachability, the probe run must find the violation.
func VerifC15Radix(radix, rm, mods, pm, nd int) {
	var pre slip.List
	s := zzC15IntControl('R', mods, pm, 0, nil)
	// splice the radix parameter in front of the others: "~" + radix + "," + rest
	ctrl := []byte{'~'}
	if rm == 1 {
		ctrl = zzC15AppendNum(ctrl, radix)
	} else {
		ctrl = append(ctrl, 'v')
		pre = append(pre, slip.Fixnum(radix))
	}
	if pm != 0 {
		ctrl = append(ctrl, ',')
	}
	ctrl = append(ctrl, s.ctrl[1:]...)
	ds := make([]byte, nd)
	var m int64
	for i := 0; i < nd; i++ {
		ds[i] = byte(vrt.Choice([...]string{"d0", "d1", "d2", "d3"}[i], radix))
		m = m*int64(radix) + int64(ds[i])
	}
	vrt.Assume(nd == 1 || ds[0] != 0)
	neg := vrt.Bool("neg")
	x := m
	if neg {
		vrt.Assume(m != 0)
		x = -m
	}
	pre = append(pre, s.pre...)
	args := append(append(slip.List{}, pre...), slip.Fixnum(x), slip.Fixnum(7))
	if pm%4 == 3 {
		// # counts the remaining arguments when it is read: the radix v (if any) is already consumed
		s.mincol = len(args)
		if rm == 2 {
			s.mincol--
		}
	}
	var bad byte
	if s.litPad {
		bad |= zzC15DirCharBit(s.pad)
	}
	if s.litComma {
		bad |= zzC15DirCharBit(s.comma)
	}
	vrt.Assume(bad == 0)
	vrt.Reach("compared")
	vrt.Carve("C15-radix-param-ignored", true)
	got := zzC15Process(slip.NewScope(), ctrl, args)
	want := zzC15RefInt(ds, neg, s.mincol, s.pad, s.comma, s.interval, s.colon, s.at)
	vrt.Assert(got.class != 3, "~nR: Go run-time fault")
	vrt.Assert(got.class == 0, "~nR signalled a condition for legal parameters")
	vrt.Assert(got.pos == len(pre)+1, "~nR: arguments consumed")
	vrt.Assert(zzC15Same(got.text, want), "~nR text")
}

// zzC15Sink is the harness writer behind the stream destinations.
type zzC15Sink struct {
	buf []byte
}

func (w *zzC15Sink) Write(p []byte) (int, error) {
	w.buf = append(w.buf, p...)
	return len(p), nil
}

// VerifC15Dest: the real format function with destination nil (a string is
// returned), an output stream, and t with *standard-output* bound to a
// stream: the same text as the control processor produces, and nil returned
// for the stream destinations.  prog selects control string and arguments.
func VerifC15Dest(prog int) {
	var ctrl []byte
	var args slip.List
	switch prog {
	case 0:
		x := vrt.Int64("x")
		vrt.Assume(-1000 < x && x < 1000)
		ctrl = []byte("n=~5:@D|~A")
		args = slip.List{slip.Fixnum(x), zzC15PoolArg(1, 2)}
	case 1:
		ctrl = []byte("~{~D,~}~%~S")
		args = slip.List{zzC15DigitArgs(0, 2), zzC15PoolArg(10, 0)}
	case 2:
		ctrl = []byte("")
	default:
		ctrl = []byte("~A ~A~&")
		args = slip.List{zzC15PoolArg(3, 0), zzC15PoolArg(6, 0)}
	}
	scope := slip.NewScope()
	direct := zzC15Process(scope, ctrl, args)
	vrt.Assume(direct.class == 0)
	call := func(dest slip.Object, sc *slip.Scope) (res slip.Object, class int) {
		defer func() {
			if rec := recover(); rec != nil {
				class, _ = zzC15Classify(rec)
			}
		}()
		full := append(slip.List{dest, slip.String(ctrl)}, args...)
		f := Format{Function: slip.Function{Name: "format"}}
		f.Self = &f
		return f.Call(sc, full, 0), 0
	}
	r0, c0 := call(nil, scope)
	s0, isStr := r0.(slip.String)
	sink1 := &zzC15Sink{}
	r1, c1 := call(&slip.OutputStream{Writer: sink1}, scope)
	sink2 := &zzC15Sink{}
	sc2 := scope.NewScope()
	sc2.Let(slip.Symbol("*standard-output*"), &slip.OutputStream{Writer: sink2})
	r2, c2 := call(slip.True, sc2)
	vrt.Reach("compared")
	vrt.Assert(c0 == 0 && c1 == 0 && c2 == 0, "format signalled for one destination only")
	vrt.Assert(isStr && zzC15Same([]byte(s0), direct.text), "format nil: returned string")
	vrt.Assert(r1 == nil && zzC15Same(sink1.buf, direct.text), "format stream: text written / nil returned")
	vrt.Assert(r2 == nil && zzC15Same(sink2.buf, direct.text), "format t: text written to *standard-output* / nil returned")
}

// VerifC15Compose: compositions of up to four directives evaluated by the
// tree evaluator (zzC15Eval).  k selects the program.
func VerifC15Compose(k int) {
	D, A, L := zzC15Dir('D'), zzC15Dir('A'), zzC15L
	var prog []zzC15Node
	var args slip.List
	switch k {
	case 0: // "~D file~:P, ~D director~:@P~%"
		prog = []zzC15Node{D, L(" file"), {kind: 'P', colon: true}, L(", "), D, L(" director"), {kind: 'P', colon: true, at: true}, zzC15Dir('%')}
		args = zzC15DigitArgs(0, 2)
	case 1: // "~[none~D~;one~D~:;~D items~]: ~{~A ~}" – selector then iteration
		prog = []zzC15Node{{kind: '[', hasDef: true, cl: [][]zzC15Node{{L("none"), D}, {L("one"), D}, {D, L(" items")}}}, L(": "),
			{kind: '{', cl: [][]zzC15Node{{A, L(" ")}}}}
		sel := vrt.Int64("sel")
		vrt.Assume(0 <= sel && sel <= 3)
		args = slip.List{slip.Fixnum(sel), zzC15Digit("a0"), zzC15DigitArgs(1, 2)}
	case 2: // "~(~A~) ~:*~:@(~A~) ~D" – back up and print again in another case
		s := zzC15Letters("s", 2)
		prog = []zzC15Node{{kind: '(', cl: [][]zzC15Node{{A}}}, L(" "), {kind: '*', colon: true},
			{kind: '(', colon: true, at: true, cl: [][]zzC15Node{{A}}}, L(" "), D}
		args = slip.List{slip.String(s), zzC15Digit("a0")}
	case 3: // "~@[<~D>~]~2*~D~1@*~D" – conditional consumption then absolute moves
		prog = []zzC15Node{{kind: '[', at: true, cl: [][]zzC15Node{{L("<"), D, L(">")}}}, {kind: '*', pm: 1, n: 2}, D,
			{kind: '*', at: true, pm: 1, n: 1}, D}
		if vrt.Choice("isNil", 2) == 0 {
			args = slip.List{nil}
		} else {
			args = slip.List{zzC15Digit("a0")}
		}
		args = append(args, zzC15DigitArgs(1, 4)...)
	case 4: // "~:{[~D~@{ ~D~}]~}~&~~" – rest-iteration nested in sublist iteration
		prog = []zzC15Node{{kind: '{', colon: true, cl: [][]zzC15Node{{L("["), D, {kind: '{', at: true, cl: [][]zzC15Node{{L(" "), D}}}, L("]")}}},
			zzC15Dir('&'), zzC15Dir('~')}
		args = slip.List{slip.List{zzC15DigitArgs(0, 3), zzC15DigitArgs(3, 1), zzC15DigitArgs(4, 2)}}
	case 5: // "~?|~v[a~;b~]|~#*" – indirect control, v selector, # skip to the end
		sub := []zzC15Node{D, L("+"), D}
		prog = []zzC15Node{{kind: '?', cl: [][]zzC15Node{sub}}, L("|"), {kind: '[', pm: 2, cl: [][]zzC15Node{{L("a")}, {L("b")}}}, L("|"), {kind: '*', pm: 3}}
		args = slip.List{slip.String(zzC15Render(nil, sub)), zzC15DigitArgs(0, 2), slip.Fixnum(zzC15Small("selv", 0, 2)), zzC15Digit("a5"), zzC15Digit("a6")}
	case 6: // "~{~[zero~;one~:;many~]~:*~D ~}" – selector, back up, print, inside an iteration
		prog = []zzC15Node{{kind: '{', cl: [][]zzC15Node{{{kind: '[', hasDef: true, cl: [][]zzC15Node{{L("zero")}, {L("one")}, {L("many")}}},
			{kind: '*', colon: true}, D, L(" ")}}}}
		args = slip.List{zzC15DigitArgs(0, 3)}
	case 7: // "~2{~D~}~:[no~;yes~]~@?~D" – bounded iteration, boolean, @-indirection
		sub := []zzC15Node{L("<"), D, L(">")}
		prog = []zzC15Node{{kind: '{', pm: 1, n: 2, cl: [][]zzC15Node{{D}}}, {kind: '[', colon: true, cl: [][]zzC15Node{{L("no")}, {L("yes")}}},
			{kind: '?', at: true, cl: [][]zzC15Node{sub}}, D}
		var b slip.Object
		if vrt.Choice("isNil", 2) != 0 {
			b = slip.True
		}
		args = slip.List{zzC15DigitArgs(0, 3), b, slip.String(zzC15Render(nil, sub)), zzC15Digit("a4"), zzC15Digit("a5")}
	case 8: // top level ~^ with an argument left: nothing happens
		prog = []zzC15Node{L("a"), zzC15Dir('^'), L("b"), D}
		args = zzC15DigitArgs(0, 1)
	case 9: // top level ~^ with nothing left: the rest is not processed
		prog = []zzC15Node{D, L("a"), zzC15Dir('^'), L("b")}
		args = zzC15DigitArgs(0, 1)
		vrt.Carve("C15-escape-unconditional", true)
	}
	zzC15Check(prog, args, "composition")
}

// VerifC15Scan: block directives placed directly next to each other.
//
//	0 "~[a~;~]"            empty last clause
//	1 "~[a~;~;c~]"         empty middle clause
//	2 "~[a~;~[x~;y~]~;c~]" clause that starts with a nested conditional
//	3 "~{~{~D~}~}"         nested iteration closed directly before the outer close
//	4 "~(~(~A~)~)"         the same for case conversion
//	5 "~[~;b~]"  6 "~{~{~D~},~}"  7 "~{~(~A~)~}"  8 "~(~{~A~}~)"  (not adjacent: must work)
func VerifC15Scan(k int) {
	D, A, L := zzC15Dir('D'), zzC15Dir('A'), zzC15L
	var prog []zzC15Node
	var args slip.List
	sel := func(hi int64) slip.Object {
		v := vrt.Int64("sel")
		vrt.Assume(0 <= v && v <= hi)
		return slip.Fixnum(v)
	}
	switch k {
	case 0:
		prog = []zzC15Node{{kind: '[', cl: [][]zzC15Node{{L("a")}, {}}}, D}
		args = slip.List{sel(2), zzC15Digit("a0")}
	case 1:
		prog = []zzC15Node{{kind: '[', cl: [][]zzC15Node{{L("a")}, {}, {L("c")}}}, D}
		args = slip.List{sel(3), zzC15Digit("a0")}
	case 2:
		prog = []zzC15Node{{kind: '[', cl: [][]zzC15Node{{L("a")}, {{kind: '[', cl: [][]zzC15Node{{L("x")}, {L("y")}}}}, {L("c")}}}, D}
		args = slip.List{slip.Fixnum(1), sel(2), zzC15Digit("a0")}
	case 3:
		prog = []zzC15Node{{kind: '{', cl: [][]zzC15Node{{{kind: '{', cl: [][]zzC15Node{{D}}}}}}, D}
		args = slip.List{slip.List{zzC15DigitArgs(0, 2), zzC15DigitArgs(2, 1)}, zzC15Digit("a5")}
	case 4:
		prog = []zzC15Node{{kind: '(', cl: [][]zzC15Node{{{kind: '(', colon: true, at: true, cl: [][]zzC15Node{{A}}}}}}, D}
		args = slip.List{slip.String("aB"), zzC15Digit("a5")}
	case 5:
		prog = []zzC15Node{{kind: '[', cl: [][]zzC15Node{{}, {L("b")}}}, D}
		args = slip.List{sel(2), zzC15Digit("a0")}
	case 6:
		prog = []zzC15Node{{kind: '{', cl: [][]zzC15Node{{{kind: '{', cl: [][]zzC15Node{{D}}}, L(",")}}}, D}
		args = slip.List{slip.List{zzC15DigitArgs(0, 2), zzC15DigitArgs(2, 1)}, zzC15Digit("a5")}
	case 7:
		prog = []zzC15Node{{kind: '{', cl: [][]zzC15Node{{{kind: '(', cl: [][]zzC15Node{{A}}}}}}, D}
		args = slip.List{slip.List{slip.String("aB"), slip.String("Cd")}, zzC15Digit("a5")}
	default:
		prog = []zzC15Node{{kind: '(', colon: true, at: true, cl: [][]zzC15Node{{{kind: '{', cl: [][]zzC15Node{{A}}}}}}, D}
		args = slip.List{slip.List{slip.String("aB"), slip.String("Cd")}, zzC15Digit("a5")}
	}
	vrt.Carve("C15-scan-adjacent-blocks", k <= 4)
	zzC15Check(prog, args, "adjacent block directives")
}
