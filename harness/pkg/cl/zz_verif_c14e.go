package cl

// C14 (continued): sort, stable-sort, merge.
//
// The predicate is the harness `<` (mode 3) on the key values: a strict weak
// order.  With an injective key the sorted result is unique, so sort is
// compared with a reference insertion sort; with the non-injective key (mode
// 6) only stable-sort and merge are run, whose results are unique as well
// (equal keys keep their input order; merge takes from sequence-1 first).
// Go's sort.Slice/SliceStable are modelled by the engine as insertion sorts
// calling the real `less` closure of slip (exact for fewer than 12 elements).

import (
	"github.com/ohler55/slip"
	vrt "github.com/ohler55/slip/zzvrt"
)

func zzC14KeyLess(kind, keyMode int, a, b int64) bool {
	ka, _ := zzC14Key(kind, keyMode, a)
	kb, _ := zzC14Key(kind, keyMode, b)
	return ka < kb
}

// zzC14RefStableSort: stable insertion sort of vals by key order.
func zzC14RefStableSort(kind, keyMode int, vals []int64) []int64 {
	out := make([]int64, 0, len(vals))
	for _, v := range vals {
		// insert v after the last element that is not greater than v
		at := len(out)
		for 0 < at && zzC14KeyLess(kind, keyMode, v, out[at-1]) {
			at--
		}
		out = append(out, 0)
		for j := len(out) - 1; at < j; j-- {
			out[j] = out[j-1]
		}
		out[at] = v
	}
	return out
}

// VerifC14Sort: (sort seq pred :key k) / (stable-sort seq pred :key k).
func VerifC14Sort(kind, n, keyMode, fn int) {
	vals := zzC14Elems(kind, n)
	name := [...]string{"sort", "stable-sort"}[fn]
	form := slip.List{slip.Symbol(name), zzC14Quote(zzC14Seq(kind, vals)), zzC14Quote(zzC14NewFn(3))}
	form = append(form, zzC14KeyTestArgs(keyMode, 0)...)
	out := zzC14Eval(slip.NewScope(), form)
	vrt.Reach("compared")
	vrt.Assert(out.class == zzC14Value, name+": no value for a valid call")
	want := zzC14RefStableSort(kind, keyMode, vals)
	vrt.Assert(zzC14IsSeq(kind, out.val, want), name+": result is not the ordered permutation of the input")
}

// VerifC14Merge: (merge result-type seq1 seq2 pred :key k); both inputs are
// assumed sorted by the predicate on keys.
func VerifC14Merge(kind, m, n, keyMode int) {
	c := zzC14NewTwo(kind, m, n, keyMode, 0, false)
	vrt.Assume(c.hasS1 == false && c.e1Mode == 0 && c.hasS2 == false && c.e2Mode == 0) // merge has no bounds: shape 0 only
	for i := 0; i+1 < m; i++ {
		vrt.Assume(!zzC14KeyLess(kind, keyMode, c.a[i+1], c.a[i]))
	}
	for i := 0; i+1 < n; i++ {
		vrt.Assume(!zzC14KeyLess(kind, keyMode, c.b[i+1], c.b[i]))
	}
	rt := [...]string{"list", "vector", "string"}[kind]
	vrt.Carve("C14-valid-args-rejected", kind == zzC14List && (m == 0 || n == 0))
	form := slip.List{slip.Symbol("merge"), zzC14Quote(slip.Symbol(rt)),
		zzC14Quote(zzC14Seq(kind, c.a)), zzC14Quote(zzC14Seq(kind, c.b)), zzC14Quote(zzC14NewFn(3))}
	form = append(form, zzC14KeyTestArgs(keyMode, 0)...)
	// reference: take from sequence-2 only when its head is strictly less
	var want []int64
	i, j := 0, 0
	stable := true // no tie between the heads was ever met
	for i < m || j < n {
		switch {
		case i == m:
			want = append(want, c.b[j])
			j++
		case j == n:
			want = append(want, c.a[i])
			i++
		case zzC14KeyLess(kind, keyMode, c.b[j], c.a[i]):
			want = append(want, c.b[j])
			j++
		default:
			if !zzC14KeyLess(kind, keyMode, c.a[i], c.b[j]) {
				stable = false
			}
			want = append(want, c.a[i])
			i++
		}
	}
	vrt.Carve("C14-merge-not-stable", !stable)
	out := zzC14Eval(slip.NewScope(), form)
	vrt.Reach("compared")
	vrt.Assert(out.class == zzC14Value, "merge: no value for a valid call")
	vrt.Assert(zzC14IsSeq(kind, out.val, want), "merge: wrong result")
}
