package cl

import (
	"math"

	"github.com/ohler55/slip"
	vrt "github.com/ohler55/slip/zzvrt"
)

// ---- C03 extension: the printer control variables set from Lisp (let / setq / write keywords),
// printing through prin1-to-string, write-to-string, prin1 and write to a string stream ----

type zzC03COut struct {
	val   slip.Object
	class int // 0 value, 1 condition, 3 Go fault, 4 other
}

func zzC03CEval(s *slip.Scope, form slip.Object) (out zzC03COut) {
	defer func() {
		if rec := recover(); rec != nil {
			switch tr := rec.(type) {
			case *slip.PartialPanic:
				out.class = 1
			case *slip.Panic:
				out.class = 1
				if tr.Value != nil {
					out.class = 3
				}
			case slip.Instance:
				out.class = 1
			case interface{ RuntimeError() }:
				out.class = 3
			default:
				out.class = 4
			}
		}
	}()
	out.val = s.Eval(form, 0)
	if vs, ok := out.val.(slip.Values); ok && 0 < len(vs) { // read-from-string: (values object position)
		out.val = vs[0]
	}
	return
}

func zzC03CLower(s string) string {
	b := []byte(s)
	for i, c := range b {
		if 'A' <= c && c <= 'Z' {
			b[i] = c + 'a' - 'A'
		}
	}
	return string(b)
}

func zzC03CSame(a, b slip.Object) bool {
	switch ta := a.(type) {
	case nil:
		return b == nil
	case slip.Fixnum:
		tb, ok := b.(slip.Fixnum)
		return ok && int64(ta) == int64(tb)
	case slip.Symbol:
		tb, ok := b.(slip.Symbol)
		return ok && zzC03CLower(string(ta)) == zzC03CLower(string(tb))
	case slip.String:
		tb, ok := b.(slip.String)
		return ok && string(ta) == string(tb)
	case slip.Character:
		tb, ok := b.(slip.Character)
		return ok && ta == tb
	case slip.List:
		tb, ok := b.(slip.List)
		if !ok || len(ta) != len(tb) {
			return false
		}
		for i := range ta {
			if !zzC03CSame(ta[i], tb[i]) {
				return false
			}
		}
		return true
	case slip.Tail:
		tb, ok := b.(slip.Tail)
		return ok && zzC03CSame(ta.Value, tb.Value)
	case *slip.Vector:
		tb, ok := b.(*slip.Vector)
		return ok && zzC03CSame(ta.AsList(), tb.AsList())
	case *slip.Array:
		tb, ok := b.(*slip.Array)
		if !ok || len(ta.Dimensions()) != len(tb.Dimensions()) {
			return false
		}
		for i, d := range ta.Dimensions() {
			if d != tb.Dimensions()[i] {
				return false
			}
		}
		return zzC03CSame(ta.AsList(), tb.AsList())
	}
	return false
}

func zzC03CSym(s string) slip.Symbol { return slip.Symbol(s) }

func zzC03CQuote(x slip.Object) slip.Object { return slip.List{zzC03CSym("quote"), x} }

func zzC03CBool(b bool) slip.Object {
	if b {
		return slip.True
	}
	return nil
}

var zzC03CCases = []slip.Object{nil, slip.Symbol(":upcase"), slip.Symbol(":downcase"), slip.Symbol(":capitalize")}

// zzC03CLimit: value for *print-length*/*print-level*/*print-lines*: 1 nil, 2 most-positive-fixnum, 3 2^40.
func zzC03CLimit(lim int) slip.Object {
	switch lim {
	case 2:
		return slip.Fixnum(math.MaxInt64)
	case 3:
		return slip.Fixnum(1 << 40)
	}
	return nil
}

// VerifC03XCtl: the object (x (Foo #(x "s\"q") . x) |a b| #\c [2x2 array]) with x a symbolic
// fixnum is printed and read back with the printer control variables given from Lisp:
//
//	how 0: (let ((*print-base* B) (*print-radix* R) (*read-base* RB) (*print-case* C) (*print-pretty* P)
//	             (*print-right-margin* M) (*print-array* t) [limits] [miser])
//	         (read-from-string (prin1-to-string 'obj)))
//	how 1: the same variables assigned with setq (the real setters on the global printer), restored afterwards
//	how 2: (write-to-string 'obj :base B :radix R ... :readably t) read under (let ((*read-base* RB)) ...)
//
// B = base, R = radix; RB is 10 with radix, B without; C = pc (0 nil 1 :upcase 2 :downcase 3 :capitalize);
// P = pretty with M symbolic in 1..200; lim 0 unbound/1 nil/2 most-positive-fixnum/3 2^40 for the three limits;
// miser 0 unbound/1 nil/2 symbolic 0..100; arr 1 adds a 2x2 array.
// The text written to a string stream by prin1 / write must be the text of prin1-to-string / write-to-string.
func VerifC03XCtl(how int, base int, radix int, pc int, pretty int, lim int, miser int, arr int) {
	x := vrt.Int64("x")
	vrt.Assume(-1300 < x && x < 1300)
	vrt.Carve("C03-integer-digits-spell-t-or-nil", x == 29 && 30 <= base && radix == 0)
	vrt.Carve("C03-print-miser-width-nil-rejected", miser == 1 && how != 2)
	vrt.Carve("C03-array-rank-in-print-base", arr != 0 && (radix != 0 || base <= 2))
	fx := slip.Fixnum(x)
	vec := slip.NewVector(2, slip.TrueSymbol, nil, slip.List{fx, slip.String("s\"q")}, true)
	obj := slip.List{fx, slip.List{zzC03CSym("Foo"), vec, slip.Tail{Value: fx}}, zzC03CSym("a b"), slip.Character('c')}
	if arr != 0 {
		obj = append(obj, slip.NewArray([]int{2, 2}, slip.TrueSymbol, nil, slip.List{slip.List{fx, slip.Fixnum(35)}, slip.List{nil, zzC03CSym("z")}}, false))
	}
	rb := base
	if radix != 0 {
		rb = 10
	}
	type kv struct {
		name string
		key  string
		val  slip.Object
	}
	vars := []kv{
		{"*print-base*", ":base", slip.Fixnum(base)},
		{"*print-radix*", ":radix", zzC03CBool(radix != 0)},
		{"*print-case*", ":case", zzC03CCases[pc]},
		{"*print-pretty*", ":pretty", zzC03CBool(pretty != 0)},
		{"*print-array*", ":array", slip.True},
	}
	if pretty != 0 {
		m := vrt.Int64("margin")
		vrt.Assume(1 <= m && m <= 200)
		vars = append(vars, kv{"*print-right-margin*", ":right-margin", slip.Fixnum(m)})
	}
	if lim != 0 {
		v := zzC03CLimit(lim)
		vars = append(vars, kv{"*print-length*", ":length", v}, kv{"*print-level*", ":level", v}, kv{"*print-lines*", ":lines", v})
	}
	switch miser {
	case 1:
		vars = append(vars, kv{"*print-miser-width*", ":miser-width", nil})
	case 2:
		w := vrt.Int64("miser")
		vrt.Assume(0 <= w && w <= 100)
		vars = append(vars, kv{"*print-miser-width*", ":miser-width", slip.Fixnum(w)})
	}
	q := func(v slip.Object) slip.Object { return zzC03CQuote(v) }
	scope := slip.NewScope()
	readLet := func(textForm slip.Object) slip.Object {
		return slip.List{zzC03CSym("let"), slip.List{slip.List{zzC03CSym("*read-base*"), slip.Fixnum(rb)}},
			slip.List{zzC03CSym("read-from-string"), textForm}}
	}
	var out, viaString, viaStream zzC03COut
	switch how {
	case 0:
		var binds slip.List
		for _, v := range vars {
			binds = append(binds, slip.List{zzC03CSym(v.name), q(v.val)})
		}
		binds = append(binds, slip.List{zzC03CSym("*read-base*"), slip.Fixnum(rb)})
		let := func(body slip.Object) slip.Object { return slip.List{zzC03CSym("let"), binds, body} }
		out = zzC03CEval(scope, let(slip.List{zzC03CSym("read-from-string"), slip.List{zzC03CSym("prin1-to-string"), q(obj)}}))
		viaString = zzC03CEval(scope, let(slip.List{zzC03CSym("prin1-to-string"), q(obj)}))
		viaStream = zzC03CEval(scope, let(slip.List{zzC03CSym("with-output-to-string"), slip.List{zzC03CSym("zzs")},
			slip.List{zzC03CSym("prin1"), q(obj), zzC03CSym("zzs")}}))
	case 1:
		saved := *slip.DefaultPrinter()
		defer func() { *slip.DefaultPrinter() = saved }()
		set := slip.List{zzC03CSym("setq")}
		for _, v := range vars {
			set = append(set, zzC03CSym(v.name), q(v.val))
		}
		if r := zzC03CEval(scope, set); r.class != 0 {
			out = r
			break
		}
		text := zzC03CEval(scope, slip.List{zzC03CSym("prin1-to-string"), q(obj)})
		viaString = text
		viaStream = zzC03CEval(scope, slip.List{zzC03CSym("with-output-to-string"), slip.List{zzC03CSym("zzs")},
			slip.List{zzC03CSym("prin1"), q(obj), zzC03CSym("zzs")}})
		*slip.DefaultPrinter() = saved
		if text.class != 0 {
			out = text
			break
		}
		out = zzC03CEval(scope, readLet(text.val))
	default:
		call := func(fn string, extra ...slip.Object) slip.List {
			f := slip.List{zzC03CSym(fn), q(obj)}
			for _, v := range vars {
				f = append(f, zzC03CSym(v.key), q(v.val))
			}
			f = append(f, zzC03CSym(":readably"), slip.True)
			return append(f, extra...)
		}
		viaString = zzC03CEval(scope, call("write-to-string"))
		viaStream = zzC03CEval(scope, slip.List{zzC03CSym("with-output-to-string"), slip.List{zzC03CSym("zzs")},
			call("write", zzC03CSym(":stream"), zzC03CSym("zzs"))})
		if viaString.class != 0 {
			out = viaString
			break
		}
		out = zzC03CEval(scope, readLet(viaString.val))
	}
	vrt.Reach("read")
	vrt.Assert(out.class != 3 && out.class != 4, "printing/reading under Lisp-set printer variables is a Go fault")
	vrt.Assert(out.class == 0, "printing under Lisp-set printer variables signals a condition, or the text cannot be read back")
	vrt.Assert(zzC03CSame(obj, out.val), "the object printed under Lisp-set printer variables reads back as a different object")
	a, okA := viaString.val.(slip.String)
	b, okB := viaStream.val.(slip.String)
	vrt.Assert(viaString.class == 0 && viaStream.class == 0 && okA && okB, "printing to a string / to a string stream failed")
	vrt.Assert(string(a) == string(b), "the text written to a string stream differs from the text of the -to-string function")
}

var zzC03CVarNames = []string{"*print-length*", "*print-level*", "*print-lines*", "*print-right-margin*", "*print-miser-width*", "*print-base*"}

// VerifC03XVar: a printer control variable assigned with setq (how 0) or bound with let (how 1)
// holds the assigned value when it is read back: v symbolic over all non-negative fixnums (2..36
// for *print-base*), or nil (sel 1) for the variables documented to take nil.
func VerifC03XVar(which int, sel int, how int) {
	name := zzC03CVarNames[which]
	var val slip.Object
	if sel == 1 {
		val = nil
	} else {
		v := vrt.Int64("v")
		if which == 5 {
			vrt.Assume(2 <= v && v <= 36)
		} else {
			vrt.Assume(0 <= v)
		}
		vrt.Carve("C03-print-limit-max-int-reads-nil", v == math.MaxInt64 && which <= 3 && how == 0)
		val = slip.Fixnum(v)
	}
	vrt.Carve("C03-print-miser-width-nil-rejected", which == 4 && sel == 1)
	vrt.Assume(!(which == 5 && sel == 1))
	saved := *slip.DefaultPrinter()
	defer func() { *slip.DefaultPrinter() = saved }()
	scope := slip.NewScope()
	var out zzC03COut
	if how == 0 {
		out = zzC03CEval(scope, slip.List{zzC03CSym("progn"), slip.List{zzC03CSym("setq"), zzC03CSym(name), zzC03CQuote(val)}, zzC03CSym(name)})
	} else {
		out = zzC03CEval(scope, slip.List{zzC03CSym("let"), slip.List{slip.List{zzC03CSym(name), zzC03CQuote(val)}}, zzC03CSym(name)})
	}
	vrt.Reach("read")
	vrt.Assert(out.class != 3 && out.class != 4, "assigning a printer control variable is a Go fault")
	vrt.Assert(out.class == 0, "a documented value of a printer control variable is rejected")
	vrt.Assert(zzC03CSame(val, out.val), "a printer control variable does not hold the value assigned to it")
}
