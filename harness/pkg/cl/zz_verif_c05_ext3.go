package cl

import (
	"math/big"

	"github.com/ohler55/slip"
	vrt "github.com/ohler55/slip/zzvrt"
)

// ---- C05 extension, part 3: comparisons of rationals with floats ----

// The float grid: value m * 2^e (exactly representable: |m| < 2^24 for the entries
// usable as single-float, < 2^53 otherwise).
type zzC05XF struct {
	m      int64
	e      int
	single bool
	plus1  bool // long-float only: the value is m*2^e + 1, which needs more than 53 significant bits
}

var zzC05XFloats = []zzC05XF{
	{1, 24, true, false}, {1<<24 - 1, 0, true, false}, {1<<23 + 1, 1, true, false}, // 2^24, 2^24-1, 2^24+2
	{1, 53, true, false}, {1<<53 - 1, 0, false, false}, {1<<52 + 1, 1, false, false}, // 2^53, 2^53-1, 2^53+2
	{1, 63, true, false}, {1<<53 - 1, 10, false, false}, {1<<52 + 1, 11, false, false}, // 2^63, 2^63-1024, 2^63+2048
	{-1, 63, true, false}, {-(1<<52 + 1), 11, false, false}, {-(1<<53 - 1), 10, false, false}, // -2^63, -2^63-2048, -2^63+1024
	{1, 64, true, false}, {1<<53 - 1, 11, false, false}, // 2^64, 2^64-2048
	{1, -1, true, false}, {-3, -1, true, false}, {0, 0, true, false}, // 0.5 -1.5 0
	{1<<24 - 1, 39, true, false}, {1<<23 + 1, 40, true, false}, // 2^63-2^39, 2^63+2^40 (single-float neighbours of 2^63)
	{1<<23 + 1, 30, true, false}, // 2^53+2^30 (single-float neighbour of 2^53)
	{1, 64, false, true}, {1, 53, false, true}, {-1, 64, false, true}, {3, 70, false, true}, // 2^64+1, 2^53+1, -2^64+1, 3*2^70+1 (long-float only)
}

var zzC05XFarInts = []int64{-1 << 63, 1<<63 - 1, 0, -1, 1, 1 << 62, -1 << 62, 1 << 31, -1 << 31, 1<<53 + 1, -(1<<53 + 1)}

// VerifC05XFloatCmp: the six comparisons between a rational and a float.
// fk 0 single-float, 1 double-float, 2 long-float (precision 128); fi index into the float
// grid; ik 0: symbolic fixnum within +-2 of the float's value (clamped to the fixnum range),
// 1: the concrete integer trunc(float)+off (a bignum beyond the fixnum range), 2: the
// concrete ratio trunc(float)+off+1/2, 3: the boundary fixnum zzC05XFarInts[off]; swap != 0: the float is the first argument.
func VerifC05XFloatCmp(fk int, fi int, ik int, off int, swap int) {
	g := zzC05XFloats[fi]
	vrt.Assume(fk != 0 || g.single)
	vrt.Assume(!g.plus1 || fk == 2)
	fv := float64(g.m) // exact: |m| < 2^53
	for i := 0; i < g.e; i++ {
		fv *= 2
	}
	for i := 0; i > g.e; i-- {
		fv /= 2
	}
	var f slip.Object
	switch fk {
	case 0:
		f = slip.SingleFloat(fv)
	case 1:
		f = slip.DoubleFloat(fv)
	default:
		f = (*slip.LongFloat)(new(big.Float).SetPrec(128).SetFloat64(fv))
		if g.plus1 {
			iv := new(big.Int).Lsh(big.NewInt(g.m), uint(g.e))
			iv.Add(iv, big.NewInt(1))
			f = (*slip.LongFloat)(new(big.Float).SetPrec(128).SetInt(iv))
		}
	}
	// exact value of the float: fn/fd
	fn, fd := big.NewInt(g.m), big.NewInt(1)
	if g.e >= 0 {
		fn.Lsh(fn, uint(g.e))
	} else {
		fd.Lsh(fd, uint(-g.e))
	}
	if g.plus1 {
		fn.Add(fn, big.NewInt(1))
	}
	center := new(big.Int).Quo(fn, fd)
	var x slip.Object
	var qx zzC05Q
	switch ik {
	case 0:
		c := center
		if c.Cmp(zzC05Max64) > 0 {
			c = zzC05Max64
		}
		if c.Cmp(zzC05Min64) < 0 {
			c = zzC05Min64
		}
		// the engine cannot convert a symbolic integer to a float: the window is enumerated
		bv := new(big.Int).Add(c, big.NewInt(int64(vrt.Choice("w", 5)-2)))
		vrt.Assume(zzC05Fits(bv))
		v := bv.Int64()
		x, qx = slip.Fixnum(v), zzC05QInt(bv)
	case 1:
		iv := new(big.Int).Add(center, big.NewInt(int64(off)))
		x, qx = zzC05XInt(iv), zzC05QInt(iv)
	case 3:
		// a boundary fixnum far away from the float (an out-of-range float->int64 conversion
		// in the comparison must not make them meet)
		v := zzC05XFarInts[off]
		x, qx = slip.Fixnum(v), zzC05QInt(big.NewInt(v))
	default:
		iv := new(big.Int).Add(center, big.NewInt(int64(off)))
		n := new(big.Int).Add(new(big.Int).Lsh(iv, 1), big.NewInt(1))
		x = (*slip.Ratio)(new(big.Rat).SetFrac(n, big.NewInt(2)))
		qx = zzC05Q{n, big.NewInt(2)}
	}
	c := zzC05QCmp(qx, zzC05Q{fn, fd})
	// region of the known finding: < <= > >= convert the rational to the float's format first;
	// stated on the inputs: the rational differs from the float but lies within the float's
	// rounding distance (2^(e) around it for the grid's one-bit-of-slack mantissas, 2^40 for
	// single) — conservatively: it differs and is not an integer multiple of the float's ulp.
	vrt.Carve("C05-compare-rational-with-float-rounds", c != 0 && zzC05XRoundsTo(qx, fk, fv))
	a0, a1 := x, f
	if swap != 0 {
		a0, a1 = f, x
		c = -c
	}
	want := []bool{c < 0, c <= 0, c > 0, c >= 0, c == 0, c != 0}
	got := make([]bool, 6)
	for i, name := range zzC05Cmps {
		out := zzC05Call(name, a0, a1)
		vrt.Assert(out.class == 0, "comparison of a rational with a float signalled")
		got[i] = out.one != nil
	}
	vrt.Reach("called")
	n := 0
	for _, i := range []int{0, 2, 4} {
		if got[i] {
			n++
		}
	}
	vrt.Assert(got[4] == want[4], "= disagrees with mathematical equality")
	vrt.Assert(got[5] == !got[4], "/= is not the negation of =")
	vrt.Assert(n == 1, "not exactly one of < = > holds")
	for i := range want {
		vrt.Assert(got[i] == want[i], "comparison disagrees with the exact values")
	}
	vrt.Assert(zzC05XRatSame(x, qx), "the rational operand was altered")
}

// zzC05XRoundsTo: converting the rational q to the float format fk gives exactly fv
// (round to nearest even, computed with math/big on the exact value).
func zzC05XRoundsTo(q zzC05Q, fk int, fv float64) bool {
	if fk == 2 {
		// long-float: slip converts a bignum with big.Float.SetInt at the integer's own
		// precision (exact), a fixnum and a ratio through float64 (NormalizeNumber)
		if q.d.Cmp(big.NewInt(1)) == 0 && !q.n.IsInt64() {
			return false
		}
	}
	// the candidates are concrete except for the symbolic fixnum, which lies within +-2 of
	// the float: enumerate by comparing with the neighbours' midpoints
	prec := uint(53)
	if fk == 0 {
		prec = 24
	}
	// midpoints between fv and its neighbours in the format
	fb := new(big.Float).SetPrec(200).SetFloat64(fv)
	mant := new(big.Float)
	exp := fb.MantExp(mant) // fv = mant * 2^exp, 0.5 <= |mant| < 1
	ulp := new(big.Float).SetPrec(200).SetMantExp(big.NewFloat(1), exp-int(prec))
	if fv == 0 {
		return false
	}
	half := new(big.Float).SetPrec(200).Quo(ulp, big.NewFloat(2))
	halfLo, halfHi := half, half
	if m64, _ := mant.Float64(); m64 == 0.5 {
		// a power of two: the neighbour towards zero is half as far away
		halfLo = new(big.Float).SetPrec(200).Quo(half, big.NewFloat(2))
	} else if m64 == -0.5 {
		halfHi = new(big.Float).SetPrec(200).Quo(half, big.NewFloat(2))
	}
	lo, _ := new(big.Float).SetPrec(200).Sub(fb, halfLo).Rat(nil)
	hi, _ := new(big.Float).SetPrec(200).Add(fb, halfHi).Rat(nil)
	ql := zzC05QCmp(q, zzC05Q{lo.Num(), lo.Denom()})
	qh := zzC05QCmp(q, zzC05Q{hi.Num(), hi.Denom()})
	// inside the open interval always rounds to fv; the end points round to even (left out: the
	// grid never puts a candidate exactly on a midpoint that rounds away... kept in the region)
	return ql >= 0 && qh <= 0
}
