package cl

import (
	"github.com/ohler55/slip"
	vrt "github.com/ohler55/slip/zzvrt"
)

// VerifC04Redefine: a function defined with n1 required (and o1 optional)
// parameters, optionally called once, is redefined with n2 required (o2
// optional) parameters and then called with nargs symbolic fixnum arguments:
// the call is accepted exactly when n2 <= nargs <= n2+o2 and binds the NEW
// parameters — nothing remembered from the first definition (argument counts,
// defaults) may survive the redefinition.
//
//	route 0: (zzrd args)   1: (funcall 'zzrd args)   2: (apply 'zzrd (list args))
//	route 3: through a caller (defun zzrdc () (zzrd args)) defined BEFORE the redefinition (and called before it when precall != 0)
//	precall: number of calls of the first definition before it is redefined (0..2)
func VerifC04Redefine(n1, o1, n2, o2, nargs, route, precall int) {
	S := func(s string) slip.Object { return slip.Symbol(s) }
	fname := "zzrd" + string(rune('0'+route))
	mk := func(tag int64, nreq, nopt int) slip.Object {
		ll := slip.List{}
		body := slip.List{S("list"), slip.Fixnum(tag)}
		for i := 0; i < nreq; i++ {
			ll = append(ll, S(zzC04ViaName("r", i)))
			body = append(body, S(zzC04ViaName("r", i)))
		}
		if 0 < nopt {
			ll = append(ll, S("&optional"))
			for i := 0; i < nopt; i++ {
				ll = append(ll, slip.List{S(zzC04ViaName("o", i)), slip.Fixnum(tag*100 + int64(i))})
				body = append(body, S(zzC04ViaName("o", i)))
			}
		}
		return slip.List{S("defun"), S(fname), ll, body}
	}
	vals := make([]int64, nargs)
	args := slip.List{}
	for i := range vals {
		vals[i] = vrt.Int64("a" + string(rune('0'+i)))
		args = append(args, slip.Fixnum(vals[i]))
	}
	call := append(slip.List{S(fname)}, args...)
	var use slip.Object
	var caller slip.Object
	switch route {
	case 0:
		use = call
	case 1:
		use = append(slip.List{S("funcall"), slip.List{S("quote"), S(fname)}}, args...)
	case 2:
		use = slip.List{S("apply"), slip.List{S("quote"), S(fname)}, append(slip.List{S("list")}, args...)}
	default:
		caller = slip.List{S("defun"), S(fname + "c"), slip.List{}, call}
		use = slip.List{S(fname + "c")}
	}
	zzC04Streams()
	scope := slip.NewScope()
	class := zzC04Returned
	var got slip.Object
	eval := func(form slip.Object) {
		class = zzC04Returned
		defer func() {
			if rec := recover(); rec != nil {
				class = zzC04Classify(rec)
			}
		}()
		got = scope.Eval(form, 0)
	}
	eval(mk(1, n1, o1))
	vrt.Assert(class == zzC04Returned, "first defun failed")
	if caller != nil {
		eval(caller)
		vrt.Assert(class == zzC04Returned, "defun of the caller failed")
	}
	for p := 0; p < precall; p++ {
		// a valid call of the first definition (n1 arguments)
		first := slip.List{S(fname)}
		for i := 0; i < n1; i++ {
			first = append(first, slip.Fixnum(int64(7+i)))
		}
		eval(first)
		vrt.Assert(class == zzC04Returned, "valid call of the first definition rejected")
		if caller != nil && n1 <= nargs && nargs <= n1+o1 {
			eval(use)
			vrt.Assert(class == zzC04Returned, "valid call of the first definition through the caller rejected")
		}
	}
	eval(mk(2, n2, o2))
	vrt.Assert(class == zzC04Returned, "redefinition failed")
	eval(use)
	vrt.Reach("evaluated")
	vrt.Assert(class != zzC04GoFault, "Go run-time fault")
	if nargs < n2 || n2+o2 < nargs {
		vrt.Assert(class != zzC04Returned, "call with an argument count the NEW lambda list does not allow was accepted after a redefinition")
		return
	}
	vrt.Assert(class == zzC04Returned, "call allowed by the NEW lambda list rejected after a redefinition")
	gl, ok := got.(slip.List)
	vrt.Assert(ok && len(gl) == 1+n2+o2, "body of the new definition did not return its parameter list")
	tag, _ := gl[0].(slip.Fixnum)
	vrt.Assert(tag == 2, "the old body ran after the redefinition")
	for i := 0; i < n2+o2; i++ {
		gf, isF := gl[1+i].(slip.Fixnum)
		if i < nargs {
			vrt.Assert(isF && int64(gf) == vals[i], "parameter of the new definition bound to the wrong value")
		} else {
			vrt.Assert(isF && int64(gf) == 200+int64(i-n2), "omitted &optional parameter of the new definition did not take the new default")
		}
	}
}
