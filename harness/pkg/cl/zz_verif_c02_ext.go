package cl

// C02 extension (package cl): the Lisp-level readers. (read stream) called
// repeatedly, what it leaves unread, read-from-string with :start/:end and
// its position value, and load of a stream.

import (
	"io"
	"strconv"
	"strings"

	"github.com/ohler55/slip"
	vrt "github.com/ohler55/slip/zzvrt"
)

// ---- helpers (package cl cannot see the root package's unexported helpers) ----

const (
	zzC02Alpha12   = "()\"\\|#',; a1"
	zzC02AlphaSeek = "()\"\\|#',; a1`@*x\n" // seeker kinds: the 12-byte alphabet plus ` @ * x newline
	zzC02AlphaA0   = "()\"'; a1\n"          // non-seeker kind: no # | \ (see C02.ext.lispread.kf)
	zzC02AlphaD2   = "|\\#x\" a"            // the forms a non-seeker read cannot start
	zzC02AlphaRFS  = "()\"' a1\n"           // read-from-string with the form end reference scanner
	zzC02AlphaTiny = "() a"                 // hosts of known-finding probes
)

func zzC02AlphaOf(sel int) string {
	switch sel {
	case 1:
		return zzC02Alpha12
	case 2:
		return zzC02AlphaSeek
	case 3:
		return zzC02AlphaA0
	case 4:
		return zzC02AlphaD2
	case 5:
		return zzC02AlphaRFS
	case 6:
		return zzC02AlphaTiny
	}
	return ""
}

func zzC02Src(n int, sel int) []byte {
	src := vrt.Bytes("src", n)
	alpha := zzC02AlphaOf(sel)
	if alpha != "" {
		for _, c := range src {
			ok := false
			for i := 0; i < len(alpha); i++ {
				if c == alpha[i] {
					ok = true
				}
			}
			vrt.Assume(ok)
		}
	}
	return src
}

// zzC02Chunk hands out src in pieces of at most k bytes per Read call.
type zzC02Chunk struct {
	src []byte
	pos int
	k   int
}

func (r *zzC02Chunk) Read(p []byte) (int, error) {
	if len(r.src) <= r.pos {
		return 0, io.EOF
	}
	n := r.k
	if len(p) < n {
		n = len(p)
	}
	if len(r.src)-r.pos < n {
		n = len(r.src) - r.pos
	}
	for i := 0; i < n; i++ {
		p[i] = r.src[r.pos+i]
	}
	r.pos += n
	return n, nil
}

// zzC02SeekStream is a string stream (seekable) that hands out at most k bytes
// per Read call: the ReadStream(one) + Seek branch of read with several blocks.
type zzC02SeekStream struct {
	*slip.StringStream
	k int
}

func (z *zzC02SeekStream) Read(p []byte) (int, error) {
	if z.k < len(p) {
		p = p[:z.k]
	}
	return z.StringStream.Read(p)
}

func (z *zzC02SeekStream) Eval(s *slip.Scope, depth int) slip.Object { return z }
func (z *zzC02SeekStream) Equal(other slip.Object) bool              { return z == other }

// zzC02Stream builds the stream of the given kind over src:
// 0 input-stream over a chunked reader (not seekable), 1 string stream
// (seekable, one block), 2 seekable stream in blocks of at most k bytes.
func zzC02Stream(kind int, src []byte, k int) slip.Object {
	switch kind {
	case 0:
		return slip.NewInputStream(&zzC02Chunk{src: src, k: k})
	case 1:
		return slip.NewStringStream(append([]byte{}, src...))
	}
	return &zzC02SeekStream{StringStream: slip.NewStringStream(append([]byte{}, src...)), k: k}
}

const (
	zzC02Value = 0
	zzC02Cond  = 1 // a Lisp condition other than end-of-file
	zzC02EOF   = 2 // end-of-file condition
	zzC02Part  = 3 // partial (incomplete text)
	zzC02Fault = 4 // Go run-time error, raw or wrapped
	zzC02Other = 5 // any other panic value
)

func zzC02Classify(rec any) int {
	switch tr := rec.(type) {
	case *slip.PartialPanic:
		return zzC02Part
	case *slip.Panic:
		if tr.Value != nil { // a Go panic wrapped by Function.Eval
			if strings.Contains(tr.Message, "runtime error") {
				return zzC02Fault
			}
			return zzC02Other
		}
		if tr.Condition != nil && tr.Condition.Hierarchy()[0] == slip.Symbol("end-of-file") {
			return zzC02EOF
		}
		return zzC02Cond
	case slip.Instance:
		if tr.Hierarchy()[0] == slip.Symbol("end-of-file") {
			return zzC02EOF
		}
		return zzC02Cond
	case interface{ RuntimeError() }:
		return zzC02Fault
	}
	return zzC02Other
}

// zzC02Eval evaluates form in scope and classifies the outcome.
func zzC02Eval(scope *slip.Scope, form slip.Object) (res slip.Object, class int) {
	defer func() {
		if rec := recover(); rec != nil {
			res = nil
			class = zzC02Classify(rec)
		}
	}()
	return scope.Eval(form, 0), zzC02Value
}

func zzC02ReadAll(src []byte, scope *slip.Scope) (code slip.Code, class int) {
	defer func() {
		if rec := recover(); rec != nil {
			code = nil
			class = zzC02Classify(rec)
		}
	}()
	return slip.ReadString(string(src), scope), zzC02Value
}

// zzC02Same compares two objects structurally (type and content).
func zzC02Same(a, b slip.Object) bool {
	switch ta := a.(type) {
	case nil:
		return b == nil
	case slip.Symbol:
		tb, ok := b.(slip.Symbol)
		return ok && string(ta) == string(tb)
	case slip.String:
		tb, ok := b.(slip.String)
		return ok && string(ta) == string(tb)
	case slip.Character:
		tb, ok := b.(slip.Character)
		return ok && ta == tb
	case slip.Fixnum:
		tb, ok := b.(slip.Fixnum)
		return ok && ta == tb
	case slip.List:
		tb, ok := b.(slip.List)
		if !ok || len(ta) != len(tb) {
			return false
		}
		for i := range ta {
			if !zzC02Same(ta[i], tb[i]) {
				return false
			}
		}
		return true
	case slip.Tail:
		tb, ok := b.(slip.Tail)
		return ok && zzC02Same(ta.Value, tb.Value)
	case *slip.Vector:
		tb, ok := b.(*slip.Vector)
		if !ok {
			return false
		}
		return zzC02Same(ta.AsList(), tb.AsList())
	case slip.Funky:
		tb, ok := b.(slip.Funky)
		if !ok || ta.GetName() != tb.GetName() {
			return false
		}
		return zzC02Same(ta.GetArgs(), tb.GetArgs())
	}
	if b == nil {
		return false
	}
	if a.Hierarchy()[0] != b.Hierarchy()[0] {
		return false
	}
	return a.Equal(b)
}

func zzC02SameCode(a, b slip.Code) bool {
	if len(a) != len(b) {
		return false
	}
	for i := range a {
		if !zzC02Same(a[i], b[i]) {
			return false
		}
	}
	return true
}

func zzC02IsWS(c byte) bool { return c == ' ' || c == '\n' || c == '\t' || c == '\r' }

// zzC02DelimSwallowed: reference scanner over the alphabet ( ) " ' ; a 1 blank
// newline. True when the text has, at top level, a form that is not a list or a
// string (a token, or a quoted form) directly followed by a byte that is not
// white space: that byte is what a non-seekable read consumes and loses.
func zzC02DelimSwallowed(src []byte) bool {
	depth := 0
	pend := false // a ' at top level waits for its form
	const (
		norm = iota
		tok
		str
		comment
	)
	mode := norm
	for i, c := range src {
		switch mode {
		case str:
			if c == '"' {
				mode = norm
				if depth == 0 {
					pend = false
				}
			}
			continue
		case comment:
			if c == '\n' {
				mode = norm
			}
			continue
		case tok:
			if c == 'a' || c == '1' {
				continue
			}
			// the token ends here
			mode = norm
			if depth == 0 {
				pend = false
				if !zzC02IsWS(c) {
					return true
				}
			}
		}
		// norm (or a delimiter that ended a token)
		switch c {
		case '(':
			depth++
		case ')':
			depth--
			if depth < 0 {
				return false // malformed, not our concern
			}
			if depth == 0 {
				if pend && i+1 < len(src) && !zzC02IsWS(src[i+1]) {
					return true
				}
				pend = false
			}
		case '"':
			mode = str
		case ';':
			mode = comment
		case '\'':
			if depth == 0 {
				pend = true
			}
		case 'a', '1':
			mode = tok
		}
	}
	return false
}

// zzC02PrefixFails: reference scanner over the alphabet | \ # x " a blank. True
// when the text (read as a whole without error) contains a form that a
// non-seekable read rejects because it parses every prefix as a complete text:
// a |symbol|, a #\ character, a #x integer, or a \ escape inside a string.
func zzC02PrefixFails(src []byte) bool {
	const (
		norm = iota
		str
		sharp
		block
		blockBar
	)
	mode := norm
	for _, c := range src {
		switch mode {
		case norm:
			switch c {
			case '|':
				return true
			case '"':
				mode = str
			case '#':
				mode = sharp
			}
		case str:
			if c == '\\' {
				return true
			}
			if c == '"' {
				mode = norm
			}
		case sharp:
			switch c {
			case '\\', 'x':
				return true
			case '|':
				mode = block
			default:
				mode = norm
			}
		case block:
			if c == '|' {
				mode = blockBar
			}
		case blockBar:
			if c == '#' {
				mode = norm
			} else if c != '|' {
				mode = block
			}
		}
	}
	return false
}

func zzC02Carves(kind int, sel int, src []byte) {
	switch sel {
	case 3:
		vrt.Carve("C02-read-nonseek-swallows-delimiter", kind == 0 && zzC02DelimSwallowed(src))
	case 4:
		vrt.Carve("C02-read-nonseek-prefix-error", kind == 0 && zzC02PrefixFails(src))
	}
}

// VerifC02LispRead: (read stream) called repeatedly returns, one after the
// other, exactly the objects of the whole text and then signals end-of-file
// (eofMode 0) or returns the eof value (eofMode 1: eof-error-p nil).
func VerifC02LispRead(n int, kind int, k int, sel int, eofMode int) {
	src := zzC02Src(n, sel)
	scope := slip.NewScope()
	whole, wclass := zzC02ReadAll(src, scope)
	vrt.Assume(wclass == zzC02Value)
	zzC02Carves(kind, sel, src)
	stream := zzC02Stream(kind, src, k)
	scope.Let(slip.Symbol("zzs"), stream)
	marker := slip.NewStringStream(nil) // an object the reader cannot produce
	scope.Let(slip.Symbol("zzeof"), marker)
	form := slip.List{slip.Symbol("read"), slip.Symbol("zzs")}
	if eofMode == 1 {
		form = slip.List{slip.Symbol("read"), slip.Symbol("zzs"), nil, slip.Symbol("zzeof")}
	}
	for i := range whole {
		res, class := zzC02Eval(scope, form)
		vrt.Assert(class != zzC02Fault, "Go run-time fault in read")
		vrt.Assert(class == zzC02Value && res != slip.Object(marker), "read fails or reports end of file before the text is exhausted")
		vrt.Assert(zzC02Same(res, whole[i]), "read returns a different object than the whole read")
	}
	res, class := zzC02Eval(scope, form)
	vrt.Reach("compared")
	if eofMode == 1 {
		vrt.Assert(class == zzC02Value && res == slip.Object(marker), "read past the last form does not return the eof value")
	} else {
		vrt.Assert(class == zzC02EOF, "read past the last form does not signal end-of-file")
	}
}

// zzC02Drain reads the rest of the stream with read-char.
func zzC02Drain(scope *slip.Scope, max int) (rest []byte, ok bool) {
	form := slip.List{slip.Symbol("read-char"), slip.Symbol("zzs"), nil, nil}
	for i := 0; i <= max; i++ {
		res, class := zzC02Eval(scope, form)
		if class != zzC02Value {
			return rest, false
		}
		if res == nil {
			return rest, true
		}
		c, isChar := res.(slip.Character)
		if !isChar || 0x80 <= c {
			return rest, false
		}
		rest = append(rest, byte(c))
	}
	return rest, false
}

// VerifC02LispRest: after j+1 calls of (read stream) the characters still in
// the stream (read-char until end of file) are a suffix of the text, the
// consumed part read alone gives exactly the j+1 objects returned, and the
// rest read alone gives exactly the remaining objects.
func VerifC02LispRest(n int, kind int, k int, sel int, j int) {
	src := zzC02Src(n, sel)
	scope := slip.NewScope()
	whole, wclass := zzC02ReadAll(src, scope)
	vrt.Assume(wclass == zzC02Value && j < len(whole))
	zzC02Carves(kind, sel, src)
	stream := zzC02Stream(kind, src, k)
	scope.Let(slip.Symbol("zzs"), stream)
	form := slip.List{slip.Symbol("read"), slip.Symbol("zzs")}
	for i := 0; i <= j; i++ {
		res, class := zzC02Eval(scope, form)
		vrt.Assert(class == zzC02Value, "read fails before the text is exhausted")
		vrt.Assert(zzC02Same(res, whole[i]), "read returns a different object than the whole read")
	}
	rest, ok := zzC02Drain(scope, n)
	vrt.Assert(ok, "read-char after read fails")
	vrt.Assert(len(rest) <= n, "more characters left than the text has")
	at := n - len(rest)
	same := true
	for i := range rest {
		if rest[i] != src[at+i] {
			same = false
		}
	}
	vrt.Assert(same, "the characters left after read are not the rest of the text")
	after, aclass := zzC02ReadAll(rest, scope)
	vrt.Reach("compared")
	vrt.Assert(aclass == zzC02Value && zzC02SameCode(after, whole[j+1:]), "the rest of the stream does not hold the remaining objects")
	// (a newline is appended: the end of the consumed part is not the end of the text)
	before, bclass := zzC02ReadAll(append(append([]byte{}, src[:at]...), '\n'), scope)
	vrt.Assert(bclass == zzC02Value && zzC02SameCode(before, whole[:j+1]), "read consumed more than the forms it returned")
}

// ---- read-from-string ----

// zzC02FormEnd: reference scanner over the alphabet ( ) " ' a 1 blank newline:
// the index just behind the first form of the text, or -1 if there is none.
func zzC02FormEnd(src []byte) int {
	i := 0
	for i < len(src) && (zzC02IsWS(src[i]) || src[i] == '\'') {
		i++
	}
	if len(src) <= i {
		return -1
	}
	switch src[i] {
	case '"':
		for i++; i < len(src); i++ {
			if src[i] == '"' {
				return i + 1
			}
		}
		return -1
	case '(':
		depth := 0
		inStr := false
		for ; i < len(src); i++ {
			c := src[i]
			switch {
			case inStr:
				inStr = c != '"'
			case c == '"':
				inStr = true
			case c == '(':
				depth++
			case c == ')':
				depth--
				if depth == 0 {
					return i + 1
				}
			}
		}
		return -1
	case ')':
		return -1
	}
	for i < len(src) && (src[i] == 'a' || src[i] == '1') {
		i++
	}
	return i
}

// VerifC02ReadFromString: (read-from-string text t nil :start s :end e
// [:preserve-whitespace t]) over a text of n symbolic ASCII bytes with symbolic
// s and e: the object is the first object of the sub-text, the position p is
// inside (s, e], the text from p to e holds exactly the remaining objects and
// the text from s to p exactly the object returned; an empty sub-text is end of
// file (a condition, or the eof value with eof-error-p nil).
//
// fs, fe: -1 = symbolic start / end, otherwise that fixed value.
func VerifC02ReadFromString(n int, sel int, pw int, eofMode int, fs int, fe int) {
	src := zzC02Src(n, sel)
	s, e := fs, fe
	if fs < 0 {
		s = vrt.Int("start")
	}
	if fe < 0 {
		e = vrt.Int("end")
	}
	vrt.Assume(0 <= s && s <= e && e <= n)
	scope := slip.NewScope()
	sub := src[s:e]
	whole, wclass := zzC02ReadAll(sub, scope)
	vrt.Assume(wclass == zzC02Value)
	marker := slip.NewStringStream(nil)
	scope.Let(slip.Symbol("zzeof"), marker)
	form := slip.List{slip.Symbol("read-from-string"), slip.String(src)}
	if eofMode == 1 {
		form = append(form, nil, slip.Symbol("zzeof"))
	} else {
		form = append(form, slip.True, nil)
	}
	form = append(form, slip.Symbol(":start"), slip.Fixnum(s), slip.Symbol(":end"), slip.Fixnum(e))
	if pw != 0 {
		form = append(form, slip.Symbol(":preserve-whitespace"), slip.True)
	}
	// start == length of the string is rejected as a bounding index error
	vrt.Carve("C02-read-from-string-start-at-end", s == n)
	// the white space after the form is looked for at the absolute position in
	// the sub-string: the region is where that skips more than the white space
	// that really follows the form (form end by the reference scanner)
	if (sel == 5 || sel == 6) && pw == 0 && 0 < s {
		if q := zzC02FormEnd(sub); 0 < q {
			real := 0
			for i := s + q; i < e && zzC02IsWS(src[i]); i++ {
				real++
			}
			wrong := 0
			for pos := s + q; pos < e-s && zzC02IsWS(sub[pos]); pos++ {
				wrong++
			}
			vrt.Carve("C02-read-from-string-skip-misaligned", real < wrong)
		}
	}
	res, class := zzC02Eval(scope, form)
	vrt.Reach("compared")
	vrt.Assert(class != zzC02Fault, "Go run-time fault in read-from-string")
	if len(whole) == 0 {
		if eofMode == 1 {
			vals, _ := res.(slip.Values)
			vrt.Assert(class == zzC02Value && len(vals) == 2 && vals[0] == slip.Object(marker),
				"read-from-string of an empty sub-text does not return the eof value")
		} else {
			vrt.Assert(class != zzC02Value, "read-from-string of an empty sub-text returns a value")
		}
		return
	}
	vrt.Assert(class == zzC02Value, "read-from-string fails on a text the whole read accepts")
	vals, isVals := res.(slip.Values)
	vrt.Assert(isVals && len(vals) == 2, "read-from-string does not return two values")
	vrt.Assert(zzC02Same(vals[0], whole[0]), "read-from-string returns a different object than the whole read")
	pf, isFix := vals[1].(slip.Fixnum)
	vrt.Assert(isFix, "the position is not a fixnum")
	p := int(pf)
	vrt.Assert(s < p && p <= e, "the position is outside the sub-text")
	after, aclass := zzC02ReadAll(src[p:e], scope)
	vrt.Assert(aclass == zzC02Value && zzC02SameCode(after, whole[1:]), "reading on from the reported position does not give the remaining objects")
	before, bclass := zzC02ReadAll(append(append([]byte{}, src[s:p]...), '\n'), scope)
	vrt.Assert(bclass == zzC02Value && zzC02SameCode(before, whole[:1]), "the text up to the reported position is not exactly the object returned")
	if pw != 0 {
		last := src[p-1]
		isSpaceChar := 3 <= p-s && src[p-3] == '#' && src[p-2] == '\\'
		vrt.Assert(!zzC02IsWS(last) || isSpaceChar, "with :preserve-whitespace the position is beyond the end of the form")
	}
}

// VerifC02ReadFromStringMB: the position value with a multi-byte character in
// the text (a concrete two-byte character inside a string literal, m symbolic
// ASCII bytes; where 0: the literal is in front, 1: it is behind): reading on
// from the reported position gives the second object.
func VerifC02ReadFromStringMB(m int, sel int, where int) {
	tail := zzC02Src(m, sel)
	var text []byte
	if where == 0 {
		text = append([]byte("\"é\""), tail...)
	} else {
		text = append(append([]byte{}, tail...), []byte("\"é\"")...)
	}
	chars := len(text) - 1 // one two-byte character
	scope := slip.NewScope()
	whole, wclass := zzC02ReadAll(text, scope)
	vrt.Assume(wclass == zzC02Value && 2 <= len(whole))
	// the position is a byte offset, :start a character index
	vrt.Carve("C02-read-from-string-byte-position", where == 0)
	form := slip.List{slip.Symbol("read-from-string"), slip.String(text)}
	res, class := zzC02Eval(scope, form)
	vrt.Assert(class == zzC02Value, "read-from-string fails on a text the whole read accepts")
	vals, isVals := res.(slip.Values)
	vrt.Assert(isVals && len(vals) == 2, "read-from-string does not return two values")
	pf, _ := vals[1].(slip.Fixnum)
	p := int(pf)
	vrt.Assert(0 < p && p < chars, "the position is not a character index inside the text")
	form2 := slip.List{slip.Symbol("read-from-string"), slip.String(text), slip.True, nil, slip.Symbol(":start"), pf}
	res2, class2 := zzC02Eval(scope, form2)
	vrt.Reach("compared")
	vrt.Assert(class2 == zzC02Value, "reading on from the reported position fails")
	vals2, _ := res2.(slip.Values)
	vrt.Assert(len(vals2) == 2 && zzC02Same(vals2[0], whole[1]), "reading on from the reported position gives a different object")
}

// ---- load ----

// VerifC02Load: (load stream) of a text delivered in pieces of at most k bytes
// evaluates the same forms as reading the text and evaluating it: the text is
// (setq zzv <token>) with a token of n symbolic bytes over digits, sign and the letter a.
func VerifC02Load(n int, k int) {
	tokb := vrt.Bytes("src", n)
	for _, c := range tokb {
		vrt.Assume(('0' <= c && c <= '9') || c == '-' || c == '+' || c == 'a')
	}
	text := append(append([]byte("(setq zzv '"), tokb...), []byte(") (setq zzw zzv)")...)
	ref := slip.NewScope()
	code, cclass := zzC02ReadAll(text, ref)
	vrt.Assume(cclass == zzC02Value)
	var want slip.Object
	func() {
		defer func() {
			if rec := recover(); rec != nil {
				cclass = zzC02Classify(rec)
			}
		}()
		code.Compile()
		code.Eval(ref, nil)
		want = ref.Get(slip.Symbol("zzw"))
	}()
	scope := slip.NewScope()
	scope.Let(slip.Symbol("zzs"), slip.NewInputStream(&zzC02Chunk{src: text, k: k}))
	_, class := zzC02Eval(scope, slip.List{slip.Symbol("load"), slip.Symbol("zzs")})
	vrt.Reach("compared")
	vrt.Assert(class != zzC02Fault, "Go run-time fault in load")
	vrt.Assert((class == zzC02Value) == (cclass == zzC02Value), "load of a stream ends differently from read and eval of the text")
	if class == zzC02Value {
		got := scope.Get(slip.Symbol("zzw"))
		vrt.Assert(zzC02Same(got, want), "load of a stream evaluates different objects than read and eval of the text")
	}
}

var _ = strconv.Itoa
