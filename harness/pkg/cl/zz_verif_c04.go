package cl

// C04 part (b): the argument counts a built-in accepts are the ones its own
// documented lambda list (FuncDoc.Args) allows.
//
// Every function of the real registry (built by the package inits) is called
// through its own Create/Caller().Call with n = 0..max+2 arguments; the
// outcome is classified (returned / arity condition / other condition / Go
// run-time fault / other panic) and compared with [min,max] computed from the
// FuncDoc by an independent walk over the & markers.

import (
	"github.com/ohler55/slip"
	vrt "github.com/ohler55/slip/zzvrt"
)

const (
	zzC04Returned = 0 // the call returned
	zzC04Arity    = 1 // condition "Too few/many arguments to ..."
	zzC04Cond     = 2 // any other condition
	zzC04GoFault  = 3 // Go run-time error (index out of range, nil map, ...)
	zzC04Other    = 4 // panic with a non-condition value (string, error)
)

// zzC04HasPrefix is a byte-wise prefix test (no strings package idiom shared
// with the code under test).
func zzC04HasPrefix(s, p string) bool {
	if len(s) < len(p) {
		return false
	}
	for i := 0; i < len(p); i++ {
		if s[i] != p[i] {
			return false
		}
	}
	return true
}

func zzC04IsArityMsg(msg string) bool {
	return zzC04HasPrefix(msg, "Too few arguments to ") || zzC04HasPrefix(msg, "Too many arguments to ")
}

func zzC04Classify(rec any) int {
	switch tr := rec.(type) {
	case *slip.Panic:
		if zzC04IsArityMsg(tr.Message) {
			return zzC04Arity
		}
		return zzC04Cond
	case slip.Instance:
		if mv, has := tr.SlotValue(slip.Symbol("message")); has {
			if ms, ok := mv.(slip.String); ok && zzC04IsArityMsg(string(ms)) {
				return zzC04Arity
			}
		}
		return zzC04Cond
	case interface{ RuntimeError() }:
		return zzC04GoFault
	default:
		return zzC04Other
	}
}

// zzC04DocArity computes [min,max] from the documented lambda list; max < 0
// means unbounded.
func zzC04DocArity(doc *slip.FuncDoc) (lo, hi int) {
	mode := 0 // 0 required, 1 optional, 2 rest, 3 key, 4 aux
	unbounded := false
	for i := 0; i < len(doc.Args); i++ {
		name := doc.Args[i].Name
		if 0 < len(name) && name[0] == '&' {
			switch zzC04Lower(name) {
			case "&optional":
				mode = 1
			case "&rest", "&body":
				mode = 2
				unbounded = true
			case "&key":
				mode = 3
			case "&allow-other-keys":
				unbounded = true
			case "&aux":
				mode = 4
			}
			continue
		}
		switch mode {
		case 0:
			lo++
			hi++
		case 1:
			hi++
		case 3:
			hi += 2
		}
	}
	if unbounded {
		hi = -1
	}
	return
}

func zzC04Lower(s string) string {
	b := make([]byte, len(s))
	for i := 0; i < len(s); i++ {
		c := s[i]
		if 'A' <= c && c <= 'Z' {
			c += 'a' - 'A'
		}
		b[i] = c
	}
	return string(b)
}

func zzC04Contains(s, sub string) bool {
	for i := 0; i+len(sub) <= len(s); i++ {
		if s[i:i+len(sub)] == sub {
			return true
		}
	}
	return false
}

// zzC04Gen produces argument values from documented types.
type zzC04Gen struct {
	scope *slip.Scope
	kind  int
	cache map[string]slip.Object
}

func (g *zzC04Gen) fix() slip.Object {
	return slip.Fixnum(2)
}

func (g *zzC04Gen) lisp(src string) slip.Object {
	if v, has := g.cache[src]; has {
		return v
	}
	var v slip.Object
	func() {
		defer func() {
			if rec := recover(); rec != nil {
				v = nil
			}
		}()
		v = slip.ReadString(src, g.scope).Eval(g.scope, nil)
	}()
	g.cache[src] = v
	return v
}

// typed returns a value of the documented type (best effort).
func (g *zzC04Gen) typed(typ string) slip.Object {
	t := zzC04Lower(typ)
	// first alternative decides
	for i := 0; i < len(t); i++ {
		if t[i] == '|' {
			t = t[:i]
			break
		}
	}
	switch t {
	case "fixnum", "integer", "number", "real", "rational", "octet", "bit", "unsigned-byte", "signed-byte":
		return g.fix()
	case "float", "double-float", "single-float", "short-float", "long-float":
		return slip.DoubleFloat(1.5)
	case "string", "pathname":
		return slip.String("abc")
	case "character":
		return slip.Character('a')
	case "symbol":
		if zzC04Contains(zzC04Lower(typ), "lambda") || zzC04Contains(zzC04Lower(typ), "function") {
			return slip.Symbol("list")
		}
		return slip.Symbol("zzc04sym")
	case "function", "lambda", "function-designator", "function-name":
		return slip.Symbol("list")
	case "keyword":
		return slip.Symbol(":zzc04key")
	case "list", "cons", "sequence", "sequemce", "property list", "plist", "list of strings", "list of packages":
		return slip.List{slip.Fixnum(1), slip.Fixnum(2)}
	case "association list", "alist":
		return slip.List{slip.List{slip.Fixnum(1), slip.Tail{Value: slip.Fixnum(2)}}}
	case "boolean", "nil", "t":
		return nil
	case "time", "bag":
		// slip.Time wraps time.Time and bags wrap ojg values: the engine cannot
		// run their methods (native payload under a module-defined type), so
		// these parameters get nil and the call stops at the type check.
		return nil
	case "object", "form", "value", "statement", "":
		return g.fix()
	case "hash-table":
		return g.lisp("(make-hash-table)")
	case "array":
		return g.lisp("(make-array '(2 2))")
	case "vector", "simple-vector":
		return g.lisp("(vector 1 2)")
	case "bit-array", "bit-vector", "simple-bit-array", "simple-bit-vector":
		return g.lisp("(make-array 4 :element-type 'bit)")
	case "stream", "output-stream", "string-output-stream", "string-stream":
		return g.lisp("(make-string-output-stream)")
	case "input-stream":
		return g.lisp("(make-string-input-stream \"abc\")")
	case "package", "package designator":
		return g.lisp("(find-package 'common-lisp-user)")
	case "instance", "standard-object":
		return g.lisp("(make-instance 'vanilla-flavor)")
	case "class", "flavor", "class designator":
		return g.lisp("(find-class 'vanilla-flavor)")
	case "random-state":
		return g.lisp("(make-random-state)")
	case "octets":
		return g.lisp("(gi:make-octets 2)")
	case "uuid":
		return g.lisp("(gi:make-uuid)")
	case "condition", "simple-condition", "arithmetic-error", "cell-error", "file-error", "package-error",
		"print-not-readable", "stream-error", "type-error", "unbound-slot", "invalid-method-error":
		return g.lisp("(make-condition '" + t + ")")
	}
	return nil
}

// zzC04Args builds n arguments following the documented lambda list: required
// and optional parameters by their documented type, &rest elements by the rest
// type, &key as :name value pairs; arguments beyond the documented list repeat
// the key pairs (duplicates) or are fixnums.  kind 1: all fixnums; kind 2: all nil.
func zzC04Args(g *zzC04Gen, doc *slip.FuncDoc, n int) slip.List {
	args := make(slip.List, 0, n)
	if g.kind == 1 {
		for len(args) < n {
			args = append(args, g.fix())
		}
		return args
	}
	if g.kind == 2 {
		for len(args) < n {
			args = append(args, nil)
		}
		return args
	}
	mode := 0
	var keys []*slip.DocArg
	var rest *slip.DocArg
	for i := 0; i < len(doc.Args) && len(args) < n; i++ {
		da := doc.Args[i]
		if 0 < len(da.Name) && da.Name[0] == '&' {
			switch zzC04Lower(da.Name) {
			case "&optional":
				mode = 1
			case "&rest", "&body":
				mode = 2
			case "&key":
				mode = 3
			case "&aux":
				mode = 4
			}
			continue
		}
		switch mode {
		case 0, 1:
			args = append(args, g.typed(da.Type))
		case 2:
			if rest == nil {
				rest = da
			}
		case 3:
			keys = append(keys, da)
		}
	}
	if rest != nil && len(keys) == 0 {
		for len(args) < n {
			args = append(args, g.typed(rest.Type))
		}
	}
	for k := 0; 0 < len(keys) && len(args) < n; k++ {
		da := keys[k%len(keys)]
		name := da.Name
		if 0 < len(name) && name[0] == ':' {
			name = name[1:]
		}
		args = append(args, slip.Symbol(":"+name))
		if len(args) < n {
			args = append(args, g.typed(da.Type))
		}
	}
	for len(args) < n {
		args = append(args, g.fix())
	}
	return args
}

// zzC04Call creates the function object and calls it with the arguments as
// evaluated values (the way Function.Eval calls Self.Call).
func zzC04Call(fi *slip.FuncInfo, scope *slip.Scope, args slip.List) (class int) {
	defer func() {
		if rec := recover(); rec != nil {
			class = zzC04Classify(rec)
		}
	}()
	obj := fi.Create(args)
	obj.(slip.Funky).Caller().Call(scope, args, 0)
	return zzC04Returned
}

func zzC04Find(key string) *slip.FuncInfo {
	for i := 0; i < len(key); i++ {
		if key[i] == ':' {
			p := slip.FindPackage(key[:i])
			if p == nil {
				return nil
			}
			return p.GetFunc(key[i+1:])
		}
	}
	return nil
}

// zzC04Top is the largest argument count tried.
func zzC04Top(lo, hi int) int {
	top := hi + 2
	if hi < 0 {
		top = lo + 3
	}
	if 16 < top {
		top = 16
	}
	return top
}

// VerifC04Registry: the table zzC04Names and the registry built by the package
// inits (packages bag, clos, common-lisp, flavors, generic, gi) are the same
// set of functions, so that "every built-in" really is every built-in.
func VerifC04Registry() {
	inTable := map[string]bool{}
	for i := 0; i < len(zzC04Names); i++ {
		vrt.Assert(!inTable[zzC04Names[i]], "duplicate entry in the C04 function table")
		inTable[zzC04Names[i]] = true
	}
	pkgs := []string{"bag", "clos", "common-lisp", "flavors", "generic", "gi"}
	count := 0
	for _, pn := range pkgs {
		p := slip.FindPackage(pn)
		vrt.Assert(p != nil && p.Name == pn, "package missing")
		var missing []string
		p.EachFuncInfo(func(fi *slip.FuncInfo) {
			if fi.Pkg != p {
				return // inherited through use-package, listed under its own package
			}
			count++
			if !inTable[pn+":"+fi.Name] {
				missing = append(missing, fi.Name)
			}
		})
		vrt.Assert(len(missing) == 0, "a registry function is missing from the C04 function table (regenerate it)")
	}
	vrt.Assert(count == len(zzC04Names), "the C04 function table has entries that are not in the registry")
	for i := 0; i < len(zzC04Names); i++ {
		fi := zzC04Find(zzC04Names[i])
		vrt.Assert(fi != nil && fi.Doc != nil && fi.Create != nil, "table entry without FuncInfo/FuncDoc/Create")
	}
	for key := range zzC04Excluded {
		vrt.Assert(inTable[key], "exclusion list names an unknown function")
	}
	for key := range zzC04InRangeSkipped {
		vrt.Assert(inTable[key], "in-range skip list names an unknown function")
	}
	for i := range zzC04Known {
		vrt.Assert(inTable[zzC04Known[i].key], "known-mismatch table names an unknown function")
	}
	for i := range zzC04KnownTails {
		vrt.Assert(inTable[zzC04KnownTails[i].key], "known key-tail table names an unknown function")
	}
	vrt.Note("functions", count, "excluded", len(zzC04Excluded), "in-range-skipped", len(zzC04InRangeSkipped))
	vrt.Reach("registry")
}

// VerifC04Probe is a development aid (native exploration): class of one call.
func VerifC04Probe(idx, n, kind int) int {
	fi := zzC04Find(zzC04Names[idx])
	zzC04Streams()
	scope := slip.NewScope()
	g := &zzC04Gen{scope: scope, kind: kind, cache: map[string]slip.Object{}}
	return zzC04Call(fi, scope, zzC04Args(g, fi.Doc, n))
}

// VerifC04ProbeDoc returns name, min, max, top for a table index (development aid).
func VerifC04ProbeDoc(idx int) (string, int, int, int) {
	if idx < 0 || len(zzC04Names) <= idx {
		return "", 0, 0, -1
	}
	fi := zzC04Find(zzC04Names[idx])
	lo, hi := zzC04DocArity(fi.Doc)
	if _, skip := zzC04Excluded[zzC04Names[idx]]; skip {
		return zzC04Names[idx], lo, hi, -1
	}
	return zzC04Names[idx], lo, hi, zzC04Top(lo, hi)
}

// zzC04Streams points the standard streams at in-memory string streams so
// that printing and reading built-ins neither touch the process' stdio nor
// block.
func zzC04Streams() {
	slip.StandardOutput = slip.NewStringStream(nil)
	slip.ErrorOutput = slip.NewStringStream(nil)
	slip.TraceOutput = slip.NewStringStream(nil)
	slip.StandardInput = slip.NewStringStream([]byte("zz\n"))
}

// VerifC04Arity: for table entry idx and every argument count n (vrt.Choice)
// from 0 to the documented maximum + 2, the call is rejected by an arity
// condition exactly when n lies outside the documented [min,max].
func VerifC04Arity(idx int) {
	key := zzC04Names[idx]
	fi := zzC04Find(key)
	vrt.Assert(fi != nil && fi.Doc != nil, "table entry is not in the registry")
	lo, hi := zzC04DocArity(fi.Doc)
	if _, skip := zzC04Excluded[key]; skip {
		vrt.Reach("excluded")
		return
	}
	top := zzC04Top(lo, hi)
	n := vrt.Choice("n", top+1)
	inRange := lo <= n && (hi < 0 || n <= hi)
	if _, skip := zzC04InRangeSkipped[key]; skip && inRange {
		vrt.Reach("in-range-skipped")
		return
	}
	fam := zzC04KnownFam(key, n)
	for f := 0; f < len(zzC04FamIDs); f++ {
		vrt.Carve(zzC04FamIDs[f], fam == f)
	}
	zzC04Streams()
	for kind := 0; kind < 3; kind++ {
		scope := slip.NewScope()
		g := &zzC04Gen{scope: scope, kind: kind, cache: map[string]slip.Object{}}
		args := zzC04Args(g, fi.Doc, n)
		class := zzC04Call(fi, scope, args)
		vrt.Note("class", key, n, kind, class)
		vrt.Reach("called")
		if inRange {
			vrt.Assert(class != zzC04Arity, "a documented argument count is rejected by the arity check")
		} else {
			vrt.Assert(class == zzC04Arity, "an argument count outside the documented lambda list is not rejected by the arity check")
		}
	}
}

// zzC04Excluded lists the built-ins that VerifC04Arity does not call, with the
// reason.  Everything else in zzC04Names is called.
var zzC04Excluded = map[string]string{
	// change the state of the checking process or of the machine
	"gi:clearenv":    "clears the environment of the checking process",
	"gi:setenv":      "changes the environment of the checking process",
	"gi:unsetenv":    "changes the environment of the checking process",
	"gi:send-signal": "sends a signal to a process",
	"gi:run":         "starts a goroutine",
	"gi:make-app":    "writes an application directory and runs the Go tool chain",
	// block, sleep or never return
	"common-lisp:sleep": "sleeps",
	"common-lisp:loop":  "(loop) without clauses never returns",
	"gi:signal-wait":    "blocks until a signal arrives",
	"gi:select":         "blocks on channels",
	"gi:time-after":     "starts a timer goroutine",
	"gi:time-ticker":    "starts a ticker goroutine",
	"gi:channel-pop":    "blocks on an empty channel",
	"gi:channel-push":   "blocks on a full channel",
	"gi:range":          "blocks on a channel",
	"gi:read-push":      "pushes to a channel (blocks when full)",
	// create, modify or delete files
	"common-lisp:open":                     "creates files",
	"common-lisp:delete-file":              "deletes files",
	"common-lisp:rename-file":              "renames files",
	"common-lisp:ensure-directories-exist": "creates directories",
	"common-lisp:dribble":                  "creates a file and redirects the standard streams",
	"common-lisp:load":                     "reads and evaluates a file",
	"common-lisp:require":                  "reads and evaluates files",
	"common-lisp:with-open-file":           "creates files",
	"gi:encrypt-file":                      "writes files",
	"gi:decrypt-file":                      "writes files",
	"bag:load-bag":                         "reads a file",
	// not executable by the engine even outside the documented range
	"gi:unzip": "documented (data) but CheckArgCount(1, 12): extra arguments reach compress/gzip over an interpreted reader, which the engine cannot run (natively (unzip data 1) is a nil dereference)",
}

// zzC04InRangeSkipped lists built-ins whose body the engine cannot execute
// (reason given).  They are only called with argument counts outside the
// documented range, where a correct function stops at its arity check.
var zzC04InRangeSkipped = map[string]string{
	"common-lisp:file-author":                 "syscall.Stat",
	"common-lisp:lisp-implementation-version": "reads runtime/debug build info (native struct fields)",
	"common-lisp:machine-instance":            "os.Hostname result handling (native struct fields)",
	"common-lisp:room":                        "runtime.ReadMemStats",
	"gi:memstat":                              "runtime.ReadMemStats",
	"gi:snapshot":                             "walks native runtime structures",
	"gi:zip":                                  "compress/gzip over an interpreted writer",
	"common-lisp:print-unreadable-object":     "prints the address of its argument (uintptr conversion)",
	"common-lisp:decode-universal-time":       "methods of time.Time / time.Weekday values",
	"bag:discover-json":                       "ojg discover with an interpreted callback",
}

// ---- part (b), keyword tails the documented lambda list does not allow ----

// zzC04KeyDoc returns the number of positional (required + optional)
// parameters and the first documented &key parameter (nil without &key).
func zzC04KeyDoc(doc *slip.FuncDoc) (npos int, first *slip.DocArg) {
	mode := 0
	for i := 0; i < len(doc.Args); i++ {
		da := doc.Args[i]
		if 0 < len(da.Name) && da.Name[0] == '&' {
			switch zzC04Lower(da.Name) {
			case "&optional":
				mode = 1
			case "&rest", "&body":
				mode = 2
			case "&key":
				mode = 3
			case "&aux":
				mode = 4
			}
			continue
		}
		switch mode {
		case 0, 1:
			npos++
		case 2:
			return npos, nil // &rest together with &key: the tail is also the rest list
		case 3:
			if first == nil {
				first = da
			}
		}
	}
	return
}

// zzC04KeyTailArgs: all positional parameters by their documented type, then
// variant 0: a dangling unknown keyword (:zzc04bogus)
// variant 1: the first documented key with a value, then the same key again
// without a value.
func zzC04KeyTailArgs(g *zzC04Gen, doc *slip.FuncDoc, variant int) slip.List {
	npos, first := zzC04KeyDoc(doc)
	args := zzC04Args(g, doc, npos)
	if variant == 0 {
		return append(args, slip.Symbol(":zzc04bogus"))
	}
	name := first.Name
	if 0 < len(name) && name[0] == ':' {
		name = name[1:]
	}
	return append(args, slip.Symbol(":"+name), g.typed(first.Type), slip.Symbol(":"+name))
}

// VerifC04KeyTail: a built-in documented with &key (and without &rest) that is
// called with a keyword tail ending in a keyword without value - unknown, or
// one already supplied - does not return a value and does not end in a Go
// run-time fault: it is rejected with a condition.
func VerifC04KeyTail(idx int) {
	key := zzC04Names[idx]
	fi := zzC04Find(key)
	vrt.Assert(fi != nil && fi.Doc != nil, "table entry is not in the registry")
	_, first := zzC04KeyDoc(fi.Doc)
	_, skip1 := zzC04Excluded[key]
	_, skip2 := zzC04InRangeSkipped[key]
	if first == nil || skip1 || skip2 {
		vrt.Reach("not-applicable")
		return
	}
	variant := vrt.Choice("variant", 2)
	tfam := zzC04KnownTail(key, variant)
	vrt.Carve("C04-arity-dangling-keyword-accepted", tfam == 0)
	vrt.Carve(zzC04FamIDs[zzC04FamGoFault], tfam == 1)
	zzC04Streams()
	scope := slip.NewScope()
	g := &zzC04Gen{scope: scope, kind: 0, cache: map[string]slip.Object{}}
	args := zzC04KeyTailArgs(g, fi.Doc, variant)
	class := zzC04Call(fi, scope, args)
	vrt.Note("class", key, variant, class)
	vrt.Reach("called")
	vrt.Assert(class != zzC04Returned, "a keyword tail ending in a keyword without value is accepted (the call returns)")
	vrt.Assert(class != zzC04GoFault, "a keyword tail ending in a keyword without value ends in a Go run-time fault")
}

// VerifC04ProbeKeyTail is a development aid: class of one key-tail call, -1 when not applicable.
func VerifC04ProbeKeyTail(idx, variant int) int {
	key := zzC04Names[idx]
	fi := zzC04Find(key)
	_, first := zzC04KeyDoc(fi.Doc)
	_, skip1 := zzC04Excluded[key]
	_, skip2 := zzC04InRangeSkipped[key]
	if first == nil || skip1 || skip2 {
		return -1
	}
	zzC04Streams()
	scope := slip.NewScope()
	g := &zzC04Gen{scope: scope, kind: 0, cache: map[string]slip.Object{}}
	return zzC04Call(fi, scope, zzC04KeyTailArgs(g, fi.Doc, variant))
}

// ---- part (a) through the registry: lambda / funcall / apply / defun ----

func zzC04ViaName(prefix string, i int) string {
	return prefix + string(rune('0'+i))
}

// VerifC04Via: a lambda list (nreq required, nopt optionals with defaults
// 100+i, optional &rest, nkey keys with defaults 200+j) is called through the
// evaluator by one of four routes with symbolic fixnum arguments; the body
// returns the list of all parameters, which must be the reference binding.
// route 0: ((lambda ...) args)  1: (funcall (lambda ...) args)
// route 2: (apply (lambda ...) first (list rest...))  3: defun + call.
// perm 1 passes the keyword pairs in reverse parameter order.
// vmode 1: the argument for every &optional parameter and the value of every
// keyword pair is chosen (vrt.Choice) among a symbolic fixnum, an explicit nil
// and the quoted symbol zzs: a supplied nil stays nil, it is not replaced by
// the parameter's (non-nil) default.
func VerifC04Via(route, nreq, nopt, rest, nkey, nargs, perm, vmode int) {
	npos := nreq + nopt
	tail := 0
	if npos < nargs {
		tail = nargs - npos
	}
	// stay outside the recorded Lambda.Call defects (they are checked and
	// carved in C04.bind): enough required arguments, no &rest together with
	// &key, well formed keyword part without duplicates
	vrt.Assume(nreq <= nargs && !(rest != 0 && 0 < nkey))
	if 0 < nkey {
		vrt.Assume(tail%2 == 0 && tail/2 <= nkey)
	}
	ll := slip.List{}
	body := slip.List{slip.Symbol("list")}
	for i := 0; i < nreq; i++ {
		ll = append(ll, slip.Symbol(zzC04ViaName("r", i)))
		body = append(body, slip.Symbol(zzC04ViaName("r", i)))
	}
	if 0 < nopt {
		ll = append(ll, slip.Symbol("&optional"))
		for i := 0; i < nopt; i++ {
			ll = append(ll, slip.List{slip.Symbol(zzC04ViaName("o", i)), slip.Fixnum(100 + i)})
			body = append(body, slip.Symbol(zzC04ViaName("o", i)))
		}
	}
	if rest != 0 {
		ll = append(ll, slip.Symbol("&rest"), slip.Symbol("rs"))
		body = append(body, slip.Symbol("rs"))
	}
	if 0 < nkey {
		ll = append(ll, slip.Symbol("&key"))
		for i := 0; i < nkey; i++ {
			ll = append(ll, slip.List{slip.Symbol(zzC04ViaName("k", i)), slip.Fixnum(200 + i)})
			body = append(body, slip.Symbol(zzC04ViaName("k", i)))
		}
	}
	// actual arguments and expected result
	vals := make([]int64, nargs)
	for i := range vals {
		vals[i] = vrt.Int64("a" + string(rune('0'+i)))
	}
	// pick returns the argument form and the value it evaluates to
	pick := func(i int) (slip.Object, slip.Object) {
		if vmode != 0 {
			switch vrt.Choice("c"+string(rune('0'+i)), 3) {
			case 1:
				return nil, nil
			case 2:
				return slip.List{slip.Symbol("quote"), slip.Symbol("zzs")}, slip.Symbol("zzs")
			}
		}
		return slip.Fixnum(vals[i]), slip.Fixnum(vals[i])
	}
	args := slip.List{}
	var want []slip.Object
	reject := false
	for i := 0; i < npos; i++ {
		if i < nreq {
			args = append(args, slip.Fixnum(vals[i]))
			want = append(want, slip.Fixnum(vals[i]))
		} else if i < nargs {
			f, v := pick(i)
			args = append(args, f)
			want = append(want, v)
		} else {
			want = append(want, slip.Fixnum(100+i-nreq))
		}
	}
	switch {
	case rest != 0:
		var rl slip.List
		for i := npos; i < nargs; i++ {
			args = append(args, slip.Fixnum(vals[i]))
			rl = append(rl, slip.Fixnum(vals[i]))
		}
		if len(rl) == 0 {
			want = append(want, nil)
		} else {
			want = append(want, rl)
		}
	case 0 < nkey:
		given := make([]slip.Object, nkey)
		has := make([]bool, nkey)
		for p := 0; p < tail/2; p++ {
			k := p
			if perm != 0 {
				k = nkey - 1 - p
			}
			f, v := pick(npos + 2*p + 1)
			args = append(args, slip.Symbol(":"+zzC04ViaName("k", k)), f)
			given[k] = v
			has[k] = true
		}
		for k := 0; k < nkey; k++ {
			if has[k] {
				want = append(want, given[k])
			} else {
				want = append(want, slip.Fixnum(200+k))
			}
		}
	default:
		for i := npos; i < nargs; i++ {
			args = append(args, slip.Fixnum(vals[i]))
			reject = true
		}
	}
	lam := slip.List{slip.Symbol("lambda"), ll, body}
	var form slip.List
	switch route {
	case 0:
		form = append(slip.List{lam}, args...)
	case 1:
		form = append(slip.List{slip.Symbol("funcall"), lam}, args...)
	case 2:
		form = slip.List{slip.Symbol("apply"), lam}
		if 0 < len(args) {
			form = append(form, args[0])
			form = append(form, append(slip.List{slip.Symbol("list")}, args[1:]...))
		} else {
			form = append(form, nil)
		}
	default:
		form = slip.List{slip.Symbol("progn"),
			slip.List{slip.Symbol("defun"), slip.Symbol("zzc04via"), ll, body},
			append(slip.List{slip.Symbol("zzc04via")}, args...)}
	}
	zzC04Streams()
	scope := slip.NewScope()
	var got slip.Object
	class := zzC04Returned
	func() {
		defer func() {
			if rec := recover(); rec != nil {
				class = zzC04Classify(rec)
			}
		}()
		got = scope.Eval(form, 0)
	}()
	// ((funcall f) with no further argument used to be rejected by funcall's own
	// arity check; repaired in slip, so it is asserted like every other call)
	vrt.Reach("evaluated")
	vrt.Assert(class != zzC04GoFault, "Go run-time fault")
	if reject {
		vrt.Assert(class != zzC04Returned, "too many arguments accepted")
		return
	}
	vrt.Assert(class == zzC04Returned, "call allowed by the lambda list rejected")
	gl, ok := got.(slip.List)
	vrt.Assert(ok && len(gl) == len(want), "body did not return the parameter list")
	for i := range want {
		switch tw := want[i].(type) {
		case nil:
			vrt.Assert(gl[i] == nil, "parameter should be nil (a supplied nil is not replaced by the default)")
		case slip.Fixnum:
			gf, isF := gl[i].(slip.Fixnum)
			vrt.Assert(isF && gf == tw, "parameter bound to the wrong value")
		case slip.Symbol:
			gs, isS := gl[i].(slip.Symbol)
			vrt.Assert(isS && string(gs) == string(tw), "parameter bound to the wrong value (symbol expected)")
		case slip.List:
			rl, isL := gl[i].(slip.List)
			vrt.Assert(isL && len(rl) == len(tw), "&rest list has the wrong length")
			for j := range tw {
				rf, isF := rl[j].(slip.Fixnum)
				vrt.Assert(isF && rf == tw[j].(slip.Fixnum), "&rest element wrong")
			}
		}
	}
}
