package cl

// C14 (continued): remove-duplicates / delete-duplicates, member, assoc, rassoc
// and their -if forms.

import (
	"strconv"

	"github.com/ohler55/slip"
	vrt "github.com/ohler55/slip/zzvrt"
)

// zzC14Key is the reference of the harness key callers on element value v of a
// sequence of the given kind: the key value and whether it is a character.
func zzC14Key(kind, keyMode int, v int64) (int64, bool) {
	switch keyMode {
	case 2:
		return v + 1, false
	case 6:
		return v >> 1, false
	}
	return v, kind == zzC14String
}

// zzC14Test2 is the reference of the two argument tests: absent = equal
// (same type, same value), 3 = less, 5 = same value.
func zzC14Test2(tstMode int, a int64, aCh bool, b int64, bCh bool) bool {
	switch tstMode {
	case 3:
		return a < b
	case 5:
		return a == b
	}
	return aCh == bCh && a == b
}

// zzC14Pred1 is the reference of the one argument predicate (mode 4).
func zzC14Pred1(k int64, ch bool) bool {
	if ch {
		return zzC14Pivot < k
	}
	return 0 < k
}

func zzC14KeyTestArgs(keyMode, tstMode int) slip.List {
	var kw slip.List
	if keyMode != 0 {
		kw = append(kw, slip.Symbol(":key"), zzC14Quote(zzC14NewFn(keyMode)))
	}
	if tstMode != 0 {
		kw = append(kw, slip.Symbol(":test"), zzC14Quote(zzC14NewFn(tstMode)))
	}
	return kw
}

// VerifC14RemoveDuplicates: (remove-duplicates seq ...) / (delete-duplicates
// seq ...) with an equivalence as test (absent = equal, or mode 5 "same value").
func VerifC14RemoveDuplicates(kind, n, keyMode, tstMode, fn int) {
	c := zzC14NewCall(kind, n, keyMode, tstMode, false)
	s, e, cls := c.bounds()
	zzC14Carves(c, "remove-duplicates", s, e, cls)
	scope := slip.NewScope()
	name := [...]string{"remove-duplicates", "delete-duplicates"}[fn]
	form := slip.List{slip.Symbol(name), zzC14Quote(zzC14Seq(c.kind, c.vals))}
	form = append(form, c.keywords()...)
	out := zzC14Eval(scope, form)
	if !zzC14Check(name, out, cls) {
		return
	}
	// element i of the range is dropped when a later (from-end: an earlier)
	// element of the range matches it
	var want []int64
	for i := 0; i < c.n; i++ {
		drop := false
		if s <= int64(i) && int64(i) < e {
			ki, ci := zzC14Key(kind, keyMode, c.vals[i])
			for j := 0; j < c.n; j++ {
				if int64(j) < s || e <= int64(j) || i == j {
					continue
				}
				if (c.fromEnd() && j < i) || (!c.fromEnd() && i < j) {
					kj, cj := zzC14Key(kind, keyMode, c.vals[j])
					if zzC14Test2(tstMode, ki, ci, kj, cj) {
						drop = true
					}
				}
			}
		}
		if !drop {
			want = append(want, c.vals[i])
		}
	}
	vrt.Assert(zzC14IsSeq(c.kind, out.val, want), name+": wrong result sequence")
}

// VerifC14Member: (member item list :key :test) and (member-if pred list :key).
func VerifC14Member(n, keyMode, tstMode, fn int) {
	vals := zzC14Elems(zzC14List, n)
	item := vrt.Int64("item")
	scope := slip.NewScope()
	name := [...]string{"member", "member-if"}[fn]
	form := slip.List{slip.Symbol(name)}
	if fn == 1 {
		form = append(form, zzC14Quote(zzC14NewFn(4)))
	} else {
		form = append(form, slip.Fixnum(item))
	}
	form = append(form, zzC14Quote(zzC14Seq(zzC14List, vals)))
	form = append(form, zzC14KeyTestArgs(keyMode, tstMode)...)
	out := zzC14Eval(scope, form)
	vrt.Reach("compared")
	vrt.Assert(out.class == zzC14Value, name+": no value for a valid call")
	pos := -1
	for i := n - 1; 0 <= i; i-- {
		k, ch := zzC14Key(zzC14List, keyMode, vals[i])
		var sat bool
		if fn == 1 {
			sat = zzC14Pred1(k, ch)
		} else {
			sat = zzC14Test2(tstMode, item, false, k, ch)
		}
		if sat {
			pos = i
		}
	}
	if pos < 0 {
		vrt.Assert(out.val == nil, name+": nothing satisfies the test but a value was returned")
	} else {
		vrt.Assert(zzC14IsSeq(zzC14List, out.val, vals[pos:]), name+": wrong tail")
	}
}

// VerifC14Assoc: assoc, assoc-if, assoc-if-not, rassoc, rassoc-if on an alist
// of n conses (k_i . v_i); nilAt < n inserts a nil entry (to be ignored)
// before pair nilAt.
func VerifC14Assoc(n, keyMode, tstMode, fn, nilAt int) {
	ks := make([]int64, n)
	vs := make([]int64, n)
	var alist slip.List
	for i := 0; i < n; i++ {
		ks[i] = vrt.Int64("k" + strconv.Itoa(i))
		vs[i] = vrt.Int64("v" + strconv.Itoa(i))
		if i == nilAt {
			alist = append(alist, nil)
		}
		alist = append(alist, slip.List{slip.Fixnum(ks[i]), slip.Tail{Value: slip.Fixnum(vs[i])}})
	}
	var aobj slip.Object
	if 0 < len(alist) {
		aobj = alist
	}
	item := vrt.Int64("item")
	scope := slip.NewScope()
	name := [...]string{"assoc", "assoc-if", "assoc-if-not", "rassoc", "rassoc-if"}[fn]
	isIf := fn == 1 || fn == 2 || fn == 4
	form := slip.List{slip.Symbol(name)}
	if isIf {
		form = append(form, zzC14Quote(zzC14NewFn(4)))
	} else {
		form = append(form, slip.Fixnum(item))
	}
	form = append(form, zzC14Quote(aobj))
	form = append(form, zzC14KeyTestArgs(keyMode, tstMode)...)
	vrt.Carve("C14-valid-args-rejected", n == 0)
	vrt.Carve("C14-assoc-test-args-swapped", !isIf && tstMode == 3)
	out := zzC14Eval(scope, form)
	vrt.Reach("compared")
	vrt.Assert(out.class == zzC14Value, name+": no value for a valid call")
	pos := -1
	for i := n - 1; 0 <= i; i-- {
		x := ks[i]
		if 3 <= fn {
			x = vs[i]
		}
		k, ch := zzC14Key(zzC14List, keyMode, x)
		var sat bool
		switch {
		case fn == 2:
			sat = !zzC14Pred1(k, ch)
		case isIf:
			sat = zzC14Pred1(k, ch)
		default:
			sat = zzC14Test2(tstMode, item, false, k, ch)
		}
		if sat {
			pos = i
		}
	}
	if pos < 0 {
		vrt.Assert(out.val == nil, name+": nothing satisfies the test but a value was returned")
		return
	}
	pair, ok := out.val.(slip.List)
	vrt.Assert(ok && len(pair) == 2, name+": result is not a cons")
	car, ok1 := pair[0].(slip.Fixnum)
	tail, ok2 := pair[1].(slip.Tail)
	vrt.Assert(ok1 && ok2, name+": result is not one of the conses")
	cdr, ok3 := tail.Value.(slip.Fixnum)
	vrt.Assert(ok3 && int64(car) == ks[pos] && int64(cdr) == vs[pos], name+": wrong cons")
}
