package cl

// C13 — package visibility is coherent with the use/export graph after any history.
//
// The harness evaluates real Lisp forms (defpackage, in-package, defvar, setq, makunbound,
// defun, fmakunbound, export, unexport, use-package, unuse-package) through the function
// registry and afterwards resolves every name (plain, p:name, p::name; variables by evaluating
// the symbol, functions by calling them) with *package* set to every test package. The observed
// resolution is compared with a reference model (zzC13Model) that keeps only, per package and
// name, (symbol present?, bound?, value, exported?) and the uses edges, and recomputes
// visibility from them. Values are symbolic fixnums, so a stale or foreign binding is a value
// mismatch decided by the solver.

import (
	"strconv"

	"github.com/ohler55/slip"
	vrt "github.com/ohler55/slip/zzvrt"
)

const (
	zzC13MaxP = 3
	zzC13MaxN = 2
)

// operation kinds
const (
	zzC13Define    = iota // (defvar v X) / (defun f () X) in cur
	zzC13Setq             // (setq v X) in cur (variables only)
	zzC13Unbind           // (makunbound 'v) / (fmakunbound 'f) in cur
	zzC13Export           // (export 'n) in cur
	zzC13Unexport         // (unexport 'n) in cur
	zzC13Use              // (use-package "tgt") in cur
	zzC13Unuse            // (unuse-package "tgt") in cur
	zzC13Export2          // (export 'n "tgt") evaluated in cur
	zzC13Unexport2        // (unexport 'n "tgt") evaluated in cur
	zzC13Use2             // (use-package "tgt" "tgt2") evaluated in cur: tgt2 uses tgt
	zzC13Unuse2           // (unuse-package "tgt" "tgt2") evaluated in cur
	zzC13SetqQ            // (setq tgt::v X) evaluated in cur
	zzC13DefineQ          // (defvar tgt::v X) / (defun tgt::f () X) evaluated in cur
	zzC13NKinds
)

type zzC13Op struct {
	kind, cur, k, tgt, tgt2 int
}

// known findings (regions). An observation inside a region is not asserted by the main
// obligations; the obligation C13.findings asserts exactly those (behind vrt.Carve) so that the
// check keeps demonstrating each defect natively. Set an entry of zzC13Known to false once the
// defect is repaired: its observations are then asserted by the main obligations again.
const (
	zzC13RNone        = iota
	zzC13RUnuse       // Package.Unuse rebuilds the user's tables from the remaining used packages only
	zzC13RUse         // Package.Use copies every exported table entry (over own ones, inherited ones too)
	zzC13RSetPush     // Package.SetIfHas pushes the variable into every user package
	zzC13RDefun       // Package.DefLambda: exported-before-defined function not propagated / wrong home
	zzC13RFmakunbound // Package.Undefine leaves the function in the tables of user packages
	zzC13RUnbindInh   // makunbound/fmakunbound of an inherited name only hide it locally
	zzC13RUnexportInh // unexport from a package that merely inherits the name unexports it at home
	zzC13RLostExport  // makunbound/fmakunbound forget the export status
	zzC13RNoHome      // export-before-define placeholder: not entered into existing users, no home package (never retracted)
	zzC13RMarker      // pkg:name / pkg::name of an exported, never bound variable yields the unbound marker
	zzC13RColon       // pkg:name reaches unexported own function (from inside) / a merely inherited name
	zzC13RConflict    // of two used packages exporting the same name only one copy is kept: lost when retracted
	zzC13RQualWrite   // (setq p::v x) ignored unless v is exported; (defvar p::v x) overwrites a bound unexported v
	zzC13RTransitive  // use (and the re-inheriting of unuse) passes on names the used package merely inherits
	zzC13RDefunInh    // defun of a name inherited as exported-but-undefined makes a local function instead of defining it at home
	zzC13NRegions
)

var zzC13RegionID = []string{"",
	"C13-unuse-rebuild",
	"C13-use-copies-all",
	"C13-set-pushes-to-users",
	"C13-defun-not-propagated",
	"C13-fmakunbound-stale-in-users",
	"C13-unbind-inherited-local",
	"C13-unexport-inherited-flips-home",
	"C13-unbind-loses-export",
	"C13-export-placeholder",
	"C13-unbound-marker-value",
	"C13-single-colon-lenient",
	"C13-conflict-loser-lost",
	"C13-qualified-write",
	"C13-use-transitive",
	"C13-defun-inherited-placeholder",
}

// Repaired (their observations are asserted by the main obligations again): every finding but
// C13-conflict-loser-lost and the two split off when others were repaired: C13-use-transitive (rest of
// C13-unuse-rebuild and C13-use-copies-all) and C13-defun-inherited-placeholder (rest of
// C13-defun-not-propagated).
var zzC13Known = []bool{false, false, false, false, false, false, false, false, false, false, false, false, true, false, true, true}

// ---------------------------------------------------------------------------------------------
// reference model

type zzC13Model struct {
	np, nn int
	isFn   [zzC13MaxN]bool
	// the symbol named k is present in package p (p has defined it or exported it)
	present [zzC13MaxP][zzC13MaxN]bool
	bound   [zzC13MaxP][zzC13MaxN]bool
	val     [zzC13MaxP][zzC13MaxN]int64
	exp     [zzC13MaxP][zzC13MaxN]bool
	uses    [zzC13MaxP][zzC13MaxP]bool

	// bookkeeping of what the known defects may have damaged (never used for expectations):
	// taint[r][p][k]: resolution of name k in the name space of p is inside region r
	taint [zzC13NRegions][zzC13MaxP][zzC13MaxN]bool
	// latent damage that shows only after a later operation
	lostExp  [zzC13MaxP][zzC13MaxN]bool // export status dropped by an unbind
	noHome   [zzC13MaxP][zzC13MaxN]bool // variable record without home package
	wrongPkg [zzC13MaxN]bool            // function record whose home was moved by a defun through inheritance
}

// zzC13Cands lists the packages whose symbol named k package p sees for the unqualified name:
// p itself when the symbol is present there, otherwise every used package in which it is present
// and exported (more than one = a name conflict, any of them is acceptable).
func (m *zzC13Model) zzC13Cands(p, k int) []int {
	if m.present[p][k] {
		return []int{p}
	}
	var out []int
	for q := 0; q < m.np; q++ {
		if q != p && m.uses[p][q] && m.present[q][k] && m.exp[q][k] {
			out = append(out, q)
		}
	}
	return out
}

func (m *zzC13Model) zzC13TaintAll(r, k int) {
	for q := 0; q < m.np; q++ {
		m.taint[r][q][k] = true
	}
}

func (m *zzC13Model) zzC13Users(p int) []int {
	var out []int
	for u := 0; u < m.np; u++ {
		if u != p && m.uses[u][p] {
			out = append(out, u)
		}
	}
	return out
}

// zzC13Apply updates the model; false = the operation is outside the modelled fragment (write
// through a name conflict, re-export of an inherited name, present-but-unbound symbol shadowing an
// inherited one): the caller stops the history there.
func (m *zzC13Model) zzC13Apply(op zzC13Op, x int64) bool {
	var before [zzC13MaxP][zzC13MaxN]int
	for u := 0; u < m.np; u++ {
		for k := 0; k < m.nn; k++ {
			before[u][k] = len(m.zzC13Cands(u, k))
		}
	}
	ok := m.zzC13Apply1(op, x)
	// slip keeps one copy per name in the user's table: when a name conflict (two used packages
	// export the name) loses a candidate, the surviving one may be the copy that was not kept
	for u := 0; u < m.np; u++ {
		for k := 0; k < m.nn; k++ {
			if 2 <= before[u][k] && len(m.zzC13Cands(u, k)) < before[u][k] && !m.present[u][k] {
				m.taint[zzC13RConflict][u][k] = true
			}
		}
	}
	return ok
}

func (m *zzC13Model) zzC13Apply1(op zzC13Op, x int64) bool {
	k := op.k
	// the package in whose name space the operation works
	p := op.cur
	switch op.kind {
	case zzC13Export2, zzC13Unexport2, zzC13SetqQ, zzC13DefineQ:
		p = op.tgt
	}
	isDefine := op.kind == zzC13Define || op.kind == zzC13DefineQ
	switch op.kind {
	case zzC13Define, zzC13Setq, zzC13SetqQ, zzC13DefineQ, zzC13Unbind, zzC13Export, zzC13Export2, zzC13Unexport, zzC13Unexport2:
		// an operation on a name whose resolution in p is damaged can move the damage anywhere
		for r := 1; r < zzC13NRegions; r++ {
			if m.taint[r][p][k] {
				m.zzC13TaintAll(r, k)
			}
		}
	}
	switch op.kind {
	case zzC13Define, zzC13Setq, zzC13SetqQ, zzC13DefineQ:
		c := m.zzC13Cands(p, k)
		if 1 < len(c) {
			return false
		}
		if !m.isFn[k] && p != op.cur {
			// qualified write from another package: slip's (setq p::v x) reaches Package.Set only
			// for a record present in p's table and then sets only an exported one; (defvar p::v x)
			// takes an unexported record for unbound and overwrites it
			switch {
			case op.kind == zzC13SetqQ && (len(c) == 0 || !m.exp[c[0]][k]):
				m.zzC13TaintAll(zzC13RQualWrite, k)
			case op.kind == zzC13DefineQ && len(c) == 1 && m.bound[c[0]][k] && !m.exp[c[0]][k]:
				m.zzC13TaintAll(zzC13RQualWrite, k)
			}
		}
		if len(c) == 0 {
			// a new record in p; slip does not push it anywhere (nothing to push: unexported)
			m.present[p][k] = true
			m.bound[p][k] = true
			m.val[p][k] = x
			break
		}
		o := c[0]
		if isDefine && !m.isFn[k] && m.bound[o][k] {
			break // defvar of a bound variable: no effect
		}
		wasBound := m.bound[o][k]
		m.bound[o][k] = true
		m.val[o][k] = x
		if m.lostExp[o][k] {
			m.zzC13TaintAll(zzC13RLostExport, k)
		}
		if m.isFn[k] {
			switch {
			case !wasBound:
				// slip: no function record yet. DefLambda makes one in p (not in o), exported iff p
				// holds an exported unbound variable placeholder of that name, and pushes it nowhere.
				if o != p {
					m.zzC13TaintAll(zzC13RDefunInh, k)
				} else if m.exp[p][k] && 0 < len(m.zzC13Users(p)) {
					m.zzC13TaintAll(zzC13RDefun, k)
				}
			case o != p:
				m.wrongPkg[k] = true // record updated in place, home package set to p
			}
		} else {
			// (an export-only placeholder that becomes the variable keeps Pkg == nil: noHome stays)
			// SetIfHas pushes the record into every user of p that has no entry of that name
			for _, u := range m.zzC13Users(p) {
				if m.present[u][k] {
					continue
				}
				if !m.exp[o][k] || (o != p && !m.uses[u][o]) {
					m.taint[zzC13RSetPush][u][k] = true
				}
			}
		}
	case zzC13Unbind:
		c := m.zzC13Cands(p, k)
		if 1 < len(c) {
			return false
		}
		if len(c) == 0 {
			break
		}
		o := c[0]
		if o != p {
			if m.bound[o][k] || !m.isFn[k] {
				m.zzC13TaintAll(zzC13RUnbindInh, k)
			}
			m.bound[o][k] = false
			break
		}
		if m.isFn[k] {
			if m.bound[p][k] && m.exp[p][k] && 0 < len(m.zzC13Users(p)) {
				m.zzC13TaintAll(zzC13RFmakunbound, k)
			}
			if m.bound[p][k] && m.exp[p][k] {
				m.lostExp[p][k] = true
			}
		} else {
			if m.exp[p][k] {
				m.lostExp[p][k] = true
			}
			if m.noHome[p][k] && 0 < len(m.zzC13Users(p)) {
				m.zzC13TaintAll(zzC13RNoHome, k)
			}
			m.noHome[p][k] = false
		}
		m.bound[p][k] = false
	case zzC13Export, zzC13Export2:
		if !m.present[p][k] && 0 < len(m.zzC13Cands(p, k)) {
			return false // exporting an inherited name (CL: import + re-export), not modelled
		}
		if !m.present[p][k] {
			m.noHome[p][k] = !m.isFn[k]
			// slip creates an export-only placeholder and does not enter it into the tables of the
			// packages that already use p
			for _, u := range m.zzC13Users(p) {
				if !m.present[u][k] {
					m.taint[zzC13RNoHome][u][k] = true
				}
			}
		}
		m.present[p][k] = true
		m.exp[p][k] = true
		m.lostExp[p][k] = false
	case zzC13Unexport, zzC13Unexport2:
		if !m.present[p][k] && 0 < len(m.zzC13Cands(p, k)) {
			m.zzC13TaintAll(zzC13RUnexportInh, k)
		}
		if m.present[p][k] && m.exp[p][k] {
			if m.noHome[p][k] && 0 < len(m.zzC13Users(p)) {
				m.zzC13TaintAll(zzC13RNoHome, k)
			}
			if m.isFn[k] && m.wrongPkg[k] {
				m.zzC13TaintAll(zzC13RDefun, k)
			}
		}
		m.exp[p][k] = false
		m.lostExp[p][k] = false
	case zzC13Use, zzC13Use2:
		u, q := op.cur, op.tgt
		if op.kind == zzC13Use2 {
			u = op.tgt2
		}
		if u != q && !m.uses[u][q] {
			m.uses[u][q] = true
			m.zzC13CopyDamage(u, q)
			for k2 := 0; k2 < m.nn; k2++ {
				if m.present[q][k2] && m.exp[q][k2] {
					if m.present[u][k2] {
						m.taint[zzC13RUse][u][k2] = true // own entry overwritten
					}
				} else if !m.present[q][k2] && 0 < len(m.zzC13Cands(q, k2)) {
					m.taint[zzC13RTransitive][u][k2] = true // entry q merely inherits is passed on
				}
			}
		}
	case zzC13Unuse, zzC13Unuse2:
		u, q := op.cur, op.tgt
		if op.kind == zzC13Unuse2 {
			u = op.tgt2
		}
		if u != q {
			m.uses[u][q] = false
			// slip rebuilds u's tables from the remaining used packages even when u did not use q
			for k2 := 0; k2 < m.nn; k2++ {
				if m.present[u][k2] {
					m.taint[zzC13RUnuse][u][k2] = true
				}
				for r := 0; r < m.np; r++ {
					if r == u || !m.uses[u][r] {
						continue
					}
					if m.present[r][k2] && m.exp[r][k2] {
						continue
					}
					if m.present[r][k2] {
						m.taint[zzC13RUnuse][u][k2] = true // unexported entry of r copied
					} else if 0 < len(m.zzC13Cands(r, k2)) {
						m.taint[zzC13RTransitive][u][k2] = true // entry r merely inherits copied
					}
				}
			}
			for r := 0; r < m.np; r++ {
				if r != u && m.uses[u][r] {
					m.zzC13CopyDamage(u, r)
				}
			}
		}
	}
	return !m.zzC13Conflict()
}

// zzC13CopyDamage: u copies table entries of q; whatever is damaged in q's view may now be in u's.
func (m *zzC13Model) zzC13CopyDamage(u, q int) {
	for r := 1; r < zzC13NRegions; r++ {
		for k := 0; k < m.nn; k++ {
			if m.taint[r][q][k] {
				m.taint[r][u][k] = true
			}
		}
	}
}

// zzC13Conflict: a package holds a present but unbound symbol (exported before definition, or
// unbound again) and at the same time a used package exports a symbol of that name: a name conflict
// in Common Lisp (use-package/export signal an error), outside the modelled fragment.
func (m *zzC13Model) zzC13Conflict() bool {
	for p := 0; p < m.np; p++ {
		for k := 0; k < m.nn; k++ {
			if !m.present[p][k] || m.bound[p][k] {
				continue
			}
			for q := 0; q < m.np; q++ {
				if q != p && m.uses[p][q] && m.present[q][k] && m.exp[q][k] {
					return true
				}
			}
		}
	}
	return false
}

// zzC13Region classifies an observation: form 0 plain name in cur, 1 t:name, 2 t::name.
func (m *zzC13Model) zzC13Region(form, cur, t, k int, cands []int, out zzC13Out) int {
	unboundExpected := len(cands) == 0
	for _, c := range cands {
		if !m.bound[c][k] {
			unboundExpected = true
		}
	}
	if form != 0 && !m.isFn[k] && unboundExpected && out.class == zzC13MarkerValue {
		return zzC13RMarker
	}
	ctx := cur
	if form != 0 {
		ctx = t
	}
	// (the taint of a repaired finding no longer classifies: the observation is asserted unless it
	// also lies in the region of a finding that is still open)
	for r := 1; r < zzC13NRegions; r++ {
		if m.taint[r][ctx][k] && zzC13Known[r] {
			return r
		}
	}
	switch {
	case form == 1 && t == cur && m.isFn[k] && m.present[t][k] && m.bound[t][k] && !m.exp[t][k]:
		return zzC13RColon
	case form == 1 && !m.present[t][k] && 0 < len(m.zzC13Cands(t, k)):
		return zzC13RColon
	}
	return zzC13RNone
}

// ---------------------------------------------------------------------------------------------
// the system under test, driven by Lisp forms

type zzC13Sys struct {
	np, nn int
	pkg    [zzC13MaxP]string
	name   [zzC13MaxN]string
	isFn   [zzC13MaxN]bool
	scope  *slip.Scope
	nx     int
}

// zzC13Prefix makes package names unique per native process run (exploration only).
var zzC13Prefix = "zc13"

// zzC13Collect, when set (native exploration only), receives every check instead of vrt.Assert.
var zzC13Collect func(region int, ok bool, msg string)

// zzC13Probe: 0 = main obligation (only observations outside every known-finding region are
// asserted), r > 0 = probe of region r (only observations inside that region are asserted).
var zzC13Probe int

func zzC13Check(region int, cond bool, msg string) {
	if zzC13Collect != nil {
		zzC13Collect(region, cond, msg)
		return
	}
	if !zzC13Known[region] {
		region = zzC13RNone
	}
	if region == zzC13Probe {
		vrt.Assert(cond, msg)
	}
}

func zzC13Assert(cond bool, msg string) {
	zzC13Check(zzC13RNone, cond, msg)
}

func zzC13Quote(name string) slip.Object {
	return slip.List{slip.Symbol("quote"), slip.Symbol(name)}
}

// outcome classes of an evaluation
const (
	zzC13Value   = iota // a fixnum
	zzC13Unbound        // unbound-variable / undefined-function condition
	zzC13OtherCondition
	zzC13GoFault
	zzC13OtherPanic
	zzC13MarkerValue // returned slip.Unbound as if it were a value
	zzC13OtherValue
)

type zzC13Out struct {
	class int
	val   int64
}

func zzC13Eval(s *slip.Scope, form slip.Object) (out zzC13Out) {
	defer func() {
		if rec := recover(); rec != nil {
			out.val = 0
			switch tr := rec.(type) {
			case slip.Instance:
				if tr.IsA("unbound-variable") || tr.IsA("undefined-function") {
					out.class = zzC13Unbound
				} else {
					out.class = zzC13OtherCondition
				}
			case *slip.Panic:
				out.class = zzC13OtherCondition
			case interface{ RuntimeError() }:
				out.class = zzC13GoFault
			default:
				out.class = zzC13OtherPanic
			}
		}
	}()
	res := s.Eval(form, 0)
	if f, ok := res.(slip.Fixnum); ok {
		return zzC13Out{class: zzC13Value, val: int64(f)}
	}
	if res == slip.Unbound {
		return zzC13Out{class: zzC13MarkerValue}
	}
	return zzC13Out{class: zzC13OtherValue}
}

// zzC13Do evaluates a form whose value does not matter; 0 = returned normally.
func zzC13Do(s *slip.Scope, form slip.Object) int {
	out := zzC13Eval(s, form)
	if out.class == zzC13Value || out.class == zzC13OtherValue {
		return 0
	}
	return out.class
}

func zzC13NewSys(np, nn int, fnMask int, tag string) *zzC13Sys {
	sys := &zzC13Sys{np: np, nn: nn, scope: slip.NewScope()}
	// warnings (function redefinition) go to a string stream, not to the process' stderr
	sys.scope.Let(slip.Symbol("*error-output*"), &slip.StringStream{})
	for p := 0; p < np; p++ {
		sys.pkg[p] = zzC13Prefix + tag + string(rune('a'+p))
	}
	for k := 0; k < nn; k++ {
		sys.isFn[k] = fnMask&(1<<uint(k)) != 0
		if sys.isFn[k] {
			sys.name[k] = "zc13f" + strconv.Itoa(k)
		} else {
			sys.name[k] = "zc13v" + strconv.Itoa(k)
		}
	}
	return sys
}

func (sys *zzC13Sys) zzC13Fresh() int64 {
	x := vrt.Int64("x" + strconv.Itoa(sys.nx))
	sys.nx++
	return x
}

// zzC13MakePackages evaluates (defpackage "p" (:use "cl" "cl-user") [(:export "n"...)]) for every
// test package. cl provides the operators; cl-user is used because the condition classes
// (unbound-variable, undefined-function, ...) are registered there and signalling an error from a
// package that cannot see them is a nil dereference in slip.FindClass (reported separately).
func (sys *zzC13Sys) zzC13MakePackages(m *zzC13Model, exportAtDef [zzC13MaxP][zzC13MaxN]bool) {
	m.np, m.nn = sys.np, sys.nn
	for k := 0; k < sys.nn; k++ {
		m.isFn[k] = sys.isFn[k]
	}
	for p := 0; p < sys.np; p++ {
		form := slip.List{slip.Symbol("defpackage"), slip.String(sys.pkg[p]),
			slip.List{slip.Symbol(":use"), slip.String("cl"), slip.String("cl-user")}}
		var ex slip.List
		for k := 0; k < sys.nn; k++ {
			if exportAtDef[p][k] {
				ex = append(ex, slip.String(sys.name[k]))
				m.present[p][k] = true
				m.exp[p][k] = true
				m.noHome[p][k] = !m.isFn[k]
			}
		}
		if 0 < len(ex) {
			form = append(form, append(slip.List{slip.Symbol(":export")}, ex...))
		}
		rc := zzC13Do(sys.scope, form)
		zzC13Assert(rc == 0, "defpackage failed")
	}
}

func (sys *zzC13Sys) zzC13InPackage(p int) {
	rc := zzC13Do(sys.scope, slip.List{slip.Symbol("in-package"), slip.String(sys.pkg[p])})
	zzC13Assert(rc == 0, "in-package failed")
}

// zzC13Form builds the Lisp form of an operation.
func (sys *zzC13Sys) zzC13Form(op zzC13Op, x int64) slip.Object {
	n := sys.name[op.k]
	switch op.kind {
	case zzC13Define:
		if sys.isFn[op.k] {
			return slip.List{slip.Symbol("defun"), slip.Symbol(n), slip.List{}, slip.Fixnum(x)}
		}
		return slip.List{slip.Symbol("defvar"), slip.Symbol(n), slip.Fixnum(x)}
	case zzC13DefineQ:
		n = sys.pkg[op.tgt] + "::" + n
		if sys.isFn[op.k] {
			return slip.List{slip.Symbol("defun"), slip.Symbol(n), slip.List{}, slip.Fixnum(x)}
		}
		return slip.List{slip.Symbol("defvar"), slip.Symbol(n), slip.Fixnum(x)}
	case zzC13SetqQ:
		return slip.List{slip.Symbol("setq"), slip.Symbol(sys.pkg[op.tgt] + "::" + n), slip.Fixnum(x)}
	case zzC13Setq:
		return slip.List{slip.Symbol("setq"), slip.Symbol(n), slip.Fixnum(x)}
	case zzC13Unbind:
		if sys.isFn[op.k] {
			return slip.List{slip.Symbol("fmakunbound"), zzC13Quote(n)}
		}
		return slip.List{slip.Symbol("makunbound"), zzC13Quote(n)}
	case zzC13Export:
		return slip.List{slip.Symbol("export"), zzC13Quote(n)}
	case zzC13Unexport:
		return slip.List{slip.Symbol("unexport"), zzC13Quote(n)}
	case zzC13Export2:
		return slip.List{slip.Symbol("export"), zzC13Quote(n), slip.String(sys.pkg[op.tgt])}
	case zzC13Unexport2:
		return slip.List{slip.Symbol("unexport"), zzC13Quote(n), slip.String(sys.pkg[op.tgt])}
	case zzC13Use:
		return slip.List{slip.Symbol("use-package"), slip.String(sys.pkg[op.tgt])}
	case zzC13Unuse:
		return slip.List{slip.Symbol("unuse-package"), slip.String(sys.pkg[op.tgt])}
	case zzC13Use2:
		return slip.List{slip.Symbol("use-package"), slip.String(sys.pkg[op.tgt]), slip.String(sys.pkg[op.tgt2])}
	case zzC13Unuse2:
		return slip.List{slip.Symbol("unuse-package"), slip.String(sys.pkg[op.tgt]), slip.String(sys.pkg[op.tgt2])}
	}
	return nil
}

// zzC13Step performs one operation on slip and on the model. false: outside the modelled fragment.
func (sys *zzC13Sys) zzC13Step(m *zzC13Model, op zzC13Op) bool {
	var x int64
	if op.kind == zzC13Define || op.kind == zzC13Setq || op.kind == zzC13DefineQ || op.kind == zzC13SetqQ {
		x = sys.zzC13Fresh()
	}
	if !m.zzC13Apply(op, x) {
		return false
	}
	sys.zzC13InPackage(op.cur)
	rc := zzC13Do(sys.scope, sys.zzC13Form(op, x))
	zzC13Assert(rc == 0, "operation signalled or faulted: "+zzC13OpString(op))
	return true
}

func zzC13OpString(op zzC13Op) string {
	names := []string{"define", "setq", "unbind", "export", "unexport", "use", "unuse", "export2", "unexport2",
		"use2", "unuse2", "setq::", "define::"}
	return names[op.kind] + "[cur=" + strconv.Itoa(op.cur) + " k=" + strconv.Itoa(op.k) + " tgt=" +
		strconv.Itoa(op.tgt) + " tgt2=" + strconv.Itoa(op.tgt2) + "]"
}

// zzC13Expect asserts that the outcome is what one of the candidate packages' symbol holds (its
// value when bound, the unbound/undefined condition otherwise), or unbound when there is none.
func zzC13Expect(m *zzC13Model, region, k int, cands []int, out zzC13Out, what string) {
	cls := strconv.Itoa(out.class)
	switch len(cands) {
	case 0:
		zzC13Check(region, out.class == zzC13Unbound, what+": expected unbound/undefined, class="+cls)
	case 1:
		c := cands[0]
		if !m.bound[c][k] {
			zzC13Check(region, out.class == zzC13Unbound, what+": expected unbound/undefined, class="+cls)
		} else if out.class != zzC13Value {
			zzC13Check(region, false, what+": expected a value, class="+cls)
		} else {
			zzC13Check(region, out.val == m.val[c][k], what+": wrong (stale or foreign) value")
		}
	default:
		// name conflict: the binding of any candidate is acceptable
		okUnbound := false
		for _, c := range cands {
			if !m.bound[c][k] {
				okUnbound = true
			}
		}
		if out.class != zzC13Value {
			zzC13Check(region, okUnbound && out.class == zzC13Unbound, what+": expected a candidate's binding, class="+cls)
			return
		}
		ok := false
		for _, c := range cands {
			if m.bound[c][k] && out.val == m.val[c][k] {
				ok = true
			}
		}
		zzC13Check(region, ok, what+": wrong (stale or foreign) value, no candidate has it")
	}
}

// zzC13Observe resolves every name from every package and compares with the model.
func (sys *zzC13Sys) zzC13Observe(m *zzC13Model, when string) {
	nValue, nUnbound, nOther := 0, 0, 0
	var sum int64
	for cur := 0; cur < sys.np; cur++ {
		sys.zzC13InPackage(cur)
		for k := 0; k < sys.nn; k++ {
			for form := 0; form < 1+2*sys.np; form++ {
				// form 0: plain; 1+2t: t:name; 2+2t: t::name
				n := sys.name[k]
				var cands []int
				oform, ot := 0, cur
				what := when + " | in " + string(rune('A'+cur)) + " "
				if form == 0 {
					cands = m.zzC13Cands(cur, k)
					what += "name" + strconv.Itoa(k)
				} else {
					t := (form - 1) / 2
					ot = t
					oform = 1 + (form-1)%2
					rel := "other"
					if t == cur {
						rel = "self"
					}
					if (form-1)%2 == 0 {
						n = sys.pkg[t] + ":" + n
						if m.present[t][k] && m.exp[t][k] {
							cands = []int{t}
						}
						what += string(rune('A'+t)) + ":name" + strconv.Itoa(k) + " (" + rel + ":)"
					} else {
						n = sys.pkg[t] + "::" + n
						cands = m.zzC13Cands(t, k)
						what += string(rune('A'+t)) + "::name" + strconv.Itoa(k) + " (" + rel + "::)"
					}
				}
				var f slip.Object = slip.Symbol(n)
				if sys.isFn[k] {
					f = slip.List{slip.Symbol(n)}
					what += "()"
				}
				out := zzC13Eval(sys.scope, f)
				switch out.class {
				case zzC13Value:
					nValue++
					sum += out.val
				case zzC13Unbound:
					nUnbound++
				default:
					nOther++
				}
				zzC13Expect(m, m.zzC13Region(oform, cur, ot, k, cands, out), k, cands, out, what)
			}
		}
	}
	if zzC13Collect == nil {
		// witness log: the engine's prediction and the native replay must agree
		vrt.Note("observed", nValue, nUnbound, nOther, sum)
	}
}

// ---------------------------------------------------------------------------------------------
// operation tables

// zzC13Ops enumerates the operation instances over np packages and the given names, with
// cur = every package. twoArg: also the two-argument forms evaluated in package 0.
func zzC13Ops(np, nn, fnMask int, twoArg bool) []zzC13Op {
	var ops []zzC13Op
	for cur := 0; cur < np; cur++ {
		for k := 0; k < nn; k++ {
			fn := fnMask&(1<<uint(k)) != 0
			ops = append(ops, zzC13Op{kind: zzC13Define, cur: cur, k: k})
			if !fn {
				ops = append(ops, zzC13Op{kind: zzC13Setq, cur: cur, k: k})
			}
			ops = append(ops, zzC13Op{kind: zzC13Unbind, cur: cur, k: k})
			ops = append(ops, zzC13Op{kind: zzC13Export, cur: cur, k: k})
			ops = append(ops, zzC13Op{kind: zzC13Unexport, cur: cur, k: k})
		}
		for t := 0; t < np; t++ {
			if t != cur {
				ops = append(ops, zzC13Op{kind: zzC13Use, cur: cur, tgt: t})
				ops = append(ops, zzC13Op{kind: zzC13Unuse, cur: cur, tgt: t})
			}
		}
	}
	if twoArg {
		for t := 1; t < np; t++ {
			for k := 0; k < nn; k++ {
				ops = append(ops, zzC13Op{kind: zzC13Export2, cur: 0, k: k, tgt: t})
				ops = append(ops, zzC13Op{kind: zzC13Unexport2, cur: 0, k: k, tgt: t})
			}
			for t2 := 0; t2 < np; t2++ {
				if t2 != t {
					ops = append(ops, zzC13Op{kind: zzC13Use2, cur: 0, tgt: t, tgt2: t2})
					ops = append(ops, zzC13Op{kind: zzC13Unuse2, cur: 0, tgt: t, tgt2: t2})
				}
			}
		}
		// qualified writes, evaluated in package 0 (appended last: the indices above are stable)
		for t := 1; t < np; t++ {
			for k := 0; k < nn; k++ {
				ops = append(ops, zzC13Op{kind: zzC13DefineQ, cur: 0, k: k, tgt: t})
				if fnMask&(1<<uint(k)) == 0 {
					ops = append(ops, zzC13Op{kind: zzC13SetqQ, cur: 0, k: k, tgt: t})
				}
			}
		}
	}
	return ops
}

func zzC13Universe(universe int) (np, nn, fnMask int) {
	np = 2
	if 3 <= universe {
		np = 3
	}
	nn, fnMask = 1, 0
	switch universe % 3 {
	case 1:
		fnMask = 1
	case 2:
		nn, fnMask = 2, 2
	}
	return
}

// zzC13History runs a history from the initial state (fresh packages using cl and cl-user only).
// every: compare every resolution with the model initially and after every step; otherwise only
// after the last step (the shorter histories are cases of their own; resolving names has no side
// effect on the tables, the every-step cases guard that assumption).
func zzC13History(universe int, every bool, hist []int) {
	np, nn, fnMask := zzC13Universe(universe)
	sys := zzC13NewSys(np, nn, fnMask, "h")
	var m zzC13Model
	var noExp [zzC13MaxP][zzC13MaxN]bool
	sys.zzC13MakePackages(&m, noExp)
	ops := zzC13Ops(np, nn, fnMask, false)
	n := 0
	for n < len(hist) && 0 < hist[n] && hist[n] <= len(ops) {
		n++
	}
	if every || n == 0 {
		sys.zzC13Observe(&m, "initially")
	}
	for i := 0; i < n; i++ {
		op := ops[hist[i]-1]
		if !sys.zzC13Step(&m, op) {
			vrt.Reach("out-of-model")
			return
		}
		if every || i == n-1 {
			sys.zzC13Observe(&m, "after step "+strconv.Itoa(i+1)+" "+zzC13OpString(op))
		}
	}
	vrt.Reach("compared")
}

// zzC13Build lists the operations that construct the pre-state described by the flag bits, in one
// of the canonical orders. Bits, from bit 0: for every package p and name k: "p defines k",
// "p exports k"; then for every ordered pair p != q: "p uses q".
// order 0..5: the phases define (D), export (E), use (U) as DEU, DUE, EDU, EUD, UDE, UED;
// order 6, 7: the exports are given to defpackage (:export ...) and the phases are DU, UD.
func zzC13Build(np, nn int, state, order int) (ops []zzC13Op, atDef [zzC13MaxP][zzC13MaxN]bool) {
	var def, exp, use []zzC13Op
	bit := 0
	for p := 0; p < np; p++ {
		for k := 0; k < nn; k++ {
			if state&(1<<uint(bit)) != 0 {
				def = append(def, zzC13Op{kind: zzC13Define, cur: p, k: k})
			}
			bit++
			if state&(1<<uint(bit)) != 0 {
				if 6 <= order {
					atDef[p][k] = true
				} else {
					exp = append(exp, zzC13Op{kind: zzC13Export, cur: p, k: k})
				}
			}
			bit++
		}
	}
	for p := 0; p < np; p++ {
		for q := 0; q < np; q++ {
			if p != q {
				if state&(1<<uint(bit)) != 0 {
					use = append(use, zzC13Op{kind: zzC13Use, cur: p, tgt: q})
				}
				bit++
			}
		}
	}
	var phases [][]zzC13Op
	switch order {
	case 0:
		phases = [][]zzC13Op{def, exp, use}
	case 1:
		phases = [][]zzC13Op{def, use, exp}
	case 2:
		phases = [][]zzC13Op{exp, def, use}
	case 3:
		phases = [][]zzC13Op{exp, use, def}
	case 4:
		phases = [][]zzC13Op{use, def, exp}
	case 5:
		phases = [][]zzC13Op{use, exp, def}
	case 6:
		phases = [][]zzC13Op{def, use}
	default:
		phases = [][]zzC13Op{use, def}
	}
	for _, ph := range phases {
		ops = append(ops, ph...)
	}
	return
}

// zzC13StepFrom builds a pre-state through the real API, compares it with the model, performs one
// more operation and compares again.
func zzC13StepFrom(universe, order, state, o int) {
	np, nn, fnMask := zzC13Universe(universe)
	sys := zzC13NewSys(np, nn, fnMask, "s")
	var m zzC13Model
	build, atDef := zzC13Build(np, nn, state, order)
	sys.zzC13MakePackages(&m, atDef)
	for _, op := range build {
		if !sys.zzC13Step(&m, op) {
			vrt.Reach("out-of-model")
			return
		}
	}
	ops := zzC13Ops(np, nn, fnMask, true)
	if o <= 0 || len(ops) < o {
		// the pre-state itself (a case of its own)
		sys.zzC13Observe(&m, "pre-state")
		vrt.Reach("compared")
		return
	}
	if !sys.zzC13Step(&m, ops[o-1]) {
		vrt.Reach("out-of-model")
		return
	}
	sys.zzC13Observe(&m, "after "+zzC13OpString(ops[o-1]))
	vrt.Reach("compared")
}

// ---------------------------------------------------------------------------------------------
// entries

// VerifC13History: history of up to 4 operations; every = 1: compare after every step, 0: after the
// last one only. universe: 0 = 2 packages, 1 variable; 1 = 2
// packages, 1 function; 2 = 2 packages, 1 variable + 1 function; 3/4/5 = the same with 3 packages.
// o1..o4 index zzC13Ops (+1; 0 = no operation, the history ends).
func VerifC13History(universe, every, o1, o2, o3, o4 int) {
	zzC13Probe = 0
	zzC13History(universe, every != 0, []int{o1, o2, o3, o4})
}

// VerifC13Finding: the same history, asserting only the observations inside the region of one
// known finding, behind that finding's carve-out.
func VerifC13Finding(region, universe, o1, o2, o3, o4, o5 int) {
	zzC13Probe = 0
	if region <= 0 || zzC13NRegions <= region {
		return
	}
	vrt.Carve(zzC13RegionID[region], true)
	zzC13Probe = region
	zzC13History(universe, true, []int{o1, o2, o3, o4, o5})
}

// VerifC13Step: one operation (o indexes zzC13Ops with the two-argument forms, +1) from the
// pre-state given by the flag bits (see zzC13Build), universe as for VerifC13History.
func VerifC13Step(universe, order, state, o int) {
	zzC13Probe = 0
	zzC13StepFrom(universe, order, state, o)
}

// VerifC13FindingStep: VerifC13Step asserting only the observations inside one finding's region.
func VerifC13FindingStep(region, universe, order, state, o int) {
	zzC13Probe = 0
	if region <= 0 || zzC13NRegions <= region {
		return
	}
	vrt.Carve(zzC13RegionID[region], true)
	zzC13Probe = region
	zzC13StepFrom(universe, order, state, o)
}

// VerifC13Explore is used by native exploration tooling only (never by an obligation): unique
// package-name prefix per run and a collector for every check.
func VerifC13Explore(prefix string, collect func(region int, ok bool, msg string)) {
	zzC13Prefix = prefix
	zzC13Collect = collect
}

// VerifC13NOps returns the size of the operation table of a universe (exploration/case lists).
func VerifC13NOps(universe int, twoArg bool) int {
	np, nn, fnMask := zzC13Universe(universe)
	return len(zzC13Ops(np, nn, fnMask, twoArg))
}
