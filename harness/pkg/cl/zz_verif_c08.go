package cl

// C08 — meaning does not depend on definition order, compilation, or re-evaluation.
//
// A program is a list of top-level forms: defuns of zza, zzb, zzc (bodies built from the C01
// trace forms, calling each other with symbolic arguments) and main calls.  The harness
// parameters select the call-graph shape, the kind of call site, the order of the definitions
// and the evaluation mode (list forms evaluated one by one, Code.Compile then Code.Eval, the
// same objects evaluated several times, redefinition between evaluations).  Every variant is
// compared with the reference evaluator zzRef (zz_verif_c01.go), which binds calls late and has
// no notion of compilation or caching.

import (
	"strconv"

	"github.com/ohler55/slip"
	vrt "github.com/ohler55/slip/zzvrt"
)

type zzC08Gen struct {
	zzGen
	site int
}

func (g *zzC08Gen) m() slip.Object { return g.tr(g.lit()) }

// call builds a call of fn with one argument at a call site of kind g.site.
//   0  the bare call form (compiled when the enclosing defun is evaluated if it is a body form
//      or an argument of an ordinary function)
//   1  argument of an ordinary function: (+ m CALL)
//   2  inside a trace form (a special form: compiled at first evaluation)
//   3  branch of if with a symbolic test
//   4  body of let
//   5  late bound by name: (funcall (quote fn) arg)
//   6  argument of progn: (progn m CALL)
func (g *zzC08Gen) call(fn string, arg slip.Object) slip.Object {
	S := zzSym
	c := zzL(S(fn), arg)
	switch g.site {
	case 1:
		return zzL(S("+"), g.m(), c)
	case 2:
		return g.tr(c)
	case 3:
		return zzL(S("if"), g.tr(zzL(S("<"), g.lit(), g.lit())), c, g.m())
	case 4:
		return zzL(S("let"), zzL(zzL(S("v"), g.m())), c)
	case 5:
		return zzL(S("funcall"), zzL(S("quote"), S(fn)), arg)
	case 6:
		return zzL(S("progn"), g.m(), c)
	}
	return c
}

func zzDefun(name string, params slip.Object, body ...slip.Object) slip.Object {
	l := slip.List{zzSym("defun"), zzSym(name), params}
	return append(l, body...)
}

// zzC08Program returns the definitions (to be permuted) and the rest of the program (evaluated
// after them, in order).
func (g *zzC08Gen) program(shape int) (defs []slip.Object, rest []slip.Object) {
	S := zzSym
	P := zzL(S("p"))
	dec := zzL(S("+"), S("p"), slip.Fixnum(-1))
	leafC := zzDefun("zzc", P, g.m(), zzL(S("+"), S("p"), g.m()))
	switch shape {
	case 0: // chain a -> b -> c
		defs = []slip.Object{
			zzDefun("zza", P, g.m(), g.call("zzb", g.tr(zzL(S("+"), S("p"), g.lit())))),
			zzDefun("zzb", P, g.m(), g.call("zzc", g.tr(S("p")))),
			leafC,
		}
		rest = []slip.Object{g.tr(zzL(S("zza"), g.m())), g.tr(zzL(S("zzb"), g.m()))}
	case 1: // fan: a -> b, a -> c
		defs = []slip.Object{
			zzDefun("zza", P, zzL(S("list"), g.call("zzb", g.tr(S("p"))), g.call("zzc", g.m()))),
			zzDefun("zzb", P, g.m(), zzL(S("1+"), S("p"))),
			leafC,
		}
		rest = []slip.Object{g.tr(zzL(S("zza"), g.m()))}
	case 2: // mutual recursion a <-> b guarded by p
		defs = []slip.Object{
			zzDefun("zza", P, zzL(S("if"), zzL(S("<"), S("p"), slip.Fixnum(1)), g.m(), g.call("zzb", g.tr(dec)))),
			zzDefun("zzb", P, g.m(), zzL(S("1+"), g.call("zza", g.tr(S("p"))))),
			leafC,
		}
		rest = []slip.Object{g.tr(zzL(S("zza"), g.m()))}
	case 3: // self recursion plus a call of c
		defs = []slip.Object{
			zzDefun("zza", P, zzL(S("if"), zzL(S("<"), S("p"), slip.Fixnum(1)), g.call("zzc", g.m()),
				zzL(S("+"), S("p"), g.call("zza", g.tr(dec))))),
			zzDefun("zzb", P, g.m()),
			leafC,
		}
		rest = []slip.Object{g.tr(zzL(S("zza"), g.m()))}
	case 4: // calls without arguments
		defs = []slip.Object{
			zzDefun("zza", nil, g.m(), zzL(S("list"), zzL(S("zzb")), g.m())),
			zzDefun("zzb", nil, g.m(), zzL(S("zzc"))),
			zzDefun("zzc", nil, g.m()),
		}
		rest = []slip.Object{g.tr(zzL(S("zza")))}
	case 5: // redefinition between two evaluations of the same main form
		main := g.tr(zzL(S("zza"), g.m()))
		defs = []slip.Object{
			zzDefun("zzb", P, g.m(), zzL(S("+"), S("p"), g.m())),
			zzDefun("zza", P, g.m(), g.call("zzb", g.tr(S("p")))),
		}
		rest = []slip.Object{main, zzDefun("zzb", P, g.m(), zzL(S("list"), S("p"), g.m())), main}
	case 6: // call site created after a first redefinition, then a second redefinition
		defs = []slip.Object{
			zzDefun("zzb", P, g.m(), zzL(S("+"), S("p"), g.m())),
		}
		rest = []slip.Object{
			zzDefun("zzb", P, g.m(), zzL(S("1+"), S("p"))),
			zzDefun("zza", P, g.m(), g.call("zzb", g.tr(S("p")))),
			g.tr(zzL(S("zza"), g.m())),
			zzDefun("zzb", P, g.m(), zzL(S("list"), S("p"), g.m())),
			g.tr(zzL(S("zza"), g.m())),
		}
	case 7: // caller defined before the callee exists (no arguments), second caller after, then a redefinition
		defs = []slip.Object{
			zzDefun("zza", nil, g.m(), zzL(S("list"), zzL(S("zzb")), g.m())),
		}
		rest = []slip.Object{
			zzDefun("zzb", nil, g.m()),
			zzDefun("zzc", nil, zzL(S("list"), zzL(S("zzb")), g.m())),
			g.tr(zzL(S("list"), zzL(S("zza")), zzL(S("zzc")))),
			zzDefun("zzb", nil, g.m(), g.m()),
			g.tr(zzL(S("list"), zzL(S("zza")), zzL(S("zzc")))),
		}
	case 8, 9:
		// a function reading a global variable that may not exist yet when the function is
		// defined; the global is introduced by defvar (8) or by a top-level setq (9); a second
		// function assigns it.  g.site selects how the reader refers to the variable.
		V := S("zzlimit")
		var body []slip.Object
		switch g.site {
		case 0:
			body = []slip.Object{V}
		case 1:
			body = []slip.Object{g.m(), V}
		case 2:
			body = []slip.Object{zzL(S("+"), V, g.m())}
		case 3:
			body = []slip.Object{zzL(S("if"), V, zzL(S("list"), V, g.m()), g.m())}
		case 4:
			body = []slip.Object{g.tr(V)}
		case 5:
			body = []slip.Object{zzL(S("let"), zzL(zzL(S("v"), g.m())), V)}
		case 6:
			body = []slip.Object{zzL(S("funcall"), zzL(S("lambda"), zzL(S("a")), V), g.m())}
		default:
			g.invalid = true
		}
		intro := zzL(S("defvar"), V, g.m())
		if shape == 9 {
			intro = zzL(S("setq"), V, g.m())
		}
		defs = []slip.Object{
			append(slip.List{S("defun"), S("zzget"), nil}, body...),
			intro,
			zzDefun("zzset", zzL(S("v")), zzL(S("setq"), V, S("v"))),
		}
		rest = []slip.Object{g.tr(zzL(S("zzget"))), g.tr(zzL(S("zzset"), g.m())), g.tr(zzL(S("zzget")))}
	case 10, 11:
		// a defun evaluated inside a let whose variable its body uses (the function closes over the
		// binding); its caller is defined before or after it (order), and it is redefined inside
		// another let between two evaluations of the main form (shape 11: the second definition is at
		// top level, without a closure)
		mk := func(body slip.Object) slip.Object {
			return zzL(S("let"), zzL(zzL(S("step"), g.m())), zzDefun("zzb", P, g.m(), body))
		}
		main := g.tr(zzL(S("zza"), g.m()))
		defs = []slip.Object{
			zzDefun("zza", P, g.m(), g.call("zzb", g.tr(S("p")))),
			mk(zzL(S("+"), S("p"), S("step"))),
		}
		second := mk(zzL(S("list"), S("p"), S("step")))
		if shape == 11 {
			second = zzDefun("zzb", P, g.m(), zzL(S("list"), S("p"), g.m()))
		}
		rest = []slip.Object{main, second, main, g.tr(zzL(S("zzb"), g.m()))}
	case 12:
		// an applied lambda form ((lambda (a) ..) arg) below a let, referring to the let variable, in a
		// function that is called several times with different arguments (the form is converted in
		// place at its first evaluation: nothing of that evaluation's bindings may stick to it);
		// site selects what surrounds the applied lambda form
		app := zzL(zzL(S("lambda"), zzL(S("a")), g.m(), zzL(S("+"), S("a"), S("k"))), g.m())
		var inner slip.Object = app
		switch g.site {
		case 1:
			inner = zzL(S("+"), g.m(), app)
		case 2:
			inner = g.tr(app)
		case 3:
			inner = zzL(S("if"), g.tr(zzL(S("<"), g.lit(), g.lit())), app, g.m())
		case 4:
			inner = zzL(S("let"), zzL(zzL(S("v"), g.m())), app)
		case 5:
			inner = zzL(S("funcall"), zzL(S("lambda"), zzL(S("a")), g.m(), zzL(S("+"), S("a"), S("k"))), g.m())
		case 6:
			inner = zzL(S("progn"), g.m(), app)
		}
		defs = []slip.Object{
			zzDefun("zza", P, g.m(), zzL(S("let"), zzL(zzL(S("k"), zzL(S("+"), S("p"), g.lit()))), inner)),
			zzDefun("zzb", P, g.m(), zzL(S("list"), zzL(S("zza"), g.tr(S("p"))), zzL(S("zza"), g.tr(zzL(S("+"), S("p"), g.lit()))))),
			leafC,
		}
		rest = []slip.Object{g.tr(zzL(S("zza"), g.m())), g.tr(zzL(S("zza"), g.m())), g.tr(zzL(S("zzb"), g.m()))}
	case 13:
		// multiple values in argument positions: only the primary value reaches the function, at the
		// first evaluation of the list form and at every later evaluation of the converted form
		mv := zzL(S("values"), zzL(S("+"), S("p"), g.lit()), g.m())
		defs = []slip.Object{
			zzDefun("zza", P, g.m(), zzL(S("+"), g.m(), mv)),
			zzDefun("zzb", P, zzL(S("list"), g.call("zza", g.tr(S("p"))), zzL(S("values"), S("p"), g.m()), g.m())),
			leafC,
		}
		rest = []slip.Object{
			g.tr(zzL(S("+"), zzL(S("values"), g.m(), g.m()), zzL(S("zza"), g.m()))),
			g.tr(zzL(S("zzb"), g.m())),
			g.tr(zzL(S("list"), zzL(S("values"), g.m(), g.m()), zzL(S("zzc"), zzL(S("values"), g.m(), g.m())))),
		}
	case 14:
		// redefinition with another number of required parameters after the first definition was
		// called: the later calls are checked against the NEW lambda list
		P2 := zzL(S("p"), S("q"))
		defs = []slip.Object{
			zzDefun("zzb", P2, g.m(), zzL(S("+"), S("p"), S("q"))),
			zzDefun("zza", P, g.m(), zzL(S("zzb"), g.tr(S("p")), g.m())),
		}
		rest = []slip.Object{
			g.tr(zzL(S("zza"), g.m())),
			zzDefun("zzb", P, g.m(), zzL(S("list"), S("p"), g.m())),
			g.tr(zzL(S("zzb"), g.m())),
			zzDefun("zza", P, g.m(), g.call("zzb", g.tr(S("p")))),
			g.tr(zzL(S("zza"), g.m())),
			zzDefun("zzb", zzL(S("p"), S("q"), S("r")), g.m(), zzL(S("list"), S("p"), S("q"), S("r"))),
			g.tr(zzL(S("zzb"), g.m(), g.m(), g.m())),
		}
	default:
		g.invalid = true
	}
	return
}

// zzHoisted: top-level forms that Code.Compile evaluates at compile time.
func zzHoisted(f slip.Object) bool {
	l, ok := f.(slip.List)
	if !ok {
		return false
	}
	h := zzHead(l)
	return h == "defun" || h == "defvar"
}

var zzPerm3 = [][]int{{0, 1, 2}, {0, 2, 1}, {1, 0, 2}, {1, 2, 0}, {2, 0, 1}, {2, 1, 0}}

var zzC08Carves = []zzCarve{
	{zzHFwdCall, "C08-forward-call-drops-arguments"},
	{zzHStaleCall, "C08-redefinition-not-seen-by-later-call-sites"},
	{zzHLambdaSym, "C07-lambda-body-symbol-never-unbound"},
}

// VerifC08Order: shape of the call graph, kind of call site, permutation of the definitions,
// evaluation mode: 0 = every top-level list form evaluated by Scope.Eval in order; 1 = the forms as a
// slip.Code, Code.Compile(), Code.Eval(); 2 = as 0 but the forms after the definitions are
// evaluated three times (the same list objects); 3 = as 1 with Code.Eval three times;
// 4 = as 0 but the whole sequence (definitions included) evaluated twice.
func VerifC08Order(shape, site, order, mode int) {
	g := &zzC08Gen{site: site}
	defs, rest := g.program(shape)
	vrt.Assert(!g.invalid && 0 <= order && order < 6 && 0 <= mode && mode <= 4, "case list names an unknown variant")
	var tops []slip.Object
	if len(defs) == 3 {
		for _, i := range zzPerm3[order] {
			tops = append(tops, defs[i])
		}
	} else if len(defs) == 2 {
		if order%2 == 0 {
			tops = append(tops, defs[0], defs[1])
		} else {
			tops = append(tops, defs[1], defs[0])
		}
	} else {
		tops = append(tops, defs...)
	}
	ndefs := len(tops)
	tops = append(tops, rest...)
	lits := zzLits(g.nlit)
	vrt.Note("program", string(zzShow(nil, slip.List(tops))))

	// schedule: indices into tops, in evaluation order
	var sched []int
	switch mode {
	case 0, 1:
		for i := range tops {
			sched = append(sched, i)
		}
	case 2:
		for i := 0; i < ndefs; i++ {
			sched = append(sched, i)
		}
		for k := 0; k < 3; k++ {
			for i := ndefs; i < len(tops); i++ {
				sched = append(sched, i)
			}
		}
	case 3:
		for k := 0; k < 3; k++ {
			for i := range tops {
				sched = append(sched, i)
			}
		}
	case 4:
		for k := 0; k < 2; k++ {
			for i := range tops {
				sched = append(sched, i)
			}
		}
	}

	// reference: late binding, forms in schedule order (a defun form evaluated again is a
	// redefinition with the same body)
	ref := zzNewRef()
	if 8 <= shape {
		ref.maxCalls = 40 // no recursion in these shapes: the bound only has to admit 3 rounds of the main forms
	}
	top := &zzFrame{}
	rforms := make([]slip.Object, len(tops))
	for i := range tops {
		rforms[i] = zzInstantiate(tops[i], lits)
	}
	var wants []zzOut
	compiled := mode == 1 || mode == 3
	if compiled {
		// Code.Compile evaluates the definitions first, then compiles the other forms
		for i := range rforms {
			if zzHoisted(rforms[i]) {
				ref.eval(rforms[i], top)
			}
		}
		for i := range rforms {
			if !zzHoisted(rforms[i]) {
				ref.bindEager(rforms[i])
			}
		}
	}
	for _, i := range sched {
		if compiled && zzHoisted(rforms[i]) {
			l := rforms[i].(slip.List)
			wants = append(wants, zzOne(zzVal{k: zzKSym, s: zzLower(string(l[1].(slip.Symbol)))}))
			continue
		}
		w := ref.eval(rforms[i], top)
		wants = append(wants, w)
		if w.ex != nil {
			break
		}
	}

	for _, cv := range zzC08Carves {
		vrt.Carve(cv.id, ref.hit[cv.flag])
	}
	for _, cv := range zzC01Carves {
		vrt.Carve(cv.id, ref.hit[cv.flag])
	}

	zzDefineTrace()
	scope := slip.NewScope()
	zzBudget(scope, 800)
	run := &zzRun{sink: &zzSink{}}
	zzSinkCur = run.sink
	sforms := make([]slip.Object, len(tops))
	for i := range tops {
		sforms[i] = zzInstantiate(tops[i], lits)
	}
	var got []slip.Object
	zzEvalGuard(run, func() slip.Object {
		if compiled {
			code := slip.Code(sforms)
			code.Compile()
			for _, i := range sched {
				if code[i] != nil {
					got = append(got, code[i].Eval(scope, 0))
				} else {
					got = append(got, nil)
				}
			}
			return nil
		}
		for _, i := range sched {
			got = append(got, scope.Eval(sforms[i], 0))
		}
		return nil
	})
	zzSinkCur = nil

	vrt.Reach("compared")
	vrt.Assert(run.class != zzCGoFault, "Go run-time fault in the interpreter: "+run.msg)
	last := wants[len(wants)-1]
	if last.ex != nil {
		vrt.Assert(last.ex.kind == zzXError, "reference: exit escaped the program")
		zzAssertTrace(run.sink, ref)
		vrt.Assert(run.class == zzCCond, "expected an error of class "+last.ex.class)
		return
	}
	zzAssertTrace(run.sink, ref)
	vrt.Assert(run.class == zzCNone, "unexpected condition "+run.cls+" "+run.msg)
	vrt.Assert(len(got) == len(wants), "number of top-level results")
	for i := range got {
		zzAssertResult(got[i], wants[i], "result of top-level form "+strconv.Itoa(sched[i]))
	}
	vrt.Reach("agreed")
}
