package cl

import (
	"github.com/ohler55/slip"
	vrt "github.com/ohler55/slip/zzvrt"
)

// zzC09EdgeSize: the second pool, boundary objects of the sequence and table kinds.
const zzC09EdgeSize = 5

// zzC09EdgeName documents the edge pool.
var zzC09EdgeName = [zzC09EdgeSize]string{"empty list that is not nil", "vector whose fill pointer lies beyond its length",
	"empty string", "empty vector", "fixnum 0"}

func zzC09EdgeObj(scope *slip.Scope, k int) slip.Object {
	switch k {
	case 0:
		return slip.List{}
	case 1:
		// (make-array 3 :fill-pointer 7) is accepted by slip: Lisp-level input all the same
		v := slip.NewVector(3, slip.TrueSymbol, slip.Fixnum(0), nil, true)
		v.FillPtr = 7
		return v
	case 2:
		return slip.String("")
	case 3:
		return slip.NewVector(0, slip.TrueSymbol, nil, slip.List{}, true)
	}
	return slip.Fixnum(0)
}

// zzC09EdgePartners: the objects of the first pool an edge object is paired with.
var zzC09EdgePartners = [...]int{0, 4, 8, 9, 10, 11} // fixnum, string, list, vector, hash-table, nil

// VerifC09TupleEdge: every registered function called with an edge object
// alone (mode 0), with an edge object first and a partner second (mode 1),
// and the other way round (mode 2); the objects are engine forks.
func VerifC09TupleEdge(idx, mode int) {
	key := zzC09Names[idx]
	fi := zzC09Find(key)
	vrt.Assert(fi != nil, "table entry is not in the registry")
	if _, ex := zzC09TupleExcluded[key]; ex {
		vrt.Reach("excluded")
		return
	}
	zzC09Streams()
	scope := slip.NewScope()
	e := vrt.Choice("edge", zzC09EdgeSize)
	objs := []slip.Object{zzC09EdgeObj(scope, e)}
	p := -1
	if mode != 0 {
		p = zzC09EdgePartners[vrt.Choice("partner", len(zzC09EdgePartners))]
		po := zzC09PoolObj(scope, p, "x1", false)
		if mode == 1 {
			objs = append(objs, po)
		} else {
			objs = []slip.Object{po, objs[0]}
		}
	}
	class := zzC09Value
	cut := zzC09Guard(10*zzC09Steps, zzC09Decisions, func() { class = zzC09EvalFunc(scope, fi, objs) })
	vrt.Note("class", key, mode, e, p, class, cut)
	vrt.Reach("called")
	if cut != 0 {
		vrt.Assert(vrt.Faults() <= 0, "Go run-time fault instead of a Lisp condition")
	}
	vrt.Assert(cut == 0, "evaluation does not finish within its budget")
	zzC09Check(class)
}
