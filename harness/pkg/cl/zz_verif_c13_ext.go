package cl

// C13 extension, part 1 — wider and longer histories.
//
// 3 packages x 2 variable names x 2 function names (the quantifier of the property), histories of up
// to 6 operations out of a table of 156 operation instances (every package as *package*; plain,
// pkg:name and pkg::name writes; one- and two-argument export/unexport/use-package/unuse-package),
// packages created by defpackage with (:use ...) and (:export ...) options taken from a case
// parameter. After EVERY step every name is resolved from every package (plain, p:name, p::name;
// by evaluation / call, by boundp + symbol-value / fboundp + funcall, by apply and find-symbol) and
// compared with a reference model (zzC13XModel) that recomputes visibility from the use/export
// graph. The model is written from the property statement, not from package.go. Values are symbolic.
//
// Open defects are handled by regions computed from the model state (zzC13XRegion); inside a
// region the exact expectation is replaced by a weak one that still has to hold (the value seen is
// the current value of the name in SOME package; a function seen in a package that does not own it
// is exported by some package), so a region never switches checking off completely.

import (
	"strconv"

	"github.com/ohler55/slip"
	vrt "github.com/ohler55/slip/zzvrt"
)

const (
	zzC13XNP = 3
	zzC13XNN = 4 // names 0, 1: variables; 2, 3: functions
)

const (
	zzC13XDefine    = iota // (defvar v X) / (defun f () X)
	zzC13XDefparam         // (defparameter v X)
	zzC13XSetq             // (setq v X)
	zzC13XUnbind           // (makunbound 'v) / (fmakunbound 'f)
	zzC13XExport           // (export 'n)
	zzC13XUnexport         // (unexport 'n)
	zzC13XUse              // (use-package "tgt")
	zzC13XUnuse            // (unuse-package "tgt")
	zzC13XDefineQ          // (defvar tgt::v X) / (defun tgt::f () X)
	zzC13XSetqQ            // (setq tgt::v X)
	zzC13XSetqQ1           // (setq tgt:v X)
	zzC13XExport2          // (export 'n "tgt")
	zzC13XUnexport2        // (unexport 'n "tgt")
	zzC13XUse2             // (use-package "tgt" "tgt2"): tgt2 uses tgt
	zzC13XUnuse2           // (unuse-package "tgt" "tgt2")
)

var zzC13XKindName = []string{"define", "defparameter", "setq", "unbind", "export", "unexport", "use", "unuse",
	"define::", "setq::", "setq:", "export2", "unexport2", "use2", "unuse2"}

type zzC13XOp struct {
	kind, cur, k, tgt, tgt2 int
}

func zzC13XIsFn(k int) bool { return 2 <= k }

// zzC13XOps is the operation table (mirrored by C13.gen.py: xops()).
func zzC13XOps() []zzC13XOp {
	var ops []zzC13XOp
	for cur := 0; cur < zzC13XNP; cur++ {
		for k := 0; k < zzC13XNN; k++ {
			ops = append(ops, zzC13XOp{kind: zzC13XDefine, cur: cur, k: k})
			if !zzC13XIsFn(k) {
				ops = append(ops, zzC13XOp{kind: zzC13XDefparam, cur: cur, k: k})
				ops = append(ops, zzC13XOp{kind: zzC13XSetq, cur: cur, k: k})
			}
			ops = append(ops, zzC13XOp{kind: zzC13XUnbind, cur: cur, k: k})
			ops = append(ops, zzC13XOp{kind: zzC13XExport, cur: cur, k: k})
			ops = append(ops, zzC13XOp{kind: zzC13XUnexport, cur: cur, k: k})
		}
		for t := 0; t < zzC13XNP; t++ {
			if t != cur {
				ops = append(ops, zzC13XOp{kind: zzC13XUse, cur: cur, tgt: t})
				ops = append(ops, zzC13XOp{kind: zzC13XUnuse, cur: cur, tgt: t})
			}
		}
		for t := 0; t < zzC13XNP; t++ {
			if t == cur {
				continue
			}
			for k := 0; k < zzC13XNN; k++ {
				ops = append(ops, zzC13XOp{kind: zzC13XDefineQ, cur: cur, k: k, tgt: t})
				if !zzC13XIsFn(k) {
					ops = append(ops, zzC13XOp{kind: zzC13XSetqQ, cur: cur, k: k, tgt: t})
					ops = append(ops, zzC13XOp{kind: zzC13XSetqQ1, cur: cur, k: k, tgt: t})
				}
			}
			for k := 0; k < zzC13XNN; k += 2 {
				ops = append(ops, zzC13XOp{kind: zzC13XExport2, cur: cur, k: k, tgt: t})
				ops = append(ops, zzC13XOp{kind: zzC13XUnexport2, cur: cur, k: k, tgt: t})
			}
			t2 := 3 - cur - t
			ops = append(ops, zzC13XOp{kind: zzC13XUse2, cur: cur, tgt: t, tgt2: t2})
			ops = append(ops, zzC13XOp{kind: zzC13XUnuse2, cur: cur, tgt: t, tgt2: t2})
		}
	}
	return ops
}

func zzC13XOpString(op zzC13XOp) string {
	return zzC13XKindName[op.kind] + "[in " + string(rune('A'+op.cur)) + " name" + strconv.Itoa(op.k) + " tgt=" +
		string(rune('A'+op.tgt)) + " tgt2=" + string(rune('A'+op.tgt2)) + "]"
}

// ---------------------------------------------------------------------------------------------
// reference model

// regions of the defects that are still open
const (
	zzC13XRNone       = iota
	zzC13XRConflict   // C13-conflict-loser-lost
	zzC13XRTransitive // C13-use-transitive
	zzC13XRDefunInh   // C13-defun-inherited-placeholder
	zzC13XRColonWrite // C13-single-colon-write-inherited
	zzC13XRSymvalMark // C13-symbol-value-unbound-marker
	zzC13XRFmakHole   // C13-fmakunbound-placeholder-not-in-users
	zzC13XRStatusShad // C13-find-symbol-placeholder-shadows-own
	zzC13XNRegions
)

var zzC13XRegionID = []string{"", "C13-conflict-loser-lost", "C13-use-transitive", "C13-defun-inherited-placeholder",
	"C13-single-colon-write-inherited", "C13-symbol-value-unbound-marker",
	"C13-fmakunbound-placeholder-not-in-users", "C13-find-symbol-placeholder-shadows-own"}

type zzC13XModel struct {
	present [zzC13XNP][zzC13XNN]bool // the package has a symbol of that name of its own (defined or exported there)
	bound   [zzC13XNP][zzC13XNN]bool
	val     [zzC13XNP][zzC13XNN]int64
	exp     [zzC13XNP][zzC13XNN]bool
	uses    [zzC13XNP][zzC13XNP]bool

	// what the open defects may have damaged (never used for an exact expectation)
	confl [zzC13XNP][zzC13XNN]bool // the package has seen two candidates for the name since its tables were last rebuilt
	trans [zzC13XNP][zzC13XNN]bool // the package may hold a record it got through a package that merely inherits the name
	hole  [zzC13XNP][zzC13XNN]bool // fmakunbound of an exported function while the package was a user: no placeholder entered
	wild  [zzC13XNRegions][zzC13XNN]bool // a write went through a damaged resolution: model and slip may differ anywhere
}

func (m *zzC13XModel) zzCands(p, k int) []int {
	if m.present[p][k] {
		return []int{p}
	}
	var out []int
	for q := 0; q < zzC13XNP; q++ {
		if q != p && m.uses[p][q] && m.present[q][k] && m.exp[q][k] {
			out = append(out, q)
		}
	}
	return out
}

// zzInheritsSomething: the tables of q hold a record for k that is not q's own
func (m *zzC13XModel) zzInheritsSomething(q, k int) bool {
	return !m.present[q][k] && (0 < len(m.zzCands(q, k)) || m.trans[q][k])
}

func (m *zzC13XModel) zzRebuild(u int) {
	for k := 0; k < zzC13XNN; k++ {
		m.trans[u][k] = false
		m.confl[u][k] = false
		m.hole[u][k] = false
		for r := 0; r < zzC13XNP; r++ {
			if r != u && m.uses[u][r] && m.zzInheritsSomething(r, k) {
				m.trans[u][k] = true
			}
		}
	}
}

// zzDamaged: the resolution of k in the name space of p may be wrong in slip (region r)
func (m *zzC13XModel) zzDamaged(p, k int) int {
	switch {
	case m.wild[zzC13XRDefunInh][k]:
		return zzC13XRDefunInh
	case m.wild[zzC13XRColonWrite][k]:
		return zzC13XRColonWrite
	case m.wild[zzC13XRTransitive][k]:
		return zzC13XRTransitive
	case m.wild[zzC13XRConflict][k]:
		return zzC13XRConflict
	case (!m.present[p][k] || !m.bound[p][k]) && m.trans[p][k]:
		return zzC13XRTransitive
	case (!m.present[p][k] || !m.bound[p][k]) && m.confl[p][k]:
		return zzC13XRConflict
	}
	return zzC13XRNone
}

func (m *zzC13XModel) zzIsWild(k int) bool {
	for r := 1; r < zzC13XNRegions; r++ {
		if m.wild[r][k] {
			return true
		}
	}
	return false
}

// zzApply updates the model. false: the operation is outside the modelled fragment (write through a
// name conflict, export of a merely inherited name, a present-but-unbound symbol shadowing an
// inherited one): the history stops there.
func (m *zzC13XModel) zzApply(op zzC13XOp, x int64) bool {
	k := op.k
	p := op.cur
	switch op.kind {
	case zzC13XDefineQ, zzC13XSetqQ, zzC13XSetqQ1, zzC13XExport2, zzC13XUnexport2:
		p = op.tgt
	}
	switch op.kind {
	case zzC13XDefine, zzC13XDefparam, zzC13XSetq, zzC13XDefineQ, zzC13XSetqQ, zzC13XSetqQ1, zzC13XUnbind,
		zzC13XExport, zzC13XExport2, zzC13XUnexport, zzC13XUnexport2:
		if r := m.zzDamaged(p, k); r != zzC13XRNone {
			m.wild[r][k] = true
		}
	}
	switch op.kind {
	case zzC13XDefine, zzC13XDefparam, zzC13XSetq, zzC13XDefineQ, zzC13XSetqQ, zzC13XSetqQ1:
		c := m.zzCands(p, k)
		if 1 < len(c) {
			return false
		}
		if op.kind == zzC13XSetqQ1 {
			// tgt:v names the variable tgt itself exports and nothing else
			if !(m.present[p][k] && m.exp[p][k]) {
				// (C13-single-colon-write-inherited, repaired: slip no longer writes the variable tgt merely
				// inherits, nothing is marked as damaged any more)
				break
			}
		}
		if len(c) == 0 {
			m.present[p][k] = true
			m.bound[p][k] = true
			m.val[p][k] = x
			break
		}
		o := c[0]
		if (op.kind == zzC13XDefine || op.kind == zzC13XDefineQ) && !zzC13XIsFn(k) && m.bound[o][k] {
			break // defvar of a bound variable has no effect
		}
		if zzC13XIsFn(k) && !m.bound[o][k] && o != p {
			m.wild[zzC13XRDefunInh][k] = true
		}
		m.bound[o][k] = true
		m.val[o][k] = x
	case zzC13XUnbind:
		c := m.zzCands(p, k)
		if 1 < len(c) {
			return false
		}
		if len(c) == 1 {
			o := c[0]
			if zzC13XIsFn(k) && m.bound[o][k] && m.exp[o][k] {
				for u := 0; u < zzC13XNP; u++ {
					if u != o && m.uses[u][o] {
						m.hole[u][k] = true
					}
				}
			}
			m.bound[o][k] = false
		}
	case zzC13XExport, zzC13XExport2:
		if !m.present[p][k] && 0 < len(m.zzCands(p, k)) {
			return false
		}
		m.present[p][k] = true
		m.exp[p][k] = true
		for u := 0; u < zzC13XNP; u++ {
			if m.uses[u][p] {
				m.hole[u][k] = false
			}
		}
	case zzC13XUnexport, zzC13XUnexport2:
		if m.present[p][k] {
			m.exp[p][k] = false
		}
	case zzC13XUse, zzC13XUse2:
		u, q := op.cur, op.tgt
		if op.kind == zzC13XUse2 {
			u = op.tgt2
		}
		if u != q && !m.uses[u][q] {
			m.uses[u][q] = true
			for k2 := 0; k2 < zzC13XNN; k2++ {
				if m.zzInheritsSomething(q, k2) {
					m.trans[u][k2] = true
				}
			}
		}
	case zzC13XUnuse, zzC13XUnuse2:
		u, q := op.cur, op.tgt
		if op.kind == zzC13XUnuse2 {
			u = op.tgt2
		}
		if u != q {
			m.uses[u][q] = false
			m.zzRebuild(u)
		}
	}
	for u := 0; u < zzC13XNP; u++ {
		for k2 := 0; k2 < zzC13XNN; k2++ {
			if !m.present[u][k2] && 2 <= len(m.zzCands(u, k2)) {
				m.confl[u][k2] = true
			}
		}
	}
	return !m.zzAmbiguous()
}

func (m *zzC13XModel) zzAmbiguous() bool {
	for p := 0; p < zzC13XNP; p++ {
		for k := 0; k < zzC13XNN; k++ {
			if !m.present[p][k] || m.bound[p][k] {
				continue
			}
			for q := 0; q < zzC13XNP; q++ {
				if q != p && m.uses[p][q] && m.present[q][k] && m.exp[q][k] {
					return true
				}
			}
		}
	}
	return false
}

// ---------------------------------------------------------------------------------------------
// the system under test

type zzC13XSys struct {
	pkg   [zzC13XNP]string
	name  [zzC13XNN]string
	scope *slip.Scope
	nx    int
	cur   int
}

// native exploration (never set by an obligation): concrete distinct values, unique package names,
// every check goes to the collector
var zzC13XCollect func(region int, strong bool, ok bool, msg string)
var zzC13XPrefix = "zx13"

// zzC13XProbe: 0 = main obligation; r > 0: probe of region r (only the exact expectations inside that
// region are asserted, behind the carve-out)
var zzC13XProbe int

func zzC13XCheck(region int, strong bool, cond bool, msg string) {
	if zzC13XCollect != nil {
		zzC13XCollect(region, strong, cond, msg)
		return
	}
	if zzC13XProbe == 0 {
		// main run: exact expectations outside every region, weak ones everywhere
		if region == zzC13XRNone || !strong {
			vrt.Assert(cond, msg)
		}
		return
	}
	if region == zzC13XProbe && strong {
		vrt.Assert(cond, msg)
	}
}

func zzC13XNewSys(tag string) *zzC13XSys {
	sys := &zzC13XSys{scope: slip.NewScope(), cur: -1}
	sys.scope.Let(slip.Symbol("*error-output*"), &slip.StringStream{})
	for p := 0; p < zzC13XNP; p++ {
		sys.pkg[p] = zzC13XPrefix + tag + string(rune('a'+p))
	}
	sys.name = [zzC13XNN]string{"zx13v0", "zx13v1", "zx13f2", "zx13f3"}
	return sys
}

func (sys *zzC13XSys) zzFresh() int64 {
	sys.nx++
	if zzC13XCollect != nil {
		return int64(1000 + sys.nx)
	}
	return vrt.Int64("x" + strconv.Itoa(sys.nx-1))
}

// zzMakePackages: defpackage for A, B, C in that order. init bits: 0: B uses A, 1: C uses A, 2: C uses
// B (:use options), 3..: package p exports name k at defpackage time (bit 3 + 4*p + k).
func (sys *zzC13XSys) zzMakePackages(m *zzC13XModel, init int) {
	for p := 0; p < zzC13XNP; p++ {
		use := slip.List{slip.Symbol(":use"), slip.String("cl"), slip.String("cl-user")}
		if p == 1 && init&1 != 0 {
			use = append(use, slip.String(sys.pkg[0]))
			m.uses[1][0] = true
		}
		if p == 2 && init&2 != 0 {
			use = append(use, slip.String(sys.pkg[0]))
			m.uses[2][0] = true
		}
		if p == 2 && init&4 != 0 {
			use = append(use, slip.String(sys.pkg[1]))
			m.uses[2][1] = true
		}
		// what the new package inherits through the packages it uses (the defects of use-package)
		for q := 0; q < p; q++ {
			if !m.uses[p][q] {
				continue
			}
			for k := 0; k < zzC13XNN; k++ {
				if m.zzInheritsSomething(q, k) {
					m.trans[p][k] = true
				}
			}
		}
		for k := 0; k < zzC13XNN; k++ {
			if 2 <= len(m.zzCands(p, k)) {
				m.confl[p][k] = true
			}
		}
		form := slip.List{slip.Symbol("defpackage"), slip.String(sys.pkg[p]), use}
		var ex slip.List
		for k := 0; k < zzC13XNN; k++ {
			if init&(1<<uint(3+4*p+k)) != 0 {
				// a name a used package already exports would be a re-export: outside the model
				if 0 < len(m.zzCands(p, k)) {
					continue
				}
				if r := m.zzDamaged(p, k); r != zzC13XRNone {
					m.wild[r][k] = true
				}
				ex = append(ex, slip.String(sys.name[k]))
				m.present[p][k] = true
				m.exp[p][k] = true
			}
		}
		if 0 < len(ex) {
			form = append(form, append(slip.List{slip.Symbol(":export")}, ex...))
		}
		rc := zzC13Do(sys.scope, form)
		zzC13XCheck(zzC13XRNone, true, rc == 0, "defpackage failed")
	}
}

func (sys *zzC13XSys) zzInPackage(p int) {
	if sys.cur == p {
		return
	}
	rc := zzC13Do(sys.scope, slip.List{slip.Symbol("in-package"), slip.String(sys.pkg[p])})
	zzC13XCheck(zzC13XRNone, true, rc == 0, "in-package failed")
	sys.cur = p
}

func (sys *zzC13XSys) zzForm(op zzC13XOp, x int64) slip.Object {
	n := sys.name[op.k]
	fn := zzC13XIsFn(op.k)
	switch op.kind {
	case zzC13XDefine, zzC13XDefineQ:
		if op.kind == zzC13XDefineQ {
			n = sys.pkg[op.tgt] + "::" + n
		}
		if fn {
			return slip.List{slip.Symbol("defun"), slip.Symbol(n), slip.List{}, slip.Fixnum(x)}
		}
		return slip.List{slip.Symbol("defvar"), slip.Symbol(n), slip.Fixnum(x)}
	case zzC13XDefparam:
		return slip.List{slip.Symbol("defparameter"), slip.Symbol(n), slip.Fixnum(x)}
	case zzC13XSetq:
		return slip.List{slip.Symbol("setq"), slip.Symbol(n), slip.Fixnum(x)}
	case zzC13XSetqQ:
		return slip.List{slip.Symbol("setq"), slip.Symbol(sys.pkg[op.tgt] + "::" + n), slip.Fixnum(x)}
	case zzC13XSetqQ1:
		return slip.List{slip.Symbol("setq"), slip.Symbol(sys.pkg[op.tgt] + ":" + n), slip.Fixnum(x)}
	case zzC13XUnbind:
		if fn {
			return slip.List{slip.Symbol("fmakunbound"), zzC13Quote(n)}
		}
		return slip.List{slip.Symbol("makunbound"), zzC13Quote(n)}
	case zzC13XExport:
		return slip.List{slip.Symbol("export"), zzC13Quote(n)}
	case zzC13XUnexport:
		return slip.List{slip.Symbol("unexport"), zzC13Quote(n)}
	case zzC13XExport2:
		return slip.List{slip.Symbol("export"), zzC13Quote(n), slip.String(sys.pkg[op.tgt])}
	case zzC13XUnexport2:
		return slip.List{slip.Symbol("unexport"), zzC13Quote(n), slip.String(sys.pkg[op.tgt])}
	case zzC13XUse:
		return slip.List{slip.Symbol("use-package"), slip.String(sys.pkg[op.tgt])}
	case zzC13XUnuse:
		return slip.List{slip.Symbol("unuse-package"), slip.String(sys.pkg[op.tgt])}
	case zzC13XUse2:
		return slip.List{slip.Symbol("use-package"), slip.String(sys.pkg[op.tgt]), slip.String(sys.pkg[op.tgt2])}
	case zzC13XUnuse2:
		return slip.List{slip.Symbol("unuse-package"), slip.String(sys.pkg[op.tgt]), slip.String(sys.pkg[op.tgt2])}
	}
	return nil
}

func (sys *zzC13XSys) zzStep(m *zzC13XModel, op zzC13XOp) bool {
	var x int64
	switch op.kind {
	case zzC13XDefine, zzC13XDefparam, zzC13XSetq, zzC13XDefineQ, zzC13XSetqQ, zzC13XSetqQ1:
		x = sys.zzFresh()
	}
	if !m.zzApply(op, x) {
		return false
	}
	sys.zzInPackage(op.cur)
	rc := zzC13Do(sys.scope, sys.zzForm(op, x))
	if op.kind == zzC13XSetqQ1 {
		// a pkg:name write to a name pkg does not export may signal or do nothing
		zzC13XCheck(zzC13XRNone, true, rc == 0 || rc == zzC13Unbound || rc == zzC13OtherCondition,
			"operation faulted: "+zzC13XOpString(op))
	} else {
		zzC13XCheck(zzC13XRNone, true, rc == 0, "operation signalled or faulted: "+zzC13XOpString(op))
	}
	return true
}

// zzExpect compares an outcome with the model: exact expectation outside regions, weak inside.
func (m *zzC13XModel) zzExpect(region, ctx, k int, plain bool, cands []int, out zzC13Out, what string) {
	cls := strconv.Itoa(out.class)
	// weak expectations (hold inside the regions of the open defects as well, unless a write went
	// through a damaged resolution)
	if !m.zzIsWild(k) {
		zzC13XCheck(region, false, out.class == zzC13Value || out.class == zzC13Unbound, what+": neither a value nor unbound/undefined, class="+cls)
		if out.class == zzC13Value {
			ok := false
			anyExp := m.present[ctx][k]
			for q := 0; q < zzC13XNP; q++ {
				if m.bound[q][k] && out.val == m.val[q][k] {
					ok = true
				}
				if m.present[q][k] && m.bound[q][k] && m.exp[q][k] {
					anyExp = true
				}
			}
			zzC13XCheck(region, false, ok, what+": a value no package holds for this name (stale)")
			if zzC13XIsFn(k) && plain {
				zzC13XCheck(region, false, anyExp, what+": callable although neither own nor exported by any package")
			}
		}
	}
	switch len(cands) {
	case 0:
		zzC13XCheck(region, true, out.class == zzC13Unbound, what+": expected unbound/undefined, class="+cls)
	case 1:
		c := cands[0]
		if !m.bound[c][k] {
			zzC13XCheck(region, true, out.class == zzC13Unbound, what+": expected unbound/undefined, class="+cls)
		} else if out.class != zzC13Value {
			zzC13XCheck(region, true, false, what+": expected a value, class="+cls)
		} else {
			zzC13XCheck(region, true, out.val == m.val[c][k], what+": wrong (stale or foreign) value")
		}
	default:
		okUnbound := false
		for _, c := range cands {
			if !m.bound[c][k] {
				okUnbound = true
			}
		}
		if out.class != zzC13Value {
			zzC13XCheck(region, true, okUnbound && out.class == zzC13Unbound, what+": expected a candidate's binding, class="+cls)
			return
		}
		ok := false
		for _, c := range cands {
			if m.bound[c][k] && out.val == m.val[c][k] {
				ok = true
			}
		}
		zzC13XCheck(region, true, ok, what+": wrong value, no candidate has it")
	}
}

func zzC13XIsT(s *slip.Scope, form slip.Object) int {
	// 1 = t, 0 = nil, -1 = anything else (condition, fault, other value)
	res := -1
	func() {
		defer func() { _ = recover() }()
		switch s.Eval(form, 0) {
		case nil:
			res = 0
		case slip.True:
			res = 1
		}
	}()
	return res
}

// zzC13XStatus evaluates (find-symbol "name"): 0 nil, 1 :internal, 2 :external, 3 :inherited, -1 other
func zzC13XStatus(s *slip.Scope, form slip.Object) int {
	res := -1
	func() {
		defer func() { _ = recover() }()
		v := s.Eval(form, 0)
		vs, ok := v.(slip.Values)
		if !ok || len(vs) != 2 {
			return
		}
		switch vs[1] {
		case nil:
			res = 0
		case slip.Symbol(":internal"):
			res = 1
		case slip.Symbol(":external"):
			res = 2
		case slip.Symbol(":inherited"):
			res = 3
		}
	}()
	return res
}

// zzObserve resolves every name from every package. mode 0: evaluate the symbol / call (name);
// mode 1: (symbol-value 'n) / (funcall 'n), plain names also boundp / fboundp; mode 2: symbol / (apply
// 'n nil), plain names also find-symbol.
func (sys *zzC13XSys) zzObserve(m *zzC13XModel, mode int, when string) {
	nValue, nUnbound, nOther := 0, 0, 0
	var sum int64
	for cur := 0; cur < zzC13XNP; cur++ {
		sys.zzInPackage(cur)
		for k := 0; k < zzC13XNN; k++ {
			fn := zzC13XIsFn(k)
			for form := 0; form < 1+2*zzC13XNP; form++ {
				n := sys.name[k]
				var cands []int
				ctx := cur
				region := zzC13XRNone
				what := when + " | in " + string(rune('A'+cur)) + " "
				if form == 0 {
					cands = m.zzCands(cur, k)
					region = m.zzDamaged(cur, k)
					what += "name" + strconv.Itoa(k)
				} else {
					t := (form - 1) / 2
					ctx = t
					if (form-1)%2 == 0 {
						n = sys.pkg[t] + ":" + n
						if m.present[t][k] && m.exp[t][k] {
							cands = []int{t}
						}
						if m.zzIsWild(k) {
							region = m.zzDamaged(t, k)
						}
						what += string(rune('A'+t)) + ":name" + strconv.Itoa(k)
					} else {
						n = sys.pkg[t] + "::" + n
						cands = m.zzCands(t, k)
						region = m.zzDamaged(t, k)
						what += string(rune('A'+t)) + "::name" + strconv.Itoa(k)
					}
				}
				var f slip.Object
				switch {
				case !fn && (mode != 1 || form != 0):
					f = slip.Symbol(n)
				case !fn:
					f = slip.List{slip.Symbol("symbol-value"), zzC13Quote(n)}
					what += " (symbol-value)"
				case mode == 0:
					f = slip.List{slip.Symbol(n)}
					what += "()"
				case mode == 1:
					f = slip.List{slip.Symbol("funcall"), zzC13Quote(n)}
					what += " (funcall)"
				default:
					f = slip.List{slip.Symbol("apply"), zzC13Quote(n), nil}
					what += " (apply)"
				}
				out := zzC13Eval(sys.scope, f)
				if out.class == zzC13OtherCondition && mode != 0 {
					// symbol-value, funcall and apply report the missing binding with a plain error
					out.class = zzC13Unbound
				}
				switch out.class {
				case zzC13Value:
					nValue++
					sum += out.val
				case zzC13Unbound:
					nUnbound++
				default:
					nOther++
				}
				if out.class == zzC13MarkerValue && !fn && mode == 1 && form == 0 {
					// (symbol-value 'v) of an exported, never bound variable returns the unbound marker
					region = zzC13XRSymvalMark
					zzC13XCheck(region, true, false, what+": symbol-value returned the unbound marker object")
					continue
				}
				m.zzExpect(region, ctx, k, form == 0, cands, out, what)
				if form != 0 {
					continue
				}
				if mode == 1 {
					pred := "boundp"
					if fn {
						pred = "fboundp"
					}
					b := zzC13XIsT(sys.scope, slip.List{slip.Symbol(pred), zzC13Quote(n)})
					zzC13XCheck(region, true, b == 0 || b == 1, what+": "+pred+" did not return t or nil")
					// the predicate agrees with what evaluating the name does
					zzC13XCheck(region, true, (b == 1) == (out.class == zzC13Value), what+": "+pred+" disagrees with the evaluation of the name")
				}
				if mode == 2 {
					st := zzC13XStatus(sys.scope, slip.List{slip.Symbol("find-symbol"), slip.String(sys.name[k])})
					want := 0
					switch {
					case m.present[cur][k] && m.exp[cur][k]:
						want = 2
					case m.present[cur][k]:
						want = 1
					case 0 < len(cands):
						want = 3
					}
					sreg := region
					if sreg == zzC13XRNone && fn {
						switch {
						case want == 3 && len(cands) == 1 && !m.bound[cands[0]][k] && m.hole[cur][k]:
							sreg = zzC13XRFmakHole
						case (want == 1 || want == 2) && m.trans[cur][k]:
							// the placeholder variable of a used package's inherited name
							sreg = zzC13XRTransitive
						case want == 1 || want == 2:
							for q := 0; q < zzC13XNP; q++ {
								if q != cur && m.uses[cur][q] && m.present[q][k] && m.exp[q][k] {
									sreg = zzC13XRStatusShad
								}
							}
						}
					}
					if want == 1 && !m.bound[cur][k] && st == 0 {
						// an unexported symbol that was unbound again: slip drops the record, the symbol is gone
						st = 1
					}
					zzC13XCheck(sreg, true, st == want, what+": find-symbol status "+strconv.Itoa(st)+", expected "+strconv.Itoa(want))
				}
			}
		}
	}
	if zzC13XCollect == nil {
		vrt.Note("observed", nValue, nUnbound, nOther, sum)
	}
}

// zzC13XHistory: packages from init, then the operations hist (1-based indices into zzC13XOps, 0 ends),
// comparing after every step.
func zzC13XHistory(tag string, init, mode int, hist []int) {
	sys := zzC13XNewSys(tag)
	var m zzC13XModel
	sys.zzMakePackages(&m, init)
	if m.zzAmbiguous() {
		vrt.Reach("out-of-model")
		return
	}
	ops := zzC13XOps()
	sys.zzObserve(&m, mode, "initially")
	for i, h := range hist {
		if h <= 0 || len(ops) < h {
			break
		}
		op := ops[h-1]
		if !sys.zzStep(&m, op) {
			vrt.Reach("out-of-model")
			return
		}
		sys.zzObserve(&m, mode, "after step "+strconv.Itoa(i+1)+" "+zzC13XOpString(op))
	}
	vrt.Reach("compared")
}

// VerifC13XHistory: (init, mode, o1..o6), see zzC13XHistory / zzMakePackages / zzObserve.
func VerifC13XHistory(init, mode, o1, o2, o3, o4, o5, o6 int) {
	zzC13XProbe = 0
	zzC13XHistory("h", init, mode, []int{o1, o2, o3, o4, o5, o6})
}

// VerifC13XFinding: the same history asserting only the exact expectations inside one region.
func VerifC13XFinding(region, init, mode, o1, o2, o3, o4, o5, o6 int) {
	zzC13XProbe = 0
	if region <= 0 || zzC13XNRegions <= region {
		return
	}
	vrt.Carve(zzC13XRegionID[region], true)
	zzC13XProbe = region
	zzC13XHistory("f", init, mode, []int{o1, o2, o3, o4, o5, o6})
}

// VerifC13XExplore is used by native exploration tooling only.
func VerifC13XExplore(prefix string, collect func(region int, strong bool, ok bool, msg string), init, mode int, hist []int) {
	zzC13XPrefix = prefix
	zzC13XCollect = collect
	zzC13Collect = func(region int, ok bool, msg string) { collect(0, true, ok, msg) }
	zzC13XProbe = 0
	zzC13XHistory("e", init, mode, hist)
}

// VerifC13XNOps: size of the operation table.
func VerifC13XNOps() int { return len(zzC13XOps()) }

// VerifC13XOpName: text of operation o (1-based).
func VerifC13XOpName(o int) string { return zzC13XOpString(zzC13XOps()[o-1]) }
