package cl

// C14 (continued): subseq, fill, replace, reverse/nreverse/copy-seq.

import (
	"github.com/ohler55/slip"
	vrt "github.com/ohler55/slip/zzvrt"
)

// VerifC14Subseq: (subseq seq start [end]).
func VerifC14Subseq(kind, n int) {
	vals := zzC14Elems(kind, n)
	start := zzC14Bound("start", n)
	endMode := vrt.Choice("endMode", 3)
	var end int64
	if endMode == 2 {
		end = zzC14Bound("end", n)
	}
	s, e, cls := zzC14Class(true, start, endMode, end, n)
	vrt.Carve("C14-valid-args-rejected", kind == zzC14List && n == 0)
	// CLHS: "subseq always allocates a new sequence for a result; it never
	// shares storage with an old sequence"; slip returns a Go sub-slice
	vrt.Carve("C14-subseq-shares-storage", kind != zzC14String && cls == zzC14BValid && s < e)
	orig := zzC14Seq(kind, vals)
	form := slip.List{slip.Symbol("subseq"), zzC14Quote(orig), slip.Fixnum(start)}
	switch endMode {
	case 1:
		form = append(form, nil)
	case 2:
		form = append(form, slip.Fixnum(end))
	}
	out := zzC14Eval(slip.NewScope(), form)
	if !zzC14Check("subseq", out, cls) {
		return
	}
	var want []int64
	for i := 0; i < n; i++ {
		if s <= int64(i) && int64(i) < e {
			want = append(want, vals[i])
		}
	}
	vrt.Assert(zzC14IsSeq(kind, out.val, want), "subseq: wrong result")
	// storage: overwrite the first element of the result, the original must
	// keep its elements
	if 0 < len(want) && kind != zzC14String {
		var res, old slip.List
		if kind == zzC14List {
			res, old = out.val.(slip.List), orig.(slip.List)
		} else {
			res, old = out.val.(*slip.Vector).AsList(), orig.(*slip.Vector).AsList()
		}
		res[0] = slip.Symbol("zz")
		vrt.Assert(zzC14IsElem(kind, old[s], vals[s]), "subseq: the result shares storage with the argument")
	}
}

// VerifC14Fill: (fill seq item :start :end).
func VerifC14Fill(kind, n int) {
	c := zzC14NewCall(kind, n, 0, 0, false)
	s, e, cls := c.bounds()
	// fill takes no :from-end
	vrt.Assume(c.feMode == 0)
	// known findings: an empty sequence, start = length, an explicit end =
	// length and :end nil are rejected although valid
	vrt.Carve("C14-valid-args-rejected", c.endMode == 1 ||
		(cls == zzC14BValid && (s == int64(n) || (c.endMode == 2 && e == int64(n)))))
	// what remains of C14-valid-args-rejected after its repair (nil as the
	// sequence and :end nil are accepted now): the existing tests pin that
	// start = length and an explicit end = length are errors, which also
	// rejects every call on an empty string or vector
	vrt.Carve("C14-fill-bounds-equal-length", cls == zzC14BValid && !(kind == zzC14List && n == 0) &&
		(s == int64(n) || (c.endMode == 2 && e == int64(n))))
	form := slip.List{slip.Symbol("fill"), zzC14Quote(zzC14Seq(kind, c.vals)), c.itemObj()}
	form = append(form, c.keywords()...)
	out := zzC14Eval(slip.NewScope(), form)
	if !zzC14Check("fill", out, cls) {
		return
	}
	want := make([]int64, n)
	for i := 0; i < n; i++ {
		want[i] = c.vals[i]
		if s <= int64(i) && int64(i) < e {
			want[i] = c.item
		}
	}
	vrt.Assert(zzC14IsSeq(kind, out.val, want), "fill: wrong result")
}

// VerifC14Replace: (replace seq1 seq2 :start1 :end1 :start2 :end2).
func VerifC14Replace(kind, m, n int) {
	c := zzC14NewTwo(kind, m, n, 0, 0, false)
	s1, e1, cls1 := zzC14Class(c.hasS1, c.s1, c.e1Mode, c.e1, m)
	s2, e2, cls2 := zzC14Class(c.hasS2, c.s2, c.e2Mode, c.e2, n)
	cls := cls1
	if cls == zzC14BValid {
		cls = cls2
	}
	// sequence-2 goes through the same seqToList as mismatch; sequence-1
	// through checkStartEnd, which also rejects an explicit end1 = length
	nilTarget := kind == zzC14List && m == 0 // (replace nil ...): no checks at all
	vrt.Carve("C14-valid-args-rejected", cls == zzC14BValid &&
		((0 < m && s1 == int64(m)) || (!nilTarget && c.e1Mode == 2 && e1 == int64(m)) ||
			zzC14MismatchStartBad(n, s2, c.e2Mode)))
	vrt.Carve("C14-invalid-bounds-accepted", nilTarget && (cls1 == zzC14BEndBig || cls1 == zzC14BStartGt))
	form := slip.List{slip.Symbol("replace"), zzC14Quote(zzC14Seq(kind, c.a)), zzC14Quote(zzC14Seq(kind, c.b))}
	form = append(form, c.keywords()...)
	out := zzC14Eval(slip.NewScope(), form)
	if !zzC14Check("replace", out, cls) {
		return
	}
	want := make([]int64, m)
	for i := 0; i < m; i++ {
		want[i] = c.a[i]
		k := int64(i) - s1
		if 0 <= k && int64(i) < e1 && s2+k < e2 {
			want[i] = c.b[s2+k]
		}
	}
	vrt.Assert(zzC14IsSeq(kind, out.val, want), "replace: wrong result")
}

// VerifC14Reverse: reverse / nreverse / copy-seq (fn).
func VerifC14Reverse(kind, n, fn int) {
	vals := zzC14Elems(kind, n)
	name := [...]string{"reverse", "nreverse", "copy-seq"}[fn]
	form := slip.List{slip.Symbol(name), zzC14Quote(zzC14Seq(kind, vals))}
	out := zzC14Eval(slip.NewScope(), form)
	vrt.Reach("compared")
	vrt.Assert(out.class == zzC14Value, name+": no value for a valid call")
	want := make([]int64, n)
	for i := 0; i < n; i++ {
		if fn == 2 {
			want[i] = vals[i]
		} else {
			want[n-1-i] = vals[i]
		}
	}
	vrt.Assert(zzC14IsSeq(kind, out.val, want), name+": wrong result")
}

// VerifC14CountMB: count / count-if on a string that starts with a two byte
// character ("é" followed by n symbolic ASCII characters): indices are
// character indices, the length is n+1.
func VerifC14CountMB(n, ifForm int) {
	rest := zzC14Elems(zzC14String, n)
	ba := make([]byte, n)
	for i, v := range rest {
		ba[i] = byte(v)
	}
	str := slip.String("é" + string(ba))
	ib := vrt.Byte("itemc")
	vrt.Assume(ib < 128)
	hasS := vrt.Choice("hasStart", 2) == 1
	var start, end int64
	if hasS {
		start = zzC14Bound("start", n+1)
	}
	endMode := vrt.Choice("endMode", 3)
	if endMode == 2 {
		end = zzC14Bound("end", n+1)
	}
	s, e, cls := zzC14Class(hasS, start, endMode, end, n+1)
	// count.go uses the byte length as the default end: every call without an
	// explicit :end faults (and is turned into a Lisp error)
	vrt.Carve("C14-valid-args-rejected", cls == zzC14BValid && endMode != 2)
	vrt.Carve("C14-invalid-bounds-accepted", cls == zzC14BStartGt || (cls == zzC14BEndBig && e <= s))
	name := "count"
	form := slip.List{slip.Symbol("count"), slip.Character(rune(ib)), str}
	if ifForm != 0 {
		name = "count-if"
		form = slip.List{slip.Symbol("count-if"), zzC14Quote(zzC14NewFn(4)), str}
	}
	if hasS {
		form = append(form, slip.Symbol(":start"), slip.Fixnum(start))
	}
	switch endMode {
	case 1:
		form = append(form, slip.Symbol(":end"), nil)
	case 2:
		form = append(form, slip.Symbol(":end"), slip.Fixnum(end))
	}
	out := zzC14Eval(slip.NewScope(), form)
	if !zzC14Check(name+" (multi-byte string)", out, cls) {
		return
	}
	var want int64
	for i := int64(0); i <= int64(n); i++ {
		if i < s || e <= i {
			continue
		}
		code := int64(233) // é
		if 0 < i {
			code = rest[i-1]
		}
		if ifForm != 0 {
			if zzC14Pivot < code {
				want++
			}
		} else if code == int64(ib) {
			want++
		}
	}
	vrt.Assert(zzC14IsIndex(out.val, want), name+": wrong number on a multi-byte string")
}
