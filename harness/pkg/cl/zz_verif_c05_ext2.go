package cl

import (
	"math/big"

	"github.com/ohler55/slip"
	vrt "github.com/ohler55/slip/zzvrt"
)

// ---- C05 extension, part 2: ratios ----

// zzC05Q is the oracle's view of a rational: num/den with den > 0, not necessarily in
// lowest terms (the oracle compares by cross multiplication).
type zzC05Q struct{ n, d *big.Int }

func zzC05QInt(v *big.Int) zzC05Q { return zzC05Q{new(big.Int).Set(v), big.NewInt(1)} }

func zzC05QCmp(a, b zzC05Q) int {
	return new(big.Int).Mul(a.n, b.d).Cmp(new(big.Int).Mul(b.n, a.d))
}

func zzC05QOp(op int, a, b zzC05Q) zzC05Q {
	ad, bc := new(big.Int).Mul(a.n, b.d), new(big.Int).Mul(b.n, a.d)
	switch op {
	case 0:
		return zzC05Q{ad.Add(ad, bc), new(big.Int).Mul(a.d, b.d)}
	case 1:
		return zzC05Q{ad.Sub(ad, bc), new(big.Int).Mul(a.d, b.d)}
	case 2:
		return zzC05Q{new(big.Int).Mul(a.n, b.n), new(big.Int).Mul(a.d, b.d)}
	}
	// a/b with b != 0: (a.n*b.d)/(a.d*b.n), sign moved to the numerator
	n, d := ad, new(big.Int).Mul(a.d, b.n)
	if d.Sign() < 0 {
		n.Neg(n)
		d.Neg(d)
	}
	return zzC05Q{n, d}
}

// zzC05XRatOperand: kind 0 symbolic fixnum; 1 symbolic bignum (unbounded); 2 ratio with a
// symbolic unbounded numerator over the concrete denominator den >= 2, in lowest terms;
// 3 the concrete integer den (fixnum or bignum); 4 the concrete ratio num/den.
func zzC05XRatOperand(name string, kind int, num int64, den *big.Int) (slip.Object, zzC05Q) {
	switch kind {
	case 0, 1:
		o, v := zzC05Operand(name, kind)
		return o, zzC05QInt(v)
	case 3:
		return zzC05XInt(den), zzC05QInt(den)
	case 4:
		r := new(big.Rat).SetFrac(big.NewInt(num), den)
		vrt.Assume(!r.IsInt())
		return (*slip.Ratio)(r), zzC05Q{new(big.Int).Set(r.Num()), new(big.Int).Set(r.Denom())}
	}
	n := vrt.Big(name)
	r := new(big.Rat).SetFrac(n, den)
	// lowest terms: the model forks over gcd(n, den); keep the paths where it is 1
	vrt.Assume(r.Denom().Cmp(den) == 0)
	return (*slip.Ratio)(r), zzC05Q{new(big.Int).Set(n), new(big.Int).Set(den)}
}

// zzC05XRatValue: the value of a rational result and its representation
// (0 fixnum, 1 bignum, 2 ratio).
func zzC05XRatValue(o slip.Object) (q zzC05Q, rep int, ok bool) {
	switch t := o.(type) {
	case slip.Fixnum:
		return zzC05QInt(big.NewInt(int64(t))), 0, true
	case *slip.Bignum:
		return zzC05QInt((*big.Int)(t)), 1, true
	case *slip.Ratio:
		r := (*big.Rat)(t)
		return zzC05Q{new(big.Int).Set(r.Num()), new(big.Int).Set(r.Denom())}, 2, true
	}
	return
}

// zzC05XRatSame: the object still holds exactly the captured numerator and denominator.
func zzC05XRatSame(o slip.Object, was zzC05Q) bool {
	now, _, ok := zzC05XRatValue(o)
	return ok && now.n.Cmp(was.n) == 0 && now.d.Cmp(was.d) == 0
}

// zzC05XLowest: n/d (d concrete, > 0) is in lowest terms: no prime factor of d divides n.
func zzC05XLowest(n, d *big.Int) bool {
	rest := new(big.Int).Set(d)
	ok := true
	for p := int64(2); p < 300000 && rest.Cmp(big.NewInt(1)) > 0; p++ {
		bp := big.NewInt(p)
		if new(big.Int).Mul(bp, bp).Cmp(rest) > 0 {
			break
		}
		if new(big.Int).Rem(rest, bp).Sign() != 0 {
			continue
		}
		for new(big.Int).Rem(rest, bp).Sign() == 0 {
			rest.Quo(rest, bp)
		}
		if new(big.Int).Rem(n, bp).Sign() == 0 {
			ok = false
		}
	}
	if rest.Cmp(big.NewInt(1)) > 0 && new(big.Int).Rem(n, rest).Sign() == 0 {
		// rest is a prime (or a product of primes above 300000: then this is only a necessary check)
		ok = false
	}
	return ok
}

// zzC05XCanonical: the canonical-form part of the property for a rational result.
// Returns (lowest terms with positive denominator, integer-valued results are
// integers, integers are fixnums iff they fit).
func zzC05XCanonical(o slip.Object) (lowest, intIsInt, fixIffFits bool) {
	q, rep, _ := zzC05XRatValue(o)
	lowest, intIsInt, fixIffFits = true, true, true
	switch rep {
	case 2:
		lowest = q.d.Sign() > 0 && zzC05XLowest(q.n, q.d)
		intIsInt = q.d.Cmp(big.NewInt(1)) != 0
	case 1:
		fixIffFits = !zzC05Fits(q.n)
	}
	return
}

var zzC05XArith = []string{"+", "-", "*", "/"}

func zzC05XDen(i int) *big.Int {
	if i < 0 {
		return new(big.Int).Neg(zzC05XGridV[-i])
	}
	if i >= 1000 {
		return big.NewInt(int64(i - 1000))
	}
	return zzC05XGridV[i]
}

// VerifC05XRatArith: (op x y), op 0 + 1 - 2 * 3 /. Operand kinds as in zzC05XRatOperand;
// d0/d1 >= 1000 mean the small denominator (or concrete integer) d-1000, otherwise an index
// into the boundary grid; n1 is the numerator of a kind-4 second operand. bits > 0 bounds the
// symbolic numerators/integers by 2^bits (products of two symbolic values).
func VerifC05XRatArith(op int, k0 int, d0 int, k1 int, d1 int, n1 int, bits int) {
	x, qx := zzC05XRatOperand("x", k0, 0, zzC05XDen(d0))
	y, qy := zzC05XRatOperand("y", k1, int64(n1), zzC05XDen(d1))
	if bits > 0 {
		lim := zzC05XPow2(uint(bits))
		vrt.Assume(new(big.Int).Abs(qx.n).Cmp(lim) < 0 && new(big.Int).Abs(qy.n).Cmp(lim) < 0)
	}
	if op == 3 && qy.n.Sign() == 0 {
		out := zzC05Call("/", x, y)
		vrt.Assert(out.class == 1, "division by zero is not a Lisp condition")
		return
	}
	want := zzC05QOp(op, qx, qy)
	vrt.Carve("C05-divide-alters-ratio-operand", op == 3 && k0 == 2)
	wantInt := new(big.Int).Rem(want.n, want.d).Sign() == 0
	isRat := func(k int) bool { return k == 2 || k == 4 }
	isBig := func(k int, q zzC05Q) bool { return k == 1 || (k == 3 && !zzC05Fits(q.n)) }
	vrt.Carve("C05-bignum-with-ratio-goes-float", (isRat(k0) && isBig(k1, qy)) || (isRat(k1) && isBig(k0, qx)))
	vrt.Carve("C05-ratio-result-integer-valued", wantInt && (isRat(k0) || isRat(k1)))
	vrt.Carve("C05-noncanonical-bignum-quotient", op == 3 && !isRat(k0) && !isRat(k1) && (isBig(k0, qx) || isBig(k1, qy)) && wantInt && zzC05Fits(new(big.Int).Quo(want.n, want.d)))
	vrt.Carve("C05-fixnum-min-wraps", op == 3 && k0 == 0 && k1 == 3 && qx.n.Cmp(zzC05Min64) == 0 && qy.n.Cmp(big.NewInt(-1)) == 0)
	out := zzC05Call(zzC05XArith[op], x, y)
	vrt.Reach("called")
	vrt.Assert(out.class == 0, "arithmetic on rationals signalled instead of returning")
	got, rep, ok := zzC05XRatValue(out.one)
	vrt.Assert(ok, "result is not a rational")
	vrt.Assert(got.d.Sign() > 0 && zzC05QCmp(got, want) == 0, "result is not the exact value")
	vrt.Assert(zzC05XRatSame(x, qx) && zzC05XRatSame(y, qy), "an operand was altered")
	_ = rep
	lowest, intIsInt, fixIffFits := zzC05XCanonical(out.one)
	vrt.Assert(lowest, "ratio result is not in lowest terms")
	vrt.Assert(intIsInt, "integer-valued result is a ratio")
	vrt.Assert(fixIffFits, "integer result is not in canonical form (fixnum iff it fits)")
}

// VerifC05XRatCompare: all six comparisons and min/max on a pair of rationals, one of
// them a ratio: exactly one of < = > holds and each agrees with the exact values.
func VerifC05XRatCompare(k0 int, d0 int, k1 int, d1 int, n1 int) {
	x, qx := zzC05XRatOperand("x", k0, 0, zzC05XDen(d0))
	y, qy := zzC05XRatOperand("y", k1, int64(n1), zzC05XDen(d1))
	isRat := func(k int) bool { return k == 2 || k == 4 }
	isBig := func(k int, q zzC05Q) bool { return k == 1 || (k == 3 && !zzC05Fits(q.n)) }
	vrt.Carve("C05-bignum-ratio-compare-goes-float", (isRat(k0) && isBig(k1, qy)) || (isRat(k1) && isBig(k0, qx)))
	c := zzC05QCmp(qx, qy)
	want := []bool{c < 0, c <= 0, c > 0, c >= 0, c == 0, c != 0}
	got := make([]bool, 6)
	for i, name := range zzC05Cmps {
		out := zzC05Call(name, x, y)
		vrt.Assert(out.class == 0, "comparison of rationals signalled")
		got[i] = out.one != nil
	}
	vrt.Reach("called")
	n := 0
	for _, i := range []int{0, 2, 4} {
		if got[i] {
			n++
		}
	}
	vrt.Assert(n == 1, "not exactly one of < = > holds")
	for i := range want {
		vrt.Assert(got[i] == want[i], "comparison disagrees with the exact values")
	}
	for i, name := range zzC05MM {
		out := zzC05Call(name, x, y)
		vrt.Assert(out.class == 0, "max/min of rationals signalled")
		g, _, ok := zzC05XRatValue(out.one)
		w := qx
		if (i == 0 && c < 0) || (i == 1 && c > 0) {
			w = qy
		}
		vrt.Assert(ok && zzC05QCmp(g, w) == 0, "max/min returned the wrong value")
	}
	vrt.Assert(zzC05XRatSame(x, qx) && zzC05XRatSame(y, qy), "an operand was altered")
}

var zzC05XRatUn = []string{"zerop", "plusp", "minusp", "abs", "-", "1+", "1-", "numerator", "denominator", "/"}

// VerifC05XRatUnary: one-argument functions on a ratio with a symbolic numerator
// (k = 2) or on a symbolic integer (k = 0, 1): zerop plusp minusp abs - 1+ 1- numerator
// denominator and the reciprocal (/ x) (k 3/4: concrete operand, the model cannot invert a
// symbolic numerator).
func VerifC05XRatUnary(fn int, k int, d int, n int) {
	x, qx := zzC05XRatOperand("x", k, int64(n), zzC05XDen(d))
	vrt.Carve("C05-divide-alters-ratio-operand", fn == 9 && k == 4)
	vrt.Carve("C05-oneplus-alters-ratio-operand", (fn == 5 || fn == 6) && k == 2)
	vrt.Carve("C05-noncanonical-bignum-numerator", fn == 7 && k == 2 && zzC05Fits(qx.n))
	vrt.Carve("C05-ratio-result-integer-valued", fn == 9 && k == 3 && qx.n.Cmp(big.NewInt(-1)) == 0)
	if k == 1 {
		vrt.Assume(!zzC05Fits(qx.n)) // a bignum operand is a canonical one
	}
	if fn == 9 && qx.n.Sign() == 0 {
		out := zzC05Call("/", x)
		vrt.Assert(out.class == 1, "division by zero is not a Lisp condition")
		return
	}
	out := zzC05Call(zzC05XRatUn[fn], x)
	vrt.Reach("called")
	vrt.Assert(out.class == 0, "function of a rational signalled")
	if fn < 3 {
		s := qx.n.Sign()
		want := []bool{s == 0, s > 0, s < 0}[fn]
		vrt.Assert((out.one != nil) == want, "sign predicate disagrees with the value")
		vrt.Assert(zzC05XRatSame(x, qx), "the operand was altered")
		return
	}
	got, rep, ok := zzC05XRatValue(out.one)
	vrt.Assert(ok, "result is not a rational")
	var want zzC05Q
	switch fn {
	case 3:
		want = zzC05Q{new(big.Int).Abs(qx.n), qx.d}
	case 4:
		want = zzC05Q{new(big.Int).Neg(qx.n), qx.d}
	case 5:
		want = zzC05Q{new(big.Int).Add(qx.n, qx.d), qx.d}
	case 6:
		want = zzC05Q{new(big.Int).Sub(qx.n, qx.d), qx.d}
	case 7:
		want = zzC05QInt(qx.n) // operand is in lowest terms
	case 8:
		want = zzC05QInt(qx.d)
	case 9:
		want = zzC05QOp(3, zzC05QInt(big.NewInt(1)), qx)
	}
	vrt.Assert(got.d.Sign() > 0 && zzC05QCmp(got, want) == 0, "result is not the exact value")
	vrt.Assert(zzC05XRatSame(x, qx), "the operand was altered")
	_ = rep
	lowest, intIsInt, fixIffFits := zzC05XCanonical(out.one)
	vrt.Assert(lowest, "ratio result is not in lowest terms")
	vrt.Assert(intIsInt, "integer-valued result is a ratio")
	vrt.Assert(fixIffFits, "integer result is not in canonical form (fixnum iff it fits)")
}
