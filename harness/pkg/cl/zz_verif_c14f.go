package cl

// C14 (continued): set functions (union, intersection, set-difference,
// subsetp), every/some/notany/notevery, reduce, map/mapcar, concatenate.

import (
	"github.com/ohler55/slip"
	vrt "github.com/ohler55/slip/zzvrt"
)

// zzC14ListVals: obj is a list of fixnums; returns their values.
func zzC14ListVals(obj slip.Object) ([]int64, bool) {
	if obj == nil {
		return nil, true
	}
	list, ok := obj.(slip.List)
	if !ok {
		return nil, false
	}
	out := make([]int64, len(list))
	for i, e := range list {
		f, ok := e.(slip.Fixnum)
		if !ok {
			return nil, false
		}
		out[i] = int64(f)
	}
	return out, true
}

// VerifC14Set: union / intersection / set-difference / subsetp on two lists
// whose elements are pairwise distinct under the test within each list (the
// standard leaves duplicates inside one list open).  The test is an
// equivalence (absent = equal, or mode 5 "same value"), the order of the
// result is not specified, so the result is compared as a set:
// every result element is an element of the permitted source list(s), no two
// result elements match, and the keys present are exactly the expected ones.
func VerifC14Set(m, n, keyMode, tstMode, fn int) {
	a := make([]int64, m)
	b := make([]int64, n)
	for i := range a {
		a[i] = vrt.Int64("a" + string(rune('0'+i)))
	}
	for i := range b {
		b[i] = vrt.Int64("b" + string(rune('0'+i)))
	}
	same := func(x, y int64) bool {
		kx, _ := zzC14Key(zzC14List, keyMode, x)
		ky, _ := zzC14Key(zzC14List, keyMode, y)
		return zzC14Test2(tstMode, kx, false, ky, false)
	}
	for i := 0; i < m; i++ {
		for j := i + 1; j < m; j++ {
			vrt.Assume(!same(a[i], a[j]))
		}
	}
	for i := 0; i < n; i++ {
		for j := i + 1; j < n; j++ {
			vrt.Assume(!same(b[i], b[j]))
		}
	}
	name := [...]string{"union", "intersection", "set-difference", "subsetp"}[fn]
	vrt.Carve("C14-valid-args-rejected", fn == 3 && (m == 0 || n == 0))
	form := slip.List{slip.Symbol(name), zzC14Quote(zzC14Seq(zzC14List, a)), zzC14Quote(zzC14Seq(zzC14List, b))}
	form = append(form, zzC14KeyTestArgs(keyMode, tstMode)...)
	out := zzC14Eval(slip.NewScope(), form)
	vrt.Reach("compared")
	vrt.Assert(out.class == zzC14Value, name+": no value for a valid call")
	inB := make([]bool, m) // a[i] matches some element of b
	for i := 0; i < m; i++ {
		for j := 0; j < n; j++ {
			if same(a[i], b[j]) {
				inB[i] = true
			}
		}
	}
	if fn == 3 {
		all := true
		for i := 0; i < m; i++ {
			if !inB[i] {
				all = false
			}
		}
		if all {
			vrt.Assert(out.val == slip.True, "subsetp: should be true")
		} else {
			vrt.Assert(out.val == nil, "subsetp: should be false")
		}
		return
	}
	res, ok := zzC14ListVals(out.val)
	vrt.Assert(ok, name+": result is not a list of the elements")
	// expected number of classes
	want := 0
	for i := 0; i < m; i++ {
		switch fn {
		case 0:
			want++
		case 1:
			if inB[i] {
				want++
			}
		case 2:
			if !inB[i] {
				want++
			}
		}
	}
	if fn == 0 {
		for j := 0; j < n; j++ {
			hit := false
			for i := 0; i < m; i++ {
				if same(a[i], b[j]) {
					hit = true
				}
			}
			if !hit {
				want++
			}
		}
	}
	vrt.Assert(len(res) == want, name+": wrong number of elements")
	for x := 0; x < len(res); x++ {
		for y := x + 1; y < len(res); y++ {
			vrt.Assert(!same(res[x], res[y]), name+": duplicate in the result")
		}
		// the element must come from a permitted source and be in the right class
		okSrc := false
		for i := 0; i < m; i++ {
			if res[x] == a[i] && (fn == 0 || (fn == 1 && inB[i]) || (fn == 2 && !inB[i])) {
				okSrc = true
			}
		}
		if fn != 2 {
			for j := 0; j < n; j++ {
				if res[x] == b[j] {
					if fn == 0 {
						okSrc = true
					} else {
						for i := 0; i < m; i++ {
							if same(a[i], b[j]) {
								okSrc = true
							}
						}
					}
				}
			}
		}
		vrt.Assert(okSrc, name+": result element is not an element the standard allows")
	}
}

// VerifC14Every: every / some / notany / notevery over one sequence (pred
// mode 4) or two sequences of lengths m and n (pred mode 3, stops at the
// shorter); two = 0/1.
func VerifC14Every(kind, m, n, two, fn int) {
	c := zzC14NewTwo(kind, m, n, 0, 0, false)
	vrt.Assume(!c.hasS1 && c.e1Mode == 0 && !c.hasS2 && c.e2Mode == 0)
	name := [...]string{"every", "some", "notany", "notevery"}[fn]
	vrt.Carve("C14-valid-args-rejected", kind == zzC14List && (m == 0 || (two != 0 && n == 0)))
	form := slip.List{slip.Symbol(name)}
	if two != 0 {
		form = append(form, zzC14Quote(zzC14NewFn(3)), zzC14Quote(zzC14Seq(kind, c.a)), zzC14Quote(zzC14Seq(kind, c.b)))
	} else {
		form = append(form, zzC14Quote(zzC14NewFn(4)), zzC14Quote(zzC14Seq(kind, c.a)))
	}
	out := zzC14Eval(slip.NewScope(), form)
	vrt.Reach("compared")
	vrt.Assert(out.class == zzC14Value, name+": no value for a valid call")
	all, any := true, false
	for i := 0; i < m; i++ {
		var p bool
		if two != 0 {
			if n <= i {
				break
			}
			p = c.a[i] < c.b[i]
		} else {
			p = zzC14Pred1(c.a[i], kind == zzC14String)
		}
		if p {
			any = true
		} else {
			all = false
		}
	}
	want := [...]bool{all, any, !any, !all}[fn]
	if want {
		vrt.Assert(out.val == slip.True, name+": should be true")
	} else {
		vrt.Assert(out.val == nil, name+": should be false")
	}
}

// zzC14Sub is the reducing function: (lambda (&optional a b) ...): no
// arguments => 7, two arguments => a - b (neither commutative nor associative).
type zzC14Sub struct {
	slip.Function
}

// Call applies the function.
func (f *zzC14Sub) Call(s *slip.Scope, args slip.List, depth int) slip.Object {
	switch len(args) {
	case 0:
		return slip.Fixnum(7)
	case 2:
		a, _ := zzC14Val(args[0])
		b, _ := zzC14Val(args[1])
		return slip.Fixnum(a - b)
	}
	panic("zzC14Sub: wants 0 or 2 arguments")
}

func zzC14NewSub() slip.Object {
	f := &zzC14Sub{Function: slip.Function{Name: "zzc14sub"}}
	f.Self = f
	return f
}

// VerifC14Reduce: (reduce f seq :start :end :from-end :initial-value :key).
func VerifC14Reduce(kind, n, keyMode int) {
	c := zzC14NewCall(kind, n, keyMode, 0, false)
	s, e, cls := c.bounds()
	hasInit := vrt.Choice("hasInit", 2) == 1
	var init int64
	if hasInit {
		init = vrt.Int64("init")
	}
	empty := cls == zzC14BValid && s == e
	// known findings
	// nil as the sequence, and :start = end of the range, are rejected
	vrt.Carve("C14-valid-args-rejected", (kind == zzC14List && n == 0) || (c.hasS && empty))
	// (a) empty range without :initial-value: f is not called, nil returned;
	// (b) :key results are stored into the argument
	vrt.Carve("C14-reduce-empty-and-key", (empty && !hasInit) ||
		(cls == zzC14BValid && keyMode != 0 && kind != zzC14String && s < e))
	// what remains of C14-reduce-empty-and-key after the repair of (b): the
	// existing tests pin (reduce #'+ '()) => nil
	vrt.Carve("C14-reduce-empty-not-called", empty && !hasInit)
	orig := zzC14Seq(kind, c.vals)
	form := slip.List{slip.Symbol("reduce"), zzC14Quote(zzC14NewSub()), zzC14Quote(orig)}
	form = append(form, c.keywords()...)
	if hasInit {
		form = append(form, slip.Symbol(":initial-value"), slip.Fixnum(init))
	}
	out := zzC14Eval(slip.NewScope(), form)
	if !zzC14Check("reduce", out, cls) {
		return
	}
	// reference fold over the keys of [s,e)
	var acc int64
	have := hasInit
	acc = init
	for j := int64(0); j < e-s; j++ {
		i := s + j
		if c.fromEnd() {
			i = e - 1 - j
		}
		k, _ := zzC14Key(kind, keyMode, c.vals[i])
		switch {
		case !have:
			acc = k
			have = true
		case c.fromEnd():
			acc = k - acc
		default:
			acc = acc - k
		}
	}
	if !have {
		acc = 7 // (funcall f)
	}
	single := !hasInit && e-s == 1 && keyMode != 2 && keyMode != 6 && kind == zzC14String
	if single {
		// the only element is returned as it is: a character
		vrt.Assert(zzC14IsElem(kind, out.val, acc), "reduce: wrong value")
	} else {
		vrt.Assert(zzC14IsIndex(out.val, acc), "reduce: wrong value")
	}
	// the argument must not be modified
	if kind != zzC14String {
		vrt.Assert(zzC14IsSeq(kind, orig, c.vals), "reduce: the sequence argument was modified")
	}
}

// VerifC14Map: (map rt f seq) with f = 1+ (mode 2), (map rt f seq1 seq2) with
// f = a-b, and mapcar (lists only); fn: 0 map→list, 1 map→vector, 2 mapcar.
func VerifC14Map(kind, m, n, two, fn int) {
	c := zzC14NewTwo(kind, m, n, 0, 0, false)
	vrt.Assume(!c.hasS1 && c.e1Mode == 0 && !c.hasS2 && c.e2Mode == 0)
	var form slip.List
	name := "map"
	switch fn {
	case 0:
		form = slip.List{slip.Symbol("map"), zzC14Quote(slip.Symbol("list"))}
	case 1:
		form = slip.List{slip.Symbol("map"), zzC14Quote(slip.Symbol("vector"))}
	default:
		name = "mapcar"
		form = slip.List{slip.Symbol("mapcar")}
	}
	vrt.Carve("C14-valid-args-rejected", kind == zzC14List && (m == 0 || (two != 0 && n == 0)))
	if two != 0 {
		form = append(form, zzC14Quote(zzC14NewSub()), zzC14Quote(zzC14Seq(kind, c.a)), zzC14Quote(zzC14Seq(kind, c.b)))
	} else {
		form = append(form, zzC14Quote(zzC14NewFn(2)), zzC14Quote(zzC14Seq(kind, c.a)))
	}
	out := zzC14Eval(slip.NewScope(), form)
	vrt.Reach("compared")
	vrt.Assert(out.class == zzC14Value, name+": no value for a valid call")
	var want []int64
	for i := 0; i < m; i++ {
		if two != 0 {
			if n <= i {
				break
			}
			want = append(want, c.a[i]-c.b[i])
		} else {
			want = append(want, c.a[i]+1)
		}
	}
	rk := zzC14List
	if fn == 1 {
		rk = zzC14Vector
	}
	vrt.Assert(zzC14IsSeq(rk, out.val, want), name+": wrong result")
}

// VerifC14Concatenate: (concatenate rt seq1 seq2); rt 0 list, 1 vector, 2
// string (then both arguments are strings or lists/vectors of characters:
// kinds 2 only here).
func VerifC14Concatenate(rt, k1, k2, m, n int) {
	a := make([]int64, m)
	b := make([]int64, n)
	for i := range a {
		if k1 == zzC14String {
			x := vrt.Byte("ca" + string(rune('0'+i)))
			vrt.Assume(x < 128)
			a[i] = int64(x)
		} else {
			a[i] = vrt.Int64("a" + string(rune('0'+i)))
		}
	}
	for i := range b {
		if k2 == zzC14String {
			x := vrt.Byte("cb" + string(rune('0'+i)))
			vrt.Assume(x < 128)
			b[i] = int64(x)
		} else {
			b[i] = vrt.Int64("b" + string(rune('0'+i)))
		}
	}
	rts := [...]string{"list", "vector", "string"}[rt]
	form := slip.List{slip.Symbol("concatenate"), zzC14Quote(slip.Symbol(rts)),
		zzC14Quote(zzC14Seq(k1, a)), zzC14Quote(zzC14Seq(k2, b))}
	out := zzC14Eval(slip.NewScope(), form)
	vrt.Reach("compared")
	vrt.Assert(out.class == zzC14Value, "concatenate: no value for a valid call")
	if rt == zzC14String {
		vrt.Assert(zzC14IsSeq(zzC14String, out.val, append(append([]int64{}, a...), b...)), "concatenate: wrong string")
		return
	}
	var list slip.List
	if rt == zzC14List {
		if out.val != nil {
			l, ok := out.val.(slip.List)
			vrt.Assert(ok, "concatenate: result is not a list")
			list = l
		}
	} else {
		v, ok := out.val.(*slip.Vector)
		vrt.Assert(ok, "concatenate: result is not a vector")
		list = v.AsList()
	}
	vrt.Assert(len(list) == m+n, "concatenate: wrong length")
	for i := 0; i < m; i++ {
		vrt.Assert(zzC14IsElem(k1, list[i], a[i]), "concatenate: wrong element from the first sequence")
	}
	for i := 0; i < n; i++ {
		vrt.Assert(zzC14IsElem(k2, list[m+i], b[i]), "concatenate: wrong element from the second sequence")
	}
}
