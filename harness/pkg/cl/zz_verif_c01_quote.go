package cl

// C01, second obligation: quoting a datum of any kind yields exactly that datum.

import (
	"math/big"

	"github.com/ohler55/slip"
	vrt "github.com/ohler55/slip/zzvrt"
)

type zzQIn struct {
	a, b, c int64
	s      string
	r      rune
}

// zzQDatum builds the datum of the given kind; called twice so that the expected value shares
// no memory with the object handed to the interpreter.
func zzQDatum(kind int, in *zzQIn) slip.Object {
	S := zzSym
	switch kind {
	case 0:
		return slip.Fixnum(in.a)
	case 1:
		return slip.Symbol("abc")
	case 2:
		return slip.Symbol(":key")
	case 3:
		return slip.String(in.s)
	case 4:
		return slip.Character(in.r)
	case 5:
		return nil
	case 6:
		return slip.True
	case 7:
		return slip.List{slip.Fixnum(in.a), slip.Fixnum(in.b), slip.Fixnum(in.c)}
	case 8: // looks like code: must stay data
		return slip.List{S("+"), slip.Fixnum(in.a), slip.List{S("zzvtrace"), slip.Fixnum(9), S("unbound-zz")}}
	case 9: // dotted pair
		return slip.List{slip.Fixnum(in.a), slip.Tail{Value: slip.Fixnum(in.b)}}
	case 10:
		return slip.NewVector(2, slip.TrueSymbol, nil, slip.List{slip.Fixnum(in.a), S("v")}, false)
	case 11:
		return slip.DoubleFloat(2.5)
	case 12:
		return slip.NewRatio(3, 4)
	case 13:
		return (*slip.Bignum)(new(big.Int).Lsh(big.NewInt(1), 70))
	case 14:
		return slip.List{S("quote"), S("x")}
	case 15:
		return slip.List{S("lambda"), slip.List{S("x")}, slip.List{S("setq"), S("y"), S("x")}}
	case 16:
		return slip.List{nil, slip.True, slip.List{}, slip.List{slip.List{slip.Fixnum(in.c)}}}
	case 17:
		return slip.List{S("undefined-zz-function"), slip.List{S("let"), slip.List{slip.List{S("x"), slip.Fixnum(in.a)}}, S("x")}}
	case 18:
		return slip.Octet(7)
	}
	return nil
}

const zzQKinds = 19

// zzQSame: structural identity (type and content), no use of the interpreter's Equal methods
// except for the number types that have no accessible fields.
func zzQSame(a, b slip.Object) bool {
	if a == nil || b == nil {
		if l, ok := a.(slip.List); ok && len(l) == 0 {
			a = nil
		}
		if l, ok := b.(slip.List); ok && len(l) == 0 {
			b = nil
		}
		return a == nil && b == nil
	}
	if a == slip.True || b == slip.True {
		return a == b
	}
	switch ta := a.(type) {
	case slip.Fixnum:
		tb, ok := b.(slip.Fixnum)
		return ok && ta == tb
	case slip.Symbol:
		tb, ok := b.(slip.Symbol)
		return ok && string(ta) == string(tb)
	case slip.String:
		tb, ok := b.(slip.String)
		return ok && string(ta) == string(tb)
	case slip.Character:
		tb, ok := b.(slip.Character)
		return ok && ta == tb
	case slip.Octet:
		tb, ok := b.(slip.Octet)
		return ok && ta == tb
	case slip.DoubleFloat:
		tb, ok := b.(slip.DoubleFloat)
		return ok && ta == tb
	case slip.Tail:
		tb, ok := b.(slip.Tail)
		return ok && zzQSame(ta.Value, tb.Value)
	case slip.List:
		tb, ok := b.(slip.List)
		if !ok || len(ta) != len(tb) {
			return false
		}
		for i := range ta {
			if !zzQSame(ta[i], tb[i]) {
				return false
			}
		}
		return true
	case *slip.Vector:
		tb, ok := b.(*slip.Vector)
		return ok && zzQSame(ta.AsList(), tb.AsList())
	case *slip.Ratio:
		tb, ok := b.(*slip.Ratio)
		return ok && (*big.Rat)(ta).Cmp((*big.Rat)(tb)) == 0
	case *slip.Bignum:
		tb, ok := b.(*slip.Bignum)
		return ok && (*big.Int)(ta).Cmp((*big.Int)(tb)) == 0
	}
	return false
}

// VerifC01Quote: kind = datum kind, mode = the context the quote form is evaluated in.
func VerifC01Quote(kind, mode int) {
	in := &zzQIn{a: vrt.Int64("a"), b: vrt.Int64("b"), c: vrt.Int64("c"), s: vrt.String("s", 3), r: vrt.Rune("r")}
	vrt.Assume(0 <= in.r && in.r < 0x110000)
	d := zzQDatum(kind, in)
	want := zzQDatum(kind, in)
	S := zzSym
	q := slip.List{S("quote"), d}
	var form slip.Object
	switch mode {
	case 0, 4:
		form = q
	case 1:
		form = zzL(S("car"), zzL(S("list"), q))
	case 2:
		form = zzL(S("let"), zzL(zzL(S("v"), q)), S("v"))
	case 3:
		form = zzL(S("funcall"), zzL(S("lambda"), zzL(S("a")), S("a")), q)
	case 5:
		form = zzL(S("if"), slip.True, q, slip.Fixnum(0))
	case 6:
		form = zzL(S("dotimes"), zzL(S("i"), slip.Fixnum(2), zzL(S("car"), zzL(S("list"), q))))
	}
	zzDefineTrace()
	scope := slip.NewScope()
	run := &zzRun{sink: &zzSink{}}
	zzSinkCur = run.sink
	zzEvalGuard(run, func() slip.Object { return scope.Eval(form, 0) })
	vrt.Reach("compared")
	vrt.Assert(run.class == zzCNone, "quote signalled "+run.cls+run.msg)
	vrt.Assert(zzQSame(run.res, want), "quote did not return its datum")
	if mode == 4 || mode == 6 {
		// the form object has been evaluated before: any in-place rewriting must not show
		zzEvalGuard(run, func() slip.Object { return scope.Eval(form, 0) })
		vrt.Assert(run.class == zzCNone, "second evaluation signalled "+run.cls)
		vrt.Assert(zzQSame(run.res, want), "second evaluation of quote did not return its datum")
	}
	zzSinkCur = nil
	vrt.Assert(len(run.sink.ks) == 0, "quoted data was evaluated")
	vrt.Assert(zzQSame(d, want), "the quoted datum was modified in place")
}
