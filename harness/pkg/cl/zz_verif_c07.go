package cl

// C07 — non-local exits reach their target and run every cleanup exactly once.
//
// Program = (block b0 pre CARRIER0[ CARRIER1[ CARRIER2[ EXIT ] ] ] post): up to three nested
// carrier forms (a form kind plus the position of the hole in it) around one exit point; trace
// markers before and after the hole in every carrier and in every cleanup.  The reference
// evaluator zzRef (zz_verif_c01.go) gives the expected value, ordered trace and condition class.

import (
	"os"
	"strconv"

	"github.com/ohler55/slip"
	vrt "github.com/ohler55/slip/zzvrt"
)

// carrier kinds: form and position of the hole
var zzC07Carriers = []string{
	"progn-mid",       // 0  (progn m HOLE m)
	"progn-last",      // 1  (progn m HOLE)
	"prog1-first",     // 2  (prog1 HOLE m)
	"arg",             // 3  (list m HOLE m)
	"let-body",        // 4  (let ((v m)) m HOLE m)
	"let-init",        // 5  (let ((v HOLE) (w m)) m)
	"letx-body",       // 6  (let* ((v m)) m HOLE m)
	"letx-init",       // 7  (let* ((v HOLE) (w m)) m)
	"setq-value",      // 8  (setq x HOLE)
	"if-test",         // 9  (if HOLE m m)
	"if-then",         // 10 (if c HOLE m)
	"if-else",         // 11 (if c m HOLE)
	"when-test",       // 12 (when HOLE m)
	"when-body",       // 13 (when c m HOLE m)
	"when-last",       // 14 (when c m HOLE)
	"unless-body",     // 15 (unless c m HOLE m)
	"cond-test",       // 16 (cond (HOLE m) (t m))
	"cond-body",       // 17 (cond (c m HOLE m) (t m))
	"cond-last",       // 18 (cond (c m HOLE) (t m))
	"case-key",        // 19 (case HOLE (1 m) (t m))
	"case-body",       // 20 (case k (1 m HOLE m) (t m HOLE' m))   the hole is in the clause for key 1
	"and-mid",         // 21 (and c HOLE m)
	"or-mid",          // 22 (or c HOLE m)
	"and-last",        // 23 (and c HOLE)
	"dolist-body",     // 24 (dolist (el (list m m)) m tbN (setq n (1+ n)) HOLE m tfN m)
	"dolist-list",     // 25 (dolist (el HOLE) m)
	"dolist-result",   // 26 (dolist (el (list m) HOLE) m)
	"dotimes-body",    // 27 (dotimes (i cnt) m tbN (setq n (1+ n)) HOLE m tfN m)
	"dotimes-count",   // 28 (dotimes (i HOLE) m)
	"dotimes-result",  // 29 (dotimes (i cnt HOLE) m)
	"do-body",         // 30 (do ((i 0 (1+ i))) ((= i cnt) m) m tbN (setq n (1+ n)) HOLE m tfN m)
	"do-test",         // 31 (do ((i 0 (1+ i))) (HOLE m) m)
	"do-result",       // 32 (do ((i 0 (1+ i))) ((= i cnt) m HOLE) m)
	"do-init",         // 33 (do ((i HOLE)) (t m) m)
	"dox-body",        // 34 (do* ((i 0 (1+ i))) ((= i cnt) m) m HOLE m)
	"funcall-body",    // 35 (funcall (lambda (a) m HOLE m) m)
	"funcall-arg",     // 36 (funcall (lambda (a) m) HOLE)
	"lamcall-body",    // 37 ((lambda (a) m HOLE m) m)
	"mapcar-body",     // 38 (mapcar (lambda (a) m HOLE) (list m m))
	"defun-body",      // 39 (progn (defun zzhN (a) m HOLE m) (zzhN m))
	"mvb-body",        // 40 (multiple-value-bind (p q) (values m m) m HOLE m)
	"mvb-values",      // 41 (multiple-value-bind (p q) HOLE m)
	"block",           // 42 (block bN m HOLE m)
	"block-last",      // 43 (block bN m HOLE)
	"tagbody",         // 44 (tagbody m tbN (setq n (1+ n)) m HOLE m tfN m)
	"tagbody-int",     // 45 (tagbody m 1N (setq n (1+ n)) m HOLE m 2N m)     integer tags
	"uwp-protected",   // 46 (unwind-protect HOLE c c)
	"uwp-cleanup",     // 47 (unwind-protect m c HOLE c)
	"ignore-errors",   // 48 (ignore-errors m HOLE m)
	"ignore-errors-1", // 49 (ignore-errors HOLE)
	"recover",         // 50 (recover err m m HOLE m)
	"with-mutex-lock", // 51 (with-mutex-lock mu m HOLE m)
	"values-arg",      // 52 (values m HOLE)
	"return-value",    // 53 (return-from b0 HOLE)
	"with-open-file",  // 54 (with-open-file (fs "/dev/null") (setq zzstream fs) m HOLE m)
	"dolist-body-t1",  // 55 (dolist (el (list m m)) tbN (setq n (1+ n)) HOLE m tfN)          the backward tag is the FIRST body element, the forward tag the last
	"dotimes-body-t1", // 56 (dotimes (i cnt) tbN (setq n (1+ n)) HOLE m tfN)
	"do-body-t1",      // 57 (do ((i 0 (1+ i))) ((= i cnt) m) tbN (setq n (1+ n)) HOLE m tfN)
	"dox-body-t1",     // 58 (do* ((i 0 (1+ i))) ((= i cnt) m) tbN (setq n (1+ n)) HOLE m tfN)
	"tagbody-t1",      // 59 (tagbody tbN (setq n (1+ n)) HOLE m tfN)
}

const (
	zzC07XNormal   = 0  // m
	zzC07XRetTop   = 1  // (return-from b0 m)
	zzC07XRetNear  = 2  // (return-from <nearest named block> m)
	zzC07XReturn   = 3  // (return m)
	zzC07XGoFwd    = 4  // (go <forward tag of the nearest tagbody>)
	zzC07XGoBack   = 5  // (if (< n 2) (go <backward tag of the nearest tagbody>) m)
	zzC07XGoFar    = 6  // (go <forward tag of the outermost tagbody>)
	zzC07XError    = 7  // (error "boom")
	zzC07XDiv0     = 8  // (/ 1 0)
	zzC07XUnbound  = 9  // zzunboundvar
	zzC07XType     = 10 // (car 5)
	zzC07XUndef    = 11 // (zzundefinedfn 1)
	zzC07XRetFn    = 12 // (return-from <nearest defun name> m)
	zzC07XRetMV    = 13 // (return-from b0 (values m m))
	zzC07XCondRet  = 14 // (if c (return-from b0 m) m)
	zzC07XCondErr  = 15 // (when c (error "boom"))
	zzC07XGoBackFar = 16 // (if (< n 2) (go <backward tag of the outermost tagbody>) m)
	zzC07NExits    = 17
)

type zzC07Ctx struct {
	blocks []string     // named blocks, innermost last
	tags   []slip.Object // forward tags of enclosing tagbodies, innermost last
	btags  []slip.Object // backward tags
	fns    []string
}

// zzBlockName: the block named nil is written with the object nil, as the reader delivers it.
func zzBlockName(b string) slip.Object {
	if b == "nil" {
		return nil
	}
	return slip.Symbol(b)
}

func (cx zzC07Ctx) withBlock(b string) zzC07Ctx {
	n := cx
	n.blocks = append(append([]string(nil), cx.blocks...), b)
	return n
}

func (cx zzC07Ctx) withTags(back, fwd slip.Object) zzC07Ctx {
	n := cx
	n.tags = append(append([]slip.Object(nil), cx.tags...), fwd)
	n.btags = append(append([]slip.Object(nil), cx.btags...), back)
	return n
}

func (cx zzC07Ctx) withFn(f string) zzC07Ctx {
	n := cx
	n.fns = append(append([]string(nil), cx.fns...), f)
	return n
}

type zzC07Gen struct {
	zzGen
}

// m is a trace marker with a symbolic value.
func (g *zzC07Gen) m() slip.Object {
	return g.tr(g.lit())
}

// c is a traced test on symbolic integers.
func (g *zzC07Gen) c() slip.Object {
	return g.tr(zzL(zzSym("<"), g.lit(), g.lit()))
}

func (g *zzC07Gen) exit(ex int, cx zzC07Ctx) slip.Object {
	S := zzSym
	switch ex {
	case zzC07XNormal:
		return g.m()
	case zzC07XRetTop:
		return zzL(S("return-from"), S("b0"), g.m())
	case zzC07XRetNear:
		return zzL(S("return-from"), zzBlockName(cx.blocks[len(cx.blocks)-1]), g.m())
	case zzC07XReturn:
		return zzL(S("return"), g.m())
	case zzC07XGoFwd:
		if len(cx.tags) == 0 {
			return zzL(S("go"), S("tfnone"))
		}
		return zzL(S("go"), cx.tags[len(cx.tags)-1])
	case zzC07XGoBack:
		if len(cx.btags) == 0 {
			return zzL(S("go"), S("tbnone"))
		}
		return zzL(S("if"), zzL(S("<"), S("n"), slip.Fixnum(2)), zzL(S("go"), cx.btags[len(cx.btags)-1]), g.m())
	case zzC07XGoFar:
		if len(cx.tags) == 0 {
			return zzL(S("go"), S("tfnone"))
		}
		return zzL(S("go"), cx.tags[0])
	case zzC07XGoBackFar:
		if len(cx.btags) == 0 {
			return zzL(S("go"), S("tbnone"))
		}
		return zzL(S("if"), zzL(S("<"), S("n"), slip.Fixnum(2)), zzL(S("go"), cx.btags[0]), g.m())
	case zzC07XError:
		return zzL(S("error"), slip.String("boom"))
	case zzC07XDiv0:
		return zzL(S("/"), slip.Fixnum(1), slip.Fixnum(0))
	case zzC07XUnbound:
		return S("zzunboundvar")
	case zzC07XType:
		return zzL(S("car"), slip.Fixnum(5))
	case zzC07XUndef:
		return zzL(S("zzundefinedfn"), slip.Fixnum(1))
	case zzC07XRetFn:
		if len(cx.fns) == 0 {
			return zzL(S("return-from"), S("b0"), g.m())
		}
		return zzL(S("return-from"), S(cx.fns[len(cx.fns)-1]), g.m())
	case zzC07XRetMV:
		return zzL(S("return-from"), S("b0"), zzL(S("values"), g.m(), g.m()))
	case zzC07XCondRet:
		return zzL(S("if"), g.c(), zzL(S("return-from"), S("b0"), g.m()), g.m())
	case zzC07XCondErr:
		return zzL(S("when"), g.c(), zzL(S("error"), slip.String("boom")))
	}
	g.invalid = true
	return nil
}

func (g *zzC07Gen) build(cs []int, ex int, cx zzC07Ctx, level int) slip.Object {
	if len(cs) == 0 || cs[0] < 0 {
		return g.exit(ex, cx)
	}
	if len(zzC07Carriers) <= cs[0] {
		g.invalid = true
		return nil
	}
	S := zzSym
	lv := strconv.Itoa(level + 1)
	hole := func(c2 zzC07Ctx) slip.Object { return g.build(cs[1:], ex, c2, level+1) }
	inc := zzL(S("setq"), S("n"), zzL(S("1+"), S("n")))
	switch zzC07Carriers[cs[0]] {
	case "progn-mid":
		return zzL(S("progn"), g.m(), hole(cx), g.m())
	case "progn-last":
		return zzL(S("progn"), g.m(), hole(cx))
	case "prog1-first":
		return zzL(S("prog1"), hole(cx), g.m())
	case "arg":
		return zzL(S("list"), g.m(), hole(cx), g.m())
	case "let-body":
		return zzL(S("let"), zzL(zzL(S("v"), g.m())), g.m(), hole(cx), g.m())
	case "let-init":
		return zzL(S("let"), zzL(zzL(S("v"), hole(cx)), zzL(S("w"), g.m())), g.m())
	case "letx-body":
		return zzL(S("let*"), zzL(zzL(S("v"), g.m())), g.m(), hole(cx), g.m())
	case "letx-init":
		return zzL(S("let*"), zzL(zzL(S("v"), hole(cx)), zzL(S("w"), g.m())), g.m())
	case "setq-value":
		return zzL(S("setq"), S("x"), hole(cx))
	case "if-test":
		return zzL(S("if"), hole(cx), g.m(), g.m())
	case "if-then":
		return zzL(S("if"), g.c(), hole(cx), g.m())
	case "if-else":
		return zzL(S("if"), g.c(), g.m(), hole(cx))
	case "when-test":
		return zzL(S("when"), hole(cx), g.m())
	case "when-body":
		return zzL(S("when"), g.c(), g.m(), hole(cx), g.m())
	case "when-last":
		return zzL(S("when"), g.c(), g.m(), hole(cx))
	case "unless-body":
		return zzL(S("unless"), g.c(), g.m(), hole(cx), g.m())
	case "cond-test":
		return zzL(S("cond"), zzL(hole(cx), g.m()), zzL(slip.True, g.m()))
	case "cond-body":
		return zzL(S("cond"), zzL(g.c(), g.m(), hole(cx), g.m()), zzL(slip.True, g.m()))
	case "cond-last":
		return zzL(S("cond"), zzL(g.c(), g.m(), hole(cx)), zzL(slip.True, g.m()))
	case "case-key":
		return zzL(S("case"), hole(cx), zzL(slip.Fixnum(1), g.m()), zzL(slip.True, g.m()))
	case "case-body":
		return zzL(S("case"), g.m(), zzL(slip.Fixnum(1), g.m(), hole(cx), g.m()), zzL(slip.True, g.m()))
	case "and-mid":
		return zzL(S("and"), g.c(), hole(cx), g.m())
	case "or-mid":
		return zzL(S("or"), g.c(), hole(cx), g.m())
	case "and-last":
		return zzL(S("and"), g.c(), hole(cx))
	case "dolist-body":
		c2 := cx.withBlock("nil").withTags(S("tb"+lv), S("tf"+lv))
		return zzL(S("dolist"), zzL(S("el"), zzL(S("list"), g.m(), g.m())), g.m(), S("tb"+lv), inc, hole(c2), g.m(), S("tf"+lv), g.m())
	case "dolist-body-t1":
		c2 := cx.withBlock("nil").withTags(S("tb"+lv), S("tf"+lv))
		return zzL(S("dolist"), zzL(S("el"), zzL(S("list"), g.m(), g.m())), S("tb"+lv), inc, hole(c2), g.m(), S("tf"+lv))
	case "dotimes-body-t1":
		c2 := cx.withBlock("nil").withTags(S("tb"+lv), S("tf"+lv))
		return zzL(S("dotimes"), zzL(S("i"), g.m()), S("tb"+lv), inc, hole(c2), g.m(), S("tf"+lv))
	case "do-body-t1", "dox-body-t1":
		op := "do"
		if zzC07Carriers[cs[0]] == "dox-body-t1" {
			op = "do*"
		}
		c2 := cx.withBlock("nil").withTags(S("tb"+lv), S("tf"+lv))
		cnt := g.m()
		res := g.m()
		return zzL(S(op), zzL(zzL(S("i"), slip.Fixnum(0), zzL(S("1+"), S("i")))), zzL(zzL(S("="), S("i"), cnt), res),
			S("tb"+lv), inc, hole(c2), g.m(), S("tf"+lv))
	case "tagbody-t1":
		c2 := cx.withTags(S("tb"+lv), S("tf"+lv))
		return zzL(S("tagbody"), S("tb"+lv), inc, hole(c2), g.m(), S("tf"+lv))
	case "dolist-list":
		return zzL(S("dolist"), zzL(S("el"), hole(cx)), g.m())
	case "dolist-result":
		return zzL(S("dolist"), zzL(S("el"), zzL(S("list"), g.m()), hole(cx.withBlock("nil"))), g.m())
	case "dotimes-body":
		c2 := cx.withBlock("nil").withTags(S("tb"+lv), S("tf"+lv))
		return zzL(S("dotimes"), zzL(S("i"), g.m()), g.m(), S("tb"+lv), inc, hole(c2), g.m(), S("tf"+lv), g.m())
	case "dotimes-count":
		return zzL(S("dotimes"), zzL(S("i"), hole(cx)), g.m())
	case "dotimes-result":
		return zzL(S("dotimes"), zzL(S("i"), g.m(), hole(cx.withBlock("nil"))), g.m())
	case "do-body", "dox-body":
		op := "do"
		if zzC07Carriers[cs[0]] == "dox-body" {
			op = "do*"
		}
		c2 := cx.withBlock("nil").withTags(S("tb"+lv), S("tf"+lv))
		cnt := g.m()
		res := g.m()
		return zzL(S(op), zzL(zzL(S("i"), slip.Fixnum(0), zzL(S("1+"), S("i")))), zzL(zzL(S("="), S("i"), cnt), res),
			g.m(), S("tb"+lv), inc, hole(c2), g.m(), S("tf"+lv), g.m())
	case "do-test":
		return zzL(S("do"), zzL(zzL(S("i"), slip.Fixnum(0), zzL(S("1+"), S("i")))), zzL(hole(cx.withBlock("nil")), g.m()), g.m())
	case "do-result":
		return zzL(S("do"), zzL(zzL(S("i"), slip.Fixnum(0), zzL(S("1+"), S("i")))),
			zzL(zzL(S("="), S("i"), g.m()), g.m(), hole(cx.withBlock("nil"))), g.m())
	case "do-init":
		return zzL(S("do"), zzL(zzL(S("i"), hole(cx))), zzL(zzL(S("="), slip.Fixnum(1), slip.Fixnum(1)), g.m()), g.m())
	case "funcall-body":
		return zzL(S("funcall"), zzL(S("lambda"), zzL(S("a")), g.m(), hole(cx), g.m()), g.m())
	case "funcall-arg":
		return zzL(S("funcall"), zzL(S("lambda"), zzL(S("a")), g.m()), hole(cx))
	case "lamcall-body":
		return zzL(zzL(S("lambda"), zzL(S("a")), g.m(), hole(cx), g.m()), g.m())
	case "mapcar-body":
		return zzL(S("mapcar"), zzL(S("lambda"), zzL(S("a")), g.m(), hole(cx)), zzL(S("list"), g.m(), g.m()))
	case "defun-body":
		fn := "zzh" + lv
		return zzL(S("progn"), zzL(S("defun"), S(fn), zzL(S("a")), g.m(), hole(cx.withFn(fn)), g.m()), zzL(S(fn), g.m()))
	case "mvb-body":
		return zzL(S("multiple-value-bind"), zzL(S("p"), S("q")), zzL(S("values"), g.m(), g.m()), g.m(), hole(cx), g.m())
	case "mvb-values":
		return zzL(S("multiple-value-bind"), zzL(S("p"), S("q")), hole(cx), g.m())
	case "block":
		return zzL(S("block"), S("b"+lv), g.m(), hole(cx.withBlock("b"+lv)), g.m())
	case "block-last":
		return zzL(S("block"), S("b"+lv), g.m(), hole(cx.withBlock("b"+lv)))
	case "tagbody":
		c2 := cx.withTags(S("tb"+lv), S("tf"+lv))
		return zzL(S("tagbody"), g.m(), S("tb"+lv), inc, g.m(), hole(c2), g.m(), S("tf"+lv), g.m())
	case "tagbody-int":
		tb := slip.Fixnum(int64(10*(level+1) + 1))
		tf := slip.Fixnum(int64(10*(level+1) + 2))
		c2 := cx.withTags(tb, tf)
		return zzL(S("tagbody"), g.m(), tb, inc, g.m(), hole(c2), g.m(), tf, g.m())
	case "uwp-protected":
		return zzL(S("unwind-protect"), hole(cx), g.m(), g.m())
	case "uwp-cleanup":
		return zzL(S("unwind-protect"), g.m(), g.m(), hole(cx), g.m())
	case "ignore-errors":
		return zzL(S("ignore-errors"), g.m(), hole(cx), g.m())
	case "ignore-errors-1":
		return zzL(S("ignore-errors"), hole(cx))
	case "recover":
		return zzL(S("recover"), S("err"), g.m(), g.m(), hole(cx), g.m())
	case "with-mutex-lock":
		return zzL(S("with-mutex-lock"), S("mu"), g.m(), hole(cx), g.m())
	case "values-arg":
		return zzL(S("values"), g.m(), hole(cx))
	case "return-value":
		return zzL(S("return-from"), S("b0"), hole(cx))
	case "with-open-file":
		return zzL(S("with-open-file"), zzL(S("fs"), slip.String("/dev/null")), zzL(S("setq"), S("zzstream"), S("fs")), g.m(), hole(cx), g.m())
	}
	g.invalid = true
	return nil
}

// zzC07Has reports whether an exit left a sub-form at one of the listed "form/role/kind" places.
func zzC07Has(r *zzRef, keys ...string) bool {
	for _, t := range r.transits {
		for _, k := range keys {
			if t == k {
				return true
			}
		}
	}
	return false
}

func zzC07Keys(forms []string, roles []string, kinds []string) []string {
	var out []string
	for _, f := range forms {
		for _, r := range roles {
			for _, k := range kinds {
				out = append(out, f+"/"+r+"/"+k)
			}
		}
	}
	return out
}

type zzC07Finding struct {
	id   string
	keys []string
}

var zzRG = []string{"ret", "go"}

var zzTagForms = []string{"tagbody", "dolist", "dotimes", "do"}

var zzC07Findings = []zzC07Finding{
	// ordinary function calls (progn, prog1, list, values, funcall ..., the key of case, the value
	// of return-from) evaluate all their arguments and receive the exit marker as an argument value
	{"C07-exit-in-argument-position", append(append(zzC07Keys([]string{"call"}, []string{"arg", "lastarg"}, zzRG),
		zzC07Keys([]string{"progn"}, []string{"mid"}, zzRG)...),
		append(zzC07Keys([]string{"prog1"}, []string{"first", "mid", "last"}, zzRG),
			append(zzC07Keys([]string{"case"}, []string{"key"}, zzRG), zzC07Keys([]string{"return"}, []string{"value"}, zzRG)...)...)...)},
	// tests treat the exit marker as true; bodies of when/unless/cond/case continue after it
	{"C07-conditional-ignores-exit", append(zzC07Keys([]string{"if", "when", "unless", "cond"}, []string{"test"}, zzRG),
		append(zzC07Keys([]string{"when", "unless", "cond", "case"}, []string{"mid"}, zzRG),
			zzC07Keys([]string{"and"}, []string{"mid"}, zzRG)...)...)},
	// init/value/count/list/test/step forms store or use the exit marker as a value
	{"C07-binding-form-takes-exit-as-value", append(zzC07Keys([]string{"let"}, []string{"init"}, zzRG),
		append(zzC07Keys([]string{"setq"}, []string{"value"}, zzRG),
			append(zzC07Keys([]string{"mvb"}, []string{"values"}, zzRG),
				append(zzC07Keys([]string{"do"}, []string{"init", "step", "test"}, zzRG),
					append(zzC07Keys([]string{"dolist", "dotimes"}, []string{"count"}, zzRG),
						[]string{"dolist/header/ownret", "dotimes/header/ownret", "do/header/ownret"}...)...)...)...)...)},
	{"C07-mapcar-continues-after-exit", zzC07Keys([]string{"mapcar"}, []string{"fn"}, zzRG)},
	{"C07-tagbody-drops-return", []string{"tagbody/stmt/ret"}},
	{"C07-tagbody-evaluates-symbol-tags", []string{"tagbody/symtag"}},
	{"C07-go-backward-lost", zzC07Keys(zzTagForms, []string{"stmt"}, []string{"goback"})},
	// a go whose tag belongs to an outer tagbody is dropped by block, by a function body and by every inner tagbody/loop body
	{"C07-go-outward-lost", append(zzC07Keys(zzTagForms, []string{"stmt"}, []string{"go"}),
		zzC07Keys([]string{"block"}, []string{"mid"}, []string{"go"})...)},
	// what is left of it after 4ea27c0: a function body ignores a go marker
	{"C07-go-out-of-function-lost", zzC07Keys([]string{"lambda"}, []string{"mid"}, []string{"go"})},
	{"C07-do-drops-named-return", []string{"do/stmt/ret-named-nonblock"}},
	// ignore-errors, with-mutex-lock, recover and the cleanup forms of unwind-protect continue after an exit
	{"C07-body-continues-after-exit", append(zzC07Keys([]string{"ignore-errors", "with-mutex-lock", "recover", "with-open-file"}, []string{"mid"}, zzRG),
		zzC07Keys([]string{"uwpcleanup"}, []string{"mid", "last"}, zzRG)...)},
}

type zzC07Flag struct {
	id   string
	flag int
}

var zzC07Flags = []zzC07Flag{
	{"C07-go-to-missing-tag-not-detected", zzHGoNoTag},
	{"C07-do-atom-end-test-never-true", zzHDoAtomTest},
	{"C07-lambda-body-symbol-never-unbound", zzHLambdaSym},
	{"C07-ignore-errors-misses-raw-condition", zzHIgnoreRaw},
	{"C08-forward-call-drops-arguments", zzHFwdCall},
}

// zzFakeStream is what the stub of (*Open).openFile returns in the engine (which has no file
// system): an object that counts how often it is closed.
type zzFakeStream struct {
	closed int
}

func (fs *zzFakeStream) String() string                          { return "#<zz-stream>" }
func (fs *zzFakeStream) Append(b []byte) []byte                  { return append(b, "#<zz-stream>"...) }
func (fs *zzFakeStream) Simplify() any                           { return "#<zz-stream>" }
func (fs *zzFakeStream) Equal(other slip.Object) bool            { return fs == other }
func (fs *zzFakeStream) Hierarchy() []slip.Symbol                { return []slip.Symbol{slip.Symbol("stream"), slip.TrueSymbol} }
func (fs *zzFakeStream) Eval(s *slip.Scope, depth int) slip.Object { return fs }
func (fs *zzFakeStream) Close() error {
	fs.closed++
	return nil
}

// zzStubOpenFile replaces (*Open).openFile in the engine: with-open-file then binds and must
// close this object; everything with-open-file itself does (binding, body, deferred close) is the
// real code.
func zzStubOpenFile(f *Open, s *slip.Scope, args slip.List, depth int) slip.Object {
	return &zzFakeStream{}
}

// zzAssertStreamClosed: the stream a with-open-file bound (saved in the global zzstream by the
// program) has been closed exactly once: counted in the engine, natively a second close of the
// real file must fail.
func zzAssertStreamClosed(scope *slip.Scope) {
	if !scope.Bound(slip.Symbol("zzstream")) {
		return
	}
	switch ts := scope.Get(slip.Symbol("zzstream")).(type) {
	case *zzFakeStream:
		vrt.Assert(ts.closed == 1, "the stream opened by with-open-file was closed "+strconv.Itoa(ts.closed)+" times")
	case *slip.FileStream:
		vrt.Assert((*os.File)(ts).Close() != nil, "the file opened by with-open-file is still open after the program ended")
	}
}

func zzHierarchyHas(h []slip.Symbol, class string) bool {
	for _, s := range h {
		if zzLower(string(s)) == class {
			return true
		}
	}
	return false
}

// zzC07Run builds, runs and compares one program.
func zzC07Run(tmpl slip.Object, nlit int, maxIt int) {
	lits := zzLits(nlit)
	vrt.Note("program", string(zzShow(nil, tmpl)))

	ref := zzNewRef()
	ref.maxIt = maxIt
	top := &zzFrame{up: nil, names: []string{"x", "n", "mu"},
		cells: []*zzCell{{v: zzInt(0)}, {v: zzInt(0)}, {v: zzVal{k: zzKSym, s: "#mutex"}}}}
	want := ref.eval(zzInstantiate(tmpl, lits), top)

	for _, f := range zzC07Findings {
		vrt.Carve(f.id, zzC07Has(ref, f.keys...))
	}
	for _, f := range zzC07Flags {
		vrt.Carve(f.id, ref.hit[f.flag])
	}
	for _, cv := range zzC01Carves {
		vrt.Carve(cv.id, ref.hit[cv.flag])
	}

	zzDefineTrace()
	scope := slip.NewScope()
	scope.Let(slip.Symbol("x"), slip.Fixnum(0))
	scope.Let(slip.Symbol("n"), slip.Fixnum(0))
	zzBudget(scope, 400)
	run := &zzRun{sink: &zzSink{}}
	zzEvalGuard(run, func() slip.Object {
		scope.Let(slip.Symbol("mu"), scope.Eval(slip.List{slip.Symbol("make-mutex")}, 0))
		return nil
	})
	vrt.Assert(run.class == zzCNone, "setup: make-mutex failed "+run.cls+" "+run.msg)
	zzSinkCur = run.sink
	form := zzInstantiate(tmpl, lits)
	zzEvalGuard(run, func() slip.Object { return scope.Eval(form, 0) })
	zzSinkCur = nil

	vrt.Reach("compared")
	vrt.Assert(run.class != zzCGoFault, "Go run-time fault in the interpreter: "+run.msg)
	if h := vrt.HeldLocks(); 0 <= h {
		vrt.Assert(h == 0, "a mutex is still held after the program ended")
	}
	zzAssertStreamClosed(scope)
	if want.ex != nil {
		vrt.Assert(want.ex.kind == zzXError, "reference: exit escaped the program")
		zzAssertTrace(run.sink, ref)
		vrt.Assert(run.class == zzCCond, "expected an error of class "+want.ex.class+", the program returned normally")
		vrt.Assert(zzHierarchyHas(run.hier, want.ex.class), "expected an error of class "+want.ex.class+", got "+run.cls)
		vrt.Reach("agreed-error")
		return
	}
	zzAssertTrace(run.sink, ref)
	vrt.Assert(run.class == zzCNone, "unexpected condition "+run.cls)
	if _, isExit := run.res.(*slip.ReturnResult); isExit {
		vrt.Assert(false, "an exit marker (return-from) escaped as the value of the program")
	}
	if _, isExit := run.res.(*GoTo); isExit {
		vrt.Assert(false, "an exit marker (go) escaped as the value of the program")
	}
	zzAssertResult(run.res, want, "result")
	zzAssertSame(scope.Get(slip.Symbol("x")), top.cells[0].v, "final value of x")
	zzAssertSame(scope.Get(slip.Symbol("n")), top.cells[1].v, "final value of n")
	vrt.Reach("agreed")
}

// VerifC07Exit: c0,c1,c2 = carrier kinds from the outside in (-1: none), ex = exit kind.
func VerifC07Exit(c0, c1, c2, ex int) {
	g := &zzC07Gen{}
	S := zzSym
	pre := g.m()
	body := g.build([]int{c0, c1, c2}, ex, zzC07Ctx{blocks: []string{"b0"}}, 0)
	tmpl := g.tr(zzL(S("block"), S("b0"), pre, g.tr(body), g.m()))
	vrt.Assert(!g.invalid, "case list names an unknown carrier or exit")
	zzC07Run(tmpl, g.nlit, 2)
}
