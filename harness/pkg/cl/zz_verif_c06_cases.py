#!/usr/bin/env python3
"""Generates /verif/harness/obligations.d/C06.json (the case lists of the C06 driver).

Shapes are enumerated exhaustively within the stated bounds; the operation codes mirror the
constants in zz_verif_c06.go.  usage: python3 zz_verif_c06_cases.py [--sample]
"""
import json, sys, os, random

OPS = ["cons", "list*", "append", "append1", "cdr", "rest", "nthcdr", "last", "last1", "butlast", "butlast1",
       "subseq", "subseq1", "copy-list", "reverse", "remove-count", "remove-start-end", "remove-from-end", "member",
       "mapcar", "push", "pop", "setf-car", "setf-nth", "setf-elt", "rplaca", "rplacd", "nconc", "nreverse", "sort",
       "delete-count", "add2", "add1", "copy-seq", "revappend", "nreconc", "adjoin", "pushnew", "addf", "addnew",
       "nbutlast", "fill", "nsubstitute", "substitute", "remove-if", "concatenate", "stable-sort", "setf-subseq",
       "rplacd-nil", "delete-duplicates", "remove-duplicates", "union", "merge"]
OP = {n: i for i, n in enumerate(OPS)}
TWO = {"append", "rplacd", "nconc", "revappend", "nreconc", "concatenate", "setf-subseq", "union", "merge"}
NO_SAME_ARRAY_NONEMPTY = {"nconc", "nreconc"}
NO_SAME_ARRAY = {"setf-subseq"}

# obligation -> (ops, carves, text)
GROUPS = [
    ("C06.construct", ["cons", "list*", "append", "append1", "copy-list", "copy-seq", "reverse", "revappend", "concatenate",
                       "mapcar", "adjoin"],
     ["C06-listx-last-list-not-spliced", "C06-revappend-empty-first-appends-in-place"]),
    ("C06.tails", ["cdr", "rest", "nthcdr", "last", "last1", "member", "butlast", "butlast1", "nbutlast"],
     ["C06-go-fault-index-args"]),
    ("C06.subseq", ["subseq", "subseq1"], ["C06-subseq-returns-reslice", "C06-go-fault-index-args"]),
    ("C06.remove", ["remove-count", "remove-start-end", "remove-from-end", "remove-if", "delete-count", "substitute",
                    "remove-duplicates", "delete-duplicates", "union", "merge"], []),
    ("C06.places", ["push", "pop", "pushnew", "setf-car", "setf-nth", "setf-elt", "setf-subseq", "rplaca", "fill",
                    "nsubstitute"], []),
    ("C06.reorder", ["nreverse", "sort", "stable-sort"], []),
    ("C06.rplacd", ["rplacd", "rplacd-nil"],
     ["C06-rplacd-in-place", "C06-rplacd-nil-writes-tail-marker", "C06-extend-in-place-stale-prefix", "C06-rplacd-shorter-exposes-cells",
      ]),
    ("C06.extend", ["nconc", "nreconc", "add1", "add2", "addf", "addnew"], ["C06-extend-in-place-stale-prefix"]),
]


EXTEND1 = {"add1", "add2", "addf", "addnew"}
EXTEND2 = {"nconc", "nreconc", "rplacd"}


LIGHT2 = {"revappend", "concatenate", "union", "merge", "setf-subseq"}
SMALL_ALWAYS = {"union", "merge", "remove-duplicates", "delete-duplicates"}  # element-by-element ObjectEqual: paths grow as len!


def shapes(name, maxlen, maxcap, lists):
    """(e0, sp0, p1, sp1, p2) within the bounds; pool invariant I holds by construction.
    Single-operand operations: the second list is every tail of a, or one separate array (2 cells + 1 spare);
    spare capacity 0/1 (0/1/2 for the operations that append in place).  Two-operand operations: the
    second list additionally ranges over every separate array shape."""
    two = name in TWO and not (lists == 2 and name in LIGHT2)
    sp_a = [0, 1, 2] if name in EXTEND1 or name in EXTEND2 else [0, 1]
    out = []
    for e0 in range(0, maxlen + 1):
        for sp0 in sp_a:
            if e0 + sp0 > maxcap:
                continue
            p1s = [(p1, 0) for p1 in range(0, e0 + 1)]
            if two:
                for e1 in range(0, maxlen + 1):
                    for sp1 in (0, 1):
                        if lists == 2 and sp1 == 1 and e1 != 2:
                            continue  # quick: the second operand's own spare capacity only once
                        if e1 + sp1 <= maxcap:
                            p1s.append((10 + e1, sp1))
            else:
                p1s.append((12, 1))
            for p1, sp1 in p1s:
                if lists == 2 or name not in TWO or name in LIGHT2:
                    # a third list is only a bystander for single-operand operations (all cells are compared anyway)
                    out.append((e0, sp0, p1, sp1, -1))
                    continue
                p2s = list(range(0, e0 + 1))
                if p1 >= 10 and not two:
                    p2s += [10 + k for k in range(0, p1 - 10 + 1)]
                if p1 >= 10 and two:
                    p2s += [10 + k for k in range(1, p1 - 10 + 1, 2)]
                for p2 in p2s:
                    out.append((e0, sp0, p1, sp1, p2))
    return out


THOROUGH_ONLY = {"union", "merge", "remove-duplicates", "delete-duplicates", "stable-sort", "nbutlast", "copy-seq",
                 "rest", "append1", "butlast1", "last1", "subseq1"}


def cases(ops, bounds, lists, sample=None):
    out = []
    for name in ops:
        if lists == 2 and sample is None and name in THOROUGH_ONLY:
            continue
        b = (min(bounds[0], 3), min(bounds[1], 4)) if name in SMALL_ALWAYS else bounds
        shp = sample if sample is not None else shapes(name, b[0], b[1], lists)
        for (e0, sp0, p1, sp1, p2) in shp:
            n = lists if p2 >= 0 else 2
            for i1 in range(n):
                if lists == 2 and name not in TWO and i1 == 1 and not (0 < p1 < 10):
                    continue  # quick: b as the operand only when it is a proper tail of a (other placements repeat a's shapes)
                i2s = range(n) if name in TWO else [0]
                for i2 in i2s:
                    if name in TWO:
                        arr = lambda i: 0 if (i == 0 or (i == 1 and p1 < 10) or (i == 2 and p2 < 10)) else 1
                        ln = lambda i: e0 if i == 0 else ((e0 - p1 if p1 < 10 else p1 - 10) if i == 1 else (e0 - p2 if p2 < 10 else (p1 - 10) - (p2 - 10)))
                        if arr(i1) == arr(i2):
                            if name in NO_SAME_ARRAY:
                                continue
                            if name in NO_SAME_ARRAY_NONEMPTY and ln(i1) > 0 and ln(i2) > 0:
                                continue
                    out.append([OP[name], e0, sp0, p1, sp1, p2, i1 + 3 * i2])
    return out


def dedupe_single(cs, ops_single):
    return cs


def main():
    sample = "--sample" in sys.argv
    obligations = []
    for gid, ops, carves in GROUPS:
        if sample:
            q = cases(ops, None, 2, sample=[(2, 1, 1, 0, -1), (3, 0, 12, 2, -1)])
            t = q
        else:
            q = cases(ops, (3, 4), 2)
            t = cases(ops, (4, 6), 3)
        # deterministic shuffle: shards take every n-th case, heavy and light cases must mix
        random.Random(6).shuffle(q)
        random.Random(6).shuffle(t)
        obligations.append({
            "id": gid, "property": "C06", "pkg": "pkg/cl", "entry": "VerifC06Step",
            "cases": {"quick": q, "thorough": t}, "reach": ["ran"], "carved_out": carves,
            "overrides": OVERRIDES,
            "max_depth": 600, "max_steps": 40000000, "solver_timeout_ms": 60000,
            "note": NOTE % ", ".join(ops), "assumptions": ASSUME,
        })
    obligations.append({
        "id": "C06.findings", "property": "C06", "pkg": "pkg/cl", "entry": "VerifC06Step",
        "cases": {"quick": FINDING_CASES, "thorough": FINDING_CASES}, "reach": ["ran"],
        "carves": sorted(set(c for _, _, cs in GROUPS for c in cs)),
        "overrides": OVERRIDES, "max_depth": 600, "max_steps": 40000000, "solver_timeout_ms": 60000,
        "note": "witness cases for the known findings carved out of the C06 step obligations (same entry, same assertions): "
                "the probe runs of ./check explore inside each region on these shapes only, so that a probe costs seconds; "
                "the carve-outs themselves (assume not-region) act in every obligation that reaches the vrt.Carve call (listed there under carved_out).",
    })
    path = os.path.join(os.path.dirname(os.path.abspath(__file__)), "..", "..", "obligations.d", "C06.json")
    extra = []
    xp = os.path.join(os.path.dirname(os.path.abspath(__file__)), "zz_verif_c06_extra.json")
    if os.path.exists(xp):
        extra = json.load(open(xp))
    json.dump(obligations + extra, open(path, "w"), indent=None, separators=(",", ":"))
    for o in obligations:
        print(o["id"], len(o["cases"]["quick"]), len(o["cases"]["thorough"]))


M = "github.com/ohler55/slip."
OVERRIDES = {M + "ErrorNew": M + "zzC06StubErrorNew", M + "TypeErrorNew": M + "zzC06StubTypeErrorNew",
             "(*" + M + "Panic).AppendToStack": M + "zzC06StubAppendToStack", M + "WrapError": M + "zzC06StubWrapError"}
FINDING_CASES = [
    [OP["subseq"], 2, 1, 1, 0, -1, 0], [OP["subseq1"], 3, 0, 12, 1, -1, 0],          # re-slice; start > end fault
    [OP["last"], 2, 1, 1, 0, -1, 0],                                                  # negative n fault
    [OP["list*"], 2, 1, 1, 0, -1, 0],
    [OP["revappend"], 0, 1, 11, 0, -1, 3], [OP["revappend"], 0, 2, 12, 0, -1, 3],
    [OP["rplacd"], 2, 1, 1, 0, -1, 0], [OP["rplacd"], 3, 0, 1, 0, -1, 3], [OP["rplacd"], 3, 1, 11, 0, -1, 3],
    [OP["rplacd-nil"], 2, 1, 1, 0, -1, 0], [OP["rplacd-nil"], 1, 0, 12, 1, -1, 0],
    [OP["add1"], 2, 1, 1, 0, -1, 0], [OP["add2"], 1, 2, 12, 1, -1, 0], [OP["nconc"], 2, 2, 11, 0, -1, 3],
    [OP["nreconc"], 2, 1, 11, 0, -1, 3], [OP["addf"], 2, 1, 1, 0, -1, 1], [OP["addnew"], 2, 1, 1, 0, -1, 0],
    [OP["rplacd"], 1, 1, 11, 0, -1, 3],
]
QUICK_SPARES = [0, 1, 2]
THOROUGH_SPARES = [0, 1, 2]
NOTE = ("operations: %s. ONE inductive step from a pool of lists built directly as slip.List re-slices of 1-2 backing arrays "
        "(pool invariant I by construction: the lists over one array are tails of each other and end at the same cell, the cells behind "
        "that end are spare capacity, arrays are disjoint); parameters (op, e0, sp0, p1, sp1, p2, sel): array 0 has e0 visible + sp0 spare cells, "
        "list a = all of it; p1 = list b: tail of a from cell p1 (0 = the same list, e0 = the empty tail) or 10+e1 = own array with e1 visible + sp1 "
        "spare cells; p2 = optional third list (tail of a or of b); sel = which pool lists are the operands. "
        "Shapes are enumerated exhaustively by zz_verif_c06_cases.py: quick: 2 lists, len<=3, cap<=4, spare 0/1 (0/1/2 for the operations that "
        "append in place); single-operand operations: b = every tail of a or one separate array, operand a, or b when it is a proper tail; "
        "two-operand operations: b also every separate array (len 0..3), every operand pair; a few secondary operations only in thorough. "
        "thorough: len<=4, cap<=6, every list as operand, append/rplacd/nconc/nreconc with a third list; union/merge/*-duplicates stay at len<=3. "
        "Symbolic: every cell value, visible and spare (unconstrained int64 fixnums; bounded to (-1000,1000) for mapcar 1+ only), the items x/y, "
        "the integer arguments n/m (:start :end :count, n of nthcdr/last/butlast/nth/elt, subseq bounds; full int64). The form is evaluated "
        "through the real registry (scope.Eval of a slip.List form in a scope where the pool lists are bound to a, b, c), push/pop/setf/addf forms included. "
        "Post-conditions, decided for all values: no Go run-time fault; (1) every cell of every backing array holds its snapshot value, or the value the "
        "cons model prescribes (setf car/nth/elt/subseq, rplaca, fill, nsubstitute), unless the model frees it (own cells of nreverse/sort/delete-duplicates, "
        "spare cells behind the target of nconc/nreconc/add/addf/addnew/rplacd, rplacd's cells not seen by a live tail); after a signalled condition nothing "
        "may have changed; (2) result (and rebound variable) contents = index-based reference model over the snapshots; (3) placement: fresh (outside every pool array) "
        "/ exactly the tail the language defines (cdr, rest, nthcdr, member, pop) / that tail or a copy (last, adjoin-found) / reuse from the first cell of the "
        "destructive argument; two evaluations of a copying operation share no cell; (4) invariant I for pool+result: a value living in a pool array ends at that "
        "array's visible end. Stubs (engine only, the native replay runs the real code): ErrorNew/TypeErrorNew without the formatted text, AppendToStack/WrapError "
        "without printing the call - decimal text of symbolic integers would fork per digit, no assertion looks at message text. A Go fault inside Function.Eval "
        "is wrapped by slip into an error condition: it is recognised by vrt.Faults() in the engine and by the 'runtime error' text natively.")
ASSUME = ["list elements are fixnums (no nested lists, no dotted lists in the pool)",
          "pool states satisfy invariant I; shapes with a stale prefix (lists with different ends over one array) arise only through the carved-out in-place extension and are not explored",
          "nconc/nreconc with two non-empty operands over one array (a circular list in the cons model) and (setf (subseq ..)) with source and target over one array are not run",
          "remove/delete/substitute are required to return fresh lists and merge/union/delete not to touch their arguments (what slip implements); CL would also allow sharing/reuse there",
          "for arguments outside the CL domain (negative n, bounds out of range) only 'no Go fault' and 'nothing else changed' are required"]

if __name__ == "__main__":
    main()
