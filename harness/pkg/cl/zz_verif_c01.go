package cl

// C01 — core evaluation follows the language rules for order, binding and control.
//
// This file holds what C01, C07 and C08 share:
//   - the trace form (zzvtrace k e): a transparent wrapper that records (k, primary value of e),
//   - zzVal / zzRef: the reference evaluator (Appendix F of DESIGN.md), written from the language
//     definition over the same slip.List trees, sharing no code with the interpreter,
//   - the typed program generator (kind table zzC01Kinds, spine addressed by harness parameters),
//   - the comparison of an interpreter run with a reference run.

import (
	"strconv"
	"strings"

	"github.com/ohler55/slip"
	vrt "github.com/ohler55/slip/zzvrt"
)

// ---------------------------------------------------------------------------------------------
// trace form on the interpreter side

type zzSink struct {
	ks []int
	vs []slip.Object
}

var zzSinkCur *zzSink

type zzTraceFn struct {
	slip.Function
}

// Call evaluates the wrapped form itself (both arguments are unevaluated) so that multiple
// values and exit markers pass through unchanged.
func (f *zzTraceFn) Call(s *slip.Scope, args slip.List, depth int) slip.Object {
	k := int(args[0].(slip.Fixnum))
	v := slip.EvalArg(s, args, 1, depth+1)
	var prim slip.Object
	switch tv := v.(type) {
	case *slip.ReturnResult:
		return v
	case *GoTo:
		return v
	case slip.Values:
		if 0 < len(tv) {
			prim = tv[0]
		}
	default:
		prim = v
	}
	if zzSinkCur != nil {
		zzSinkCur.ks = append(zzSinkCur.ks, k)
		zzSinkCur.vs = append(zzSinkCur.vs, prim)
	}
	return v
}

func zzDefineTrace() {
	if slip.FindFunc("zzvtrace") != nil {
		return
	}
	slip.Define(
		func(args slip.List) slip.Object {
			f := zzTraceFn{Function: slip.Function{Name: "zzvtrace", Args: args, SkipEval: []bool{true, true}}}
			f.Self = &f
			return &f
		},
		&slip.FuncDoc{
			Name: "zzvtrace",
			Kind: slip.MacroSymbol,
			Args: []*slip.DocArg{{Name: "k", Type: "fixnum"}, {Name: "form", Type: "object"}},
			Return: "object",
			Text:   "verification trace point",
		}, &slip.UserPkg)
}

// ---------------------------------------------------------------------------------------------
// values of the reference evaluator

const (
	zzKNil = iota
	zzKInt
	zzKT
	zzKList
	zzKFn
	zzKSym
	zzKCond // a condition object (only produced by ignore-errors)
)

type zzVal struct {
	k int
	n int64
	l []zzVal
	c *zzClo
	s string
}

type zzClo struct {
	params []string
	body   []slip.Object
	env    *zzFrame
	name   string // non-empty for defun: implicit block of that name
	prim   string // non-empty: a built-in function designated by name
}

// zzSite models, for carve-out regions only, which function object the interpreter binds a call
// form to: generation 0 is the placeholder made for a call compiled before any defun of the
// name; patched is true when that object is the one every later defun updates in place.
type zzSite struct {
	p       *slip.Object
	gen     int
	patched bool
}

type zzCell struct {
	v zzVal
}

type zzFrame struct {
	up    *zzFrame
	names []string
	cells []*zzCell
	// block
	isBlk bool
	blk   string
	dead  bool
	// tagbody
	isTB bool
	tags []slip.Object
	// model of the interpreter's scope graph, used ONLY to compute carve-out regions
	isFn  bool
	dyn   *zzFrame // the caller's environment for a function frame
	noClo bool     // function created at top level: interpreter records no closure scope
	clo   *zzClo   // the function of a function frame
	sblk  bool     // the interpreter's scope for this frame has its Block flag set
}

const (
	zzXReturn = 1
	zzXGo     = 2
	zzXError  = 3
)

type zzExit struct {
	kind  int
	blk   *zzFrame
	tb    *zzFrame
	idx   int
	v     zzVal
	mv    []zzVal
	hasMV bool
	class string
}

type zzOut struct {
	v     zzVal
	mv    []zzVal
	hasMV bool
	ex    *zzExit
}

// carve-out region flags set by the reference run (each is a concrete fact about the run)
const (
	zzHDynLeak     = iota // a free variable of a called function resolves differently through the caller's scope
	zzHCondNoBody         // a cond clause without body forms was selected
	zzHMVTest             // a conditional test delivered multiple values whose primary is nil
	zzHMVLost             // multiple values had to pass through progn
	zzHDoNoStep           // a do/do* variable without step form survived an iteration
	zzHMVLeak             // a special form used the primary value of a form delivering several values (not a test)
	zzHDotimesNeg         // dotimes with a negative count
	zzHFuncall0           // funcall/apply with no arguments for the function
	zzHGoNoTag            // go to a tag that no enclosing tagbody has
	zzHDoAtomTest         // do/do* whose end test is not a list form
	zzHLambdaSym          // an unbound symbol as a body form of lambda/defun
	zzHIgnoreRaw          // ignore-errors around a form that signals without an enclosing function call
	zzHFwdCall            // a call with arguments compiled before its callee existed
	zzHStaleCall          // a call bound to a function object that a later defun did not update
	zzHMax        = 24
)

type zzRef struct {
	glob   *zzFrame
	fnames []string
	fns    []*zzClo
	tk     []int
	tv     []zzVal
	hit    [zzHMax]bool
	iters  int
	calls  int
	maxIt  int
	maxCalls int
	// exits leaving sub-forms: "form/role/kind" (carve-out regions only)
	transits []string
	sites    []*zzSite
	phNames  []string // names that got a placeholder before their first defun
}

func zzNewRef() *zzRef {
	return &zzRef{glob: &zzFrame{}, maxIt: 3, maxCalls: 12}
}

func zzLower(s string) string {
	return strings.ToLower(s)
}

func zzInt(n int64) zzVal  { return zzVal{k: zzKInt, n: n} }
func zzBool(b bool) zzVal {
	if b {
		return zzVal{k: zzKT}
	}
	return zzVal{}
}

func zzErr(class string) zzOut {
	return zzOut{ex: &zzExit{kind: zzXError, class: class}}
}

func zzOne(v zzVal) zzOut { return zzOut{v: v} }

func (r *zzRef) lookupLex(e *zzFrame, name string) *zzCell {
	for f := e; f != nil; f = f.up {
		for i := len(f.names) - 1; 0 <= i; i-- {
			if f.names[i] == name {
				return f.cells[i]
			}
		}
	}
	return nil
}

// lookupDyn follows the parent order of the interpreter's scopes (caller first, then the
// recorded closure scope).  It is used only to decide whether a run lies in the carve-out region
// of the dynamic-scope-leak finding; the expected results always come from lookupLex.
func (r *zzRef) lookupDyn(e *zzFrame, name string) *zzCell {
	if e == nil {
		return nil
	}
	for i := len(e.names) - 1; 0 <= i; i-- {
		if e.names[i] == name {
			return e.cells[i]
		}
	}
	if e.isFn {
		if c := r.lookupDyn(e.dyn, name); c != nil {
			return c
		}
		if e.noClo {
			return nil
		}
	}
	return r.lookupDyn(e.up, name)
}

func (r *zzRef) cell(e *zzFrame, name string) *zzCell {
	c := r.lookupLex(e, name)
	if c != r.lookupDyn(e, name) {
		r.hit[zzHDynLeak] = true
	}
	return c
}

func (r *zzRef) findFn(name string) *zzClo {
	for i := len(r.fnames) - 1; 0 <= i; i-- {
		if r.fnames[i] == name {
			return r.fns[i]
		}
	}
	return nil
}

func zzIsPrim(name string) bool {
	switch name {
	case "+", "1+", "<", "=", "list", "car", "cdr", "not", "null", "/":
		return true
	}
	return false
}

func zzDatum(o slip.Object) zzVal {
	if o == slip.True {
		return zzVal{k: zzKT}
	}
	switch to := o.(type) {
	case nil:
		return zzVal{}
	case slip.Fixnum:
		return zzInt(int64(to))
	case slip.Symbol:
		n := zzLower(string(to))
		if n == "nil" {
			return zzVal{}
		}
		if n == "t" {
			return zzVal{k: zzKT}
		}
		return zzVal{k: zzKSym, s: n}
	case slip.List:
		if len(to) == 0 {
			return zzVal{}
		}
		l := make([]zzVal, len(to))
		for i := range to {
			l[i] = zzDatum(to[i])
		}
		return zzVal{k: zzKList, l: l}
	}
	return zzVal{k: zzKSym, s: "?"}
}

func zzTruthy(v zzVal) bool {
	return v.k != zzKNil
}

func zzEql(a, b zzVal) bool {
	if a.k != b.k {
		return false
	}
	switch a.k {
	case zzKInt:
		return a.n == b.n
	case zzKSym:
		return a.s == b.s
	case zzKNil, zzKT:
		return true
	}
	return false
}

func zzHead(l slip.List) string {
	if len(l) == 0 {
		return ""
	}
	if s, ok := l[0].(slip.Symbol); ok {
		return zzLower(string(s))
	}
	return ""
}

func (r *zzRef) trace(k int, v zzVal) {
	r.tk = append(r.tk, k)
	r.tv = append(r.tv, v)
}

// note records that an exit left a sub-form in position `role` of a form `form`
// ("form/role/exit-kind").  The notes are used ONLY to compute carve-out regions.
func (r *zzRef) note(form, role string, ex *zzExit) {
	if ex == nil {
		return
	}
	k := "err"
	if ex.kind == zzXReturn {
		k = "ret"
	} else if ex.kind == zzXGo {
		k = "go"
	}
	r.transits = append(r.transits, form+"/"+role+"/"+k)
}

// ev evaluates a sub-form in position `role` of `form`.
func (r *zzRef) ev(form, role string, f slip.Object, e *zzFrame) zzOut {
	out := r.eval(f, e)
	r.note(form, role, out.ex)
	return out
}

// seq evaluates forms in order; the last one delivers all its values.
func (r *zzRef) seq(form string, forms []slip.Object, e *zzFrame) zzOut {
	out := zzOut{}
	for i := 0; i < len(forms); i++ {
		role := "mid"
		if i == len(forms)-1 {
			role = "last"
		}
		out = r.ev(form, role, forms[i], e)
		if out.ex != nil {
			if out.ex.kind == zzXError {
				if _, isSym := forms[i].(slip.Symbol); isSym {
					if form == "lambda" {
						r.hit[zzHLambdaSym] = true
					}
					if form == "ignore-errors" {
						r.hit[zzHIgnoreRaw] = true
					}
				} else if form == "ignore-errors" && out.ex.class == "undefined-function" {
					if l, isList := forms[i].(slip.List); isList && r.findFn(zzHead(l)) == nil && !zzIsPrim(zzHead(l)) && !zzIsSpecial(zzHead(l)) {
						r.hit[zzHIgnoreRaw] = true
					}
				}
			}
			return out
		}
	}
	return out
}

func zzIsSpecial(h string) bool {
	switch h {
	case "quote", "zzvtrace", "progn", "prog1", "if", "when", "unless", "cond", "case", "and", "or", "let", "let*", "setq",
		"lambda", "defun", "function", "funcall", "apply", "mapcar", "values", "multiple-value-bind", "dotimes", "dolist",
		"do", "do*", "block", "return-from", "return", "tagbody", "go", "unwind-protect", "ignore-errors", "error",
		"recover", "with-mutex-lock", "with-open-file", "defvar":
		return true
	}
	return false
}

func (r *zzRef) progn(forms []slip.Object, e *zzFrame) zzOut {
	return r.seq("body", forms, e)
}

// prim1 evaluates a form for its primary value only.
func (r *zzRef) prim1(form, role string, f slip.Object, e *zzFrame) zzOut {
	out := r.ev(form, role, f, e)
	if out.ex != nil {
		return out
	}
	return zzOne(out.v)
}

func (r *zzRef) evalArgs(forms []slip.Object, e *zzFrame) ([]zzVal, *zzExit) {
	args := make([]zzVal, 0, len(forms))
	for i := 0; i < len(forms); i++ {
		role := "arg"
		if i == len(forms)-1 {
			role = "lastarg"
		}
		out := r.ev("call", role, forms[i], e)
		if out.ex != nil {
			return nil, out.ex
		}
		args = append(args, out.v)
	}
	return args, nil
}

func (r *zzRef) eval(f slip.Object, e *zzFrame) zzOut {
	if f == slip.True {
		return zzOne(zzVal{k: zzKT})
	}
	switch tf := f.(type) {
	case nil:
		return zzOut{}
	case slip.Fixnum:
		return zzOne(zzInt(int64(tf)))
	case slip.Symbol:
		name := zzLower(string(tf))
		if name == "nil" {
			return zzOut{}
		}
		if name == "t" {
			return zzOne(zzVal{k: zzKT})
		}
		if 0 < len(name) && name[0] == ':' {
			return zzOne(zzVal{k: zzKSym, s: name})
		}
		c := r.cell(e, name)
		if c == nil {
			c = r.lookupLex(r.glob, name)
		}
		if c == nil {
			return zzErr("unbound-variable")
		}
		return zzOne(c.v)
	case slip.String:
		return zzOne(zzVal{k: zzKSym, s: "\"" + string(tf) + "\""})
	case slip.List:
		if len(tf) == 0 {
			return zzOut{}
		}
		return r.evalList(tf, e)
	}
	return zzErr("unsupported-form")
}

func (r *zzRef) evalList(l slip.List, e *zzFrame) zzOut {
	head := zzHead(l)
	if head == "" {
		// ((lambda (..) ..) args)
		if hl, ok := l[0].(slip.List); ok && zzHead(hl) == "lambda" {
			fo := r.eval(hl, e)
			if fo.ex != nil {
				return fo
			}
			args, ex := r.evalArgs(l[1:], e)
			if ex != nil {
				return zzOut{ex: ex}
			}
			return r.apply(fo.v, args, e)
		}
		return zzErr("error")
	}
	rest := []slip.Object(l[1:])
	switch head {
	case "quote":
		if len(rest) != 1 {
			return zzErr("error")
		}
		return zzOne(zzDatum(rest[0]))
	case "zzvtrace":
		k := int(rest[0].(slip.Fixnum))
		out := r.eval(rest[1], e)
		if out.ex != nil {
			return out
		}
		r.trace(k, out.v)
		return out
	case "progn":
		out := r.seq("progn", rest, e)
		if out.ex == nil && out.hasMV && len(out.mv) != 1 {
			r.hit[zzHMVLost] = true
		}
		return out
	case "prog1":
		first := r.prim1("prog1", "first", rest[0], e)
		if first.ex != nil {
			return first
		}
		out := r.seq("prog1", rest[1:], e)
		if out.ex != nil {
			return out
		}
		return first
	case "if":
		t := r.ev("if", "test", rest[0], e)
		if t.ex != nil {
			return t
		}
		r.mvTest(t)
		if zzTruthy(t.v) {
			return r.ev("if", "branch", rest[1], e)
		}
		if 2 < len(rest) {
			return r.ev("if", "branch", rest[2], e)
		}
		return zzOut{}
	case "when", "unless":
		t := r.ev(head, "test", rest[0], e)
		if t.ex != nil {
			return t
		}
		r.mvTest(t)
		if zzTruthy(t.v) == (head == "when") {
			return r.seq(head, rest[1:], e)
		}
		return zzOut{}
	case "cond":
		for i := 0; i < len(rest); i++ {
			cl := rest[i].(slip.List)
			t := r.ev("cond", "test", cl[0], e)
			if t.ex != nil {
				return t
			}
			r.mvTest(t)
			if zzTruthy(t.v) {
				if len(cl) == 1 {
					r.hit[zzHCondNoBody] = true
					return zzOne(t.v)
				}
				return r.seq("cond", cl[1:], e)
			}
		}
		return zzOut{}
	case "case":
		ko := r.ev("case", "key", rest[0], e)
		if ko.ex != nil {
			return ko
		}
		for i := 1; i < len(rest); i++ {
			cl := rest[i].(slip.List)
			match := false
			key := cl[0]
			if key == slip.True {
				key = slip.Symbol("t")
			}
			switch tk := key.(type) {
			case slip.List:
				for j := 0; j < len(tk); j++ {
					if zzEql(ko.v, zzDatum(tk[j])) {
						match = true
					}
				}
			case slip.Symbol:
				n := zzLower(string(tk))
				if n == "t" || n == "otherwise" {
					match = true
				} else {
					match = zzEql(ko.v, zzDatum(tk))
				}
			default:
				match = zzEql(ko.v, zzDatum(tk))
			}
			if match {
				return r.seq("case", cl[1:], e)
			}
		}
		return zzOut{}
	case "and":
		if len(rest) == 0 {
			return zzOne(zzVal{k: zzKT})
		}
		for i := 0; i < len(rest)-1; i++ {
			t := r.ev("and", "mid", rest[i], e)
			if t.ex != nil {
				return t
			}
			r.mvTest(t)
			if !zzTruthy(t.v) {
				return zzOut{}
			}
		}
		return r.ev("and", "last", rest[len(rest)-1], e)
	case "or":
		for i := 0; i < len(rest)-1; i++ {
			t := r.ev("or", "mid", rest[i], e)
			if t.ex != nil {
				return t
			}
			r.mvTest(t)
			if zzTruthy(t.v) {
				r.mvLeak(t)
				return zzOne(t.v)
			}
		}
		if len(rest) == 0 {
			return zzOut{}
		}
		return r.ev("or", "last", rest[len(rest)-1], e)
	case "let", "let*":
		return r.evalLet(head == "let*", rest, e)
	case "setq":
		out := zzOut{}
		for i := 0; i+1 < len(rest); i += 2 {
			name := zzLower(string(rest[i].(slip.Symbol)))
			vo := r.ev("setq", "value", rest[i+1], e)
			if vo.ex != nil {
				return vo
			}
			r.mvLeak(vo)
			r.assign(e, name, vo.v)
			out = zzOne(vo.v)
		}
		return out
	case "lambda":
		return zzOne(zzVal{k: zzKFn, c: r.mkClo(rest, e, "")})
	case "defun":
		name := zzLower(string(rest[0].(slip.Symbol)))
		c := r.mkClo(rest[1:], e, name)
		r.fnames = append(r.fnames, name)
		r.fns = append(r.fns, c)
		return zzOne(zzVal{k: zzKSym, s: name})
	case "defvar":
		// (defvar name [value]): binds the global only when it has no value yet
		name := zzLower(string(rest[0].(slip.Symbol)))
		if r.lookupLex(r.glob, name) == nil && 1 < len(rest) {
			vo := r.ev("defvar", "value", rest[1], e)
			if vo.ex != nil {
				return vo
			}
			r.glob.names = append(r.glob.names, name)
			r.glob.cells = append(r.glob.cells, &zzCell{v: vo.v})
		}
		return zzOne(zzVal{k: zzKSym, s: name})
	case "function":
		if s, ok := rest[0].(slip.Symbol); ok {
			return r.fnByName(zzLower(string(s)))
		}
		return r.eval(rest[0], e)
	case "funcall", "apply":
		args, ex := r.evalArgs(rest, e)
		if ex != nil {
			return zzOut{ex: ex}
		}
		fn := args[0]
		args = args[1:]
		if head == "apply" {
			if len(args) == 0 {
				return zzErr("program-error")
			}
			last := args[len(args)-1]
			if last.k != zzKList && last.k != zzKNil {
				return zzErr("type-error")
			}
			na := make([]zzVal, 0, len(args)-1+len(last.l))
			na = append(na, args[:len(args)-1]...)
			na = append(na, last.l...)
			args = na
		}
		if len(rest) == 1 {
			r.hit[zzHFuncall0] = true
		}
		return r.callDesignator(fn, args, e)
	case "mapcar":
		args, ex := r.evalArgs(rest, e)
		if ex != nil {
			return zzOut{ex: ex}
		}
		n := -1
		for i := 1; i < len(args); i++ {
			if args[i].k != zzKList && args[i].k != zzKNil {
				return zzErr("type-error")
			}
			if n < 0 || len(args[i].l) < n {
				n = len(args[i].l)
			}
		}
		res := make([]zzVal, 0, n)
		for j := 0; j < n; j++ {
			ca := make([]zzVal, 0, len(args)-1)
			for i := 1; i < len(args); i++ {
				ca = append(ca, args[i].l[j])
			}
			o := r.callDesignator(args[0], ca, e)
			if o.ex != nil {
				r.note("mapcar", "fn", o.ex)
				return o
			}
			r.mvLeak(o)
			res = append(res, o.v)
		}
		if len(res) == 0 {
			return zzOut{}
		}
		return zzOne(zzVal{k: zzKList, l: res})
	case "values":
		args, ex := r.evalArgs(rest, e)
		if ex != nil {
			return zzOut{ex: ex}
		}
		out := zzOut{mv: args, hasMV: true}
		if 0 < len(args) {
			out.v = args[0]
		}
		return out
	case "multiple-value-bind":
		vo := r.ev("mvb", "values", rest[1], e)
		if vo.ex != nil {
			return vo
		}
		vals := []zzVal{vo.v}
		if vo.hasMV {
			vals = vo.mv
		}
		vars := rest[0].(slip.List)
		ne := &zzFrame{up: e}
		for i := 0; i < len(vars); i++ {
			v := zzVal{}
			if i < len(vals) {
				v = vals[i]
			}
			ne.names = append(ne.names, zzLower(string(vars[i].(slip.Symbol))))
			ne.cells = append(ne.cells, &zzCell{v: v})
		}
		return r.seq("mvb", rest[2:], ne)
	case "dotimes", "dolist":
		return r.evalDoSimple(head == "dotimes", rest, e)
	case "do", "do*":
		return r.evalDo(head == "do*", rest, e)
	}
	if x, ok := r.evalExits(head, rest, e); ok {
		return x
	}
	// ordinary function call: operands left to right, each exactly once, primary values
	args, ex := r.evalArgs(rest, e)
	if ex != nil {
		return zzOut{ex: ex}
	}
	if c := r.findFn(head); c != nil {
		st := r.bindSite(l, head)
		if st.gen == 0 && 1 < len(l) {
			r.hit[zzHFwdCall] = true
		}
		if !st.patched && st.gen != r.gen(head) {
			r.hit[zzHStaleCall] = true
		}
		return r.applyClo(c, args, e)
	}
	if zzIsPrim(head) {
		return r.primCall(head, args)
	}
	return zzErr("undefined-function")
}

// mvLeak records that a special form took the primary value of a form delivering several values.
func (r *zzRef) mvLeak(o zzOut) {
	if o.hasMV && len(o.mv) != 1 {
		r.hit[zzHMVLeak] = true
	}
}

// mvTest records that a test form delivered several values with a nil primary.
func (r *zzRef) mvTest(t zzOut) {
	if t.hasMV && 1 < len(t.mv) && !zzTruthy(t.v) {
		r.hit[zzHMVTest] = true
	}
}

func (r *zzRef) assign(e *zzFrame, name string, v zzVal) {
	c := r.cell(e, name)
	if c == nil {
		c = r.lookupLex(r.glob, name)
	}
	if c == nil {
		r.glob.names = append(r.glob.names, name)
		r.glob.cells = append(r.glob.cells, &zzCell{v: v})
		return
	}
	c.v = v
}

func (r *zzRef) mkClo(rest []slip.Object, e *zzFrame, name string) *zzClo {
	c := &zzClo{env: e, name: name}
	if pl, ok := rest[0].(slip.List); ok { // nil: no parameters
		for i := 0; i < len(pl); i++ {
			c.params = append(c.params, zzLower(string(pl[i].(slip.Symbol))))
		}
	}
	c.body = rest[1:]
	for _, f := range c.body {
		r.bindEager(f)
	}
	return c
}

func (r *zzRef) gen(name string) int {
	n := 0
	for _, f := range r.fnames {
		if f == name {
			n++
		}
	}
	return n
}

func (r *zzRef) hasPlaceholder(name string) bool {
	for _, f := range r.phNames {
		if f == name {
			return true
		}
	}
	return false
}

func (r *zzRef) findSite(l slip.List) *zzSite {
	for _, st := range r.sites {
		if st.p == &l[0] {
			return st
		}
	}
	return nil
}

// bindSite records the function object a call form is bound to when the interpreter turns the
// list into a function object (which it does once, in place).
func (r *zzRef) bindSite(l slip.List, name string) *zzSite {
	if st := r.findSite(l); st != nil {
		return st
	}
	g := r.gen(name)
	if g == 0 && !r.hasPlaceholder(name) {
		r.phNames = append(r.phNames, name)
	}
	st := &zzSite{p: &l[0], gen: g, patched: g == 0 || g == 1 && !r.hasPlaceholder(name)}
	r.sites = append(r.sites, st)
	return st
}

// zzEagerArgs: which argument positions of a form the interpreter compiles when the enclosing
// lambda is created (ordinary functions: all; special forms: none, except the key of case and
// the mutex of with-mutex-lock).
func zzEagerArgs(h string, n int) (from, to int) {
	switch h {
	case "progn", "prog1", "funcall", "apply", "mapcar", "values", "error":
		return 1, n
	case "case", "with-mutex-lock":
		return 1, 2
	}
	if zzIsSpecial(h) {
		return 0, 0
	}
	return 1, n
}

// bindEager walks a body form the way the interpreter compiles it at definition time.
func (r *zzRef) bindEager(f slip.Object) {
	l, ok := f.(slip.List)
	if !ok || len(l) == 0 {
		return
	}
	h := zzHead(l)
	if h == "" {
		return
	}
	if !zzIsSpecial(h) && !zzIsPrim(h) {
		st := r.bindSite(l, h)
		if st.gen == 0 {
			return // placeholder: the argument list is dropped, nothing below is compiled
		}
	}
	from, to := zzEagerArgs(h, len(l))
	for i := from; i < to && i < len(l); i++ {
		r.bindEager(l[i])
	}
}

func (r *zzRef) fnByName(name string) zzOut {
	if c := r.findFn(name); c != nil {
		return zzOne(zzVal{k: zzKFn, c: c})
	}
	if zzIsPrim(name) {
		return zzOne(zzVal{k: zzKFn, c: &zzClo{prim: name}})
	}
	return zzErr("undefined-function")
}

func (r *zzRef) callDesignator(fn zzVal, args []zzVal, e *zzFrame) zzOut {
	if fn.k == zzKSym {
		fo := r.fnByName(fn.s)
		if fo.ex != nil {
			return fo
		}
		fn = fo.v
	}
	return r.apply(fn, args, e)
}

func (r *zzRef) apply(fn zzVal, args []zzVal, caller *zzFrame) zzOut {
	if fn.k != zzKFn {
		return zzErr("type-error")
	}
	if fn.c.prim != "" {
		return r.primCall(fn.c.prim, args)
	}
	return r.applyClo(fn.c, args, caller)
}

func (r *zzRef) applyClo(c *zzClo, args []zzVal, caller *zzFrame) zzOut {
	if len(args) != len(c.params) {
		return zzErr("program-error")
	}
	r.calls++
	if r.maxCalls < r.calls {
		vrt.Assume(false) // recursion bound of the harness
	}
	fe := &zzFrame{up: c.env, isFn: true, dyn: caller, noClo: c.env == nil || c.env.up == nil && !c.env.isFn, clo: c, sblk: true}
	for i := 0; i < len(args); i++ {
		fe.names = append(fe.names, c.params[i])
		fe.cells = append(fe.cells, &zzCell{v: args[i]})
	}
	if c.name != "" {
		fe.isBlk = true
		fe.blk = c.name
	}
	out := r.seq("lambda", c.body, fe)
	fe.dead = true
	if out.ex != nil && out.ex.kind == zzXReturn && out.ex.blk == fe {
		return zzOut{v: out.ex.v, mv: out.ex.mv, hasMV: out.ex.hasMV}
	}
	return out
}

func (r *zzRef) primCall(name string, args []zzVal) zzOut {
	switch name {
	case "+":
		var sum int64
		for i := 0; i < len(args); i++ {
			if args[i].k != zzKInt {
				return zzErr("type-error")
			}
			sum += args[i].n
		}
		return zzOne(zzInt(sum))
	case "1+":
		if len(args) != 1 {
			return zzErr("program-error")
		}
		if args[0].k != zzKInt {
			return zzErr("type-error")
		}
		return zzOne(zzInt(args[0].n + 1))
	case "/":
		if len(args) != 2 {
			return zzErr("program-error")
		}
		if args[0].k != zzKInt || args[1].k != zzKInt {
			return zzErr("type-error")
		}
		if args[1].n == 0 {
			return zzErr("division-by-zero")
		}
		if args[1].n == 1 {
			return zzOne(args[0])
		}
		return zzErr("unsupported-form")
	case "<", "=":
		if len(args) == 0 {
			return zzErr("program-error")
		}
		for i := 0; i < len(args); i++ {
			if args[i].k != zzKInt {
				return zzErr("type-error")
			}
		}
		ok := true
		for i := 0; i+1 < len(args); i++ {
			if name == "<" {
				if !(args[i].n < args[i+1].n) {
					ok = false
				}
			} else if args[i].n != args[i+1].n {
				ok = false
			}
		}
		return zzOne(zzBool(ok))
	case "list":
		if len(args) == 0 {
			return zzOut{}
		}
		l := make([]zzVal, len(args))
		copy(l, args)
		return zzOne(zzVal{k: zzKList, l: l})
	case "car":
		if len(args) != 1 {
			return zzErr("program-error")
		}
		if args[0].k == zzKNil {
			return zzOut{}
		}
		if args[0].k != zzKList {
			return zzErr("type-error")
		}
		return zzOne(args[0].l[0])
	case "cdr":
		if len(args) != 1 {
			return zzErr("program-error")
		}
		if args[0].k == zzKNil {
			return zzOut{}
		}
		if args[0].k != zzKList {
			return zzErr("type-error")
		}
		if len(args[0].l) == 1 {
			return zzOut{}
		}
		return zzOne(zzVal{k: zzKList, l: args[0].l[1:]})
	case "not", "null":
		if len(args) != 1 {
			return zzErr("program-error")
		}
		return zzOne(zzBool(args[0].k == zzKNil))
	}
	return zzErr("undefined-function")
}

func (r *zzRef) evalLet(seq bool, rest []slip.Object, e *zzFrame) zzOut {
	var bl slip.List
	if rest[0] != nil {
		bl = rest[0].(slip.List)
	}
	ne := &zzFrame{up: e}
	cur := e
	for i := 0; i < len(bl); i++ {
		var name string
		v := zzVal{}
		switch tb := bl[i].(type) {
		case slip.Symbol:
			name = zzLower(string(tb))
		case slip.List:
			name = zzLower(string(tb[0].(slip.Symbol)))
			if 1 < len(tb) {
				o := r.ev("let", "init", tb[1], cur)
				if o.ex != nil {
					return o
				}
				r.mvLeak(o)
				v = o.v
			}
		}
		if seq {
			// let*: each binding is visible to the following init forms
			cur = &zzFrame{up: cur, names: []string{name}, cells: []*zzCell{{v: v}}}
			ne = cur
		} else {
			ne.names = append(ne.names, name)
			ne.cells = append(ne.cells, &zzCell{v: v})
		}
	}
	if seq && len(bl) == 0 {
		ne = &zzFrame{up: e}
	}
	return r.seq("let", rest[1:], ne)
}

// body runs an implicit tagbody: atoms are tags and are not evaluated.
func (r *zzRef) tagbody(form string, forms []slip.Object, tb *zzFrame) zzOut {
	i := 0
	for i < len(forms) {
		switch forms[i].(type) {
		case slip.List:
			o := r.eval(forms[i], tb)
			if o.ex != nil {
				if o.ex.kind == zzXGo && o.ex.tb == tb {
					if o.ex.idx < i {
						r.transits = append(r.transits, form+"/stmt/goback")
					} else {
						r.transits = append(r.transits, form+"/stmt/gofwd")
					}
					r.iters++
					if 4*r.maxIt < r.iters {
						vrt.Assume(false) // loop bound of the harness
					}
					i = o.ex.idx + 1
					continue
				}
				r.note(form, "stmt", o.ex)
				return o
			}
		default:
			if forms[i] != nil {
				if _, isSym := forms[i].(slip.Symbol); isSym {
					r.transits = append(r.transits, form+"/symtag")
				}
			}
		}
		i++
	}
	return zzOut{}
}

func (r *zzRef) catchBlock(out zzOut, blk *zzFrame) (zzOut, bool) {
	if out.ex != nil && out.ex.kind == zzXReturn && out.ex.blk == blk {
		return zzOut{v: out.ex.v, mv: out.ex.mv, hasMV: out.ex.hasMV}, true
	}
	return out, false
}

func (r *zzRef) evalDoSimple(times bool, rest []slip.Object, e *zzFrame) zzOut {
	spec := rest[0].(slip.List)
	name := zzLower(string(spec[0].(slip.Symbol)))
	lname := "dolist"
	if times {
		lname = "dotimes"
	}
	blk := &zzFrame{up: e, isBlk: true, blk: "nil"} // the implicit block surrounds the whole form
	co := r.ev(lname, "count", spec[1], blk)
	if co.ex != nil {
		res, own := r.catchBlock(co, blk)
		if own {
			r.transits = append(r.transits, lname+"/header/ownret")
		}
		blk.dead = true
		return res
	}
	r.mvLeak(co)
	var n int
	var elems []zzVal
	if times {
		if co.v.k != zzKInt {
			return zzErr("type-error")
		}
		vrt.Assume(-2 < co.v.n) // loop bound of the harness
		vrt.Assume(co.v.n <= int64(r.maxIt))
		if co.v.n < 0 {
			r.hit[zzHDotimesNeg] = true
		}
		n = int(co.v.n)
	} else {
		if co.v.k != zzKList && co.v.k != zzKNil {
			return zzErr("type-error")
		}
		elems = co.v.l
		n = len(elems)
	}
	cell := &zzCell{}
	ve := &zzFrame{up: blk, names: []string{name}, cells: []*zzCell{cell}}
	tb := &zzFrame{up: ve, isTB: true, tags: rest[1:], sblk: true}
	for i := 0; i < n; i++ {
		if times {
			cell.v = zzInt(int64(i))
		} else {
			cell.v = elems[i]
		}
		o := r.tagbody(lname, rest[1:], tb)
		if o.ex != nil {
			res, _ := r.catchBlock(o, blk)
			blk.dead = true
			return res
		}
	}
	if times {
		if n < 0 {
			n = 0
		}
		cell.v = zzInt(int64(n))
	} else {
		cell.v = zzVal{}
	}
	out := zzOut{}
	if 2 < len(spec) {
		out = r.ev(lname, "result", spec[2], ve)
		var own bool
		if out, own = r.catchBlock(out, blk); own {
			r.transits = append(r.transits, lname+"/header/ownret")
		}
	}
	blk.dead = true
	return out
}

func (r *zzRef) evalDo(seq bool, rest []slip.Object, e *zzFrame) zzOut {
	specs := rest[0].(slip.List)
	blk := &zzFrame{up: e, isBlk: true, blk: "nil"}
	ve := &zzFrame{up: blk}
	steps := make([]slip.Object, len(specs))
	hasStep := make([]bool, len(specs))
	for i := 0; i < len(specs); i++ {
		var name string
		v := zzVal{}
		switch ts := specs[i].(type) {
		case slip.Symbol:
			name = zzLower(string(ts))
		case slip.List:
			name = zzLower(string(ts[0].(slip.Symbol)))
			if 1 < len(ts) {
				ie := blk
				if seq {
					ie = ve
				}
				o := r.ev("do", "init", ts[1], ie)
				if o.ex != nil {
					res, own := r.catchBlock(o, blk)
					if own {
						r.transits = append(r.transits, "do/header/ownret")
					}
					return res
				}
				r.mvLeak(o)
				v = o.v
			}
			if 2 < len(ts) {
				steps[i] = ts[2]
				hasStep[i] = true
			}
		}
		// do: the init forms above were evaluated outside ve, so filling ve here is parallel
		ve.names = append(ve.names, name)
		ve.cells = append(ve.cells, &zzCell{v: v})
	}
	end := rest[1].(slip.List)
	if _, isList := end[0].(slip.List); !isList {
		r.hit[zzHDoAtomTest] = true
	}
	tb := &zzFrame{up: ve, isTB: true, tags: rest[2:], sblk: true}
	for {
		t := r.ev("do", "test", end[0], ve)
		if t.ex != nil {
			res, own := r.catchBlock(t, blk)
			if own {
				r.transits = append(r.transits, "do/header/ownret")
			}
			blk.dead = true
			return res
		}
		if zzTruthy(t.v) {
			out := r.seq("doresult", end[1:], ve)
			var own bool
			if out, own = r.catchBlock(out, blk); own {
				r.transits = append(r.transits, "do/header/ownret")
			}
			blk.dead = true
			return out
		}
		r.iters++
		if r.maxIt < r.iters {
			vrt.Assume(false) // loop bound of the harness
		}
		o := r.tagbody("do", rest[2:], tb)
		if o.ex != nil {
			if !seq && o.ex.kind == zzXReturn && o.ex.blk != blk && !e.sblk {
				r.transits = append(r.transits, "do/stmt/ret-named-nonblock")
			}
			res, _ := r.catchBlock(o, blk)
			blk.dead = true
			return res
		}
		nv := make([]zzVal, len(steps))
		for i := 0; i < len(steps); i++ {
			if !hasStep[i] {
				r.hit[zzHDoNoStep] = true
				continue
			}
			so := r.ev("do", "step", steps[i], ve)
			if so.ex != nil {
				res, own := r.catchBlock(so, blk)
				if own {
					r.transits = append(r.transits, "do/header/ownret")
				}
				blk.dead = true
				return res
			}
			r.mvLeak(so)
			if seq {
				ve.cells[i].v = so.v
			} else {
				nv[i] = so.v
			}
		}
		if !seq {
			for i := 0; i < len(steps); i++ {
				if hasStep[i] {
					ve.cells[i].v = nv[i]
				}
			}
		}
	}
}

// evalExits: block, return-from, return, tagbody, go, unwind-protect, ignore-errors, error.
func (r *zzRef) evalExits(head string, rest []slip.Object, e *zzFrame) (zzOut, bool) {
	switch head {
	case "block":
		name := "nil"
		if sym, ok := rest[0].(slip.Symbol); ok {
			name = zzLower(string(sym))
		}
		blk := &zzFrame{up: e, isBlk: true, blk: name, sblk: true}
		out := r.seq("block", rest[1:], blk)
		blk.dead = true
		out, _ = r.catchBlock(out, blk)
		return out, true
	case "return-from", "return":
		name := "nil"
		vf := rest
		if head == "return-from" {
			if sym, ok := rest[0].(slip.Symbol); ok { // nil names the block nil
				name = zzLower(string(sym))
			}
			vf = rest[1:]
		}
		var blk *zzFrame
		for f := e; f != nil; f = f.up {
			if f.isBlk && f.blk == name {
				blk = f
				break
			}
		}
		if blk == nil {
			return zzErr("control-error"), true
		}
		out := zzOut{}
		if 0 < len(vf) {
			out = r.ev("return", "value", vf[0], e)
			if out.ex != nil {
				return out, true
			}
		}
		if blk.dead {
			return zzErr("control-error"), true
		}
		return zzOut{ex: &zzExit{kind: zzXReturn, blk: blk, v: out.v, mv: out.mv, hasMV: out.hasMV}}, true
	case "tagbody":
		tb := &zzFrame{up: e, isTB: true, tags: rest}
		out := r.tagbody("tagbody", rest, tb)
		tb.dead = true
		return out, true
	case "go":
		tag := zzDatum(rest[0])
		for f := e; f != nil; f = f.up {
			if !f.isTB {
				continue
			}
			for i := 0; i < len(f.tags); i++ {
				if _, isList := f.tags[i].(slip.List); isList || f.tags[i] == nil {
					continue
				}
				if zzEql(zzDatum(f.tags[i]), tag) {
					if f.dead {
						return zzErr("control-error"), true
					}
					return zzOut{ex: &zzExit{kind: zzXGo, tb: f, idx: i}}, true
				}
			}
		}
		r.hit[zzHGoNoTag] = true
		return zzErr("control-error"), true
	case "unwind-protect":
		out := r.ev("uwp", "protected", rest[0], e)
		cl := r.seq("uwpcleanup", rest[1:], e)
		if cl.ex != nil {
			return cl, true
		}
		return out, true
	case "ignore-errors":
		out := r.seq("ignore-errors", rest, e)
		if out.ex != nil && out.ex.kind == zzXError {
			return zzOut{mv: []zzVal{{}, {k: zzKCond, s: out.ex.class}}, hasMV: true}, true
		}
		return out, true
	case "recover":
		// (recover sym handler-form body...)  [gi package]
		out := r.seq("recover", rest[2:], e)
		if out.ex != nil && out.ex.kind == zzXError {
			name := zzLower(string(rest[0].(slip.Symbol)))
			he := &zzFrame{up: e, names: []string{name}, cells: []*zzCell{{v: zzVal{k: zzKCond, s: out.ex.class}}}}
			return r.ev("recover", "handler", rest[1], he), true
		}
		return out, true
	case "with-mutex-lock":
		// (with-mutex-lock mutex body...)  [gi package]
		mo := r.ev("call", "arg", rest[0], e)
		if mo.ex != nil {
			return mo, true
		}
		return r.seq("with-mutex-lock", rest[1:], e), true
	case "with-open-file":
		// (with-open-file (var path options...) body...)
		spec := rest[0].(slip.List)
		_, ex := r.evalArgs(spec[1:], e)
		if ex != nil {
			return zzOut{ex: ex}, true
		}
		name := zzLower(string(spec[0].(slip.Symbol)))
		fe := &zzFrame{up: e, names: []string{name}, cells: []*zzCell{{v: zzVal{k: zzKSym, s: "#stream"}}}}
		return r.seq("with-open-file", rest[1:], fe), true
	case "error":
		_, ex := r.evalArgs(rest, e)
		if ex != nil {
			return zzOut{ex: ex}, true
		}
		return zzErr("error"), true
	}
	return zzOut{}, false
}

// ---------------------------------------------------------------------------------------------
// interpreter run

const (
	zzCNone    = 0
	zzCCond    = 1 // a Lisp condition (class name in cls)
	zzCGoFault = 2 // Go run-time fault
	zzCOther   = 3
)

type zzRun struct {
	res   slip.Object
	class int
	cls   string
	msg   string
	hier  []slip.Symbol
	sink  *zzSink
}

func zzClassifyPanic(rec any) (int, string, string) {
	switch tr := rec.(type) {
	case *slip.Panic:
		if tr.Value != nil {
			if strings.Contains(tr.Message, "runtime error") {
				return zzCGoFault, "", tr.Message
			}
		}
		if strings.Contains(tr.Message, "runtime error:") {
			return zzCGoFault, "", tr.Message
		}
		return zzCCond, string(tr.Hierarchy()[0]), tr.Message
	case slip.Instance:
		return zzCCond, string(tr.Hierarchy()[0]), ""
	case interface{ RuntimeError() }:
		return zzCGoFault, "", tr.(error).Error()
	case error:
		return zzCOther, "", tr.Error()
	case string:
		return zzCOther, "", tr
	}
	return zzCOther, "", ""
}

// zzBudget installs an evaluation budget (the interpreter calls InterruptCheck once per
// function evaluation) so that a program that wrongly never terminates ends as a panic
// instead of hanging the check.
func zzBudget(scope *slip.Scope, n int) {
	left := n
	scope.InterruptCheck = func() {
		left--
		if left == 0 { // fires once: building the condition for this panic evaluates Lisp functions itself
			panic("zz-evaluation-budget-exhausted")
		}
	}
}

func zzEvalGuard(run *zzRun, f func() slip.Object) {
	defer func() {
		if rec := recover(); rec != nil {
			run.class, run.cls, run.msg = zzClassifyPanic(rec)
			run.res = nil
			if o, ok := rec.(slip.Object); ok && run.class == zzCCond {
				run.hier = o.Hierarchy()
			}
		}
	}()
	run.res = f()
}

// ---------------------------------------------------------------------------------------------
// comparison (every leaf comparison is its own assertion so that the solver sees small queries)

func zzAssertSame(o slip.Object, v zzVal, msg string) {
	switch v.k {
	case zzKNil:
		if l, ok := o.(slip.List); ok && len(l) == 0 {
			return
		}
		vrt.Assert(o == nil, msg+": expected nil")
	case zzKInt:
		f, ok := o.(slip.Fixnum)
		vrt.Assert(ok, msg+": expected an integer")
		vrt.Assert(int64(f) == v.n, msg+": integer differs")
	case zzKT:
		vrt.Assert(o == slip.True, msg+": expected t")
	case zzKSym:
		s, ok := o.(slip.Symbol)
		vrt.Assert(ok && zzLower(string(s)) == v.s, msg+": symbol differs")
	case zzKList:
		l, ok := o.(slip.List)
		vrt.Assert(ok && len(l) == len(v.l), msg+": expected a list of the same length")
		for i := range l {
			zzAssertSame(l[i], v.l[i], msg)
		}
	case zzKFn:
		_, ok := o.(*slip.Lambda)
		if !ok {
			_, ok = o.(*slip.FuncInfo)
		}
		vrt.Assert(ok, msg+": expected a function")
	case zzKCond:
		vrt.Assert(o != nil, msg+": expected a condition")
	}
}

func zzAssertTrace(sink *zzSink, r *zzRef) {
	n := len(sink.ks)
	if len(r.tk) < n {
		n = len(r.tk)
	}
	for i := 0; i < n; i++ {
		vrt.Assert(sink.ks[i] == r.tk[i], "trace: evaluation order differs at entry "+strconv.Itoa(i)+
			": got point "+strconv.Itoa(sink.ks[i])+" expected "+strconv.Itoa(r.tk[i]))
		zzAssertSame(sink.vs[i], r.tv[i], "trace: value at point "+strconv.Itoa(r.tk[i]))
	}
	if len(sink.ks) < len(r.tk) {
		vrt.Assert(false, "trace: form at point "+strconv.Itoa(r.tk[n])+" was not evaluated")
	}
	if len(r.tk) < len(sink.ks) {
		vrt.Assert(false, "trace: form at point "+strconv.Itoa(sink.ks[n])+" was evaluated but must not be")
	}
}

func zzAssertResult(res slip.Object, out zzOut, msg string) {
	if out.hasMV && len(out.mv) != 1 {
		vs, ok := res.(slip.Values)
		if len(out.mv) == 0 {
			vrt.Assert(res == nil || ok && len(vs) == 0, msg+": expected no values")
			return
		}
		vrt.Assert(ok && len(vs) == len(out.mv), msg+": expected "+strconv.Itoa(len(out.mv))+" values")
		for i := range vs {
			zzAssertSame(vs[i], out.mv[i], msg)
		}
		return
	}
	if vs, ok := res.(slip.Values); ok {
		vrt.Assert(false, msg+": expected one value, got "+strconv.Itoa(len(vs)))
	}
	zzAssertSame(res, out.v, msg)
}

// ---------------------------------------------------------------------------------------------
// program generator

// One row per form kind: name, result type, slot types (in evaluation order).
// Types: I integer, A any object, R same as what the context wants (result-propagating slot),
// B any object in a test position (leaf default is a comparison of symbolic integers),
// M any object in a multiple-value position (leaf default is (values La Lb)).
// The case lists in obligations.d/C01.json are generated from this table (tools in the spec note).
type zzKindRow struct {
	name  string
	res   byte
	slots string
}

var zzC01Kinds = []zzKindRow{
	{"add", 'I', "II"},         // 0  (+ a b)
	{"inc", 'I', "I"},          // 1  (1+ a)
	{"lt", 'A', "II"},          // 2  (< a b)
	{"numeq", 'A', "II"},       // 3  (= a b)
	{"list", 'A', "AA"},        // 4  (list a b)
	{"car", 'R', "RA"},         // 5  (car (list a b))
	{"progn", 'R', "AAR"},      // 6  (progn a b c)
	{"prog1", 'R', "RAA"},      // 7  (prog1 a b c)
	{"if", 'R', "BRR"},         // 8  (if c a b)
	{"if2", 'A', "BA"},         // 9  (if c a)
	{"when", 'A', "BAA"},       // 10 (when c a b)
	{"unless", 'A', "BAA"},     // 11 (unless c a b)
	{"cond", 'R', "BRBARR"},    // 12 (cond (c1 a1) (c2 a2 b2) (t d))
	{"condn", 'A', "BAB"},      // 13 (cond (c1 a1) (c2))
	{"case", 'R', "IRRR"},      // 14 (case k (1 a) ((2 3) b) (t c))
	{"casen", 'A', "IAA"},      // 15 (case k (0 a) ((1 2) b))
	{"caseo", 'R', "IRR"},      // 16 (case k (1 a) (otherwise b))
	{"and", 'A', "BBA"},        // 17 (and a b c)
	{"or", 'A', "BBA"},         // 18 (or a b c)
	{"let", 'R', "IIAR"},       // 19 (let ((x a) (y b)) s r)
	{"letx", 'R', "IIAR"},      // 20 (let* ((x a) (y b)) s r)
	{"letn", 'R', "IR"},        // 21 (let (p (q)) (setq p a) r)   r sees p q
	{"setq", 'R', "R"},         // 22 (setq v a)
	{"setq2", 'R', "IR"},       // 23 (setq x a y b)
	{"funcall", 'R', "IIAR"},   // 24 (funcall (lambda (a b) s r) A B)
	{"funcallq", 'I', "II"},    // 25 (funcall (quote +) a b)
	{"apply", 'R', "IIR"},      // 26 (apply (lambda (a b) r) A (list B))
	{"mapcar", 'A', "IIA"},     // 27 (mapcar (lambda (a) r) (list A B))
	{"lamcall", 'R', "IR"},     // 28 ((lambda (a) r) A)
	{"closure", 'I', "IIIA"},   // 29 (let ((n A)) (let ((f (lambda (a) (setq n (+ n a)) r))) (funcall f B) (funcall f C) n))
	{"closhadow", 'R', "IIIR"}, // 30 (let ((x A)) (let ((f (lambda (a) r))) (let ((x B)) (funcall f C))))
	{"defun", 'R', "IR"},       // 31 (progn (defun zzf (a) r) (zzf A))
	{"defrec", 'I', "II"},      // 32 (progn (defun zzg (a) (if (< a 1) B (+ a (zzg (+ a -1))))) (zzg N))
	{"dotimes", 'R', "IAR"},    // 33 (dotimes (i N r) s)
	{"dolist", 'R', "IIAR"},    // 34 (dolist (el (list A B) r) s)
	{"do", 'R', "IIAR"},        // 35 (do ((i 0 (1+ i)) (x A (+ x i))) ((= i N) r) s)
	{"do2", 'R', "IIAR"},       // 36 (do ((i 0 (1+ i)) (y A)) ((= i N) r) s)
	{"dox", 'R', "IIAR"},       // 37 (do* ((i 0 (1+ i)) (x A (+ x i))) ((= i N) r) s)
	{"mvb", 'R', "MAR"},        // 38 (multiple-value-bind (p q) m s r)
	{"values", 'R', "RA"},      // 39 (values a b)
	{"mvb3", 'A', "M"},         // 40 (multiple-value-bind (p q w) m (list p q w))
	{"thunk", 'R', "R"},        // 41 (funcall (lambda () r))
}

type zzGen struct {
	nlit    int
	ntr     int
	nleaf   int
	variant int
	invalid bool
}

func zzSym(s string) slip.Object { return slip.Symbol(s) }

func zzL(items ...slip.Object) slip.Object {
	return slip.List(items)
}

// lit returns a placeholder that zzInstantiate replaces by a symbolic integer.
func (g *zzGen) lit() slip.Object {
	g.nlit++
	return slip.Symbol("%" + strconv.Itoa(g.nlit-1))
}

func (g *zzGen) tr(e slip.Object) slip.Object {
	g.ntr++
	return zzL(zzSym("zzvtrace"), slip.Fixnum(g.ntr), e)
}

func (g *zzGen) leaf(want byte, ctx []string) slip.Object {
	j := g.nleaf + g.variant
	g.nleaf++
	switch want {
	case 'B':
		if j%2 == 0 {
			return zzL(zzSym("<"), g.lit(), g.lit())
		}
		return zzL(zzSym("<"), zzSym(ctx[j%len(ctx)]), g.lit())
	case 'M':
		return zzL(zzSym("values"), g.lit(), zzSym(ctx[j%len(ctx)]))
	}
	if j%3 == 0 {
		return g.lit()
	}
	return zzSym(ctx[j%len(ctx)])
}

func zzWith(ctx []string, more ...string) []string {
	n := make([]string, 0, len(ctx)+len(more))
	n = append(n, ctx...)
	return append(n, more...)
}

// node builds the form of the given kind; sp = [slot, kind, slot, kind, ...] is the rest of the
// spine: the slot of this node that holds a nested form, the kind of that form, and so on.
func (g *zzGen) node(kind int, want byte, ctx []string, sp []int) slip.Object {
	if kind < 0 || len(zzC01Kinds) <= kind {
		g.invalid = true
		return nil
	}
	row := zzC01Kinds[kind]
	if want == 'I' && row.res == 'A' {
		g.invalid = true
		return nil
	}
	if 0 < len(sp) && len(row.slots) <= sp[0] {
		g.invalid = true
		return nil
	}
	// c builds the j-th slot (call in evaluation order)
	c := func(j int, cx []string) slip.Object {
		w := row.slots[j]
		if w == 'R' {
			w = want
			if w != 'I' {
				w = 'A'
			}
		}
		if 2 <= len(sp) && sp[0] == j && 0 <= sp[1] {
			cw := w
			if cw != 'I' {
				cw = 'A'
			}
			return g.tr(g.node(sp[1], cw, cx, sp[2:]))
		}
		return g.tr(g.leaf(w, cx))
	}
	S := zzSym
	switch row.name {
	case "add":
		return zzL(S("+"), c(0, ctx), c(1, ctx))
	case "inc":
		return zzL(S("1+"), c(0, ctx))
	case "lt":
		return zzL(S("<"), c(0, ctx), c(1, ctx))
	case "numeq":
		return zzL(S("="), c(0, ctx), c(1, ctx))
	case "list":
		return zzL(S("list"), c(0, ctx), c(1, ctx))
	case "car":
		return zzL(S("car"), zzL(S("list"), c(0, ctx), c(1, ctx)))
	case "progn":
		return zzL(S("progn"), c(0, ctx), c(1, ctx), c(2, ctx))
	case "prog1":
		return zzL(S("prog1"), c(0, ctx), c(1, ctx), c(2, ctx))
	case "if":
		return zzL(S("if"), c(0, ctx), c(1, ctx), c(2, ctx))
	case "if2":
		return zzL(S("if"), c(0, ctx), c(1, ctx))
	case "when":
		return zzL(S("when"), c(0, ctx), c(1, ctx), c(2, ctx))
	case "unless":
		return zzL(S("unless"), c(0, ctx), c(1, ctx), c(2, ctx))
	case "cond":
		return zzL(S("cond"), zzL(c(0, ctx), c(1, ctx)), zzL(c(2, ctx), c(3, ctx), c(4, ctx)), zzL(slip.True, c(5, ctx)))
	case "condn":
		return zzL(S("cond"), zzL(c(0, ctx), c(1, ctx)), zzL(c(2, ctx)))
	case "case":
		return zzL(S("case"), c(0, ctx), zzL(slip.Fixnum(1), c(1, ctx)),
			zzL(zzL(slip.Fixnum(2), slip.Fixnum(3)), c(2, ctx)), zzL(slip.True, c(3, ctx)))
	case "casen":
		return zzL(S("case"), c(0, ctx), zzL(slip.Fixnum(0), c(1, ctx)), zzL(zzL(slip.Fixnum(1), slip.Fixnum(2)), c(2, ctx)))
	case "caseo":
		return zzL(S("case"), c(0, ctx), zzL(slip.Fixnum(1), c(1, ctx)), zzL(S("otherwise"), c(2, ctx)))
	case "and":
		return zzL(S("and"), c(0, ctx), c(1, ctx), c(2, ctx))
	case "or":
		return zzL(S("or"), c(0, ctx), c(1, ctx), c(2, ctx))
	case "let", "letx":
		op := "let"
		c1 := ctx
		if row.name == "letx" {
			op = "let*"
			c1 = zzWith(ctx, "x")
		}
		a := c(0, ctx)
		b := c(1, c1)
		return zzL(S(op), zzL(zzL(S("x"), a), zzL(S("y"), b)), c(2, ctx), c(3, ctx))
	case "letn":
		cx := zzWith(ctx, "p", "q")
		return zzL(S("let"), zzL(S("p"), zzL(S("q"))), zzL(S("setq"), S("p"), c(0, cx)), c(1, zzWith(ctx, "p")))
	case "setq":
		v := ctx[(g.nleaf+g.variant)%len(ctx)]
		return zzL(S("setq"), S(v), c(0, ctx))
	case "setq2":
		return zzL(S("setq"), S("x"), c(0, ctx), S("y"), c(1, ctx))
	case "funcall":
		a := c(0, ctx)
		b := c(1, ctx)
		cx := zzWith(ctx, "a", "b")
		return zzL(S("funcall"), zzL(S("lambda"), zzL(S("a"), S("b")), c(2, cx), c(3, cx)), a, b)
	case "funcallq":
		return zzL(S("funcall"), zzL(S("quote"), S("+")), c(0, ctx), c(1, ctx))
	case "apply":
		a := c(0, ctx)
		b := c(1, ctx)
		return zzL(S("apply"), zzL(S("lambda"), zzL(S("a"), S("b")), c(2, zzWith(ctx, "a", "b"))), a, zzL(S("list"), b))
	case "mapcar":
		a := c(0, ctx)
		b := c(1, ctx)
		return zzL(S("mapcar"), zzL(S("lambda"), zzL(S("a")), c(2, zzWith(ctx, "a"))), zzL(S("list"), a, b))
	case "lamcall":
		a := c(0, ctx)
		return zzL(zzL(S("lambda"), zzL(S("a")), c(1, zzWith(ctx, "a"))), a)
	case "closure":
		a := c(0, ctx)
		b := c(1, zzWith(ctx, "n"))
		cc := c(2, zzWith(ctx, "n"))
		body := c(3, zzWith(ctx, "n", "a"))
		return zzL(S("let"), zzL(zzL(S("n"), a)),
			zzL(S("let"), zzL(zzL(S("f"), zzL(S("lambda"), zzL(S("a")),
				zzL(S("setq"), S("n"), zzL(S("+"), S("n"), S("a"))), body))),
				zzL(S("funcall"), S("f"), b), zzL(S("funcall"), S("f"), cc), S("n")))
	case "closhadow":
		a := c(0, ctx)
		b := c(1, ctx)
		cc := c(2, ctx)
		body := c(3, zzWith(ctx, "a"))
		return zzL(S("let"), zzL(zzL(S("x"), a)),
			zzL(S("let"), zzL(zzL(S("f"), zzL(S("lambda"), zzL(S("a")), body))),
				zzL(S("let"), zzL(zzL(S("x"), b)), zzL(S("funcall"), S("f"), cc))))
	case "defun":
		a := c(0, ctx)
		return zzL(S("progn"), zzL(S("defun"), S("zzf"), zzL(S("a")), c(1, zzWith(ctx, "a"))), zzL(S("zzf"), a))
	case "defrec":
		n := c(0, ctx)
		b := c(1, zzWith(ctx, "a"))
		return zzL(S("progn"), zzL(S("defun"), S("zzg"), zzL(S("a")),
			zzL(S("if"), zzL(S("<"), S("a"), slip.Fixnum(1)), b,
				zzL(S("+"), S("a"), zzL(S("zzg"), zzL(S("+"), S("a"), slip.Fixnum(-1)))))), zzL(S("zzg"), n))
	case "dotimes":
		n := c(0, ctx)
		cx := zzWith(ctx, "i")
		s := c(1, cx)
		return zzL(S("dotimes"), zzL(S("i"), n, c(2, cx)), s)
	case "dolist":
		a := c(0, ctx)
		b := c(1, ctx)
		cx := zzWith(ctx, "el")
		s := c(2, cx)
		return zzL(S("dolist"), zzL(S("el"), zzL(S("list"), a, b), c(3, ctx)), s)
	case "do", "dox":
		op := "do"
		if row.name == "dox" {
			op = "do*"
		}
		a := c(0, ctx)
		cx := zzWith(ctx, "i")
		n := c(1, cx)
		s := c(2, cx)
		return zzL(S(op), zzL(zzL(S("i"), slip.Fixnum(0), zzL(S("1+"), S("i"))), zzL(S("x"), a, zzL(S("+"), S("x"), S("i")))),
			zzL(zzL(S("="), S("i"), n), c(3, cx)), s)
	case "do2":
		a := c(0, ctx)
		cx := zzWith(ctx, "i")
		n := c(1, cx)
		s := c(2, cx)
		return zzL(S("do"), zzL(zzL(S("i"), slip.Fixnum(0), zzL(S("1+"), S("i"))), zzL(S("y"), a)),
			zzL(zzL(S("="), S("i"), n), c(3, cx)), s)
	case "mvb":
		m := c(0, ctx)
		cx := zzWith(ctx, "p")
		return zzL(S("multiple-value-bind"), zzL(S("p"), S("q")), m, c(1, cx), c(2, cx))
	case "values":
		return zzL(S("values"), c(0, ctx), c(1, ctx))
	case "thunk":
		return zzL(S("funcall"), zzL(S("lambda"), nil, c(0, ctx)))
	case "mvb3":
		return zzL(S("multiple-value-bind"), zzL(S("p"), S("q"), S("w")), c(0, ctx), zzL(S("list"), S("p"), S("q"), S("w")))
	}
	g.invalid = true
	return nil
}

// zzInstantiate copies a template replacing the literal placeholders %i by lits[i].
func zzInstantiate(t slip.Object, lits []int64) slip.Object {
	switch tt := t.(type) {
	case slip.Symbol:
		if 1 < len(tt) && tt[0] == '%' {
			i, _ := strconv.Atoi(string(tt[1:]))
			return slip.Fixnum(lits[i])
		}
		return tt
	case slip.List:
		if tt == nil {
			return nil
		}
		n := make(slip.List, len(tt))
		for i := range tt {
			n[i] = zzInstantiate(tt[i], lits)
		}
		return n
	}
	return t
}

// zzShow prints a template (concrete) for the witness log.
func zzShow(b []byte, t slip.Object) []byte {
	if t == slip.True {
		return append(b, 't')
	}
	switch tt := t.(type) {
	case nil:
		return append(b, "nil"...)
	case slip.Symbol:
		return append(b, string(tt)...)
	case slip.Fixnum:
		return strconv.AppendInt(b, int64(tt), 10)
	case slip.String:
		b = append(b, '"')
		b = append(b, string(tt)...)
		return append(b, '"')
	case slip.List:
		if 3 == len(tt) && tt[0] == slip.Symbol("zzvtrace") {
			b = append(b, '{')
			b = strconv.AppendInt(b, int64(tt[1].(slip.Fixnum)), 10)
			b = append(b, ' ')
			b = zzShow(b, tt[2])
			return append(b, '}')
		}
		b = append(b, '(')
		for i := range tt {
			if 0 < i {
				b = append(b, ' ')
			}
			b = zzShow(b, tt[i])
		}
		return append(b, ')')
	}
	return append(b, '?')
}

// Literals range over all 32-bit values (as 64-bit fixnums): the few additions a program performs
// then stay inside the fixnum range, so the reference evaluator's int64 arithmetic is exact
// (what happens at the fixnum boundary is C05's question).
func zzLits(n int) []int64 {
	lits := make([]int64, n)
	for i := range lits {
		lits[i] = int64(vrt.Int32("L" + strconv.Itoa(i)))
	}
	return lits
}

// zzCompareProgram runs the reference evaluator and the interpreter on two instances of the
// template in environments where x and y are bound, and asserts equal observable behaviour.
// carve: list of (flag, finding id) pairs applied before the assertions.
type zzCarve struct {
	flag int
	id   string
}

var zzC01Carves = []zzCarve{
	{zzHDynLeak, "C01-dynamic-scope-leak"},
	{zzHCondNoBody, "C01-cond-clause-without-body"},
	{zzHMVTest, "C01-test-sees-values-object"},
	{zzHMVLost, "C01-progn-drops-values"},
	{zzHDoNoStep, "C01-do-var-without-step-reset"},
	{zzHMVLeak, "C01-values-object-leaks"},
	{zzHDotimesNeg, "C01-dotimes-negative-count"},
	{zzHFuncall0, "C01-funcall-no-args"},
}

func zzCompareProgram(tmpl slip.Object, nlit int, carves []zzCarve) {
	lits := zzLits(nlit)
	x0 := int64(vrt.Int32("x"))
	y0 := int64(vrt.Int32("y"))
	vrt.Note("program", string(zzShow(nil, tmpl)))

	// reference run first: its Assumes bound the loops before the interpreter runs
	ref := zzNewRef()
	top := &zzFrame{up: nil, names: []string{"x", "y"}, cells: []*zzCell{{v: zzInt(x0)}, {v: zzInt(y0)}}}
	want := ref.eval(zzInstantiate(tmpl, lits), top)

	// carve-outs are decided by the reference run alone, so they can cut the path before the
	// interpreter runs (inside a region the interpreter may take error paths that print
	// symbolic integers digit by digit)
	for _, cv := range carves {
		vrt.Carve(cv.id, ref.hit[cv.flag])
	}
	zzDefineTrace()
	scope := slip.NewScope()
	scope.Let(slip.Symbol("x"), slip.Fixnum(x0))
	scope.Let(slip.Symbol("y"), slip.Fixnum(y0))
	zzBudget(scope, 400)
	run := &zzRun{sink: &zzSink{}}
	zzSinkCur = run.sink
	form := zzInstantiate(tmpl, lits)
	zzEvalGuard(run, func() slip.Object { return scope.Eval(form, 0) })
	zzSinkCur = nil

	vrt.Reach("compared")
	vrt.Assert(run.class != zzCGoFault, "Go run-time fault in the interpreter")
	if want.ex != nil {
		vrt.Assert(want.ex.kind == zzXError, "reference: exit escaped the program")
		vrt.Assert(run.class == zzCCond, "expected an error of class "+want.ex.class)
		zzAssertTrace(run.sink, ref)
		return
	}
	vrt.Assert(run.class == zzCNone, "unexpected condition "+run.cls)
	zzAssertTrace(run.sink, ref)
	zzAssertResult(run.res, want, "result")
	zzAssertSame(scope.Get(slip.Symbol("x")), top.cells[0].v, "final value of x")
	zzAssertSame(scope.Get(slip.Symbol("y")), top.cells[1].v, "final value of y")
	vrt.Reach("agreed")
}

// VerifC01Core: one program skeleton per case.  k0 = kind of the outermost form; s0/k1 = slot of
// it holding a nested form of kind k1 (k1 < 0: all slots are leaves); s1/k2 likewise one level
// deeper; variant rotates the choice of leaves (literal / which variable).
func VerifC01Core(k0, s0, k1, s1, k2, variant int) {
	g := &zzGen{variant: variant}
	tmpl := g.tr(g.node(k0, 'A', []string{"x", "y"}, []int{s0, k1, s1, k2}))
	vrt.Assert(!g.invalid, "case list names an ill-typed skeleton")
	zzCompareProgram(tmpl, g.nlit, zzC01Carves)
}

// zzStubObjectString replaces slip.ObjectString in the engine (spec "overrides"): the text of
// error messages and stack lines is not observed by C01/C07/C08 (only the condition class is),
// and printing symbolic integers digit by digit forks the path once per digit count.
func zzStubObjectString(obj slip.Object) string {
	return "#"
}
