package cl

import (
	"math/big"

	"github.com/ohler55/slip"
	vrt "github.com/ohler55/slip/zzvrt"
)

// ---------------------------------------------------------------------------
// C15: format renders every directive as documented.
//
// Shared helpers.  The control processor of pkg/cl/control.go is driven
// directly (so that the argument cursor can be observed) or through the real
// format function (destination obligations).  Every oracle below is written
// from CLHS 22.3 / the format documentation string, index based, and shares
// no code or tables with control.go.
// ---------------------------------------------------------------------------

type zzC15Out struct {
	text  []byte
	pos   int    // argument cursor after processing
	class int    // 0 returned, 1 Lisp condition, 3 Go run-time fault, 4 other panic
	fault string // message of a Go run-time fault
}

func zzC15Classify(rec any) (int, string) {
	switch tr := rec.(type) {
	case *slip.Panic:
		return 1, ""
	case slip.Instance:
		return 1, ""
	case interface{ RuntimeError() }:
		return 3, tr.(error).Error()
	default:
		return 4, ""
	}
}

// zzC15Process runs the control string over the arguments with the real
// control processor and reports text, cursor and how it ended.
func zzC15Process(scope *slip.Scope, ctrl []byte, args slip.List) (o zzC15Out) {
	defer func() {
		if rec := recover(); rec != nil {
			o.class, o.fault = zzC15Classify(rec)
			o.text = nil
		}
	}()
	c := control{scope: scope, str: ctrl, end: len(ctrl), args: args}
	c.process()
	o.text = c.out
	o.pos = c.argPos
	return
}

// zzC15Same: equal length and equal bytes, without branching on the bytes.
func zzC15Same(a, b []byte) bool {
	if len(a) != len(b) {
		return false
	}
	var diff byte
	for i := 0; i < len(a); i++ {
		diff |= a[i] ^ b[i]
	}
	return diff == 0
}

// zzC15Small makes a symbolic integer in lo..hi concrete by case split (one
// path per value): needed where slip converts the value through float64
// (Integer.RealValue), which the engine keeps concrete.
func zzC15Small(name string, lo, hi int) int {
	v := vrt.Int(name)
	vrt.Assume(lo <= v && v <= hi)
	for k := lo; k < hi; k++ {
		if v == k {
			return k
		}
	}
	return hi
}

// zzC15Printable: a symbolic printable ASCII byte.
func zzC15Printable(name string) byte {
	b := vrt.Byte(name)
	vrt.Assume(0x20 <= b && b <= 0x7e)
	return b
}

// zzC15DirChars marks (x) the bytes that the format documentation lists as
// directive or modifier characters, the comma and newline (generated from that
// list; ~; is a separator inside ~[ and ~<, not a directive of its own).  A quoted character parameter 'c with c in this set is where
// slip's readParam stops early.
const zzC15DirChars = "" +
	"..........x....................." +
	"....xxx.xxx.x..x..........x.xxxx" +
	"xxxxxxxx.x.....xx.xxx..xx..x.xx." +
	".xxxxxxx.x.....xx.xxx..xx..xxxx."

// zzC15DirCharBit: 1 when b (< 128) is marked, else 0; no branch on b.
func zzC15DirCharBit(b byte) byte {
	return (zzC15DirChars[b&0x7f] ^ '.') >> 6 // 'x'^'.' = 0x56 -> 1, '.'^'.' = 0 -> 0
}

// zzC15AppendNum appends the decimal text of a small non-negative integer
// (0..99) that may be symbolic: the digit count is case split, the digit
// bytes stay symbolic.
func zzC15AppendNum(b []byte, m int) []byte {
	if 10 <= m {
		return append(b, byte('0'+m/10), byte('0'+m%10))
	}
	return append(b, byte('0'+m))
}

// ---------------------------------------------------------------------------
// (i) integer directives ~D ~B ~O ~X
// ---------------------------------------------------------------------------

const zzC15Digits = "0123456789abcdefghijklmnopqrstuvwxyz"

// zzC15RefInt is CLHS 22.3.2.2: digits of |x| in the base, most significant
// first (ds, values 0..base-1), a sign ('-' when negative, '+' when @ and not
// negative), with : the comma character between groups of interval digits
// counted from the right (never next to the sign), left padded with padchar to
// mincol columns.
func zzC15RefInt(ds []byte, neg bool, mincol int, pad, comma byte, interval int, colon, at bool) []byte {
	nd := len(ds)
	ncomma := 0
	if colon {
		ncomma = (nd - 1) / interval
	}
	nsign := 0
	if neg || at {
		nsign = 1
	}
	width := nsign + nd + ncomma
	npad := 0
	if width < mincol {
		npad = mincol - width
	}
	out := make([]byte, npad+width)
	for i := 0; i < npad; i++ {
		out[i] = pad
	}
	k := npad
	if neg {
		out[k] = '-'
		k++
	} else if at {
		out[k] = '+'
		k++
	}
	for i := 0; i < nd; i++ {
		left := nd - i // digits from here to the end, this one included
		out[k] = zzC15Digits[ds[i]]
		k++
		if colon && 1 < left && (left-1)%interval == 0 {
			out[k] = comma
			k++
		}
	}
	return out
}

// zzC15IntParams assembles "~<params><mods><dirch>" and the v arguments.
// pm packs how each of the four parameters is supplied:
//
//	mincol    pm%4      0 omitted, 1 literal, 2 v, 3 #
//	padchar   pm/4%3    0 omitted, 1 literal 'c, 2 v
//	commachar pm/12%3   0 omitted, 1 literal 'c, 2 v
//	commaint  pm/36%3   0 omitted, 1 literal, 2 v
//
// mods: bit0 colon, bit1 at, 4 = "@:" order.  extra = arguments after the
// integer (seen by #).  Returns the control bytes, the arguments before the
// integer, and the effective parameter values.
type zzC15IntSpec struct {
	ctrl      []byte
	pre       slip.List
	mincol    int
	pad       byte
	comma     byte
	interval  int
	colon     bool
	at        bool
	litPad    bool
	litComma  bool
	commaSeen bool
}

func zzC15IntControl(dirch byte, mods, pm, extra int, lead []byte) zzC15IntSpec {
	var s zzC15IntSpec
	m0, m1, m2, m3 := pm%4, pm/4%3, pm/12%3, pm/36%4
	s.pad, s.comma, s.interval = ' ', ',', 3
	s.ctrl = append(s.ctrl, lead...)
	s.ctrl = append(s.ctrl, '~')
	last := 0
	if m0 != 0 {
		last = 1
	}
	if m1 != 0 {
		last = 2
	}
	if m2 != 0 {
		last = 3
	}
	if m3 != 0 {
		last = 4
	}
	nv := 0
	if m0 == 2 {
		nv++
	}
	if m1 == 2 {
		nv++
	}
	if m2 == 2 {
		nv++
	}
	if m3 == 2 {
		nv++
	}
	// mincol
	switch m0 {
	case 1:
		s.mincol = vrt.Int("mincol")
		vrt.Assume(0 <= s.mincol && s.mincol <= 12)
		s.ctrl = zzC15AppendNum(s.ctrl, s.mincol)
	case 2:
		s.mincol = zzC15Small("mincol", 0, 12)
		s.ctrl = append(s.ctrl, 'v')
		s.pre = append(s.pre, slip.Fixnum(s.mincol))
	case 3:
		s.ctrl = append(s.ctrl, '#')
		s.mincol = nv + 1 + extra
	}
	if 1 < last {
		s.ctrl = append(s.ctrl, ',')
	}
	switch m1 {
	case 1:
		s.pad = zzC15Printable("padchar")
		s.litPad = true
		s.ctrl = append(s.ctrl, '\'', s.pad)
	case 2:
		s.pad = zzC15Printable("padchar")
		s.ctrl = append(s.ctrl, 'v')
		s.pre = append(s.pre, slip.Character(rune(s.pad)))
	}
	if 2 < last {
		s.ctrl = append(s.ctrl, ',')
	}
	switch m2 {
	case 1:
		s.comma = zzC15Printable("commachar")
		s.litComma = true
		s.ctrl = append(s.ctrl, '\'', s.comma)
	case 2:
		s.comma = zzC15Printable("commachar")
		s.ctrl = append(s.ctrl, 'v')
		s.pre = append(s.pre, slip.Character(rune(s.comma)))
	}
	if 3 < last {
		s.ctrl = append(s.ctrl, ',')
	}
	switch m3 {
	case 1:
		// case split: slip divides by commaint (symbolic / symbolic 64-bit
		// division is slow for the solver, and slip's slicing enumerates it anyway)
		s.interval = zzC15Small("commaint", 1, 12)
		s.ctrl = zzC15AppendNum(s.ctrl, s.interval)
	case 2:
		s.interval = zzC15Small("commaint", 1, 12)
		s.ctrl = append(s.ctrl, 'v')
		s.pre = append(s.pre, slip.Fixnum(s.interval))
	case 3:
		// # after the v parameters: they have taken their arguments, the
		// integer and the extra ones remain
		s.ctrl = append(s.ctrl, '#')
		s.interval = 1 + extra
	}
	switch mods {
	case 1:
		s.ctrl = append(s.ctrl, ':')
		s.colon = true
	case 2:
		s.ctrl = append(s.ctrl, '@')
		s.at = true
	case 3:
		s.ctrl = append(s.ctrl, ':', '@')
		s.colon, s.at = true, true
	case 4:
		s.ctrl = append(s.ctrl, '@', ':')
		s.colon, s.at = true, true
	}
	s.ctrl = append(s.ctrl, dirch)
	return s
}

// zzC15Numeral: a symbolic magnitude with exactly nd digits in the base
// (nd == 1 includes zero) and its digits, most significant first, computed by
// the oracle's own positional division.
func zzC15Numeral(nd, base int) ([]byte, int64) {
	m := vrt.Int64("mag")
	lo, hi := int64(0), int64(base)
	for i := 1; i < nd; i++ {
		lo = hi
		hi *= int64(base)
	}
	vrt.Assume(lo <= m && m < hi)
	ds := make([]byte, nd)
	p := int64(1)
	for i := nd - 1; 0 <= i; i-- {
		ds[i] = byte((m / p) % int64(base))
		p *= int64(base)
	}
	return ds, m
}

// VerifC15Int: dir 0..7 = D B O X d b o x; mods 0..4; pm parameter supply
// (see zzC15IntControl); nd digits in the directive's base; extra trailing
// arguments 0..2.
func VerifC15Int(dir, mods, pm, nd, extra int) {
	bases := [4]int{10, 2, 8, 16}
	base := bases[dir%4]
	dirch := "DBOXdbox"[dir]
	s := zzC15IntControl(dirch, mods, pm, extra, nil)
	ds, x := zzC15Numeral(nd, base)
	neg := vrt.Bool("neg")
	if neg {
		vrt.Assume(x != 0)
		x = -x
	}
	args := append(slip.List{}, s.pre...)
	args = append(args, slip.Fixnum(x))
	for i := 0; i < extra; i++ {
		args = append(args, slip.Fixnum(int64(70+i)))
	}
	var bad byte
	if s.litPad {
		bad |= zzC15DirCharBit(s.pad)
	}
	if s.litComma {
		bad |= zzC15DirCharBit(s.comma)
	}
	vrt.Carve("C15-quoted-dirchar-param", bad != 0)
	got := zzC15Process(slip.NewScope(), s.ctrl, args)
	want := zzC15RefInt(ds, neg, s.mincol, s.pad, s.comma, s.interval, s.colon, s.at)
	vrt.Reach("compared")
	vrt.Assert(got.class != 3, "Go run-time fault in an integer directive")
	vrt.Assert(got.class == 0, "integer directive signalled a condition for legal parameters")
	vrt.Assert(got.pos == len(s.pre)+1, "integer directive: arguments consumed")
	vrt.Assert(zzC15Same(got.text, want), "integer directive text")
}

// ---------------------------------------------------------------------------
// (ii) ~R: English cardinal / ordinal, Roman / old Roman
// ---------------------------------------------------------------------------

var zzC15One = [...]string{"", "one", "two", "three", "four", "five", "six", "seven", "eight", "nine"}
var zzC15Teen = [...]string{"ten", "eleven", "twelve", "thirteen", "fourteen", "fifteen", "sixteen", "seventeen", "eighteen", "nineteen"}
var zzC15Ten = [...]string{"", "", "twenty", "thirty", "forty", "fifty", "sixty", "seventy", "eighty", "ninety"}
var zzC15OneTh = [...]string{"", "first", "second", "third", "fourth", "fifth", "sixth", "seventh", "eighth", "ninth"}
var zzC15TeenTh = [...]string{"tenth", "eleventh", "twelfth", "thirteenth", "fourteenth", "fifteenth", "sixteenth", "seventeenth", "eighteenth", "nineteenth"}
var zzC15TenTh = [...]string{"", "", "twentieth", "thirtieth", "fortieth", "fiftieth", "sixtieth", "seventieth", "eightieth", "ninetieth"}
var zzC15Illion = [...]string{"", "thousand", "million", "billion", "trillion", "quadrillion", "quintillion", "sextillion",
	"septillion", "octillion", "nonillion", "decillion", "undecillion", "duodecillion", "tredecillion", "quattuordecillion",
	"quindecillion", "sexdecillion", "septendecillion", "octodecillion", "novemdecillion", "vigintillion"}

// zzC15RefEnglish: digits ds (most significant first, values 0..9, not all
// zero unless a single 0). Words separated by one space, tens-ones joined by '-'.
func zzC15RefEnglish(ds []byte, ordinal bool) []byte {
	n := len(ds)
	allZero := true
	for i := 0; i < n; i++ {
		if ds[i] != 0 {
			allZero = false
		}
	}
	if allZero {
		if ordinal {
			return []byte("zeroth")
		}
		return []byte("zero")
	}
	// index of the last non-zero digit: the ordinal ending goes on the word it produces
	last := 0
	for i := 0; i < n; i++ {
		if ds[i] != 0 {
			last = i
		}
	}
	var out []byte
	word := func(w string) {
		if 0 < len(out) {
			out = append(out, ' ')
		}
		out = append(out, w...)
	}
	ntrip := (n + 2) / 3
	for t := 0; t < ntrip; t++ {
		k := ntrip - 1 - t // power of 1000 of this triple
		// positions of the hundreds, tens, ones digits of this triple in ds
		io := n - 1 - 3*k
		it, ih := io-1, io-2
		var h, te, o byte
		o = ds[io]
		if 0 <= it {
			te = ds[it]
		}
		if 0 <= ih {
			h = ds[ih]
		}
		if h == 0 && te == 0 && o == 0 {
			continue
		}
		final := ordinal && k == 0 // the ordinal ending can only be inside the last triple, or after an illion word
		if h != 0 {
			word(zzC15One[h])
			if final && te == 0 && o == 0 {
				word("hundredth")
			} else {
				word("hundred")
			}
		}
		switch {
		case te == 0 && o == 0:
		case te == 0:
			if final {
				word(zzC15OneTh[o])
			} else {
				word(zzC15One[o])
			}
		case te == 1:
			if final {
				word(zzC15TeenTh[o])
			} else {
				word(zzC15Teen[o])
			}
		case o == 0:
			if final {
				word(zzC15TenTh[te])
			} else {
				word(zzC15Ten[te])
			}
		default:
			word(zzC15Ten[te])
			out = append(out, '-')
			if final {
				out = append(out, zzC15OneTh[o]...)
			} else {
				out = append(out, zzC15One[o]...)
			}
		}
		if 0 < k {
			if ordinal && last <= io && true && zzC15LowZero(ds, io) {
				word(zzC15Illion[k] + "th")
			} else {
				word(zzC15Illion[k])
			}
		}
	}
	return out
}

// zzC15LowZero: every digit after position i is zero.
func zzC15LowZero(ds []byte, i int) bool {
	for j := i + 1; j < len(ds); j++ {
		if ds[j] != 0 {
			return false
		}
	}
	return true
}

// zzC15RefRoman: 1..3999; old = additive (IIII), else subtractive (IV).
func zzC15RefRoman(n int, old bool) []byte {
	vals := [...]int{1000, 900, 500, 400, 100, 90, 50, 40, 10, 9, 5, 4, 1}
	syms := [...]string{"M", "CM", "D", "CD", "C", "XC", "L", "XL", "X", "IX", "V", "IV", "I"}
	var out []byte
	for i := 0; i < len(vals); i++ {
		if old && len(syms[i]) == 2 {
			continue
		}
		for vals[i] <= n {
			out = append(out, syms[i]...)
			n -= vals[i]
		}
	}
	return out
}

// zzC15SameWords: equal texts where '-' and ' ' are the same separator (the
// property asks for the spelling, CLHS does not fix hyphenation).
func zzC15SameWords(a, b []byte) bool {
	if len(a) != len(b) {
		return false
	}
	var diff byte
	for i := 0; i < len(a); i++ {
		x, y := a[i], b[i]
		if x == '-' {
			x = ' '
		}
		if y == '-' {
			y = ' '
		}
		diff |= x ^ y
	}
	return diff == 0
}

// zzC15ChoiceDigits: ns decimal digits, each a 10-way engine fork (slip
// indexes its word tables with the digit, which makes the engine enumerate
// the digit anyway: forking here keeps the feasibility queries trivial).
func zzC15ChoiceDigits(ns int) []byte {
	ds := make([]byte, ns)
	names := [...]string{"d0", "d1", "d2", "d3", "d4", "d5", "d6", "d7"}
	for i := 0; i < ns; i++ {
		ds[i] = byte(vrt.Choice(names[i], 10))
	}
	return ds
}

// VerifC15English: ~R (ord == 0) and ~:R (ord == 1) of the integer whose
// decimal digits are those of fix (concrete, 0 = none) followed by ns digits
// that range over 0..9 each; neg != 0 negates it.
func VerifC15English(ord, neg, fix, ns int) {
	var cd []byte
	for f := fix; 0 < f; f /= 10 {
		cd = append([]byte{byte(f % 10)}, cd...)
	}
	cd = append(cd, zzC15ChoiceDigits(ns)...)
	// strip leading zeros (keep one digit)
	for 1 < len(cd) && cd[0] == 0 {
		cd = cd[1:]
	}
	nd := len(cd)
	var m int64
	for i := 0; i < nd; i++ {
		m = m*10 + int64(cd[i])
	}
	x := m
	if neg != 0 {
		vrt.Assume(m != 0)
		x = -m
	}
	ctrl := []byte("~R")
	if ord != 0 {
		ctrl = []byte("~:R")
	}
	// known findings, as predicates over the digits
	zeroTriple, roundTens := false, false
	for io := nd - 1; 0 <= io; io -= 3 {
		var te, h byte
		if 0 <= io-1 {
			te = cd[io-1]
		}
		if 0 <= io-2 {
			h = cd[io-2]
		}
		if cd[io] == 0 && te == 0 && h == 0 && 0 <= io-3 {
			zeroTriple = true
		}
		if cd[io] == 0 && 2 <= te {
			roundTens = true
		}
	}
	lowTe := byte(0)
	if 2 <= nd {
		lowTe = cd[nd-2]
	}
	ordRound := ord != 0 && cd[nd-1] == 0 && lowTe != 1 && 1 < nd
	vrt.Carve("C15-R-zero-triple", zeroTriple)
	vrt.Carve("C15-R-round-numbers", (roundTens || ordRound) && !zeroTriple)
	got := zzC15Process(slip.NewScope(), ctrl, slip.List{slip.Fixnum(x), slip.Fixnum(7)})
	want := zzC15RefEnglish(cd, ord != 0)
	vrt.Reach("compared")
	vrt.Assert(got.class != 3, "~R: Go run-time fault instead of text")
	vrt.Assert(got.class == 0, "~R signalled a condition for an integer argument")
	vrt.Assert(got.pos == 1, "~R: arguments consumed")
	text := got.text
	if neg != 0 {
		// the word for the sign is not fixed by CLHS: accept "negative " or "minus "
		switch {
		case 9 < len(text) && string(text[:9]) == "negative ":
			text = text[9:]
		case 6 < len(text) && string(text[:6]) == "minus ":
			text = text[6:]
		default:
			vrt.Assert(false, "~R of a negative integer does not start with a sign word")
		}
	}
	vrt.Assert(zzC15SameWords(text, want), "~R English text")
}

// VerifC15EnglishBig: ~R / ~:R of a bignum: the digit hd (1..9), then nz zeros,
// then ns digits over 0..9 each (nz+ns+1 digits in all, up to 66: the
// documented names go up to vigintillion = 10^63); more than 66 digits must
// be a Lisp condition, not a fault.
func VerifC15EnglishBig(ord, neg, hd, nz, ns int) {
	cd := []byte{byte(hd)}
	for i := 0; i < nz; i++ {
		cd = append(cd, 0)
	}
	cd = append(cd, zzC15ChoiceDigits(ns)...)
	nd := len(cd)
	v := new(big.Int)
	for i := 0; i < nd; i++ {
		v.Mul(v, big.NewInt(10))
		v.Add(v, big.NewInt(int64(cd[i])))
	}
	if neg != 0 {
		v.Neg(v)
	}
	ctrl := []byte("~R")
	if ord != 0 {
		ctrl = []byte("~:R")
	}
	var arg slip.Object = (*slip.Bignum)(v)
	if v.IsInt64() {
		arg = slip.Fixnum(v.Int64())
	}
	got := zzC15Process(slip.NewScope(), ctrl, slip.List{arg, slip.Fixnum(7)})
	vrt.Reach("compared")
	vrt.Assert(got.class != 3, "~R: Go run-time fault instead of text")
	if 66 < nd {
		vrt.Assert(got.class != 0, "~R of a number beyond the named powers of a thousand returned text")
		return
	}
	want := zzC15RefEnglish(cd, ord != 0)
	vrt.Assert(got.class == 0, "~R signalled a condition for an integer it has names for")
	vrt.Assert(got.pos == 1, "~R: arguments consumed")
	text := got.text
	if neg != 0 {
		switch {
		case 9 < len(text) && string(text[:9]) == "negative ":
			text = text[9:]
		case 6 < len(text) && string(text[:6]) == "minus ":
			text = text[6:]
		default:
			vrt.Assert(false, "~R of a negative integer does not start with a sign word")
		}
	}
	vrt.Assert(zzC15SameWords(text, want), "~R English text of a bignum")
}

// VerifC15Roman: ~@R (old == 0) and ~:@R (old == 1) of every integer with at
// most ns digits in 1..3999.
func VerifC15Roman(old, ns int) {
	cd := zzC15ChoiceDigits(ns)
	n := 0
	for i := 0; i < ns; i++ {
		n = n*10 + int(cd[i])
	}
	vrt.Assume(1 <= n && n <= 3999)
	ctrl := []byte("~@R")
	if old != 0 {
		ctrl = []byte("~:@R")
	}
	got := zzC15Process(slip.NewScope(), ctrl, slip.List{slip.Fixnum(n), slip.Fixnum(7)})
	want := zzC15RefRoman(n, old != 0)
	vrt.Reach("compared")
	vrt.Assert(got.class != 3, "~@R: Go run-time fault")
	vrt.Assert(got.class == 0, "~@R signalled a condition for 1..3999")
	vrt.Assert(got.pos == 1, "~@R: arguments consumed")
	vrt.Assert(zzC15Same(got.text, want), "~@R Roman text")
}
