package cl

// C14 (continued): functions of two sequences with :start1 :end1 :start2 :end2
// (search, mismatch, replace).

import (
	"github.com/ohler55/slip"
	vrt "github.com/ohler55/slip/zzvrt"
)

// zzC14Two is a symbolic call with two sequences of the same kind.
type zzC14Two struct {
	kind, m, n int
	a, b       []int64
	keyMode    int
	tstMode    int
	hasS1      bool
	s1         int64
	e1Mode     int // 0 absent, 1 nil, 2 fixnum
	e1         int64
	hasS2      bool
	s2         int64
	e2Mode     int
	e2         int64
	feMode     int // 0 absent, 1 nil, 2 t
}

// presence shapes of the four bounds: {hasS1, e1Mode, hasS2, e2Mode}
var zzC14Shapes = [...][4]int{
	{0, 0, 0, 0},
	{1, 0, 0, 0},
	{0, 2, 0, 0},
	{0, 0, 1, 0},
	{0, 0, 0, 2},
	{1, 2, 0, 0},
	{0, 0, 1, 2},
	{1, 2, 1, 2},
	{1, 1, 1, 1},
}

func zzC14Bound(name string, limit int) int64 {
	v := vrt.Int64(name)
	vrt.Assume(-1 <= v && v <= int64(limit)+1)
	return v
}

func zzC14NewTwo(kind, m, n, keyMode, tstMode int, withFromEnd bool) *zzC14Two {
	c := &zzC14Two{kind: kind, m: m, n: n, keyMode: keyMode, tstMode: tstMode}
	c.a = make([]int64, m)
	c.b = make([]int64, n)
	for i := 0; i < m; i++ {
		if kind == zzC14String {
			x := vrt.Byte("ca" + string(rune('0'+i)))
			vrt.Assume(x < 128)
			c.a[i] = int64(x)
		} else {
			c.a[i] = vrt.Int64("a" + string(rune('0'+i)))
		}
	}
	for i := 0; i < n; i++ {
		if kind == zzC14String {
			x := vrt.Byte("cb" + string(rune('0'+i)))
			vrt.Assume(x < 128)
			c.b[i] = int64(x)
		} else {
			c.b[i] = vrt.Int64("b" + string(rune('0'+i)))
		}
	}
	shape := zzC14Shapes[vrt.Choice("shape", len(zzC14Shapes))]
	c.hasS1, c.e1Mode, c.hasS2, c.e2Mode = shape[0] != 0, shape[1], shape[2] != 0, shape[3]
	if c.hasS1 {
		c.s1 = zzC14Bound("start1", m)
	}
	if c.e1Mode == 2 {
		c.e1 = zzC14Bound("end1", m)
	}
	if c.hasS2 {
		c.s2 = zzC14Bound("start2", n)
	}
	if c.e2Mode == 2 {
		c.e2 = zzC14Bound("end2", n)
	}
	if withFromEnd {
		c.feMode = vrt.Choice("feMode", 3)
		// explicit :from-end nil only together with absent bounds
		vrt.Assume(!(c.feMode == 1 && (c.hasS1 || c.e1Mode != 0 || c.hasS2 || c.e2Mode != 0)))
	}
	return c
}

func (c *zzC14Two) keywords() slip.List {
	var kw slip.List
	if c.hasS1 {
		kw = append(kw, slip.Symbol(":start1"), slip.Fixnum(c.s1))
	}
	switch c.e1Mode {
	case 1:
		kw = append(kw, slip.Symbol(":end1"), nil)
	case 2:
		kw = append(kw, slip.Symbol(":end1"), slip.Fixnum(c.e1))
	}
	if c.hasS2 {
		kw = append(kw, slip.Symbol(":start2"), slip.Fixnum(c.s2))
	}
	switch c.e2Mode {
	case 1:
		kw = append(kw, slip.Symbol(":end2"), nil)
	case 2:
		kw = append(kw, slip.Symbol(":end2"), slip.Fixnum(c.e2))
	}
	switch c.feMode {
	case 1:
		kw = append(kw, slip.Symbol(":from-end"), nil)
	case 2:
		kw = append(kw, slip.Symbol(":from-end"), slip.True)
	}
	return append(kw, zzC14KeyTestArgs(c.keyMode, c.tstMode)...)
}

func zzC14Class(hasS bool, s int64, eMode int, e int64, n int) (int64, int64, int) {
	ee := int64(n)
	var ss int64
	if hasS {
		ss = s
	}
	if eMode == 2 {
		ee = e
	}
	cls := zzC14BValid
	switch {
	case ss < 0:
		cls = zzC14BNegS
	case ee < 0:
		cls = zzC14BNegE
	case int64(n) < ee:
		cls = zzC14BEndBig
	case ee < ss:
		cls = zzC14BStartGt
	}
	return ss, ee, cls
}

// match: test(key(a_i), key(b_j)).
func (c *zzC14Two) match(i, j int64) bool {
	ka, cha := zzC14Key(c.kind, c.keyMode, c.a[i])
	kb, chb := zzC14Key(c.kind, c.keyMode, c.b[j])
	return zzC14Test2(c.tstMode, ka, cha, kb, chb)
}

func zzC14IsIndex(obj slip.Object, want int64) bool {
	f, ok := obj.(slip.Fixnum)
	return ok && int64(f) == want
}

// VerifC14Search: (search seq1 seq2 :start1 :end1 :start2 :end2 :from-end :key :test).
func VerifC14Search(kind, m, n, keyMode, tstMode int) {
	c := zzC14NewTwo(kind, m, n, keyMode, tstMode, true)
	s1, e1, cls1 := zzC14Class(c.hasS1, c.s1, c.e1Mode, c.e1, m)
	s2, e2, cls2 := zzC14Class(c.hasS2, c.s2, c.e2Mode, c.e2, n)
	cls := cls1
	if cls == zzC14BValid {
		cls = cls2
	}
	ln := e1 - s1
	// reference (CLHS search): leftmost (from-end: rightmost) j in
	// [s2, e2-ln] with test(key(a[s1+i]), key(b[j+i])) for all i < ln
	want := int64(-1)
	if cls == zzC14BValid {
		for j := s2; j+ln <= e2; j++ {
			all := true
			for i := int64(0); i < ln; i++ {
				if !c.match(s1+i, j+i) {
					all = false
				}
			}
			if all && (want < 0 || c.feMode == 2) {
				want = j
			}
		}
	}
	// known findings
	// (a) an empty pattern: the index is relative to the :start2 slice;
	// (b) :from-end never tries the match that begins at :start2
	vrt.Carve("C14-search-wrong-index", cls == zzC14BValid &&
		((ln == 0 && 0 < s2) || (c.feMode == 2 && 0 < ln && want == s2)))
	scope := slip.NewScope()
	form := slip.List{slip.Symbol("search"), zzC14Quote(zzC14Seq(kind, c.a)), zzC14Quote(zzC14Seq(kind, c.b))}
	form = append(form, c.keywords()...)
	out := zzC14Eval(scope, form)
	if !zzC14Check("search", out, cls) {
		return
	}
	if want < 0 {
		vrt.Assert(out.val == nil, "search: no match exists but a value was returned")
	} else {
		vrt.Assert(zzC14IsIndex(out.val, want), "search: wrong index")
	}
}

// zzC14MismatchStartBad: the region of C14-valid-args-rejected for
// one of the two sequences.
func zzC14MismatchStartBad(n int, s int64, eMode int) bool {
	return (0 < n && s == int64(n)) || (n == 0 && eMode == 2)
}

// VerifC14Mismatch: (mismatch seq1 seq2 ...).
func VerifC14Mismatch(kind, m, n, keyMode, tstMode int) {
	c := zzC14NewTwo(kind, m, n, keyMode, tstMode, true)
	s1, e1, cls1 := zzC14Class(c.hasS1, c.s1, c.e1Mode, c.e1, m)
	s2, e2, cls2 := zzC14Class(c.hasS2, c.s2, c.e2Mode, c.e2, n)
	cls := cls1
	if cls == zzC14BValid {
		cls = cls2
	}
	// reference (CLHS mismatch)
	want := int64(-1)
	diffAt := int64(0) // from-end: distance from the right end of the first difference
	if cls == zzC14BValid {
		l1, l2 := e1-s1, e2-s2
		lmin := l1
		if l2 < lmin {
			lmin = l2
		}
		if c.feMode == 2 {
			for i := int64(1); i <= lmin; i++ {
				if want < 0 && !c.match(e1-i, e2-i) {
					want = e1 - i + 1
					diffAt = i
				}
			}
			if want < 0 && l1 != l2 {
				want = e1 - lmin
			}
		} else {
			for i := int64(0); i < lmin; i++ {
				if want < 0 && !c.match(s1+i, s2+i) {
					want = s1 + i
				}
			}
			if want < 0 && l1 != l2 {
				want = s1 + lmin
			}
		}
	}
	vrt.Carve("C14-valid-args-rejected", cls == zzC14BValid &&
		(zzC14MismatchStartBad(m, s1, c.e1Mode) || zzC14MismatchStartBad(n, s2, c.e2Mode)))
	vrt.Carve("C14-mismatch-from-end-index", cls == zzC14BValid && 0 < diffAt && diffAt+s1 != want)
	scope := slip.NewScope()
	form := slip.List{slip.Symbol("mismatch"), zzC14Quote(zzC14Seq(kind, c.a)), zzC14Quote(zzC14Seq(kind, c.b))}
	form = append(form, c.keywords()...)
	out := zzC14Eval(scope, form)
	if !zzC14Check("mismatch", out, cls) {
		return
	}
	if want < 0 {
		vrt.Assert(out.val == nil, "mismatch: the subsequences match but a value was returned")
	} else {
		vrt.Assert(zzC14IsIndex(out.val, want), "mismatch: wrong index")
	}
}

// VerifC14SearchAlpha: search (fn 0) / mismatch (fn 1) with a longer pattern
// (m >= 3) in a longer sequence (n >= 4) over a two value alphabet: the two
// values v0 != v1 are symbolic (any two distinct fixnums, resp. ASCII
// characters), which of the two stands at each position is a vrt.Choice, so
// that every repetition pattern — self-overlapping patterns, partial matches
// that overlap the real match — is explored (2^(m+n-1) paths; the first
// pattern element is v0 without loss of generality).  No bounds, no
// :key/:test; fe = 0: :from-end absent, 1: :from-end t.
func VerifC14SearchAlpha(kind, m, n, fe, fn int) {
	c := &zzC14Two{kind: kind, m: m, n: n}
	c.a = make([]int64, m)
	c.b = make([]int64, n)
	var v [2]int64
	if kind == zzC14String {
		x0, x1 := vrt.Byte("vc0"), vrt.Byte("vc1")
		vrt.Assume(x0 < 128 && x1 < 128 && x0 != x1)
		v[0], v[1] = int64(x0), int64(x1)
	} else {
		v[0], v[1] = vrt.Int64("v0"), vrt.Int64("v1")
		vrt.Assume(v[0] != v[1])
	}
	for i := 0; i < m; i++ {
		if i == 0 {
			c.a[i] = v[0]
		} else {
			c.a[i] = v[vrt.Choice("pa"+string(rune('0'+i)), 2)]
		}
	}
	for i := 0; i < n; i++ {
		c.b[i] = v[vrt.Choice("pb"+string(rune('0'+i)), 2)]
	}
	if fe != 0 {
		c.feMode = 2
	}
	name := [...]string{"search", "mismatch"}[fn]
	want := int64(-1)
	diffAt := int64(0)
	if fn == 0 {
		// leftmost (from-end: rightmost) j with a[i] = b[j+i] for all i < m
		for j := 0; j+m <= n; j++ {
			all := true
			for i := 0; i < m; i++ {
				if !c.match(int64(i), int64(j+i)) {
					all = false
				}
			}
			if all && (want < 0 || fe != 0) {
				want = int64(j)
			}
		}
		vrt.Carve("C14-search-wrong-index", fe != 0 && 0 < m && want == 0)
	} else {
		lmin := m
		if n < lmin {
			lmin = n
		}
		if fe != 0 {
			for i := 1; i <= lmin; i++ {
				if want < 0 && !c.match(int64(m-i), int64(n-i)) {
					want = int64(m - i + 1)
					diffAt = int64(i)
				}
			}
			if want < 0 && m != n {
				want = int64(m - lmin)
			}
		} else {
			for i := 0; i < lmin; i++ {
				if want < 0 && !c.match(int64(i), int64(i)) {
					want = int64(i)
				}
			}
			if want < 0 && m != n {
				want = int64(lmin)
			}
		}
		vrt.Carve("C14-mismatch-from-end-index", 0 < diffAt && diffAt != want)
	}
	form := slip.List{slip.Symbol(name), zzC14Quote(zzC14Seq(kind, c.a)), zzC14Quote(zzC14Seq(kind, c.b))}
	form = append(form, c.keywords()...)
	out := zzC14Eval(slip.NewScope(), form)
	vrt.Reach("compared")
	vrt.Assert(out.class == zzC14Value, name+": no value for a valid call")
	if want < 0 {
		vrt.Assert(out.val == nil, name+": nil expected but a value was returned")
	} else {
		vrt.Assert(zzC14IsIndex(out.val, want), name+": wrong index (two value alphabet)")
	}
}
