package cl

import (
	"math/big"

	"github.com/ohler55/slip"
	vrt "github.com/ohler55/slip/zzvrt"
)

// ---- C05: exact integer arithmetic ----

// zzC05Operand builds an integer operand in the requested representation and
// returns the object together with a private copy of its mathematical value.
// rep 0: fixnum (symbolic int64); rep 1: bignum (symbolic, any magnitude).
func zzC05Operand(name string, rep int) (slip.Object, *big.Int) {
	if rep == 0 {
		x := vrt.Int64(name)
		return slip.Fixnum(x), big.NewInt(x)
	}
	b := vrt.Big(name)
	return (*slip.Bignum)(b), new(big.Int).Set(b)
}

// zzC05Value extracts the mathematical value of an integer result.
func zzC05Value(o slip.Object) (*big.Int, bool) {
	switch t := o.(type) {
	case slip.Fixnum:
		return big.NewInt(int64(t)), true
	case *slip.Bignum:
		return new(big.Int).Set((*big.Int)(t)), true
	case *slip.Ratio:
		r := (*big.Rat)(t)
		if r.IsInt() {
			return new(big.Int).Set(r.Num()), true
		}
	}
	return nil, false
}

type zzC05Out struct {
	vals  slip.Values
	one   slip.Object
	class int // 0 value, 1 lisp condition, 3 go fault, 4 other
	cond  string
}

func zzC05Call(name string, args ...slip.Object) (out zzC05Out) {
	defer func() {
		if rec := recover(); rec != nil {
			switch tr := rec.(type) {
			case *slip.Panic:
				out.class = 1
				if tr.Condition != nil {
					out.cond = string(tr.Condition.Hierarchy()[0])
				}
				if tr.Value != nil {
					// normalAfter wraps a Go panic that is not a slip condition
					// (run-time error, string panic of a library) this way
					out.class = 3
				}
			case slip.Instance:
				out.class = 1
			case interface{ RuntimeError() }:
				out.class = 3
			default:
				out.class = 4
			}
		}
	}()
	scope := slip.NewScope()
	form := append(slip.List{slip.Symbol(name)}, args...)
	r := scope.Eval(form, 0)
	if vs, ok := r.(slip.Values); ok {
		out.vals = vs
		if 0 < len(vs) {
			out.one = vs[0]
		}
	} else {
		out.one = r
		out.vals = slip.Values{r}
	}
	return
}

var zzC05Min64 = new(big.Int).Lsh(big.NewInt(-1), 63)
var zzC05Max64 = new(big.Int).Sub(new(big.Int).Lsh(big.NewInt(1), 63), big.NewInt(1))

func zzC05Fits(v *big.Int) bool {
	return zzC05Min64.Cmp(v) <= 0 && v.Cmp(zzC05Max64) <= 0
}

// zzC05Unchanged: the operand object still holds the value captured before the call.
func zzC05Unchanged(o slip.Object, v *big.Int) bool {
	now, ok := zzC05Value(o)
	return ok && now.Cmp(v) == 0
}

var zzC05Ops = []string{"+", "-", "*"}

// VerifC05Arith: (op x y) for op in + - * over fixnum/bignum operands returns
// the exact integer, and leaves its operands alone.
func VerifC05Arith(op int, rep0 int, rep1 int) {
	x, vx := zzC05Operand("x", rep0)
	y, vy := zzC05Operand("y", rep1)
	want := new(big.Int)
	switch op {
	case 0:
		want.Add(vx, vy)
	case 1:
		want.Sub(vx, vy)
	case 2:
		want.Mul(vx, vy)
	}
	out := zzC05Call(zzC05Ops[op], x, y)
	vrt.Reach("called")
	vrt.Assert(out.class == 0, "arithmetic on integers signalled instead of returning")
	got, ok := zzC05Value(out.one)
	vrt.Assert(ok, "result is not an integer")
	vrt.Assert(got.Cmp(want) == 0, "result is not the exact value")
	vrt.Assert(zzC05Unchanged(x, vx) && zzC05Unchanged(y, vy), "an operand was altered")
}

// VerifC05Unary: (- x), (abs x), (1+ x), (1- x).
var zzC05Unary = []string{"-", "abs", "1+", "1-"}

func VerifC05Unary(op int, rep int) {
	x, vx := zzC05Operand("x", rep)
	want := new(big.Int)
	switch op {
	case 0:
		want.Neg(vx)
	case 1:
		want.Abs(vx)
	case 2:
		want.Add(vx, big.NewInt(1))
	case 3:
		want.Sub(vx, big.NewInt(1))
	}
	vrt.Carve("C05-fixnum-overflow-unary", rep == 0 && op != 0 && !zzC05Fits(want))
	out := zzC05Call(zzC05Unary[op], x)
	vrt.Reach("called")
	vrt.Assert(out.class == 0, "unary arithmetic signalled instead of returning")
	got, ok := zzC05Value(out.one)
	vrt.Assert(ok, "result is not an integer")
	vrt.Assert(got.Cmp(want) == 0, "result is not the exact value")
	vrt.Assert(zzC05Unchanged(x, vx), "the operand was altered")
}

// zzC05FloorDiv and friends: reference rounding divisions (CLHS floor/ceiling/truncate/round).
func zzC05RefDiv(kind int, a, b *big.Int) (q, r *big.Int) {
	q, r = new(big.Int), new(big.Int)
	q.QuoRem(a, b, r) // truncated
	switch kind {
	case 0: // floor
		if r.Sign() != 0 && (r.Sign() < 0) != (b.Sign() < 0) {
			q.Sub(q, big.NewInt(1))
			r.Add(r, b)
		}
	case 1: // ceiling
		if r.Sign() != 0 && (r.Sign() < 0) == (b.Sign() < 0) {
			q.Add(q, big.NewInt(1))
			r.Sub(r, b)
		}
	case 2: // truncate
	case 3: // round half to even
		twice := new(big.Int).Lsh(new(big.Int).Abs(r), 1)
		c := twice.Cmp(new(big.Int).Abs(b))
		odd := new(big.Int).Mod(q, big.NewInt(2)).Sign() != 0
		if c > 0 || (c == 0 && odd) {
			if (r.Sign() < 0) == (b.Sign() < 0) {
				q.Add(q, big.NewInt(1))
				r.Sub(r, b)
			} else {
				q.Sub(q, big.NewInt(1))
				r.Add(r, b)
			}
		}
	}
	return
}

var zzC05Divs = []string{"floor", "ceiling", "truncate", "round"}

// round is checked on operands below 2^zzC05RoundBits (non-linear queries)
var zzC05RoundBits = 10

// round with a bignum operand and a negative operand: slip divides the magnitudes
// and restores the signs, the reference divides the signed values, so the solver
// has to relate two different non-linear terms; it decides that below 2^8 only
// (with non-negative operands both sides build the same term).
var zzC05RoundNegBits = 8

// VerifC05RoundSmall: the round obligation on operands below 2^6 (used to probe
// the known findings about round cheaply).
func VerifC05RoundSmall(rep0 int, rep1 int) {
	zzC05RoundBits = 6
	VerifC05Division(3, rep0, rep1)
}

// VerifC05Division: (floor|ceiling|truncate|round x y) on integers returns the
// quotient and remainder the definition gives, x = q*y + r.
func VerifC05Division(kind int, rep0 int, rep1 int) {
	x, vx := zzC05Operand("x", rep0)
	y, vy := zzC05Operand("y", rep1)
	vrt.Carve("C05-division-by-zero-fault", vy.Sign() == 0)
	if vy.Sign() == 0 {
		out := zzC05Call(zzC05Divs[kind], x, y)
		vrt.Assert(out.class == 1, "division by zero is not a Lisp condition")
		return
	}
	wq, wr := zzC05RefDiv(kind, vx, vy)
	vrt.Carve("C05-division-overflow", rep0 == 0 && rep1 == 0 && !zzC05Fits(wq))
	tq, tr := zzC05RefDiv(2, vx, vy)
	_ = tq
	vrt.Carve("C05-floor-negative-divisor", kind == 0 && rep0 == 0 && rep1 == 0 && vy.Sign() < 0 && tr.Sign() != 0)
	vrt.Carve("C05-round-wrong", kind == 3 && rep0 == 0 && rep1 == 0 && tr.Sign() != 0)
	vrt.Carve("C05-round-bignum-negative", kind == 3 && (rep0 == 1 || rep1 == 1) && (vx.Sign() < 0 || vy.Sign() < 0))
	if kind == 3 {
		// non-linear: keep the fixnum round obligation within solver reach
		lim := big.NewInt(1 << uint(zzC05RoundBits))
		vrt.Assume(new(big.Int).Abs(vx).Cmp(lim) < 0 && new(big.Int).Abs(vy).Cmp(lim) < 0)
		if (rep0 == 1 || rep1 == 1) && zzC05RoundNegBits < zzC05RoundBits && (vx.Sign() < 0 || vy.Sign() < 0) {
			nlim := big.NewInt(1 << uint(zzC05RoundNegBits))
			vrt.Assume(new(big.Int).Abs(vx).Cmp(nlim) < 0 && new(big.Int).Abs(vy).Cmp(nlim) < 0)
		}
	}
	out := zzC05Call(zzC05Divs[kind], x, y)
	vrt.Reach("called")
	vrt.Assert(out.class == 0, "rounding division signalled instead of returning")
	vrt.Assert(len(out.vals) == 2, "rounding division did not return two values")
	gq, ok1 := zzC05Value(out.vals[0])
	gr, ok2 := zzC05Value(out.vals[1])
	vrt.Assert(ok1 && ok2, "quotient or remainder is not an integer")
	vrt.Assert(gq.Cmp(wq) == 0, "wrong quotient")
	vrt.Assert(gr.Cmp(wr) == 0, "wrong remainder")
	vrt.Assert(zzC05Unchanged(x, vx) && zzC05Unchanged(y, vy), "an operand was altered")
}

var zzC05Cmps = []string{"<", "<=", ">", ">=", "=", "/="}

// VerifC05Compare: the six comparisons agree with the exact values.
func VerifC05Compare(op int, rep0 int, rep1 int) {
	x, vx := zzC05Operand("x", rep0)
	y, vy := zzC05Operand("y", rep1)
	c := vx.Cmp(vy)
	var want bool
	switch op {
	case 0:
		want = c < 0
	case 1:
		want = c <= 0
	case 2:
		want = c > 0
	case 3:
		want = c >= 0
	case 4:
		want = c == 0
	case 5:
		want = c != 0
	}
	out := zzC05Call(zzC05Cmps[op], x, y)
	vrt.Reach("called")
	vrt.Assert(out.class == 0, "comparison signalled instead of returning")
	vrt.Assert((out.one != nil) == want, "comparison disagrees with the exact values")
	vrt.Assert(zzC05Unchanged(x, vx) && zzC05Unchanged(y, vy), "an operand was altered")
}

var zzC05ModRem = []string{"mod", "rem"}

// VerifC05ModRem: (mod x y) is the floor remainder, (rem x y) the truncate remainder.
func VerifC05ModRem(kind int, rep0 int, rep1 int) {
	x, vx := zzC05Operand("x", rep0)
	y, vy := zzC05Operand("y", rep1)
	vrt.Carve("C05-division-by-zero-fault", vy.Sign() == 0)
	if vy.Sign() == 0 {
		out := zzC05Call(zzC05ModRem[kind], x, y)
		vrt.Assert(out.class == 1, "division by zero is not a Lisp condition")
		return
	}
	k := 0
	if kind == 1 {
		k = 2
	}
	_, wr := zzC05RefDiv(k, vx, vy)
	out := zzC05Call(zzC05ModRem[kind], x, y)
	vrt.Reach("called")
	vrt.Assert(out.class == 0, "mod/rem signalled instead of returning")
	gr, ok := zzC05Value(out.one)
	vrt.Assert(ok, "remainder is not an integer")
	vrt.Assert(gr.Cmp(wr) == 0, "wrong remainder")
	vrt.Assert(zzC05Unchanged(x, vx) && zzC05Unchanged(y, vy), "an operand was altered")
}

// VerifC05Canonical: an integer result that fits a fixnum is a fixnum, one that
// does not is a bignum (checked on + - * and the quotient of floor).
func VerifC05Canonical(op int, rep0 int, rep1 int) {
	x, vx := zzC05Operand("x", rep0)
	y, vy := zzC05Operand("y", rep1)
	want := new(big.Int)
	var out zzC05Out
	switch op {
	case 0:
		want.Add(vx, vy)
		out = zzC05Call("+", x, y)
	case 1:
		want.Sub(vx, vy)
		out = zzC05Call("-", x, y)
	case 2:
		want.Mul(vx, vy)
		out = zzC05Call("*", x, y)
	}
	vrt.Reach("called")
	vrt.Assume(out.class == 0)
	got, ok := zzC05Value(out.one)
	vrt.Assume(ok && got.Cmp(want) == 0) // exactness is VerifC05Arith's business
	vrt.Carve("C05-noncanonical-bignum-result", (rep0 == 1 || rep1 == 1) && zzC05Fits(want))
	_, isFix := out.one.(slip.Fixnum)
	vrt.Assert(isFix == zzC05Fits(want), "integer result is not in canonical form (fixnum iff it fits)")
}

var zzC05Preds = []string{"zerop", "plusp", "minusp"}

// VerifC05Sign: zerop plusp minusp.
func VerifC05Sign(op int, rep int) {
	x, vx := zzC05Operand("x", rep)
	var want bool
	switch op {
	case 0:
		want = vx.Sign() == 0
	case 1:
		want = vx.Sign() > 0
	case 2:
		want = vx.Sign() < 0
	}
	out := zzC05Call(zzC05Preds[op], x)
	vrt.Reach("called")
	vrt.Assert(out.class == 0, "predicate signalled")
	vrt.Assert((out.one != nil) == want, "sign predicate disagrees with the value")
}

var zzC05MM = []string{"max", "min"}

// VerifC05MinMax: (max x y) / (min x y) return the larger / smaller value.
func VerifC05MinMax(op int, rep0 int, rep1 int) {
	x, vx := zzC05Operand("x", rep0)
	y, vy := zzC05Operand("y", rep1)
	want := vx
	if (op == 0 && vy.Cmp(vx) > 0) || (op == 1 && vy.Cmp(vx) < 0) {
		want = vy
	}
	out := zzC05Call(zzC05MM[op], x, y)
	vrt.Reach("called")
	vrt.Assert(out.class == 0, "max/min signalled")
	got, ok := zzC05Value(out.one)
	vrt.Assert(ok && got.Cmp(want) == 0, "max/min returned the wrong value")
	vrt.Assert(zzC05Unchanged(x, vx) && zzC05Unchanged(y, vy), "an operand was altered")
}

// VerifC05Expt: (expt x n) for a concrete small exponent n is x^n exactly.
func VerifC05Expt(n int, rep int) {
	x, vx := zzC05Operand("x", rep)
	want := big.NewInt(1)
	for i := 0; i < n; i++ {
		want = new(big.Int).Mul(want, vx)
	}
	vrt.Carve("C05-expt-inexact-beyond-float", !zzC05Fits(want) || rep == 1)
	out := zzC05Call("expt", x, slip.Fixnum(n))
	vrt.Reach("called")
	vrt.Assert(out.class == 0, "expt signalled")
	got, ok := zzC05Value(out.one)
	vrt.Assert(ok, "integer power is not an integer")
	vrt.Assert(got.Cmp(want) == 0, "integer power is not exact")
	vrt.Assert(zzC05Unchanged(x, vx), "the operand was altered")
}

// VerifC05Ash: (ash x n) for a concrete shift n in -70..70 is floor(x * 2^n).
func VerifC05Ash(n int, rep int) {
	x, vx := zzC05Operand("x", rep)
	want := new(big.Int)
	if n >= 0 {
		want.Lsh(vx, uint(n))
	} else {
		want.Rsh(vx, uint(-n)) // floor
	}
	vrt.Carve("C05-ash-fixnum", rep == 0 && ((n < 0 && vx.Sign() < 0) || (n > 0 && (!zzC05Fits(want) || n >= 64))))
	out := zzC05Call("ash", x, slip.Fixnum(n))
	vrt.Reach("called")
	vrt.Assert(out.class == 0, "ash signalled")
	got, ok := zzC05Value(out.one)
	vrt.Assert(ok, "shift result is not an integer")
	vrt.Assert(got.Cmp(want) == 0, "shift result is not floor(x*2^n)")
	vrt.Assert(zzC05Unchanged(x, vx), "the operand was altered")
}

// VerifC05Gcd: gcd / lcm of two non-negative operands below 2^bits.
func VerifC05Gcd(kind int, bits int) {
	a := vrt.Int64("x")
	b := vrt.Int64("y")
	lim := int64(1) << uint(bits)
	vrt.Assume(-lim < a && a < lim && -lim < b && b < lim)
	name := "gcd"
	if kind == 1 {
		name = "lcm"
	}
	out := zzC05Call(name, slip.Fixnum(a), slip.Fixnum(b))
	vrt.Reach("called")
	vrt.Assert(out.class == 0, "gcd/lcm signalled")
	g, ok := out.one.(slip.Fixnum)
	vrt.Assert(ok, "gcd/lcm result is not a fixnum for small operands")
	// reference: Euclid on the magnitudes, written out
	ra, rb := a, b
	if ra < 0 {
		ra = -ra
	}
	if rb < 0 {
		rb = -rb
	}
	x, y := ra, rb
	for i := 0; i < 3*bits+3 && y != 0; i++ {
		x, y = y, x%y
	}
	vrt.Assume(y == 0)
	if kind == 0 {
		vrt.Assert(int64(g) == x, "gcd is wrong")
	} else if ra == 0 || rb == 0 {
		vrt.Assert(g == 0, "lcm with a zero operand is not 0")
	} else {
		vrt.Assert(int64(g) == ra/x*rb, "lcm is wrong")
	}
}
