package cl

import (
	"github.com/ohler55/slip"
	vrt "github.com/ohler55/slip/zzvrt"
)

// VerifC16MapHash: whatever the table's test makes of two keys A and B (for
// numbers of different types with the same value this harness takes no side),
// the views of the table agree with each other: maphash visits exactly
// hash-table-count entries, every visited key is found by gethash with the
// visited value, and a key stored and not removed is visited.
//
//	ka, kb: object kinds (zzC16Obj); third: kind of a third key C (-1: none)
func VerifC16MapHash(ka, kb, kc int) {
	scope := slip.NewScope()
	keys := []slip.Object{zzC16Obj(ka, "a"), zzC16Obj(kb, "b")}
	if 0 <= kc {
		keys = append(keys, zzC16Obj(kc, "c"))
	}
	for _, k := range keys {
		vrt.Assume(!zzC16Unhashable(k))
	}
	mk := zzC16Call(scope, "make-hash-table", slip.List{})
	h, isHT := mk.obj.(slip.HashTable)
	vrt.Assert(mk.class == 0 && isHT, "make-hash-table does not return a hash-table")
	for i, k := range keys {
		fi := slip.MustFindFunc("gethash")
		cls := 0
		func() {
			defer func() {
				if rec := recover(); rec != nil {
					cls, _ = zzC16Classify(rec)
				}
			}()
			fi.Create(nil).(slip.Placer).Place(scope, slip.List{k, h}, slip.Fixnum(int64(100+i)))
		}()
		vrt.Assert(cls == 0, "(setf gethash) signals for a hashable key")
	}
	rc := zzC16Call(scope, "hash-table-count", slip.List{h})
	n, isF := rc.obj.(slip.Fixnum)
	vrt.Assert(rc.class == 0 && isF, "hash-table-count does not return a fixnum")
	vrt.Assert(1 <= int(n) && int(n) <= len(keys), "hash-table-count is outside 1..number of keys stored")
	lam := slip.ReadString("(lambda (k v) (setq zz-c16-acc (cons v (cons k zz-c16-acc))))", scope).Eval(scope, nil)
	scope.Let(slip.Symbol("zz-c16-acc"), nil)
	rm := zzC16Call(scope, "maphash", slip.List{lam, h})
	vrt.Assert(rm.class == 0, "maphash does not return")
	acc, _ := scope.Get(slip.Symbol("zz-c16-acc")).(slip.List)
	vrt.Reach("maphash")
	vrt.Assert(len(acc) == 2*int(n), "maphash does not visit exactly hash-table-count entries")
	for i := 0; i+1 < len(acc); i += 2 {
		v, k := acc[i], acc[i+1]
		r := zzC16Call(scope, "gethash", slip.List{k, h})
		vals, isV := r.obj.(slip.Values)
		vrt.Assert(r.class == 0 && isV && len(vals) == 2 && vals[1] == slip.True, "a key visited by maphash is not found by gethash")
		vrt.Assert(zzC16Same(vals[0], v), "gethash of a key visited by maphash gives another value than maphash passed")
	}
	// every stored value that gethash still returns for its key was passed to maphash
	for i, k := range keys {
		r := zzC16Call(scope, "gethash", slip.List{k, h})
		vals, isV := r.obj.(slip.Values)
		vrt.Assert(r.class == 0 && isV && len(vals) == 2 && vals[1] == slip.True, "a key just stored is not found")
		seen := false
		for j := 0; j+1 < len(acc); j += 2 {
			if zzC16Same(acc[j], vals[0]) {
				seen = true
			}
		}
		_ = i
		vrt.Assert(seen, "maphash does not visit the entry gethash finds for a stored key")
	}
}
