package cl

import (
	"math/big"
	"strconv"

	"github.com/ohler55/slip"
	vrt "github.com/ohler55/slip/zzvrt"
)

// ---- C05 extension, part 1: bitwise operations, the boundary grid ----

// zzC05Big3 builds hi*2^128 + l1*2^64 + l0 (a 192-bit two's complement integer). The
// engine has a model of it that remembers the limbs (engine/x_c05.go).
func zzC05Big3(hi int64, l1 uint64, l0 uint64) *big.Int {
	z := big.NewInt(hi)
	z.Lsh(z, 64)
	z.Add(z, new(big.Int).SetUint64(l1))
	z.Lsh(z, 64)
	z.Add(z, new(big.Int).SetUint64(l0))
	return z
}

var zzC05Mask64 = new(big.Int).SetUint64(^uint64(0))

// zzC05Limb returns limb i (64 bits) of the infinite two's complement image of x.
func zzC05Limb(x *big.Int, i int) uint64 {
	s := new(big.Int).Rsh(x, uint(64*i)) // floor
	return new(big.Int).And(s, zzC05Mask64).Uint64()
}

// zzC05XL is the oracle's view of an integer: four two's complement limbs, the
// last one being the sign extension.
type zzC05XL [4]uint64

func zzC05XSext(v int64) uint64 {
	if v < 0 {
		return ^uint64(0)
	}
	return 0
}

// zzC05XOperand: kind 0 a symbolic fixnum, kind 1 a symbolic bignum of up to 192 bits.
func zzC05XOperand(name string, kind int) (slip.Object, zzC05XL) {
	if kind == 0 {
		v := vrt.Int64(name)
		s := zzC05XSext(v)
		return slip.Fixnum(v), zzC05XL{uint64(v), s, s, s}
	}
	hi := vrt.Int64(name + ".hi")
	l1 := vrt.Uint64(name + ".l1")
	l0 := vrt.Uint64(name + ".l0")
	return (*slip.Bignum)(zzC05Big3(hi, l1, l0)), zzC05XL{l0, l1, uint64(hi), zzC05XSext(hi)}
}

// zzC05XResult: the limbs of an integer result.
func zzC05XResult(o slip.Object) (r zzC05XL, isFix bool, ok bool) {
	switch t := o.(type) {
	case slip.Fixnum:
		s := zzC05XSext(int64(t))
		return zzC05XL{uint64(t), s, s, s}, true, true
	case *slip.Bignum:
		b := (*big.Int)(t)
		return zzC05XL{zzC05Limb(b, 0), zzC05Limb(b, 1), zzC05Limb(b, 2), zzC05Limb(b, 3)}, false, true
	}
	return
}

// zzC05XTT applies the boolean function with truth table tt (bit (a<<1|b) of tt is
// f(a,b)) to every bit position.
func zzC05XTT(tt int, a, b uint64) (r uint64) {
	if tt&1 != 0 {
		r |= ^a & ^b
	}
	if tt&2 != 0 {
		r |= ^a & b
	}
	if tt&4 != 0 {
		r |= a & ^b
	}
	if tt&8 != 0 {
		r |= a & b
	}
	return
}

func zzC05XTTL(tt int, a, b zzC05XL) (r zzC05XL) {
	for i := 0; i < 4; i++ {
		r[i] = zzC05XTT(tt, a[i], b[i])
	}
	return
}

// fits: the limbs are the sign extension of the lowest one
func zzC05XFits(l zzC05XL) bool {
	s := zzC05XSext(int64(l[0]))
	return l[1] == s && l[2] == s && l[3] == s
}

type zzC05XOp struct {
	name  string
	boole string
	tt    int
}

var zzC05XBin = []zzC05XOp{
	{"logand", "", 8}, {"logior", "", 14}, {"logxor", "", 6}, {"logeqv", "", 9},
	{"logandc1", "", 2}, {"logandc2", "", 4}, {"lognand", "", 7}, {"lognor", "", 1},
	{"logorc1", "", 11}, {"logorc2", "", 13},
	{"boole", "boole-clr", 0}, {"boole", "boole-set", 15}, {"boole", "boole-1", 12}, {"boole", "boole-2", 10},
	{"boole", "boole-c1", 3}, {"boole", "boole-c2", 5}, {"boole", "boole-and", 8}, {"boole", "boole-ior", 14},
	{"boole", "boole-xor", 6}, {"boole", "boole-eqv", 9}, {"boole", "boole-nand", 7}, {"boole", "boole-nor", 1},
	{"boole", "boole-andc1", 2}, {"boole", "boole-andc2", 4}, {"boole", "boole-orc1", 11}, {"boole", "boole-orc2", 13},
}

func zzC05XCallBin(op zzC05XOp, x, y slip.Object) zzC05Out {
	if op.boole != "" {
		return zzC05Call(op.name, slip.Symbol(op.boole), x, y)
	}
	return zzC05Call(op.name, x, y)
}

// zzC05XUsesBytes: the operators whose bignum path goes through big.Int.Bytes (no
// symbolic model): they are checked on the grid (VerifC05XBitGrid) instead.
func zzC05XUsesBytes(op zzC05XOp) bool {
	return op.tt == 9
}

// VerifC05XBit2: every two-argument bit operation (the ten log* functions and the
// sixteen boole operations) on fixnum/bignum operands (k0, k1: 0 fixnum, 1 bignum).
func VerifC05XBit2(op int, k0 int, k1 int) {
	o := zzC05XBin[op]
	x, lx := zzC05XOperand("x", k0)
	y, ly := zzC05XOperand("y", k1)
	want := zzC05XTTL(o.tt, lx, ly)
	out := zzC05XCallBin(o, x, y)
	vrt.Reach("called")
	vrt.Assert(out.class == 0, "bit operation on integers signalled instead of returning")
	got, isFix, ok := zzC05XResult(out.one)
	vrt.Assert(ok, "result is not an integer")
	vrt.Assert(got == want, "result is not the bitwise function of the two's complement operands")
	_, _, okx := zzC05XResult(x)
	nx, _, _ := zzC05XResult(x)
	ny, _, oky := zzC05XResult(y)
	vrt.Assert(okx && oky && nx == lx && ny == ly, "an operand was altered")
	vrt.Carve("C05-bitop-noncanonical-bignum", (k0 == 1 || k1 == 1) && o.tt != 0 && o.tt != 15 && zzC05XFits(want))
	vrt.Assert(isFix == zzC05XFits(want), "integer result is not in canonical form (fixnum iff it fits)")
}

var zzC05XNary = []zzC05XOp{{"logand", "", 8}, {"logior", "", 14}, {"logxor", "", 6}, {"logeqv", "", 9}}

// VerifC05XBitN: logand logior logxor logeqv with n = 0..4 arguments; bit i of mask
// says that argument i is a bignum (else a fixnum).
func VerifC05XBitN(op int, n int, mask int) {
	o := zzC05XNary[op]
	args := make([]slip.Object, n)
	ls := make([]zzC05XL, n)
	for i := 0; i < n; i++ {
		args[i], ls[i] = zzC05XOperand("a"+strconv.Itoa(i), (mask>>uint(i))&1)
	}
	// identity of the fold: -1 for and/eqv, 0 for ior/xor
	var want zzC05XL
	if op == 0 || op == 3 {
		want = zzC05XL{^uint64(0), ^uint64(0), ^uint64(0), ^uint64(0)}
	}
	for i := 0; i < n; i++ {
		want = zzC05XTTL(o.tt, want, ls[i])
	}
	out := zzC05Call(o.name, args...)
	vrt.Reach("called")
	vrt.Assert(out.class == 0, "bit operation on integers signalled instead of returning")
	got, isFix, ok := zzC05XResult(out.one)
	vrt.Assert(ok, "result is not an integer")
	vrt.Assert(got == want, "result is not the bitwise fold of the two's complement operands")
	for i := 0; i < n; i++ {
		now, _, okn := zzC05XResult(args[i])
		vrt.Assert(okn && now == ls[i], "an operand was altered")
	}
	vrt.Carve("C05-bitop-noncanonical-bignum", mask != 0 && zzC05XFits(want))
	vrt.Assert(isFix == zzC05XFits(want), "integer result is not in canonical form (fixnum iff it fits)")
}

// reference population count / length on one limb, bit by bit
func zzC05XPop(u uint64) (n int64) {
	for i := uint(0); i < 64; i++ {
		n += int64((u >> i) & 1)
	}
	return
}

// VerifC05XBit1: the one-integer bit functions on a fixnum (fully symbolic) —
// fn 0 lognot, 2 integer-length, 3 logbitp with a symbolic index in 0..200,
// 4 logtest of two fixnums.
func VerifC05XBit1(fn int) {
	v := vrt.Int64("x")
	x := slip.Fixnum(v)
	switch fn {
	case 0:
		out := zzC05Call("lognot", x)
		vrt.Reach("called")
		vrt.Assert(out.class == 0, "lognot signalled")
		g, ok := out.one.(slip.Fixnum)
		vrt.Assert(ok && int64(g) == -1-v, "lognot of a fixnum is not -1-x")
	case 2:
		u := uint64(v)
		if v < 0 {
			u = ^u
		}
		out := zzC05Call("integer-length", x)
		vrt.Reach("called")
		vrt.Assert(out.class == 0, "integer-length signalled")
		g, ok := out.one.(slip.Fixnum)
		vrt.Assert(ok && 0 <= g && g <= 64, "integer-length of a fixnum is not in 0..64")
		// g is the smallest n with u < 2^n
		vrt.Assert(g == 64 || u>>uint(g) == 0, "integer-length of a fixnum is too small")
		vrt.Assert(g == 0 || u>>uint(g-1) != 0, "integer-length of a fixnum is too large")
	case 3:
		k := vrt.Int64("k")
		vrt.Assume(0 <= k && k <= 200)
		want := v < 0
		if k < 64 {
			want = (v>>uint(k))&1 != 0
		}
		vrt.Carve("C05-logbitp-fixnum-index-beyond-63", k >= 64 && v < 0)
		out := zzC05Call("logbitp", slip.Fixnum(k), x)
		vrt.Reach("called")
		vrt.Assert(out.class == 0, "logbitp signalled")
		vrt.Assert((out.one != nil) == want, "logbitp disagrees with the two's complement bit")
	case 4:
		w := vrt.Int64("y")
		out := zzC05Call("logtest", x, slip.Fixnum(w))
		vrt.Reach("called")
		vrt.Assert(out.class == 0, "logtest signalled")
		vrt.Assert((out.one != nil) == (v&w != 0), "logtest disagrees with logand")
	}
}

// VerifC05XLogcount: logcount of a fixnum whose bits are those of a background
// pattern (bg 0: all zero, 1: all one, 2: 0x5a5a..., 3: most-negative-fixnum pattern) except for a
// window of four symbolic bits at position pos (slip's loop branches on every bit, so
// a fully symbolic word would be 2^64 paths).
func VerifC05XLogcount(bg int, pos int) {
	pats := []uint64{0, ^uint64(0), 0x5a5a5a5a5a5a5a5a, 1 << 63}
	w := vrt.Uint64("w")
	vrt.Assume(w < 16)
	u := (pats[bg] &^ (uint64(15) << uint(pos))) | (w << uint(pos))
	v := int64(u)
	m := u
	if v < 0 {
		m = ^m
	}
	out := zzC05Call("logcount", slip.Fixnum(v))
	vrt.Reach("called")
	vrt.Assert(out.class == 0, "logcount signalled")
	g, ok := out.one.(slip.Fixnum)
	vrt.Assert(ok && int64(g) == zzC05XPop(m), "logcount is not the number of bits that differ from the sign")
}

// ---- the boundary grid (concrete values; bounded enumeration executed by the engine) ----

func zzC05XPow2(n uint) *big.Int { return new(big.Int).Lsh(big.NewInt(1), n) }

func zzC05XGridList() []*big.Int {
	var g []*big.Int
	pm := func(v *big.Int) { g = append(g, v, new(big.Int).Neg(v)) }
	g = append(g, big.NewInt(0))
	pm(big.NewInt(1))
	pm(big.NewInt(2))
	pm(zzC05XPow2(31))
	pm(zzC05XPow2(32))
	pm(zzC05XPow2(62))
	g = append(g, new(big.Int).Sub(zzC05XPow2(63), big.NewInt(1)))
	pm(zzC05XPow2(63))
	pm(zzC05XPow2(64))
	pm(new(big.Int).Add(zzC05XPow2(64), big.NewInt(1)))
	pm(new(big.Int).Sub(zzC05XPow2(64), big.NewInt(1)))
	// beyond the property's list: just below most-negative-fixnum, a non power of two, > 128 bits
	g = append(g, new(big.Int).Sub(new(big.Int).Neg(zzC05XPow2(63)), big.NewInt(1)))
	t20, _ := new(big.Int).SetString("100000000000000000003", 10)
	pm(t20)
	pm(new(big.Int).Add(zzC05XPow2(100), big.NewInt(12345)))
	g = append(g, new(big.Int).Sub(zzC05XPow2(128), big.NewInt(1)), new(big.Int).Neg(zzC05XPow2(128)))
	g = append(g, big.NewInt(3), big.NewInt(-6), big.NewInt(12), big.NewInt(255), big.NewInt(-256))
	return g
}

var zzC05XGridV = zzC05XGridList()

// zzC05XGridN is the size of the grid (the obligations JSON repeats it).
const zzC05XGridN = 32

func zzC05XInt(v *big.Int) slip.Object {
	if v.IsInt64() {
		return slip.Fixnum(v.Int64())
	}
	return (*slip.Bignum)(new(big.Int).Set(v))
}

// bit i of the two's complement image of v, without big.Int.Bit: v>=0: bit of v; v<0: complement of bit of -v-1
func zzC05XBitOf(v *big.Int, i uint) bool {
	m := new(big.Int).Set(v)
	neg := v.Sign() < 0
	if neg {
		m.Neg(m)
		m.Sub(m, big.NewInt(1))
	}
	q := new(big.Int).Quo(m, zzC05XPow2(i))
	odd := new(big.Int).Rem(q, big.NewInt(2)).Sign() != 0
	return odd != neg
}

// VerifC05XBitGrid: the bit functions whose bignum path works on the magnitude
// bytes, on the grid. fn 0 logcount x, 1 integer-length x, 2 lognot x, 3 logbitp k x
// (k chosen among 0 1 7 8 31 63 64 65 70 127 128 200), 4 logtest x y, 5 logeqv x y, 6 boole-eqv
// (y chosen among the grid).
func VerifC05XBitGrid(fn int, i int) {
	vx := zzC05XGridV[i]
	x := zzC05XInt(vx)
	keep := new(big.Int).Set(vx)
	_, xBig := x.(*slip.Bignum)
	const width = 140
	switch fn {
	case 0, 1:
		cnt, length := int64(0), int64(0)
		for b := uint(0); b < width; b++ {
			if zzC05XBitOf(vx, b) != (vx.Sign() < 0) {
				cnt++
				length = int64(b) + 1
			}
		}
		if fn == 0 {
			// popcount(|x|) - 1 equals popcount(|x|-1) exactly when |x| is a power of two... the
			// region of the defect is every negative bignum for which slip's formula differs; it is
			// stated on the value: negative bignum.
			vrt.Carve("C05-bitops-negative-bignum-magnitude", xBig && vx.Sign() < 0)
			out := zzC05Call("logcount", x)
			vrt.Reach("called")
			vrt.Assert(out.class == 0, "logcount signalled")
			g, ok := out.one.(slip.Fixnum)
			vrt.Assert(ok && int64(g) == cnt, "logcount is not the number of bits that differ from the sign")
		} else {
			vrt.Carve("C05-operand-altered-in-place", xBig && vx.Sign() < 0)
			out := zzC05Call("integer-length", x)
			vrt.Reach("called")
			vrt.Assert(out.class == 0, "integer-length signalled")
			g, ok := out.one.(slip.Fixnum)
			vrt.Assert(ok && int64(g) == length, "integer-length is wrong")
		}
	case 2:
		out := zzC05Call("lognot", x)
		vrt.Reach("called")
		vrt.Assert(out.class == 0, "lognot signalled")
		g, ok := zzC05Value(out.one)
		want := new(big.Int).Sub(big.NewInt(-1), vx)
		vrt.Assert(ok && g.Cmp(want) == 0, "lognot is not -1-x")
	case 3:
		ks := []int64{0, 1, 7, 8, 31, 63, 64, 65, 70, 127, 128, 200}
		k := ks[vrt.Choice("k", len(ks))]
		want := zzC05XBitOf(vx, uint(k))
		vrt.Carve("C05-logbitp-fixnum-index-beyond-63", !xBig && k >= 64 && vx.Sign() < 0)
		vrt.Carve("C05-bitops-negative-bignum-magnitude", xBig && vx.Sign() < 0)
		out := zzC05Call("logbitp", slip.Fixnum(k), x)
		vrt.Reach("called")
		vrt.Assert(out.class == 0, "logbitp signalled")
		vrt.Assert((out.one != nil) == want, "logbitp disagrees with the two's complement bit")
	case 4, 5, 6:
		j := vrt.Choice("j", zzC05XGridN)
		vy := zzC05XGridV[j]
		y := zzC05XInt(vy)
		keepY := new(big.Int).Set(vy)
		_, yBig := y.(*slip.Bignum)
		vrt.Assume(xBig || yBig) // two fixnums: VerifC05XBit2 / VerifC05XBit1, fully symbolic
		vrt.Carve("C05-bitops-negative-bignum-magnitude", fn == 4 && (vx.Sign() < 0 || vy.Sign() < 0))
		vrt.Carve("C05-logeqv-bignum", fn != 4)
		if fn == 4 {
			want := false
			for b := uint(0); b < width; b++ {
				if zzC05XBitOf(vx, b) && zzC05XBitOf(vy, b) {
					want = true
				}
			}
			out := zzC05Call("logtest", x, y)
			vrt.Reach("called")
			vrt.Assert(out.class == 0, "logtest signalled")
			vrt.Assert((out.one != nil) == want, "logtest disagrees with the two's complement bits")
		} else {
			var out zzC05Out
			if fn == 5 {
				out = zzC05Call("logeqv", x, y)
			} else {
				out = zzC05Call("boole", slip.Symbol("boole-eqv"), x, y)
			}
			vrt.Reach("called")
			vrt.Assert(out.class == 0, "logeqv signalled")
			g, ok := zzC05Value(out.one)
			vrt.Assert(ok, "logeqv result is not an integer")
			same := true
			for b := uint(0); b < width; b++ {
				if zzC05XBitOf(g, b) != (zzC05XBitOf(vx, b) == zzC05XBitOf(vy, b)) {
					same = false
				}
			}
			vrt.Assert(same, "logeqv is not the bitwise equivalence of the two's complement operands")
		}
		vrt.Assert(zzC05Unchanged(y, keepY), "an operand was altered")
	}
	vrt.Assert(zzC05Unchanged(x, keep), "an operand was altered")
}
