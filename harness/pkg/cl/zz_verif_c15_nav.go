package cl

import (
	"github.com/ohler55/slip"
	vrt "github.com/ohler55/slip/zzvrt"
)

// ---------------------------------------------------------------------------
// C15 (iii): argument navigation and structure directives.
//
// The harness builds a small syntax tree (zzC15Node), renders it to a control
// string for slip, and evaluates the same tree with zzC15Eval, an independent
// evaluator written from CLHS 22.3.7 (~* ~? ~[ ~{ ~^), 22.3.8.3 (~P), 22.3.8.1
// (~( ), 22.3.1 (~% ~& ~~) with an explicit argument cursor.  The evaluator
// never parses a control string, so it shares nothing with slip's scanner.
// ---------------------------------------------------------------------------

type zzC15Node struct {
	kind   byte   // 'L' literal text, otherwise the directive character
	lit    string // literal text (no tilde inside)
	colon  bool
	at     bool
	pm     int           // prefix parameter: 0 none, 1 literal, 2 v, 3 #
	n      int           // value of a literal parameter (may be symbolic, 0..99)
	cl     [][]zzC15Node // clauses of ~[ ; cl[0] is the body of ~{ ~( ~?
	hasDef bool          // ~[ : the last clause is introduced by ~:;
	once   bool          // ~{ : closed by ~:}
}

func zzC15L(s string) zzC15Node { return zzC15Node{kind: 'L', lit: s} }
func zzC15Dir(k byte) zzC15Node { return zzC15Node{kind: k} }

func zzC15Render(b []byte, ns []zzC15Node) []byte {
	for i := 0; i < len(ns); i++ {
		nd := &ns[i]
		if nd.kind == 'L' {
			b = append(b, nd.lit...)
			continue
		}
		b = append(b, '~')
		switch nd.pm {
		case 1:
			b = zzC15AppendNum(b, nd.n)
		case 2:
			b = append(b, 'v')
		case 3:
			b = append(b, '#')
		}
		if nd.colon {
			b = append(b, ':')
		}
		if nd.at {
			b = append(b, '@')
		}
		b = append(b, nd.kind)
		switch nd.kind {
		case '[':
			for j := 0; j < len(nd.cl); j++ {
				if 0 < j {
					if nd.hasDef && j == len(nd.cl)-1 {
						b = append(b, "~:;"...)
					} else {
						b = append(b, "~;"...)
					}
				}
				b = zzC15Render(b, nd.cl[j])
			}
			b = append(b, "~]"...)
		case '{':
			b = zzC15Render(b, nd.cl[0])
			if nd.once {
				b = append(b, "~:}"...)
			} else {
				b = append(b, "~}"...)
			}
		case '(':
			b = zzC15Render(b, nd.cl[0])
			b = append(b, "~)"...)
		}
	}
	return b
}

// zzC15St is the evaluator state: the current argument list with its cursor,
// and the text so far.  bad: the program is not a legal use (argument missing,
// wrong type, cursor moved outside the list): such programs are assumed away.
type zzC15St struct {
	args []slip.Object
	cur  int
	out  []byte
	bad  bool
}

func (st *zzC15St) next() slip.Object {
	if st.cur < 0 || len(st.args) <= st.cur {
		st.bad = true
		return nil
	}
	a := st.args[st.cur]
	st.cur++
	return a
}

func (st *zzC15St) param(nd *zzC15Node) (int, bool) {
	switch nd.pm {
	case 1:
		return nd.n, true
	case 2:
		a := st.next()
		if a == nil {
			return 0, false
		}
		f, ok := a.(slip.Fixnum)
		if !ok {
			st.bad = true
		}
		return int(f), true
	case 3:
		return len(st.args) - st.cur, true
	}
	return 0, false
}

const zzC15LowerTbl = "\x00\x01\x02\x03\x04\x05\x06\x07\x08\x09\x0a\x0b\x0c\x0d\x0e\x0f\x10\x11\x12\x13\x14\x15\x16\x17\x18\x19\x1a\x1b\x1c\x1d\x1e\x1f !\"#$%&'()*+,-./0123456789:;<=>?@abcdefghijklmnopqrstuvwxyz[\\]^_`abcdefghijklmnopqrstuvwxyz{|}~\x7f"
const zzC15UpperTbl = "\x00\x01\x02\x03\x04\x05\x06\x07\x08\x09\x0a\x0b\x0c\x0d\x0e\x0f\x10\x11\x12\x13\x14\x15\x16\x17\x18\x19\x1a\x1b\x1c\x1d\x1e\x1f !\"#$%&'()*+,-./0123456789:;<=>?@ABCDEFGHIJKLMNOPQRSTUVWXYZ[\\]^_`ABCDEFGHIJKLMNOPQRSTUVWXYZ{|}~\x7f"

func zzC15IsAlnum(b byte) bool {
	return ('a' <= b && b <= 'z') || ('A' <= b && b <= 'Z') || ('0' <= b && b <= '9')
}

// zzC15Princ: the ~A / ~D text of the argument kinds the navigation programs
// use: a fixnum 0..9 (one digit), a string, nil.
func (st *zzC15St) princ(a slip.Object) {
	switch ta := a.(type) {
	case nil:
		st.out = append(st.out, "nil"...)
	case slip.Fixnum:
		if ta < 0 || 9 < ta {
			st.bad = true
		}
		st.out = append(st.out, byte('0'+int64(ta)))
	case slip.String:
		st.out = append(st.out, string(ta)...)
	default:
		st.bad = true
	}
}

// zzC15Eval evaluates the nodes; the result is true when a ~^ fired (no
// arguments remained), which ends the enclosing iteration or control string.
func zzC15Eval(st *zzC15St, ns []zzC15Node) bool {
	for i := 0; i < len(ns); i++ {
		nd := &ns[i]
		switch nd.kind {
		case 'L':
			st.out = append(st.out, nd.lit...)
		case 'D', 'A':
			st.princ(st.next())
		case '%':
			n, ok := st.param(nd)
			if !ok {
				n = 1
			}
			for ; 0 < n; n-- {
				st.out = append(st.out, '\n')
			}
		case '&':
			n, ok := st.param(nd)
			if !ok {
				n = 1
			}
			if 0 < n {
				if 0 < len(st.out) && st.out[len(st.out)-1] != '\n' {
					st.out = append(st.out, '\n')
				}
				for n--; 0 < n; n-- {
					st.out = append(st.out, '\n')
				}
			}
		case '~':
			n, ok := st.param(nd)
			if !ok {
				n = 1
			}
			for ; 0 < n; n-- {
				st.out = append(st.out, '~')
			}
		case '|':
			n, ok := st.param(nd)
			if !ok {
				n = 1
			}
			for ; 0 < n; n-- {
				st.out = append(st.out, '\f')
			}
		case '*':
			n, ok := st.param(nd)
			switch {
			case nd.at:
				if !ok {
					n = 0
				}
				st.cur = n
			case nd.colon:
				if !ok {
					n = 1
				}
				st.cur -= n
			default:
				if !ok {
					n = 1
				}
				st.cur += n
			}
			if st.cur < 0 || len(st.args) < st.cur {
				st.bad = true
				return false
			}
		case 'P':
			if nd.colon {
				st.cur--
			}
			a := st.next()
			f, isFix := a.(slip.Fixnum)
			one := isFix && f == 1
			switch {
			case nd.at && one:
				st.out = append(st.out, 'y')
			case nd.at:
				st.out = append(st.out, "ies"...)
			case !one:
				st.out = append(st.out, 's')
			}
		case '^':
			if len(st.args) <= st.cur {
				return true
			}
		case '?':
			if _, ok := st.next().(slip.String); !ok {
				st.bad = true
			}
			if nd.at {
				zzC15Eval(st, nd.cl[0])
			} else {
				var sub zzC15St
				switch tl := st.next().(type) {
				case nil:
				case slip.List:
					sub.args = tl
				default:
					st.bad = true
				}
				sub.out = st.out
				zzC15Eval(&sub, nd.cl[0])
				st.out = sub.out
				st.bad = st.bad || sub.bad
			}
		case '(':
			start := len(st.out)
			esc := zzC15Eval(st, nd.cl[0])
			zzC15Convert(st.out[start:], nd.colon, nd.at)
			if esc {
				return true
			}
		case '[':
			switch {
			case nd.colon:
				a := st.next()
				if a == nil {
					if zzC15Eval(st, nd.cl[0]) {
						return true
					}
				} else if zzC15Eval(st, nd.cl[1]) {
					return true
				}
			case nd.at:
				if st.cur < 0 || len(st.args) <= st.cur {
					st.bad = true
					return false
				}
				if st.args[st.cur] == nil {
					st.cur++
				} else if zzC15Eval(st, nd.cl[0]) {
					return true
				}
			default:
				sel, ok := st.param(nd)
				if !ok {
					f, isFix := st.next().(slip.Fixnum)
					if !isFix {
						st.bad = true
						return false
					}
					sel = int(f)
				}
				nsel := len(nd.cl)
				if nd.hasDef {
					nsel--
				}
				if 0 <= sel && sel < nsel {
					if zzC15Eval(st, nd.cl[sel]) {
						return true
					}
				} else if nd.hasDef {
					if zzC15Eval(st, nd.cl[nsel]) {
						return true
					}
				}
			}
		case '{':
			max, limited := st.param(nd)
			body := nd.cl[0]
			first := nd.once
			switch {
			case nd.colon:
				// one sublist per iteration
				var lists []slip.Object
				var src *zzC15St
				if nd.at {
					src = st
				} else {
					switch tl := st.next().(type) {
					case nil:
					case slip.List:
						lists = tl
					default:
						st.bad = true
						return false
					}
					src = &zzC15St{args: lists}
				}
				for it := 0; ; it++ {
					if limited && max <= it {
						break
					}
					if len(src.args) <= src.cur && !first {
						break
					}
					first = false
					var sub zzC15St
					if src.cur < len(src.args) {
						switch tl := src.args[src.cur].(type) {
						case nil:
						case slip.List:
							sub.args = tl
						default:
							st.bad = true
							return false
						}
						src.cur++
					}
					sub.out = st.out
					zzC15Eval(&sub, body) // ~^ ends this sublist's iteration only
					st.out = sub.out
					st.bad = st.bad || sub.bad
				}
			default:
				sub := st
				if !nd.at {
					sub = &zzC15St{}
					switch tl := st.next().(type) {
					case nil:
					case slip.List:
						sub.args = tl
					default:
						st.bad = true
						return false
					}
				}
				for it := 0; ; it++ {
					if limited && max <= it {
						break
					}
					if len(sub.args) <= sub.cur && !first {
						break
					}
					first = false
					if sub != st {
						sub.out = st.out
					}
					esc := zzC15Eval(sub, body)
					if sub != st {
						st.out = sub.out
						st.bad = st.bad || sub.bad
					}
					if esc || st.bad {
						break
					}
				}
			}
		default:
			st.bad = true
		}
		if st.bad {
			return false
		}
	}
	return false
}

// zzC15Convert is ~( ~): no modifier lower case; : capitalise every word; @
// capitalise the first word, the rest lower case; :@ upper case.  A word is a
// maximal run of alphanumerics (string-capitalize).  The first two use table
// look-ups (no branch on the bytes: they may be symbolic); the capitalising
// forms are used with concrete text only.
func zzC15Convert(seg []byte, colon, at bool) {
	switch {
	case colon && at:
		for i := 0; i < len(seg); i++ {
			seg[i] = zzC15UpperTbl[seg[i]&0x7f]
		}
	case !colon && !at:
		for i := 0; i < len(seg); i++ {
			seg[i] = zzC15LowerTbl[seg[i]&0x7f]
		}
	default:
		inWord, done := false, false
		for i := 0; i < len(seg); i++ {
			b := seg[i]
			if !zzC15IsAlnum(b) {
				inWord = false
				continue
			}
			if !inWord && !(at && done) {
				seg[i] = zzC15UpperTbl[b&0x7f]
				// the first word is the first run of alphanumerics (string-capitalize),
				// also when it starts with a digit: "3rd place" -> "3rd place"
				done = true
			} else {
				seg[i] = zzC15LowerTbl[b&0x7f]
			}
			inWord = true
		}
	}
}

// zzC15Digit: a symbolic fixnum argument 0..9.
func zzC15Digit(name string) slip.Object {
	v := vrt.Int64(name)
	vrt.Assume(0 <= v && v <= 9)
	return slip.Fixnum(v)
}

var zzC15ArgNames = [...]string{"a0", "a1", "a2", "a3", "a4", "a5", "a6", "a7", "a8", "a9", "a10", "a11"}

func zzC15DigitArgs(from, n int) slip.List {
	l := make(slip.List, n)
	for i := 0; i < n; i++ {
		l[i] = zzC15Digit(zzC15ArgNames[from+i])
	}
	return l
}

// zzC15Check runs the oracle and slip on the program and compares text and
// cursor.  The oracle goes first so that illegal programs are assumed away
// before slip sees them.
func zzC15Check(prog []zzC15Node, args slip.List, what string) {
	st := zzC15St{args: args}
	zzC15Eval(&st, prog)
	vrt.Assume(!st.bad)
	ctrl := zzC15Render(nil, prog)
	got := zzC15Process(slip.NewScope(), ctrl, args)
	vrt.Reach("compared")
	vrt.Assert(got.class != 3, what+": Go run-time fault")
	vrt.Assert(got.class == 0, what+": condition signalled for a legal control string")
	vrt.Assert(zzC15Same(got.text, st.out), what+": text")
	vrt.Assert(got.pos == st.cur, what+": arguments consumed")
}

// VerifC15Move: k leading ~D, then ~n* / ~n:* / ~n@* (mode 0/1/2) with the
// parameter supplied as pm (0 omitted, 1 literal, 2 v, 3 #), then tail more
// ~D; total digit arguments (the v argument is inserted where it is read).
func VerifC15Move(mode, pm, k, total, tail int) {
	var prog []zzC15Node
	for i := 0; i < k; i++ {
		prog = append(prog, zzC15Dir('D'))
	}
	mv := zzC15Node{kind: '*', colon: mode == 1, at: mode == 2, pm: pm}
	args := zzC15DigitArgs(0, total)
	switch pm {
	case 1:
		mv.n = vrt.Int("n")
		vrt.Assume(0 <= mv.n && mv.n <= 9)
	case 2:
		n := zzC15Small("n", 0, 9)
		rest := append(slip.List{slip.Fixnum(n)}, args[k:]...)
		args = append(append(slip.List{}, args[:k]...), rest...)
	}
	prog = append(prog, zzC15L("|"), mv, zzC15L("|"))
	for i := 0; i < tail; i++ {
		prog = append(prog, zzC15Dir('D'))
	}
	zzC15Check(prog, args, "~*")
}

// zzC15Body: iteration / recursion bodies.
//
//	0 "~D,"   1 "~D-~D;"   2 "<~D>" then nothing   3 "x" (consumes nothing)
//	4 "~D~^,"
func zzC15Body(kind int) []zzC15Node {
	switch kind {
	case 0:
		return []zzC15Node{zzC15Dir('D'), zzC15L(",")}
	case 1:
		return []zzC15Node{zzC15Dir('D'), zzC15L("-"), zzC15Dir('D'), zzC15L(";")}
	case 2:
		return []zzC15Node{zzC15L("<"), zzC15Dir('D'), zzC15L(">")}
	case 3:
		return []zzC15Node{zzC15L("x")}
	}
	return []zzC15Node{zzC15Dir('D'), zzC15Dir('^'), zzC15L(",")}
}

// VerifC15Recur: "~D[~?]~D" (at == 0: control string and argument list are
// two arguments) or "~D[~@?]~D" (at != 0: the sub-control continues in the
// same arguments).  body as zzC15Body, llen arguments for the sub-control.
func VerifC15Recur(at, body, llen int) {
	sub := zzC15Body(body)
	rc := zzC15Node{kind: '?', at: at != 0, cl: [][]zzC15Node{sub}}
	prog := []zzC15Node{zzC15Dir('D'), zzC15L("["), rc, zzC15L("]"), zzC15Dir('D')}
	args := slip.List{zzC15Digit("a0"), slip.String(zzC15Render(nil, sub))}
	inner := zzC15DigitArgs(1, llen)
	if at != 0 {
		args = append(args, inner...)
	} else if llen == 0 && vrt.Choice("nilOrEmpty", 2) == 0 {
		args = append(args, nil)
		vrt.Carve("C15-recur-nil-list", true)
	} else {
		args = append(args, inner)
	}
	args = append(args, zzC15Digit("a9"))
	if at != 0 {
		// the trailing ~D needs one more argument than the sub-control uses
		args = append(args, zzC15Digit("a10"))
	}
	zzC15Check(prog, args, "~?")
}

// VerifC15Cond: form 0 "~[c0~;c1~;c2~]" with ncl clauses (def != 0: the last
// one after ~:;), the selector an argument (pm 0) or a parameter (pm 1..3);
// form 1 "~:[alt~;cons~]"; form 2 "~@[cons~]".  inner != 0: every clause also
// prints an argument.  The selector is symbolic in -2..6.
func VerifC15Cond(form, pm, ncl, def, inner int) {
	names := [...]string{"zero", "one", "two", "three", "four"}
	clause := func(i int) []zzC15Node {
		c := []zzC15Node{zzC15L(names[i])}
		if inner != 0 {
			c = append(c, zzC15Dir('D'))
		}
		return c
	}
	cn := zzC15Node{kind: '[', colon: form == 1, at: form == 2, pm: pm, hasDef: def != 0 && 2 <= ncl} // a default clause needs a ~:; before it
	var args slip.List
	switch form {
	case 1:
		cn.cl = [][]zzC15Node{clause(0), clause(1)}
		cn.pm, cn.hasDef = 0, false
		if vrt.Choice("isNil", 2) == 0 {
			args = append(args, nil)
		} else {
			args = append(args, zzC15Digit("sel"))
		}
	case 2:
		cn.cl = [][]zzC15Node{{zzC15L("<"), zzC15Dir('D'), zzC15L(">")}}
		cn.pm, cn.hasDef = 0, false
		if vrt.Choice("isNil", 2) == 0 {
			args = append(args, nil)
		} else {
			args = append(args, zzC15Digit("sel"))
		}
	default:
		for i := 0; i < ncl; i++ {
			cn.cl = append(cn.cl, clause(i))
		}
		sel := vrt.Int64("sel")
		vrt.Assume(-2 <= sel && sel <= 6)
		switch pm {
		case 0:
			args = append(args, slip.Fixnum(sel))
		case 1:
			vrt.Assume(0 <= sel)
			cn.n = int(sel)
		case 2:
			sv := zzC15Small("selv", -2, 6)
			args = append(args, slip.Fixnum(sv))
			vrt.Carve("C15-cond-negative-param", sv < 0)
		}
	}
	prog := []zzC15Node{zzC15L("("), cn, zzC15L(")"), zzC15Dir('D')}
	args = append(args, zzC15DigitArgs(0, 3)...)
	if pm == 3 && form == 0 {
		// # = number of remaining arguments = 3: trim to a symbolic-free choice
		args = args[:len(args)-vrt.Choice("drop", 3)]
	}
	zzC15Check(prog, args, "~[")
}

// VerifC15Iter: form 0 ~{ 1 ~:{ 2 ~@{ 3 ~:@{ ; pm/n the iteration limit; body
// as zzC15Body (0,1,3,4); llen elements (form 1/3: llen sublists of sub
// elements each); once: closed by ~:}.
func VerifC15Iter(form, pm, body, llen, sub, once int) {
	bd := zzC15Body(body)
	it := zzC15Node{kind: '{', colon: form == 1 || form == 3, at: form == 2 || form == 3, pm: pm, once: once != 0,
		cl: [][]zzC15Node{bd}}
	var args slip.List
	switch pm {
	case 1:
		it.n = vrt.Int("n")
		vrt.Assume(0 <= it.n && it.n <= 5)
	case 2:
		args = append(args, slip.Fixnum(zzC15Small("n", 0, 5)))
	}
	var elems slip.List
	if it.colon {
		for i := 0; i < llen; i++ {
			elems = append(elems, zzC15DigitArgs(i*sub, sub))
		}
	} else {
		elems = zzC15DigitArgs(0, llen)
	}
	prog := []zzC15Node{zzC15L("["), it, zzC15L("]")}
	if it.at {
		args = append(args, elems...)
	} else {
		args = append(args, elems)
		args = append(args, zzC15Digit("a11"))
		prog = append(prog, zzC15Dir('D'))
	}
	// ~^ is only used in the forms 0 and 2 (see the case lists)
	vrt.Carve("C15-escape-unconditional", body == 4 && 0 < llen)
	zzC15Check(prog, args, "~{")
}

// VerifC15Plural: "~D ~P" family.  form 0 "~P", 1 "~:P" after a ~D, 2 "~@P",
// 3 "~:@P" after a ~D; the argument is a symbolic fixnum 0..9 (kind 0), the
// string "1" (kind 1) or nil (kind 2).
func VerifC15Plural(form, kind int) {
	colon, at := form == 1 || form == 3, form == 2 || form == 3
	var a slip.Object
	switch kind {
	case 0:
		a = zzC15Digit("a0")
	case 1:
		a = slip.String("1")
	}
	pl := zzC15Node{kind: 'P', colon: colon, at: at}
	var prog []zzC15Node
	if colon {
		prog = []zzC15Node{zzC15Dir('A'), zzC15L(" tr"), pl, zzC15L("|"), zzC15Dir('D')}
	} else {
		prog = []zzC15Node{zzC15L("tr"), pl, zzC15L("|"), zzC15Dir('D')}
	}
	zzC15Check(prog, slip.List{a, zzC15Digit("a1")}, "~P")
}

// zzC15Letters: n symbolic bytes, each a letter, a digit, a space or a hyphen.
func zzC15Letters(name string, n int) []byte {
	b := vrt.Bytes(name, n)
	for i := 0; i < n; i++ {
		c := b[i]
		vrt.Assume(('a' <= c && c <= 'z') || ('A' <= c && c <= 'Z') || ('0' <= c && c <= '9') || c == ' ' || c == '-')
	}
	return b
}

var zzC15CaseSamples = [...]string{
	"heLLo woRLD",
	"x",
	"",
	"ONE two-THREE four",
	"a  b",
	"tHIS is-a teST",
	" leading space",
	"3rd place",
	"don't STOP",
}

// VerifC15Case: "<~( … ~)>~D".  mode 0 ~( 1 ~:( 2 ~@( 3 ~:@( .  src 0: the
// inner text is "~A~A" over two symbolic strings of n letters/digits/space/
// hyphen (modes 0 and 3 only: slip's capitalising forms go through
// golang.org/x/text, which the engine can only call with concrete bytes);
// src 1: the inner text is the n-th concrete sample, as literal text;
// src 2: the n-th sample as a ~A argument.
func VerifC15Case(mode, src, n int) {
	cs := zzC15Node{kind: '(', colon: mode == 1 || mode == 3, at: mode == 2 || mode == 3}
	var args slip.List
	switch src {
	case 0:
		cs.cl = [][]zzC15Node{{zzC15Dir('A'), zzC15L("-Mid "), zzC15Dir('A')}}
		args = slip.List{slip.String(zzC15Letters("s", n)), slip.String(zzC15Letters("t", n))}
	case 1:
		cs.cl = [][]zzC15Node{{zzC15L(zzC15CaseSamples[n])}}
	default:
		cs.cl = [][]zzC15Node{{zzC15Dir('A')}}
		args = slip.List{slip.String(zzC15CaseSamples[n])}
	}
	prog := []zzC15Node{zzC15L("<"), cs, zzC15L(">"), zzC15Dir('D')}
	args = append(args, zzC15Digit("a9"))
	if src != 0 {
		text := zzC15CaseSamples[n]
		lead := 0 < len(text) && text[0] == ' '
		digitWord := false
		for i := 0; i+1 < len(text); i++ {
			if '0' <= text[i] && text[i] <= '9' && zzC15IsAlnum(text[i+1]) && !('0' <= text[i+1] && text[i+1] <= '9') {
				digitWord = true
			}
		}
		apos := false
		for i := 0; i < len(text); i++ {
			if text[i] == '\'' {
				apos = true
			}
		}
		capit := mode == 1 || mode == 2
		vrt.Carve("C15-case-capitalize", capit && (digitWord || apos || (mode == 2 && lead)))
	}
	zzC15Check(prog, args, "~(")
}

// VerifC15Simple: ~% ~& ~~ ~| (dir 0/1/2/3) after a prefix (pre 0 "", 1 "ab",
// 2 "ab\n") with the count omitted / literal / v / # (pm), symbolic 0..5.
func VerifC15Simple(dir, pm, pre int) {
	nd := zzC15Node{kind: "%&~|"[dir], pm: pm}
	var args slip.List
	count := 1
	switch pm {
	case 1:
		nd.n = vrt.Int("n")
		vrt.Assume(0 <= nd.n && nd.n <= 5)
		count = nd.n
	case 2:
		count = zzC15Small("n", 0, 5)
		args = append(args, slip.Fixnum(count))
	case 3:
		count = vrt.Choice("rest", 3)
		args = append(args, zzC15DigitArgs(0, count)...)
	}
	prefix := [...]string{"", "ab", "ab\n"}
	prog := []zzC15Node{zzC15L(prefix[pre]), nd, zzC15L("z")}
	vrt.Carve("C15-fresh-line-at-start", dir == 1 && pre == 0 && 0 < count)
	zzC15Check(prog, args, "~% ~& ~~")
}

// VerifC15Newline: "a~<newline>  b" (mode 0: newline and the following white
// space are ignored), "~:<newline>" (mode 1: only the newline is ignored),
// "~@<newline>" (mode 2: the newline stays, the white space is ignored); nsp
// blanks after the newline, then a symbolic printable non-blank byte.
// CLHS 22.3.9.3.
func VerifC15Newline(mode, nsp int) {
	b := zzC15Printable("next")
	vrt.Assume(b != ' ' && b != '~')
	ctrl := []byte{'a', '~'}
	want := []byte{'a'}
	switch mode {
	case 1:
		ctrl = append(ctrl, ':')
	case 2:
		ctrl = append(ctrl, '@')
		want = append(want, '\n')
	}
	ctrl = append(ctrl, '\n')
	for i := 0; i < nsp; i++ {
		ctrl = append(ctrl, ' ')
		if mode == 1 {
			want = append(want, ' ')
		}
	}
	ctrl = append(ctrl, b, '~', 'D')
	want = append(want, b)
	a := zzC15Digit("a0")
	got := zzC15Process(slip.NewScope(), ctrl, slip.List{a})
	want = append(want, byte('0'+int64(a.(slip.Fixnum))))
	vrt.Reach("compared")
	vrt.Assert(got.class == 0, "~newline signalled a condition")
	vrt.Assert(got.pos == 1, "~newline: arguments consumed")
	vrt.Assert(zzC15Same(got.text, want), "~newline text")
}
