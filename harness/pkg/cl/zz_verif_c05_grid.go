package cl

import (
	"math/big"

	"github.com/ohler55/slip"
	vrt "github.com/ohler55/slip/zzvrt"
)

// zzC05GridVals: fixnums at the places where a product, sum or difference of
// two fixnums crosses 2^63: powers of two and their neighbours, the square
// root of 2^63 and of 2^64, 2^62-1 with small factors.
var zzC05GridVals = []int64{0, 1, -1, 2, -2, 3, -3, 1 << 31, 1<<31 - 1, 1<<31 + 1, 1 << 32, 1<<32 - 1, 1<<32 + 1, 3037000499, 3037000500,
	-3037000500, 2147483648 * 3, 1<<62 - 1, 1 << 62, 1<<62 + 1, -(1 << 62), 1<<63 - 1, -1 << 63, -1<<63 + 1, 4611686018427387903 / 3, 6074000999}

// VerifC05Grid: + - * on every ordered pair of the boundary grid (bounded
// enumeration, concrete operands; the engine forks over the second operand):
// exact value against math/big, fixnum exactly when the value fits, operands
// unchanged.  Complements C05.arith, whose operands are fully symbolic: code
// that inspects operands with table lookups (bit lengths) is cheap here.
func VerifC05Grid(op int, i int) {
	a := zzC05GridVals[i]
	b := zzC05GridVals[vrt.Choice("j", len(zzC05GridVals))]
	name := []string{"+", "-", "*"}[op]
	out := zzC05Call(name, slip.Fixnum(a), slip.Fixnum(b))
	vrt.Reach("called")
	vrt.Assert(out.class != 3, "Go run-time fault")
	vrt.Assert(out.class == 0, "arithmetic on fixnums signals")
	want := new(big.Int)
	switch op {
	case 0:
		want.Add(big.NewInt(a), big.NewInt(b))
	case 1:
		want.Sub(big.NewInt(a), big.NewInt(b))
	default:
		want.Mul(big.NewInt(a), big.NewInt(b))
	}
	switch r := out.one.(type) {
	case slip.Fixnum:
		vrt.Assert(want.IsInt64() && want.Int64() == int64(r), "fixnum result is not the exact value (wrapped?)")
	case *slip.Bignum:
		vrt.Assert((*big.Int)(r).Cmp(want) == 0, "bignum result is not the exact value")
		vrt.Assert(!want.IsInt64(), "a value that fits a fixnum is returned as a bignum")
	default:
		vrt.Assert(false, "result of integer arithmetic is not an integer")
	}
}
