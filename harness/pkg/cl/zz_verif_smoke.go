package cl

import (
	"github.com/ohler55/slip"
	vrt "github.com/ohler55/slip/zzvrt"
)

// VerifSmokeEval: evaluate small programs through the real registry.
func VerifSmokeEval() {
	scope := slip.NewScope()
	a := vrt.Int64("a")
	b := vrt.Int64("b")
	vrt.Assume(-1000 < a && a < 1000 && -1000 < b && b < 1000)
	form := slip.List{slip.Symbol("+"), slip.Fixnum(a), slip.List{slip.Symbol("*"), slip.Fixnum(b), slip.Fixnum(2)}}
	res := scope.Eval(form, 0)
	vrt.Reach("evaluated")
	f, ok := res.(slip.Fixnum)
	vrt.Assert(ok && int64(f) == a+2*b, "(+ a (* b 2))")
	code := slip.ReadString("(let ((x 3) (y 4)) (if (< x y) (list x y) nil))", scope)
	r2 := code.Eval(scope, nil)
	vrt.Assert(slip.ObjectString(r2) == "(3 4)", "let/if/list")
	vrt.Note("result", slip.ObjectString(r2))
}
